import VpnCloud.Proofs.C05Lockstep
import VpnCloud.Proofs.C01
/-
  Helper lemmas for `Proofs/C05Agree.lean` (agreement of the handshake for all schedules):
  keys of a handshake core through seal / open, the result of `handleInit` case by case,
  the negotiation result "plain" is symmetric, and the inverse of the message reader on signed regions.
-/
namespace VpnCloud.Proofs.C05AgreeLemmas

open VpnCloud VpnCloud.Init VpnCloud.InitMsg VpnCloud.Codec
open VpnCloud.Proofs.InitLemmas VpnCloud.Proofs.CoreLemmas VpnCloud.Proofs.LockstepLemmas
open VpnCloud.Proofs.InitMsgLemmas
open VpnCloud.Proofs.C16Init (algosWF msgWF)

/-! ## keys of a handshake core -/

/-- slot 0 holds `K`, the nonce half is `H`, and every slot holds `K` or a throw-away key (one satisfying `D`) -/
def CoreKeys (K : KeyRef) (H : Bool) (D : KeyRef → Prop) (c : Core) : Prop :=
  CoreOK K H c ∧ ∀ k ∈ c.slots, k.key = K ∨ D k.key

theorem CoreKeys_new (K : KeyRef) (H : Bool) (D : KeyRef → Prop) (d : KeyRef) (starts : List Nat) (hd : D d) :
    CoreKeys K H D (Core.new K H d starts) := by
  refine ⟨CoreOK_new K H d starts, ?_⟩
  intro k hk
  simp only [Core.new, List.mem_cons, List.not_mem_nil, or_false] at hk
  rcases hk with rfl | rfl | rfl | rfl
  · exact Or.inl rfl
  all_goals exact Or.inr hd

theorem mem_set_key {l : List SlotKey} {i : Nat} {k k' x : SlotKey} (hk : l[i]? = some k) (hkey : k'.key = k.key)
    (hx : x ∈ l.set i k') : ∃ y ∈ l, x.key = y.key := by
  rcases List.mem_or_eq_of_mem_set hx with h | h
  · exact ⟨x, h, rfl⟩
  · exact ⟨k, List.mem_of_getElem? hk, by rw [h, hkey]⟩

theorem CoreKeys_decrypt {K : KeyRef} {H : Bool} {D : KeyRef → Prop} {c : Core} (d : Dgram) (h : CoreKeys K H D c) :
    CoreKeys K H D (c.decrypt d).1 := by
  refine ⟨CoreOK_decrypt K H c d h.1, ?_⟩
  rcases decrypt_cases c d with ⟨e, he⟩ | ⟨k, p, _, _, hk, _, _, hd⟩
  · rw [he]; exact h.2
  · rw [hd]
    intro x hx
    obtain ⟨y, hy, hxy⟩ := mem_set_key hk (by simp only [Spec.C03.slotStep]; split <;> rfl) hx
    rw [hxy]; exact h.2 y hy

theorem CoreKeys_encrypt {K : KeyRef} {H : Bool} {D : KeyRef → Prop} {c : Core} (p : Bytes) (h : CoreKeys K H D c) :
    CoreKeys K H D (c.encrypt p).1 := by
  refine ⟨CoreOK_encrypt K H c p h.1, ?_⟩
  unfold Core.encrypt
  split
  · exact h.2
  · rename_i k hk
    intro x hx
    obtain ⟨y, hy, hxy⟩ := mem_set_key (k' := { k with send := (k.send + 1) % NONCE_MOD }) hk rfl hx
    rw [hxy]; exact h.2 y hy

/-- what a handshake core opens was sealed under its key or under a throw-away key -/
theorem CoreKeys_opens {K : KeyRef} {H : Bool} {D : KeyRef → Prop} {c : Core} (d : Dgram) (p : Bytes) (h : CoreKeys K H D c)
    (hd : (c.decrypt d).2 = .ok p) : ∃ n, d.body = .sealed K n p ∨ ∃ k', D k' ∧ d.body = .sealed k' n p := by
  obtain ⟨_, _, k, hk, hb⟩ := VpnCloud.Proofs.C02.accepted_is_genuine _ _ _ hd
  refine ⟨c.reconstruct d.counter, ?_⟩
  rcases h.2 k (List.mem_of_getElem? hk) with e | e
  · left; rw [hb, e]
  · right; exact ⟨_, e, hb⟩

/-- what a handshake core seals is sealed under the key of slot 0, as long as it sends from slot 0 -/
theorem encrypt_body {K : KeyRef} {H : Bool} {c : Core} (p : Bytes) (h : CoreOK K H c) (hcur : c.cur = 0) :
    ∃ n, (c.encrypt p).2.body = .sealed K n p ∧ (c.encrypt p).1.cur = 0 := by
  unfold Core.encrypt
  rw [hcur]
  have h1 := h.1
  cases hk : c.slots[0]? with
  | none => rw [hk] at h1; cases h1
  | some k =>
    rw [hk] at h1
    simp only [Option.map_some, Option.some.injEq] at h1
    exact ⟨(k.send + 1) % NONCE_MOD, by simp only [h1], rfl⟩

theorem decrypt_cur (c : Core) (d : Dgram) : (c.decrypt d).1.cur = c.cur := by
  rcases decrypt_cases c d with ⟨e, he⟩ | ⟨k, p, _, _, _, _, _, hd⟩
  · rw [he]
  · rw [hd]

/-! ## the negotiation -/

theorem select_none_iff (a b : Algos) : selectAlgorithm a b = .ok none ↔ (a.allowUnencrypted && b.allowUnencrypted) = true := by
  unfold selectAlgorithm
  split
  · rename_i h; simp [h]
  · rename_i h
    constructor
    · intro hh
      simp only at hh
      split at hh <;> cases hh
    · intro hh; exact absurd hh h

theorem select_none_symm (a b : Algos) (h : selectAlgorithm a b = .ok none) : selectAlgorithm b a = .ok none := by
  rw [select_none_iff] at h ⊢
  rw [Bool.and_comm]; exact h

/-! ## `handleInit`, case by case -/

open VpnCloud.Proofs.C05Lockstep (pingSt handleMsg_ping_ok handleMsg_pong_ok handleMsg_peng_ok)

/-- the state after the role switch of a dual open -/
def resetSt (st : InitSt) : InitSt := { st with stage := Generated.STAGE_PING, last := none, ecdh := none }

theorem stageCheck_inr' (st : InitSt) (stage : Nat) (hash : Bytes) (o : Res) (h : stageCheck st stage hash = .inr o) :
    o = .ok st ([], .continue, []) ∨ (∃ l, st.last = some l ∧ o = .ok st (l, .continue, [])) ∨ o = .err st .cryptoInitFatal := by
  unfold stageCheck at h
  by_cases h1 : stage ≠ st.stage
  · rw [if_pos h1] at h
    by_cases h2 : st.stage = Generated.STAGE_PONG ∧ stage = Generated.STAGE_PING
    · rw [if_pos h2] at h
      by_cases h3 : bytesGt hash st.hash = true
      · rw [if_pos h3] at h; cases h
      · rw [if_neg h3] at h
        simp only [Sum.inr.injEq] at h
        exact Or.inl h.symm
    · rw [if_neg h2] at h
      by_cases h3 : st.stage = Generated.CLOSING
      · rw [if_pos h3] at h
        simp only [Sum.inr.injEq] at h
        exact Or.inl h.symm
      · rw [if_neg h3] at h
        cases hl : st.last with
        | none =>
          rw [hl] at h
          simp only [Sum.inr.injEq] at h
          exact Or.inr (Or.inr h.symm)
        | some l =>
          rw [hl] at h
          simp only [Sum.inr.injEq] at h
          exact Or.inr (Or.inl ⟨l, rfl, h.symm⟩)
  · rw [if_neg h1] at h; cases h

theorem stageCheck_inl' (st : InitSt) (stage : Nat) (hash : Bytes) (o : Option InitSt) (h : stageCheck st stage hash = .inl o) :
    (o = some st ∧ stage = st.stage) ∨
    (o = some (resetSt st) ∧ stage = Generated.STAGE_PING ∧ st.stage = Generated.STAGE_PONG ∧ bytesGt hash st.hash = true) := by
  unfold stageCheck at h
  by_cases h1 : stage ≠ st.stage
  · rw [if_pos h1] at h
    by_cases h2 : st.stage = Generated.STAGE_PONG ∧ stage = Generated.STAGE_PING
    · rw [if_pos h2] at h
      by_cases h3 : bytesGt hash st.hash = true
      · rw [if_pos h3] at h
        simp only [Sum.inl.injEq] at h
        exact Or.inr ⟨h.symm, h2.2, h2.1, h3⟩
      · rw [if_neg h3] at h; cases h
    · rw [if_neg h2] at h
      by_cases h3 : st.stage = Generated.CLOSING
      · rw [if_pos h3] at h; cases h
      · rw [if_neg h3] at h
        split at h <;> cases h
  · rw [if_neg h1] at h
    simp only [Sum.inl.injEq] at h
    exact Or.inl ⟨h.symm, Classical.not_not.mp h1⟩

/-- the result of a successful pong -/
def pongRes (env : CryptoEnv) (st5 : InitSt) (rnd : Rand) (p : Bytes) : Res :=
  .ok { (sendMessage env st5 Generated.STAGE_PENG rnd).1 with stage := Generated.WAITING_TO_CLOSE, closeTime := Generated.CLOSE_TIME }
    ((sendMessage env st5 Generated.STAGE_PENG rnd).2.1, .success p true, (sendMessage env st5 Generated.STAGE_PENG rnd).2.2)

/-- the result of an answered ping -/
def pingRes (env : CryptoEnv) (st0 : InitSt) (h e : Bytes) (sel : Option Cipher) (rnd : Rand) : Res :=
  .ok { (sendMessage env (pingSt st0 h e sel rnd) Generated.STAGE_PONG rnd).1 with stage := Generated.STAGE_PENG }
    ((sendMessage env (pingSt st0 h e sel rnd) Generated.STAGE_PONG rnd).2.1, .continue,
     (sendMessage env (pingSt st0 h e sel rnd) Generated.STAGE_PONG rnd).2.2)

/-- all outcomes of `handleInit` -/
inductive Eff (env : CryptoEnv) (bodyOf : BodyOf) (ok : Bytes → Bool) (st : InitSt) (w : Bytes) (rnd : Rand) : Res → Prop
  /-- rejected, ignored or answered by the last message again: the state is unchanged -/
  | quietErr (e : InitErr) : Eff env bodyOf ok st w rnd (.err st e)
  | quietOk (out : Bytes) (h : out = [] ∨ st.last = some out) : Eff env bodyOf ok st w rnd (.ok st (out, .continue, []))
  | panic : Eff env bodyOf ok st w rnd .panic
  | pingErr (h e : Bytes) (al : Algos) (k : Bytes) (st0 : InitSt) (er : InitErr)
      (hr : readFrom env w st.trusted = .ok (.ping h e al, k)) (hne : st.hash ≠ h)
      (hst0 : (st0 = st ∧ st.stage = Generated.STAGE_PING) ∨ (st0 = resetSt st ∧ st.stage = Generated.STAGE_PONG ∧ bytesGt h st.hash = true))
      (hsel : selectAlgorithm st.algos al = .error er) : Eff env bodyOf ok st w rnd (.err { st0 with retries := 0 } er)
  | pingOk (h e : Bytes) (al : Algos) (k : Bytes) (st0 : InitSt) (sel : Option Cipher)
      (hr : readFrom env w st.trusted = .ok (.ping h e al, k)) (hne : st.hash ≠ h)
      (hst0 : (st0 = st ∧ st.stage = Generated.STAGE_PING) ∨ (st0 = resetSt st ∧ st.stage = Generated.STAGE_PONG ∧ bytesGt h st.hash = true))
      (hsel : selectAlgorithm st.algos al = .ok sel) : Eff env bodyOf ok st w rnd (pingRes env st0 h e sel rnd)
  | pongSelErr (hb eb : Bytes) (ab : Algos) (pl k own : Bytes) (er : InitErr)
      (hr : readFrom env w st.trusted = .ok (.pong hb eb ab pl, k)) (hne : st.hash ≠ hb)
      (hstage : st.stage = Generated.STAGE_PONG) (hown : st.ecdh = some own)
      (hsel : selectAlgorithm st.algos ab = .error er) : Eff env bodyOf ok st w rnd (.err { st with retries := 0, ecdh := none } er)
  | pongFail (hb eb : Bytes) (ab : Algos) (pl k own : Bytes) (sel : Option Cipher) (st5 : InitSt) (r : Option Bytes)
      (hr : readFrom env w st.trusted = .ok (.pong hb eb ab pl, k)) (hne : st.hash ≠ hb)
      (hstage : st.stage = Generated.STAGE_PONG) (hown : st.ecdh = some own)
      (hsel : selectAlgorithm st.algos ab = .ok sel)
      (hd : decryptPayload (pongSt st own eb hb sel rnd) bodyOf pl = (st5, r)) : Eff env bodyOf ok st w rnd (.err st5 .cryptoInitFatal)
  | pongOk (hb eb : Bytes) (ab : Algos) (pl k own : Bytes) (sel : Option Cipher) (st5 : InitSt) (p : Bytes)
      (hr : readFrom env w st.trusted = .ok (.pong hb eb ab pl, k)) (hne : st.hash ≠ hb)
      (hstage : st.stage = Generated.STAGE_PONG) (hown : st.ecdh = some own)
      (hsel : selectAlgorithm st.algos ab = .ok sel)
      (hd : decryptPayload (pongSt st own eb hb sel rnd) bodyOf pl = (st5, some p)) (hok : ok p = true) :
      Eff env bodyOf ok st w rnd (pongRes env st5 rnd p)
  | pengFail (hb pl k : Bytes) (st2 : InitSt) (r : Option Bytes)
      (hr : readFrom env w st.trusted = .ok (.peng hb pl, k)) (hne : st.hash ≠ hb)
      (hstage : st.stage = Generated.STAGE_PENG)
      (hd : decryptPayload { st with retries := 0 } bodyOf pl = (st2, r)) : Eff env bodyOf ok st w rnd (.err st2 .cryptoInitFatal)
  | pengOk (hb pl k : Bytes) (st2 : InitSt) (p : Bytes)
      (hr : readFrom env w st.trusted = .ok (.peng hb pl, k)) (hne : st.hash ≠ hb)
      (hstage : st.stage = Generated.STAGE_PENG)
      (hd : decryptPayload { st with retries := 0 } bodyOf pl = (st2, some p)) (hok : ok p = true) :
      Eff env bodyOf ok st w rnd (.ok { st2 with stage := Generated.CLOSING } ([], .success p false, []))

theorem handleMsg_eff (env : CryptoEnv) (bodyOf : BodyOf) (ok : Bytes → Bool) (st : InitSt) (w : Bytes) (rnd : Rand)
    (m : InitMsg) (k : Bytes) (st0 : InitSt) (hr : readFrom env w st.trusted = .ok (m, k)) (hne : st.hash ≠ m.hash)
    (hst0 : (st0 = st ∧ m.stage = st.stage) ∨
      (st0 = resetSt st ∧ m.stage = Generated.STAGE_PING ∧ st.stage = Generated.STAGE_PONG ∧ bytesGt m.hash st.hash = true)) :
    Eff env bodyOf ok st w rnd (handleMsg env bodyOf ok st0 m rnd) := by
  have halg : st0.algos = st.algos := by rcases hst0 with ⟨rfl, _⟩ | ⟨rfl, _⟩ <;> rfl
  cases m with
  | ping h e al =>
    have hst0' : (st0 = st ∧ st.stage = Generated.STAGE_PING) ∨
        (st0 = resetSt st ∧ st.stage = Generated.STAGE_PONG ∧ bytesGt h st.hash = true) := by
      rcases hst0 with ⟨h1, h2⟩ | ⟨h1, _, h3, h4⟩
      · exact Or.inl ⟨h1, h2.symm⟩
      · exact Or.inr ⟨h1, h3, h4⟩
    cases hsel : selectAlgorithm st.algos al with
    | error er =>
      have : handleMsg env bodyOf ok st0 (.ping h e al) rnd = .err { st0 with retries := 0 } er := by
        simp only [handleMsg, halg, hsel]
      rw [this]
      exact .pingErr h e al k st0 er hr hne hst0' hsel
    | ok sel =>
      rw [handleMsg_ping_ok env bodyOf ok st0 h e al rnd sel (by rw [halg]; exact hsel)]
      exact .pingOk h e al k st0 sel hr hne hst0' hsel
  | pong hb eb ab pl =>
    have hs : st0 = st ∧ st.stage = Generated.STAGE_PONG := by
      rcases hst0 with ⟨h1, h2⟩ | ⟨_, h2, _⟩
      · exact ⟨h1, h2.symm⟩
      · simp [InitMsg.stage, Generated.STAGE_PONG, Generated.STAGE_PING] at h2
    obtain ⟨rfl, hstage⟩ := hs
    cases hown : st0.ecdh with
    | none =>
      have : handleMsg env bodyOf ok st0 (.pong hb eb ab pl) rnd = .panic := by simp only [handleMsg, hown]
      rw [this]; exact .panic
    | some own =>
      cases hsel : selectAlgorithm st0.algos ab with
      | error er =>
        have : handleMsg env bodyOf ok st0 (.pong hb eb ab pl) rnd = .err { st0 with retries := 0, ecdh := none } er := by
          simp only [handleMsg, hown, hsel]
        rw [this]
        exact .pongSelErr hb eb ab pl k own er hr hne hstage hown hsel
      | ok sel =>
        cases hd : decryptPayload (pongSt st0 own eb hb sel rnd) bodyOf pl with
        | mk st5 r =>
          cases r with
          | none =>
            have : handleMsg env bodyOf ok st0 (.pong hb eb ab pl) rnd = .err st5 .cryptoInitFatal := by
              simp only [handleMsg, hown, hsel, hd]
            rw [this]
            exact .pongFail hb eb ab pl k own sel st5 none hr hne hstage hown hsel hd
          | some p =>
            cases hok : ok p with
            | false =>
              have : handleMsg env bodyOf ok st0 (.pong hb eb ab pl) rnd = .err st5 .cryptoInitFatal := by
                simp only [handleMsg, hown, hsel, hd, hok, Bool.not_false, if_true]
              rw [this]
              exact .pongFail hb eb ab pl k own sel st5 (some p) hr hne hstage hown hsel hd
            | true =>
              rw [handleMsg_pong_ok env bodyOf ok st0 hb eb ab pl rnd own sel st5 p hown hsel hd hok]
              exact .pongOk hb eb ab pl k own sel st5 p hr hne hstage hown hsel hd hok
  | peng hb pl =>
    have hs : st0 = st ∧ st.stage = Generated.STAGE_PENG := by
      rcases hst0 with ⟨h1, h2⟩ | ⟨_, h2, _⟩
      · exact ⟨h1, h2.symm⟩
      · simp [InitMsg.stage, Generated.STAGE_PENG, Generated.STAGE_PING] at h2
    obtain ⟨rfl, hstage⟩ := hs
    cases hd : decryptPayload { st0 with retries := 0 } bodyOf pl with
    | mk st2 r =>
      cases r with
      | none =>
        have : handleMsg env bodyOf ok st0 (.peng hb pl) rnd = .err st2 .cryptoInitFatal := by
          simp only [handleMsg, hd]
        rw [this]
        exact .pengFail hb pl k st2 none hr hne hstage hd
      | some p =>
        cases hok : ok p with
        | false =>
          have : handleMsg env bodyOf ok st0 (.peng hb pl) rnd = .err st2 .cryptoInitFatal := by
            simp only [handleMsg, hd, hok, Bool.not_false, if_true]
          rw [this]
          exact .pengFail hb pl k st2 (some p) hr hne hstage hd
        | true =>
          rw [handleMsg_peng_ok env bodyOf ok st0 hb pl rnd st2 p hd hok]
          exact .pengOk hb pl k st2 p hr hne hstage hd hok

/-- **every outcome of `handleInit` is one of the cases of `Eff`** -/
theorem handleInit_eff (env : CryptoEnv) (bodyOf : BodyOf) (ok : Bytes → Bool) (st : InitSt) (w : Bytes) (rnd : Rand) :
    Eff env bodyOf ok st w rnd (handleInit env bodyOf ok st w rnd) := by
  rw [handleInit_eq]
  cases hr : readFrom env w st.trusted with
  | error e => exact .quietErr e
  | ok mk =>
    obtain ⟨m, k⟩ := mk
    simp only
    by_cases hc : (st.hash = m.hash || checkSaltedNodeIdHash env m.hash st.nodeId) = true
    · rw [if_pos hc]; exact .quietErr _
    · rw [if_neg hc]
      have hne : st.hash ≠ m.hash := by
        intro e; apply hc; simp [e]
      cases hs : stageCheck st m.stage m.hash with
      | inr o =>
        simp only
        rcases stageCheck_inr' _ _ _ _ hs with rfl | ⟨l, hl, rfl⟩ | rfl
        · exact .quietOk [] (Or.inl rfl)
        · exact .quietOk l (Or.inr hl)
        · exact .quietErr _
      | inl o =>
        rcases stageCheck_inl' _ _ _ _ hs with ⟨rfl, h2⟩ | ⟨rfl, h2⟩
        · exact handleMsg_eff env bodyOf ok st w rnd m k st hr hne (Or.inl ⟨rfl, h2⟩)
        · exact handleMsg_eff env bodyOf ok st w rnd m k _ hr hne (Or.inr ⟨rfl, h2⟩)

/-! ## the states after the cases -/

/-- the fields of a handshake object that never change -/
def Static (st st' : InitSt) : Prop :=
  st'.nodeId = st.nodeId ∧ st'.hash = st.hash ∧ st'.payload = st.payload ∧ st'.ownKey = st.ownKey ∧ st'.trusted = st.trusted ∧
  st'.algos = st.algos

theorem Static.refl (st : InitSt) : Static st st := ⟨rfl, rfl, rfl, rfl, rfl, rfl⟩

theorem Static.trans {a b c : InitSt} (h1 : Static a b) (h2 : Static b c) : Static a c := by
  obtain ⟨a1, a2, a3, a4, a5, a6⟩ := h1
  obtain ⟨b1, b2, b3, b4, b5, b6⟩ := h2
  exact ⟨b1.trans a1, b2.trans a2, b3.trans a3, b4.trans a4, b5.trans a5, b6.trans a6⟩

/-- `decryptPayload` in full: without a core the data is the payload; with a core the core opens it -/
theorem decryptPayload_cases (s s' : InitSt) (bodyOf : BodyOf) (data : Bytes) (r : Option Bytes)
    (h : decryptPayload s bodyOf data = (s', r)) :
    (s.crypto = none ∧ s' = s ∧ r = some data) ∨
    (∃ c, s.crypto = some c ∧ s' = { s with crypto := some (c.decrypt { hdr := data.take 8, body := bodyOf (data.drop 8) }).1 } ∧
      ∀ p, r = some p → (c.decrypt { hdr := data.take 8, body := bodyOf (data.drop 8) }).2 = .ok p) := by
  cases hc : s.crypto with
  | none =>
    rw [decryptPayload_none s bodyOf data hc] at h
    simp only [Prod.mk.injEq] at h
    exact Or.inl ⟨rfl, h.1.symm, h.2.symm⟩
  | some c =>
    refine Or.inr ⟨c, rfl, ?_⟩
    unfold decryptPayload at h
    rw [hc] at h
    simp only at h
    split at h
    · rename_i p' hp
      simp only [Prod.mk.injEq] at h
      refine ⟨h.1.symm, ?_⟩
      intro p hp'
      rw [← h.2] at hp'
      simp only [Option.some.injEq] at hp'
      rw [← hp']; exact hp
    · simp only [Prod.mk.injEq] at h
      refine ⟨h.1.symm, ?_⟩
      intro p hp'
      rw [← h.2] at hp'
      cases hp'

theorem encrypt_hdr_length (c : Core) (p : Bytes) (k : SlotKey) (hk : c.slots[c.cur]? = some k) : (c.encrypt p).2.hdr.length = 8 := by
  unfold Core.encrypt
  rw [hk]
  simp [ofBE_length]

/-- the payload field and seal log that `encryptPayload` produces with a handshake core -/
theorem encryptPayload_keys (st : InitSt) (rnd : Rand) (core : Core) (K : KeyRef) (H : Bool) (hc : st.crypto = some core)
    (hk : CoreOK K H core) (hcur : core.cur = 0) :
    ∃ n, (encryptPayload st rnd).1 = { st with crypto := some (core.encrypt st.payload).1 } ∧
      ((encryptPayload st rnd).2.1).drop 8 = rnd.ct ∧ ((encryptPayload st rnd).2.1).length = 8 + rnd.ct.length ∧
      (encryptPayload st rnd).2.2 = [(rnd.ct, .sealed K n st.payload)] ∧ (core.encrypt st.payload).1.cur = 0 := by
  obtain ⟨n, hb, hcur'⟩ := encrypt_body st.payload hk hcur
  have hs : ∃ k, core.slots[core.cur]? = some k := by
    rw [hcur]
    have h1 := hk.1
    cases h0 : core.slots[0]? with
    | none => rw [h0] at h1; cases h1
    | some k => exact ⟨k, rfl⟩
  obtain ⟨k, hk'⟩ := hs
  have hl := encrypt_hdr_length core st.payload k hk'
  rw [encryptPayload_some st rnd core hc]
  refine ⟨n, rfl, ?_, ?_, ?_, hcur'⟩
  · exact List.drop_left' hl
  · simp only [List.length_append, hl]
  · simp only [hb]

/-- the datagram of message `m` of `st` with the random parts `rnd` -/
def wireOf (env : CryptoEnv) (st : InitSt) (m : InitMsg) (rnd : Rand) : Bytes :=
  writeTo m rnd.salt (env.keyHash st.ownKey rnd.salt) rnd.sig

/-- a ping answered with a cipher: the new state, the pong and the seal log -/
theorem pingRes_some (env : CryptoEnv) (st0 : InitSt) (h e : Bytes) (c : Cipher) (rnd : Rand) :
    ∃ core n pl, pingRes env st0 h e (some c) rnd =
        .ok { st0 with retries := 0, selected := some c, crypto := some core,
                       last := some (wireOf env st0 (.pong st0.hash rnd.ecdhPub st0.algos pl) rnd), stage := Generated.STAGE_PENG }
          (wireOf env st0 (.pong st0.hash rnd.ecdhPub st0.algos pl) rnd, .continue,
           [(rnd.ct, .sealed (masterKey c rnd.ecdhPub e) n st0.payload)]) ∧
      pl.drop 8 = rnd.ct ∧ pl.length = 8 + rnd.ct.length ∧ core.cur = 0 ∧
      ∀ D : KeyRef → Prop, D rnd.dummy → CoreKeys (masterKey c rnd.ecdhPub e) (bytesGt st0.hash h) D core := by
  have hc : (pingSt st0 h e (some c) rnd).crypto =
      some (Core.new (masterKey c rnd.ecdhPub e) (bytesGt st0.hash h) rnd.dummy (rnd.start :: rnd.starts123)) := rfl
  obtain ⟨n, e1, e2, e3, e4, e5⟩ := encryptPayload_keys (pingSt st0 h e (some c) rnd) rnd _ _ _ hc (CoreOK_new _ _ _ _) rfl
  refine ⟨_, n, (encryptPayload (pingSt st0 h e (some c) rnd) rnd).2.1, ?_, e2, e3, e5, ?_⟩
  · unfold pingRes
    rw [sendMessage_pong]
    simp only [e1, e4]
    rfl
  · intro D hD
    exact CoreKeys_encrypt _ (CoreKeys_new _ _ D _ _ hD)

/-- a ping answered without cipher by an object without core -/
theorem pingRes_none (env : CryptoEnv) (st0 : InitSt) (h e : Bytes) (rnd : Rand) (hcr : st0.crypto = none) :
    pingRes env st0 h e none rnd =
      .ok { st0 with retries := 0, selected := none,
                     last := some (wireOf env st0 (.pong st0.hash rnd.ecdhPub st0.algos st0.payload) rnd), stage := Generated.STAGE_PENG }
        (wireOf env st0 (.pong st0.hash rnd.ecdhPub st0.algos st0.payload) rnd, .continue, []) := by
  have hc : (pingSt st0 h e none rnd).crypto = none := hcr
  unfold pingRes
  rw [sendMessage_pong, encryptPayload_none _ _ hc]
  rfl

/-- a pong accepted with a cipher: the new state, the peng, the seal log, and what was opened -/
theorem pongRes_some (env : CryptoEnv) (bodyOf : BodyOf) (st : InitSt) (own eb hb : Bytes) (c : Cipher) (rnd : Rand) (pl : Bytes)
    (st5 : InitSt) (p : Bytes) (hd : decryptPayload (pongSt st own eb hb (some c) rnd) bodyOf pl = (st5, some p)) :
    ∃ core n pl', pongRes env st5 rnd p =
        .ok { st with retries := 0, ecdh := none, selected := some c, crypto := some core,
                      last := some (wireOf env st (.peng st.hash pl') rnd), stage := Generated.WAITING_TO_CLOSE,
                      closeTime := Generated.CLOSE_TIME }
          (wireOf env st (.peng st.hash pl') rnd, .success p true, [(rnd.ct, .sealed (masterKey c own eb) n st.payload)]) ∧
      pl'.drop 8 = rnd.ct ∧ pl'.length = 8 + rnd.ct.length ∧ core.cur = 0 ∧
      ∀ D : KeyRef → Prop, D rnd.dummy → CoreKeys (masterKey c own eb) (bytesGt st.hash hb) D core ∧
        ∃ m, bodyOf (pl.drop 8) = .sealed (masterKey c own eb) m p ∨ ∃ k', D k' ∧ bodyOf (pl.drop 8) = .sealed k' m p := by
  have hsome : (pongSt st own eb hb (some c) rnd).crypto =
      some (Core.new (masterKey c own eb) (bytesGt st.hash hb) rnd.dummy (rnd.start :: rnd.starts123)) := rfl
  rcases decryptPayload_cases _ _ _ _ _ hd with ⟨h1, _⟩ | ⟨c0, h1, h2, h3⟩
  · rw [hsome] at h1; cases h1
  rw [hsome] at h1
  simp only [Option.some.injEq] at h1
  subst h1
  have hdec := h3 p rfl
  have hc5 : st5.crypto = some ((Core.new (masterKey c own eb) (bytesGt st.hash hb) rnd.dummy (rnd.start :: rnd.starts123)).decrypt
      { hdr := pl.take 8, body := bodyOf (pl.drop 8) }).1 := by rw [h2]
  have hok1 := CoreOK_decrypt _ _ _ { hdr := pl.take 8, body := bodyOf (pl.drop 8) }
    (CoreOK_new (masterKey c own eb) (bytesGt st.hash hb) rnd.dummy (rnd.start :: rnd.starts123))
  obtain ⟨n, e1, e2, e3, e4, e5⟩ := encryptPayload_keys st5 rnd _ _ _ hc5 hok1 (by rw [decrypt_cur]; rfl)
  refine ⟨_, n, (encryptPayload st5 rnd).2.1, ?_, e2, e3, e5, ?_⟩
  · unfold pongRes
    rw [sendMessage_peng]
    simp only [e1, e4]
    rw [h2]
    rfl
  · intro D hD
    have hk0 := CoreKeys_new (masterKey c own eb) (bytesGt st.hash hb) D rnd.dummy (rnd.start :: rnd.starts123) hD
    refine ⟨?_, ?_⟩
    · have := CoreKeys_encrypt st5.payload (CoreKeys_decrypt { hdr := pl.take 8, body := bodyOf (pl.drop 8) } hk0)
      exact this
    · exact CoreKeys_opens _ _ hk0 hdec

/-- a pong accepted without cipher by an object without core -/
theorem pongRes_none (env : CryptoEnv) (bodyOf : BodyOf) (st : InitSt) (own eb hb : Bytes) (rnd : Rand) (pl : Bytes)
    (st5 : InitSt) (p : Bytes) (hcr : st.crypto = none) (hd : decryptPayload (pongSt st own eb hb none rnd) bodyOf pl = (st5, some p)) :
    p = pl ∧ pongRes env st5 rnd p =
      .ok { st with retries := 0, ecdh := none, selected := none,
                    last := some (wireOf env st (.peng st.hash st.payload) rnd), stage := Generated.WAITING_TO_CLOSE,
                    closeTime := Generated.CLOSE_TIME }
        (wireOf env st (.peng st.hash st.payload) rnd, .success p true, []) := by
  have hnone : (pongSt st own eb hb none rnd).crypto = none := hcr
  rw [decryptPayload_none _ _ _ hnone] at hd
  simp only [Prod.mk.injEq, Option.some.injEq] at hd
  obtain ⟨h5, hp⟩ := hd
  subst h5
  refine ⟨hp.symm, ?_⟩
  unfold pongRes
  rw [sendMessage_peng, encryptPayload_none _ _ hnone]
  rfl

/-! ## the reader on a signed region -/

/-- a window that starts with the signed region of a well-formed message `m'` is read as `m'` or not at all -/
theorem readFrom_signed_inv (env : CryptoEnv) (m' : InitMsg) (salt kh tail : Bytes) (T : List Bytes) (m : InitMsg) (k : Bytes)
    (hm : msgWF m') (hsalt : salt.length = 4) (hkh : kh.length = 4)
    (h : readFrom env (signedRegion m' salt kh ++ tail) T = .ok (m, k)) : m = m' := by
  have hrf : ∀ fuel, 6 ≤ fuel → ∀ rest,
      readFields fuel (partsOf m' ++ Generated.PART_END :: rest) {} = .ok (fieldsOf m', rest) := by
    intro fuel hf rest
    apply readFields_parts m' fuel hf rest
    · cases m' <;> exact hm.1
    · rintro h e a rfl; exact ⟨hm.2.1, hm.2.2.1, hm.2.2.2⟩
    · rintro h e a p rfl; exact ⟨hm.2.1, hm.2.2.1.1, hm.2.2.1.2, hm.2.2.2⟩
    · rintro h p rfl; exact hm.2
  have e0 : signedRegion m' salt kh ++ tail = salt ++ (kh ++ (partsOf m' ++ Generated.PART_END :: tail)) := by
    rw [signedRegion_eq]; simp
  have e1 : take? 4 (salt ++ (kh ++ (partsOf m' ++ Generated.PART_END :: tail))) =
      some (salt, kh ++ (partsOf m' ++ Generated.PART_END :: tail)) := CodecLemmas.take?_append 4 _ _ hsalt
  have e2 : take? 4 (kh ++ (partsOf m' ++ Generated.PART_END :: tail)) =
      some (kh, partsOf m' ++ Generated.PART_END :: tail) := CodecLemmas.take?_append 4 _ _ hkh
  have e3 := hrf ((partsOf m' ++ Generated.PART_END :: tail).length + 1)
    (by have := partsOf_length m'; simp only [List.length_append, List.length_cons]; omega) tail
  rw [e0] at h
  unfold readFrom at h
  simp only [e1, e2] at h
  split at h
  · cases h
  rename_i pk hf
  simp only [e3] at h
  split at h
  · cases h
  split at h
  · cases h
  split at h
  · cases h
  have ha : assemble (fieldsOf m') pk = .ok (m, k) := h
  rw [assemble_fieldsOf] at ha
  simp only [Except.ok.injEq, Prod.mk.injEq] at ha
  exact ha.1.symm

/-! ## the two-party invariant -/

open VpnCloud.Proofs.C05Lockstep (EcdhWF)

/-- a key reference that is no master key (the throw-away keys of slots 1..3 of a new core are drawn at random) -/
def NotMaster (d : KeyRef) : Prop := ∀ c x y, d ≠ masterKey c x y

/-- side conditions on the random parts of a step (widths, and: the ephemeral key is a 32-byte string, the throw-away key is
    no master key) -/
structure RandOK (env : CryptoEnv) (st : InitSt) (rnd : Rand) : Prop where
  salt : rnd.salt.length = 4
  keyHash : (env.keyHash st.ownKey rnd.salt).length = 4
  ecdh : EcdhWF rnd.ecdhPub
  dummy : NotMaster rnd.dummy
  ct : rnd.ct.length + 8 < 65536

/-- (I1), ideal signatures, for the window `w` delivered to an object with trusted keys `T`: whatever part of `w` verifies as signed by
    a trusted key was signed (exactly these bytes) by an honest holder of that key -/
def I1 (env : CryptoEnv) (sigs : List (Bytes × Bytes)) (T : List Bytes) (w : Bytes) : Prop :=
  ∀ signed sig rest k, w = signed ++ [sig.length] ++ sig ++ rest → k ∈ T → env.sigVerify k signed sig = true → (k, signed) ∈ sigs

/-- the signature an object has just made: when it stored a new last message `out`, the signed region of `out` (all but the length byte
    and the signature) under its key -/
def newSig (st st' : InitSt) (out : Bytes) (rnd : Rand) : List (Bytes × Bytes) :=
  if st'.last = some out ∧ st.last ≠ some out then [(st.ownKey, out.take (out.length - (rnd.sig.length + 1)))] else []

/-- ghost: the ping answer of an object: its own ephemeral key (in the pong), the one of the ping, the cipher selected -/
structure Resp where
  own : Bytes
  peer : Bytes
  sel : Option Cipher

/-- ghost: a reported success with the ephemeral keys and the cipher it was computed from -/
structure Done where
  payload : Bytes
  isInit : Bool
  own : Bytes
  peer : Bytes
  sel : Option Cipher

structure Ghost where
  resp : Option Resp := none
  dn : List Done := []

def Ghost.le (g g' : Ghost) : Prop := (∀ r, g.resp = some r → g'.resp = some r) ∧ ∀ d ∈ g.dn, d ∈ g'.dn

theorem Ghost.le_refl (g : Ghost) : g.le g := ⟨fun _ h => h, fun _ h => h⟩

/-- the payload field `pl` carries `payload`: sealed under the master key of (`own`, `peer`), or in the clear -/
def PayloadBy (seals : SealLog) (payload : Bytes) (sel : Option Cipher) (own peer pl : Bytes) : Prop :=
  match sel with
  | some c => ∃ n, (pl.drop 8, Body.sealed (masterKey c own peer) n payload) ∈ seals
  | none => pl = payload

/-- what the signed messages of object `x` say (`pong_binds`, `peng_binds`) -/
def MsgBy (x : InitSt) (g : Ghost) (seals : SealLog) : InitMsg → Prop
  | .ping _ e al => al = x.algos ∧ EcdhWF e
  | .pong _ e al pl => al = x.algos ∧ EcdhWF e ∧ ∃ r, g.resp = some r ∧ e = r.own ∧ PayloadBy seals x.payload r.sel r.own r.peer pl
  | .peng _ pl => ∃ d ∈ g.dn, d.isInit = true ∧ PayloadBy seals x.payload d.sel d.own d.peer pl

def Logged (sigs : List (Bytes × Bytes)) (m : InitMsg) : Prop :=
  ∃ k salt kh, (k, signedRegion m salt kh) ∈ sigs ∧ salt.length = 4 ∧ kh.length = 4 ∧ msgWF m

/-- what the object opened when it completed: a body sealed under its master key (or under a throw-away key), or the plain payload -/
def Opened (bodyOf : BodyOf) (d : Done) (pl : Bytes) : Prop :=
  match d.sel with
  | some c => ∃ n, bodyOf (pl.drop 8) = .sealed (masterKey c d.own d.peer) n d.payload ∨
      ∃ k', NotMaster k' ∧ bodyOf (pl.drop 8) = .sealed k' n d.payload
  | none => d.payload = pl

/-- the core of an object that negotiated `sel` with the ephemeral keys `own`, `peer` -/
def CoreFor (x y : InitSt) (sel : Option Cipher) (own peer : Bytes) : Prop :=
  ∀ c, sel = some c → ∃ core, x.crypto = some core ∧ CoreKeys (masterKey c own peer) (bytesGt x.hash y.hash) NotMaster core

structure DoneOK (bodyOf : BodyOf) (x y : InitSt) (g : Ghost) (sigs : List (Bytes × Bytes)) (d : Done) : Prop where
  stage : x.stage = Generated.WAITING_TO_CLOSE ∨ x.stage = Generated.CLOSING
  sel : selectAlgorithm x.algos y.algos = .ok d.sel
  selected : x.selected = d.sel
  own : EcdhWF d.own
  peer : EcdhWF d.peer
  core : CoreFor x y d.sel d.own d.peer
  ini : d.isInit = true → g.resp = none ∧ ∃ al pl, Logged sigs (.pong y.hash d.peer al pl) ∧ Opened bodyOf d pl
  rsp : d.isInit = false → ∃ pl, Logged sigs (.peng y.hash pl) ∧ Opened bodyOf d pl

/-- invariant of one object `x` (peer `y`: only its hash and algorithms are used) -/
structure ObjInv (bodyOf : BodyOf) (x y : InitSt) (g : Ghost) (done : List (Bytes × Bool)) (sigs : List (Bytes × Bytes)) : Prop where
  done_eq : done = g.dn.map (fun d => (d.payload, d.isInit))
  l1 : ∀ core, x.crypto = some core → ∃ c, selectAlgorithm x.algos y.algos = .ok (some c)
  e1 : ∀ own, x.ecdh = some own → EcdhWF own
  s1 : x.stage = Generated.STAGE_PING → g.resp = none ∧ g.dn = []
  s2 : x.stage = Generated.STAGE_PONG → g.resp = none ∧ g.dn = []
  s3 : x.stage = Generated.STAGE_PENG → g.dn = [] ∧ ∃ r, g.resp = some r ∧ x.selected = r.sel ∧ CoreFor x y r.sel r.own r.peer
  r : ∀ r, g.resp = some r → selectAlgorithm x.algos y.algos = .ok r.sel ∧ EcdhWF r.own ∧ EcdhWF r.peer ∧
        ∀ d ∈ g.dn, d.isInit = false ∧ d.own = r.own ∧ d.peer = r.peer
  len : g.dn.length ≤ 1
  d : ∀ d ∈ g.dn, DoneOK bodyOf x y g sigs d

/-- every logged signature is over the signed region of a well-formed message of one of the two objects, which says what `MsgBy` says -/
def SigInv (x y : InitSt) (gx gy : Ghost) (sigs : List (Bytes × Bytes)) (seals : SealLog) : Prop :=
  ∀ k r, (k, r) ∈ sigs → ∃ m salt kh, r = signedRegion m salt kh ∧ salt.length = 4 ∧ kh.length = 4 ∧ msgWF m ∧
    ((m.hash = x.hash ∧ MsgBy x gx seals m) ∨ (m.hash = y.hash ∧ MsgBy y gy seals m))

structure WfObj (x : InitSt) : Prop where
  hash : x.hash.length = 20
  algos : algosWF x.algos
  payload : x.payload.length < 65536

structure Inv2 (bodyOf : BodyOf) (x y : InitSt) (gx gy : Ghost) (dx dy : List (Bytes × Bool)) (sigs : List (Bytes × Bytes))
    (seals : SealLog) : Prop where
  ox : ObjInv bodyOf x y gx dx sigs
  oy : ObjInv bodyOf y x gy dy sigs
  sig : SigInv x y gx gy sigs seals
  wx : WfObj x
  wy : WfObj y
  hne : Bytes.beVal x.hash ≠ Bytes.beVal y.hash

theorem Inv2.swap {bodyOf : BodyOf} {x y : InitSt} {gx gy : Ghost} {dx dy : List (Bytes × Bool)} {sigs : List (Bytes × Bytes)}
    {seals : SealLog} (h : Inv2 bodyOf x y gx gy dx dy sigs seals) : Inv2 bodyOf y x gy gx dy dx sigs seals :=
  ⟨h.oy, h.ox, fun k r hk => by
      obtain ⟨m, salt, kh, h1, h2, h3, h4, h5⟩ := h.sig k r hk
      exact ⟨m, salt, kh, h1, h2, h3, h4, h5.symm⟩, h.wy, h.wx, fun e => h.hne e.symm⟩

/-! ### monotonicity -/

theorem PayloadBy.mono {seals seals' : SealLog} {payload : Bytes} {sel : Option Cipher} {own peer pl : Bytes}
    (h : PayloadBy seals payload sel own peer pl) (hs : ∀ e ∈ seals, e ∈ seals') : PayloadBy seals' payload sel own peer pl := by
  unfold PayloadBy at h ⊢
  cases sel with
  | none => exact h
  | some c => obtain ⟨n, hn⟩ := h; exact ⟨n, hs _ hn⟩

theorem MsgBy.mono {x x' : InitSt} {g g' : Ghost} {seals seals' : SealLog} {m : InitMsg} (h : MsgBy x g seals m)
    (hst : Static x x') (hg : g.le g') (hs : ∀ e ∈ seals, e ∈ seals') : MsgBy x' g' seals' m := by
  obtain ⟨_, _, hp, _, _, ha⟩ := hst
  cases m with
  | ping h e al => exact ⟨by rw [ha]; exact h.1, h.2⟩
  | pong hh e al pl =>
    obtain ⟨h1, h2, r, h3, h4, h5⟩ := h
    exact ⟨by rw [ha]; exact h1, h2, r, hg.1 r h3, h4, by rw [hp]; exact h5.mono hs⟩
  | peng hh pl =>
    obtain ⟨d, h1, h2, h3⟩ := h
    exact ⟨d, hg.2 d h1, h2, by rw [hp]; exact h3.mono hs⟩

theorem Logged.mono {sigs sg : List (Bytes × Bytes)} {m : InitMsg} (h : Logged sigs m) : Logged (sigs ++ sg) m := by
  obtain ⟨k, salt, kh, hk, hw⟩ := h
  exact ⟨k, salt, kh, List.mem_append_left _ hk, hw⟩

theorem CoreFor.peer {x y y' : InitSt} {sel : Option Cipher} {own peer : Bytes} (h : CoreFor x y sel own peer) (hy : y'.hash = y.hash) :
    CoreFor x y' sel own peer := by
  intro c hc
  rw [hy]; exact h c hc

theorem DoneOK.mono {bodyOf : BodyOf} {x y y' : InitSt} {g : Ghost} {sigs sg : List (Bytes × Bytes)} {d : Done}
    (h : DoneOK bodyOf x y g sigs d) (hy : Static y y') : DoneOK bodyOf x y' g (sigs ++ sg) d := by
  obtain ⟨_, hh, _, _, _, ha⟩ := hy
  refine ⟨h.stage, by rw [ha]; exact h.sel, h.selected, h.own, h.peer, h.core.peer hh, ?_, ?_⟩
  · intro hi
    obtain ⟨h1, al, pl, h2, h3⟩ := h.ini hi
    exact ⟨h1, al, pl, by rw [hh]; exact h2.mono, h3⟩
  · intro hi
    obtain ⟨pl, h2, h3⟩ := h.rsp hi
    exact ⟨pl, by rw [hh]; exact h2.mono, h3⟩

/-- the invariant of an object is untouched by a step of its peer -/
theorem ObjInv.mono {bodyOf : BodyOf} {x y y' : InitSt} {g : Ghost} {done : List (Bytes × Bool)} {sigs sg : List (Bytes × Bytes)}
    (h : ObjInv bodyOf x y g done sigs) (hy : Static y y') : ObjInv bodyOf x y' g done (sigs ++ sg) := by
  have hh := hy.2.1
  have ha := hy.2.2.2.2.2
  refine ⟨h.done_eq, ?_, h.e1, h.s1, h.s2, ?_, ?_, h.len, fun d hd => (h.d d hd).mono hy⟩
  · intro core hc; rw [ha]; exact h.l1 core hc
  · intro hs
    obtain ⟨h1, r, h2, h3, h4⟩ := h.s3 hs
    exact ⟨h1, r, h2, h3, h4.peer hh⟩
  · intro r hr
    rw [ha]; exact h.r r hr

theorem WfObj.of_static {x x' : InitSt} (h : WfObj x) (hst : Static x x') : WfObj x' := by
  obtain ⟨_, hh, hp, _, _, ha⟩ := hst
  exact ⟨by rw [hh]; exact h.hash, by rw [ha]; exact h.algos, by rw [hp]; exact h.payload⟩

section
variable {bodyOf : BodyOf} {x y : InitSt} {gx gy : Ghost} {dx dy : List (Bytes × Bool)} {sigs : List (Bytes × Bytes)} {seals : SealLog}

/-- a step of `x`: new state with the same static fields, grown ghost, new signatures that say what `MsgBy` says, new seals -/
theorem Inv2.update (h : Inv2 bodyOf x y gx gy dx dy sigs seals) {x' : InitSt} {gx' : Ghost} {dx' : List (Bytes × Bool)}
    {sg : List (Bytes × Bytes)} {log : SealLog} (hst : Static x x') (hle : gx.le gx')
    (hox : ObjInv bodyOf x' y gx' dx' (sigs ++ sg))
    (hsg : ∀ k r, (k, r) ∈ sg → ∃ m salt kh, r = signedRegion m salt kh ∧ salt.length = 4 ∧ kh.length = 4 ∧ msgWF m ∧
      m.hash = x'.hash ∧ MsgBy x' gx' (seals ++ log) m) :
    Inv2 bodyOf x' y gx' gy dx' dy (sigs ++ sg) (seals ++ log) := by
  have hh : x'.hash = x.hash := hst.2.1
  refine ⟨hox, h.oy.mono hst, ?_, h.wx.of_static hst, h.wy, by rw [hh]; exact h.hne⟩
  intro k r hk
  rcases List.mem_append.1 hk with hk | hk
  · obtain ⟨m, salt, kh, h1, h2, h3, h4, h5⟩ := h.sig k r hk
    refine ⟨m, salt, kh, h1, h2, h3, h4, ?_⟩
    rcases h5 with ⟨h5, h6⟩ | ⟨h5, h6⟩
    · exact Or.inl ⟨by rw [hh]; exact h5, h6.mono hst hle (fun e he => List.mem_append_left _ he)⟩
    · exact Or.inr ⟨h5, h6.mono (Static.refl y) (Ghost.le_refl gy) (fun e he => List.mem_append_left _ he)⟩
  · obtain ⟨m, salt, kh, h1, h2, h3, h4, h5, h6⟩ := hsg k r hk
    exact ⟨m, salt, kh, h1, h2, h3, h4, Or.inl ⟨h5, h6⟩⟩

/-- **every accepted message of the other node was signed by the peer object** (from I1): it is logged, and says what `MsgBy` says -/
theorem Inv2.bridge (h : Inv2 bodyOf x y gx gy dx dy sigs seals) (env : CryptoEnv) {w : Bytes} {m : InitMsg} {k : Bytes}
    (hI : I1 env sigs x.trusted w) (hr : readFrom env w x.trusted = .ok (m, k)) (hne : x.hash ≠ m.hash) :
    m.hash = y.hash ∧ MsgBy y gy seals m ∧ Logged sigs m := by
  obtain ⟨hk, _, signed, sig, rest, hw, hv⟩ := VpnCloud.Proofs.C01.readFrom_accept_genuine env w x.trusted m k hr
  have hmem := hI signed sig rest k hw hk hv
  obtain ⟨m', salt, kh, h1, h2, h3, h4, h5⟩ := h.sig k signed hmem
  have hw' : w = signedRegion m' salt kh ++ ([sig.length] ++ sig ++ rest) := by rw [hw, h1]; simp
  rw [hw'] at hr
  have hm := readFrom_signed_inv env m' salt kh _ x.trusted m k h4 h2 h3 hr
  subst hm
  rcases h5 with ⟨h5, _⟩ | ⟨h5, h6⟩
  · exact absurd h5.symm hne
  · exact ⟨h5, h6, k, salt, kh, by rw [← h1]; exact hmem, h2, h3, h4⟩

end

/-! ### signatures of new messages -/

theorem wire_region (env : CryptoEnv) (st : InitSt) (m : InitMsg) (rnd : Rand) :
    (wireOf env st m rnd).take ((wireOf env st m rnd).length - (rnd.sig.length + 1)) =
      signedRegion m rnd.salt (env.keyHash st.ownKey rnd.salt) := by
  unfold wireOf writeTo
  rw [List.append_assoc]
  apply List.take_left'
  simp only [List.length_append, List.length_cons, List.length_nil]
  omega

theorem newSig_wire {env : CryptoEnv} {st st' : InitSt} {m : InitMsg} {rnd : Rand} {k r : Bytes}
    (h : (k, r) ∈ newSig st st' (wireOf env st m rnd) rnd) :
    r = signedRegion m rnd.salt (env.keyHash st.ownKey rnd.salt) := by
  unfold newSig at h
  split at h
  · simp only [List.mem_singleton, Prod.mk.injEq] at h
    rw [h.2, wire_region]
  · cases h

theorem newSig_same (st : InitSt) (out : Bytes) (rnd : Rand) : newSig st st out rnd = [] := by
  unfold newSig
  rw [if_neg]
  intro h
  exact h.2 h.1

theorem newSig_nil (st st' : InitSt) (rnd : Rand) (h : st'.last ≠ some []) : newSig st st' [] rnd = [] := by
  unfold newSig
  rw [if_neg]
  intro hh
  exact h hh.1

/-! ### the steps of one object -/

section
variable {bodyOf : BodyOf} {x y : InitSt} {g : Ghost} {done : List (Bytes × Bool)} {sigs : List (Bytes × Bytes)}

/-- timers: the stage stays or becomes CLOSING, counters change -/
theorem ObjInv.restage (h : ObjInv bodyOf x y g done sigs) (s' ct rt : Nat) (hs : s' = x.stage ∨ s' = Generated.CLOSING) :
    ObjInv bodyOf { x with stage := s', closeTime := ct, retries := rt } y g done sigs := by
  refine ⟨h.done_eq, h.l1, h.e1, ?_, ?_, ?_, h.r, h.len, ?_⟩
  · intro e
    rcases hs with hs | hs
    · exact h.s1 (hs ▸ e)
    · have e' : s' = _ := e
      rw [hs] at e'; exact absurd e' (by decide)
  · intro e
    rcases hs with hs | hs
    · exact h.s2 (hs ▸ e)
    · have e' : s' = _ := e
      rw [hs] at e'; exact absurd e' (by decide)
  · intro e
    rcases hs with hs | hs
    · exact h.s3 (hs ▸ e)
    · have e' : s' = _ := e
      rw [hs] at e'; exact absurd e' (by decide)
  · intro d hd
    have := h.d d hd
    refine ⟨?_, this.sel, this.selected, this.own, this.peer, this.core, this.ini, this.rsp⟩
    rcases hs with hs | hs
    · rw [hs]; exact this.stage
    · exact Or.inr hs

theorem everySecond_fst (x : InitSt) : ∃ s' ct rt, (s' = x.stage ∨ s' = Generated.CLOSING) ∧
    (everySecond x).1 = { x with stage := s', closeTime := ct, retries := rt } := by
  unfold everySecond
  split
  · split
    · exact ⟨_, x.closeTime, x.retries, Or.inr rfl, rfl⟩
    · exact ⟨x.stage, _, x.retries, Or.inl rfl, rfl⟩
  · split
    · exact ⟨x.stage, x.closeTime, x.retries, Or.inl rfl, rfl⟩
    · split
      · exact ⟨x.stage, x.closeTime, _, Or.inl rfl, rfl⟩
      · exact ⟨_, x.closeTime, x.retries, Or.inr rfl, rfl⟩

end

def doneOf : InitResult → List (Bytes × Bool)
  | .continue => []
  | .success p ini => [(p, ini)]

section
variable {bodyOf : BodyOf} {x y : InitSt} {gx gy : Ghost} {dx dy : List (Bytes × Bool)} {sigs : List (Bytes × Bytes)} {seals : SealLog}

theorem Inv2.update0 (h : Inv2 bodyOf x y gx gy dx dy sigs seals) {x' : InitSt} (hst : Static x x')
    (hox : ObjInv bodyOf x' y gx dx sigs) : Inv2 bodyOf x' y gx gy dx dy sigs seals := by
  have := h.update (x' := x') (gx' := gx) (dx' := dx) (sg := []) (log := []) hst (Ghost.le_refl gx)
    (by rw [List.append_nil]; exact hox) (by intro k r hk; cases hk)
  rwa [List.append_nil, List.append_nil] at this

/-- `every_second` -/
theorem Inv2.tick (h : Inv2 bodyOf x y gx gy dx dy sigs seals) : Inv2 bodyOf (everySecond x).1 y gx gy dx dy sigs seals := by
  obtain ⟨s', ct, rt, hs, he⟩ := everySecond_fst x
  rw [he]
  exact h.update0 ⟨rfl, rfl, rfl, rfl, rfl, rfl⟩ (h.ox.restage s' ct rt hs)

/-- the role switch of a dual open (and the retry counter) -/
theorem ObjInv.reset {g : Ghost} {done : List (Bytes × Bool)} (h : ObjInv bodyOf x y g done sigs) (hs : x.stage = Generated.STAGE_PONG)
    (rt : Nat) : ObjInv bodyOf { resetSt x with retries := rt } y g done sigs := by
  obtain ⟨h1, h2⟩ := h.s2 hs
  refine ⟨h.done_eq, h.l1, ?_, fun _ => ⟨h1, h2⟩, ?_, ?_, h.r, h.len, ?_⟩
  · intro own e; cases e
  · intro e; exact absurd (show Generated.STAGE_PING = Generated.STAGE_PONG from e) (by decide)
  · intro e; exact absurd (show Generated.STAGE_PING = Generated.STAGE_PENG from e) (by decide)
  · intro d hd; rw [h2] at hd; cases hd

/-- the state before a ping is answered: the object itself or the object after the role switch -/
structure PingBase (x st0 : InitSt) : Prop where
  static : Static x st0
  crypto : st0.crypto = x.crypto
  ecdh : st0.ecdh = x.ecdh ∨ st0.ecdh = none
  stage : x.stage = Generated.STAGE_PING ∨ x.stage = Generated.STAGE_PONG

theorem pingBase_of {st0 : InitSt} {h : Bytes}
    (hst0 : (st0 = x ∧ x.stage = Generated.STAGE_PING) ∨ (st0 = resetSt x ∧ x.stage = Generated.STAGE_PONG ∧ bytesGt h x.hash = true)) :
    PingBase x st0 := by
  rcases hst0 with ⟨rfl, h2⟩ | ⟨rfl, h2, _⟩
  · exact ⟨Static.refl _, rfl, Or.inl rfl, Or.inl h2⟩
  · exact ⟨⟨rfl, rfl, rfl, rfl, rfl, rfl⟩, rfl, Or.inr rfl, Or.inr h2⟩

theorem Inv2.pingErr (h : Inv2 bodyOf x y gx gy dx dy sigs seals) {st0 : InitSt} {hh : Bytes}
    (hst0 : (st0 = x ∧ x.stage = Generated.STAGE_PING) ∨ (st0 = resetSt x ∧ x.stage = Generated.STAGE_PONG ∧ bytesGt hh x.hash = true)) :
    Inv2 bodyOf { st0 with retries := 0 } y gx gy dx dy sigs seals := by
  rcases hst0 with ⟨rfl, _⟩ | ⟨rfl, h2, _⟩
  · exact h.update0 ⟨rfl, rfl, rfl, rfl, rfl, rfl⟩ (h.ox.restage st0.stage st0.closeTime 0 (Or.inl rfl))
  · exact h.update0 ⟨rfl, rfl, rfl, rfl, rfl, rfl⟩ (h.ox.reset h2 0)

end

section
variable {bodyOf : BodyOf} {x y : InitSt} {gx gy : Ghost} {dx dy : List (Bytes × Bool)} {sigs : List (Bytes × Bytes)} {seals : SealLog}

theorem wireOf_congr (env : CryptoEnv) {st st' : InitSt} (m : InitMsg) (rnd : Rand) (h : st'.ownKey = st.ownKey) :
    wireOf env st' m rnd = wireOf env st m rnd := by
  unfold wireOf; rw [h]

/-- the object invariant after a ping was answered -/
theorem ObjInv.answered (h : ObjInv bodyOf x y gx dx sigs) {st0 : InitSt} (hb : PingBase x st0) (sel : Option Cipher)
    (hsel : selectAlgorithm x.algos y.algos = .ok sel) (own e : Bytes) (hown : EcdhWF own) (he : EcdhWF e)
    (cr : Option Core) (l : Option Bytes) (sg : List (Bytes × Bytes))
    (hcr : ∀ c, sel = some c → ∃ core, cr = some core ∧ CoreKeys (masterKey c own e) (bytesGt x.hash y.hash) NotMaster core)
    (hcn : sel = none → cr = none) :
    ObjInv bodyOf { st0 with retries := 0, selected := sel, crypto := cr, last := l, stage := Generated.STAGE_PENG } y
      ⟨some ⟨own, e, sel⟩, []⟩ dx (sigs ++ sg) ∧ gx.le ⟨some ⟨own, e, sel⟩, []⟩ := by
  have hg : gx.resp = none ∧ gx.dn = [] := by
    rcases hb.stage with hs | hs
    · exact h.s1 hs
    · exact h.s2 hs
  have hdx : dx = [] := by rw [h.done_eq, hg.2]; rfl
  have hal : st0.algos = x.algos := hb.static.2.2.2.2.2
  have hha : st0.hash = x.hash := hb.static.2.1
  refine ⟨⟨by rw [hdx]; rfl, ?_, ?_, ?_, ?_, ?_, ?_, Nat.zero_le _, ?_⟩, ?_⟩
  · intro core hc
    have hc' : cr = some core := hc
    cases sel with
    | none => rw [hcn rfl] at hc'; cases hc'
    | some c => exact ⟨c, by rw [show ({ st0 with retries := 0, selected := some c, crypto := cr, last := l, stage := Generated.STAGE_PENG } : InitSt).algos = x.algos from hal]; exact hsel⟩
  · intro o ho
    have ho' : st0.ecdh = some o := ho
    rcases hb.ecdh with h1 | h1
    · rw [h1] at ho'; exact h.e1 o ho'
    · rw [h1] at ho'; cases ho'
  · intro e; exact absurd (show Generated.STAGE_PENG = Generated.STAGE_PING from e) (by decide)
  · intro e; exact absurd (show Generated.STAGE_PENG = Generated.STAGE_PONG from e) (by decide)
  · intro _
    refine ⟨rfl, ⟨own, e, sel⟩, rfl, rfl, ?_⟩
    intro c hc
    obtain ⟨core, h1, h2⟩ := hcr c hc
    refine ⟨core, h1, ?_⟩
    rw [show ({ st0 with retries := 0, selected := sel, crypto := cr, last := l, stage := Generated.STAGE_PENG } : InitSt).hash = x.hash from hha]
    exact h2
  · intro r hr
    simp only [Option.some.injEq] at hr
    subst hr
    refine ⟨?_, hown, he, fun d hd => by cases hd⟩
    rw [show ({ st0 with retries := 0, selected := sel, crypto := cr, last := l, stage := Generated.STAGE_PENG } : InitSt).algos = x.algos from hal]
    exact hsel
  · intro d hd; cases hd
  · refine ⟨?_, ?_⟩
    · intro r hr; rw [hg.1] at hr; cases hr
    · intro d hd; rw [hg.2] at hd; cases hd

end

section
variable {bodyOf : BodyOf} {x y : InitSt} {gx gy : Ghost} {dx dy : List (Bytes × Bool)} {sigs : List (Bytes × Bytes)} {seals : SealLog}

/-- a ping of the peer is answered -/
theorem Inv2.pingOk (h : Inv2 bodyOf x y gx gy dx dy sigs seals) (env : CryptoEnv) {w : Bytes} {rnd : Rand}
    (hI : I1 env sigs x.trusted w) (hrnd : RandOK env x rnd) {hh e : Bytes} {al : Algos} {k : Bytes} {st0 : InitSt} {sel : Option Cipher}
    (hr : readFrom env w x.trusted = .ok (.ping hh e al, k)) (hne : x.hash ≠ hh)
    (hst0 : (st0 = x ∧ x.stage = Generated.STAGE_PING) ∨ (st0 = resetSt x ∧ x.stage = Generated.STAGE_PONG ∧ bytesGt hh x.hash = true))
    (hsel : selectAlgorithm x.algos al = .ok sel) :
    ∃ st' out log, pingRes env st0 hh e sel rnd = .ok st' (out, .continue, log) ∧
      ∃ gx', Inv2 bodyOf st' y gx' gy dx dy (sigs ++ newSig x st' out rnd) (seals ++ log) := by
  obtain ⟨hhy, hmsg, _⟩ := h.bridge env hI hr hne
  have hhy' : hh = y.hash := hhy
  obtain ⟨hal, he⟩ := hmsg
  subst hal
  have hb := pingBase_of hst0
  have hown : st0.ownKey = x.ownKey := hb.static.2.2.2.1
  have hha : st0.hash = x.hash := hb.static.2.1
  have hpa : st0.payload = x.payload := hb.static.2.2.1
  have halg : st0.algos = x.algos := hb.static.2.2.2.2.2
  cases sel with
  | some c =>
    obtain ⟨core, n, pl, heq, hd8, hlen, hcur, hkeys⟩ := pingRes_some env st0 hh e c rnd
    refine ⟨_, _, _, heq, ⟨some ⟨rnd.ecdhPub, e, some c⟩, []⟩, ?_⟩
    have hans := fun l sg => h.ox.answered hb (some c) hsel rnd.ecdhPub e hrnd.ecdh he (some core) l sg
      (by intro c' hc'; cases hc'
          exact ⟨core, rfl, by rw [← hha, ← hhy']; exact hkeys NotMaster hrnd.dummy⟩)
      (by intro hc; cases hc)
    refine h.update (Static.trans hb.static ⟨rfl, rfl, rfl, rfl, rfl, rfl⟩) (hans none []).2 (hans _ _).1 ?_
    intro k' r hk
    rw [wireOf_congr env _ rnd hown] at hk
    have hreg := newSig_wire hk
    refine ⟨_, rnd.salt, _, hreg, hrnd.salt, hrnd.keyHash, ?_, rfl, ?_⟩
    · exact ⟨by rw [hha]; exact h.wx.hash, by rw [hrnd.ecdh.1]; decide, by rw [halg]; exact h.wx.algos, by rw [hlen]; have := hrnd.ct; omega⟩
    · refine ⟨rfl, hrnd.ecdh, ⟨rnd.ecdhPub, e, some c⟩, rfl, rfl, ?_⟩
      exact ⟨n, List.mem_append_right _ (by rw [hd8]; exact List.mem_singleton.2 rfl)⟩
  | none =>
    have hcr : st0.crypto = none := by
      rw [hb.crypto]
      cases hc : x.crypto with
      | none => rfl
      | some core =>
        obtain ⟨c, hc'⟩ := h.ox.l1 core hc
        rw [hc'] at hsel; cases hsel
    have heq := pingRes_none env st0 hh e rnd hcr
    refine ⟨_, _, _, heq, ⟨some ⟨rnd.ecdhPub, e, none⟩, []⟩, ?_⟩
    have hans := fun l sg => h.ox.answered hb none hsel rnd.ecdhPub e hrnd.ecdh he st0.crypto l sg
      (by intro c' hc'; cases hc') (fun _ => hcr)
    refine h.update (Static.trans hb.static ⟨rfl, rfl, rfl, rfl, rfl, rfl⟩) (hans none []).2 (hans _ _).1 ?_
    intro k' r hk
    rw [wireOf_congr env _ rnd hown] at hk
    have hreg := newSig_wire hk
    refine ⟨_, rnd.salt, _, hreg, hrnd.salt, hrnd.keyHash, ?_, rfl, ?_⟩
    · exact ⟨by rw [hha]; exact h.wx.hash, by rw [hrnd.ecdh.1]; decide, by rw [halg]; exact h.wx.algos, by rw [hpa]; exact h.wx.payload⟩
    · exact ⟨rfl, hrnd.ecdh, ⟨rnd.ecdhPub, e, none⟩, rfl, rfl, rfl⟩

end

section
variable {bodyOf : BodyOf} {x y : InitSt} {gx gy : Ghost} {dx dy : List (Bytes × Bool)} {sigs : List (Bytes × Bytes)} {seals : SealLog}

theorem newSig_last_same (st st' : InitSt) (out : Bytes) (rnd : Rand) (h : st'.last = st.last) : newSig st st' out rnd = [] := by
  unfold newSig
  rw [if_neg]
  intro hh
  rw [h] at hh
  exact hh.2 hh.1

/-- an initiator that failed on a pong stays in stage PONG without ephemeral key -/
theorem ObjInv.pongStay (h : ObjInv bodyOf x y gx dx sigs) (hs : x.stage = Generated.STAGE_PONG) (cr : Option Core)
    (hcr : ∀ core, cr = some core → ∃ c, selectAlgorithm x.algos y.algos = .ok (some c)) (sl : Option Cipher) :
    ObjInv bodyOf { x with retries := 0, ecdh := none, selected := sl, crypto := cr } y gx dx sigs := by
  obtain ⟨h1, h2⟩ := h.s2 hs
  refine ⟨h.done_eq, hcr, ?_, ?_, fun _ => ⟨h1, h2⟩, ?_, h.r, h.len, ?_⟩
  · intro own e; cases e
  · intro e; rw [show ({ x with retries := 0, ecdh := none, selected := sl, crypto := cr } : InitSt).stage = x.stage from rfl, hs] at e
    exact absurd e (by decide)
  · intro e; rw [show ({ x with retries := 0, ecdh := none, selected := sl, crypto := cr } : InitSt).stage = x.stage from rfl, hs] at e
    exact absurd e (by decide)
  · intro d hd; rw [h2] at hd; cases hd

/-- the object invariant after the initiator completed -/
theorem ObjInv.initDone (h : ObjInv bodyOf x y gx dx sigs) (hs : x.stage = Generated.STAGE_PONG) (sel : Option Cipher)
    (hsel : selectAlgorithm x.algos y.algos = .ok sel) (own eb p : Bytes) (hown : x.ecdh = some own) (heb : EcdhWF eb)
    (cr : Option Core) (l : Option Bytes) (ct : Nat) (sg : List (Bytes × Bytes))
    (hcr : ∀ c, sel = some c → ∃ core, cr = some core ∧ CoreKeys (masterKey c own eb) (bytesGt x.hash y.hash) NotMaster core)
    (hcn : sel = none → cr = none) (al : Algos) (pl : Bytes) (hlog : Logged sigs (.pong y.hash eb al pl))
    (hop : Opened bodyOf ⟨p, true, own, eb, sel⟩ pl) :
    ObjInv bodyOf { x with retries := 0, ecdh := none, selected := sel, crypto := cr, last := l, stage := Generated.WAITING_TO_CLOSE,
                           closeTime := ct } y ⟨none, [⟨p, true, own, eb, sel⟩]⟩ ((p, true) :: dx) (sigs ++ sg) ∧
      gx.le ⟨none, [⟨p, true, own, eb, sel⟩]⟩ := by
  obtain ⟨h1, h2⟩ := h.s2 hs
  have hdx : dx = [] := by rw [h.done_eq, h2]; rfl
  refine ⟨⟨by rw [hdx]; rfl, ?_, ?_, ?_, ?_, ?_, ?_, Nat.le_refl _, ?_⟩, ?_⟩
  · intro core hc
    have hc' : cr = some core := hc
    cases sel with
    | none => rw [hcn rfl] at hc'; cases hc'
    | some c => exact ⟨c, hsel⟩
  · intro o e; cases e
  · intro e; exact absurd (show Generated.WAITING_TO_CLOSE = Generated.STAGE_PING from e) (by decide)
  · intro e; exact absurd (show Generated.WAITING_TO_CLOSE = Generated.STAGE_PONG from e) (by decide)
  · intro e; exact absurd (show Generated.WAITING_TO_CLOSE = Generated.STAGE_PENG from e) (by decide)
  · intro r hr; cases hr
  · intro d hd
    simp only [List.mem_singleton] at hd
    subst hd
    exact ⟨Or.inl rfl, hsel, rfl, h.e1 own hown, heb, hcr, fun _ => ⟨rfl, al, pl, hlog.mono, hop⟩, fun hi => by cases hi⟩
  · refine ⟨?_, ?_⟩
    · intro r hr; rw [h1] at hr; cases hr
    · intro d hd; rw [h2] at hd; cases hd

end

section
variable {bodyOf : BodyOf} {x y : InitSt} {gx gy : Ghost} {dx dy : List (Bytes × Bool)} {sigs : List (Bytes × Bytes)} {seals : SealLog}

/-- the state in which the initiator opens the pong payload, as a flat record -/
theorem pongSt_eq (st : InitSt) (own eb hb : Bytes) (sel : Option Cipher) (rnd : Rand) :
    pongSt st own eb hb sel rnd = { st with retries := 0, ecdh := none, selected := sel, crypto := (pongSt st own eb hb sel rnd).crypto } := by
  cases sel <;> rfl

theorem Inv2.pongSelErr (h : Inv2 bodyOf x y gx gy dx dy sigs seals) (hs : x.stage = Generated.STAGE_PONG) :
    Inv2 bodyOf { x with retries := 0, ecdh := none } y gx gy dx dy sigs seals :=
  h.update0 ⟨rfl, rfl, rfl, rfl, rfl, rfl⟩ (h.ox.pongStay hs x.crypto h.ox.l1 x.selected)

/-- the initiator fails on a pong of the peer -/
theorem Inv2.pongFail (h : Inv2 bodyOf x y gx gy dx dy sigs seals) (env : CryptoEnv) {w : Bytes} {rnd : Rand}
    (hI : I1 env sigs x.trusted w) {hb eb : Bytes} {ab : Algos} {pl k own : Bytes} {sel : Option Cipher} {st5 : InitSt} {r : Option Bytes}
    (hr : readFrom env w x.trusted = .ok (.pong hb eb ab pl, k)) (hne : x.hash ≠ hb)
    (hs : x.stage = Generated.STAGE_PONG) (hsel : selectAlgorithm x.algos ab = .ok sel)
    (hd : decryptPayload (pongSt x own eb hb sel rnd) bodyOf pl = (st5, r)) :
    Inv2 bodyOf st5 y gx gy dx dy sigs seals := by
  obtain ⟨_, hmsg, _⟩ := h.bridge env hI hr hne
  have hal : ab = y.algos := hmsg.1
  subst hal
  obtain ⟨cr, hcr⟩ := decryptPayload_frame _ _ _ _ _ hd
  rw [pongSt_eq] at hcr
  rw [hcr]
  refine h.update0 ⟨rfl, rfl, rfl, rfl, rfl, rfl⟩ (h.ox.pongStay hs cr ?_ sel)
  intro core hc
  cases sel with
  | some c => exact ⟨c, hsel⟩
  | none =>
    exfalso
    have hnone : (pongSt x own eb hb none rnd).crypto = none := by
      show x.crypto = none
      cases hx : x.crypto with
      | none => rfl
      | some c0 =>
        obtain ⟨c, hc'⟩ := h.ox.l1 c0 hx
        rw [hc'] at hsel; cases hsel
    rw [decryptPayload_none _ _ _ hnone] at hd
    simp only [Prod.mk.injEq] at hd
    have : st5.crypto = none := by rw [← hd.1]; exact hnone
    rw [hcr] at this
    rw [hc] at this
    cases this

/-- the initiator completes on a pong of the peer -/
theorem Inv2.pongOk (h : Inv2 bodyOf x y gx gy dx dy sigs seals) (env : CryptoEnv) {w : Bytes} {rnd : Rand}
    (hI : I1 env sigs x.trusted w) (hrnd : RandOK env x rnd) {hb eb : Bytes} {ab : Algos} {pl k own : Bytes} {sel : Option Cipher}
    {st5 : InitSt} {p : Bytes}
    (hr : readFrom env w x.trusted = .ok (.pong hb eb ab pl, k)) (hne : x.hash ≠ hb)
    (hs : x.stage = Generated.STAGE_PONG) (hown : x.ecdh = some own) (hsel : selectAlgorithm x.algos ab = .ok sel)
    (hd : decryptPayload (pongSt x own eb hb sel rnd) bodyOf pl = (st5, some p)) :
    ∃ st' out log, pongRes env st5 rnd p = .ok st' (out, .success p true, log) ∧
      ∃ gx', Inv2 bodyOf st' y gx' gy ((p, true) :: dx) dy (sigs ++ newSig x st' out rnd) (seals ++ log) := by
  obtain ⟨hhy, hmsg, hlog⟩ := h.bridge env hI hr hne
  have hhy' : hb = y.hash := hhy
  obtain ⟨hal, heb, _⟩ := hmsg
  subst hal
  subst hhy'
  cases sel with
  | some c =>
    obtain ⟨core, n, pl', heq, hd8, hlen, hcur, hkeys⟩ := pongRes_some env bodyOf x own eb y.hash c rnd pl st5 p hd
    obtain ⟨hck, m, hopen⟩ := hkeys NotMaster hrnd.dummy
    refine ⟨_, _, _, heq, ⟨none, [⟨p, true, own, eb, some c⟩]⟩, ?_⟩
    have hans := fun l ct sg => h.ox.initDone hs (some c) hsel own eb p hown heb (some core) l ct sg
      (by intro c' hc'; cases hc'; exact ⟨core, rfl, hck⟩) (by intro hc; cases hc) y.algos pl hlog ⟨m, hopen⟩
    refine h.update ⟨rfl, rfl, rfl, rfl, rfl, rfl⟩ (hans none 0 []).2 (hans _ _ _).1 ?_
    intro k' r hk
    have hreg := newSig_wire hk
    refine ⟨_, rnd.salt, _, hreg, hrnd.salt, hrnd.keyHash, ?_, rfl, ?_⟩
    · exact ⟨h.wx.hash, by rw [hlen]; have := hrnd.ct; omega⟩
    · refine ⟨⟨p, true, own, eb, some c⟩, List.mem_singleton.2 rfl, rfl, ?_⟩
      exact ⟨n, List.mem_append_right _ (by rw [hd8]; exact List.mem_singleton.2 rfl)⟩
  | none =>
    have hcr : x.crypto = none := by
      cases hc : x.crypto with
      | none => rfl
      | some core =>
        obtain ⟨c, hc'⟩ := h.ox.l1 core hc
        rw [hc'] at hsel; cases hsel
    obtain ⟨hp, heq⟩ := pongRes_none env bodyOf x own eb y.hash rnd pl st5 p hcr hd
    refine ⟨_, _, _, heq, ⟨none, [⟨p, true, own, eb, none⟩]⟩, ?_⟩
    have hans := fun l ct sg => h.ox.initDone hs none hsel own eb p hown heb x.crypto l ct sg
      (by intro c' hc'; cases hc') (fun _ => hcr) y.algos pl hlog hp
    refine h.update ⟨rfl, rfl, rfl, rfl, rfl, rfl⟩ (hans none 0 []).2 (hans _ _ _).1 ?_
    intro k' r hk
    have hreg := newSig_wire hk
    refine ⟨_, rnd.salt, _, hreg, hrnd.salt, hrnd.keyHash, ?_, rfl, ?_⟩
    · exact ⟨h.wx.hash, h.wx.payload⟩
    · exact ⟨⟨p, true, own, eb, none⟩, List.mem_singleton.2 rfl, rfl, rfl⟩

end

section
variable {bodyOf : BodyOf} {x y : InitSt} {gx gy : Ghost} {dx dy : List (Bytes × Bool)} {sigs : List (Bytes × Bytes)} {seals : SealLog}

/-- the core of the responder after it tried to open a peng payload -/
def CoreStep (bodyOf : BodyOf) (x : InitSt) (pl : Bytes) (cr : Option Core) : Prop :=
  (x.crypto = none ∧ cr = none) ∨
  ∃ c0, x.crypto = some c0 ∧ cr = some (c0.decrypt { hdr := pl.take 8, body := bodyOf (pl.drop 8) }).1

theorem CoreFor.step {sel : Option Cipher} {own peer pl : Bytes} {cr : Option Core} (h : CoreFor x y sel own peer)
    (hc : CoreStep bodyOf x pl cr) (rt st : Nat) : CoreFor { x with retries := rt, crypto := cr, stage := st } y sel own peer := by
  intro c hsel
  obtain ⟨core, h1, h2⟩ := h c hsel
  rcases hc with ⟨h3, _⟩ | ⟨c0, h3, h4⟩
  · rw [h1] at h3; cases h3
  · rw [h1] at h3
    simp only [Option.some.injEq] at h3
    subst h3
    exact ⟨_, h4, CoreKeys_decrypt _ h2⟩

theorem CoreStep.l1 {pl : Bytes} {cr : Option Core} (hc : CoreStep bodyOf x pl cr) (h : ObjInv bodyOf x y gx dx sigs) :
    ∀ core, cr = some core → ∃ c, selectAlgorithm x.algos y.algos = .ok (some c) := by
  intro core hcr
  rcases hc with ⟨_, h2⟩ | ⟨c0, h1, _⟩
  · rw [h2] at hcr; cases hcr
  · exact h.l1 c0 h1

theorem decryptPayload_step {pl : Bytes} {st2 : InitSt} {r : Option Bytes}
    (hd : decryptPayload { x with retries := 0 } bodyOf pl = (st2, r)) :
    ∃ cr, CoreStep bodyOf x pl cr ∧ st2 = { x with retries := 0, crypto := cr } := by
  rcases decryptPayload_cases _ _ _ _ _ hd with ⟨h1, h2, _⟩ | ⟨c0, h1, h2, _⟩
  · exact ⟨none, Or.inl ⟨h1, rfl⟩, by rw [h2]; cases x; simp only at h1; subst h1; rfl⟩
  · exact ⟨_, Or.inr ⟨c0, h1, rfl⟩, h2⟩

/-- the responder fails on a peng -/
theorem Inv2.pengFail (h : Inv2 bodyOf x y gx gy dx dy sigs seals) {pl : Bytes} {st2 : InitSt} {r : Option Bytes}
    (hs : x.stage = Generated.STAGE_PENG) (hd : decryptPayload { x with retries := 0 } bodyOf pl = (st2, r)) :
    Inv2 bodyOf st2 y gx gy dx dy sigs seals := by
  obtain ⟨cr, hcs, rfl⟩ := decryptPayload_step hd
  obtain ⟨hdn, r0, hr0, hsl, hcf⟩ := h.ox.s3 hs
  refine h.update0 ⟨rfl, rfl, rfl, rfl, rfl, rfl⟩ ⟨h.ox.done_eq, hcs.l1 h.ox, h.ox.e1, ?_, ?_, ?_, h.ox.r, h.ox.len, ?_⟩
  · intro e; rw [show ({ x with retries := 0, crypto := cr } : InitSt).stage = x.stage from rfl, hs] at e; exact absurd e (by decide)
  · intro e; rw [show ({ x with retries := 0, crypto := cr } : InitSt).stage = x.stage from rfl, hs] at e; exact absurd e (by decide)
  · intro _
    exact ⟨hdn, r0, hr0, hsl, hcf.step hcs 0 x.stage⟩
  · intro d hd'; rw [hdn] at hd'; cases hd'

/-- the responder completes on a peng of the peer -/
theorem Inv2.pengOk (h : Inv2 bodyOf x y gx gy dx dy sigs seals) (env : CryptoEnv) {w : Bytes}
    (hI : I1 env sigs x.trusted w) {hb pl k : Bytes} {st2 : InitSt} {p : Bytes}
    (hr : readFrom env w x.trusted = .ok (.peng hb pl, k)) (hne : x.hash ≠ hb)
    (hs : x.stage = Generated.STAGE_PENG) (hd : decryptPayload { x with retries := 0 } bodyOf pl = (st2, some p)) :
    ∃ gx', Inv2 bodyOf { st2 with stage := Generated.CLOSING } y gx' gy ((p, false) :: dx) dy sigs seals := by
  obtain ⟨hhy, _, hlog⟩ := h.bridge env hI hr hne
  have hhy' : hb = y.hash := hhy
  subst hhy'
  obtain ⟨hdn, r0, hr0, hsl, hcf⟩ := h.ox.s3 hs
  obtain ⟨hrsel, hrown, hrpeer, _⟩ := h.ox.r r0 hr0
  have hdx : dx = [] := by rw [h.ox.done_eq, hdn]; rfl
  -- what was opened
  have hop : Opened bodyOf ⟨p, false, r0.own, r0.peer, r0.sel⟩ pl := by
    unfold Opened
    cases hsel0 : r0.sel with
    | none =>
      simp only
      have hcr : x.crypto = none := by
        cases hc : x.crypto with
        | none => rfl
        | some core =>
          obtain ⟨c, hc'⟩ := h.ox.l1 core hc
          rw [hc', hsel0] at hrsel; cases hrsel
      have hcr' : ({ x with retries := 0 } : InitSt).crypto = none := hcr
      rw [decryptPayload_none _ _ _ hcr'] at hd
      simp only [Prod.mk.injEq, Option.some.injEq] at hd
      exact hd.2.symm
    | some c =>
      simp only
      obtain ⟨core, hc1, hc2⟩ := hcf c hsel0
      rcases decryptPayload_cases _ _ _ _ _ hd with ⟨h1, _⟩ | ⟨c0, h1, _, h3⟩
      · rw [show ({ x with retries := 0 } : InitSt).crypto = x.crypto from rfl, hc1] at h1; cases h1
      · rw [show ({ x with retries := 0 } : InitSt).crypto = x.crypto from rfl, hc1] at h1
        simp only [Option.some.injEq] at h1
        subst h1
        exact CoreKeys_opens _ _ hc2 (h3 p rfl)
  obtain ⟨cr, hcs, rfl⟩ := decryptPayload_step hd
  refine ⟨⟨some r0, [⟨p, false, r0.own, r0.peer, r0.sel⟩]⟩, ?_⟩
  have hle : gx.le ⟨some r0, [⟨p, false, r0.own, r0.peer, r0.sel⟩]⟩ := by
    refine ⟨?_, ?_⟩
    · intro r hr'; rw [hr0] at hr'; exact hr'
    · intro d hd'; rw [hdn] at hd'; cases hd'
  have := h.update (x' := { x with retries := 0, crypto := cr, stage := Generated.CLOSING })
    (gx' := ⟨some r0, [⟨p, false, r0.own, r0.peer, r0.sel⟩]⟩) (dx' := (p, false) :: dx) (sg := []) (log := [])
    ⟨rfl, rfl, rfl, rfl, rfl, rfl⟩ hle ?_ (by intro k r hk; cases hk)
  · rwa [List.append_nil, List.append_nil] at this
  rw [List.append_nil]
  refine ⟨by rw [hdx]; rfl, hcs.l1 h.ox, h.ox.e1, ?_, ?_, ?_, ?_, Nat.le_refl _, ?_⟩
  · intro e; exact absurd (show Generated.CLOSING = Generated.STAGE_PING from e) (by decide)
  · intro e; exact absurd (show Generated.CLOSING = Generated.STAGE_PONG from e) (by decide)
  · intro e; exact absurd (show Generated.CLOSING = Generated.STAGE_PENG from e) (by decide)
  · intro r hr'
    simp only [Option.some.injEq] at hr'
    subst hr'
    refine ⟨hrsel, hrown, hrpeer, ?_⟩
    intro d hd'
    simp only [List.mem_singleton] at hd'
    rw [hd']
    exact ⟨rfl, rfl, rfl⟩
  · intro d hd'
    simp only [List.mem_singleton] at hd'
    subst hd'
    exact ⟨Or.inr rfl, hrsel, hsl, hrown, hrpeer, hcf.step hcs 0 Generated.CLOSING, (fun hi => by cases hi), fun _ => ⟨pl, hlog, hop⟩⟩

end

section
variable {bodyOf : BodyOf} {x y : InitSt} {gx gy : Ghost} {dx dy : List (Bytes × Bool)} {sigs : List (Bytes × Bytes)} {seals : SealLog}

/-- `send_ping` -/
theorem Inv2.ping (h : Inv2 bodyOf x y gx gy dx dy sigs seals) (env : CryptoEnv) {rnd : Rand} (hs : x.stage = Generated.STAGE_PING)
    (hrnd : RandOK env x rnd) :
    Inv2 bodyOf (sendPing env x rnd).1 y gx gy dx dy (sigs ++ newSig x (sendPing env x rnd).1 (sendPing env x rnd).2 rnd) (seals ++ []) := by
  have he : sendPing env x rnd =
      ({ x with
          ecdh := some rnd.ecdhPub
          last := some (wireOf env x (.ping x.hash rnd.ecdhPub x.algos) rnd)
          stage := Generated.STAGE_PONG }, wireOf env x (.ping x.hash rnd.ecdhPub x.algos) rnd) := rfl
  rw [he]
  obtain ⟨h1, h2⟩ := h.ox.s1 hs
  refine h.update ⟨rfl, rfl, rfl, rfl, rfl, rfl⟩ (Ghost.le_refl gx) ?_ ?_
  · refine ⟨h.ox.done_eq, h.ox.l1, ?_, ?_, fun _ => ⟨h1, h2⟩, ?_, h.ox.r, h.ox.len, ?_⟩
    · intro own e
      simp only [Option.some.injEq] at e
      rw [← e]; exact hrnd.ecdh
    · intro e; exact absurd (show Generated.STAGE_PONG = Generated.STAGE_PING from e) (by decide)
    · intro e; exact absurd (show Generated.STAGE_PONG = Generated.STAGE_PENG from e) (by decide)
    · intro d hd; rw [h2] at hd; cases hd
  · intro k r hk
    have hreg := newSig_wire hk
    exact ⟨_, rnd.salt, _, hreg, hrnd.salt, hrnd.keyHash, ⟨h.wx.hash, by rw [hrnd.ecdh.1]; decide, h.wx.algos⟩, rfl, rfl, hrnd.ecdh⟩

/-- **the invariant is preserved by every delivery that the object handles without error** -/
theorem Inv2.eff_ok (h : Inv2 bodyOf x y gx gy dx dy sigs seals) (env : CryptoEnv) (ok : Bytes → Bool) {w : Bytes} {rnd : Rand}
    (hI : I1 env sigs x.trusted w) (hrnd : RandOK env x rnd) {R : Res} (he : Eff env bodyOf ok x w rnd R)
    {st' : InitSt} {out : Bytes} {res : InitResult} {log : SealLog} (hR : R = .ok st' (out, res, log)) :
    ∃ gx', Inv2 bodyOf st' y gx' gy (doneOf res ++ dx) dy (sigs ++ newSig x st' out rnd) (seals ++ log) := by
  cases he with
  | quietErr e => cases hR
  | quietOk o ho =>
    simp only [Outcome.ok.injEq, Prod.mk.injEq] at hR
    obtain ⟨rfl, rfl, rfl, rfl⟩ := hR
    refine ⟨gx, ?_⟩
    rw [newSig_same, List.append_nil, List.append_nil]
    exact h
  | panic => cases hR
  | pingErr => cases hR
  | pingOk hh e al k st0 sel hr hne hst0 hsel =>
    obtain ⟨st2, out2, log2, heq, gx', hinv⟩ := h.pingOk env hI hrnd hr hne hst0 hsel
    rw [heq] at hR
    simp only [Outcome.ok.injEq, Prod.mk.injEq] at hR
    obtain ⟨rfl, rfl, rfl, rfl⟩ := hR
    exact ⟨gx', hinv⟩
  | pongSelErr => cases hR
  | pongFail => cases hR
  | pongOk hb eb ab pl k own sel st5 p hr hne hstage hown hsel hd hok =>
    obtain ⟨st2, out2, log2, heq, gx', hinv⟩ := h.pongOk env hI hrnd hr hne hstage hown hsel hd
    rw [heq] at hR
    simp only [Outcome.ok.injEq, Prod.mk.injEq] at hR
    obtain ⟨rfl, rfl, rfl, rfl⟩ := hR
    exact ⟨gx', hinv⟩
  | pengFail => cases hR
  | pengOk hb pl k st2 p hr hne hstage hd hok =>
    simp only [Outcome.ok.injEq, Prod.mk.injEq] at hR
    obtain ⟨rfl, rfl, rfl, rfl⟩ := hR
    obtain ⟨gx', hinv⟩ := h.pengOk env hI hr hne hstage hd
    refine ⟨gx', ?_⟩
    obtain ⟨cr, _, hst2⟩ := decryptPayload_step hd
    have hl : ({ st2 with stage := Generated.CLOSING } : InitSt).last = x.last := by rw [hst2]
    rw [newSig_last_same _ _ _ _ hl, List.append_nil, List.append_nil]
    exact hinv

/-- **the invariant is preserved by every delivery that ends in an error** -/
theorem Inv2.eff_err (h : Inv2 bodyOf x y gx gy dx dy sigs seals) (env : CryptoEnv) (ok : Bytes → Bool) {w : Bytes} {rnd : Rand}
    (hI : I1 env sigs x.trusted w) {R : Res} (he : Eff env bodyOf ok x w rnd R)
    {st' : InitSt} {e : InitErr} (hR : R = .err st' e) : Inv2 bodyOf st' y gx gy dx dy sigs seals := by
  cases he with
  | quietErr e =>
    simp only [Outcome.err.injEq] at hR
    rw [← hR.1]; exact h
  | quietOk o ho => cases hR
  | panic => cases hR
  | pingErr hh e al k st0 er hr hne hst0 hsel =>
    simp only [Outcome.err.injEq] at hR
    rw [← hR.1]; exact h.pingErr hst0
  | pingOk hh e al k st0 sel hr hne hst0 hsel => unfold pingRes at hR; cases hR
  | pongSelErr hb eb ab pl k own er hr hne hstage hown hsel =>
    simp only [Outcome.err.injEq] at hR
    rw [← hR.1]; exact h.pongSelErr hstage
  | pongFail hb eb ab pl k own sel st5 r hr hne hstage hown hsel hd =>
    simp only [Outcome.err.injEq] at hR
    rw [← hR.1]; exact h.pongFail env hI hr hne hstage hsel hd
  | pongOk hb eb ab pl k own sel st5 p hr hne hstage hown hsel hd hok => unfold pongRes at hR; cases hR
  | pengFail hb pl k st2 r hr hne hstage hd =>
    simp only [Outcome.err.injEq] at hR
    rw [← hR.1]; exact h.pengFail hstage hd
  | pengOk => cases hR

end

/-! ### from the invariant to agreement -/

/-- the signed region determines the message -/
theorem signedRegion_inj {m m' : InitMsg} {salt kh salt' kh' : Bytes} (hm : msgWF m) (hm' : msgWF m')
    (hs : salt.length = 4) (hk : kh.length = 4) (hs' : salt'.length = 4) (hk' : kh'.length = 4)
    (h : signedRegion m salt kh = signedRegion m' salt' kh') : m = m' := by
  have hrf : ∀ m : InitMsg, msgWF m → readFields 6 (partsOf m ++ Generated.PART_END :: []) {} = .ok (fieldsOf m, []) := by
    intro m hm
    apply readFields_parts m 6 (Nat.le_refl _) []
    · cases m <;> exact hm.1
    · rintro h e a rfl; exact ⟨hm.2.1, hm.2.2.1, hm.2.2.2⟩
    · rintro h e a p rfl; exact ⟨hm.2.1, hm.2.2.1.1, hm.2.2.1.2, hm.2.2.2⟩
    · rintro h p rfl; exact hm.2
  rw [signedRegion_eq, signedRegion_eq] at h
  have h1 := (List.append_inj h (by rw [hs, hs'])).2
  have h2 := (List.append_inj h1 (by rw [hk, hk'])).2
  have e1 := hrf m hm
  have e2 := hrf m' hm'
  rw [show partsOf m ++ Generated.PART_END :: [] = partsOf m ++ [Generated.PART_END] from rfl, h2] at e1
  rw [show partsOf m' ++ Generated.PART_END :: [] = partsOf m' ++ [Generated.PART_END] from rfl, e1] at e2
  simp only [Except.ok.injEq, Prod.mk.injEq, and_true] at e2
  have a1 := assemble_fieldsOf m []
  have a2 := assemble_fieldsOf m' []
  rw [e2, a2] at a1
  simp only [Except.ok.injEq, Prod.mk.injEq, and_true] at a1
  exact a1.symm

section
variable {bodyOf : BodyOf} {x y : InitSt} {gx gy : Ghost} {dx dy : List (Bytes × Bool)} {sigs : List (Bytes × Bytes)} {seals : SealLog}

/-- a logged message with the hash of `y` says what `MsgBy y` says -/
theorem Inv2.logged_y (h : Inv2 bodyOf x y gx gy dx dy sigs seals) {m : InitMsg} (hl : Logged sigs m) (hh : m.hash = y.hash) :
    MsgBy y gy seals m := by
  obtain ⟨k, salt, kh, hk, hs, hkh, hm⟩ := hl
  obtain ⟨m', salt', kh', h1, h2, h3, h4, h5⟩ := h.sig k _ hk
  have := signedRegion_inj hm h4 hs hkh h2 h3 h1
  subst this
  rcases h5 with ⟨h5, _⟩ | ⟨_, h6⟩
  · exfalso
    apply h.hne
    rw [← h5, hh]
  · exact h6

end

open VpnCloud.Proofs.C05Lockstep (Opens)

/-- what two completed ends agree on (`x` the initiator) -/
structure Agree (x y : InitSt) (dX dY : Done) : Prop where
  roleX : dX.isInit = true
  roleY : dY.isInit = false
  payX : dX.payload = y.payload
  payY : dY.payload = x.payload
  sel : dX.sel = dY.sel
  key : ∀ c, dX.sel = some c → masterKey c dX.own dX.peer = masterKey c dY.own dY.peer
  partner : ∀ c, dX.sel = some c → dX.own = dY.peer ∧ dX.peer = dY.own

section
variable {bodyOf : BodyOf} {x y : InitSt} {gx gy : Ghost} {dx dy : List (Bytes × Bool)} {sigs : List (Bytes × Bytes)} {seals : SealLog}

theorem mem_dn_eq {g : Ghost} (hl : g.dn.length ≤ 1) {d d' : Done} (h : d ∈ g.dn) (h' : d' ∈ g.dn) : d = d' := by
  match hg : g.dn, hl, h, h' with
  | [], _, h, _ => cases h
  | [a], _, h, h' =>
    simp only [List.mem_singleton] at h h'
    rw [h, h']
  | _ :: _ :: _, hl, _, _ => simp at hl

/-- an opened body that the log explains was sealed under a master key: the throw-away alternative is excluded -/
theorem opened_eq {K : KeyRef} {n : Nat} {p : Bytes} {ct : Bytes} {c : Cipher} {own peer q : Bytes} {m : Nat}
    (hop : Opens bodyOf seals) (hmem : (ct, Body.sealed K n p) ∈ seals)
    (ho : bodyOf ct = .sealed (masterKey c own peer) m q ∨ ∃ k', NotMaster k' ∧ bodyOf ct = .sealed k' m q)
    (hK : ∃ c' a b, K = masterKey c' a b) : K = masterKey c own peer ∧ p = q := by
  have hb : bodyOf ct = .sealed K n p := hop _ hmem
  rcases ho with ho | ⟨k', hk', ho⟩
  · rw [hb] at ho
    simp only [Body.sealed.injEq] at ho
    exact ⟨ho.1, ho.2.2⟩
  · rw [hb] at ho
    simp only [Body.sealed.injEq] at ho
    obtain ⟨c', a, b, hK⟩ := hK
    exact absurd (ho.1.symm.trans hK) (hk' c' a b)

/-- **agreement** of two completed ends, `x` the initiator -/
theorem Inv2.agree_init (h : Inv2 bodyOf x y gx gy dx dy sigs seals) (hop : Opens bodyOf seals) {dX dY : Done}
    (hX : dX ∈ gx.dn) (hY : dY ∈ gy.dn) (hi : dX.isInit = true) : Agree x y dX dY := by
  have oX := h.ox.d dX hX
  have oY := h.oy.d dY hY
  obtain ⟨_, al, pl, hlog, hopenX⟩ := oX.ini hi
  obtain ⟨hal, _, r, hr, hpeer, hpay⟩ := h.logged_y hlog rfl
  obtain ⟨hrsel, _, _, hrd⟩ := h.oy.r r hr
  obtain ⟨hYi, hYown, hYpeer⟩ := hrd dY hY
  obtain ⟨pl2, hlog2, hopenY⟩ := oY.rsp hYi
  obtain ⟨d, hd, _, hpay2⟩ := h.swap.logged_y hlog2 rfl
  have hdd : d = dX := mem_dn_eq h.ox.len hd hX
  subst hdd
  have hselY : r.sel = dY.sel := by
    have := hrsel.symm.trans oY.sel
    simpa using this
  -- the two selections are both plain or both a cipher
  cases hsx : d.sel with
  | none =>
    have hsy : dY.sel = none := by
      have h1 : selectAlgorithm x.algos y.algos = .ok none := by rw [oX.sel, hsx]
      have h2 := select_none_symm _ _ h1
      rw [oY.sel] at h2
      simpa using h2
    refine ⟨hi, hYi, ?_, ?_, by rw [hsx, hsy], (by intro c hc; rw [hsx] at hc; cases hc), (by intro c hc; rw [hsx] at hc; cases hc)⟩
    · unfold Opened at hopenX
      rw [hsx] at hopenX
      unfold PayloadBy at hpay
      rw [hselY, hsy] at hpay
      exact hopenX.trans hpay
    · unfold Opened at hopenY
      rw [hsy] at hopenY
      unfold PayloadBy at hpay2
      rw [hsx] at hpay2
      exact hopenY.trans hpay2
  | some cX =>
    cases hsy : dY.sel with
    | none =>
      exfalso
      have h1 : selectAlgorithm y.algos x.algos = .ok none := by rw [oY.sel, hsy]
      have h2 := select_none_symm _ _ h1
      rw [oX.sel, hsx] at h2
      cases h2
    | some cY =>
      unfold Opened at hopenX hopenY
      rw [hsx] at hopenX
      rw [hsy] at hopenY
      unfold PayloadBy at hpay hpay2
      rw [hselY, hsy] at hpay
      rw [hsx] at hpay2
      simp only at hopenX hopenY hpay hpay2
      obtain ⟨n1, hmem1⟩ := hpay
      obtain ⟨n2, hmem2⟩ := hpay2
      obtain ⟨m1, ho1⟩ := hopenX
      obtain ⟨m2, ho2⟩ := hopenY
      obtain ⟨k1, p1⟩ := opened_eq hop hmem1 ho1 ⟨_, _, _, rfl⟩
      obtain ⟨k2, p2⟩ := opened_eq hop hmem2 ho2 ⟨_, _, _, rfl⟩
      have hinj := VpnCloud.Proofs.C05.masterKey_inj cX cY d.own d.peer dY.own dY.peer
        ⟨oX.own.2, oX.peer.2, oY.own.2, oY.peer.2⟩ ⟨oX.own.1, oX.peer.1, oY.own.1, oY.peer.1⟩ k2
      have hpo : d.peer = dY.own := by rw [hpeer, hYown]
      refine ⟨hi, hYi, p1.symm, p2.symm, by rw [hsx, hsy, hinj.1], ?_, ?_⟩
      · intro c hc
        rw [hsx] at hc
        simp only [Option.some.injEq] at hc
        subst hc
        rw [k2, hinj.1]
      · intro c _
        rcases hinj.2 with ⟨e1, e2⟩ | ⟨e1, e2⟩
        · exact ⟨by rw [e1, ← hpo, e2], hpo⟩
        · exact ⟨e1, hpo⟩

end

/-- key of slot 0 of a core -/
def key0 (c : Core) : Option KeyRef := c.slots[0]?.map (·.key)

/-- the two objects hold the same negotiated cipher and, if it is a cipher, cores with the master key of the same pair of ephemeral keys
    (`ex` the one of `x`, `ey` the one of `y`) in slot 0 and the nonce halves given by the comparison of the salted hashes -/
def CoresAgree (x y : InitSt) : Prop :=
  x.selected = y.selected ∧
  match x.selected with
  | some c => ∃ cx cy ex ey, EcdhWF ex ∧ EcdhWF ey ∧ x.crypto = some cx ∧ y.crypto = some cy ∧
      key0 cx = some (masterKey c ex ey) ∧ key0 cy = some (masterKey c ey ex) ∧
      cx.half = bytesGt x.hash y.hash ∧ cy.half = bytesGt y.hash x.hash
  | none => x.crypto = none ∧ y.crypto = none

theorem CoresAgree.symm {x y : InitSt} (h : CoresAgree x y) : CoresAgree y x := by
  obtain ⟨h1, h2⟩ := h
  refine ⟨h1.symm, ?_⟩
  rw [← h1]
  cases hs : x.selected with
  | none => rw [hs] at h2; exact ⟨h2.2, h2.1⟩
  | some c =>
    rw [hs] at h2
    obtain ⟨cx, cy, ex, ey, h3, h4, h5, h6, h7, h8, h9, h10⟩ := h2
    exact ⟨cy, cx, ey, ex, h4, h3, h6, h5, h8, h7, h10, h9⟩

section
variable {bodyOf : BodyOf} {x y : InitSt} {gx gy : Ghost} {dx dy : List (Bytes × Bool)} {sigs : List (Bytes × Bytes)} {seals : SealLog}

theorem Inv2.cores (h : Inv2 bodyOf x y gx gy dx dy sigs seals) {dX dY : Done} (hX : dX ∈ gx.dn) (hY : dY ∈ gy.dn)
    (ha : Agree x y dX dY) : CoresAgree x y := by
  have oX := h.ox.d dX hX
  have oY := h.oy.d dY hY
  refine ⟨by rw [oX.selected, oY.selected, ha.sel], ?_⟩
  rw [oX.selected]
  cases hs : dX.sel with
  | none =>
    simp only
    have hsy : dY.sel = none := by rw [← ha.sel, hs]
    refine ⟨?_, ?_⟩
    · cases hc : x.crypto with
      | none => rfl
      | some core =>
        obtain ⟨c, hc'⟩ := h.ox.l1 core hc
        rw [oX.sel, hs] at hc'; cases hc'
    · cases hc : y.crypto with
      | none => rfl
      | some core =>
        obtain ⟨c, hc'⟩ := h.oy.l1 core hc
        rw [oY.sel, hsy] at hc'; cases hc'
  | some c =>
    simp only
    have hsy : dY.sel = some c := by rw [← ha.sel, hs]
    obtain ⟨cx, hcx, kx⟩ := oX.core c hs
    obtain ⟨cy, hcy, ky⟩ := oY.core c hsy
    obtain ⟨p1, p2⟩ := ha.partner c hs
    refine ⟨cx, cy, dX.own, dY.own, oX.own, oY.own, hcx, hcy, ?_, ?_, kx.1.2, ky.1.2⟩
    · rw [← p2]; exact kx.1.1
    · rw [p1]; exact ky.1.1

/-- of two completed ends one is the initiator, and they agree -/
theorem Inv2.agree (h : Inv2 bodyOf x y gx gy dx dy sigs seals) (hop : Opens bodyOf seals) {dX dY : Done}
    (hX : dX ∈ gx.dn) (hY : dY ∈ gy.dn) : Agree x y dX dY ∨ Agree y x dY dX := by
  cases hi : dX.isInit with
  | true => exact Or.inl (h.agree_init hop hX hY hi)
  | false =>
    obtain ⟨pl, hlog, _⟩ := (h.ox.d dX hX).rsp hi
    obtain ⟨d, hd, hdi, _⟩ := h.logged_y hlog rfl
    have : d = dY := mem_dn_eq h.oy.len hd hY
    subst this
    exact Or.inr (h.swap.agree_init hop hY hX hdi)

theorem mem_done {g : Ghost} {done : List (Bytes × Bool)} (he : done = g.dn.map (fun d => (d.payload, d.isInit))) {p : Bytes} {i : Bool}
    (h : (p, i) ∈ done) : ∃ d ∈ g.dn, d.payload = p ∧ d.isInit = i := by
  rw [he] at h
  obtain ⟨d, hd, hp⟩ := List.mem_map.1 h
  simp only [Prod.mk.injEq] at hp
  exact ⟨d, hd, hp.1, hp.2⟩

end

/-! ### the static fields never change -/

theorem encryptPayload_static (s : InitSt) (rnd : Rand) : Static s (encryptPayload s rnd).1 := by
  rw [encryptPayload_fst]; exact ⟨rfl, rfl, rfl, rfl, rfl, rfl⟩

theorem pingSt_static (st0 : InitSt) (h e : Bytes) (sel : Option Cipher) (rnd : Rand) : Static st0 (pingSt st0 h e sel rnd) := by
  cases sel <;> exact ⟨rfl, rfl, rfl, rfl, rfl, rfl⟩

theorem pongSt_static (st : InitSt) (own eb hb : Bytes) (sel : Option Cipher) (rnd : Rand) : Static st (pongSt st own eb hb sel rnd) := by
  cases sel <;> exact ⟨rfl, rfl, rfl, rfl, rfl, rfl⟩

theorem pingRes_static {env : CryptoEnv} {st0 st' : InitSt} {hh e : Bytes} {sel : Option Cipher} {rnd : Rand}
    {r : Bytes × InitResult × SealLog} (h : pingRes env st0 hh e sel rnd = .ok st' r) : Static st0 st' := by
  unfold pingRes at h
  simp only [Outcome.ok.injEq] at h
  rw [← h.1, sendMessage_pong]
  exact (pingSt_static st0 hh e sel rnd).trans ((encryptPayload_static _ rnd).trans ⟨rfl, rfl, rfl, rfl, rfl, rfl⟩)

theorem pongRes_static {env : CryptoEnv} {st5 st' : InitSt} {p : Bytes} {rnd : Rand}
    {r : Bytes × InitResult × SealLog} (h : pongRes env st5 rnd p = .ok st' r) : Static st5 st' := by
  unfold pongRes at h
  simp only [Outcome.ok.injEq] at h
  rw [← h.1, sendMessage_peng]
  exact (encryptPayload_static _ rnd).trans ⟨rfl, rfl, rfl, rfl, rfl, rfl⟩

theorem Eff.static_ok {env : CryptoEnv} {bodyOf : BodyOf} {ok : Bytes → Bool} {x : InitSt} {w : Bytes} {rnd : Rand} {R : Res}
    (he : Eff env bodyOf ok x w rnd R) {st' : InitSt} {r : Bytes × InitResult × SealLog} (hR : R = .ok st' r) : Static x st' := by
  cases he with
  | quietErr e => cases hR
  | quietOk o ho => simp only [Outcome.ok.injEq] at hR; rw [← hR.1]; exact Static.refl x
  | panic => cases hR
  | pingErr => cases hR
  | pingOk hh e al k st0 sel hr hne hst0 hsel => exact (pingBase_of hst0).static.trans (pingRes_static hR)
  | pongSelErr => cases hR
  | pongFail => cases hR
  | pongOk hb eb ab pl k own sel st5 p hr hne hstage hown hsel hd hok =>
    obtain ⟨cr, hcr⟩ := decryptPayload_frame _ _ _ _ _ hd
    have h5 : Static x st5 := by rw [hcr]; exact (pongSt_static x own eb hb sel rnd).trans ⟨rfl, rfl, rfl, rfl, rfl, rfl⟩
    exact h5.trans (pongRes_static hR)
  | pengFail => cases hR
  | pengOk hb pl k st2 p hr hne hstage hd hok =>
    obtain ⟨cr, _, rfl⟩ := decryptPayload_step hd
    simp only [Outcome.ok.injEq] at hR
    rw [← hR.1]
    exact ⟨rfl, rfl, rfl, rfl, rfl, rfl⟩

theorem Eff.static_err {env : CryptoEnv} {bodyOf : BodyOf} {ok : Bytes → Bool} {x : InitSt} {w : Bytes} {rnd : Rand} {R : Res}
    (he : Eff env bodyOf ok x w rnd R) {st' : InitSt} {e : InitErr} (hR : R = .err st' e) : Static x st' := by
  cases he with
  | quietErr e => simp only [Outcome.err.injEq] at hR; rw [← hR.1]; exact Static.refl x
  | quietOk o ho => cases hR
  | panic => cases hR
  | pingErr hh e al k st0 er hr hne hst0 hsel =>
    simp only [Outcome.err.injEq] at hR; rw [← hR.1]
    exact (pingBase_of hst0).static.trans ⟨rfl, rfl, rfl, rfl, rfl, rfl⟩
  | pingOk => unfold pingRes at hR; cases hR
  | pongSelErr => simp only [Outcome.err.injEq] at hR; rw [← hR.1]; exact ⟨rfl, rfl, rfl, rfl, rfl, rfl⟩
  | pongFail hb eb ab pl k own sel st5 r hr hne hstage hown hsel hd =>
    obtain ⟨cr, hcr⟩ := decryptPayload_frame _ _ _ _ _ hd
    simp only [Outcome.err.injEq] at hR; rw [← hR.1, hcr]
    exact (pongSt_static x own eb hb sel rnd).trans ⟨rfl, rfl, rfl, rfl, rfl, rfl⟩
  | pongOk => unfold pongRes at hR; cases hR
  | pengFail hb pl k st2 r hr hne hstage hd =>
    obtain ⟨cr, _, rfl⟩ := decryptPayload_step hd
    simp only [Outcome.err.injEq] at hR; rw [← hR.1]
    exact ⟨rfl, rfl, rfl, rfl, rfl, rfl⟩
  | pengOk => cases hR

end VpnCloud.Proofs.C05AgreeLemmas
