import VpnCloud.Model.Table
/-
  C11 / C12 / C13 over whole histories — the ABSTRACT routing state and its step function.
  (Definitions only; the refinement theorem and its corollaries are in `Proofs/TableRefine.lean`.)

  The abstract state is two lists of records: the claims (peer, range, expiry) in announcement order, and
  the learned / cached next hops (address, peer, expiry).  The operations are written directly, with
  `filter`, `erase`, `find?`: no "mark with timeout 0, then sweep" trick, no `swap_remove`, no scan with
  an accumulator.

  What is deliberately mirrored from the code (see the witnesses in `Proofs/TableRefine.lean`):
  * `lookup` never compares an expiry with the clock: an entry is "live" as long as no sweep has removed
    it.  Sweeps happen in `sweep` (housekeep) and at the end of `announce` and `disconnect`.
  * ranges are counted with multiplicity (announcing `[A, A]` gives two entries).
-/
namespace VpnCloud.Proofs.TableRefine
open VpnCloud

/-- the operations of the claim table; each is applied at a time `now : Int` -/
inductive TOp
  | announce (p : PeerId) (cs : List Range)
  | disconnect (p : PeerId)
  | learn (a : Addr) (p : PeerId)
  | lookup (a : Addr)
  | sweep
  deriving DecidableEq, Repr

/-- abstract routing state -/
structure Abs where
  /-- claims not yet swept, oldest first (the order only matters for ties between equally long prefixes) -/
  claims : List ClaimEntry
  /-- learned addresses and cached decisions, newest first -/
  learned : List CacheEntry
  cacheTimeout : Nat
  claimTimeout : Nat
  deriving Repr

/-- announcement of `p`, first half.  Walk over the claims, oldest first; `cs` is what is left of the
    announcement.  An entry of `p` whose range is still in `cs` is refreshed (and takes one occurrence
    out of `cs`); an entry of `p` whose range is not in `cs` is dropped.  Result: the remaining claims,
    the part of the announcement that is new, and whether something of `p` was dropped. -/
def refresh (p : PeerId) (fresh : Int) : List ClaimEntry → List Range → List ClaimEntry × List Range × Bool
  | [], cs => ([], cs, false)
  | e :: es, cs =>
    if e.peer ≠ p then
      let r := refresh p fresh es cs
      (e :: r.1, r.2.1, r.2.2)
    else if e.claim ∈ cs then
      let r := refresh p fresh es (cs.erase e.claim)
      ({ e with timeout := fresh } :: r.1, r.2.1, r.2.2)
    else
      let r := refresh p fresh es cs
      (r.1, r.2.1, true)

/-- the most specific claim containing `a`: among the claims containing `a`, the first one whose prefix
    is at least as long as that of every claim containing `a` -/
def best (a : Addr) (claims : List ClaimEntry) : Option ClaimEntry :=
  let ms := claims.filter (fun e => e.claim.matches a)
  ms.find? (fun e => ms.all (fun e' => e'.claim.prefixLen ≤ e.claim.prefixLen))

namespace Abs

/-- drop every entry whose expiry is in the past -/
def sweep (s : Abs) (now : Int) : Abs :=
  { s with claims := s.claims.filter (fun e => e.timeout ≥ now),
           learned := s.learned.filter (fun v => v.timeout ≥ now) }

/-- one operation at time `now`; the second component is the answer of a `lookup` (`none` otherwise) -/
def step (s : Abs) (now : Int) : TOp → Abs × Option PeerId
  | .announce p cs =>
    -- `p`'s claims become `cs`, all expiring at `now + claimTimeout`; if a claim of `p` was dropped,
    -- everything learned / cached for `p` is dropped as well; then a sweep
    let fresh := now + s.claimTimeout
    let r := refresh p fresh s.claims cs
    let claims' := r.1 ++ r.2.1.map (fun c => ({ peer := p, claim := c, timeout := fresh } : ClaimEntry))
    let learned' := if r.2.2 then s.learned.filter (fun v => v.peer ≠ p) else s.learned
    (({ s with claims := claims', learned := learned' }).sweep now, none)
  | .disconnect p =>
    -- everything of `p` disappears; then a sweep
    (({ s with claims := s.claims.filter (fun e => e.peer ≠ p),
               learned := s.learned.filter (fun v => v.peer ≠ p) }).sweep now, none)
  | .learn a p =>
    -- overwrite
    ({ s with learned := { addr := a, peer := p, timeout := now + s.cacheTimeout } ::
                s.learned.filter (fun v => v.addr ≠ a) }, none)
  | .sweep => (s.sweep now, none)
  | .lookup a =>
    match s.learned.find? (fun v => v.addr = a) with
    | some v => (s, some v.peer)
    | none =>
      match best a s.claims with
      | some e =>
        ({ s with learned := { addr := a, peer := e.peer, timeout := min (now + s.cacheTimeout) e.timeout } ::
                    s.learned }, some e.peer)
      | none => (s, none)

/-- a history: operations with their times; returns the final state and all answers -/
def run (s : Abs) : List (Int × TOp) → Abs × List (Option PeerId)
  | [] => (s, [])
  | (now, op) :: ops =>
    let r := s.step now op
    let rs := run r.1 ops
    (rs.1, r.2 :: rs.2)

end Abs

/-- the same operation on the model of `ClaimTable` -/
def stepT (t : Table) (now : Int) : TOp → Table × Option PeerId
  | .announce p cs => (t.setClaims now p cs, none)
  | .disconnect p => (t.removeClaims now p, none)
  | .learn a p => (t.learn now a p, none)
  | .sweep => (t.housekeep now, none)
  | .lookup a => t.lookup now a

/-- a history on the model -/
def runT (t : Table) : List (Int × TOp) → Table × List (Option PeerId)
  | [] => (t, [])
  | (now, op) :: ops =>
    let r := stepT t now op
    let rs := runT r.1 ops
    (rs.1, r.2 :: rs.2)

/-- the abstraction function: forget nothing but the representation -/
def abs (t : Table) : Abs :=
  { claims := t.claims, learned := t.cache, cacheTimeout := t.cacheTimeout, claimTimeout := t.claimTimeout }

/-- claim lists are compared up to exchanging neighbours that have the same peer and the same expiry
    (`set_claims` appends the new ranges of an announcement in an order that depends on `swap_remove`;
    such neighbours can never be told apart by a lookup) -/
inductive CEq : List ClaimEntry → List ClaimEntry → Prop
  | nil : CEq [] []
  | cons (x : ClaimEntry) {l l' : List ClaimEntry} : CEq l l' → CEq (x :: l) (x :: l')
  | swap (x y : ClaimEntry) (l : List ClaimEntry) : x.peer = y.peer → x.timeout = y.timeout →
      CEq (y :: x :: l) (x :: y :: l)
  | trans {a b c : List ClaimEntry} : CEq a b → CEq b c → CEq a c

/-- the refinement relation between a table and an abstract state -/
structure Rel (t : Table) (s : Abs) : Prop where
  learned : s.learned = t.cache
  claims : CEq t.claims s.claims
  cacheTimeout : s.cacheTimeout = t.cacheTimeout
  claimTimeout : s.claimTimeout = t.claimTimeout

end VpnCloud.Proofs.TableRefine
