import VpnCloud.Model.InitMsg
import VpnCloud.Proofs.Lemmas.CodecLemmas
/-
  Helper lemmas for the handshake-message part of C16: per-part steps of the field loop of
  `InitMsg::read_from` on what `write_to` produces, the algorithm-list body, and the frame around the parts.
-/
namespace VpnCloud.Proofs.InitMsgLemmas
open VpnCloud VpnCloud.Codec VpnCloud.InitMsg VpnCloud.Proofs.CodecLemmas

/-! ### algorithm list -/

def encAlgo (p : Cipher × Nat) : Bytes := p.1.wireId :: Bytes.ofBE 4 p.2

theorem algosBody_eq (a : Algos) :
    algosBody a = (if a.allowUnencrypted then 0 :: F32_INFINITY else []) ++ a.speeds.flatMap encAlgo := by
  unfold algosBody
  congr 1

theorem flatMap_encAlgo_length (l : List (Cipher × Nat)) : (l.flatMap encAlgo).length = 5 * l.length := by
  induction l with
  | nil => rfl
  | cons p l ih =>
    simp only [List.flatMap_cons, List.length_append, ih, encAlgo, List.length_cons, ofBE_length]
    omega

theorem algosBody_length (a : Algos) :
    (algosBody a).length = (if a.allowUnencrypted then 5 else 0) + 5 * a.speeds.length := by
  rw [algosBody_eq, List.length_append, flatMap_encAlgo_length]
  cases a.allowUnencrypted <;> simp [F32_INFINITY]

theorem wireId_ne_zero (c : Cipher) : c.wireId ≠ 0 := by cases c <;> simp [Cipher.wireId]
theorem ofWireId_wireId (c : Cipher) : Cipher.ofWireId c.wireId = some c := by cases c <;> rfl

theorem readAlgos_entry (n : Nat) (p : Cipher × Nat) (hp : p.2 < 2 ^ 32) (rest : Bytes) (acc : Algos) :
    readAlgos (n + 1) (encAlgo p ++ rest) acc = readAlgos n rest { acc with speeds := acc.speeds ++ [p] } := by
  obtain ⟨c, s⟩ := p
  simp only at hp
  have h4 : take? 4 (Bytes.ofBE 4 s ++ rest) = some (Bytes.ofBE 4 s, rest) := take?_append 4 _ _ (ofBE_length 4 s)
  have hv : Bytes.beVal (Bytes.ofBE 4 s) = s := by
    rw [beVal_ofBE]; exact Nat.mod_eq_of_lt (by omega)
  simp only [readAlgos, encAlgo, List.cons_append, readU8, Option.bind_eq_bind, Option.bind_some, h4,
    wireId_ne_zero, if_false, ofWireId_wireId, hv]

theorem readAlgos_list (l : List (Cipher × Nat)) (hl : ∀ p ∈ l, p.2 < 2 ^ 32) (rest : Bytes) (acc : Algos) :
    readAlgos l.length (l.flatMap encAlgo ++ rest) acc = some ({ acc with speeds := acc.speeds ++ l }, rest) := by
  induction l generalizing acc with
  | nil => simp [readAlgos]
  | cons p l ih =>
    simp only [List.flatMap_cons, List.length_cons, List.append_assoc]
    rw [readAlgos_entry _ p (hl p (List.mem_cons_self)), ih (fun q hq => hl q (List.mem_cons_of_mem _ hq))]
    simp

theorem readAlgos_flag (n : Nat) (rest : Bytes) (acc : Algos) :
    readAlgos (n + 1) (0 :: F32_INFINITY ++ rest) acc = readAlgos n rest { acc with allowUnencrypted := true } := by
  have h4 : take? 4 (F32_INFINITY ++ rest) = some (F32_INFINITY, rest) := take?_append 4 _ _ rfl
  simp only [readAlgos, List.cons_append, readU8, Option.bind_eq_bind, Option.bind_some, h4, if_true]

theorem readAlgos_body (a : Algos) (hs : ∀ p ∈ a.speeds, p.2 < 2 ^ 32) (rest : Bytes) :
    readAlgos ((algosBody a).length / 5) (algosBody a ++ rest) { speeds := [], allowUnencrypted := false } = some (a, rest) := by
  rw [algosBody_length, algosBody_eq]
  obtain ⟨sp, u⟩ := a
  cases u
  · have e : (0 + 5 * sp.length) / 5 = sp.length := by omega
    simp only [Bool.false_eq_true, if_false, List.nil_append, e]
    rw [readAlgos_list sp hs]
    simp
  · have e : (5 + 5 * sp.length) / 5 = sp.length + 1 := by omega
    simp only [if_true, e, List.append_assoc]
    rw [readAlgos_flag, readAlgos_list sp hs]
    simp

/-! ### one part of the field loop -/

theorem part_length (tag : Nat) (body : Bytes) : (part tag body).length = body.length + 3 := by
  simp [part, Bytes.ofU16]

theorem part_append (tag : Nat) (body rest : Bytes) :
    part tag body ++ rest = tag :: (Bytes.ofU16 body.length ++ (body ++ rest)) := by
  simp [part]

theorem step_end (f : Nat) (rest : Bytes) (acc : Fields) :
    readFields (f + 1) (Generated.PART_END :: rest) acc = .ok (acc, rest) := by
  simp [readFields, readU8]

theorem step_stage (f s : Nat) (rest : Bytes) (acc : Fields) :
    readFields (f + 1) (part Generated.PART_STAGE [s] ++ rest) acc = readFields f rest { acc with stage := some s } := by
  rw [part_append]
  have h16 : readU16 (Bytes.ofU16 1 ++ s :: rest) = some (1, s :: rest) := readU16_ofU16 1 (by decide) _
  simp [readFields, readU8, h16, Generated.PART_STAGE, Generated.PART_END]

theorem step_hash (f : Nat) (h rest : Bytes) (acc : Fields) (hh : h.length = 20) :
    readFields (f + 1) (part Generated.PART_SALTED_NODE_ID_HASH h ++ rest) acc = readFields f rest { acc with hash := some h } := by
  rw [part_append]
  simp only [readFields, readU8, readU16_ofU16 _ (show h.length < 65536 by omega)]
  have ht : take? 20 (h ++ rest) = some (h, rest) := take?_append _ _ _ hh
  simp [Generated.PART_SALTED_NODE_ID_HASH, Generated.PART_STAGE, Generated.PART_END, hh,
    Generated.SALTED_NODE_ID_HASH_LEN, ht]

theorem step_ecdh (f : Nat) (e rest : Bytes) (acc : Fields) (he : e.length < 65536) :
    readFields (f + 1) (part Generated.PART_ECDH_PUBLIC_KEY e ++ rest) acc = readFields f rest { acc with ecdh := some e } := by
  rw [part_append]
  simp only [readFields, readU8, readU16_ofU16 _ he]
  have ht : take? e.length (e ++ rest) = some (e, rest) := take?_append _ _ _ rfl
  simp [Generated.PART_ECDH_PUBLIC_KEY, Generated.PART_SALTED_NODE_ID_HASH, Generated.PART_STAGE, Generated.PART_END, ht]

theorem step_payload (f : Nat) (p rest : Bytes) (acc : Fields) (hp : p.length < 65536) :
    readFields (f + 1) (part Generated.PART_PAYLOAD p ++ rest) acc = readFields f rest { acc with payload := some p } := by
  rw [part_append]
  simp only [readFields, readU8, readU16_ofU16 _ hp]
  have ht : take? p.length (p ++ rest) = some (p, rest) := take?_append _ _ _ rfl
  simp [Generated.PART_PAYLOAD, Generated.PART_ECDH_PUBLIC_KEY, Generated.PART_SALTED_NODE_ID_HASH, Generated.PART_STAGE,
    Generated.PART_END, ht]

theorem step_algos (f : Nat) (a : Algos) (rest : Bytes) (acc : Fields)
    (hs : ∀ p ∈ a.speeds, p.2 < 2 ^ 32) (hl : 5 * a.speeds.length + 5 < 65536) :
    readFields (f + 1) (part Generated.PART_ALGORITHMS (algosBody a) ++ rest) acc = readFields f rest { acc with algos := some a } := by
  rw [part_append]
  have hlen : (algosBody a).length < 65536 := by
    rw [algosBody_length]; split <;> omega
  simp only [readFields, readU8, readU16_ofU16 _ hlen]
  simp [Generated.PART_ALGORITHMS, Generated.PART_PAYLOAD, Generated.PART_ECDH_PUBLIC_KEY, Generated.PART_SALTED_NODE_ID_HASH,
    Generated.PART_STAGE, Generated.PART_END, readAlgos_body a hs rest]

/-! ### the parts of a message and the fields they produce -/

def partsOf : InitMsg → Bytes
  | .ping h e a => part Generated.PART_STAGE [Generated.STAGE_PING] ++ (part Generated.PART_SALTED_NODE_ID_HASH h ++
      (part Generated.PART_ECDH_PUBLIC_KEY e ++ part Generated.PART_ALGORITHMS (algosBody a)))
  | .pong h e a p => part Generated.PART_STAGE [Generated.STAGE_PONG] ++ (part Generated.PART_SALTED_NODE_ID_HASH h ++
      (part Generated.PART_ECDH_PUBLIC_KEY e ++ (part Generated.PART_ALGORITHMS (algosBody a) ++ part Generated.PART_PAYLOAD p)))
  | .peng h p => part Generated.PART_STAGE [Generated.STAGE_PENG] ++ (part Generated.PART_SALTED_NODE_ID_HASH h ++
      part Generated.PART_PAYLOAD p)

def fieldsOf : InitMsg → Fields
  | .ping h e a => { stage := some Generated.STAGE_PING, hash := some h, ecdh := some e, algos := some a }
  | .pong h e a p => { stage := some Generated.STAGE_PONG, hash := some h, ecdh := some e, algos := some a, payload := some p }
  | .peng h p => { stage := some Generated.STAGE_PENG, hash := some h, payload := some p }

theorem signedRegion_eq (m : InitMsg) (salt khash : Bytes) :
    signedRegion m salt khash = salt ++ (khash ++ (partsOf m ++ [Generated.PART_END])) := by
  cases m <;> simp [signedRegion, partsOf, InitMsg.stage, InitMsg.hash]

theorem partsOf_length (m : InitMsg) : 5 ≤ (partsOf m).length := by
  cases m <;> simp only [partsOf, List.length_append, part_length] <;> omega

/-- the field loop reads the parts of a written message back into exactly its fields and stops behind the END marker -/
theorem readFields_parts (m : InitMsg) (fuel : Nat) (hf : 6 ≤ fuel) (rest : Bytes)
    (hh : m.hash.length = 20)
    (he : ∀ h e a, m = .ping h e a → e.length < 65536 ∧ (∀ p ∈ a.speeds, p.2 < 2 ^ 32) ∧ 5 * a.speeds.length + 5 < 65536)
    (ho : ∀ h e a p, m = .pong h e a p →
      e.length < 65536 ∧ (∀ p ∈ a.speeds, p.2 < 2 ^ 32) ∧ 5 * a.speeds.length + 5 < 65536 ∧ p.length < 65536)
    (hg : ∀ h p, m = .peng h p → p.length < 65536) :
    readFields fuel (partsOf m ++ Generated.PART_END :: rest) {} = .ok (fieldsOf m, rest) := by
  obtain ⟨f, rfl⟩ : ∃ f, fuel = f + 6 := ⟨fuel - 6, by omega⟩
  cases m with
  | ping h e a =>
    obtain ⟨h1, h2, h3⟩ := he h e a rfl
    have hh : h.length = 20 := hh
    simp only [partsOf, List.append_assoc]
    rw [step_stage, step_hash _ _ _ _ hh, step_ecdh _ _ _ _ h1, step_algos _ _ _ _ h2 h3, step_end]
    rfl
  | pong h e a p =>
    obtain ⟨h1, h2, h3, h4⟩ := ho h e a p rfl
    have hh : h.length = 20 := hh
    simp only [partsOf, List.append_assoc]
    rw [step_stage, step_hash _ _ _ _ hh, step_ecdh _ _ _ _ h1, step_algos _ _ _ _ h2 h3, step_payload _ _ _ _ h4, step_end]
    rfl
  | peng h p =>
    have h4 := hg h p rfl
    have hh : h.length = 20 := hh
    simp only [partsOf, List.append_assoc]
    rw [step_stage, step_hash _ _ _ _ hh, step_payload _ _ _ _ h4, step_end]
    rfl

/-- the last stage of `read_from`: building the message from the collected fields -/
def assemble (f : Fields) (pk : Bytes) : Except InitErr (InitMsg × Bytes) :=
  match f.stage, f.hash with
  | none, _ => .error .cryptoInit
  | some _, none => .error .cryptoInit
  | some stage, some hsh =>
    if stage = Generated.STAGE_PING then
      match f.ecdh, f.algos with
      | some e, some a => .ok (.ping hsh e a, pk)
      | _, _ => .error .cryptoInit
    else if stage = Generated.STAGE_PONG then
      match f.ecdh, f.algos, f.payload with
      | some e, some a, some p => .ok (.pong hsh e a p, pk)
      | _, _, _ => .error .cryptoInit
    else if stage = Generated.STAGE_PENG then
      match f.payload with
      | some p => .ok (.peng hsh p, pk)
      | none => .error .cryptoInit
    else .error .cryptoInit

theorem assemble_fieldsOf (m : InitMsg) (pk : Bytes) : assemble (fieldsOf m) pk = .ok (m, pk) := by
  cases m <;> simp [assemble, fieldsOf, Generated.STAGE_PING, Generated.STAGE_PONG, Generated.STAGE_PENG]

/-- the frame of `read_from` around the field loop: salt, key hash, trusted-key lookup, signature -/
theorem readFrom_frame (env : CryptoEnv) (salt kh P sig tail k : Bytes) (T : List Bytes) (f : Fields)
    (hsalt : salt.length = 4) (hkh : kh.length = 4) (hsig : sig.length < 256)
    (hk : T.find? (fun tk => env.keyHash tk salt = kh) = some k)
    (hrf : ∀ fuel, 6 ≤ fuel → ∀ rest, readFields fuel (P ++ Generated.PART_END :: rest) {} = .ok (f, rest))
    (hP : 5 ≤ P.length)
    (hv : env.sigVerify k (salt ++ (kh ++ (P ++ [Generated.PART_END]))) sig = true) :
    readFrom env (salt ++ (kh ++ (P ++ [Generated.PART_END])) ++ [sig.length % 256] ++ sig ++ tail) T = assemble f k := by
  have e0 : salt ++ (kh ++ (P ++ [Generated.PART_END])) ++ [sig.length % 256] ++ sig ++ tail =
      salt ++ (kh ++ (P ++ Generated.PART_END :: (sig.length :: (sig ++ tail)))) := by
    simp [Nat.mod_eq_of_lt hsig]
  have e1 : take? 4 (salt ++ (kh ++ (P ++ Generated.PART_END :: (sig.length :: (sig ++ tail))))) =
      some (salt, kh ++ (P ++ Generated.PART_END :: (sig.length :: (sig ++ tail)))) := take?_append 4 _ _ hsalt
  have e2 : take? 4 (kh ++ (P ++ Generated.PART_END :: (sig.length :: (sig ++ tail)))) =
      some (kh, P ++ Generated.PART_END :: (sig.length :: (sig ++ tail))) := take?_append 4 _ _ hkh
  have e3 := hrf ((P ++ Generated.PART_END :: (sig.length :: (sig ++ tail))).length + 1)
    (by simp only [List.length_append, List.length_cons]; omega) (sig.length :: (sig ++ tail))
  have e4 : take? sig.length (sig ++ tail) = some (sig, tail) := take?_append _ _ _ rfl
  have e5 : (salt ++ (kh ++ (P ++ Generated.PART_END :: (sig.length :: (sig ++ tail))))).take
      ((salt ++ (kh ++ (P ++ Generated.PART_END :: (sig.length :: (sig ++ tail))))).length - (sig.length :: (sig ++ tail)).length) =
      salt ++ (kh ++ (P ++ [Generated.PART_END])) := by
    have : salt ++ (kh ++ (P ++ Generated.PART_END :: (sig.length :: (sig ++ tail)))) =
        (salt ++ (kh ++ (P ++ [Generated.PART_END]))) ++ (sig.length :: (sig ++ tail)) := by simp
    rw [this, List.length_append, Nat.add_sub_cancel, List.take_left']
    rfl
  rw [e0]
  unfold readFrom
  simp only [e1, e2, hk, e3, readU8, e4, e5, hv, Bool.not_true, Bool.false_eq_true, if_false]
  rfl

end VpnCloud.Proofs.InitMsgLemmas
