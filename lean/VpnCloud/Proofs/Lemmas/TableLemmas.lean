import VpnCloud.Model.Table
import VpnCloud.Spec.C11
import VpnCloud.Spec.TableSpec
/-
  Helper lemmas about the claim-table model (`Model/Table.lean`) used by the property theorems
  of C11, C12 and C13.
-/
namespace VpnCloud.Proofs.TableLemmas
open VpnCloud VpnCloud.Table VpnCloud.Spec VpnCloud.Spec.C11 VpnCloud.Spec.TableSpec

/-! ### `sameSet` -/

theorem sameSet_iff {α} [DecidableEq α] (a b : List α) :
    sameSet a b = true ↔ ∀ x, x ∈ a ↔ x ∈ b := by
  simp only [sameSet, Bool.and_eq_true, List.all_eq_true, List.contains_iff_mem]
  constructor
  · rintro ⟨h1, h2⟩ x
    exact ⟨h1 x, h2 x⟩
  · intro h
    exact ⟨fun x hx => (h x).1 hx, fun x hx => (h x).2 hx⟩

theorem sameSet_refl {α} [DecidableEq α] (a : List α) : sameSet a a = true :=
  (sameSet_iff a a).2 (fun _ => Iff.rfl)

theorem filter_comm {α} (f g : α → Bool) (l : List α) :
    (l.filter f).filter g = (l.filter g).filter f := by
  rw [List.filter_filter, List.filter_filter]
  congr 1
  funext x
  exact Bool.and_comm _ _

/-! ### `swapRemove` and `position` -/

theorem mem_of_mem_dropLast {α} {x : α} {l : List α} (h : x ∈ l.dropLast) : x ∈ l := by
  rw [List.dropLast_eq_take] at h
  exact List.mem_of_mem_take h

theorem mem_of_mem_swapRemove {α} {x : α} {l : List α} {pos : Nat}
    (h : x ∈ swapRemove l pos) : x ∈ l := by
  unfold swapRemove at h
  split at h
  · exact h
  · rename_i last hl
    split at h
    · exact mem_of_mem_dropLast h
    · rcases List.mem_or_eq_of_mem_set (mem_of_mem_dropLast h) with h | h
      · exact h
      · exact h ▸ List.mem_of_getLast? hl

/-- `swapRemove` removes only the element at position `pos` (which must be in bounds, as for
    `swap_remove` in Rust, which panics otherwise) -/
theorem mem_swapRemove_or {α} {x : α} {l : List α} {pos : Nat} (hpos : pos < l.length)
    (h : x ∈ l) : x ∈ swapRemove l pos ∨ l[pos]? = some x := by
  rcases List.eq_nil_or_concat l with rfl | ⟨d, last, rfl⟩
  · simp at h
  · rw [List.concat_eq_append] at h hpos ⊢
    simp only [swapRemove, List.getLast?_concat, List.length_append, List.length_cons,
      List.length_nil, Nat.zero_add, Nat.add_right_cancel_iff]
    simp only [List.length_append, List.length_cons, List.length_nil, Nat.zero_add] at hpos
    by_cases hp : pos = d.length
    · subst hp
      simp only [if_true, List.dropLast_concat]
      rcases List.mem_append.1 h with h | h
      · exact Or.inl h
      · right
        simp at h
        simp [h]
    · have hlt : pos < d.length := by omega
      simp only [hp, if_false, List.set_append, hlt, if_true, List.dropLast_concat]
      rcases List.mem_append.1 h with h | h
      · rcases List.getElem_of_mem h with ⟨i, hi, rfl⟩
        by_cases hip : i = pos
        · right
          subst hip
          simp [List.getElem?_append_left hlt]
        · left
          have : (d.set pos last)[i]'(by simpa using hi) = d[i] := by
            simp [Ne.symm hip]
          exact this ▸ List.getElem_mem _
      · left
        simp at h
        subst h
        exact List.mem_set hlt _

/-- without the bound the statement fails: an out-of-range `pos` still drops the last element -/
example : (3 : Nat) ∈ [1, 2, 3] ∧ 3 ∉ swapRemove [1, 2, 3] 5 ∧ [1, 2, 3][5]? ≠ some 3 := by decide

theorem position_some {cs : List Range} {x : Range} {pos : Nat} (h : position cs x = some pos) :
    pos < cs.length ∧ cs[pos]? = some x := by
  unfold position at h
  split at h
  · rename_i i hi
    simp only [Option.some.injEq] at h
    subst h
    rcases List.findIdx?_eq_some_iff_getElem.1 hi with ⟨hlt, hp, _⟩
    refine ⟨hlt, ?_⟩
    simp only [decide_eq_true_eq] at hp
    simp [hp.symm, hlt]
  · cases h

theorem position_none {cs : List Range} {x : Range} (h : position cs x = none) : x ∉ cs := by
  unfold position at h
  split at h
  · cases h
  · rename_i hi
    intro hx
    have := List.findIdx?_eq_none_iff.1 hi x hx
    simp at this

/-! ### the first loop of `set_claims` -/

section Loop
variable (p : PeerId) (fresh : Int)

theorem loop_cons (e : ClaimEntry) (es : List ClaimEntry) (cs : List Range) (rm : Bool) :
    setClaimsLoop p fresh (e :: es) cs rm =
      if e.peer = p then
        match position cs e.claim with
        | some pos =>
          ({ e with timeout := fresh } :: (setClaimsLoop p fresh es (swapRemove cs pos) rm).1,
            (setClaimsLoop p fresh es (swapRemove cs pos) rm).2.1,
            (setClaimsLoop p fresh es (swapRemove cs pos) rm).2.2)
        | none =>
          ({ e with timeout := 0 } :: (setClaimsLoop p fresh es cs true).1,
            (setClaimsLoop p fresh es cs true).2.1, (setClaimsLoop p fresh es cs true).2.2)
      else
        (e :: (setClaimsLoop p fresh es cs rm).1, (setClaimsLoop p fresh es cs rm).2.1,
          (setClaimsLoop p fresh es cs rm).2.2) := by
  rfl

/-- entries of other peers are kept, in order -/
theorem loop_filter_ne (es : List ClaimEntry) (cs : List Range) (rm : Bool) :
    (setClaimsLoop p fresh es cs rm).1.filter (fun e => e.peer ≠ p) =
      es.filter (fun e => e.peer ≠ p) := by
  induction es generalizing cs rm with
  | nil => rfl
  | cons e es ih =>
    rw [loop_cons]
    split
    · rename_i hp
      split
      · simpa [hp] using ih _ _
      · simpa [hp] using ih _ _
    · rename_i hp
      simpa [hp] using ih _ _

/-- entries of `p` are either refreshed (and then announced) or marked as expired -/
theorem loop_mem_peer (es : List ClaimEntry) (cs : List Range) (rm : Bool) :
    ∀ x ∈ (setClaimsLoop p fresh es cs rm).1, x.peer = p →
      (x.timeout = fresh ∧ x.claim ∈ cs) ∨ x.timeout = 0 := by
  induction es generalizing cs rm with
  | nil => intro x hx; simp [setClaimsLoop] at hx
  | cons e es ih =>
    rw [loop_cons]
    split
    · split
      · rename_i pos hpos
        intro x hx hxp
        rcases List.mem_cons.1 hx with rfl | hx
        · exact Or.inl ⟨rfl, List.mem_of_getElem? (position_some hpos).2⟩
        · rcases ih _ _ x hx hxp with ⟨h1, h2⟩ | h
          · exact Or.inl ⟨h1, mem_of_mem_swapRemove h2⟩
          · exact Or.inr h
      · intro x hx hxp
        rcases List.mem_cons.1 hx with rfl | hx
        · exact Or.inr rfl
        · exact ih _ _ x hx hxp
    · rename_i hp
      intro x hx hxp
      rcases List.mem_cons.1 hx with rfl | hx
      · exact absurd hxp hp
      · exact ih _ _ x hx hxp

/-- the unmatched rest of the announcement is part of the announcement -/
theorem loop_rest_subset (es : List ClaimEntry) (cs : List Range) (rm : Bool) :
    ∀ x ∈ (setClaimsLoop p fresh es cs rm).2.1, x ∈ cs := by
  induction es generalizing cs rm with
  | nil => intro x hx; simpa [setClaimsLoop] using hx
  | cons e es ih =>
    rw [loop_cons]
    split
    · split
      · intro x hx
        exact mem_of_mem_swapRemove (ih _ _ x hx)
      · intro x hx
        exact ih _ _ x hx
    · intro x hx
      exact ih _ _ x hx

/-- every announced range is either still unmatched or carried by a refreshed entry of `p` -/
theorem loop_cover (es : List ClaimEntry) (cs : List Range) (rm : Bool) :
    ∀ x ∈ cs, x ∈ (setClaimsLoop p fresh es cs rm).2.1 ∨
      ∃ e ∈ (setClaimsLoop p fresh es cs rm).1, e.peer = p ∧ e.claim = x ∧ e.timeout = fresh := by
  induction es generalizing cs rm with
  | nil => intro x hx; exact Or.inl (by simpa [setClaimsLoop] using hx)
  | cons e es ih =>
    rw [loop_cons]
    split
    · rename_i hp
      split
      · rename_i pos hpos
        intro x hx
        rcases mem_swapRemove_or (position_some hpos).1 hx with h | h
        · rcases ih _ rm x h with h | ⟨e', he', h⟩
          · exact Or.inl h
          · exact Or.inr ⟨e', List.mem_cons_of_mem _ he', h⟩
        · right
          refine ⟨{ e with timeout := fresh }, List.mem_cons_self, hp, ?_, rfl⟩
          have := (position_some hpos).2
          rw [h] at this
          exact (Option.some.inj this).symm
      · intro x hx
        rcases ih _ true x hx with h | ⟨e', he', h⟩
        · exact Or.inl h
        · exact Or.inr ⟨e', List.mem_cons_of_mem _ he', h⟩
    · intro x hx
      rcases ih _ rm x hx with h | ⟨e', he', h⟩
      · exact Or.inl h
      · exact Or.inr ⟨e', List.mem_cons_of_mem _ he', h⟩

/-- the flag is set as soon as an entry of `p` is not announced again -/
theorem loop_flag (es : List ClaimEntry) (cs : List Range) (rm : Bool)
    (h : rm = true ∨ ∃ e ∈ es, e.peer = p ∧ e.claim ∉ cs) :
    (setClaimsLoop p fresh es cs rm).2.2 = true := by
  induction es generalizing cs rm with
  | nil =>
    rcases h with h | ⟨e, he, _⟩
    · simpa [setClaimsLoop] using h
    · simp at he
  | cons e es ih =>
    rw [loop_cons]
    split
    · split
      · rename_i pos hpos
        apply ih
        rcases h with h | ⟨e', he', hp', hc'⟩
        · exact Or.inl h
        · rcases List.mem_cons.1 he' with rfl | he'
          · exact absurd (List.mem_of_getElem? (position_some hpos).2) hc'
          · exact Or.inr ⟨e', he', hp', fun hm => hc' (mem_of_mem_swapRemove hm)⟩
      · exact ih _ _ (Or.inl rfl)
    · rename_i hp
      apply ih
      rcases h with h | ⟨e', he', hp', hc'⟩
      · exact Or.inl h
      · rcases List.mem_cons.1 he' with rfl | he'
        · exact absurd hp' hp
        · exact Or.inr ⟨e', he', hp', hc'⟩

end Loop

/-! ### marking entries of a peer as expired, then sweeping -/

theorem zero_filter_claims (l : List ClaimEntry) (p : PeerId) (now : Int) (hnow : 0 < now) :
    (l.map (fun e => if e.peer = p then { e with timeout := 0 } else e)).filter
        (fun e => e.timeout ≥ now) =
      l.filter (fun e => e.peer ≠ p && e.timeout ≥ now) := by
  have h0 : ¬ (now ≤ 0) := by omega
  induction l with
  | nil => rfl
  | cons e es ih =>
    rw [List.map_cons, List.filter_cons, List.filter_cons, ih]
    by_cases hp : e.peer = p <;> simp [hp, h0]

theorem zero_filter_cache (l : List CacheEntry) (p : PeerId) (now : Int) (hnow : 0 < now) :
    (l.map (fun v => if v.peer = p then { v with timeout := 0 } else v)).filter
        (fun v => v.timeout ≥ now) =
      l.filter (fun v => v.peer ≠ p && v.timeout ≥ now) := by
  have h0 : ¬ (now ≤ 0) := by omega
  induction l with
  | nil => rfl
  | cons e es ih =>
    rw [List.map_cons, List.filter_cons, List.filter_cons, ih]
    by_cases hp : e.peer = p <;> simp [hp, h0]

/-! ### `maxPrefix` -/

theorem foldl_max_eq (l : List ClaimEntry) (m k : Nat) (hm : m ≤ k)
    (hall : ∀ e ∈ l, e.claim.prefixLen ≤ k) (hex : m = k ∨ ∃ e ∈ l, e.claim.prefixLen = k) :
    l.foldl (fun m e => max m e.claim.prefixLen) m = k := by
  induction l generalizing m with
  | nil =>
    rcases hex with h | ⟨e, he, _⟩
    · exact h
    · simp at he
  | cons e es ih =>
    rw [List.foldl_cons]
    have he := hall e List.mem_cons_self
    apply ih
    · omega
    · exact fun e' he' => hall e' (List.mem_cons_of_mem _ he')
    · rcases hex with h | ⟨e', he', hk⟩
      · left; omega
      · rcases List.mem_cons.1 he' with rfl | he'
        · left; omega
        · exact Or.inr ⟨e', he', hk⟩

theorem maxPrefix_eq (l : List ClaimEntry) (e : ClaimEntry) (he : e ∈ l)
    (hall : ∀ e' ∈ l, e'.claim.prefixLen ≤ e.claim.prefixLen) :
    maxPrefix l = e.claim.prefixLen :=
  foldl_max_eq l 0 _ (Nat.zero_le _) hall (Or.inr ⟨e, he, rfl⟩)

/-! ### the scan of `lookup` -/

/-- the condition under which the scan replaces its accumulator by `e` -/
def scanCond (a : Addr) (e : ClaimEntry) (acc : Option ClaimEntry) : Bool :=
  (match acc with
    | none => true
    | some x => decide (e.claim.prefixLen > x.claim.prefixLen)) && e.claim.matches a

theorem scan_cons (a : Addr) (e : ClaimEntry) (es : List ClaimEntry) (acc : Option ClaimEntry) :
    scan a (e :: es) acc = if scanCond a e acc = true then scan a es (some e) else scan a es acc := by
  rfl

theorem scan_none (a : Addr) (l : List ClaimEntry) (acc : Option ClaimEntry)
    (h : scan a l acc = none) : acc = none ∧ ∀ e ∈ l, e.claim.matches a = false := by
  induction l generalizing acc with
  | nil => exact ⟨by simpa [scan] using h, by simp⟩
  | cons e es ih =>
    rw [scan_cons] at h
    split at h
    · exact absurd (ih _ h).1 (by simp)
    · rename_i hc
      have ⟨h1, h2⟩ := ih _ h
      subst h1
      refine ⟨rfl, ?_⟩
      intro e' he'
      rcases List.mem_cons.1 he' with rfl | he'
      · simpa [scanCond] using hc
      · exact h2 e' he'

theorem scan_some (a : Addr) (l : List ClaimEntry) (acc : Option ClaimEntry) (r : ClaimEntry)
    (h : scan a l acc = some r) :
    ((r ∈ l ∧ r.claim.matches a = true) ∨ acc = some r) ∧
    (∀ e ∈ l, e.claim.matches a = true → e.claim.prefixLen ≤ r.claim.prefixLen) ∧
    (∀ x, acc = some x → x.claim.prefixLen ≤ r.claim.prefixLen) := by
  induction l generalizing acc with
  | nil =>
    have : acc = some r := by simpa [scan] using h
    subst this
    refine ⟨Or.inr rfl, by simp, ?_⟩
    intro x hx
    cases hx
    exact Nat.le_refl _
  | cons e es ih =>
    rw [scan_cons] at h
    split at h
    · rename_i hc
      have ⟨h1, h2, h3⟩ := ih _ h
      have her : e.claim.prefixLen ≤ r.claim.prefixLen := h3 e rfl
      simp only [scanCond, Bool.and_eq_true] at hc
      refine ⟨?_, ?_, ?_⟩
      · rcases h1 with ⟨hm, hr⟩ | h1
        · exact Or.inl ⟨List.mem_cons_of_mem _ hm, hr⟩
        · cases h1
          exact Or.inl ⟨List.mem_cons_self, hc.2⟩
      · intro e' he' hm
        rcases List.mem_cons.1 he' with rfl | he'
        · exact her
        · exact h2 e' he' hm
      · intro x hx
        subst hx
        have := hc.1
        simp only [decide_eq_true_eq] at this
        omega
    · rename_i hc
      have ⟨h1, h2, h3⟩ := ih _ h
      refine ⟨?_, ?_, h3⟩
      · rcases h1 with ⟨hm, hr⟩ | h1
        · exact Or.inl ⟨List.mem_cons_of_mem _ hm, hr⟩
        · exact Or.inr h1
      · intro e' he' hm
        rcases List.mem_cons.1 he' with rfl | he'
        · cases acc with
          | none => simp [scanCond, hm] at hc
          | some x =>
            have := h3 x rfl
            simp [scanCond, hm] at hc
            omega
        · exact h2 e' he' hm

/-! ### a concrete table for the satisfiability examples -/

/-- a concrete table: two peers, three claims (one of them expired), two cached decisions -/
def exTable : Table :=
  { cacheTimeout := 300
    claimTimeout := 1800
    claims := [⟨1, ⟨[10, 0, 0, 0], 8⟩, 2000⟩, ⟨2, ⟨[10, 1, 0, 0], 16⟩, 2000⟩, ⟨1, ⟨[10, 2, 0, 0], 16⟩, 50⟩]
    cache := [⟨[10, 2, 0, 1], 1, 400⟩, ⟨[10, 1, 0, 1], 2, 400⟩] }

end VpnCloud.Proofs.TableLemmas
