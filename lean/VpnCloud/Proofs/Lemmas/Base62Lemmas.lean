import VpnCloud.Model.Bytes
import VpnCloud.Model.Base62
import VpnCloud.Spec.C18
/-
  Helper lemmas for C18 (base-62 key codec).

  Both schoolbook loops of src/util.rs (`base62_add_mult_16`: base 62, multiplier 16, and the inner
  loop of `from_base62`: base 256, multiplier 62) are instances of one generic "multiply a
  little-endian digit list by `M` and add a carry" loop `gloop B M`.  The facts about it (length,
  value, digit bound, carry bound, canonical form) are proved once.
-/
namespace VpnCloud.Proofs.Base62Lemmas
open VpnCloud VpnCloud.Base62 VpnCloud.Spec.C18

/-! ## generic loop -/

/-- generic multiply-and-add loop: base `B`, multiplier `M`, little-endian digits, carry `d` -/
def gloop (B M : Nat) : List Nat → Nat → List Nat × Nat
  | [], d => ([], d)
  | item :: rest, d =>
    let d' := d + item * M
    let r := gloop B M rest (d' / B)
    (d' % B :: r.1, r.2)

theorem addMult16Loop_eq (ds : List Nat) (d : Nat) : addMult16Loop ds d = gloop 62 16 ds d := by
  induction ds generalizing d with
  | nil => rfl
  | cons x r ih => simp only [addMult16Loop, gloop, ih]

theorem mulAddLoop_eq (ds : List Nat) (d : Nat) : mulAddLoop ds d = gloop 256 62 ds d := by
  induction ds generalizing d with
  | nil => rfl
  | cons x r ih => simp only [mulAddLoop, gloop, ih]

/-- little-endian value of a digit list in base `B` -/
def leVal (B : Nat) : List Nat → Nat
  | [] => 0
  | d :: r => d + B * leVal B r

@[simp] theorem leVal_nil (B : Nat) : leVal B [] = 0 := rfl
@[simp] theorem leVal_cons (B d : Nat) (r : List Nat) : leVal B (d :: r) = d + B * leVal B r := rfl

theorem leVal_append_single (B : Nat) (l : List Nat) (c : Nat) :
    leVal B (l ++ [c]) = leVal B l + B ^ l.length * c := by
  induction l with
  | nil => simp
  | cons x r ih =>
    simp only [List.cons_append, leVal_cons, ih, List.length_cons, Nat.pow_succ]
    rw [Nat.mul_add, Nat.add_assoc, Nat.mul_comm (B ^ r.length) B, Nat.mul_assoc]

@[simp] theorem gloop_nil (B M d : Nat) : gloop B M [] d = ([], d) := rfl

theorem gloop_cons (B M x : Nat) (r : List Nat) (d : Nat) :
    gloop B M (x :: r) d =
      ((d + x * M) % B :: (gloop B M r ((d + x * M) / B)).1, (gloop B M r ((d + x * M) / B)).2) := rfl

theorem gloop_length (B M : Nat) (ds : List Nat) (d : Nat) :
    (gloop B M ds d).1.length = ds.length := by
  induction ds generalizing d with
  | nil => rfl
  | cons x r ih => simp [gloop_cons, ih]

theorem gloop_digits (B M : Nat) (hB : 0 < B) (ds : List Nat) (d : Nat) :
    ∀ x ∈ (gloop B M ds d).1, x < B := by
  induction ds generalizing d with
  | nil => simp
  | cons y r ih =>
    intro x hx
    rw [gloop_cons] at hx
    simp only [List.mem_cons] at hx
    rcases hx with rfl | hx
    · exact Nat.mod_lt _ hB
    · exact ih _ x hx

/-- arithmetic core of the value lemma -/
theorem step_arith (B M d x v s : Nat) (h : s = M * v + (d + x * M) / B) :
    (d + x * M) % B + B * s = M * (x + B * v) + d := by
  have h1 := Nat.mod_add_div (d + x * M) B
  subst h
  rw [Nat.mul_add B, ← Nat.add_assoc, Nat.add_comm ((d + x * M) % B), Nat.add_assoc,
    h1, Nat.mul_add M, Nat.mul_comm x M, ← Nat.mul_assoc B M v, ← Nat.mul_assoc M B v,
    Nat.mul_comm B M]
  omega

theorem gloop_val (B M : Nat) (ds : List Nat) (d : Nat) :
    leVal B (gloop B M ds d).1 + B ^ ds.length * (gloop B M ds d).2 = M * leVal B ds + d := by
  induction ds generalizing d with
  | nil => simp
  | cons x r ih =>
    have := ih ((d + x * M) / B)
    rw [gloop_cons]
    simp only [leVal_cons, List.length_cons, Nat.pow_succ]
    rw [Nat.mul_comm (B ^ r.length) B, Nat.mul_assoc, Nat.add_assoc, ← Nat.mul_add]
    exact step_arith B M d x _ _ this

/-- the carry never exceeds the multiplier -/
theorem gloop_carry (B M : Nat) (hB : 0 < B) (ds : List Nat) (hd : ∀ x ∈ ds, x < B) (d : Nat) (h : d ≤ M) :
    (gloop B M ds d).2 ≤ M := by
  induction ds generalizing d with
  | nil => simpa
  | cons x r ih =>
    rw [gloop_cons]
    apply ih (fun y hy => hd y (List.mem_cons_of_mem _ hy))
    have hx : x < B := hd x List.mem_cons_self
    apply Nat.div_le_of_le_mul
    have : x * M ≤ (B - 1) * M := Nat.mul_le_mul_right M (by omega)
    have e : B * M = (B - 1) * M + M := by
      conv => lhs; rw [show B = (B - 1) + 1 by omega]
      rw [Nat.add_mul, Nat.one_mul]
    omega

/-- if the most significant digit is nonzero and no carry comes out, the most significant digit of the
    result is nonzero -/
theorem gloop_last (B M : Nat) (hB : 0 < B) (hM : 0 < M) (ds : List Nat) (hl : ds.getLast? ≠ some 0) (d : Nat)
    (h0 : (gloop B M ds d).2 = 0) : (gloop B M ds d).1.getLast? ≠ some 0 := by
  induction ds generalizing d with
  | nil => simp
  | cons x r ih =>
    cases r with
    | nil =>
      simp only [gloop_cons, gloop_nil] at h0 ⊢
      simp only [List.getLast?_singleton, ne_eq, Option.some.injEq] at hl ⊢
      have hlt : d + x * M < B := by
        rcases Nat.lt_or_ge (d + x * M) B with h | h
        · exact h
        · have := Nat.div_pos h hB; omega
      rw [Nat.mod_eq_of_lt hlt]
      have : 0 < x * M := Nat.mul_pos (Nat.pos_of_ne_zero hl) hM
      omega
    | cons y r' =>
      rw [gloop_cons] at h0 ⊢
      rw [List.getLast?_cons_cons] at hl
      have := ih hl _ h0
      rw [gloop_cons] at this ⊢
      simp only [List.getLast?_cons_cons] at this ⊢
      exact this

/-! ## canonical digit lists -/

/-- canonical little-endian digit list: proper digits, most significant digit nonzero -/
def Canon (B : Nat) (ds : List Nat) : Prop := (∀ x ∈ ds, x < B) ∧ ds.getLast? ≠ some 0

theorem canon_nil (B : Nat) : Canon B [] := by simp [Canon]

theorem canon_tail {B x : Nat} {r : List Nat} (h : Canon B (x :: r)) : Canon B r := by
  refine ⟨fun y hy => h.1 y (List.mem_cons_of_mem _ hy), ?_⟩
  cases r with
  | nil => simp
  | cons y r' => have := h.2; rwa [List.getLast?_cons_cons] at this

theorem digit_split (B : Nat) (x y v w : Nat) (hx : x < B) (hy : y < B) (h : x + B * v = y + B * w) :
    x = y ∧ v = w := by
  have hB : 0 < B := by omega
  have h1 : (x + B * v) % B = x := by rw [Nat.add_mul_mod_self_left, Nat.mod_eq_of_lt hx]
  have h2 : (y + B * w) % B = y := by rw [Nat.add_mul_mod_self_left, Nat.mod_eq_of_lt hy]
  have hxy : x = y := by rw [← h1, ← h2, h]
  subst hxy
  refine ⟨rfl, ?_⟩
  have : B * v = B * w := by omega
  exact Nat.eq_of_mul_eq_mul_left hB this

theorem canon_val_zero (B : Nat) (ds : List Nat) (hc : Canon B ds) (h : leVal B ds = 0) : ds = [] := by
  induction ds with
  | nil => rfl
  | cons x r ih =>
    exfalso
    simp only [leVal_cons] at h
    have hx : x = 0 := by omega
    have hB : 0 < B := by have := hc.1 x List.mem_cons_self; omega
    have hr : leVal B r = 0 := by
      have : B * leVal B r = 0 := by omega
      rcases Nat.mul_eq_zero.mp this with h | h
      · omega
      · exact h
    have := ih (canon_tail hc) hr
    subst this; subst hx
    exact hc.2 (by simp)

/-- canonical digit lists are determined by their value -/
theorem canon_unique (B : Nat) (a b : List Nat) (ha : Canon B a) (hb : Canon B b)
    (h : leVal B a = leVal B b) : a = b := by
  induction a generalizing b with
  | nil => exact (canon_val_zero B b hb (by simpa using h.symm)).symm
  | cons x r ih =>
    cases b with
    | nil => exact canon_val_zero B _ ha (by simpa using h)
    | cons y s =>
      simp only [leVal_cons] at h
      have := digit_split B x y _ _ (ha.1 x List.mem_cons_self) (hb.1 y List.mem_cons_self) h
      rw [this.1, ih s (canon_tail ha) (canon_tail hb) this.2]

/-- one multiply-and-add step on a canonical list, with the carry digit appended when nonzero -/
theorem gstep_canon (B M : Nat) (hM : 0 < M) (hMB : M < B) (ds : List Nat) (hc : Canon B ds) (d : Nat) (hd : d ≤ M) :
    let r := gloop B M ds d
    let out := if r.2 > 0 then r.1 ++ [r.2] else r.1
    r.2 ≤ M ∧ Canon B out ∧ leVal B out = M * leVal B ds + d ∧ out.length ≤ ds.length + 1 := by
  intro r out
  have hB : 0 < B := by omega
  have hcar : r.2 ≤ M := gloop_carry B M hB ds hc.1 d hd
  have hdig : ∀ x ∈ r.1, x < B := gloop_digits B M hB ds d
  have hval : leVal B r.1 + B ^ ds.length * r.2 = M * leVal B ds + d := gloop_val B M ds d
  have hlen : r.1.length = ds.length := gloop_length B M ds d
  refine ⟨hcar, ?_⟩
  by_cases h0 : r.2 > 0
  · have e : out = r.1 ++ [r.2] := if_pos h0
    rw [e]
    refine ⟨⟨?_, ?_⟩, ?_, ?_⟩
    · intro x hx
      rcases List.mem_append.mp hx with hx | hx
      · exact hdig x hx
      · simp only [List.mem_singleton] at hx; subst hx; omega
    · rw [List.getLast?_concat]; simp only [ne_eq, Option.some.injEq]; omega
    · rw [leVal_append_single, hlen]; exact hval
    · simp [hlen]
  · have e : out = r.1 := if_neg h0
    have hz : r.2 = 0 := by omega
    rw [e]
    refine ⟨⟨hdig, gloop_last B M hB hM ds hc.2 d hz⟩, ?_, ?_⟩
    · have := hval; rw [hz] at this; simpa using this
    · omega

/-! ## alphabet -/

theorem alphabet_charVal : ∀ d < 62, charVal (alphabet.getD d '?') = some d := by decide +kernel

theorem alphabet_zero : ∀ d < 62, alphabet.getD d '?' = '0' → d = 0 := by decide +kernel

/-! ## text value -/

/-- the fold step of `textVal` -/
def tstep (acc : Option Nat) (c : Char) : Option Nat :=
  match acc, charVal c with
  | some a, some v => some (a * 62 + v)
  | _, _ => none

theorem textVal_eq (cs : List Char) : textVal cs = cs.foldl tstep (some 0) := by
  cases cs with
  | nil => rfl
  | cons c r => rfl

theorem textVal_snoc (cs : List Char) (c : Char) : textVal (cs ++ [c]) = tstep (textVal cs) c := by
  rw [textVal_eq, textVal_eq, List.foldl_append]; rfl

/-- the text of a digit list denotes its value -/
theorem textVal_digits (ds : List Nat) (h : ∀ x ∈ ds, x < 62) :
    textVal (ds.reverse.map (fun d => alphabet.getD d '?')) = some (leVal 62 ds) := by
  induction ds with
  | nil => rfl
  | cons x r ih =>
    have hx := h x List.mem_cons_self
    have hr := ih (fun y hy => h y (List.mem_cons_of_mem _ hy))
    rw [List.reverse_cons, List.map_append, List.map_singleton, textVal_snoc, hr]
    simp only [tstep, alphabet_charVal x hx, leVal_cons]
    congr 1; omega

theorem digits_chars_valid (ds : List Nat) (h : ∀ x ∈ ds, x < 62) :
    ∀ c ∈ ds.reverse.map (fun d => alphabet.getD d '?'), (charVal c).isSome := by
  intro c hc
  rcases List.mem_map.mp hc with ⟨d, hd, rfl⟩
  rw [alphabet_charVal d (h d (List.mem_reverse.mp hd))]; rfl

/-! ## big-endian value -/

theorem beVal_snoc (l : Bytes) (x : Nat) : Bytes.beVal (l ++ [x]) = Bytes.beVal l * 256 + x := by
  induction l with
  | nil => simp [Bytes.beVal]
  | cons y r ih =>
    simp only [List.cons_append, Bytes.beVal, ih, List.length_append, List.length_singleton, Nat.pow_succ]
    rw [Nat.add_mul, Nat.mul_assoc, Nat.add_assoc]

theorem beVal_reverse (l : List Nat) : Bytes.beVal l.reverse = leVal 256 l := by
  induction l with
  | nil => rfl
  | cons x r ih => rw [List.reverse_cons, beVal_snoc, ih, leVal_cons]; omega

theorem beVal_eq_leVal (l : Bytes) : Bytes.beVal l = leVal 256 l.reverse := by
  rw [← beVal_reverse, List.reverse_reverse]

/-- proper byte strings without leading zero byte are determined by their value -/
theorem be_unique (a b : Bytes) (ha : Bytes.WF a) (hb : Bytes.WF b) (ha0 : a.head? ≠ some 0) (hb0 : b.head? ≠ some 0)
    (h : Bytes.beVal a = Bytes.beVal b) : a = b := by
  have : a.reverse = b.reverse := by
    apply canon_unique 256
    · exact ⟨fun x hx => ha x (List.mem_reverse.mp hx), by rwa [List.getLast?_reverse]⟩
    · exact ⟨fun x hx => hb x (List.mem_reverse.mp hx), by rwa [List.getLast?_reverse]⟩
    · rw [← beVal_eq_leVal, ← beVal_eq_leVal, h]
  simpa using congrArg List.reverse this

/-! ## dropLeadingZeros -/

theorem dlz_spec (b : Bytes) :
    ∃ z, b = List.replicate z 0 ++ dropLeadingZeros b ∧ (dropLeadingZeros b).head? ≠ some 0 := by
  induction b with
  | nil => exact ⟨0, by simp [dropLeadingZeros]⟩
  | cons x r ih =>
    by_cases hx : x = 0
    · subst hx
      obtain ⟨z, h1, h2⟩ := ih
      refine ⟨z + 1, ?_, ?_⟩
      · simp only [dropLeadingZeros, List.replicate_succ, List.cons_append]; rw [← h1]
      · simpa only [dropLeadingZeros] using h2
    · have e : dropLeadingZeros (x :: r) = x :: r := by
        unfold dropLeadingZeros
        split
        · rename_i heq; simp only [List.cons.injEq] at heq; exact absurd heq.1 hx
        · rfl
      exact ⟨0, by simp [e], by simp [e, hx]⟩

theorem beVal_zeros (z : Nat) (l : Bytes) : Bytes.beVal (List.replicate z 0 ++ l) = Bytes.beVal l := by
  induction z with
  | zero => simp
  | succ n ih => simp [List.replicate_succ, Bytes.beVal, ih]

theorem dlz_val (b : Bytes) : Bytes.beVal (dropLeadingZeros b) = Bytes.beVal b := by
  obtain ⟨z, h1, _⟩ := dlz_spec b
  conv => rhs; rw [h1]
  rw [beVal_zeros]

theorem dlz_wf (b : Bytes) (hb : Bytes.WF b) : Bytes.WF (dropLeadingZeros b) := by
  obtain ⟨z, h1, _⟩ := dlz_spec b
  rw [h1] at hb
  exact (Bytes.wf_append.mp hb).2

/-! ## encoder -/

theorem addMult16_step (cap : Nat) (ds : List Nat) (hc : Canon 62 ds) (m : Nat) (hm : m < 16) (hl : ds.length < cap) :
    ∃ ds', addMult16 cap ds m = some ds' ∧ Canon 62 ds' ∧ leVal 62 ds' = 16 * leVal 62 ds + m ∧
      ds'.length ≤ ds.length + 1 := by
  have h := gstep_canon 62 16 (by omega) (by omega) ds hc m (by omega)
  simp only at h
  obtain ⟨hcar, hcan, hval, hlen⟩ := h
  unfold addMult16
  simp only [addMult16Loop_eq]
  have h1 : ¬ (gloop 62 16 ds m).2 ≥ 62 := by omega
  rw [if_neg h1]
  by_cases h0 : (gloop 62 16 ds m).2 > 0
  · rw [if_pos h0, if_pos hl]
    rw [if_pos h0] at hcan hval hlen
    exact ⟨_, rfl, hcan, hval, hlen⟩
  · rw [if_neg h0]
    rw [if_neg h0] at hcan hval hlen
    exact ⟨_, rfl, hcan, hval, hlen⟩

theorem byte_arith (v b p t : Nat) : (16 * (16 * v + b / 16) + b % 16) * p + t = v * (p * 256) + (b * p + t) := by
  have : 16 * (16 * v + b / 16) + b % 16 = v * 256 + b := by omega
  rw [this, Nat.add_mul, Nat.mul_assoc, Nat.mul_comm 256 p, Nat.add_assoc]

theorem toDigits_spec (cap : Nat) (bs : Bytes) (hb : Bytes.WF bs) (ds : List Nat) (hc : Canon 62 ds)
    (hl : ds.length + 2 * bs.length ≤ cap) :
    ∃ ds', toDigits cap bs ds = some ds' ∧ Canon 62 ds' ∧
      leVal 62 ds' = leVal 62 ds * 256 ^ bs.length + Bytes.beVal bs := by
  induction bs generalizing ds with
  | nil => exact ⟨ds, rfl, hc, by simp [Bytes.beVal]⟩
  | cons b rest ih =>
    rw [Bytes.wf_cons] at hb
    simp only [List.length_cons] at hl
    obtain ⟨ds1, e1, c1, v1, l1⟩ := addMult16_step cap ds hc (b / 16) (by omega) (by omega)
    obtain ⟨ds2, e2, c2, v2, l2⟩ := addMult16_step cap ds1 c1 (b % 16) (by omega) (by omega)
    obtain ⟨ds', e3, c3, v3⟩ := ih hb.2 ds2 c2 (by omega)
    refine ⟨ds', ?_, c3, ?_⟩
    · simp only [toDigits, e1, e2, e3]
    · rw [v3, v2, v1]
      simp only [List.length_cons, Nat.pow_succ, Bytes.beVal]
      exact byte_arith _ _ _ _

/-! ## decoder -/

theorem mulAdd_step (buf : List Nat) (hc : Canon 256 buf) (v : Nat) (hv : v < 62) :
    let r := mulAddLoop buf v
    let out := if r.2 > 0 then r.1 ++ [r.2 % 256] else r.1
    Canon 256 out ∧ leVal 256 out = leVal 256 buf * 62 + v := by
  intro r out
  have h := gstep_canon 256 62 (by omega) (by omega) buf hc v (by omega)
  simp only at h
  obtain ⟨hcar, hcan, hval, _⟩ := h
  have e : out = if (gloop 256 62 buf v).2 > 0 then (gloop 256 62 buf v).1 ++ [(gloop 256 62 buf v).2]
      else (gloop 256 62 buf v).1 := by
    show (if (mulAddLoop buf v).2 > 0 then (mulAddLoop buf v).1 ++ [(mulAddLoop buf v).2 % 256]
      else (mulAddLoop buf v).1) = _
    rw [mulAddLoop_eq, Nat.mod_eq_of_lt (by omega)]
  rw [e]
  exact ⟨hcan, by rw [hval, Nat.mul_comm]⟩

theorem fromChars_spec (cs : List Char) (h : ∀ c ∈ cs, (charVal c).isSome) (buf : List Nat) (hc : Canon 256 buf) :
    ∃ out, fromChars cs buf = .ok out ∧ Canon 256 out ∧
      cs.foldl tstep (some (leVal 256 buf)) = some (leVal 256 out) := by
  induction cs generalizing buf with
  | nil => exact ⟨buf, rfl, hc, rfl⟩
  | cons c rest ih =>
    have hcv := h c List.mem_cons_self
    obtain ⟨v, hv⟩ := Option.isSome_iff_exists.mp hcv
    have hv62 : v < 62 := by
      unfold charVal at hv
      split at hv
      · simp only [Option.some.injEq] at hv; omega
      · split at hv
        · simp only [Option.some.injEq] at hv
          rename_i h1 h2
          have : c.toNat ≤ 90 := h2.2
          have : 65 ≤ c.toNat := h2.1
          omega
        · split at hv
          · simp only [Option.some.injEq] at hv
            rename_i h1 h2 h3
            have : c.toNat ≤ 122 := h3.2
            have : 97 ≤ c.toNat := h3.1
            omega
          · cases hv
    have hs := mulAdd_step buf hc v hv62
    simp only at hs
    obtain ⟨out, e, c2, v2⟩ := ih (fun c hc => h c (List.mem_cons_of_mem _ hc)) _ hs.1
    refine ⟨out, ?_, c2, ?_⟩
    · simp only [fromChars, hv]; exact e
    · rw [List.foldl_cons]
      have : tstep (some (leVal 256 buf)) c = some (leVal 256 buf * 62 + v) := by simp only [tstep, hv]
      rw [this, ← hs.2]; exact v2

theorem fromChars_error (cs : List Char) (h : ¬ ∀ c ∈ cs, (charVal c).isSome) (buf : List Nat) :
    ∃ c, fromChars cs buf = .error c ∧ (charVal c).isNone := by
  induction cs generalizing buf with
  | nil => exact absurd (by simp) h
  | cons c rest ih =>
    cases hv : charVal c with
    | none => exact ⟨c, by simp only [fromChars, hv], by simp [hv]⟩
    | some v =>
      have : ¬ ∀ c ∈ rest, (charVal c).isSome := by
        intro h'
        apply h
        intro x hx
        rcases List.mem_cons.mp hx with rfl | hx
        · simp [hv]
        · exact h' x hx
      obtain ⟨c', e, hn⟩ := ih this (if (mulAddLoop buf v).2 > 0 then (mulAddLoop buf v).1 ++ [(mulAddLoop buf v).2 % 256]
        else (mulAddLoop buf v).1)
      exact ⟨c', by simp only [fromChars, hv]; exact e, hn⟩

end VpnCloud.Proofs.Base62Lemmas
