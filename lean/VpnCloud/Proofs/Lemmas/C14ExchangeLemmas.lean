import VpnCloud.Model.Node
import VpnCloud.Proofs.Lemmas.C01MoreLemmas
import VpnCloud.Proofs.Lemmas.C15MoreLemmas
import VpnCloud.Proofs.C16
import VpnCloud.Proofs.C15More
import VpnCloud.Proofs.Lemmas.C10NetLemmas
/-
  Helper lemmas for `Proofs/C14Exchange.lean` (property C14, first half: one peer-exchange round realises `Graph.step`).

  * `attemptSt` / `Dialled`: the handshake object `connect_sock` stores and the ping it emits, in closed form;
  * `Keeps`: what `connect_sock` / `connect` / `connect_to_peers` never undo (identity, peer list, own addresses, outputs, pending attempts);
  * `connect_dials_all`: `connect` to addresses none of which is known dials every one of them;
  * `connectToPeers_*`: one entry of `connect_to_peers` by cases, bounds for `own` and `pending` after a prefix of the list,
    and the classification of everything `connect_to_peers` dials (`Unknown` entries only);
  * `normAddrs` facts and the size bound that makes `Spec.C16.WF (createNodeInfo n)` a statement about the node.
-/
namespace VpnCloud.Proofs.C14ExchangeLemmas

open VpnCloud VpnCloud.Node
open VpnCloud.Proofs.NodeLemmas VpnCloud.Proofs.NodeLemmas2 VpnCloud.Proofs.NodeLemmasAB
open VpnCloud.Proofs.C01MoreLemmas (Dials IsDialTo connectSock_dials connect_dials connectToPeers_cons mem_foldl_adopt not_mem_of_contains_false)

/-! ## the handshake object of a dial -/

/-- the handshake state `Crypto::peer_instance(create_node_info())` starts from (the `init` field of `newAttempt`) -/
def attemptSt (n : Node) (hash : Bytes) : InitSt :=
  { nodeId := n.nodeId, hash, payload := Codec.encodeNodeInfo (createNodeInfo n), ownKey := n.cfg.key,
    trusted := n.cfg.trusted, algos := n.cfg.algos }

theorem newAttempt_eq (n : Node) (hash : Bytes) : newAttempt n hash = { init := some (attemptSt n hash) } := rfl

/-- **`a` has been dialled in the step that led to `c`**: among the outputs is the datagram `0xff :: ping` and the pending attempt
    stored for `a` is the handshake object that has sent exactly this ping (`Init.sendPing`), where the handshake object was created
    by this node (its id, its configuration, its peer list; own addresses a subset of the current ones) with some salted node-id hash
    and random parts (the oracle's) -/
def Dialled (env : CryptoEnv) (a : NAddr) (c : Ctx) : Prop :=
  ∃ (m : Node) (hash : Bytes) (rnd : Rand),
    m.nodeId = c.node.nodeId ∧ m.cfg = c.node.cfg ∧ m.peers = c.node.peers ∧ (∀ x ∈ m.own, x ∈ c.node.own) ∧
    Out.dgram a (Generated.INIT_MESSAGE_FIRST_BYTE :: (Init.sendPing env (attemptSt m hash) rnd).2) ∈ c.outs ∧
    lookupA c.node.pending a = some { init := some (Init.sendPing env (attemptSt m hash) rnd).1 }

/-- what dialling never undoes -/
structure Keeps (c c' : Ctx) : Prop where
  nodeId : c'.node.nodeId = c.node.nodeId
  cfg : c'.node.cfg = c.node.cfg
  peers : c'.node.peers = c.node.peers
  own : ∀ x ∈ c.node.own, x ∈ c'.node.own
  outs : ∀ x ∈ c.outs, x ∈ c'.outs
  pending : ∀ a pc, lookupA c.node.pending a = some pc → lookupA c'.node.pending a = some pc

theorem Keeps.refl (c : Ctx) : Keeps c c := ⟨rfl, rfl, rfl, fun _ h => h, fun _ h => h, fun _ _ h => h⟩

theorem Keeps.trans {c1 c2 c3 : Ctx} (h1 : Keeps c1 c2) (h2 : Keeps c2 c3) : Keeps c1 c3 :=
  ⟨h2.nodeId.trans h1.nodeId, h2.cfg.trans h1.cfg, h2.peers.trans h1.peers, fun x hx => h2.own x (h1.own x hx),
   fun x hx => h2.outs x (h1.outs x hx), fun a pc h => h2.pending a pc (h1.pending a pc h)⟩

theorem Dialled.keeps {env : CryptoEnv} {a : NAddr} {c c' : Ctx} (h : Dialled env a c) (k : Keeps c c') : Dialled env a c' := by
  obtain ⟨m, hash, rnd, h1, h2, h3, h4, h5, h6⟩ := h
  exact ⟨m, hash, rnd, h1.trans k.nodeId.symm, h2.trans k.cfg.symm, h3.trans k.peers.symm, fun x hx => k.own x (h4 x hx),
    k.outs _ h5, k.pending _ _ h6⟩

theorem lookupA_insertA_self' {α} (l : List (NAddr × α)) (a : NAddr) (v : α) : lookupA (insertA l a v) a = some v :=
  VpnCloud.Proofs.NodeInvLemmas.lookupA_insertA_self l a v

/-- `connect_sock` to a fresh address in closed form -/
theorem connectSock_fresh_eq (env : CryptoEnv) (o : Oracle) (c : Ctx) (a : NAddr) (hm : mappedAddr a = a)
    (hown : c.node.own.contains a = false) (hpeer : lookupA c.node.peers a = none) (hpend : lookupA c.node.pending a = none) :
    connectSock env o c a =
      ({ c with node := { c.node with pending := (insertA c.node.pending a
          { init := some (Init.sendPing env (attemptSt c.node ((rndFor o c a).2.2.getD [])) (rndFor o c a).1).1 }) } }).send a
        (Generated.INIT_MESSAGE_FIRST_BYTE :: (Init.sendPing env (attemptSt c.node ((rndFor o c a).2.2.getD [])) (rndFor o c a).1).2) := by
  unfold connectSock
  simp only [hm, hown, hpeer, hpend, Option.isSome_none, Bool.or_self, Bool.false_eq_true, if_false, newAttempt]
  rfl

theorem connectSock_keeps (env : CryptoEnv) (o : Oracle) (c : Ctx) (a0 : NAddr) : Keeps c (connectSock env o c a0) := by
  unfold connectSock
  simp only []
  split
  · exact Keeps.refl c
  · rename_i hc
    simp only [Bool.or_eq_true, not_or, Bool.not_eq_true] at hc
    have h3 : lookupA c.node.pending (mappedAddr a0) = none := by
      cases hl : lookupA c.node.pending (mappedAddr a0) with
      | none => rfl
      | some p => rw [hl] at hc; cases hc.2
    simp only [newAttempt]
    refine ⟨rfl, rfl, rfl, fun _ h => h, fun x hx => List.mem_append_left _ hx, ?_⟩
    intro a pc ha
    have hne : a ≠ mappedAddr a0 := by
      intro e; rw [e, h3] at ha; cases ha
    show lookupA (insertA c.node.pending (mappedAddr a0) _) a = some pc
    rw [VpnCloud.Proofs.C15MoreLemmas.lookupA_insertA_ne _ _ hne]
    exact ha

theorem foldl_keeps {β} (f : Ctx → β → Ctx) (hf : ∀ c x, Keeps c (f c x)) : ∀ (l : List β) (c : Ctx), Keeps c (l.foldl f c)
  | [], c => Keeps.refl c
  | x :: l, c => (hf c x).trans (foldl_keeps f hf l (f c x))

theorem connect_keeps (env : CryptoEnv) (o : Oracle) (c : Ctx) (l : List NAddr) : Keeps c (connect env o c l) := by
  unfold connect
  simp only []
  split
  · exact Keeps.refl c
  · exact foldl_keeps _ (connectSock_keeps env o) _ c

/-- one entry of `connect_to_peers` -/
theorem connectToPeers_one_keeps (env : CryptoEnv) (o : Oracle) (c : Ctx) (p : PeerInfo) : Keeps c (connectToPeers env o c [p]) := by
  unfold connectToPeers
  simp only [List.foldl_cons, List.foldl_nil]
  split
  · exact Keeps.refl c
  · split
    · split
      · refine ⟨rfl, rfl, rfl, fun x hx => ?_, fun _ h => h, fun _ _ h => h⟩
        show x ∈ p.addrs.foldl (fun own a => if own.contains a then own else own ++ [a]) c.node.own
        rw [mem_foldl_adopt]; exact Or.inl hx
      · split
        · exact Keeps.refl c
        · exact connect_keeps env o c _
    · exact connect_keeps env o c _

theorem connectToPeers_keeps (env : CryptoEnv) (o : Oracle) (l : List PeerInfo) : ∀ (c : Ctx), Keeps c (connectToPeers env o c l) := by
  induction l with
  | nil => intro c; exact Keeps.refl c
  | cons p ps ih =>
    intro c
    rw [connectToPeers_cons]
    exact (connectToPeers_one_keeps env o c p).trans (ih _)

theorem connectToPeers_append (env : CryptoEnv) (o : Oracle) (c : Ctx) (l1 l2 : List PeerInfo) :
    connectToPeers env o c (l1 ++ l2) = connectToPeers env o (connectToPeers env o c l1) l2 := by
  unfold connectToPeers
  rw [List.foldl_append]

/-! ## `connect` to unknown addresses dials them all -/

/-- dialling a list of (mapped) addresses none of which is own or a peer: afterwards each of them was pending before or has been dialled -/
theorem dialAll' (env : CryptoEnv) (o : Oracle) :
    ∀ (l : List NAddr) (c : Ctx), (∀ a ∈ l, mappedAddr a = a) →
      (∀ a ∈ l, c.node.own.contains a = false ∧ lookupA c.node.peers a = none) →
      ∀ a ∈ l, (lookupA c.node.pending a).isSome = true ∨ Dialled env a (l.foldl (connectSock env o) c)
  | [], _, _, _ => fun a ha => by cases ha
  | x :: l, c, hm, hk => by
    have hmx := hm x (List.mem_cons_self ..)
    have hkx := hk x (List.mem_cons_self ..)
    have hk1 : ∀ a ∈ l, (connectSock env o c x).node.own.contains a = false ∧ lookupA (connectSock env o c x).node.peers a = none := by
      intro a ha
      rw [VpnCloud.Proofs.C15MoreLemmas.connectSock_own, connectSock_peers]
      exact hk a (List.mem_cons_of_mem _ ha)
    have ih := dialAll' env o l (connectSock env o c x) (fun a ha => hm a (List.mem_cons_of_mem _ ha)) hk1
    simp only [List.foldl_cons]
    cases hp : lookupA c.node.pending x with
    | some pc0 =>
      have hc : connectSock env o c x = c := VpnCloud.Proofs.C15MoreLemmas.connectSock_known env o c x hmx (by rw [hp]; rfl)
      rw [hc] at ih ⊢
      intro a ha
      rcases List.mem_cons.1 ha with rfl | ha
      · exact Or.inl (by rw [hp]; rfl)
      · exact ih a ha
    | none =>
      have hc := connectSock_fresh_eq env o c x hmx hkx.1 hkx.2 hp
      have hdx : Dialled env x (connectSock env o c x) := by
        rw [hc]
        refine ⟨c.node, (rndFor o c x).2.2.getD [], (rndFor o c x).1, rfl, rfl, rfl, fun _ h => h, ?_, ?_⟩
        · exact List.mem_append_right _ (List.mem_singleton.2 rfl)
        · exact lookupA_insertA_self' _ _ _
      have hkp := foldl_keeps _ (connectSock_keeps env o) l (connectSock env o c x)
      intro a ha
      by_cases hax : a = x
      · subst hax; exact Or.inr (hdx.keeps hkp)
      · rcases List.mem_cons.1 ha with h | ha
        · exact absurd h hax
        · rcases ih a ha with h | h
          · left
            rw [hc] at h
            simpa only [NodeLemmasAB.send_node, VpnCloud.Proofs.C15MoreLemmas.lookupA_insertA_ne _ _ hax] using h
          · exact Or.inr h

/-- **`connect` to a list of addresses none of which is own, a peer or pending: every one of them is dialled** -/
theorem connect_dials_all (env : CryptoEnv) (o : Oracle) (c : Ctx) (addrs : List NAddr)
    (hf : ∀ a ∈ addrs, c.node.own.contains (mappedAddr a) = false ∧ lookupA c.node.peers (mappedAddr a) = none ∧
      lookupA c.node.pending (mappedAddr a) = none) :
    ∀ a ∈ addrs, Dialled env (mappedAddr a) (connect env o c addrs) := by
  have hany : (addrs.map mappedAddr).any (fun a => c.node.own.contains a || (lookupA c.node.peers a).isSome || (lookupA c.node.pending a).isSome) = false := by
    rw [List.any_eq_false]
    intro a ha
    obtain ⟨a0, ha0, rfl⟩ := List.mem_map.1 ha
    obtain ⟨h1, h2, h3⟩ := hf a0 ha0
    simp only [h1, h2, h3, Option.isSome_none, Bool.or_self]
    exact Bool.false_ne_true
  unfold connect
  simp only [hany, Bool.false_eq_true, if_false]
  have h := dialAll' env o (addrs.map mappedAddr) c
    (by intro a ha; obtain ⟨a0, _, rfl⟩ := List.mem_map.1 ha; exact VpnCloud.Proofs.C15MoreLemmas.mappedAddr_idem a0)
    (by intro a ha; obtain ⟨a0, ha0, rfl⟩ := List.mem_map.1 ha; exact ⟨(hf a0 ha0).1, (hf a0 ha0).2.1⟩)
  intro a ha
  rcases h (mappedAddr a) (List.mem_map.2 ⟨a, ha, rfl⟩) with h' | h'
  · rw [(hf a ha).2.2] at h'; cases h'
  · exact h'

/-! ## one entry of `connect_to_peers`, by cases -/

/-- the entry is about a node this node knows nothing of: it does not carry the node's own id, no peer record carries its id (if it has
    one), and none of its addresses — as listed — is the address of a peer -/
def Unknown (n : Node) (pi : PeerInfo) : Prop :=
  pi.nodeId ≠ some n.nodeId ∧ (∀ id, pi.nodeId = some id → ∀ x ∈ n.peers, x.2.nodeId ≠ id) ∧
  (∀ a ∈ pi.addrs, a ∉ n.peers.map (·.1))

theorem Unknown.congr {n n' : Node} {pi : PeerInfo} (h : Unknown n pi) (h1 : n'.nodeId = n.nodeId) (h2 : n'.peers = n.peers) :
    Unknown n' pi := by
  unfold Unknown
  rw [h1, h2]
  exact h

theorem any_peer_false {n : Node} {l : List NAddr} (h : ∀ a ∈ l, a ∉ n.peers.map (·.1)) :
    l.any (fun a => (lookupA n.peers a).isSome) = false := by
  rw [List.any_eq_false]
  intro a ha
  rw [lookupA_isSome_iff]
  exact h a ha

/-- an entry one of whose addresses (as listed) is a peer address is skipped -/
theorem connectToPeers_known_addr (env : CryptoEnv) (o : Oracle) (c : Ctx) (p : PeerInfo)
    (h : ∃ a ∈ p.addrs, a ∈ c.node.peers.map (·.1)) : connectToPeers env o c [p] = c := by
  obtain ⟨a, ha, hk⟩ := h
  have hg : p.addrs.any (fun a => (lookupA c.node.peers a).isSome) = true :=
    List.any_eq_true.2 ⟨a, ha, (lookupA_isSome_iff _ _).2 hk⟩
  unfold connectToPeers
  simp only [List.foldl_cons, List.foldl_nil, hg, if_true]

/-- an entry with the node id of a peer (other than the node's own id) is skipped -/
theorem connectToPeers_known_id (env : CryptoEnv) (o : Oracle) (c : Ctx) (p : PeerInfo) (id : Bytes)
    (hid : p.nodeId = some id) (hne : id ≠ c.node.nodeId) (h : ∃ x ∈ c.node.peers, x.2.nodeId = id) :
    connectToPeers env o c [p] = c := by
  obtain ⟨x, hx, hxi⟩ := h
  have hany : c.node.peers.any (fun (x : NAddr × Peer) => match x with | (_, q) => decide (q.nodeId = id)) = true :=
    List.any_eq_true.2 ⟨x, hx, by obtain ⟨x1, x2⟩ := x; simpa using hxi⟩
  unfold connectToPeers
  simp only [List.foldl_cons, List.foldl_nil, hid, if_neg hne]
  split
  · rfl
  · first | rfl | rw [if_pos hany]

/-- an unknown entry is handed to `connect` -/
theorem connectToPeers_unknown (env : CryptoEnv) (o : Oracle) (c : Ctx) (p : PeerInfo) (h : Unknown c.node p) :
    connectToPeers env o c [p] = connect env o c p.addrs := by
  obtain ⟨h1, h2, h3⟩ := h
  have hg := any_peer_false h3
  unfold connectToPeers
  simp only [List.foldl_cons, List.foldl_nil, hg, Bool.false_eq_true, if_false]
  cases hid : p.nodeId with
  | none => rfl
  | some id =>
    have hne : id ≠ c.node.nodeId := by
      intro e; rw [hid, e] at h1; exact h1 rfl
    have hany : c.node.peers.any (fun (x : NAddr × Peer) => match x with | (_, q) => decide (q.nodeId = id)) = false := by
      rw [List.any_eq_false]
      intro x hx
      obtain ⟨x1, x2⟩ := x
      simpa using h2 id hid (x1, x2) hx
    simp only [if_neg hne, hany, Bool.false_eq_true, if_false]

/-- the three things `connect_to_peers` does with one entry -/
theorem connectToPeers_one_cases (env : CryptoEnv) (o : Oracle) (c : Ctx) (p : PeerInfo) :
    connectToPeers env o c [p] = c ∨
    (p.nodeId = some c.node.nodeId ∧ connectToPeers env o c [p] =
      { c with node := { c.node with own := p.addrs.foldl (fun own a => if own.contains a then own else own ++ [a]) c.node.own } }) ∨
    (Unknown c.node p ∧ connectToPeers env o c [p] = connect env o c p.addrs) := by
  by_cases hk : ∃ a ∈ p.addrs, a ∈ c.node.peers.map (·.1)
  · exact Or.inl (connectToPeers_known_addr env o c p hk)
  · have hk' : ∀ a ∈ p.addrs, a ∉ c.node.peers.map (·.1) := fun a ha hm => hk ⟨a, ha, hm⟩
    by_cases hown : p.nodeId = some c.node.nodeId
    · exact Or.inr (Or.inl ⟨hown, VpnCloud.Proofs.C01MoreLemmas.connectToPeers_own_entry env o c p hown hk'⟩)
    · by_cases hid : ∃ id, p.nodeId = some id ∧ ∃ x ∈ c.node.peers, x.2.nodeId = id
      · obtain ⟨id, h1, h2⟩ := hid
        exact Or.inl (connectToPeers_known_id env o c p id h1 (by intro e; rw [h1, e] at hown; exact hown rfl) h2)
      · have hu : Unknown c.node p := ⟨hown, fun id h1 x hx hxi => hid ⟨id, h1, x, hx, hxi⟩, hk'⟩
        exact Or.inr (Or.inr ⟨hu, connectToPeers_unknown env o c p hu⟩)

/-! ## what a prefix of the list can have done to `own` and `pending` -/

/-- own addresses after `connect_to_peers`: the old ones and addresses (as listed) of entries that carry the node's own id -/
theorem connectToPeers_own_bound (env : CryptoEnv) (o : Oracle) (infos : List PeerInfo) : ∀ (c : Ctx) (x : NAddr),
    x ∈ (connectToPeers env o c infos).node.own → x ∈ c.node.own ∨ ∃ pi ∈ infos, pi.nodeId = some c.node.nodeId ∧ x ∈ pi.addrs := by
  induction infos with
  | nil => intro c x hx; exact Or.inl hx
  | cons p ps ih =>
    intro c x hx
    rw [connectToPeers_cons] at hx
    have hk := connectToPeers_one_keeps env o c p
    rcases ih _ x hx with h | ⟨pi, hpi, hid, hm⟩
    · rcases connectToPeers_one_cases env o c p with e | ⟨hid, e⟩ | ⟨_, e⟩
      · rw [e] at h; exact Or.inl h
      · rw [e] at h
        have h' : x ∈ p.addrs.foldl (fun own a => if own.contains a then own else own ++ [a]) c.node.own := h
        rw [mem_foldl_adopt] at h'
        rcases h' with h' | h'
        · exact Or.inl h'
        · exact Or.inr ⟨p, List.mem_cons_self, hid, h'⟩
      · rw [e, (connect_dials env o c p.addrs).2] at h; exact Or.inl h
    · exact Or.inr ⟨pi, List.mem_cons_of_mem _ hpi, by rw [← hk.nodeId]; exact hid, hm⟩

/-- pending attempts after `connect_to_peers`: the old ones and (mapped) addresses of entries that do not carry the node's own id -/
theorem connectToPeers_pending_bound (env : CryptoEnv) (o : Oracle) (infos : List PeerInfo) (c : Ctx) (a : NAddr)
    (h : a ∈ (connectToPeers env o c infos).node.pending.map (·.1)) :
    a ∈ c.node.pending.map (·.1) ∨ ∃ pi ∈ infos, pi.nodeId ≠ some c.node.nodeId ∧ a ∈ pi.addrs.map mappedAddr := by
  rcases (VpnCloud.Proofs.C01MoreLemmas.connectToPeers_dials env o infos c).1.pending a h with h | ⟨_, h⟩
  · exact Or.inl h
  · exact Or.inr h

/-! ## everything `connect_to_peers` dials comes from an unknown entry -/

theorem connect_dials' (env : CryptoEnv) (o : Oracle) (c : Ctx) (l : List NAddr) :
    Dials (fun d => d ∈ l.map mappedAddr ∧ d ∉ c.node.own ∧ d ∉ c.node.peers.map (·.1) ∧ d ∉ c.node.pending.map (·.1)) c
      (connect env o c l) := by
  by_cases hany : (l.map mappedAddr).any (fun a => c.node.own.contains a || (lookupA c.node.peers a).isSome || (lookupA c.node.pending a).isSome) = true
  · have e : connect env o c l = c := by
      unfold connect
      simp only [hany, if_true]
    rw [e]; exact Dials.refl _ _
  · refine (connect_dials env o c l).1.mono ?_
    rintro d ⟨hd, hown⟩
    have hf := List.any_eq_false.1 (Bool.eq_false_iff.2 hany) d hd
    simp only [Bool.or_eq_true, not_or, Bool.not_eq_true] at hf
    refine ⟨hd, hown, ?_, ?_⟩
    · rw [← lookupA_none_iff]
      cases hl : lookupA c.node.peers d with
      | none => rfl
      | some q => rw [hl] at hf; cases hf.1.2
    · rw [← lookupA_none_iff]
      cases hl : lookupA c.node.pending d with
      | none => rfl
      | some q => rw [hl] at hf; cases hf.2

/-- **everything `connect_to_peers` dials** is the (mapped) address of an `Unknown` entry, and is neither an own address (at the
    start), nor the address of a peer -/
theorem connectToPeers_dials_unknown (env : CryptoEnv) (o : Oracle) (infos : List PeerInfo) : ∀ (c : Ctx),
    Dials (fun d => d ∉ c.node.own ∧ d ∉ c.node.peers.map (·.1) ∧ ∃ pi ∈ infos, Unknown c.node pi ∧ d ∈ pi.addrs.map mappedAddr) c
      (connectToPeers env o c infos) := by
  induction infos with
  | nil => intro c; exact Dials.refl _ _
  | cons p ps ih =>
    intro c
    rw [connectToPeers_cons]
    have hk := connectToPeers_one_keeps env o c p
    have h1 : Dials (fun d => d ∉ c.node.own ∧ d ∉ c.node.peers.map (·.1) ∧ ∃ pi ∈ p :: ps, Unknown c.node pi ∧ d ∈ pi.addrs.map mappedAddr) c
        (connectToPeers env o c [p]) := by
      rcases connectToPeers_one_cases env o c p with e | ⟨_, e⟩ | ⟨hu, e⟩
      · rw [e]; exact Dials.refl _ _
      · rw [e]; exact ⟨Ext.refl _ _, fun a ha => Or.inl ha⟩
      · rw [e]
        exact (connect_dials' env o c p.addrs).mono (fun d ⟨hd, h1, h2, _⟩ => ⟨h1, h2, p, List.mem_cons_self, hu, hd⟩)
    refine h1.trans ((ih _).mono ?_)
    rintro d ⟨hd1, hd2, pi, hpi, hu, hm⟩
    exact ⟨fun hc => hd1 (hk.own d hc), by rw [← hk.peers]; exact hd2, pi, List.mem_cons_of_mem _ hpi,
      hu.congr hk.nodeId.symm hk.peers.symm, hm⟩

/-! ## an unknown entry of the list is dialled -/

/-- **exact (stateful) version**: the entry `e` of the list `pre ++ e :: post` is unknown, and when its turn comes — after `pre` has been
    processed — none of its (mapped) addresses is an own address, a peer address or pending: then every one of them is dialled, and
    stays so while the rest of the list is processed -/
theorem connectToPeers_entry_dialled (env : CryptoEnv) (o : Oracle) (c : Ctx) (pre post : List PeerInfo) (e : PeerInfo)
    (hu : Unknown c.node e)
    (hf : ∀ a ∈ e.addrs, (connectToPeers env o c pre).node.own.contains (mappedAddr a) = false ∧
      lookupA c.node.peers (mappedAddr a) = none ∧ lookupA (connectToPeers env o c pre).node.pending (mappedAddr a) = none) :
    ∀ a ∈ e.addrs, Dialled env (mappedAddr a) (connectToPeers env o c (pre ++ e :: post)) := by
  intro a ha
  rw [connectToPeers_append, connectToPeers_cons]
  have hk := connectToPeers_keeps env o pre c
  have hu1 : Unknown (connectToPeers env o c pre).node e := hu.congr hk.nodeId hk.peers
  rw [connectToPeers_unknown env o _ e hu1]
  refine (connect_dials_all env o _ e.addrs ?_ a ha).keeps (connectToPeers_keeps env o post _)
  intro b hb
  obtain ⟨h1, h2, h3⟩ := hf b hb
  exact ⟨h1, by rw [hk.peers]; exact h2, h3⟩

/-- the earlier entries of the list do not interfere with the entry `e`: none of the (mapped) addresses of `e` is listed (as it is) in
    an earlier entry that carries the node's own id — it would be adopted as own address — or (in mapped form) in an earlier entry
    that does not — it might be dialled for that entry, and `connect` does nothing if ANY address is already pending -/
def NoInterference (ownId : Bytes) (pre : List PeerInfo) (e : PeerInfo) : Prop :=
  ∀ e' ∈ pre, ∀ a ∈ e.addrs, (e'.nodeId = some ownId → mappedAddr a ∉ e'.addrs) ∧
    (e'.nodeId ≠ some ownId → mappedAddr a ∉ e'.addrs.map mappedAddr)

/-- **static version**: hypotheses about the state before `connect_to_peers` and about the list only -/
theorem connectToPeers_entry_dialled_static (env : CryptoEnv) (o : Oracle) (c : Ctx) (pre post : List PeerInfo) (e : PeerInfo)
    (hu : Unknown c.node e)
    (haddr : ∀ a ∈ e.addrs, mappedAddr a ∉ c.node.peers.map (·.1) ∧ mappedAddr a ∉ c.node.own ∧ mappedAddr a ∉ c.node.pending.map (·.1))
    (hpre : NoInterference c.node.nodeId pre e) :
    ∀ a ∈ e.addrs, Dialled env (mappedAddr a) (connectToPeers env o c (pre ++ e :: post)) := by
  apply connectToPeers_entry_dialled env o c pre post e hu
  intro a ha
  obtain ⟨h1, h2, h3⟩ := haddr a ha
  refine ⟨?_, (lookupA_none_iff _ _).2 h1, (lookupA_none_iff _ _).2 ?_⟩
  · cases hc : (connectToPeers env o c pre).node.own.contains (mappedAddr a) with
    | false => rfl
    | true =>
      exfalso
      rcases connectToPeers_own_bound env o pre c _ (List.contains_iff_mem.1 hc) with h | ⟨pi, hpi, hid, hm⟩
      · exact h2 h
      · exact (hpre pi hpi a ha).1 hid hm
  · intro hm
    rcases connectToPeers_pending_bound env o pre c _ hm with h | ⟨pi, hpi, hid, hm'⟩
    · exact h3 h
    · exact (hpre pi hpi a ha).2 hid hm'

/-! ## a node information message from an established peer, at node level -/

open VpnCloud.Proofs.C15More (FromPeer) in
open VpnCloud.Proofs.C15MoreLemmas (refreshed) in
/-- the state in which `connect_to_peers` starts when the node information `info` of the established peer `s` has been accepted:
    the record of `s` refreshed (session state `pc`, new expiry, announced addresses), its claims entered, nothing emitted yet -/
def afterInfo (n : Node) (now : Int) (s : NAddr) (p : Peer) (pc : PeerCrypto) (info : NodeInfo) (log : Init.SealLog) : Ctx :=
  { node := { n with peers := insertA n.peers s (refreshed { p with crypto := pc } (now + n.cfg.peerTimeout) s (some info)),
                     table := n.table.setClaims now (addrId s) info.claims },
    log := log }

open VpnCloud.Proofs.C15More (FromPeer) in
open VpnCloud.Proofs.C15MoreLemmas (refreshed handleNet_established insertA_insertA) in
/-- `handle_net_message` for a node information message that the session of an established peer opens and that decodes: the step is
    `connect_to_peers` on the announced peer list, from `afterInfo` -/
theorem handleNet_nodeinfo {env : CryptoEnv} {bodyOf : Init.BodyOf} {o : Oracle} {n : Node} {src : NAddr} {data tail : Bytes}
    {p : Peer} {pc : PeerCrypto} {body : Bytes} (h : FromPeer env bodyOf o n src data tail p pc Generated.MESSAGE_TYPE_NODE_INFO body)
    (now : Int) (info : NodeInfo) (hdec : Codec.decodeNodeInfo body = some info) :
    ∃ log, handleNet env bodyOf o n now src data tail =
      (connectToPeers env o (afterInfo n now (mappedAddr src) p pc info log) info.peers, none) := by
  obtain ⟨out, log, hm⟩ := h.opened
  refine ⟨log, ?_⟩
  rw [handleNet_established env bodyOf o n now src data tail p pc out _ log h.peer h.plain hm]
  have hr : handleResult env o (addLog log { node := { n with peers := insertA n.peers (mappedAddr src) { p with crypto := pc } } })
      now (mappedAddr src) (.message Generated.MESSAGE_TYPE_NODE_INFO body) out =
      (connectToPeers env o (afterInfo n now (mappedAddr src) p pc info log) info.peers, none) := by
    unfold handleResult
    simp only []
    rw [if_neg (by decide), if_pos trivial]
    simp only [hdec]
    unfold updatePeerInfo
    simp only [addLog, lookupA_insertA_self', insertA_insertA]
    rfl
  rw [hr]
  exact finish_of_not_fatal _ _ _ (by intro e; cases e)

/-! ## the announced node information -/

section Info
open VpnCloud.Spec.C16 VpnCloud.Codec VpnCloud.Proofs.CodecLemmas

/-- the entry `create_node_info` makes of a peer record -/
def entryOf (p : Peer) : PeerInfo := { nodeId := some p.nodeId, addrs := p.addrs }

theorem createNodeInfo_peers (n : Node) : (createNodeInfo n).peers = n.peers.map (fun x => entryOf x.2) := rfl

/-- **the guard of the encoder, as a statement about the node** (sufficient for `Spec.C16.WF (createNodeInfo n)`): ids of 16 proper
    bytes, socket addresses of proper widths, claims of proper widths, a 16-bit advertised timeout, and few enough peers and claims
    for the 16-bit length fields of the two list parts (an entry takes at most 269 bytes, a claim at most 18) -/
structure AnnounceWF (n : Node) : Prop where
  nodeId : n.nodeId.length = 16 ∧ Bytes.WF n.nodeId
  peerIds : ∀ x ∈ n.peers, x.2.nodeId.length = 16 ∧ Bytes.WF x.2.nodeId
  peerAddrs : ∀ x ∈ n.peers, ∀ a ∈ x.2.addrs, sockWF a = true
  claims : ∀ r ∈ n.cfg.claims, rangeWF r = true
  own : ∀ a ∈ n.own, sockWF a = true
  timeout : n.cfg.peerTimeoutPublish < 65536
  peerCount : n.peers.length ≤ 243
  claimCount : n.cfg.claims.length ≤ 3640

theorem flatMap_len_le {α} (f : α → Bytes) (k : Nat) (l : List α) (h : ∀ x ∈ l, (f x).length ≤ k) :
    (l.flatMap f).length ≤ k * l.length := by
  induction l with
  | nil => simp
  | cons a l ih =>
    have h1 := h a List.mem_cons_self
    have h2 := ih (fun x hx => h x (List.mem_cons_of_mem _ hx))
    rw [List.flatMap_cons, List.length_append, List.length_cons, Nat.mul_succ]
    omega

theorem encodePeer_len_le (p : PeerInfo) (hid : ∀ i, p.nodeId = some i → i.length = 16) (ha : ∀ a ∈ p.addrs, sockWF a = true) :
    (encodePeer p).length ≤ 269 := by
  rw [encodePeer_eq]
  have h1 := encodeAddrList_body_len p.addrs ha (if p.nodeId.isSome then 0x80 else 0)
  have h2 : (p.nodeId.getD []).length ≤ 16 := by
    cases hp : p.nodeId with
    | none => simp
    | some i => simp [hid i hp]
  simp only [List.length_cons, List.length_append]
  omega

theorem writeRange_len_le (r : Range) (h : rangeWF r = true) : (writeRange r).length ≤ 18 := by
  simp only [rangeWF, Bool.and_eq_true, decide_eq_true_eq] at h
  simp only [writeRange, writeAddress, List.length_append, List.length_cons, List.length_nil]
  omega

theorem createNodeInfo_WF (n : Node) (h : AnnounceWF n) : WF (createNodeInfo n) = true := by
  have hp : ((createNodeInfo n).peers.flatMap encodePeer).length < 65536 := by
    have := flatMap_len_le encodePeer 269 (createNodeInfo n).peers (by
      intro p hp
      rw [createNodeInfo_peers] at hp
      obtain ⟨x, hx, rfl⟩ := List.mem_map.1 hp
      exact encodePeer_len_le _ (fun i hi => by cases hi; exact (h.peerIds x hx).1) (h.peerAddrs x hx))
    rw [createNodeInfo_peers] at this ⊢
    rw [List.length_map] at this
    have := h.peerCount
    omega
  have hc : ((createNodeInfo n).claims.flatMap writeRange).length < 65536 := by
    have := flatMap_len_le writeRange 18 n.cfg.claims (fun r hr => writeRange_len_le r (h.claims r hr))
    have := h.claimCount
    show (n.cfg.claims.flatMap writeRange).length < 65536
    omega
  simp only [WF, Bool.and_eq_true, decide_eq_true_eq, List.all_eq_true]
  refine ⟨⟨⟨⟨⟨⟨⟨h.nodeId.1, h.nodeId.2⟩, ?_⟩, h.claims⟩, h.own⟩, decide_eq_true h.timeout⟩, hp⟩, hc⟩
  intro p hp
  rw [createNodeInfo_peers] at hp
  obtain ⟨x, hx, rfl⟩ := List.mem_map.1 hp
  exact ⟨by simpa [entryOf] using h.peerIds x hx, h.peerAddrs x hx⟩

/-- what decoding makes of the announced list -/
theorem normalise_createNodeInfo_peers (n : Node) :
    (normalise (createNodeInfo n)).peers = n.peers.map (fun x => ({ nodeId := some x.2.nodeId, addrs := normAddrs x.2.addrs } : PeerInfo)) := by
  simp only [normalise, createNodeInfo_peers, List.map_map]
  rfl

/-- an address list that is already in normal form (IPv6 addresses first, at most seven per family) survives the round trip unchanged -/
theorem normAddrs_id (l6 l4 : List SockAddr) (h6 : ∀ a ∈ l6, isV4 a = false) (h4 : ∀ a ∈ l4, isV4 a = true)
    (n6 : l6.length ≤ 7) (n4 : l4.length ≤ 7) : normAddrs (l6 ++ l4) = l6 ++ l4 := by
  have f1 : (l6 ++ l4).filter (fun a => !isV4 a) = l6 := by
    rw [List.filter_append, List.filter_eq_self.2 (fun a ha => by simp [h6 a ha]), List.filter_eq_nil_iff.2 (fun a ha => by simp [h4 a ha]),
      List.append_nil]
  have f2 : (l6 ++ l4).filter isV4 = l4 := by
    rw [List.filter_append, List.filter_eq_nil_iff.2 (fun a ha => by simp [h6 a ha]), List.filter_eq_self.2 (fun a ha => h4 a ha),
      List.nil_append]
  unfold normAddrs
  rw [f1, f2, List.take_of_length_le n6, List.take_of_length_le n4]

/-- every address that survives normalisation was listed -/
theorem mem_of_mem_normAddrs {l : List SockAddr} {a : SockAddr} (h : a ∈ normAddrs l) : a ∈ l := by
  unfold normAddrs at h
  rcases List.mem_append.1 h with h | h
  · exact (List.mem_filter.1 (List.mem_of_mem_take h)).1
  · exact (List.mem_filter.1 (List.mem_of_mem_take h)).1

end Info

/-! ## the announcement reaches a peer, and a session in sync opens it -/

section Announce
open VpnCloud.Proofs.C15MoreLemmas VpnCloud.Proofs.C15More VpnCloud.Proofs.NodeInvLemmas

/-- the announcement is due, the record `p3` of the peer `b` after the per-second session housekeeping can seal: the tick emits a
    datagram to `b` that is `send_message(NODE_INFO, …)` of that session on the encoded node information
    (`announce_reaches_every_peer`, from the record before the broadcast instead of the one after it) -/
theorem announce_sent (env : CryptoEnv) (o : Oracle) (n : Node) (now : Int) (hdue : n.nextPeers ≤ now)
    (hnd : (n.peers.map (·.1)).Nodup) (b : NAddr) (p3 : Peer) (hp3 : lookupA (preAnnounce env o n now).node.peers b = some p3)
    (hseal : canSeal p3.crypto) :
    ∃ p', Sent Generated.MESSAGE_TYPE_NODE_INFO (Codec.encodeNodeInfo (createNodeInfo (preAnnounce env o n now).node)) b p3 p'
      (housekeep env o n now).outs (housekeep env o n now).log := by
  have hnp : (preAnnounce env o n now).node.nextPeers = n.nextPeers := sched_nextPeers (preAnnounce_sched env o n now)
  have hdue3 : (preAnnounce env o n now).node.nextPeers ≤ now := by rw [hnp]; exact hdue
  obtain ⟨houts, hlog⟩ := hkAnnounce_due_io o (preAnnounce env o n now) now hdue3
  have hnd3 : KeysNodup (preAnnounce env o n now) := preAnnounce_keysNodup env o n now hnd
  generalize hc3 : preAnnounce env o n now = c3 at *
  generalize hbody : Codec.encodeNodeInfo (createNodeInfo c3.node) = body at *
  have hnd3' : (c3.node.peers.map (·.1)).Nodup := hnd3
  obtain ⟨ex, lgx, ho, hl, _, hin⟩ := bcast_fold o Generated.MESSAGE_TYPE_NODE_INFO body _ c3 hnd3'
  have hb : (c3.node.peers.map (·.1)).foldl (fun c a => (sendMsg o c a Generated.MESSAGE_TYPE_NODE_INFO body).getD c) c3 =
      broadcastMsg o c3 Generated.MESSAGE_TYPE_NODE_INFO body := rfl
  rw [hb] at ho hl hin
  have hfo : ∀ x ∈ ex, x ∈ (housekeep env o n now).outs := by
    intro x hx
    rw [housekeep_eq', hkOwn_outs, hc3]
    obtain ⟨e2, he2, _⟩ := reconnectToPeers_ext env o (hkAnnounce o c3 now) now
    rw [he2, houts, ho]
    exact List.mem_append_left _ (List.mem_append_right _ hx)
  have hfl : ∀ x ∈ lgx, x ∈ (housekeep env o n now).log := by
    intro x hx
    rw [housekeep_eq', hkOwn_log, reconnectToPeers_log, hc3, hlog, hl]
    exact List.mem_append_right _ hx
  have ha : b ∈ c3.node.peers.map (·.1) := (lookupA_isSome_iff _ _).1 (by rw [hp3]; rfl)
  obtain ⟨p', _, hsent⟩ := (hin b ha p3 hp3).1 hseal
  exact ⟨p', hsent.mono hfo hfl⟩

end Announce

section Sync
open VpnCloud.Proofs.C10NetLemmas

theorem InSync.canSeal {room : Nat} {sa sb : PeerCrypto} (h : InSync room sa sb) : VpnCloud.Proofs.C15MoreLemmas.canSeal sa := by
  cases h with
  | enc ca cb hua hub hca hcb hc => exact Or.inr (by rw [hca]; rfl)
  | plain hua hub => exact Or.inl hua

/-- one message over a link in sync, from the sender's `send_message` result: the receiving session opens the datagram as exactly that
    message, answers nothing, and the datagram does not carry the handshake marker -/
theorem sync_opens (env : CryptoEnv) (bodyOf : Init.BodyOf) (ok : Bytes → Bool) {room : Nat} {sa sb : PeerCrypto}
    (h : InSync (room + 1) sa sb) (ty : Nat) (body ct tail : Bytes) (rnd : Rand) (rr : RotRand)
    (hty : ty ≠ Generated.MESSAGE_TYPE_ROTATION) (hty' : ty ≠ Generated.INIT_MESSAGE_FIRST_BYTE)
    (sa' : PeerCrypto) (bytes : Bytes) (lg : Init.SealLog) (hs : PeerCrypto.sendMessage sa ty body ct = (sa', .ok (bytes, lg)))
    (hlog : LogOK bodyOf lg) :
    bytes.head? ≠ some Generated.INIT_MESSAGE_FIRST_BYTE ∧
    ∃ sb', PeerCrypto.handleMessage env bodyOf ok sb bytes tail rnd rr = .ok sb' [] (.message ty body) [] := by
  cases h with
  | enc ca cb hua hub hca hcb hc =>
    rw [sendMessage_enc hua hca ty body ct] at hs
    simp only [Prod.mk.injEq, Except.ok.injEq] at hs
    obtain ⟨_, rfl, rfl⟩ := hs
    have hb : bodyOf ct = (ca.encrypt (ty :: body)).2.body := hlog (ct, _) (List.mem_singleton.2 rfl)
    obtain ⟨_, hrecv, _, rest, hcons⟩ := send_deliver_enc env bodyOf ok hua hub hca hcb hc ty body ct tail rnd rr hty hb
    refine ⟨?_, _, hrecv⟩
    rw [hcons]
    have := hc.cur
    simp only [List.head?_cons, Generated.INIT_MESSAGE_FIRST_BYTE, ne_eq, Option.some.injEq]
    omega
  | plain hua hub =>
    rw [sendMessage_plain hua ty body ct] at hs
    simp only [Prod.mk.injEq, Except.ok.injEq] at hs
    obtain ⟨_, rfl, rfl⟩ := hs
    refine ⟨?_, _, handleMessage_plain_ok env bodyOf ok hub ty body tail rnd rr hty hty'⟩
    simp only [List.head?_cons, ne_eq, Option.some.injEq]
    exact hty'

end Sync

end VpnCloud.Proofs.C14ExchangeLemmas
