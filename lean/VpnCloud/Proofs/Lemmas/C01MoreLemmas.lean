import VpnCloud.Model.Node
import VpnCloud.Proofs.Lemmas.NodeInvLemmas
import VpnCloud.Proofs.C08
import VpnCloud.Proofs.C14
/-
  Helper lemmas for `Proofs/C01More.lean` (C01 / C14 at node level):

  * the immutable identity of a handshake object (`nodeId`, `trusted`) through the session layer,
  * the node invariant `NI` (node id and configuration constant, every handshake object carries the node's id and trusted keys)
    through every building block of `Model/Node.lean`,
  * inversion of a completed handshake at `PeerCrypto.handleMessage`,
  * what `handle_net_message` does to the table (`TblCase`),
  * own addresses and dialled addresses (`connect_to_peers`, `connect`, `connect_sock`).
-/
namespace VpnCloud.Proofs.C01MoreLemmas

open VpnCloud VpnCloud.Node
open VpnCloud.Proofs.NodeLemmas VpnCloud.Proofs.NodeLemmas2 VpnCloud.Proofs.NodeInvLemmas VpnCloud.Proofs.InitLemmas

/-! ## the identity of a handshake object through the session layer -/

/-- `b` has the node id and the trusted keys of `a` -/
def SameId (a b : InitSt) : Prop := b.nodeId = a.nodeId ∧ b.trusted = a.trusted

theorem SameId.refl (a : InitSt) : SameId a a := ⟨rfl, rfl⟩

theorem SameId.trans {a b c : InitSt} (h1 : SameId a b) (h2 : SameId b c) : SameId a c :=
  ⟨h2.1.trans h1.1, h2.2.trans h1.2⟩

theorem SameId.transfer {P : Bytes → List Bytes → Prop} {a b : InitSt} (h : SameId a b) (h0 : P a.nodeId a.trusted) :
    P b.nodeId b.trusted := by
  rw [h.1, h.2]; exact h0

theorem encryptPayload_id (st : InitSt) (rnd : Rand) : SameId st (Init.encryptPayload st rnd).1 := by
  rw [encryptPayload_fst]; exact ⟨rfl, rfl⟩

theorem init_sendMessage_id (env : CryptoEnv) (st : InitSt) (stage : Nat) (rnd : Rand) :
    SameId st (Init.sendMessage env st stage rnd).1 := by
  unfold Init.sendMessage
  split
  rename_i st1 msg log heq
  show st1.nodeId = st.nodeId ∧ st1.trusted = st.trusted
  split at heq
  · cases heq; exact ⟨rfl, rfl⟩
  · split at heq
    · split at heq
      rename_i s p l he
      cases heq
      have h1 := encryptPayload_id st rnd
      rw [he] at h1
      exact h1
    · split at heq
      rename_i s p l he
      cases heq
      have h1 := encryptPayload_id st rnd
      rw [he] at h1
      exact h1

theorem decryptPayload_id (s s' : InitSt) (bodyOf : Init.BodyOf) (data : Bytes) (r : Option Bytes)
    (h : Init.decryptPayload s bodyOf data = (s', r)) : SameId s s' := by
  obtain ⟨cr, rfl⟩ := decryptPayload_frame s s' bodyOf data r h
  exact ⟨rfl, rfl⟩

theorem pongSt_id (st0 : InitSt) (own eb hb : Bytes) (sel : Option Cipher) (rnd : Rand) :
    SameId st0 (pongSt st0 own eb hb sel rnd) := by cases sel <;> exact ⟨rfl, rfl⟩

/-- the handshake object a run of `handle_init` leaves behind has the identity it had before -/
def IdRes (st : InitSt) : Res → Prop
  | .panic => True
  | .err st' _ => SameId st st'
  | .ok st' _ => SameId st st'

theorem handleMsg_id (env : CryptoEnv) (bodyOf : Init.BodyOf) (ok : Bytes → Bool) (st0 : InitSt) (msg : InitMsg) (rnd : Rand) :
    IdRes st0 (handleMsg env bodyOf ok st0 msg rnd) := by
  cases msg with
  | ping h ecdh algos =>
    simp only [handleMsg]
    split
    · exact ⟨rfl, rfl⟩
    · split
      · unfold IdRes SameId
        dsimp only
        exact ⟨(init_sendMessage_id env _ Generated.STAGE_PONG rnd).1, (init_sendMessage_id env _ Generated.STAGE_PONG rnd).2⟩
      · unfold IdRes SameId
        dsimp only
        exact ⟨(init_sendMessage_id env _ Generated.STAGE_PONG rnd).1, (init_sendMessage_id env _ Generated.STAGE_PONG rnd).2⟩
  | pong h ecdh algos payload =>
    simp only [handleMsg]
    split
    · trivial
    · split
      · exact ⟨rfl, rfl⟩
      · split
        · rename_i st5 hd
          exact (pongSt_id ..).trans (decryptPayload_id _ _ _ _ _ hd)
        · rename_i st5 p hd
          have h5 : SameId st0 st5 := (pongSt_id ..).trans (decryptPayload_id _ _ _ _ _ hd)
          split
          · exact h5
          · have h6 := h5.trans (init_sendMessage_id env st5 Generated.STAGE_PENG rnd)
            unfold IdRes SameId
            dsimp only
            exact ⟨h6.1, h6.2⟩
  | peng h payload =>
    simp only [handleMsg]
    split
    · rename_i st2 hd
      exact decryptPayload_id { st0 with retries := 0 } _ _ _ _ hd
    · rename_i st2 p hd
      split
      · exact decryptPayload_id { st0 with retries := 0 } _ _ _ _ hd
      · exact decryptPayload_id { st0 with retries := 0 } st2 _ _ _ hd

theorem handleInit_id (env : CryptoEnv) (bodyOf : Init.BodyOf) (ok : Bytes → Bool) (st : InitSt) (w : Bytes) (rnd : Rand) :
    IdRes st (Init.handleInit env bodyOf ok st w rnd) := by
  rw [handleInit_eq]
  split
  · exact ⟨rfl, rfl⟩
  · split
    · exact ⟨rfl, rfl⟩
    · split
      · rename_i o ho
        rcases stageCheck_inr' _ _ _ _ ho with ⟨x, rfl⟩ | rfl
        · exact ⟨rfl, rfl⟩
        · exact ⟨rfl, rfl⟩
      · trivial
      · rename_i st0 ho
        rcases stageCheck_inl _ _ _ _ ho with ⟨h1, _⟩ | ⟨h1, _⟩
        · simp only [Option.some.injEq] at h1
          subst h1
          exact handleMsg_id ..
        · simp only [Option.some.injEq] at h1
          subst h1
          exact handleMsg_id env bodyOf ok { st with stage := Generated.STAGE_PING, last := none, ecdh := none } _ rnd

theorem init_everySecond_id (st : InitSt) : SameId st (Init.everySecond st).1 := by
  unfold Init.everySecond
  repeat' split
  all_goals exact ⟨rfl, rfl⟩

theorem sendPing_id (env : CryptoEnv) (ist : InitSt) (rnd : Rand) : SameId ist (Init.sendPing env ist rnd).1 :=
  init_sendMessage_id env { ist with ecdh := some rnd.ecdhPub } Generated.STAGE_PING rnd

/-- every handshake object of the session carries the node id `N` and the trusted keys `T` -/
def SessP (P : Bytes → List Bytes → Prop) (pc : PeerCrypto) : Prop := ∀ i, pc.init = some i → P i.nodeId i.trusted

theorem SessP.of_init {P : Bytes → List Bytes → Prop} {pc pc' : PeerCrypto} (h : SessP P pc) (hi : pc'.init = pc.init) : SessP P pc' := by
  intro i h'; rw [hi] at h'; exact h i h'

theorem SessP.of_none {P : Bytes → List Bytes → Prop} {pc : PeerCrypto} (hi : pc.init = none) : SessP P pc := by
  intro i h'; rw [hi] at h'; cases h'

theorem SessP.of_some {P : Bytes → List Bytes → Prop} {pc : PeerCrypto} {i : InitSt} (hi : pc.init = some i) (h : P i.nodeId i.trusted) :
    SessP P pc := by
  intro j h'; rw [hi] at h'; cases h'; exact h

theorem newAttempt_sessP (P : Bytes → List Bytes → Prop) (n : Node) (hash : Bytes) (h : P n.nodeId n.cfg.trusted) : SessP P (newAttempt n hash) := by
  intro i hi
  simp only [newAttempt, Option.some.injEq] at hi
  subst hi
  exact h

/-- what the session layer leaves behind carries the identity it carried before -/
def IdOut (P : Bytes → List Bytes → Prop) : POutcome MsgResult → Prop
  | .panic => True
  | .err pc' _ => SessP P pc'
  | .ok pc' _ _ _ => SessP P pc'

theorem successPc_sessP (P : Bytes → List Bytes → Prop) (pc : PeerCrypto) (ist' : InitSt) (h : P ist'.nodeId ist'.trusted) :
    SessP P (successPc pc ist') := by
  intro i hi
  unfold successPc at hi
  simp only at hi
  split at hi
  · cases hi
  · simp only [Option.some.injEq] at hi; subst hi; exact h

theorem handleInitMessage_id (env : CryptoEnv) (bodyOf : Init.BodyOf) (ok : Bytes → Bool) (pc : PeerCrypto) (w : Bytes) (rnd : Rand) (rr : RotRand)
    (P : Bytes → List Bytes → Prop) (hp : SessP P pc) : IdOut P (PeerCrypto.handleInitMessage env bodyOf ok pc w rnd rr) := by
  rw [handleInitMessage_eq]
  split
  · exact hp
  · rename_i ist hi
    have hg := handleInit_id env bodyOf ok ist w rnd
    have h0 := hp ist hi
    generalize Init.handleInit env bodyOf ok ist w rnd = r at hg
    cases r with
    | panic => trivial
    | err ist' e =>
      exact SessP.of_some (i := ist') rfl (SameId.transfer hg h0)
    | ok ist' x =>
      obtain ⟨out, res, ilog⟩ := x
      have hg' : SameId ist ist' := hg
      cases res with
      | «continue» =>
        exact SessP.of_some (i := ist') rfl (hg'.transfer h0)
      | success payload isInit =>
        have hpk := successPc_sessP P pc ist' (hg'.transfer h0)
        have hc := successOut_cases (successPc pc ist') ist'.crypto isInit (if out.isEmpty then [] else Generated.INIT_MESSAGE_FIRST_BYTE :: out) payload ilog rr
        simp only []
        generalize successOut (successPc pc ist') ist'.crypto isInit (if out.isEmpty then [] else Generated.INIT_MESSAGE_FIRST_BYTE :: out) payload ilog rr = r at hc
        cases r with
        | panic => trivial
        | err pc' e => exact hpk.of_init hc.1
        | ok pc' o res log => exact hpk.of_init hc.1

theorem handleMessage_id (env : CryptoEnv) (bodyOf : Init.BodyOf) (ok : Bytes → Bool) (pc : PeerCrypto) (datagram tail : Bytes) (rnd : Rand) (rr : RotRand)
    (P : Bytes → List Bytes → Prop) (hp : SessP P pc) : IdOut P (PeerCrypto.handleMessage env bodyOf ok pc datagram tail rnd rr) := by
  rw [handleMessage_eq]
  split
  · exact hp
  · rename_i b0 rest
    split
    · split
      · exact hp
      · exact handleInitMessage_id env bodyOf ok pc rest rnd rr P hp
    · have hi := decMsg_init bodyOf pc (b0 :: rest)
      rcases hd : decMsg bodyOf pc (b0 :: rest) with ⟨pc1, r⟩
      rw [hd] at hi
      cases r with
      | error e => exact hp.of_init hi
      | ok plain =>
        cases plain with
        | nil => trivial
        | cons ty body =>
          simp only []
          split
          · by_cases hpan : PeerCrypto.rotatePanics pc1 (body ++ (if pc1.unencrypted then tail else [])) = true
            · rw [if_pos hpan]; trivial
            rw [if_neg hpan]
            have hr := handleRotate_init pc1 (body ++ (if pc1.unencrypted then tail else [])) rr
            rcases hrot : PeerCrypto.handleRotate pc1 (body ++ (if pc1.unencrypted then tail else [])) rr with ⟨pc2, r2⟩
            rw [hrot] at hr
            cases r2 with
            | error e => exact hp.of_init (hr.trans hi)
            | ok u => exact hp.of_init (hr.trans hi)
          · exact hp.of_init hi

theorem tickInit_sessP (P : Bytes → List Bytes → Prop) (pc : PeerCrypto) (h : SessP P pc) : ∀ i, tickInit pc = some i → P i.nodeId i.trusted := by
  intro i hi
  unfold tickInit at hi
  split at hi
  · rename_i ist hist
    split at hi
    · cases hi
    · simp only [Option.some.injEq] at hi
      subst hi
      have := init_everySecond_id ist
      have h0 := h ist hist
      exact this.transfer h0
  · cases hi

theorem everySecond_id (pc : PeerCrypto) (rr : RotRand) (P : Bytes → List Bytes → Prop) (hp : SessP P pc)
    (pc' : PeerCrypto) (out : Bytes) (res : MsgResult) (log : Init.SealLog) (h : PeerCrypto.everySecond pc rr = .ok pc' out res log) :
    SessP P pc' := by
  have hs := everySecond_spec pc rr
  rw [h] at hs
  intro i hi
  rw [hs.1] at hi
  exact tickInit_sessP P pc hp i hi

/-! ## the node invariant `NI` -/

/-- node id `N`, configuration `K` and listen address `A`; every handshake object of every session carries `N` and the trusted keys of `K` -/
structure NI (P : Bytes → List Bytes → Prop) (N : Bytes) (K : NodeCfg) (A : NAddr) (c : Ctx) : Prop where
  nodeId : c.node.nodeId = N
  cfg : c.node.cfg = K
  addr : c.node.addr = A
  new : P N K.trusted
  peers : ∀ a p, (a, p) ∈ c.node.peers → SessP P p.crypto
  pending : ∀ a pc, (a, pc) ∈ c.node.pending → SessP P pc

section NIsec
variable {P : Bytes → List Bytes → Prop} {N : Bytes} {K : NodeCfg} {A : NAddr}

theorem NI.step {c c' : Ctx} (h : NI P N K A c) (h1 : c'.node.nodeId = c.node.nodeId) (h2 : c'.node.cfg = c.node.cfg)
    (h3 : c'.node.addr = c.node.addr)
    (hp : ∀ a p, (a, p) ∈ c'.node.peers → (a, p) ∈ c.node.peers ∨ SessP P p.crypto)
    (hq : ∀ a pc, (a, pc) ∈ c'.node.pending → (a, pc) ∈ c.node.pending ∨ SessP P pc) : NI P N K A c' where
  nodeId := h1.trans h.nodeId
  cfg := h2.trans h.cfg
  addr := h3.trans h.addr
  new := h.new
  peers := fun a p hm => (hp a p hm).elim (h.peers a p) id
  pending := fun a pc hm => (hq a pc hm).elim (h.pending a pc) id

theorem NI.countInvalid {c : Ctx} (h : NI P N K A c) : NI P N K A (countInvalid c) :=
  h.step rfl rfl rfl (fun _ _ hm => Or.inl hm) (fun _ _ hm => Or.inl hm)

theorem NI.of_node {c c' : Ctx} (h : NI P N K A c) (hn : c'.node = c.node) : NI P N K A c' :=
  h.step (by rw [hn]) (by rw [hn]) (by rw [hn]) (fun _ _ hm => Or.inl (hn ▸ hm)) (fun _ _ hm => Or.inl (hn ▸ hm))

theorem connectSock_NI (env : CryptoEnv) (o : Oracle) (c : Ctx) (a : NAddr) (h : NI P N K A c) : NI P N K A (connectSock env o c a) := by
  unfold connectSock
  simp only []
  split
  · exact h
  · split
    · exact h
    · rename_i ist hist
      refine h.step rfl rfl rfl (fun a p hm => Or.inl hm) ?_
      intro b pc hb
      rcases mem_insertA hb with heq | hb
      · cases heq
        right
        simp only [newAttempt, Option.some.injEq] at hist
        subst hist
        refine SessP.of_some rfl ?_
        have hs := sendPing_id env
          { nodeId := c.node.nodeId, hash := ((rndFor o c (mappedAddr a)).2.2).getD [], payload := Codec.encodeNodeInfo (createNodeInfo c.node),
            ownKey := c.node.cfg.key, trusted := c.node.cfg.trusted, algos := c.node.cfg.algos } (rndFor o c (mappedAddr a)).1
        refine hs.transfer ?_
        show P c.node.nodeId c.node.cfg.trusted
        rw [h.nodeId, h.cfg]
        exact h.new
      · exact Or.inl hb

theorem connect_NI (env : CryptoEnv) (o : Oracle) (c : Ctx) (l : List NAddr) (h : NI P N K A c) : NI P N K A (connect env o c l) := by
  unfold connect
  simp only []
  split
  · exact h
  · exact foldl_inv (NI P N K A) _ (fun c a hc => connectSock_NI env o c a hc) _ _ h

theorem connectToPeers_NI (env : CryptoEnv) (o : Oracle) (c : Ctx) (l : List PeerInfo) (h : NI P N K A c) : NI P N K A (connectToPeers env o c l) := by
  unfold connectToPeers
  apply foldl_inv (NI P N K A) _ _ _ _ h
  intro c p hc
  simp only []
  split
  · exact hc
  · split
    · split
      · exact hc.step rfl rfl rfl (fun a p hm => Or.inl hm) (fun a pc hm => Or.inl hm)
      · split
        · exact hc
        · exact connect_NI env o c _ hc
    · exact connect_NI env o c _ hc

/-- replacing the entry of a peer by one with the same session, and the table by any table -/
theorem NI.insertPeer {c : Ctx} (h : NI P N K A c) {a : NAddr} {q : Peer} (hq : SessP P q.crypto) (t : Table) :
    NI P N K A { c with node := { c.node with peers := insertA c.node.peers a q, table := t } } := by
  refine h.step rfl rfl rfl ?_ (fun a pc hm => Or.inl hm)
  intro b r hb
  rcases mem_insertA hb with heq | hb
  · cases heq; exact Or.inr hq
  · exact Or.inl hb

theorem updatePeerInfo_NI (env : CryptoEnv) (o : Oracle) (c : Ctx) (now : Int) (a : NAddr) (info : Option NodeInfo)
    (h : NI P N K A c) : NI P N K A (updatePeerInfo env o c now a info) := by
  unfold updatePeerInfo
  simp only []
  split
  · exact h
  · rename_i p hp
    have hs := h.peers a p (lookupA_some_mem hp)
    cases info with
    | none =>
      refine h.insertPeer ?_ c.node.table
      exact hs
    | some i =>
      apply connectToPeers_NI
      refine h.insertPeer ?_ _
      exact hs

theorem addNewPeer_NI (env : CryptoEnv) (o : Oracle) (c : Ctx) (now : Int) (a : NAddr) (info : NodeInfo)
    (h : NI P N K A c) : NI P N K A (addNewPeer env o c now a info) := by
  unfold addNewPeer
  simp only []
  split
  · exact h
  · rename_i pc hpc
    refine NI.step (c := updatePeerInfo env o _ now a (some info)) ?_ rfl rfl rfl
      (fun _ _ hm => Or.inl hm) (fun _ _ hm => Or.inl hm)
    apply updatePeerInfo_NI
    refine h.step rfl rfl rfl ?_ ?_
    · intro b r hb
      rcases mem_insertA hb with heq | hb
      · cases heq; exact Or.inr (h.pending a pc (lookupA_some_mem hpc))
      · exact Or.inl hb
    · intro b q hb
      exact Or.inl (mem_eraseA hb).1

theorem removePeer_NI (c : Ctx) (now : Int) (a : NAddr) (h : NI P N K A c) : NI P N K A (removePeer c now a) := by
  unfold removePeer
  simp only []
  split
  · exact h
  · exact h.step rfl rfl rfl (fun b r hb => Or.inl (mem_eraseA hb).1) (fun b q hb => Or.inl hb)

theorem handleResult_NI (env : CryptoEnv) (o : Oracle) (c : Ctx) (now : Int) (src : NAddr) (res : MsgResult) (out : Bytes)
    (h : NI P N K A c) : NI P N K A (handleResult env o c now src res out).1 := by
  have key : ∀ (x : Ctx) (e : Option InitErr), NI P N K A x → NI P N K A (x, e).1 := fun _ _ h => h
  unfold handleResult
  cases res with
  | message ty data =>
    simp only []
    split
    · split
      · exact h
      · split
        · exact h.step rfl rfl rfl (fun a p hm => Or.inl hm) (fun a pc hm => Or.inl hm)
        · exact h.of_node rfl
    · split
      · split
        · exact h.countInvalid
        · exact key _ _ (updatePeerInfo_NI env o c now src _ h)
      · split
        · exact key _ _ (updatePeerInfo_NI env o c now src _ h)
        · split
          · exact removePeer_NI c now src h
          · exact h.countInvalid
  | initialized payload =>
    simp only []
    split
    · exact addNewPeer_NI env o c now src _ h
    · exact h
  | initializedWithReply payload =>
    simp only []
    split
    · exact (addNewPeer_NI env o c now src _ h).of_node rfl
    · exact h
  | reply => exact h.of_node rfl
  | none => exact h

theorem storePc_NI (c : Ctx) (src : NAddr) (inPeers : Bool) (pc : PeerCrypto) (h : NI P N K A c) (hpc : SessP P pc) :
    NI P N K A (storePc c src inPeers pc) := by
  unfold storePc
  simp only []
  split
  · split
    · exact h.insertPeer hpc c.node.table
    · exact h
  · refine h.step rfl rfl rfl (fun a p hm => Or.inl hm) ?_
    intro b q hb
    rcases mem_insertA hb with heq | hb
    · cases heq; exact Or.inr hpc
    · exact Or.inl hb

theorem applyOutcome_NI (env : CryptoEnv) (o : Oracle) (c : Ctx) (now : Int) (src : NAddr) (inPeers : Bool) (r : POutcome MsgResult)
    (h : NI P N K A c) (hr : IdOut P r) : NI P N K A (applyOutcome env o c now src inPeers r).1 := by
  rw [applyOutcome_eq]
  cases r with
  | panic => exact h.of_node rfl
  | err pc e => exact (storePc_NI c src inPeers pc h hr).countInvalid
  | ok pc out res log =>
    apply handleResult_NI
    exact (storePc_NI c src inPeers pc h hr).of_node rfl

theorem responder_NI (env : CryptoEnv) (bodyOf : Init.BodyOf) (o : Oracle) (n : Node) (now : Int) (src : NAddr) (data tail : Bytes)
    (rnd : Rand) (rr : RotRand) (hash : Option Bytes) (h : NI P N K A { node := n }) :
    NI P N K A (responder env bodyOf o n now src data tail rnd rr hash).1 := by
  have hn : SessP P (newAttempt n (hash.getD [])) := by
    apply newAttempt_sessP
    rw [show n.nodeId = N from h.nodeId, show n.cfg = K from h.cfg]
    exact h.new
  have hr := handleMessage_id env bodyOf payloadOk (newAttempt n (hash.getD [])) data tail rnd rr P hn
  unfold responder
  simp only []
  generalize PeerCrypto.handleMessage env bodyOf payloadOk (newAttempt n (hash.getD [])) data tail rnd rr = r at hr
  cases r with
  | panic => exact h.of_node rfl
  | err pc e => exact h.countInvalid
  | ok pc out res log =>
    apply handleResult_NI
    refine h.step rfl rfl rfl (fun a p hm => Or.inl hm) ?_
    intro b q hb
    rcases mem_insertA hb with heq | hb
    · cases heq; exact Or.inr hr
    · exact Or.inl hb

theorem dispatch_NI (env : CryptoEnv) (bodyOf : Init.BodyOf) (o : Oracle) (n : Node) (now : Int) (src : NAddr) (data tail : Bytes)
    (h : NI P N K A { node := n }) : NI P N K A (dispatch env bodyOf o n now src data tail).1 := by
  unfold dispatch
  simp only []
  split
  · rename_i p hp
    have hRp := h.peers src p (lookupA_some_mem hp)
    split
    · exact applyOutcome_NI env o _ now src true _ h (handleMessage_id env bodyOf payloadOk _ data tail _ _ P hRp)
    · split
      · rename_i pc hq
        exact applyOutcome_NI env o _ now src false _ h
          (handleMessage_id env bodyOf payloadOk _ data tail _ _ P (h.pending src pc (lookupA_some_mem hq)))
      · split
        · exact applyOutcome_NI env o _ now src true _ h (handleMessage_id env bodyOf payloadOk _ data tail _ _ P hRp)
        · exact responder_NI env bodyOf o n now src data tail _ _ _ h
  · rename_i pc hp hq
    exact applyOutcome_NI env o _ now src false _ h
      (handleMessage_id env bodyOf payloadOk _ data tail _ _ P (h.pending src pc (lookupA_some_mem hq)))
  · split
    · exact responder_NI env bodyOf o n now src data tail _ _ _ h
    · exact h.countInvalid

theorem finish_NI (src : NAddr) (r : Ctx × Option InitErr) (h : NI P N K A r.1) : NI P N K A (finish src r).1 := by
  unfold finish
  split
  · exact h.step rfl rfl rfl (fun a p hm => Or.inl hm) (fun a pc hm => Or.inl (mem_eraseA hm).1)
  · exact h

theorem handleNet_NI (env : CryptoEnv) (bodyOf : Init.BodyOf) (o : Oracle) (n : Node) (now : Int) (src0 : NAddr) (data tail : Bytes)
    (h : NI P N K A { node := n }) : NI P N K A (handleNet env bodyOf o n now src0 data tail).1 := by
  rw [handleNet_eq]
  exact finish_NI _ _ (dispatch_NI env bodyOf o n now _ data tail h)

theorem sendMsg_NI (o : Oracle) (c : Ctx) (a : NAddr) (ty : Nat) (body : Bytes) (h : NI P N K A c) :
    NI P N K A ((sendMsg o c a ty body).getD c) := by
  unfold sendMsg
  split
  · exact h
  · rename_i p hp
    simp only []
    split
    · rename_i pc' bytes log hs
      simp only [Option.getD_some]
      have hpc : pc' = (PeerCrypto.sendMessage p.crypto ty body (rndFor o c a).2.1.ct).1 := by rw [hs]
      have hid : SessP P pc' := by
        rw [hpc]
        exact (h.peers a p (lookupA_some_mem hp)).of_init (sealMsg_init _ _ _)
      exact (h.insertPeer (q := { p with crypto := pc' }) hid c.node.table).of_node rfl
    · exact h

theorem broadcastMsg_NI (o : Oracle) (c : Ctx) (ty : Nat) (body : Bytes) (h : NI P N K A c) : NI P N K A (broadcastMsg o c ty body) := by
  unfold broadcastMsg
  exact foldl_inv (NI P N K A) _ (fun c a hc => sendMsg_NI o c a ty body hc) _ _ h

theorem handleIface_NI (o : Oracle) (n : Node) (now : Int) (data : Bytes) (h : NI P N K A { node := n }) :
    NI P N K A (handleIface o n now data) := by
  unfold handleIface
  simp only []
  split
  · exact h
  · rename_i sa dst hpa
    have h1 : NI P N K A { node := { n with table := (n.table.lookup now dst).1 } } :=
      h.step rfl rfl rfl (fun a p hm => Or.inl hm) (fun a pc hm => Or.inl hm)
    split
    · split
      · exact sendMsg_NI o _ _ _ _ h1
      · exact h1
    · split
      · exact broadcastMsg_NI o _ _ _ h1
      · exact h1.step rfl rfl rfl (fun a p hm => Or.inl hm) (fun a pc hm => Or.inl hm)

theorem cryptoHousekeep_NI (env : CryptoEnv) (o : Oracle) (c : Ctx) (now : Int) (h : NI P N K A c) : NI P N K A (cryptoHousekeep env o c now) := by
  unfold cryptoHousekeep
  apply foldl_inv (NI P N K A)
  · intro c a hc
    split
    · exact hc
    · rename_i p hp
      have hR := hc.peers a p (lookupA_some_mem hp)
      split
      rename_i rr _ _
      split
      · apply connectSock_NI
        exact hc.step rfl rfl rfl (fun b r hb => Or.inl (mem_eraseA hb).1) (fun b q hb => Or.inl hb)
      · exact hc.of_node rfl
      · rename_i pc' out res log hok
        have hins : NI P N K A (addLog log { c with node := { c.node with peers := insertA c.node.peers a { p with crypto := pc' } } }) :=
          (hc.insertPeer (q := { p with crypto := pc' }) (everySecond_id _ _ P hR pc' out res log hok) c.node.table).of_node rfl
        split
        · exact hins.of_node rfl
        · exact hins
  · apply foldl_inv (NI P N K A)
    · intro c a hc
      split
      · exact hc
      · rename_i pc hp
        have hQ := hc.pending a pc (lookupA_some_mem hp)
        split
        rename_i rr _ _
        split
        · exact hc.step rfl rfl rfl (fun b r hb => Or.inl hb) (fun b q hb => Or.inl (mem_eraseA hb).1)
        · exact hc.of_node rfl
        · rename_i pc' out res log hok
          have hins : NI P N K A (addLog log { c with node := { c.node with pending := insertA c.node.pending a pc' } }) := by
            refine hc.step rfl rfl rfl (fun b r hb => Or.inl hb) ?_
            intro b q hb
            rcases mem_insertA hb with heq | hb
            · cases heq; exact Or.inr (everySecond_id _ _ P hQ pc' out res log hok)
            · exact Or.inl hb
          split
          · exact hins.of_node rfl
          · exact hins
    · exact h

theorem reconnectToPeers_NI (env : CryptoEnv) (o : Oracle) (c : Ctx) (now : Int) (h : NI P N K A c) : NI P N K A (reconnectToPeers env o c now) := by
  unfold reconnectToPeers
  simp only []
  have h1 : NI P N K A (c.node.reconnect.foldl (fun c e => if Generated.reconnectNotDue e.next now then c else connect env o c e.resolved) c) := by
    apply foldl_inv (NI P N K A) _ _ _ _ h
    intro c e hc
    split
    · exact hc
    · exact connect_NI env o c _ hc
  exact h1.step rfl rfl rfl (fun a p hm => Or.inl hm) (fun a pc hm => Or.inl hm)

theorem hkDead_NI (env : CryptoEnv) (o : Oracle) (n : Node) (now : Int) (h : NI P N K A { node := n }) : NI P N K A (hkDead env o n now) := by
  unfold hkDead
  apply foldl_inv (NI P N K A) _ _ _ _ h
  intro c a hc
  apply connectSock_NI
  exact hc.step rfl rfl rfl (fun b r hb => Or.inl (mem_eraseA hb).1) (fun b q hb => Or.inl hb)

theorem hkAnnounce_NI (o : Oracle) (c : Ctx) (now : Int) (h : NI P N K A c) : NI P N K A (hkAnnounce o c now) := by
  unfold hkAnnounce
  split
  · simp only []
    have hb := broadcastMsg_NI o c Generated.MESSAGE_TYPE_NODE_INFO (Codec.encodeNodeInfo (createNodeInfo c.node)) h
    split
    · exact hb.step rfl rfl rfl (fun a p hm => Or.inl hm) (fun a pc hm => Or.inl hm)
    · exact hb.of_node rfl
  · exact h

/-- `hkOwn` keeps the invariant, PROVIDED the own-address reset writes the listen address (it does: `own := [addr]`) -/
theorem hkOwn_NI (c : Ctx) (now : Int) (h : NI P N K A c) : NI P N K A (hkOwn c now) := by
  unfold hkOwn
  split
  · exact h.step rfl rfl rfl (fun a p hm => Or.inl hm) (fun a pc hm => Or.inl hm)
  · exact h

theorem housekeep_NI (env : CryptoEnv) (o : Oracle) (n : Node) (now : Int) (h : NI P N K A { node := n }) : NI P N K A (housekeep env o n now) := by
  rw [housekeep_eq]
  apply hkOwn_NI
  apply reconnectToPeers_NI
  apply hkAnnounce_NI
  apply cryptoHousekeep_NI
  exact (hkDead_NI env o n now h).step rfl rfl rfl (fun a p hm => Or.inl hm) (fun a pc hm => Or.inl hm)

end NIsec

/-! ## a completed handshake, inverted -/

/-- a session-layer result that reports a completed handshake comes from a datagram with the handshake marker whose content the
    handshake object of the session processed successfully -/
theorem handleMessage_init_inv (env : CryptoEnv) (bodyOf : Init.BodyOf) (ok : Bytes → Bool) (pc : PeerCrypto) (data tail : Bytes)
    (rnd : Rand) (rr : RotRand) (pc' : PeerCrypto) (out : Bytes) (res : MsgResult) (log : Init.SealLog)
    (h : PeerCrypto.handleMessage env bodyOf ok pc data tail rnd rr = .ok pc' out res log) (hres : IsInitRes res) :
    ∃ rest ist ist' o p ini l, data = Generated.INIT_MESSAGE_FIRST_BYTE :: rest ∧ rest ≠ [] ∧ pc.init = some ist ∧
      Init.handleInit env bodyOf ok ist rest rnd = .ok ist' (o, .success p ini, l) ∧
      (res = .initialized p ∨ res = .initializedWithReply p) := by
  by_cases hinit : data.head? = some Generated.INIT_MESSAGE_FIRST_BYTE
  · cases data with
    | nil => cases hinit
    | cons b0 rest =>
      have hb : b0 = Generated.INIT_MESSAGE_FIRST_BYTE := by simpa using hinit
      subst hb
      rw [handleMessage_eq] at h
      simp only [if_true] at h
      cases hr : rest.isEmpty with
      | true => rw [hr] at h; simp at h
      | false =>
        rw [hr] at h
        simp only [Bool.false_eq_true, if_false] at h
        have hne : rest ≠ [] := by intro he; rw [he] at hr; cases hr
        rw [handleInitMessage_eq] at h
        cases hi : pc.init with
        | none => rw [hi] at h; cases h
        | some ist =>
          rw [hi] at h
          simp only [] at h
          cases hh : Init.handleInit env bodyOf ok ist rest rnd with
          | panic => rw [hh] at h; cases h
          | err ist' e => rw [hh] at h; cases h
          | ok ist' x =>
            obtain ⟨o, ires, il⟩ := x
            rw [hh] at h
            cases ires with
            | «continue» =>
              simp only [] at h
              cases h
              obtain ⟨p, hp | hp⟩ := hres <;> cases hp
            | success payload isInit =>
              simp only [] at h
              have hc := successOut_cases (successPc pc ist') ist'.crypto isInit (if o.isEmpty then [] else Generated.INIT_MESSAGE_FIRST_BYTE :: o) payload il rr
              rw [h] at hc
              exact ⟨rest, ist, ist', o, payload, isInit, il, rfl, hne, rfl, hh, hc.2⟩
  · exact absurd hres (plainRes_not_init (handleMessage_plain env bodyOf ok pc data tail rnd rr hinit pc' out res log h))

/-- `handle_message` of the node makes the sender a peer only for a completed handshake whose payload decodes -/
theorem handleResult_newpeer (env : CryptoEnv) (o : Oracle) (c : Ctx) (now : Int) (src : NAddr) (res : MsgResult) (out : Bytes)
    (hin : src ∈ (handleResult env o c now src res out).1.node.peers.map (·.1)) (hnot : src ∉ c.node.peers.map (·.1)) :
    ∃ p info, (res = .initialized p ∨ res = .initializedWithReply p) ∧ Codec.decodeNodeInfo p = some info := by
  cases res with
  | message ty data =>
    exfalso
    revert hin
    unfold handleResult
    simp only []
    split
    · split
      · exact fun hin => hnot hin
      · split
        · exact fun hin => hnot hin
        · exact fun hin => hnot hin
    · split
      · split
        · exact fun hin => hnot hin
        · intro hin
          have : src ∈ (updatePeerInfo env o c now src _).node.peers.map (·.1) := hin
          rw [updatePeerInfo_keys] at this
          exact hnot this
      · split
        · intro hin
          have : src ∈ (updatePeerInfo env o c now src none).node.peers.map (·.1) := hin
          rw [updatePeerInfo_keys] at this
          exact hnot this
        · split
          · intro hin
            have : src ∈ (removePeer c now src).node.peers.map (·.1) := hin
            unfold removePeer at this
            simp only [] at this
            split at this
            · exact hnot this
            · exact hnot (key_mem_eraseA this)
          · exact fun hin => hnot hin
  | initialized payload =>
    cases hd : Codec.decodeNodeInfo payload with
    | some info => exact ⟨payload, info, Or.inl rfl, hd⟩
    | none =>
      exfalso
      unfold handleResult at hin
      simp only [hd] at hin
      exact hnot hin
  | initializedWithReply payload =>
    cases hd : Codec.decodeNodeInfo payload with
    | some info => exact ⟨payload, info, Or.inr rfl, hd⟩
    | none =>
      exfalso
      unfold handleResult at hin
      simp only [hd] at hin
      exact hnot hin
  | reply => exact absurd (show src ∈ c.node.peers.map (·.1) from hin) hnot
  | none => exact absurd (show src ∈ c.node.peers.map (·.1) from hin) hnot

/-- the handshake object that processes a datagram from `s` when `s` is not an established peer: the pending attempt stored for `s`,
    or a fresh throw-away responder (`Crypto::peer_instance`) -/
def hsObject (o : Oracle) (n : Node) (s : NAddr) : PeerCrypto :=
  match lookupA n.pending s with
  | some pc => pc
  | none => newAttempt n ((rndFor o { node := n } s).2.2.getD [])

/-- the datagram was processed by the handshake object for `s` and that object reported a completed handshake with a decodable payload -/
def Completed (env : CryptoEnv) (bodyOf : Init.BodyOf) (o : Oracle) (n : Node) (s : NAddr) (data tail : Bytes) : Prop :=
  ∃ pc' out res log payload info,
    PeerCrypto.handleMessage env bodyOf payloadOk (hsObject o n s) data tail (rndFor o { node := n } s).1 (rndFor o { node := n } s).2.1 =
      .ok pc' out res log ∧
    (res = .initialized payload ∨ res = .initializedWithReply payload) ∧ Codec.decodeNodeInfo payload = some info

theorem dispatch_newpeer (env : CryptoEnv) (bodyOf : Init.BodyOf) (o : Oracle) (n : Node) (now : Int) (s : NAddr) (data tail : Bytes)
    (hin : s ∈ (dispatch env bodyOf o n now s data tail).1.node.peers.map (·.1)) (hnot : s ∉ n.peers.map (·.1)) :
    data.head? = some Generated.INIT_MESSAGE_FIRST_BYTE ∧ Completed env bodyOf o n s data tail := by
  have hp : lookupA n.peers s = none := (lookupA_none_iff _ _).2 hnot
  -- the two ways a handshake object is used
  have key : ∀ (pc : PeerCrypto) (c0 : Ctx), c0.node.peers = n.peers →
      (∀ pc' out res log, PeerCrypto.handleMessage env bodyOf payloadOk pc data tail (rndFor o { node := n } s).1 (rndFor o { node := n } s).2.1 = .ok pc' out res log →
        s ∈ (handleResult env o (addLog log c0) now s res out).1.node.peers.map (·.1) →
        data.head? = some Generated.INIT_MESSAGE_FIRST_BYTE ∧
        ∃ payload info, (res = .initialized payload ∨ res = .initializedWithReply payload) ∧ Codec.decodeNodeInfo payload = some info) := by
    intro pc c0 hc0 pc' out res log hm hin
    obtain ⟨p, info, hres, hd⟩ := handleResult_newpeer env o (addLog log c0) now s res out hin (by simp only [addLog_node, hc0]; exact hnot)
    obtain ⟨rest, _, _, _, _, _, _, hdata, _⟩ := handleMessage_init_inv env bodyOf payloadOk pc data tail _ _ pc' out res log hm ⟨p, hres⟩
    exact ⟨by rw [hdata]; rfl, p, info, hres, hd⟩
  unfold dispatch at hin
  simp only [hp] at hin
  cases hq : lookupA n.pending s with
  | some pc =>
    rw [hq] at hin
    simp only [] at hin
    rw [applyOutcome_eq] at hin
    have hobj : hsObject o n s = pc := by unfold hsObject; rw [hq]
    cases hm : PeerCrypto.handleMessage env bodyOf payloadOk pc data tail (rndFor o { node := n } s).1 (rndFor o { node := n } s).2.1 with
    | panic => rw [hm] at hin; exact absurd hin hnot
    | err pc' e => rw [hm] at hin; exact absurd hin hnot
    | ok pc' out res log =>
      rw [hm] at hin
      obtain ⟨h1, payload, info, hres, hd⟩ := key pc (storePc { node := n } s false pc') rfl pc' out res log hm hin
      exact ⟨h1, pc', out, res, log, payload, info, by rw [hobj]; exact hm, hres, hd⟩
  | none =>
    rw [hq] at hin
    simp only [] at hin
    have hobj : hsObject o n s = newAttempt n ((rndFor o { node := n } s).2.2.getD []) := by unfold hsObject; rw [hq]
    split at hin
    · unfold responder at hin
      simp only [] at hin
      cases hm : PeerCrypto.handleMessage env bodyOf payloadOk (newAttempt n ((rndFor o { node := n } s).2.2.getD [])) data tail
          (rndFor o { node := n } s).1 (rndFor o { node := n } s).2.1 with
      | panic => rw [hm] at hin; exact absurd hin hnot
      | err pc' e => rw [hm] at hin; exact absurd hin hnot
      | ok pc' out res log =>
        rw [hm] at hin
        obtain ⟨h1, payload, info, hres, hd⟩ := key _ { node := { n with pending := insertA n.pending s pc' } } rfl pc' out res log hm hin
        exact ⟨h1, pc', out, res, log, payload, info, by rw [hobj]; exact hm, hres, hd⟩
    · exact absurd hin hnot

/-! ## `NI` as a predicate on node states, over all steps -/

/-- every handshake object of every session of the node satisfies `P` (of its node id and trusted keys) -/
def NodeP (P : Bytes → List Bytes → Prop) (n : Node) : Prop :=
  (∀ a p, (a, p) ∈ n.peers → SessP P p.crypto) ∧ (∀ a pc, (a, pc) ∈ n.pending → SessP P pc)

theorem NI.of_nodeP {P : Bytes → List Bytes → Prop} (n : Node) (hnew : P n.nodeId n.cfg.trusted) (h : NodeP P n) :
    NI P n.nodeId n.cfg n.addr { node := n } :=
  { nodeId := rfl, cfg := rfl, addr := rfl, new := hnew, peers := h.1, pending := h.2 }

theorem NI.nodeP {P : Bytes → List Bytes → Prop} {N : Bytes} {K : NodeCfg} {A : NAddr} {c : Ctx} (h : NI P N K A c) : NodeP P c.node :=
  ⟨h.peers, h.pending⟩

theorem regular_iff (n : Node) : C08.Regular n ↔ NodeP (fun _ t => t = n.cfg.trusted) n := Iff.rfl

theorem hsObject_cases (o : Oracle) (n : Node) (s : NAddr) :
    lookupA n.pending s = some (hsObject o n s) ∨
    (lookupA n.pending s = none ∧ hsObject o n s = newAttempt n ((rndFor o { node := n } s).2.2.getD [])) := by
  unfold hsObject
  cases lookupA n.pending s with
  | none => exact Or.inr ⟨rfl, rfl⟩
  | some pc => exact Or.inl rfl

theorem hsObject_sessP {P : Bytes → List Bytes → Prop} (o : Oracle) (n : Node) (s : NAddr) (hnew : P n.nodeId n.cfg.trusted) (h : NodeP P n) :
    SessP P (hsObject o n s) := by
  rcases hsObject_cases o n s with h1 | ⟨_, h2⟩
  · exact h.2 s _ (lookupA_some_mem h1)
  · rw [h2]; exact newAttempt_sessP P n _ hnew

/-! ## a handshake datagram of the node itself -/

/-- a session whose handshake object carries node id `N` and trusted keys `T` refuses an accepted handshake message whose salted node-id
    hash was derived from `N`: fatal error if it has a handshake object, state error if it has none; the session is unchanged -/
theorem handleMessage_self (env : CryptoEnv) (bodyOf : Init.BodyOf) (ok : Bytes → Bool) (pc : PeerCrypto) (N : Bytes) (T : List Bytes)
    (rest tail : Bytes) (rnd : Rand) (rr : RotRand) (m : InitMsg) (k salt : Bytes)
    (hid : SessP (fun i t => i = N ∧ t = T) pc) (hne : rest ≠ [])
    (hr : InitMsg.readFrom env rest T = .ok (m, k)) (hs : salt.length = 4) (hh : m.hash = salt ++ env.nodeHash salt N) :
    ∃ e, PeerCrypto.handleMessage env bodyOf ok pc (Generated.INIT_MESSAGE_FIRST_BYTE :: rest) tail rnd rr = .err pc e ∧
      (pc.init.isSome = true → e = .cryptoInitFatal) := by
  have hemp : rest.isEmpty = false := by
    cases rest with
    | nil => exact absurd rfl hne
    | cons => rfl
  rw [handleMessage_eq]
  simp only [if_true, hemp, Bool.false_eq_true, if_false]
  rw [handleInitMessage_eq]
  cases hi : pc.init with
  | none => exact ⟨.state, rfl, fun h => by cases h⟩
  | some ist =>
    obtain ⟨h1, h2⟩ := hid ist hi
    have hsd := C14.self_detect env bodyOf ok ist rest rnd m k salt (by rw [h2]; exact hr) hs (by rw [h1]; exact hh)
    cases hh' : Init.handleInit env bodyOf ok ist rest rnd with
    | panic => rw [hh'] at hsd; exact hsd.elim
    | ok st' x => rw [hh'] at hsd; exact hsd.elim
    | err st' e =>
      rw [hh'] at hsd
      obtain ⟨rfl, rfl⟩ := hsd
      refine ⟨.cryptoInitFatal, ?_, fun _ => rfl⟩
      simp only [hh']
      congr 1
      cases pc
      simp only at hi
      subst hi
      rfl

theorem readFrom_nil (env : CryptoEnv) (T : List Bytes) : InitMsg.readFrom env [] T = .error .parse := rfl

theorem finish_fatal (src : NAddr) (c : Ctx) :
    finish src (c, some .cryptoInitFatal) = ({ c with node := { c.node with pending := eraseA c.node.pending src } }, some .cryptoInitFatal) := rfl

/-- what is left of a step that refused a datagram: nothing but counters and (after a fatal error) the closed attempt of the sender -/
structure Refused (n : Node) (s : NAddr) (r : Ctx × Option InitErr) : Prop where
  panicked : r.1.panicked = false
  outs : r.1.outs = []
  table : r.1.node.table = n.table
  peers : r.1.node.peers.map (·.1) = n.peers.map (·.1)
  own : r.1.node.own = n.own
  pending : r.1.node.pending.map (·.1) = n.pending.map (·.1) ∨
            (r.2 = some .cryptoInitFatal ∧ r.1.node.pending.map (·.1) = (n.pending.map (·.1)).filter (fun b => b ≠ s))

theorem finish_refused (n : Node) (s : NAddr) (c : Ctx) (e : InitErr) (hq : Quiet n c) :
    Refused n s (finish s (c, some e)) ∧ (finish s (c, some e)).2 = some e ∧
    (e = .cryptoInitFatal → lookupA (finish s (c, some e)).1.node.pending s = none) := by
  obtain ⟨h1, h2, h3, h4, h5, h6⟩ := hq
  by_cases he : e = .cryptoInitFatal
  · subst he
    rw [finish_fatal]
    refine ⟨⟨h1, h2, h3, h4, h6, Or.inr ⟨rfl, ?_⟩⟩, rfl, fun _ => lookupA_eraseA_self _ _⟩
    show (eraseA c.node.pending s).map (·.1) = _
    rw [keys_eraseA, h5]
  · rw [finish_of_not_fatal _ _ _ (by intro h; exact he (Option.some.inj h))]
    exact ⟨⟨h1, h2, h3, h4, h6, Or.inl h5⟩, rfl, fun h => absurd h he⟩

/-- a refused datagram; if the pending session of the sender (if any) still has its handshake object, the error is fatal and the attempt closed -/
structure SelfRefused (n : Node) (s : NAddr) (r : Ctx × Option InitErr) : Prop where
  refused : Refused n s r
  closed : (∀ pc, lookupA n.pending s = some pc → pc.init.isSome = true) → r.2 = some .cryptoInitFatal ∧ lookupA r.1.node.pending s = none

/-- the node-level statement before the case distinction on what is known about the sender -/
theorem dispatch_self (env : CryptoEnv) (bodyOf : Init.BodyOf) (o : Oracle) (n : Node) (now : Int) (s : NAddr) (rest tail : Bytes)
    (m : InitMsg) (k salt : Bytes)
    (hid : NodeP (fun i t => i = n.nodeId ∧ t = n.cfg.trusted) n) (hne : rest ≠ [])
    (hr : InitMsg.readFrom env rest n.cfg.trusted = .ok (m, k)) (hs : salt.length = 4) (hh : m.hash = salt ++ env.nodeHash salt n.nodeId) :
    SelfRefused n s (finish s (dispatch env bodyOf o n now s (Generated.INIT_MESSAGE_FIRST_BYTE :: rest) tail)) := by
  -- a stored session
  have stored : ∀ (pc : PeerCrypto) (inPeers : Bool), SessP (fun i t => i = n.nodeId ∧ t = n.cfg.trusted) pc →
      (if inPeers = true then (lookupA n.peers s).isSome = true else (lookupA n.pending s).isSome = true) →
      ∀ rnd rr, ∃ e, (pc.init.isSome = true → e = .cryptoInitFatal) ∧
        Refused n s (finish s (applyOutcome env o { node := n } now s inPeers
          (PeerCrypto.handleMessage env bodyOf payloadOk pc (Generated.INIT_MESSAGE_FIRST_BYTE :: rest) tail rnd rr))) ∧
        (finish s (applyOutcome env o { node := n } now s inPeers
          (PeerCrypto.handleMessage env bodyOf payloadOk pc (Generated.INIT_MESSAGE_FIRST_BYTE :: rest) tail rnd rr))).2 = some e ∧
        (e = .cryptoInitFatal → lookupA (finish s (applyOutcome env o { node := n } now s inPeers
          (PeerCrypto.handleMessage env bodyOf payloadOk pc (Generated.INIT_MESSAGE_FIRST_BYTE :: rest) tail rnd rr))).1.node.pending s = none) := by
    intro pc inPeers hpc hin rnd rr
    obtain ⟨e, hm, hf⟩ := handleMessage_self env bodyOf payloadOk pc n.nodeId n.cfg.trusted rest tail rnd rr m k salt hpc hne hr hs hh
    rw [hm]
    obtain ⟨h2, hq⟩ := applyOutcome_err_quiet env o n now s inPeers pc e hin
    have hpair : applyOutcome env o { node := n } now s inPeers (.err pc e) =
        ((applyOutcome env o { node := n } now s inPeers (.err pc e)).1, some e) := by
      rw [← h2]
    rw [hpair]
    exact ⟨e, hf, finish_refused n s _ e hq⟩
  -- the throw-away responder
  have resp : ∀ rnd rr hash,
      Refused n s (finish s (responder env bodyOf o n now s (Generated.INIT_MESSAGE_FIRST_BYTE :: rest) tail rnd rr hash)) ∧
      (finish s (responder env bodyOf o n now s (Generated.INIT_MESSAGE_FIRST_BYTE :: rest) tail rnd rr hash)).2 = some .cryptoInitFatal ∧
      lookupA (finish s (responder env bodyOf o n now s (Generated.INIT_MESSAGE_FIRST_BYTE :: rest) tail rnd rr hash)).1.node.pending s = none := by
    intro rnd rr hash
    obtain ⟨e, hm, hf⟩ := handleMessage_self env bodyOf payloadOk (newAttempt n (hash.getD [])) n.nodeId n.cfg.trusted rest tail rnd rr m k salt
      (newAttempt_sessP _ n _ ⟨rfl, rfl⟩) hne hr hs hh
    have he : e = .cryptoInitFatal := hf rfl
    subst he
    unfold responder
    simp only [hm]
    have := finish_refused n s (countInvalid { node := n }) .cryptoInitFatal ⟨rfl, rfl, rfl, rfl, rfl, rfl⟩
    exact ⟨this.1, this.2.1, this.2.2 rfl⟩
  unfold dispatch
  simp only [List.head?_cons, if_true]
  cases hp : lookupA n.peers s with
  | some p =>
    have hpm := lookupA_some_mem hp
    cases hq : lookupA n.pending s with
    | some pc =>
      simp only [decide_true, Bool.not_true, Bool.false_eq_true, if_false]
      obtain ⟨e, hf, h1, h2, h3⟩ := stored pc false (hid.2 _ _ (lookupA_some_mem hq)) (by simp [hq]) (rndFor o { node := n } s).1 (rndFor o { node := n } s).2.1
      refine ⟨h1, fun hpend => ?_⟩
      have he := hf (hpend pc hq)
      exact ⟨by rw [h2, he], h3 he⟩
    | none =>
      simp only [decide_true, Bool.not_true, Bool.false_eq_true, if_false]
      by_cases hc : p.crypto.init.isSome = true
      · rw [if_pos hc]
        obtain ⟨e, hf, h1, h2, h3⟩ := stored p.crypto true (hid.1 _ _ hpm) (by simp [hp]) (rndFor o { node := n } s).1 (rndFor o { node := n } s).2.1
        refine ⟨h1, fun _ => ?_⟩
        have he := hf hc
        exact ⟨by rw [h2, he], h3 he⟩
      · rw [if_neg hc]
        have := resp (rndFor o { node := n } s).1 (rndFor o { node := n } s).2.1 (rndFor o { node := n } s).2.2
        exact ⟨this.1, fun _ => this.2⟩
  | none =>
    cases hq : lookupA n.pending s with
    | some pc =>
      simp only []
      obtain ⟨e, hf, h1, h2, h3⟩ := stored pc false (hid.2 _ _ (lookupA_some_mem hq)) (by simp [hq]) (rndFor o { node := n } s).1 (rndFor o { node := n } s).2.1
      refine ⟨h1, fun hpend => ?_⟩
      have he := hf (hpend pc hq)
      exact ⟨by rw [h2, he], h3 he⟩
    | none =>
      simp only []
      have := resp (rndFor o { node := n } s).1 (rndFor o { node := n } s).2.1 (rndFor o { node := n } s).2.2
      exact ⟨this.1, fun _ => this.2⟩

/-! ## what `handle_net_message` does to the table -/

/-- the table of `c` is `t`, or `t` after exactly one table operation for the id of the address `s`:
    a learned address (then `L` holds), announced claims (then `s` is a peer in `c`), or the removal of its entries -/
inductive TblCase (t : Table) (now : Int) (s : NAddr) (L : Prop) (c : Ctx) : Prop
  | same : c.node.table = t → TblCase t now s L c
  | learn (addr : Addr) : c.node.table = t.learn now addr (addrId s) → L → TblCase t now s L c
  | set (cs : List Range) : c.node.table = t.setClaims now (addrId s) cs → s ∈ c.node.peers.map (·.1) → TblCase t now s L c
  | remove : c.node.table = t.removeClaims now (addrId s) → TblCase t now s L c

theorem TblCase.mono {t : Table} {now : Int} {s : NAddr} {L L' : Prop} {c : Ctx} (h : TblCase t now s L c) (hl : L → L') :
    TblCase t now s L' c := by
  cases h with
  | same h => exact .same h
  | learn a h l => exact .learn a h (hl l)
  | set cs h k => exact .set cs h k
  | remove h => exact .remove h

theorem TblCase.of_node {t : Table} {now : Int} {s : NAddr} {L : Prop} {c c' : Ctx} (h : TblCase t now s L c) (hn : c'.node = c.node) :
    TblCase t now s L c' := by
  cases h with
  | same h => exact .same (by rw [hn]; exact h)
  | learn a h l => exact .learn a (by rw [hn]; exact h) l
  | set cs h k => exact .set cs (by rw [hn]; exact h) (by rw [hn]; exact k)
  | remove h => exact .remove (by rw [hn]; exact h)

theorem TblCase.of_table_peers {t : Table} {now : Int} {s : NAddr} {L : Prop} {c c' : Ctx} (h : TblCase t now s L c)
    (ht : c'.node.table = c.node.table) (hp : c'.node.peers = c.node.peers) : TblCase t now s L c' := by
  cases h with
  | same h => exact .same (by rw [ht]; exact h)
  | learn a h l => exact .learn a (by rw [ht]; exact h) l
  | set cs h k => exact .set cs (by rw [ht]; exact h) (by rw [hp]; exact k)
  | remove h => exact .remove (by rw [ht]; exact h)

theorem connectSock_table (env : CryptoEnv) (o : Oracle) (c : Ctx) (a : NAddr) : (connectSock env o c a).node.table = c.node.table := by
  unfold connectSock
  simp only []
  split
  · rfl
  · simp only [newAttempt]; rfl

theorem foldl_table {β} (f : Ctx → β → Ctx) (hf : ∀ c x, (f c x).node.table = c.node.table) :
    ∀ (l : List β) (c : Ctx), (l.foldl f c).node.table = c.node.table
  | [], _ => rfl
  | x :: l, c => (foldl_table f hf l (f c x)).trans (hf c x)

theorem connect_table (env : CryptoEnv) (o : Oracle) (c : Ctx) (l : List NAddr) : (connect env o c l).node.table = c.node.table := by
  unfold connect
  simp only []
  split
  · rfl
  · exact foldl_table _ (connectSock_table env o) _ _

theorem connectToPeers_table (env : CryptoEnv) (o : Oracle) (c : Ctx) (l : List PeerInfo) :
    (connectToPeers env o c l).node.table = c.node.table := by
  unfold connectToPeers
  apply foldl_table
  intro c p
  simp only []
  split
  · rfl
  · split
    · split
      · rfl
      · split
        · rfl
        · exact connect_table env o c _
    · exact connect_table env o c _

theorem updatePeerInfo_tbl (env : CryptoEnv) (o : Oracle) (c : Ctx) (now : Int) (a : NAddr) (info : Option NodeInfo) :
    TblCase c.node.table now a False (updatePeerInfo env o c now a info) := by
  have hk := updatePeerInfo_keys env o c now a info
  unfold updatePeerInfo at hk ⊢
  simp only [] at hk ⊢
  split
  · exact .same rfl
  · rename_i p hp
    have ha : a ∈ c.node.peers.map (·.1) := mem_key (lookupA_some_mem hp)
    rw [hp] at hk
    cases info with
    | none => exact .same rfl
    | some i =>
      simp only [] at hk ⊢
      refine .set i.claims ?_ (by rw [hk]; exact ha)
      rw [connectToPeers_table]

theorem updatePeerInfo_tbl' (env : CryptoEnv) (o : Oracle) (c : Ctx) (now : Int) (a : NAddr) (info : Option NodeInfo) (t : Table)
    (ht : c.node.table = t) : TblCase t now a False (updatePeerInfo env o c now a info) :=
  ht ▸ updatePeerInfo_tbl env o c now a info

theorem addNewPeer_tbl (env : CryptoEnv) (o : Oracle) (c : Ctx) (now : Int) (a : NAddr) (info : NodeInfo) :
    TblCase c.node.table now a False (addNewPeer env o c now a info) := by
  unfold addNewPeer
  simp only []
  split
  · exact .same rfl
  · refine TblCase.of_table_peers (c := updatePeerInfo env o _ now a (some info)) ?_ rfl rfl
    exact updatePeerInfo_tbl' env o _ now a (some info) _ rfl

theorem removePeer_tbl (c : Ctx) (now : Int) (a : NAddr) : TblCase c.node.table now a False (removePeer c now a) := by
  unfold removePeer
  simp only []
  split
  · exact .same rfl
  · exact .remove rfl

/-- `handle_message`: an address is learned only for a payload message, and then the peer list is not changed -/
theorem handleResult_tbl (env : CryptoEnv) (o : Oracle) (c : Ctx) (now : Int) (src : NAddr) (res : MsgResult) (out : Bytes) :
    TblCase c.node.table now src
      ((∃ ty d, res = .message ty d) ∧ (handleResult env o c now src res out).1.node.peers.map (·.1) = c.node.peers.map (·.1))
      (handleResult env o c now src res out).1 := by
  have key : ∀ (L : Prop) (x : Ctx) (e : Option InitErr), TblCase c.node.table now src False x → TblCase c.node.table now src L (x, e).1 :=
    fun _ _ _ h => h.mono False.elim
  cases res with
  | message ty data =>
    unfold handleResult
    simp only []
    split
    · split
      · exact .same rfl
      · split
        · exact .learn _ rfl ⟨⟨_, _, rfl⟩, rfl⟩
        · exact .same rfl
    · split
      · split
        · exact .same rfl
        · exact key _ _ _ (updatePeerInfo_tbl env o c now src _)
      · split
        · exact key _ _ _ (updatePeerInfo_tbl env o c now src _)
        · split
          · exact key _ _ _ (removePeer_tbl c now src)
          · exact .same rfl
  | initialized payload =>
    unfold handleResult
    simp only []
    split
    · exact key _ _ _ (addNewPeer_tbl env o c now src _)
    · exact .same rfl
  | initializedWithReply payload =>
    unfold handleResult
    simp only []
    split
    · exact key _ _ _ ((addNewPeer_tbl env o c now src _).of_node rfl)
    · exact .same rfl
  | reply => exact .same rfl
  | none => exact .same rfl

theorem storePc_table (c : Ctx) (src : NAddr) (inPeers : Bool) (pc : PeerCrypto) : (storePc c src inPeers pc).node.table = c.node.table := by
  unfold storePc
  simp only []
  split
  · split <;> rfl
  · rfl

theorem storePc_keys (c : Ctx) (src : NAddr) (inPeers : Bool) (pc : PeerCrypto) :
    (storePc c src inPeers pc).node.peers.map (·.1) = c.node.peers.map (·.1) := by
  cases inPeers with
  | true => exact storePc_peers_keys c src pc
  | false => rfl

theorem applyOutcome_tbl (env : CryptoEnv) (o : Oracle) (c : Ctx) (now : Int) (src : NAddr) (inPeers : Bool) (r : POutcome MsgResult) :
    TblCase c.node.table now src
      ((∃ pc' out ty d log, r = .ok pc' out (.message ty d) log) ∧
        (applyOutcome env o c now src inPeers r).1.node.peers.map (·.1) = c.node.peers.map (·.1))
      (applyOutcome env o c now src inPeers r).1 := by
  rw [applyOutcome_eq]
  cases r with
  | panic => exact .same rfl
  | err pc e => exact .same (storePc_table c src inPeers pc)
  | ok pc out res log =>
    have h := handleResult_tbl env o (addLog log (storePc c src inPeers pc)) now src res out
    simp only [addLog_node, storePc_table, storePc_keys] at h
    refine h.mono ?_
    rintro ⟨⟨ty, d, rfl⟩, hk⟩
    exact ⟨⟨pc, out, ty, d, log, rfl⟩, hk⟩

/-- the pending session of a sender that is not a peer (if there is one) has no crypto core and is not in unencrypted mode -/
def SenderFresh (n : Node) (s : NAddr) : Prop :=
  ∀ pc, lookupA n.peers s = none → lookupA n.pending s = some pc → pc.unencrypted = false ∧ pc.core = none

theorem freshOut_no_message {ok : Bytes → Bool} {pc' : PeerCrypto} {out : Bytes} {ty : Nat} {d : Bytes} {log : Init.SealLog}
    (h : FreshOut ok (.ok pc' out (.message ty d) log)) : False := by
  rcases h with ⟨h, _⟩ | ⟨p, h | h, _⟩ <;> cases h

theorem responder_tbl (env : CryptoEnv) (bodyOf : Init.BodyOf) (o : Oracle) (n : Node) (now : Int) (src : NAddr) (data tail : Bytes)
    (rnd : Rand) (rr : RotRand) (hash : Option Bytes) (L : Prop) :
    TblCase n.table now src L (responder env bodyOf o n now src data tail rnd rr hash).1 := by
  have hf := handleMessage_fresh env bodyOf payloadOk (newAttempt n (hash.getD [])) data tail rnd rr ⟨rfl, rfl⟩
  unfold responder
  simp only []
  generalize PeerCrypto.handleMessage env bodyOf payloadOk (newAttempt n (hash.getD [])) data tail rnd rr = r at hf
  cases r with
  | panic => exact .same rfl
  | err pc e => exact .same rfl
  | ok pc out res log =>
    have h := handleResult_tbl env o (addLog log { node := { n with pending := insertA n.pending src pc } }) now src res out
    refine h.mono ?_
    rintro ⟨⟨ty, d, rfl⟩, _⟩
    exact (freshOut_no_message hf).elim

/-- `handle_net_message` does at most one table operation, for the id of the sender; routes are set only if the sender is a peer
    afterwards, and (if the pending session of a non-peer sender is fresh) an address is learned only if the sender is a peer -/
theorem dispatch_tbl (env : CryptoEnv) (bodyOf : Init.BodyOf) (o : Oracle) (n : Node) (now : Int) (s : NAddr) (data tail : Bytes) :
    TblCase n.table now s (SenderFresh n s → s ∈ (dispatch env bodyOf o n now s data tail).1.node.peers.map (·.1))
      (dispatch env bodyOf o n now s data tail).1 := by
  -- a session of an address that is a peer
  have peerCase : ∀ (inPeers : Bool) (r : POutcome MsgResult), s ∈ n.peers.map (·.1) →
      TblCase n.table now s (SenderFresh n s → s ∈ (applyOutcome env o { node := n } now s inPeers r).1.node.peers.map (·.1))
        (applyOutcome env o { node := n } now s inPeers r).1 := by
    intro inPeers r hs
    refine (applyOutcome_tbl env o { node := n } now s inPeers r).mono ?_
    rintro ⟨_, hk⟩ _
    rw [hk]; exact hs
  unfold dispatch
  simp only []
  split
  · rename_i p hp
    have hs : s ∈ n.peers.map (·.1) := mem_key (lookupA_some_mem hp)
    split
    · exact peerCase true _ hs
    · split
      · exact peerCase false _ hs
      · split
        · exact peerCase true _ hs
        · exact responder_tbl ..
  · rename_i pc hp hq
    refine (applyOutcome_tbl env o { node := n } now s false _).mono ?_
    rintro ⟨⟨pc', out, ty, d, log, hm⟩, _⟩ hfresh
    have hf := handleMessage_fresh env bodyOf payloadOk pc data tail (rndFor o { node := n } s).1 (rndFor o { node := n } s).2.1 (hfresh pc hp hq)
    rw [hm] at hf
    exact (freshOut_no_message hf).elim
  · split
    · exact responder_tbl ..
    · exact .same rfl

/-! ### entries of the table after one operation -/

theorem loop_mem_old (p : PeerId) (fresh : Int) (es : List ClaimEntry) (cs : List Range) (rm : Bool) :
    ∀ x ∈ (Table.setClaimsLoop p fresh es cs rm).1, x ∈ es ∨ x.peer = p := by
  induction es generalizing cs rm with
  | nil => intro x hx; simp [Table.setClaimsLoop] at hx
  | cons e es ih =>
    rw [TableLemmas.loop_cons]
    intro x hx
    split at hx
    · rename_i hep
      split at hx
      · rcases List.mem_cons.1 hx with rfl | hx
        · exact Or.inr hep
        · exact (ih _ _ x hx).imp (List.mem_cons_of_mem _) id
      · rcases List.mem_cons.1 hx with rfl | hx
        · exact Or.inr hep
        · exact (ih _ _ x hx).imp (List.mem_cons_of_mem _) id
    · rcases List.mem_cons.1 hx with rfl | hx
      · exact Or.inl List.mem_cons_self
      · exact (ih _ _ x hx).imp (List.mem_cons_of_mem _) id

theorem setClaims_claims_mem (t : Table) (now : Int) (p : PeerId) (cs : List Range) (e : ClaimEntry) (he : e ∈ (t.setClaims now p cs).claims) :
    e ∈ t.claims ∨ e.peer = p := by
  rw [C12.setClaims_claims, List.mem_filter, List.mem_append] at he
  rcases he.1 with he | he
  · exact loop_mem_old _ _ _ _ _ e he
  · rcases List.mem_map.1 he with ⟨c, _, rfl⟩
    exact Or.inr rfl

theorem setClaims_cache_mem (t : Table) (now : Int) (p : PeerId) (cs : List Range) (v : CacheEntry) (hv : v ∈ (t.setClaims now p cs).cache) :
    v ∈ t.cache ∨ v.peer = p := by
  rw [C12.setClaims_cache, List.mem_filter] at hv
  have hv1 := hv.1
  split at hv1
  · rcases List.mem_map.1 hv1 with ⟨w, hw, rfl⟩
    by_cases hwp : w.peer = p
    · rw [if_pos hwp]; exact Or.inr hwp
    · rw [if_neg hwp]; exact Or.inl hw
  · exact Or.inl hv1

theorem learn_cache_mem (t : Table) (now : Int) (addr : Addr) (p : PeerId) (v : CacheEntry) (hv : v ∈ (t.learn now addr p).cache) :
    v ∈ t.cache ∨ v.peer = p := by
  rcases List.mem_cons.1 hv with rfl | hv
  · exact Or.inr rfl
  · exact Or.inl (List.mem_filter.1 hv).1

/-! ## own addresses and dialled addresses -/

theorem mappedAddr_idem (a : NAddr) : mappedAddr (mappedAddr a) = mappedAddr a := by
  cases a <;> rfl

theorem not_mem_of_contains_false {own : List NAddr} {a : NAddr} (h : own.contains a = false) : a ∉ own := by
  intro hm
  have := List.contains_iff_mem.2 hm
  rw [h] at this
  cases this

/-- the own-address list after adopting the addresses `l` -/
theorem mem_foldl_adopt (l own : List NAddr) (x : NAddr) :
    x ∈ l.foldl (fun own a => if own.contains a then own else own ++ [a]) own ↔ x ∈ own ∨ x ∈ l := by
  induction l generalizing own with
  | nil => simp
  | cons a l ih =>
    rw [List.foldl_cons, ih]
    by_cases h : own.contains a = true
    · rw [if_pos h]
      have : a ∈ own := List.contains_iff_mem.1 h
      grind
    · rw [if_neg h]
      grind

/-- a dial: a handshake datagram to an address that satisfies `D` -/
def IsDialTo (D : NAddr → Prop) (x : Out) : Prop := ∃ d b, x = .dgram d (Generated.INIT_MESSAGE_FIRST_BYTE :: b) ∧ D d

/-- `c'` extends `c` by dials to addresses that satisfy `D`: all new outputs are such handshake datagrams, all new keys of `pending` satisfy `D` -/
structure Dials (D : NAddr → Prop) (c c' : Ctx) : Prop where
  outs : Ext (IsDialTo D) c.outs c'.outs
  pending : ∀ a, a ∈ c'.node.pending.map (·.1) → a ∈ c.node.pending.map (·.1) ∨ D a

theorem Dials.refl (D : NAddr → Prop) (c : Ctx) : Dials D c c := ⟨Ext.refl _ _, fun _ h => Or.inl h⟩

theorem Dials.trans {D : NAddr → Prop} {c1 c2 c3 : Ctx} (h1 : Dials D c1 c2) (h2 : Dials D c2 c3) : Dials D c1 c3 :=
  ⟨h1.outs.trans h2.outs, fun a h => (h2.pending a h).elim (h1.pending a) Or.inr⟩

theorem Dials.mono {D D' : NAddr → Prop} {c c' : Ctx} (h : Dials D c c') (hd : ∀ d, D d → D' d) : Dials D' c c' :=
  ⟨h.outs.mono (fun _ ⟨d, b, hx, hD⟩ => ⟨d, b, hx, hd d hD⟩), fun a ha => (h.pending a ha).imp id (hd a)⟩

/-- `connect_sock` dials at most its (mapped) argument, and only if that is neither an own address, nor a peer, nor being dialled -/
theorem connectSock_dials (env : CryptoEnv) (o : Oracle) (c : Ctx) (a0 : NAddr) :
    Dials (fun d => d = mappedAddr a0 ∧ d ∉ c.node.own ∧ d ∉ c.node.peers.map (·.1) ∧ d ∉ c.node.pending.map (·.1)) c (connectSock env o c a0) := by
  unfold connectSock
  simp only []
  split
  · exact Dials.refl _ _
  · rename_i hc
    simp only [Bool.or_eq_true, not_or, Bool.not_eq_true] at hc
    have h1 : mappedAddr a0 ∉ c.node.peers.map (·.1) := by
      rw [← lookupA_none_iff]
      cases hl : lookupA c.node.peers (mappedAddr a0) with
      | none => rfl
      | some p => rw [hl] at hc; cases hc.1.1
    have h2 : mappedAddr a0 ∉ c.node.own := not_mem_of_contains_false hc.1.2
    have h3 : mappedAddr a0 ∉ c.node.pending.map (·.1) := by
      rw [← lookupA_none_iff]
      cases hl : lookupA c.node.pending (mappedAddr a0) with
      | none => rfl
      | some p => rw [hl] at hc; cases hc.2
    simp only [newAttempt]
    refine ⟨Ext.snoc _ ⟨_, _, rfl, rfl, h2, h1, h3⟩, ?_⟩
    intro a ha
    have ha' : a ∈ (insertA c.node.pending (mappedAddr a0) _).map (·.1) := ha
    rcases key_mem_insertA ha' with rfl | ha'
    · exact Or.inr ⟨rfl, h2, h1, h3⟩
    · exact Or.inl ha'

theorem connectSock_own (env : CryptoEnv) (o : Oracle) (c : Ctx) (a : NAddr) : (connectSock env o c a).node.own = c.node.own := by
  unfold connectSock
  simp only []
  split
  · rfl
  · simp only [newAttempt]; rfl

theorem foldl_inv_mem {β} (P : Ctx → Prop) (f : Ctx → β → Ctx) :
    ∀ (l : List β), (∀ c x, x ∈ l → P c → P (f c x)) → ∀ c, P c → P (l.foldl f c)
  | [], _, _, h => h
  | x :: l, hf, c, h =>
    foldl_inv_mem P f l (fun c y hy => hf c y (List.mem_cons_of_mem _ hy)) (f c x) (hf c x List.mem_cons_self h)

/-- `connect` dials only (mapped) addresses from its argument, none of which is an own address; the own addresses are not changed -/
theorem connect_dials (env : CryptoEnv) (o : Oracle) (c : Ctx) (l : List NAddr) :
    Dials (fun d => d ∈ l.map mappedAddr ∧ d ∉ c.node.own) c (connect env o c l) ∧ (connect env o c l).node.own = c.node.own := by
  unfold connect
  simp only []
  split
  · exact ⟨Dials.refl _ _, rfl⟩
  · apply foldl_inv_mem (fun c' => Dials (fun d => d ∈ l.map mappedAddr ∧ d ∉ c.node.own) c c' ∧ c'.node.own = c.node.own)
    · intro c' x hx hc'
      refine ⟨hc'.1.trans ((connectSock_dials env o c' x).mono ?_), (connectSock_own env o c' x).trans hc'.2⟩
      rintro d ⟨rfl, hd, _, _⟩
      refine ⟨?_, by rw [← hc'.2]; exact hd⟩
      rcases List.mem_map.1 hx with ⟨y, hy, rfl⟩
      rw [mappedAddr_idem]
      exact List.mem_map.2 ⟨y, hy, rfl⟩
    · exact ⟨Dials.refl _ _, rfl⟩

theorem NI.triv (c : Ctx) : NI (fun _ _ => True) c.node.nodeId c.node.cfg c.node.addr c :=
  { nodeId := rfl, cfg := rfl, addr := rfl, new := trivial, peers := fun _ _ _ _ _ => trivial, pending := fun _ _ _ _ _ => trivial }

theorem connectToPeers_cons (env : CryptoEnv) (o : Oracle) (c : Ctx) (p : PeerInfo) (ps : List PeerInfo) :
    connectToPeers env o c (p :: ps) = connectToPeers env o (connectToPeers env o c [p]) ps := rfl

/-- one entry of `connect_to_peers`: what is dialled comes from an entry that does not carry the node's own id and is not an own address;
    own addresses only grow; the node id stays -/
theorem connectToPeers_one (env : CryptoEnv) (o : Oracle) (c : Ctx) (p : PeerInfo) :
    Dials (fun d => d ∉ c.node.own ∧ p.nodeId ≠ some c.node.nodeId ∧ d ∈ p.addrs.map mappedAddr) c (connectToPeers env o c [p]) ∧
    (∀ a ∈ c.node.own, a ∈ (connectToPeers env o c [p]).node.own) ∧ (connectToPeers env o c [p]).node.nodeId = c.node.nodeId := by
  have hcon : ∀ (hne : p.nodeId ≠ some c.node.nodeId),
      Dials (fun d => d ∉ c.node.own ∧ p.nodeId ≠ some c.node.nodeId ∧ d ∈ p.addrs.map mappedAddr) c (connect env o c p.addrs) ∧
      (∀ a ∈ c.node.own, a ∈ (connect env o c p.addrs).node.own) ∧ (connect env o c p.addrs).node.nodeId = c.node.nodeId := by
    intro hne
    obtain ⟨h1, h2⟩ := connect_dials env o c p.addrs
    refine ⟨h1.mono (fun d hd => ⟨hd.2, hne, hd.1⟩), fun a ha => by rw [h2]; exact ha, ?_⟩
    exact (connect_NI env o c p.addrs (NI.triv c)).nodeId
  unfold connectToPeers
  simp only [List.foldl_cons, List.foldl_nil]
  split
  · exact ⟨Dials.refl _ _, fun a ha => ha, rfl⟩
  · split
    · rename_i id hid
      split
      · refine ⟨⟨Ext.refl _ _, fun a ha => Or.inl ha⟩, fun a ha => ?_, rfl⟩
        show a ∈ p.addrs.foldl (fun own a => if own.contains a then own else own ++ [a]) c.node.own
        rw [mem_foldl_adopt]; exact Or.inl ha
      · rename_i hne
        split
        · exact ⟨Dials.refl _ _, fun a ha => ha, rfl⟩
        · exact hcon (by rw [hid]; intro h; exact hne (Option.some.inj h))
    · rename_i hnone
      exact hcon (by rw [hnone]; intro h; cases h)

/-- **the whole of `connect_to_peers`**: every address it dials is the (mapped) address of an entry that does not carry the node's own id,
    and was not an own address when `connect_to_peers` began -/
theorem connectToPeers_dials (env : CryptoEnv) (o : Oracle) (infos : List PeerInfo) : ∀ (c : Ctx),
    Dials (fun d => d ∉ c.node.own ∧ ∃ pi ∈ infos, pi.nodeId ≠ some c.node.nodeId ∧ d ∈ pi.addrs.map mappedAddr) c (connectToPeers env o c infos) ∧
    (∀ a ∈ c.node.own, a ∈ (connectToPeers env o c infos).node.own) ∧ (connectToPeers env o c infos).node.nodeId = c.node.nodeId := by
  induction infos with
  | nil => intro c; exact ⟨Dials.refl _ _, fun a ha => ha, rfl⟩
  | cons p ps ih =>
    intro c
    rw [connectToPeers_cons]
    obtain ⟨h1, h2, h3⟩ := connectToPeers_one env o c p
    obtain ⟨k1, k2, k3⟩ := ih (connectToPeers env o c [p])
    refine ⟨(h1.mono ?_).trans (k1.mono ?_), fun a ha => k2 a (h2 a ha), k3.trans h3⟩
    · rintro d ⟨hd, hne, hm⟩
      exact ⟨hd, p, List.mem_cons_self, hne, hm⟩
    · rintro d ⟨hd, pi, hpi, hne, hm⟩
      exact ⟨fun hc => hd (h2 d hc), pi, List.mem_cons_of_mem _ hpi, by rw [← h3]; exact hne, hm⟩

/-- an entry that carries the node's own id, none of whose addresses is a peer address: nothing but `own` changes -/
theorem connectToPeers_own_entry (env : CryptoEnv) (o : Oracle) (c : Ctx) (pi : PeerInfo) (hid : pi.nodeId = some c.node.nodeId)
    (hnp : ∀ a ∈ pi.addrs, a ∉ c.node.peers.map (·.1)) :
    connectToPeers env o c [pi] =
      { c with node := { c.node with own := pi.addrs.foldl (fun own a => if own.contains a then own else own ++ [a]) c.node.own } } := by
  have hg : pi.addrs.any (fun a => (lookupA c.node.peers a).isSome) = false := by
    rw [List.any_eq_false]
    intro a ha
    rw [lookupA_isSome_iff]
    exact hnp a ha
  unfold connectToPeers
  simp only [List.foldl_cons, List.foldl_nil, hg, hid, Bool.false_eq_true, if_false, if_true]

/-- … and in the whole fold: the addresses of every such entry are own addresses afterwards -/
theorem connectToPeers_adopts (env : CryptoEnv) (o : Oracle) (infos : List PeerInfo) : ∀ (c : Ctx) (pi : PeerInfo), pi ∈ infos →
    pi.nodeId = some c.node.nodeId → (∀ a ∈ pi.addrs, a ∉ c.node.peers.map (·.1)) →
    ∀ a ∈ pi.addrs, a ∈ (connectToPeers env o c infos).node.own := by
  induction infos with
  | nil => intro c pi hpi; cases hpi
  | cons p ps ih =>
    intro c pi hpi hid hnp a ha
    rw [connectToPeers_cons]
    obtain ⟨_, h2, h3⟩ := connectToPeers_one env o c p
    rcases List.mem_cons.1 hpi with rfl | hpi
    · apply (connectToPeers_dials env o ps _).2.1
      rw [connectToPeers_own_entry env o c pi hid hnp]
      show a ∈ pi.addrs.foldl (fun own a => if own.contains a then own else own ++ [a]) c.node.own
      rw [mem_foldl_adopt]; exact Or.inr ha
    · exact ih (connectToPeers env o c [p]) pi hpi (by rw [h3]; exact hid) (by rw [connectToPeers_peers]; exact hnp) a ha

/-! ## new pending attempts are not for own addresses -/

/-- the addresses `own0` are still own addresses, and every pending attempt was pending before (`pend0`), is for the address `s`,
    or is for an address outside `own0` -/
structure PK (own0 pend0 : List NAddr) (s : Option NAddr) (c : Ctx) : Prop where
  own : ∀ a ∈ own0, a ∈ c.node.own
  pending : ∀ a, a ∈ c.node.pending.map (·.1) → a ∈ pend0 ∨ some a = s ∨ a ∉ own0

section PKsec
variable {own0 pend0 : List NAddr} {s : Option NAddr}

theorem PK.step {c c' : Ctx} (h : PK own0 pend0 s c) (ho : ∀ a ∈ c.node.own, a ∈ c'.node.own)
    (hp : ∀ a, a ∈ c'.node.pending.map (·.1) → a ∈ c.node.pending.map (·.1) ∨ some a = s ∨ a ∉ c.node.own) : PK own0 pend0 s c' :=
  ⟨fun a ha => ho a (h.own a ha),
   fun a ha => (hp a ha).elim (h.pending a)
     (fun h' => h'.elim (fun e => Or.inr (Or.inl e)) (fun hn => Or.inr (Or.inr (fun hc => hn (h.own a hc)))))⟩

theorem PK.of_dials {c c' : Ctx} (h : PK own0 pend0 s c) (hd : Dials (fun d => d ∉ c.node.own) c c')
    (ho : ∀ a ∈ c.node.own, a ∈ c'.node.own) : PK own0 pend0 s c' :=
  h.step ho (fun a ha => (hd.pending a ha).imp id Or.inr)

theorem PK.same {c c' : Ctx} (h : PK own0 pend0 s c) (ho : c'.node.own = c.node.own) (hp : c'.node.pending = c.node.pending) :
    PK own0 pend0 s c' :=
  h.step (fun a ha => by rw [ho]; exact ha) (fun a ha => Or.inl (by rw [← hp]; exact ha))

theorem connectSock_PK (env : CryptoEnv) (o : Oracle) (c : Ctx) (a : NAddr) (h : PK own0 pend0 s c) : PK own0 pend0 s (connectSock env o c a) :=
  h.of_dials ((connectSock_dials env o c a).mono (fun _ hd => hd.2.1)) (fun b hb => by rw [connectSock_own]; exact hb)

theorem connect_PK (env : CryptoEnv) (o : Oracle) (c : Ctx) (l : List NAddr) (h : PK own0 pend0 s c) : PK own0 pend0 s (connect env o c l) :=
  h.of_dials ((connect_dials env o c l).1.mono (fun _ hd => hd.2)) (fun b hb => by rw [(connect_dials env o c l).2]; exact hb)

theorem connectToPeers_PK (env : CryptoEnv) (o : Oracle) (c : Ctx) (l : List PeerInfo) (h : PK own0 pend0 s c) :
    PK own0 pend0 s (connectToPeers env o c l) :=
  h.of_dials ((connectToPeers_dials env o l c).1.mono (fun _ hd => hd.1)) (connectToPeers_dials env o l c).2.1

theorem updatePeerInfo_PK (env : CryptoEnv) (o : Oracle) (c : Ctx) (now : Int) (a : NAddr) (info : Option NodeInfo)
    (h : PK own0 pend0 s c) : PK own0 pend0 s (updatePeerInfo env o c now a info) := by
  unfold updatePeerInfo
  simp only []
  split
  · exact h
  · cases info with
    | none => exact h.same rfl rfl
    | some i =>
      apply connectToPeers_PK
      exact h.same rfl rfl

theorem addNewPeer_PK (env : CryptoEnv) (o : Oracle) (c : Ctx) (now : Int) (a : NAddr) (info : NodeInfo)
    (h : PK own0 pend0 s c) : PK own0 pend0 s (addNewPeer env o c now a info) := by
  unfold addNewPeer
  simp only []
  split
  · exact h
  · refine PK.step (c := updatePeerInfo env o _ now a (some info)) ?_ (fun _ ha => ha) (fun _ ha => Or.inl ha)
    apply updatePeerInfo_PK
    exact h.step (fun b hb => hb) (fun b hb => Or.inl (key_mem_eraseA hb))

theorem removePeer_PK (c : Ctx) (now : Int) (a : NAddr) (h : PK own0 pend0 s c) : PK own0 pend0 s (removePeer c now a) := by
  unfold removePeer
  simp only []
  split
  · exact h
  · exact h.same rfl rfl

theorem handleResult_PK (env : CryptoEnv) (o : Oracle) (c : Ctx) (now : Int) (src : NAddr) (res : MsgResult) (out : Bytes)
    (h : PK own0 pend0 s c) : PK own0 pend0 s (handleResult env o c now src res out).1 := by
  have key : ∀ (x : Ctx) (e : Option InitErr), PK own0 pend0 s x → PK own0 pend0 s (x, e).1 := fun _ _ h => h
  unfold handleResult
  cases res with
  | message ty data =>
    simp only []
    split
    · split
      · exact h
      · split
        · exact h.same rfl rfl
        · exact h.same rfl rfl
    · split
      · split
        · exact h.same rfl rfl
        · exact key _ _ (updatePeerInfo_PK env o c now src _ h)
      · split
        · exact key _ _ (updatePeerInfo_PK env o c now src _ h)
        · split
          · exact removePeer_PK c now src h
          · exact h.same rfl rfl
  | initialized payload =>
    simp only []
    split
    · exact addNewPeer_PK env o c now src _ h
    · exact h
  | initializedWithReply payload =>
    simp only []
    split
    · exact (addNewPeer_PK env o c now src _ h).same rfl rfl
    · exact h
  | reply => exact h.same rfl rfl
  | none => exact h

theorem storePc_PK (c : Ctx) (src : NAddr) (inPeers : Bool) (pc : PeerCrypto) (h : PK own0 pend0 (some src) c) :
    PK own0 pend0 (some src) (storePc c src inPeers pc) := by
  unfold storePc
  simp only []
  split
  · split
    · exact h.same rfl rfl
    · exact h
  · refine h.step (fun b hb => hb) ?_
    intro b hb
    have hb' : b ∈ (insertA c.node.pending src pc).map (·.1) := hb
    rcases key_mem_insertA hb' with rfl | hb'
    · exact Or.inr (Or.inl rfl)
    · exact Or.inl hb'

theorem applyOutcome_PK (env : CryptoEnv) (o : Oracle) (c : Ctx) (now : Int) (src : NAddr) (inPeers : Bool) (r : POutcome MsgResult)
    (h : PK own0 pend0 (some src) c) : PK own0 pend0 (some src) (applyOutcome env o c now src inPeers r).1 := by
  rw [applyOutcome_eq]
  cases r with
  | panic => exact h.same rfl rfl
  | err pc e => exact (storePc_PK c src inPeers pc h).same rfl rfl
  | ok pc out res log =>
    apply handleResult_PK
    exact (storePc_PK c src inPeers pc h).same rfl rfl

theorem responder_PK (env : CryptoEnv) (bodyOf : Init.BodyOf) (o : Oracle) (n : Node) (now : Int) (src : NAddr) (data tail : Bytes)
    (rnd : Rand) (rr : RotRand) (hash : Option Bytes) (h : PK own0 pend0 (some src) { node := n }) :
    PK own0 pend0 (some src) (responder env bodyOf o n now src data tail rnd rr hash).1 := by
  unfold responder
  simp only []
  split
  · apply handleResult_PK
    refine h.step (fun b hb => hb) ?_
    intro b hb
    rename_i pc' _ _ _ _
    have hb' : b ∈ (insertA n.pending src pc').map (·.1) := hb
    rcases key_mem_insertA hb' with rfl | hb'
    · exact Or.inr (Or.inl rfl)
    · exact Or.inl hb'
  · exact h.same rfl rfl
  · exact h.same rfl rfl

theorem dispatch_PK (env : CryptoEnv) (bodyOf : Init.BodyOf) (o : Oracle) (n : Node) (now : Int) (src : NAddr) (data tail : Bytes)
    (h : PK own0 pend0 (some src) { node := n }) : PK own0 pend0 (some src) (dispatch env bodyOf o n now src data tail).1 := by
  unfold dispatch
  simp only []
  split
  · split
    · exact applyOutcome_PK env o _ now src true _ h
    · split
      · exact applyOutcome_PK env o _ now src false _ h
      · split
        · exact applyOutcome_PK env o _ now src true _ h
        · exact responder_PK env bodyOf o n now src data tail _ _ _ h
  · exact applyOutcome_PK env o _ now src false _ h
  · split
    · exact responder_PK env bodyOf o n now src data tail _ _ _ h
    · exact h.same rfl rfl

theorem finish_PK (src : NAddr) (r : Ctx × Option InitErr) (h : PK own0 pend0 s r.1) : PK own0 pend0 s (finish src r).1 := by
  unfold finish
  split
  · exact h.step (fun b hb => hb) (fun b hb => Or.inl (key_mem_eraseA hb))
  · exact h

theorem PK.init (n : Node) (s : Option NAddr) : PK n.own (n.pending.map (·.1)) s { node := n } :=
  ⟨fun _ ha => ha, fun _ ha => Or.inl ha⟩

theorem sendMsg_PK (o : Oracle) (c : Ctx) (a : NAddr) (ty : Nat) (body : Bytes) (h : PK own0 pend0 s c) :
    PK own0 pend0 s ((sendMsg o c a ty body).getD c) := by
  unfold sendMsg
  split
  · exact h
  · simp only []
    split
    · simp only [Option.getD_some]
      exact h.same rfl rfl
    · exact h

theorem broadcastMsg_PK (o : Oracle) (c : Ctx) (ty : Nat) (body : Bytes) (h : PK own0 pend0 s c) : PK own0 pend0 s (broadcastMsg o c ty body) := by
  unfold broadcastMsg
  exact foldl_inv (PK own0 pend0 s) _ (fun c a hc => sendMsg_PK o c a ty body hc) _ _ h

theorem cryptoHousekeep_PK (env : CryptoEnv) (o : Oracle) (c : Ctx) (now : Int) (h : PK own0 pend0 s c) : PK own0 pend0 s (cryptoHousekeep env o c now) := by
  unfold cryptoHousekeep
  apply foldl_inv (PK own0 pend0 s)
  · intro c a hc
    split
    · exact hc
    · split
      split
      · apply connectSock_PK
        exact hc.same rfl rfl
      · exact hc.same rfl rfl
      · split
        · exact hc.same rfl rfl
        · exact hc.same rfl rfl
  · apply foldl_inv (PK own0 pend0 s)
    · intro c a hc
      split
      · exact hc
      · rename_i pc hp
        have hk : a ∈ c.node.pending.map (·.1) := mem_key (lookupA_some_mem hp)
        split
        split
        · exact hc.step (fun b hb => hb) (fun b hb => Or.inl (key_mem_eraseA hb))
        · exact hc.same rfl rfl
        · rename_i pc' out res log _
          have hins : PK own0 pend0 s (addLog log { c with node := { c.node with pending := insertA c.node.pending a pc' } }) := by
            refine hc.step (fun b hb => hb) ?_
            intro b hb
            have hb' : b ∈ (insertA c.node.pending a pc').map (·.1) := hb
            rcases key_mem_insertA hb' with rfl | hb'
            · exact Or.inl hk
            · exact Or.inl hb'
          split
          · exact hins.same rfl rfl
          · exact hins
    · exact h

theorem reconnectToPeers_PK (env : CryptoEnv) (o : Oracle) (c : Ctx) (now : Int) (h : PK own0 pend0 s c) : PK own0 pend0 s (reconnectToPeers env o c now) := by
  unfold reconnectToPeers
  simp only []
  have h1 : PK own0 pend0 s (c.node.reconnect.foldl (fun c e => if Generated.reconnectNotDue e.next now then c else connect env o c e.resolved) c) := by
    apply foldl_inv (PK own0 pend0 s) _ _ _ _ h
    intro c e hc
    split
    · exact hc
    · exact connect_PK env o c _ hc
  exact h1.same rfl rfl

theorem hkDead_PK (env : CryptoEnv) (o : Oracle) (n : Node) (now : Int) (h : PK own0 pend0 s { node := n }) : PK own0 pend0 s (hkDead env o n now) := by
  unfold hkDead
  apply foldl_inv (PK own0 pend0 s) _ _ _ _ h
  intro c a hc
  apply connectSock_PK
  exact hc.same rfl rfl

theorem hkAnnounce_PK (o : Oracle) (c : Ctx) (now : Int) (h : PK own0 pend0 s c) : PK own0 pend0 s (hkAnnounce o c now) := by
  unfold hkAnnounce
  split
  · simp only []
    have hb := broadcastMsg_PK o c Generated.MESSAGE_TYPE_NODE_INFO (Codec.encodeNodeInfo (createNodeInfo c.node)) h
    split
    · exact hb.same rfl rfl
    · exact hb.same rfl rfl
  · exact h

theorem hkOwn_pending (c : Ctx) (now : Int) : (hkOwn c now).node.pending = c.node.pending := by
  unfold hkOwn
  split <;> rfl

/-- `housekeep` up to (not including) the reset of the own addresses -/
theorem housekeep_PK (env : CryptoEnv) (o : Oracle) (n : Node) (now : Int) :
    ∀ a, a ∈ (housekeep env o n now).node.pending.map (·.1) → a ∈ n.pending.map (·.1) ∨ a ∉ n.own := by
  intro a ha
  rw [housekeep_eq, hkOwn_pending] at ha
  have h : PK n.own (n.pending.map (·.1)) none
      (reconnectToPeers env o (hkAnnounce o (cryptoHousekeep env o (hkSweep (hkDead env o n now) now) now) now) now) := by
    apply reconnectToPeers_PK
    apply hkAnnounce_PK
    apply cryptoHousekeep_PK
    exact (hkDead_PK env o n now (PK.init n none)).same rfl rfl
  rcases h.pending a ha with h1 | h1 | h1
  · exact Or.inl h1
  · cases h1
  · exact Or.inr h1

end PKsec

/-! ## every pending session has a live handshake object -/

/-- a handshake object that is neither closing nor waiting to close -/
def LiveSt (i : InitSt) : Prop := i.stage ≠ Generated.CLOSING ∧ i.stage ≠ Generated.WAITING_TO_CLOSE

/-- the session has a handshake object, and it is live -/
def LivePC (pc : PeerCrypto) : Prop := ∃ i, pc.init = some i ∧ LiveSt i

theorem LivePC.of_init {pc pc' : PeerCrypto} (h : LivePC pc) (hi : pc'.init = pc.init) : LivePC pc' := by
  obtain ⟨i, h1, h2⟩ := h
  exact ⟨i, hi.trans h1, h2⟩

theorem LivePC.isSome {pc : PeerCrypto} (h : LivePC pc) : pc.init.isSome = true := by
  obtain ⟨i, h1, _⟩ := h
  rw [h1]; rfl

def LiveRes (st0 : InitSt) : Res → Prop
  | .panic => True
  | .err st' _ => st'.stage = st0.stage
  | .ok st' (_, .continue, _) => LiveSt st'
  | .ok _ (_, .success _ _, _) => True

theorem handleMsg_live (env : CryptoEnv) (bodyOf : Init.BodyOf) (ok : Bytes → Bool) (st0 : InitSt) (msg : InitMsg) (rnd : Rand) :
    LiveRes st0 (handleMsg env bodyOf ok st0 msg rnd) := by
  cases msg with
  | ping h ecdh algos =>
    simp only [handleMsg]
    split
    · exact rfl
    · split <;> exact ⟨(by decide : Generated.STAGE_PENG ≠ Generated.CLOSING), (by decide : Generated.STAGE_PENG ≠ Generated.WAITING_TO_CLOSE)⟩
  | pong h ecdh algos payload =>
    simp only [handleMsg]
    split
    · trivial
    · split
      · exact rfl
      · split
        · rename_i st5 hd
          exact (decryptPayload_stage _ _ _ _ _ hd).trans (pongSt_stage ..)
        · rename_i st5 p hd
          split
          · exact (decryptPayload_stage _ _ _ _ _ hd).trans (pongSt_stage ..)
          · trivial
  | peng h payload =>
    simp only [handleMsg]
    split
    · rename_i st2 hd
      exact decryptPayload_stage { st0 with retries := 0 } _ _ _ _ hd
    · rename_i st2 p hd
      split
      · exact decryptPayload_stage { st0 with retries := 0 } _ _ _ _ hd
      · trivial

def LiveInit : Res → Prop
  | .panic => True
  | .err st' e => e = .cryptoInitFatal ∨ LiveSt st'
  | .ok st' (_, .continue, _) => LiveSt st'
  | .ok _ (_, .success _ _, _) => True

theorem LiveRes.toInit {st0 : InitSt} {r : Res} (h : LiveRes st0 r) (hl : LiveSt st0) : LiveInit r := by
  cases r with
  | panic => trivial
  | err st' e =>
    have h' : st'.stage = st0.stage := h
    exact Or.inr ⟨by rw [h']; exact hl.1, by rw [h']; exact hl.2⟩
  | ok st' x =>
    obtain ⟨out, res, log⟩ := x
    cases res with
    | «continue» => exact h
    | success p b => trivial

theorem handleInit_live (env : CryptoEnv) (bodyOf : Init.BodyOf) (ok : Bytes → Bool) (st : InitSt) (w : Bytes) (rnd : Rand)
    (hl : LiveSt st) : LiveInit (Init.handleInit env bodyOf ok st w rnd) := by
  rw [handleInit_eq]
  split
  · exact Or.inr hl
  · split
    · exact Or.inl rfl
    · split
      · rename_i o ho
        rcases stageCheck_inr' _ _ _ _ ho with ⟨x, rfl⟩ | rfl
        · exact hl
        · exact Or.inl rfl
      · trivial
      · rename_i st0 ho
        rcases stageCheck_inl _ _ _ _ ho with ⟨h1, _⟩ | ⟨h1, _⟩
        · simp only [Option.some.injEq] at h1
          subst h1
          exact (handleMsg_live ..).toInit hl
        · simp only [Option.some.injEq] at h1
          subst h1
          exact (handleMsg_live env bodyOf ok { st with stage := Generated.STAGE_PING, last := none, ecdh := none } _ rnd).toInit
            ⟨(by decide : Generated.STAGE_PING ≠ Generated.CLOSING), (by decide : Generated.STAGE_PING ≠ Generated.WAITING_TO_CLOSE)⟩

/-- what the session layer returns for a session with a live handshake object -/
def LiveOut (ok : Bytes → Bool) : POutcome MsgResult → Prop
  | .panic => True
  | .err pc' e => e = .cryptoInitFatal ∨ LivePC pc'
  | .ok pc' _ res _ => (¬ IsInitRes res ∧ LivePC pc') ∨ (∃ p, (res = .initialized p ∨ res = .initializedWithReply p) ∧ ok p = true)

theorem handleInitMessage_live (env : CryptoEnv) (bodyOf : Init.BodyOf) (ok : Bytes → Bool) (pc : PeerCrypto) (w : Bytes) (rnd : Rand) (rr : RotRand)
    (hp : LivePC pc) : LiveOut ok (PeerCrypto.handleInitMessage env bodyOf ok pc w rnd rr) := by
  rw [handleInitMessage_eq]
  obtain ⟨ist, hi, hl⟩ := hp
  rw [hi]
  simp only []
  have hg := handleInit_live env bodyOf ok ist w rnd hl
  cases hr : Init.handleInit env bodyOf ok ist w rnd with
  | panic => trivial
  | err ist' e =>
    rw [hr] at hg
    exact hg.imp id (fun h => ⟨ist', rfl, h⟩)
  | ok ist' x =>
    obtain ⟨out, res, ilog⟩ := x
    rw [hr] at hg
    cases res with
    | «continue» =>
      refine Or.inl ⟨?_, ist', rfl, hg⟩
      rintro ⟨p, hp | hp⟩ <;> cases hp
    | success payload isInit =>
      have hok := handleInit_success_ok env bodyOf ok ist ist' w rnd out payload isInit ilog hr
      have hc := successOut_cases (successPc pc ist') ist'.crypto isInit (if out.isEmpty then [] else Generated.INIT_MESSAGE_FIRST_BYTE :: out) payload ilog rr
      simp only []
      generalize successOut (successPc pc ist') ist'.crypto isInit (if out.isEmpty then [] else Generated.INIT_MESSAGE_FIRST_BYTE :: out) payload ilog rr = r at hc
      cases r with
      | panic => trivial
      | err pc' e =>
        obtain ⟨_, h1, _, h3⟩ := hc
        have h3' : ist'.crypto = none := h3
        rw [h3'] at h1
        cases h1
      | ok pc' o res log => exact Or.inr ⟨payload, hc.2, hok⟩

theorem handleMessage_live (env : CryptoEnv) (bodyOf : Init.BodyOf) (ok : Bytes → Bool) (pc : PeerCrypto) (datagram tail : Bytes) (rnd : Rand) (rr : RotRand)
    (hp : LivePC pc) : LiveOut ok (PeerCrypto.handleMessage env bodyOf ok pc datagram tail rnd rr) := by
  have hnot : ∀ res : MsgResult, PlainRes res → ¬ IsInitRes res := fun _ => plainRes_not_init
  rw [handleMessage_eq]
  split
  · exact Or.inr hp
  · rename_i b0 rest
    split
    · split
      · exact Or.inr hp
      · exact handleInitMessage_live env bodyOf ok pc rest rnd rr hp
    · have hi := decMsg_init bodyOf pc (b0 :: rest)
      rcases hd : decMsg bodyOf pc (b0 :: rest) with ⟨pc1, r⟩
      rw [hd] at hi
      cases r with
      | error e => exact Or.inr (hp.of_init hi)
      | ok plain =>
        cases plain with
        | nil => trivial
        | cons ty body =>
          simp only []
          split
          · by_cases hpan : PeerCrypto.rotatePanics pc1 (body ++ (if pc1.unencrypted then tail else [])) = true
            · rw [if_pos hpan]; trivial
            rw [if_neg hpan]
            have hr := handleRotate_init pc1 (body ++ (if pc1.unencrypted then tail else [])) rr
            rcases hrot : PeerCrypto.handleRotate pc1 (body ++ (if pc1.unencrypted then tail else [])) rr with ⟨pc2, r2⟩
            rw [hrot] at hr
            cases r2 with
            | error e => exact Or.inr (hp.of_init (hr.trans hi))
            | ok u => exact Or.inl ⟨hnot _ (Or.inl rfl), hp.of_init (hr.trans hi)⟩
          · exact Or.inl ⟨hnot _ (Or.inr ⟨_, _, rfl⟩), hp.of_init hi⟩

theorem init_everySecond_live (st : InitSt) (hl : LiveSt st) :
    (∃ e, (Init.everySecond st).2 = .error e) ∨ LiveSt (Init.everySecond st).1 := by
  unfold Init.everySecond
  split
  · rename_i h; exact absurd h hl.2
  · split
    · rename_i h; exact absurd h hl.1
    · split
      · exact Or.inr hl
      · exact Or.inl ⟨_, rfl⟩

theorem tick1_snd (pc : PeerCrypto) (ist : InitSt) (hi : pc.init = some ist) : (tick1 pc).2 = (Init.everySecond ist).2 := by
  unfold tick1
  simp only [hi]

theorem everySecond_live (pc : PeerCrypto) (rr : RotRand) (hp : LivePC pc)
    (pc' : PeerCrypto) (out : Bytes) (res : MsgResult) (log : Init.SealLog) (h : PeerCrypto.everySecond pc rr = .ok pc' out res log) :
    LivePC pc' := by
  obtain ⟨ist, hi, hl⟩ := hp
  have hs := everySecond_spec pc rr
  rw [h] at hs
  have hinit : pc'.init = tickInit pc := hs.1
  rcases init_everySecond_live ist hl with ⟨e, he⟩ | hlive
  · exfalso
    have h2 := tick1_snd pc ist hi
    rw [he] at h2
    rw [everySecond_eq] at h
    rcases h1 : tick1 pc with ⟨pc1, r⟩
    rw [h1] at h h2
    simp only at h2
    subst h2
    cases h
  · refine ⟨(Init.everySecond ist).1, ?_, hlive⟩
    rw [hinit]
    unfold tickInit
    simp only [hi]
    rw [if_neg hlive.1]

/-- the instance of the generic invariant: pending sessions are live -/
def SD : SI where
  Q := LivePC
  R := fun _ => True
  T := False
  P := False
  L := False
  q_new := by
    intro env n hash rnd ist _
    exact ⟨_, rfl, (by decide : Generated.STAGE_PONG ≠ Generated.CLOSING), (by decide : Generated.STAGE_PONG ≠ Generated.WAITING_TO_CLOSE)⟩
  q_att := fun _ _ => ⟨_, rfl, (by decide : Generated.STAGE_PING ≠ Generated.CLOSING), (by decide : Generated.STAGE_PING ≠ Generated.WAITING_TO_CLOSE)⟩
  r_seal := fun _ _ _ _ _ => trivial

theorem sokD (env : CryptoEnv) (bodyOf : Init.BodyOf) (pc : PeerCrypto) (inPeers : Bool) (data tail : Bytes) (rnd : Rand) (rr : RotRand)
    (h : if inPeers then SD.R pc else SD.Q pc) : SOK SD inPeers (PeerCrypto.handleMessage env bodyOf payloadOk pc data tail rnd rr) := by
  cases inPeers with
  | true =>
    exact { no_panic := fun hf => hf.elim, err_peers := fun _ _ _ _ => trivial, err_pend := (fun hf => by cases hf),
            ok_peers := fun _ _ _ _ _ _ => trivial, ok_pend := (fun hf => by cases hf), msg := fun hf => hf.elim, log_ok := fun hf => hf.elim }
  | false =>
    have hl : LivePC pc := h
    have hfo := handleMessage_live env bodyOf payloadOk pc data tail rnd rr hl
    generalize PeerCrypto.handleMessage env bodyOf payloadOk pc data tail rnd rr = r at hfo
    refine { no_panic := fun hf => hf.elim, err_peers := (fun hf => by cases hf), err_pend := ?_, ok_peers := (fun hf => by cases hf), ok_pend := ?_,
             msg := fun hf => hf.elim, log_ok := fun hf => hf.elim }
    · intro _ pc' e hr
      subst hr
      exact hfo
    · intro _ pc' out res log hr
      subst hr
      rcases hfo with hq | ⟨p, hp, hok⟩
      · exact Or.inl hq
      · exact Or.inr ⟨p, hp, trivial, Or.inr hok⟩

theorem tokD (pc : PeerCrypto) (rr : RotRand) :
    (SD.Q pc → TOK SD SD.Q (PeerCrypto.everySecond pc rr)) ∧ (SD.R pc → TOK SD SD.R (PeerCrypto.everySecond pc rr)) := by
  constructor
  · intro hq
    exact { no_panic := fun hf => hf.elim, ok := fun pc' out res log hr => everySecond_live pc rr hq pc' out res log hr, log_ok := fun hf => hf.elim }
  · intro _
    exact { no_panic := fun hf => hf.elim, ok := fun _ _ _ _ _ => trivial, log_ok := fun hf => hf.elim }

/-- every pending session has a handshake object that is neither closing nor waiting to close -/
def PendLive (n : Node) : Prop := ∀ a pc, (a, pc) ∈ n.pending → LivePC pc

theorem pendLive_iff (c : Ctx) : PendLive c.node ↔ GI SD c := by
  unfold PendLive GI GIx
  constructor
  · intro h
    exact ⟨fun a pc hm _ => h a pc hm, fun _ _ _ => trivial, fun hf => hf.elim, fun hf => hf.elim, fun hf => hf.elim⟩
  · rintro ⟨h, _⟩
    exact fun a pc hm => h a pc hm (by simp)

end VpnCloud.Proofs.C01MoreLemmas
