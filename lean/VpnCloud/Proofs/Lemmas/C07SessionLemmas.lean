import VpnCloud.Proofs.C07More
import VpnCloud.Proofs.C16
import VpnCloud.Proofs.Lemmas.NodeInvLemmas
import VpnCloud.Proofs.Lemmas.CoreLemmas
/-
  Helper lemmas for `Proofs/C07Session.lean` (C07 at the level of `PeerCrypto` sessions).

  * `ROp` / `StepF`: the symbolic two-party system of `Model/Rotation.lean` with ARBITRARY numbers for newly drawn
    ephemeral key pairs (the inductive invariant `Inv` of `C07.lean` does not use freshness), one end at a time.
  * `CoreSame`: what `encrypt`, `decrypt`, `every_second` of the crypto core leave unchanged (key references, sending slot, half).
  * `SideOK` / `Cpl` / `Sess`: the coupling of the rotation state of a session with the key slots of its core.
  * `rotOf` / `absSent`: the rotation message a sealed datagram carries (through the ideal-AEAD view `bodyOf`).
  * `tick_eff`, `recv_eff`, `send_eff`: what `PeerCrypto.everySecond`, `PeerCrypto.handleMessage` (on a datagram without handshake
    marker) and `PeerCrypto.sendMessage` do to an established session, in terms of `Rot.cycle` / `Rot.process`.
-/
namespace VpnCloud.Proofs.C07SessionLemmas

open VpnCloud VpnCloud.Rot VpnCloud.Codec
open VpnCloud.Proofs.NodeInvLemmas

/-! ## A. the symbolic system, one end at a time, with arbitrary numbers for new key pairs -/

/-- one operation of end `A` (own state, messages it has sent `sa`, messages the peer has sent `sb`): nothing, a rotation cycle that
    draws key pair `f`, or the delivery of any message the peer ever sent (drawing key pair `f` for the reply) -/
inductive ROp (A : Side) (sa sb : List Msg) : Side → List Msg → Prop
  | stutter : ROp A sa sb A sa
  | cycle (f : Nat) : ROp A sa sb (cycle A f).1 (addMsg sa (cycle A f).2)
  | deliver (m : Msg) (h : m ∈ sb) (f : Nat) : ROp A sa sb (process A m f) sa

/-- a step of the two-party system with arbitrary numbers for new key pairs (the `fresh` component is not constrained) -/
def StepF (s t : Sys) : Prop :=
  (ROp s.x s.sentX s.sentY t.x t.sentX ∧ t.y = s.y ∧ t.sentY = s.sentY) ∨
  (ROp s.y s.sentY s.sentX t.y t.sentY ∧ t.x = s.x ∧ t.sentX = s.sentX)

/-- every step of the symbolic system of `Model/Rotation.lean` is such a step -/
theorem step_stepF {s t : Sys} (h : Step s t) : StepF s t := by
  cases h with
  | cycleX => exact Or.inl ⟨ROp.cycle s.fresh, rfl, rfl⟩
  | cycleY => exact Or.inr ⟨ROp.cycle s.fresh, rfl, rfl⟩
  | delivX m hm => exact Or.inl ⟨ROp.deliver m hm s.fresh, rfl, rfl⟩
  | delivY m hm => exact Or.inr ⟨ROp.deliver m hm s.fresh, rfl, rfl⟩

/-- the invariant of `C07.lean` on the four components it talks about -/
def Inv4 (X Y : Side) (sx sy : List Msg) : Prop := Ahead X Y sx sy ∨ Ahead Y X sy sx

theorem inv4_iff (s : Sys) : Inv s ↔ Inv4 s.x s.y s.sentX s.sentY := Iff.rfl

theorem inv4_symm {X Y : Side} {sx sy : List Msg} (h : Inv4 X Y sx sy) : Inv4 Y X sy sx := h.symm

/-- the invariant is preserved by an operation of the first end -/
theorem inv4_rop {X Y X' : Side} {sx sy sx' : List Msg} (h : Inv4 X Y sx sy) (r : ROp X sx sy X' sx') : Inv4 X' Y sx' sy := by
  cases r with
  | stutter => exact h
  | cycle f =>
    rcases h with h | h
    · exact Or.inl (ahead_cycleX h f)
    · rcases ahead_cycleY h f with h' | h'
      · exact Or.inr h'
      · exact Or.inl h'
  | deliver m hm f =>
    rcases h with h | h
    · rw [ahead_delivX h hm f]; exact Or.inl h
    · exact Or.inr (ahead_delivY h hm f)

theorem inv_stepF {s t : Sys} (h : Inv s) (st : StepF s t) : Inv t := by
  rcases st with ⟨r, hy, hsy⟩ | ⟨r, hx, hsx⟩
  · have := inv4_rop h r
    rw [inv4_iff, hy, hsy]; exact this
  · have := inv4_symm (inv4_rop (inv4_symm h) r)
    rw [inv4_iff, hx, hsx]; exact this

theorem inv4_sync {X Y : Side} {sx sy : List Msg} (h : Inv4 X Y sx sy) :
    X.slots X.cur = Y.slots X.cur ∧ Y.slots Y.cur = X.slots Y.cur := by
  rcases h with h | h
  · exact ⟨h.sync1, h.sync2⟩
  · exact ⟨h.sync2, h.sync1⟩

/-! ## B. what the data path of the crypto core leaves unchanged -/

/-- the key references of the four slots -/
def keysOf (c : Core) : List KeyRef := c.slots.map (·.key)

/-- same key references, same sending slot, same half -/
structure CoreSame (c c' : Core) : Prop where
  keys : keysOf c' = keysOf c
  cur : c'.cur = c.cur
  half : c'.half = c.half

theorem CoreSame.refl (c : Core) : CoreSame c c := ⟨rfl, rfl, rfl⟩

theorem CoreSame.trans {a b c : Core} (h1 : CoreSame a b) (h2 : CoreSame b c) : CoreSame a c :=
  ⟨h2.keys.trans h1.keys, h2.cur.trans h1.cur, h2.half.trans h1.half⟩

theorem map_set_same (l : List SlotKey) : ∀ (i : Nat) (k k' : SlotKey), l[i]? = some k → k'.key = k.key →
    (l.set i k').map (·.key) = l.map (·.key) := by
  induction l with
  | nil => intro i k k' h; cases h
  | cons a l ih =>
    intro i k k' h hk
    cases i with
    | zero =>
      simp only [List.getElem?_cons_zero, Option.some.injEq] at h
      subst h
      simp [hk]
    | succ i =>
      simp only [List.getElem?_cons_succ] at h
      simp only [List.set_cons_succ, List.map_cons, ih i k k' h hk]

theorem encrypt_same (c : Core) (p : Bytes) : CoreSame c (c.encrypt p).1 := by
  unfold Core.encrypt
  split
  · exact CoreSame.refl c
  · rename_i k hk
    exact ⟨map_set_same _ _ k _ hk rfl, rfl, rfl⟩

theorem decrypt_same (c : Core) (d : Dgram) : CoreSame c (c.decrypt d).1 := by
  rcases CoreLemmas.decrypt_cases c d with ⟨e, he⟩ | ⟨k, p, _, _, hk, _, _, he⟩
  · rw [he]; exact CoreSame.refl c
  · rw [he]
    refine ⟨map_set_same _ _ k _ hk ?_, rfl, rfl⟩
    simp only [Spec.C03.slotStep]
    split <;> rfl

theorem everySecond_same (c : Core) : CoreSame c c.everySecond := by
  refine ⟨?_, rfl, rfl⟩
  simp only [keysOf, Core.everySecond, List.map_map]
  congr 1

/-! ## C. coupling of a rotation state with the key slots of a core -/

/-- key material that came out of a key agreement (handshake or rotation), as opposed to the throw-away keys of unused slots -/
def NonDummy : Rot.Key → Prop
  | .dummy _ _ => False
  | _ => True

theorem nonDummy_K (a b : Nat) : NonDummy (K a b) := by
  unfold K; split <;> trivial

/-- well-formedness of a rotation state: the sending slot is one of the four and holds agreed key material; public keys are 32-byte
    numbers; a stored confirmation carries an id the end has reached -/
structure SideOK (sd : Side) : Prop where
  curlt : sd.cur < 4
  curnd : NonDummy (sd.slots sd.cur)
  pend : ∀ k e, sd.pending = some (k, e) → NonDummy k ∧ e < 2 ^ 256
  prop : ∀ p, sd.proposed = some p → p < 2 ^ 256
  conf : ∀ c i, sd.confirmed = some (c, i) → c < 2 ^ 256 ∧ i ≤ sd.id

/-- **the key slots of the core are the slots of the rotation state**: same sending slot, and every slot that holds agreed key material
    holds the reference `keyRefOf master ·` of that material (throw-away keys are private to each end and never used for sealing) -/
structure Cpl (master : KeyRef) (sd : Side) (c : Core) : Prop where
  len : c.slots.length = 4
  cur : c.cur = sd.cur
  keys : ∀ i, i < 4 → NonDummy (sd.slots i) → (keysOf c)[i]? = some (PeerCrypto.keyRefOf master (sd.slots i))

theorem Cpl.same {master : KeyRef} {sd : Side} {c c' : Core} (h : Cpl master sd c) (hs : CoreSame c c') : Cpl master sd c' := by
  refine ⟨?_, hs.cur.trans h.cur, fun i hi hn => by rw [hs.keys]; exact h.keys i hi hn⟩
  have := congrArg List.length hs.keys
  simp only [keysOf, List.length_map] at this
  rw [this]; exact h.len

/-- only slots, sending slot matter -/
theorem Cpl.frame {master : KeyRef} {sd sd' : Side} {c : Core} (h : Cpl master sd c) (hs : sd'.slots = sd.slots) (hc : sd'.cur = sd.cur) :
    Cpl master sd' c :=
  ⟨h.len, by rw [hc]; exact h.cur, fun i hi hn => by rw [hs] at hn ⊢; exact h.keys i hi hn⟩

theorem keysOf_rotateKey (c : Core) (key : KeyRef) (id : Nat) (use : Bool) (st : Nat) :
    keysOf (c.rotateKey key id use st) = (keysOf c).set (id % 4) key := by
  simp [keysOf, Core.rotateKey, Core.SLOTS, SlotKey.new, List.map_set]

/-- `rotate_key` with the reference of key `k` under id `id`: the rotation state's slots after `install` -/
theorem Cpl.rotate {master : KeyRef} {sd sd' : Side} {c : Core} (h : Cpl master sd c) (k : Rot.Key) (id : Nat) (use : Bool) (st : Nat)
    (hs : sd'.slots = install sd.slots k id) (hc : sd'.cur = if use then id % 4 else sd.cur) :
    Cpl master sd' (c.rotateKey (PeerCrypto.keyRefOf master k) id use st) := by
  refine ⟨?_, ?_, ?_⟩
  · simp [Core.rotateKey, h.len]
  · rw [hc]; simp only [Core.rotateKey, Core.SLOTS, h.cur]
  · intro i hi hn
    rw [keysOf_rotateKey, hs]
    rw [hs] at hn
    have hl : (keysOf c).length = 4 := by simp [keysOf, h.len]
    by_cases e : i = id % 4
    · subst e
      simp only [install, if_true]
      rw [List.getElem?_set_self (by omega)]
    · simp only [install, if_neg e] at hn ⊢
      rw [List.getElem?_set_ne (fun e' => e e'.symm)]
      exact h.keys i hi hn

/-! ### `SideOK` through `process` and `cycle` -/

theorem sideOK_process {sd : Side} (h : SideOK sd) (m : Msg) {f : Nat} (hf : f < 2 ^ 256) : SideOK (process sd m f) := by
  unfold process
  split
  · exact h
  · dsimp only
    have hp : ∀ k e, some (K f m.propose, f) = some (k, e) → NonDummy k ∧ e < 2 ^ 256 := by
      intro k e hke; cases hke; exact ⟨nonDummy_K _ _, hf⟩
    split
    · refine ⟨Nat.mod_lt _ (by decide), ?_, hp, (fun _ hq => by cases hq), h.conf⟩
      simp only [install, if_true]; exact nonDummy_K _ _
    · exact ⟨h.curlt, h.curnd, hp, h.prop, h.conf⟩

theorem sideOK_cycle {sd : Side} (h : SideOK sd) {f : Nat} (hf : f < 2 ^ 256) : SideOK (cycle sd f).1 := by
  cases hp : sd.proposed with
  | some p =>
    cases ht : sd.timeout
    · rw [cycle_proposed_notimeout hp ht]; exact ⟨h.curlt, h.curnd, h.pend, h.prop, h.conf⟩
    · rw [cycle_proposed_timeout hp ht]; exact h
  | none =>
    cases hq : sd.pending with
    | none => rw [cycle_idle hp hq]; exact h
    | some ke =>
      obtain ⟨key, e⟩ := ke
      obtain ⟨hk, he⟩ := h.pend key e hq
      rw [cycle_advance hp hq]
      refine ⟨h.curlt, ?_, (fun _ _ hn => by cases hn), (fun p hp' => by cases hp'; exact hf),
        (fun c i hc => by cases hc; exact ⟨he, Nat.le_refl _⟩)⟩
      simp only [install]
      split
      · exact hk
      · exact h.curnd

/-- the message a cycle emits fits the wire format -/
theorem cycle_msg_small {sd : Side} (h : SideOK sd) {f : Nat} (hf : f < 2 ^ 256) (hid : sd.id + 2 < 2 ^ 64) {m : Msg}
    (hm : (cycle sd f).2 = some m) : m.id < 2 ^ 64 ∧ m.propose < 2 ^ 256 ∧ ∀ c, m.confirm = some c → c < 2 ^ 256 := by
  cases hp : sd.proposed with
  | some p =>
    have hpp := h.prop p hp
    cases ht : sd.timeout
    · rw [cycle_proposed_notimeout hp ht] at hm; cases hm
    · rw [cycle_proposed_timeout hp ht] at hm
      cases hc : sd.confirmed with
      | none =>
        rw [hc] at hm; cases hm
        exact ⟨by simp only []; omega, hpp, fun c hc' => by cases hc'⟩
      | some ci =>
        obtain ⟨c, i⟩ := ci
        obtain ⟨h1, h2⟩ := h.conf c i hc
        rw [hc] at hm; cases hm
        exact ⟨by simp only []; omega, hpp, fun c' hc' => by cases hc'; exact h1⟩
  | none =>
    cases hq : sd.pending with
    | none => rw [cycle_idle hp hq] at hm; cases hm
    | some ke =>
      obtain ⟨key, e⟩ := ke
      obtain ⟨_, he⟩ := h.pend key e hq
      rw [cycle_advance hp hq] at hm
      cases hm
      exact ⟨hid, hf, fun c hc => by cases hc; exact he⟩

/-! ## D. the rotation message inside a sealed datagram -/

/-- the rotation message a datagram carries: its ciphertext (behind the 8 header bytes) opens — in the ideal-AEAD view — as a plaintext
    of type ROTATION whose body parses -/
def rotOf (bodyOf : Init.BodyOf) (d : Bytes) : Option Rot.Msg :=
  match bodyOf (d.drop 8) with
  | .sealed _ _ (ty :: body) =>
    if ty = Generated.MESSAGE_TYPE_ROTATION then (readRotMsg body).map PeerCrypto.rotMsgOfBytes else none
  | _ => none

/-- the rotation messages among the datagrams an end has emitted -/
def absSent (bodyOf : Init.BodyOf) (l : List Bytes) : List Rot.Msg := l.filterMap (rotOf bodyOf)

theorem pow256_32 : (256 : Nat) ^ 32 = 2 ^ 256 := by decide

theorem beVal_ofBE32 {v : Nat} (h : v < 2 ^ 256) : Bytes.beVal (Bytes.ofBE 32 v) = v := by
  rw [CoreLemmas.beVal_ofBE, pow256_32]; exact Nat.mod_eq_of_lt h

/-- what `cycle` emits is read back exactly from its wire form -/
theorem rotMsg_wire_roundtrip (m : Rot.Msg) (hid : m.id < 2 ^ 64) (hp : m.propose < 2 ^ 256)
    (hc : ∀ c, m.confirm = some c → c < 2 ^ 256) :
    (readRotMsg (writeRotMsg (PeerCrypto.rotMsgToBytes m))).map PeerCrypto.rotMsgOfBytes = some m := by
  have h := C16.rotmsg_roundtrip (PeerCrypto.rotMsgToBytes m) [] hid
    ⟨by simp [PeerCrypto.rotMsgToBytes, CoreLemmas.ofBE_length], CoreLemmas.ofBE_wf _ _⟩
    (by
      intro c hc'
      obtain ⟨id, pr, cf⟩ := m
      cases cf with
      | none => cases hc'
      | some c0 =>
        simp only [PeerCrypto.rotMsgToBytes, Option.map_some, Option.some.injEq] at hc'
        subst hc'
        simp [CoreLemmas.ofBE_length, CoreLemmas.ofBE_wf])
  rw [List.append_nil] at h
  rw [h]
  obtain ⟨id, pr, cf⟩ := m
  simp only [Option.map_some, PeerCrypto.rotMsgOfBytes, PeerCrypto.rotMsgToBytes, Option.some.injEq]
  simp only [] at hp hc
  rw [beVal_ofBE32 hp]
  cases cf with
  | none => rfl
  | some c0 => simp only [Option.map_some, beVal_ofBE32 (hc c0 rfl)]

theorem rotOf_sealed (bodyOf : Init.BodyOf) (hdr ct : Bytes) (key n : Nat) (plain : Bytes) (hl : hdr.length = 8)
    (hb : bodyOf ct = .sealed key n plain) :
    rotOf bodyOf (hdr ++ ct) = match plain with
      | ty :: body => if ty = Generated.MESSAGE_TYPE_ROTATION then (readRotMsg body).map PeerCrypto.rotMsgOfBytes else none
      | [] => none := by
  unfold rotOf
  rw [List.drop_left' hl]
  cases plain <;> simp only [hb]

/-! ## E. an established session and what the session operations do to it -/

/-- an established, encrypted session: rotation state `sd`, crypto core `c`, coupled -/
structure Sess (pc : PeerCrypto) (sd : Side) (c : Core) : Prop where
  rot : pc.rot = some sd
  core : pc.core = some c
  enc : pc.unencrypted = false
  ok : SideOK sd
  cpl : Cpl pc.master sd c

theorem Sess.withCore {pc : PeerCrypto} {sd : Side} {c c' : Core} (h : Sess pc sd c) (hs : CoreSame c c') :
    Sess { pc with core := some c' } sd c' :=
  ⟨h.rot, rfl, h.enc, h.ok, h.cpl.same hs⟩

theorem Sess.cur_slot {pc : PeerCrypto} {sd : Side} {c : Core} (h : Sess pc sd c) : ∃ k, c.slots[c.cur]? = some k := by
  have hcur : c.cur < c.slots.length := by rw [h.cpl.len, h.cpl.cur]; exact h.ok.curlt
  exact ⟨c.slots[c.cur], List.getElem?_eq_getElem hcur⟩

/-- sealing with an established session: 8 header bytes (the first is the sending slot) followed by the ciphertext; the seal is logged;
    the key slots are untouched -/
theorem sealMsg_sess {pc : PeerCrypto} {sd : Side} {c : Core} (h : Sess pc sd c) (plain ct : Bytes) :
    ∃ c' hdr key n, PeerCrypto.sealMsg pc plain ct = ({ pc with core := some c' }, .ok (hdr ++ ct, [(ct, .sealed key n plain)])) ∧
      CoreSame c c' ∧ hdr.length = 8 ∧ hdr.head? = some sd.cur := by
  obtain ⟨k, hk⟩ := h.cur_slot
  refine ⟨(c.encrypt plain).1, (c.encrypt plain).2.hdr, k.key, (k.send + 1) % NONCE_MOD, ?_, encrypt_same c plain, ?_, ?_⟩
  · simp only [PeerCrypto.sealMsg, h.enc, h.core, Core.encrypt, hk, Bool.false_eq_true, if_false]
  · simp only [Core.encrypt, hk, List.length_cons, CoreLemmas.ofBE_length]
  · simp only [Core.encrypt, hk, List.head?_cons]
    rw [h.cpl.cur]

/-! ### `cycle` and `process` by what they do to the slots -/

theorem cycle_shape (sd : Side) (f : Nat) :
    ((sd.proposed.isNone && sd.pending.isSome) = false ∧ (cycle sd f).1.slots = sd.slots ∧ (cycle sd f).1.cur = sd.cur) ∨
    ((sd.proposed.isNone && sd.pending.isSome) = true ∧ ∃ k e, sd.pending = some (k, e) ∧
      (cycle sd f).1.slots = install sd.slots k (cycle sd f).1.id ∧ (cycle sd f).1.cur = sd.cur) := by
  cases hp : sd.proposed with
  | some p =>
    left
    cases ht : sd.timeout
    · rw [cycle_proposed_notimeout hp ht]; exact ⟨rfl, rfl, rfl⟩
    · rw [cycle_proposed_timeout hp ht]; exact ⟨rfl, rfl, rfl⟩
  | none =>
    cases hq : sd.pending with
    | none => left; rw [cycle_idle hp hq]; exact ⟨rfl, rfl, rfl⟩
    | some ke =>
      obtain ⟨key, e⟩ := ke
      right
      rw [cycle_advance hp hq]
      exact ⟨rfl, key, e, rfl, rfl, rfl⟩

theorem process_shape (sd : Side) (m : Msg) (f : Nat) :
    ((decide (m.id > sd.id) && m.confirm.isSome && sd.proposed.isSome) = false ∧
      (process sd m f).slots = sd.slots ∧ (process sd m f).cur = sd.cur) ∨
    ((decide (m.id > sd.id) && m.confirm.isSome && sd.proposed.isSome) = true ∧ ∃ p c,
      (process sd m f).slots = install sd.slots (K p c) m.id ∧ (process sd m f).cur = m.id % 4) := by
  unfold process
  by_cases hid : m.id ≤ sd.id
  · left
    have : decide (m.id > sd.id) = false := by simp; omega
    simp [hid, this]
  · have hd : decide (m.id > sd.id) = true := by simp; omega
    simp only [hid, if_false, hd, Bool.true_and]
    cases hc : m.confirm with
    | none => left; simp
    | some c =>
      cases hp : sd.proposed with
      | none => left; simp
      | some p => right; exact ⟨by simp, p, c, rfl, rfl⟩

/-! ### the periodic tick -/

/-- the rotation part of `every_second` once the interval has elapsed, as a function of the result of `cycle` -/
def tickCyc (pc2 : PeerCrypto) (rr : RotRand) (rotated : Bool) (sd' : Side) (m : Option Msg) : POutcome MsgResult :=
  let pc3 := { pc2 with rotateCounter := 0, rot := some sd' }
  let pc4 := if rotated then PeerCrypto.installKey pc3 (sd'.slots (sd'.id % 4)) sd'.id false rr.starts else pc3
  match m with
  | none => .ok pc4 [] .none []
  | some m =>
    match PeerCrypto.sealMsg pc4 (Generated.MESSAGE_TYPE_ROTATION :: writeRotMsg (PeerCrypto.rotMsgToBytes m)) rr.ct with
    | (pc5, .ok (bytes, log)) => .ok pc5 bytes .reply log
    | (pc5, .error e) => .err pc5 e

theorem tickRot_wait (pc2 : PeerCrypto) (sd : Side) (rr : RotRand) (h : pc2.rot = some sd)
    (hc : pc2.rotateCounter + 1 < Generated.ROTATE_INTERVAL) :
    tickRot pc2 rr = .ok { pc2 with rotateCounter := pc2.rotateCounter + 1 } [] .none [] := by
  unfold tickRot
  rw [h]
  simp only [hc, if_true]

theorem tickRot_cyc (pc2 : PeerCrypto) (sd : Side) (rr : RotRand) (h : pc2.rot = some sd)
    (hc : ¬ pc2.rotateCounter + 1 < Generated.ROTATE_INTERVAL) :
    tickRot pc2 rr = tickCyc pc2 rr (sd.proposed.isNone && sd.pending.isSome) (cycle sd rr.freshProp).1 (cycle sd rr.freshProp).2 := by
  unfold tickRot
  rw [h]
  simp only [hc, if_false]
  rfl

/-- what the emitted datagram and the log of a cycle look like -/
def CycOut (sd : Side) (rr : RotRand) (m : Option Msg) (out : Bytes) (log : Init.SealLog) : Prop :=
  match m with
  | none => log = [] ∧ out = []
  | some m => ∃ hdr key n, hdr.length = 8 ∧ hdr.head? = some sd.cur ∧ out = hdr ++ rr.ct ∧
      log = [(rr.ct, .sealed key n (Generated.MESSAGE_TYPE_ROTATION :: writeRotMsg (PeerCrypto.rotMsgToBytes m)))]

/-- effect of the rotation part of a tick on an established session -/
def RotEff (pc2 : PeerCrypto) (sd : Side) (c : Core) (rr : RotRand) : POutcome MsgResult → Prop
  | .panic => False
  | .err _ _ => False
  | .ok pc' out _ log => pc'.init = pc2.init ∧ pc'.master = pc2.master ∧ ∃ c', c'.half = c.half ∧
      if pc2.rotateCounter + 1 < Generated.ROTATE_INTERVAL then
        Sess pc' sd c' ∧ log = [] ∧ out = [] ∧ pc'.rotateCounter = pc2.rotateCounter + 1
      else
        pc'.rotateCounter = 0 ∧ Sess pc' (cycle sd rr.freshProp).1 c' ∧ CycOut sd rr (cycle sd rr.freshProp).2 out log

theorem tickCyc_eff {pc2 : PeerCrypto} {sd : Side} {c : Core} (h : Sess pc2 sd c) (rr : RotRand) (rotated : Bool) (sd' : Side)
    (m : Option Msg) (hok : SideOK sd') (hcur : sd'.cur = sd.cur)
    (hno : rotated = false → sd'.slots = sd.slots)
    (hyes : rotated = true → ∃ k, sd'.slots = install sd.slots k sd'.id) :
    match tickCyc pc2 rr rotated sd' m with
    | .panic => False
    | .err _ _ => False
    | .ok pc' out _ log => pc'.init = pc2.init ∧ pc'.master = pc2.master ∧ ∃ c', c'.half = c.half ∧
        pc'.rotateCounter = 0 ∧ Sess pc' sd' c' ∧ CycOut sd rr m out log := by
  -- the session after the key installation
  have h4 : ∃ pc4 c4, (if rotated then PeerCrypto.installKey { pc2 with rotateCounter := 0, rot := some sd' } (sd'.slots (sd'.id % 4)) sd'.id false rr.starts
        else { pc2 with rotateCounter := 0, rot := some sd' }) = pc4 ∧ Sess pc4 sd' c4 ∧ pc4.init = pc2.init ∧ pc4.master = pc2.master ∧
        c4.half = c.half ∧ pc4.rotateCounter = 0 := by
    cases rotated with
    | false =>
      refine ⟨_, c, rfl, ⟨rfl, h.core, h.enc, hok, h.cpl.frame (hno rfl) hcur⟩, rfl, rfl, rfl, rfl⟩
    | true =>
      obtain ⟨k, hk⟩ := hyes rfl
      have hkk : sd'.slots (sd'.id % 4) = k := by rw [hk]; simp [install]
      refine ⟨_, c.rotateKey (PeerCrypto.keyRefOf pc2.master k) sd'.id false (rr.starts.getD (sd'.id % 4) 0), rfl, ?_, ?_, ?_, ?_, ?_⟩
      · refine ⟨?_, ?_, ?_, hok, ?_⟩
        · simp [PeerCrypto.installKey, h.core]
        · simp [PeerCrypto.installKey, h.core, hkk]
        · simp [PeerCrypto.installKey, h.core, h.enc]
        · have := h.cpl.rotate (sd' := sd') k sd'.id false (rr.starts.getD (sd'.id % 4) 0) hk (by simp [hcur])
          simpa [PeerCrypto.installKey, h.core] using this
      · simp [PeerCrypto.installKey, h.core]
      · simp [PeerCrypto.installKey, h.core]
      · simp [Core.rotateKey]
      · simp [PeerCrypto.installKey, h.core]
  obtain ⟨pc4, c4, e4, s4, i4, m4, hf4, r4⟩ := h4
  unfold tickCyc
  simp only [e4]
  cases m with
  | none => exact ⟨i4, m4, c4, hf4, r4, s4, rfl, rfl⟩
  | some m =>
    obtain ⟨c', hdr, key, n, hs, hsame, hl, hh⟩ := sealMsg_sess s4 (Generated.MESSAGE_TYPE_ROTATION :: writeRotMsg (PeerCrypto.rotMsgToBytes m)) rr.ct
    simp only [hs]
    exact ⟨i4, m4, c', hsame.half.trans hf4, r4, s4.withCore hsame, hdr, key, n, hl, by rw [hh, hcur], rfl, rfl⟩

theorem tickRot_eff {pc2 : PeerCrypto} {sd : Side} {c : Core} (h : Sess pc2 sd c) (rr : RotRand) (hf : rr.freshProp < 2 ^ 256) :
    RotEff pc2 sd c rr (tickRot pc2 rr) := by
  by_cases hc : pc2.rotateCounter + 1 < Generated.ROTATE_INTERVAL
  · rw [tickRot_wait pc2 sd rr h.rot hc]
    unfold RotEff
    refine ⟨rfl, rfl, c, rfl, ?_⟩
    rw [if_pos hc]
    exact ⟨⟨h.rot, h.core, h.enc, h.ok, h.cpl⟩, rfl, rfl, rfl⟩
  · rw [tickRot_cyc pc2 sd rr h.rot hc]
    have hok := sideOK_cycle h.ok hf
    have key := fun hcur hno hyes => tickCyc_eff h rr (sd.proposed.isNone && sd.pending.isSome) (cycle sd rr.freshProp).1
      (cycle sd rr.freshProp).2 hok hcur hno hyes
    rcases cycle_shape sd rr.freshProp with ⟨hr, hs, hcur⟩ | ⟨hr, k, e, _, hs, hcur⟩
    · have := key hcur (fun _ => hs) (fun ht => by rw [hr] at ht; cases ht)
      generalize tickCyc pc2 rr _ _ _ = r at this
      cases r with
      | panic => exact this
      | err _ _ => exact this
      | ok pc' out res log =>
        simp only [RotEff, hc, if_false]
        exact this
    · have := key hcur (fun hf' => by rw [hr] at hf'; cases hf') (fun _ => ⟨k, hs⟩)
      generalize tickCyc pc2 rr _ _ _ = r at this
      cases r with
      | panic => exact this
      | err _ _ => exact this
      | ok pc' out res log =>
        simp only [RotEff, hc, if_false]
        exact this

theorem tick1_sess {pc : PeerCrypto} {sd : Side} {c : Core} (h : Sess pc sd c) :
    Sess (tick1 pc).1 sd c.everySecond ∧ (tick1 pc).1.master = pc.master ∧ (tick1 pc).1.rotateCounter = pc.rotateCounter := by
  have hs := h.cpl.same (everySecond_same c)
  unfold tick1
  cases hi : pc.init with
  | none => exact ⟨⟨h.rot, by simp [h.core], h.enc, h.ok, hs⟩, rfl, rfl⟩
  | some ist => exact ⟨⟨h.rot, by simp [h.core], h.enc, h.ok, hs⟩, rfl, rfl⟩

theorem tick2_sess {pc : PeerCrypto} {sd : Side} {c : Core} (h : Sess pc sd c) : Sess (tick2 pc) sd c :=
  ⟨h.rot, h.core, h.enc, h.ok, h.cpl⟩

/-- effect of `every_second` on an established session: it never panics, the rotation state either stays or makes one `cycle`
    (and then what it emits is the sealed rotation message of that cycle) -/
def TickEff (pc : PeerCrypto) (sd : Side) (c : Core) (rr : RotRand) : POutcome MsgResult → Prop
  | .panic => False
  | .err pc' _ => ∃ c', Sess pc' sd c' ∧ pc'.master = pc.master ∧ c'.half = c.half
  | .ok pc' out _ log => pc'.master = pc.master ∧ ∃ c', c'.half = c.half ∧
      ((Sess pc' sd c' ∧ log = []) ∨
       (Sess pc' (cycle sd rr.freshProp).1 c' ∧ CycOut sd rr (cycle sd rr.freshProp).2 out log))

theorem everySecond_eff {pc : PeerCrypto} {sd : Side} {c : Core} (h : Sess pc sd c) (rr : RotRand) (hf : rr.freshProp < 2 ^ 256) :
    TickEff pc sd c rr (PeerCrypto.everySecond pc rr) := by
  rw [everySecond_eq]
  obtain ⟨h1, m1, _⟩ := tick1_sess h
  generalize tick1 pc = t at h1 m1
  obtain ⟨pc1, r⟩ := t
  simp only [] at h1 m1
  cases r with
  | error e => exact ⟨_, h1, m1, rfl⟩
  | ok out =>
    simp only []
    split
    · exact ⟨m1, c.everySecond, rfl, Or.inl ⟨tick2_sess h1, rfl⟩⟩
    · have := tickRot_eff (tick2_sess h1) rr hf
      generalize tickRot (tick2 pc1) rr = r at this
      cases r with
      | panic => exact this
      | err _ _ => exact this.elim
      | ok pc' o res log =>
        obtain ⟨_, hm, c', hh, hif⟩ := this
        refine ⟨hm.trans m1, c', hh, ?_⟩
        split at hif
        · exact Or.inl ⟨hif.1, hif.2.1⟩
        · exact Or.inr ⟨hif.2.1, hif.2.2⟩

/-- the handshake object of the session is gone or only waits to be dropped: it emits nothing any more -/
def Quiet (pc : PeerCrypto) : Prop :=
  ∀ ist, pc.init = some ist → ist.stage = Generated.WAITING_TO_CLOSE ∨ ist.stage = Generated.CLOSING

theorem initEverySecond_quiet (ist : InitSt) (h : ist.stage = Generated.WAITING_TO_CLOSE ∨ ist.stage = Generated.CLOSING) :
    (Init.everySecond ist).2 = .ok [] ∧
    ((Init.everySecond ist).1.stage = Generated.WAITING_TO_CLOSE ∨ (Init.everySecond ist).1.stage = Generated.CLOSING) := by
  unfold Init.everySecond
  rcases h with h | h
  · rw [if_pos h]
    split
    · exact ⟨rfl, Or.inr rfl⟩
    · exact ⟨rfl, Or.inl h⟩
  · have : ¬ ist.stage = Generated.WAITING_TO_CLOSE := by rw [h]; decide
    rw [if_neg this, if_pos h]
    exact ⟨rfl, Or.inr h⟩

/-- on a quiet established session `every_second` is its rotation part (after the window maintenance of the core) -/
theorem everySecond_quiet {pc : PeerCrypto} {sd : Side} {c : Core} (h : Sess pc sd c) (hq : Quiet pc) (rr : RotRand) :
    ∃ pc2, PeerCrypto.everySecond pc rr = tickRot pc2 rr ∧ Sess pc2 sd c.everySecond ∧ Quiet pc2 ∧ pc2.master = pc.master ∧
      pc2.rotateCounter = pc.rotateCounter := by
  rw [everySecond_eq]
  have hs := h.cpl.same (everySecond_same c)
  cases hi : pc.init with
  | none =>
    have e : tick1 pc = ({ pc with core := pc.core.map Core.everySecond }, .ok []) := by
      unfold tick1; simp only [hi]
    rw [e]
    refine ⟨_, rfl, ⟨h.rot, by simp [tick2, h.core], h.enc, h.ok, hs⟩, ?_, rfl, rfl⟩
    intro ist hist
    simp [tick2, hi] at hist
  | some ist =>
    obtain ⟨h1, h2⟩ := initEverySecond_quiet ist (hq ist hi)
    have e : tick1 pc = ({ pc with core := pc.core.map Core.everySecond, init := some (Init.everySecond ist).1 }, .ok []) := by
      unfold tick1; simp only [hi]; rw [← h1]
    rw [e]
    refine ⟨_, rfl, ⟨h.rot, by simp [tick2, h.core], h.enc, h.ok, hs⟩, ?_, rfl, rfl⟩
    intro ist' hist
    simp only [tick2] at hist
    split at hist
    · cases hist
    · cases hist; exact h2

/-! ### receiving a datagram without handshake marker -/

theorem decMsg_sess {pc : PeerCrypto} {sd : Side} {c : Core} (h : Sess pc sd c) (bodyOf : Init.BodyOf) (d : Bytes) :
    (∃ c', decMsg bodyOf pc d = ({ pc with core := some c' }, .error .crypto) ∧ CoreSame c c') ∨
    (∃ c' key n p, decMsg bodyOf pc d = ({ pc with core := some c' }, .ok p) ∧ CoreSame c c' ∧ bodyOf (d.drop 8) = .sealed key n p) := by
  have hs := decrypt_same c { hdr := d.take 8, body := bodyOf (d.drop 8) }
  rcases CoreLemmas.decrypt_cases c { hdr := d.take 8, body := bodyOf (d.drop 8) } with ⟨e, he⟩ | ⟨k, p, _, _, _, _, hb, he⟩
  · left
    refine ⟨c, ?_, CoreSame.refl c⟩
    simp only [decMsg, h.enc, h.core, he, Bool.false_eq_true, if_false]
  · right
    rw [he] at hs
    refine ⟨_, k.key, _, p, ?_, hs, hb⟩
    simp only [decMsg, h.enc, h.core, he, Bool.false_eq_true, if_false]

/-- `handle_rotate_message` on an established session: an unparsable body is an error without effect, otherwise the rotation state
    processes the message and a rotated key is installed for sending -/
theorem handleRotate_eff {pc : PeerCrypto} {sd : Side} {c : Core} (h : Sess pc sd c) (data : Bytes) (rr : RotRand)
    (hf : rr.freshPend < 2 ^ 256) :
    (readRotMsg data = none ∧ PeerCrypto.handleRotate pc data rr = (pc, .error .crypto)) ∨
    (∃ bm c', readRotMsg data = some bm ∧ (PeerCrypto.handleRotate pc data rr).2 = .ok () ∧
      Sess (PeerCrypto.handleRotate pc data rr).1 (process sd (PeerCrypto.rotMsgOfBytes bm) rr.freshPend) c' ∧
      (PeerCrypto.handleRotate pc data rr).1.master = pc.master ∧ c'.half = c.half) := by
  cases hr : readRotMsg data with
  | none =>
    left
    refine ⟨rfl, ?_⟩
    simp only [PeerCrypto.handleRotate, h.enc, h.rot, hr, Bool.false_eq_true, if_false]
  | some bm =>
    right
    have hok := sideOK_process h.ok (PeerCrypto.rotMsgOfBytes bm) hf
    rcases process_shape sd (PeerCrypto.rotMsgOfBytes bm) rr.freshPend with ⟨hrot, hs, hc⟩ | ⟨hrot, p, q, hs, hc⟩
    · refine ⟨bm, c, rfl, ?_, ?_, ?_, rfl⟩
      · simp only [PeerCrypto.handleRotate, h.enc, h.rot, hr, hrot, Bool.false_eq_true, if_false]
      · simp only [PeerCrypto.handleRotate, h.enc, h.rot, hr, hrot, Bool.false_eq_true, if_false]
        exact ⟨rfl, by first | exact h.core | rfl, by first | exact h.enc | rfl, hok, h.cpl.frame hs hc⟩
      · simp only [PeerCrypto.handleRotate, h.enc, h.rot, hr, hrot, Bool.false_eq_true, if_false]
    · have hkk : (process sd (PeerCrypto.rotMsgOfBytes bm) rr.freshPend).slots ((PeerCrypto.rotMsgOfBytes bm).id % 4) = K p q := by
        rw [hs]; simp [install]
      refine ⟨bm, c.rotateKey (PeerCrypto.keyRefOf pc.master (K p q)) (PeerCrypto.rotMsgOfBytes bm).id true
        (rr.starts.getD ((PeerCrypto.rotMsgOfBytes bm).id % 4) 0), rfl, ?_, ?_, ?_, ?_⟩
      · simp only [PeerCrypto.handleRotate, h.enc, h.rot, hr, hrot, h.core, Bool.false_eq_true, if_false, if_true]
      · simp only [PeerCrypto.handleRotate, h.enc, h.rot, hr, hrot, h.core, Bool.false_eq_true, if_false, if_true]
        refine ⟨?_, ?_, ?_, hok, ?_⟩
        · simp [PeerCrypto.installKey]
        · simp [PeerCrypto.installKey, hkk]
        · simp [PeerCrypto.installKey]
        · have := h.cpl.rotate (sd' := process sd (PeerCrypto.rotMsgOfBytes bm) rr.freshPend) (K p q) (PeerCrypto.rotMsgOfBytes bm).id true
            (rr.starts.getD ((PeerCrypto.rotMsgOfBytes bm).id % 4) 0) hs (by simp [hc])
          simpa [PeerCrypto.installKey, h.core] using this
      · simp only [PeerCrypto.handleRotate, h.enc, h.rot, hr, hrot, h.core, Bool.false_eq_true, if_false, if_true]
        simp [PeerCrypto.installKey]
      · simp [Core.rotateKey]

/-- effect of `handle_message` on an established session, for a datagram without handshake marker: errors leave the rotation state
    alone; a payload message is handed on; a rotation message (`res = .none`) is exactly the one the datagram carries, and it is
    processed by the rotation state -/
def RecvEff (bodyOf : Init.BodyOf) (pc : PeerCrypto) (sd : Side) (c : Core) (d : Bytes) (f : Nat) : POutcome MsgResult → Prop
  | .panic => True
  | .err pc' _ => ∃ c', Sess pc' sd c' ∧ pc'.master = pc.master ∧ c'.half = c.half
  | .ok pc' _ res log => log = [] ∧ pc'.master = pc.master ∧ ∃ c', c'.half = c.half ∧
      ((res ≠ .none ∧ Sess pc' sd c') ∨ (res = .none ∧ ∃ m, rotOf bodyOf d = some m ∧ Sess pc' (process sd m f) c'))

theorem handleMessage_eff {pc : PeerCrypto} {sd : Side} {c : Core} (h : Sess pc sd c) (env : CryptoEnv) (bodyOf : Init.BodyOf)
    (ok : Bytes → Bool) (d tail : Bytes) (rnd : Rand) (rr : RotRand) (hf : rr.freshPend < 2 ^ 256)
    (hd : d.head? ≠ some Generated.INIT_MESSAGE_FIRST_BYTE) :
    RecvEff bodyOf pc sd c d rr.freshPend (PeerCrypto.handleMessage env bodyOf ok pc d tail rnd rr) := by
  rw [handleMessage_eq]
  cases d with
  | nil => exact ⟨c, h, rfl, rfl⟩
  | cons b0 rest =>
    have hb : ¬ b0 = Generated.INIT_MESSAGE_FIRST_BYTE := fun e => hd (by rw [e]; rfl)
    simp only [hb, if_false]
    rcases decMsg_sess h bodyOf (b0 :: rest) with ⟨c', he, hs⟩ | ⟨c', key, n, p, he, hs, hbody⟩
    · rw [he]
      exact ⟨c', h.withCore hs, rfl, hs.half⟩
    · rw [he]
      simp only []
      have h1 := h.withCore hs
      cases p with
      | nil => trivial
      | cons ty body =>
        simp only []
        by_cases hty : ty = Generated.MESSAGE_TYPE_ROTATION
        · rw [if_pos hty]
          have hdata : body ++ (if ({ pc with core := some c' } : PeerCrypto).unencrypted then tail else []) = body := by
            have : ({ pc with core := some c' } : PeerCrypto).unencrypted = false := h.enc
            rw [this]; simp
          rw [hdata]
          by_cases hpan : PeerCrypto.rotatePanics { pc with core := some c' } body = true
          · rw [if_pos hpan]; trivial
          rw [if_neg hpan]
          rcases handleRotate_eff h1 body rr hf with ⟨_, hr⟩ | ⟨bm, c2, hrd, hr2, hs2, hm2, hh2⟩
          · rw [hr]
            exact ⟨c', h1, rfl, hs.half⟩
          · generalize PeerCrypto.handleRotate { pc with core := some c' } body rr = r at hr2 hs2 hm2
            obtain ⟨pc2, r2⟩ := r
            simp only [] at hr2 hs2 hm2
            subst hr2
            refine ⟨rfl, hm2, c2, hh2.trans hs.half, Or.inr ⟨rfl, _, ?_, hs2⟩⟩
            unfold rotOf
            rw [hbody]
            simp only [hty, if_true, hrd, Option.map_some]
        · rw [if_neg hty]
          exact ⟨rfl, rfl, c', hs.half, Or.inl ⟨(by intro e; cases e), h1⟩⟩

/-! ### sending payload -/

theorem sendMessage_eff {pc : PeerCrypto} {sd : Side} {c : Core} (h : Sess pc sd c) (ty : Nat) (body ct : Bytes) :
    ∃ c' hdr key n, PeerCrypto.sendMessage pc ty body ct = ({ pc with core := some c' }, .ok (hdr ++ ct, [(ct, .sealed key n (ty :: body))])) ∧
      CoreSame c c' ∧ hdr.length = 8 ∧ hdr.head? = some sd.cur :=
  sealMsg_sess h (ty :: body) ct

/-! ### the state right after the handshake -/

theorem sideOK_initSide (b : Bool) (p : Nat) (hp : p < 2 ^ 256) : SideOK (PeerCrypto.initSide b p) := by
  refine ⟨by simp [PeerCrypto.initSide], by simp [PeerCrypto.initSide, NonDummy], ?_, ?_, ?_⟩
  · intro k e h; simp [PeerCrypto.initSide] at h
  · intro q h
    cases b
    · simp [PeerCrypto.initSide] at h
    · simp [PeerCrypto.initSide] at h; omega
  · intro c i h; simp [PeerCrypto.initSide] at h

/-- a session whose core comes out of the handshake (4 slots, sealing with slot 0, `master` = the key reference of slot 0) and whose
    rotation state is the initial one is an established, coupled session -/
theorem sess_initSide {pc : PeerCrypto} {c0 : Core} (b : Bool) (p : Nat) (hp : p < 2 ^ 256)
    (hr : pc.rot = some (PeerCrypto.initSide b p)) (hc : pc.core = some c0) (hu : pc.unencrypted = false)
    (hm : pc.master = (c0.slots[0]?.map (·.key)).getD 0) (hlen : c0.slots.length = 4) (hcur : c0.cur = 0) :
    Sess pc (PeerCrypto.initSide b p) c0 := by
  refine ⟨hr, hc, hu, sideOK_initSide b p hp, hlen, by rw [hcur]; rfl, ?_⟩
  intro i hi hn
  have h0 : i = 0 := by
    rcases Nat.eq_zero_or_pos i with h | h
    · exact h
    · exfalso
      have : ¬ i = 0 := by omega
      simp [PeerCrypto.initSide, this, NonDummy] at hn
  subst h0
  have hlt : 0 < c0.slots.length := by omega
  simp only [keysOf, List.getElem?_map, PeerCrypto.initSide, if_true, PeerCrypto.keyRefOf, hm,
    List.getElem?_eq_getElem hlt, Option.map_some, Option.getD_some]

/-! ### one tick of a quiet established session, exactly -/

theorem quiet_tick {pc : PeerCrypto} {sd : Side} {c : Core} (h : Sess pc sd c) (hq : Quiet pc) (rr : RotRand) (hf : rr.freshProp < 2 ^ 256) :
    ∃ pc' out res log c', PeerCrypto.everySecond pc rr = .ok pc' out res log ∧ Quiet pc' ∧ pc'.master = pc.master ∧ c'.half = c.half ∧
      if pc.rotateCounter + 1 < Generated.ROTATE_INTERVAL then
        Sess pc' sd c' ∧ log = [] ∧ out = [] ∧ pc'.rotateCounter = pc.rotateCounter + 1
      else
        pc'.rotateCounter = 0 ∧ Sess pc' (cycle sd rr.freshProp).1 c' ∧ CycOut sd rr (cycle sd rr.freshProp).2 out log := by
  obtain ⟨pc2, he, hs2, hq2, hm2, hc2⟩ := everySecond_quiet h hq rr
  have := tickRot_eff hs2 rr hf
  rw [he]
  generalize tickRot pc2 rr = r at this
  cases r with
  | panic => exact this.elim
  | err _ _ => exact this.elim
  | ok pc' out res log =>
    obtain ⟨hi, hm, c', hh, hif⟩ := this
    refine ⟨pc', out, res, log, c', rfl, ?_, hm.trans hm2, hh, ?_⟩
    · intro ist hist; rw [hi] at hist; exact hq2 ist hist
    · rw [hc2] at hif; exact hif

/-! ## F. lock-step progress with arbitrary numbers for new key pairs

  `C07More.lockstep_fresh` is about `Rot.Reachable`, where new key pairs are numbered by a counter.  The randomness of a session is
  arbitrary, so the side-level lemmas of `RotLemmas.lean` are redone here for deliveries with arbitrary numbers (`procF`). -/

/-- the strengthened invariant (`C07More.InvL`) on four components: the end that is ahead has sent its latest message -/
def InvL4 (X Y : Side) (sx sy : List Msg) : Prop := AheadL X Y sx sy ∨ AheadL Y X sy sx

theorem invL4_inv4 {X Y : Side} {sx sy : List Msg} (h : InvL4 X Y sx sy) : Inv4 X Y sx sy := h.imp And.left And.left

theorem invL4_symm {X Y : Side} {sx sy : List Msg} (h : InvL4 X Y sx sy) : InvL4 Y X sy sx := h.symm

theorem invL4_rop {X Y X' : Side} {sx sy sx' : List Msg} (h : InvL4 X Y sx sy) (r : ROp X sx sy X' sx') : InvL4 X' Y sx' sy := by
  cases r with
  | stutter => exact h
  | cycle f =>
    rcases h with h | h
    · exact Or.inl (aheadL_cycleX h f).1
    · by_cases hw : Waiting X
      · exact Or.inl (aheadL_cycleY_waiting h hw f).1
      · exact Or.inr (aheadL_cycleY_not_waiting h hw f).1
  | deliver m hm f =>
    rcases h with h | h
    · rw [ahead_delivX h.1 hm f]; exact Or.inl h
    · exact Or.inr ⟨ahead_delivY h.1 hm f, h.2⟩

/-- deliver the messages of `l` one after the other, each with its own number for the reply key pair -/
def procF : Side → List (Msg × Nat) → Side
  | Y, [] => Y
  | Y, (m, f) :: l => procF (process Y m f) l

theorem aheadL_procF {X : Side} {sx sy : List Msg} (l : List (Msg × Nat)) :
    ∀ {Y : Side}, AheadL X Y sx sy → (∀ p ∈ l, p.1 ∈ sx) →
      AheadL X (procF Y l) sx sy ∧ (procF Y l).id = Y.id ∧
      (Waiting Y → Waiting (procF Y l)) ∧ ((∃ p ∈ l, p.1.id = X.id) → Waiting (procF Y l)) := by
  induction l with
  | nil =>
    intro Y h _
    refine ⟨h, rfl, id, ?_⟩
    rintro ⟨p, hp, _⟩; cases hp
  | cons a l ih =>
    intro Y h hl
    obtain ⟨m, f⟩ := a
    have ha : m ∈ sx := hl (m, f) List.mem_cons_self
    have h1 : AheadL X (process Y m f) sx sy := ⟨ahead_delivY h.1 ha f, h.2⟩
    obtain ⟨i1, i2, i3, i4⟩ := ih (Y := process Y m f) h1 (fun p hp => hl p (List.mem_cons_of_mem _ hp))
    refine ⟨i1, by rw [show procF Y ((m, f) :: l) = procF (process Y m f) l from rfl, i2, process_id],
      fun hw => i3 (process_waiting hw m f), ?_⟩
    rintro ⟨p, hp, hpid⟩
    rcases List.mem_cons.1 hp with rfl | hp
    · exact i3 (process_latest h.1 ha hpid f)
    · exact i4 ⟨p, hp, hpid⟩

theorem procF_ignored {X Y : Side} {sx sy : List Msg} (h : Ahead X Y sx sy) (l : List (Msg × Nat)) :
    (∀ p ∈ l, p.1 ∈ sy) → procF X l = X := by
  induction l with
  | nil => intro _; rfl
  | cons a l ih =>
    intro hl
    obtain ⟨m, f⟩ := a
    show procF (process X m f) l = X
    rw [ahead_delivX h (hl (m, f) List.mem_cons_self) f]
    exact ih (fun p hp => hl p (List.mem_cons_of_mem _ hp))

/-- `l` delivers exactly the messages of `s` (any order, any multiplicity ≥ 1, any numbers) -/
def Covers (l : List (Msg × Nat)) (s : List Msg) : Prop := ∀ m, (∃ p ∈ l, p.1 = m) ↔ m ∈ s

section halfF
variable {A B : Side} {sa sb : List Msg} {l : List (Msg × Nat)} (f : Nat)

theorem halfF_ahead (h : AheadL A B sa sb) (hl : Covers l (addMsg sa (cycle A f).2)) :
    AheadL (cycle A f).1 (procF B l) (addMsg sa (cycle A f).2) sb ∧ Waiting (procF B l) ∧
      (cycle A f).1.id = A.id ∧ (procF B l).id = B.id := by
  obtain ⟨h1, hid⟩ := aheadL_cycleX h f
  obtain ⟨i1, i2, _, i4⟩ := aheadL_procF l (Y := B) h1 (fun p hp => (hl p.1).1 ⟨p, hp, rfl⟩)
  obtain ⟨m, hm, hmid⟩ := h1.2
  obtain ⟨p, hp, hpm⟩ := (hl m).2 hm
  exact ⟨i1, i4 ⟨p, hp, by rw [hpm]; exact hmid⟩, hid, i2⟩

theorem halfF_behind_waiting (h : AheadL B A sb sa) (hw : Waiting A) (hl : Covers l (addMsg sa (cycle A f).2)) :
    AheadL (cycle A f).1 (procF B l) (addMsg sa (cycle A f).2) sb ∧ Waiting (procF B l) ∧
      (cycle A f).1.id = A.id + 2 ∧ (procF B l).id = B.id := by
  obtain ⟨h1, hid⟩ := aheadL_cycleY_waiting h hw f
  obtain ⟨i1, i2, _, i4⟩ := aheadL_procF l (Y := B) h1 (fun p hp => (hl p.1).1 ⟨p, hp, rfl⟩)
  obtain ⟨m, hm, hmid⟩ := h1.2
  obtain ⟨p, hp, hpm⟩ := (hl m).2 hm
  exact ⟨i1, i4 ⟨p, hp, by rw [hpm]; exact hmid⟩, hid, i2⟩

theorem halfF_behind_not_waiting (h : AheadL B A sb sa) (hw : ¬ Waiting A) (hl : Covers l (addMsg sa (cycle A f).2)) :
    AheadL (procF B l) (cycle A f).1 sb (addMsg sa (cycle A f).2) ∧
      (cycle A f).1.id = A.id ∧ (procF B l).id = B.id := by
  obtain ⟨h1, hid⟩ := aheadL_cycleY_not_waiting h hw f
  have hB : procF B l = B := procF_ignored h1.1 l (fun p hp => (hl p.1).1 ⟨p, hp, rfl⟩)
  rw [hB]
  exact ⟨h1, hid, rfl⟩

end halfF

/-- **one round of the loss-free lock-step schedule** on `(X, Y, sx, sy)`: a cycle of `X` (number `f`), every message `X` has sent is delivered
    to `Y` (`l1`), a cycle of `Y` (number `f'`), every message `Y` has sent is delivered to `X` (`l2`); all numbers arbitrary -/
def RoundF (X Y : Side) (sx sy : List Msg) (X' Y' : Side) (sx' sy' : List Msg) : Prop :=
  ∃ f f' l1 l2, Covers l1 (addMsg sx (cycle X f).2) ∧ Covers l2 (addMsg sy (cycle (procF Y l1) f').2) ∧
    X' = procF (cycle X f).1 l2 ∧ Y' = (cycle (procF Y l1) f').1 ∧
    sx' = addMsg sx (cycle X f).2 ∧ sy' = addMsg sy (cycle (procF Y l1) f').2

/-- after one round from any state of the invariant `Y` is ahead and `X` waits (steady state); no id has decreased; from the steady
    state both ids have advanced by exactly 2 -/
theorem roundF_spec {X Y X' Y' : Side} {sx sy sx' sy' : List Msg} (h : InvL4 X Y sx sy) (r : RoundF X Y sx sy X' Y' sx' sy') :
    AheadL Y' X' sy' sx' ∧ Waiting X' ∧ X.id ≤ X'.id ∧ Y.id ≤ Y'.id ∧
      (AheadL Y X sy sx → Waiting X → X'.id = X.id + 2 ∧ Y'.id = Y.id + 2) := by
  obtain ⟨f, f', l1, l2, hl1, hl2, rfl, rfl, rfl, rfl⟩ := r
  rcases h with h | h
  · obtain ⟨a1, a2, a3, a4⟩ := halfF_ahead f h hl1
    obtain ⟨b1, b2, b3, b4⟩ := halfF_behind_waiting f' a1 a2 hl2
    refine ⟨b1, b2, by omega, by omega, fun h' _ => ?_⟩
    have := h.1.idrel; have := h'.1.idrel; omega
  · by_cases hw : Waiting X
    · obtain ⟨a1, a2, a3, a4⟩ := halfF_behind_waiting f h hw hl1
      obtain ⟨b1, b2, b3, b4⟩ := halfF_behind_waiting f' a1 a2 hl2
      exact ⟨b1, b2, by omega, by omega, fun _ _ => ⟨by omega, by omega⟩⟩
    · obtain ⟨a1, a3, a4⟩ := halfF_behind_not_waiting f h hw hl1
      obtain ⟨b1, b2, b3, b4⟩ := halfF_ahead f' a1 hl2
      exact ⟨b1, b2, by omega, by omega, fun _ hw' => absurd hw' hw⟩

/-- **two rounds suffice** (generalisation of `C07More.lockstep_fresh` to arbitrary numbers): after two rounds both ends have advanced
    their id — each has installed a new key and made a new proposal -/
theorem lockstepF_fresh {X Y X1 Y1 X2 Y2 : Side} {sx sy sx1 sy1 sx2 sy2 : List Msg} (h : InvL4 X Y sx sy)
    (r1 : RoundF X Y sx sy X1 Y1 sx1 sy1) (r2 : RoundF X1 Y1 sx1 sy1 X2 Y2 sx2 sy2) : X2.id > X.id ∧ Y2.id > Y.id := by
  obtain ⟨a1, a2, a3, a4, _⟩ := roundF_spec h r1
  obtain ⟨_, _, _, _, b5⟩ := roundF_spec (Or.inr a1) r2
  obtain ⟨c1, c2⟩ := b5 a1 a2
  omega

end VpnCloud.Proofs.C07SessionLemmas
