import VpnCloud.Proofs.Lemmas.C14ExchangeLemmas
import VpnCloud.Proofs.C01More
import VpnCloud.Proofs.C05Lockstep
import VpnCloud.Proofs.C14
/-
  C14, first half: ONE peer-exchange round of the node model realises the abstract mesh step `C14.Graph.step`
  ("every node learns its neighbours' neighbours").

  1. `announcement_lists_every_peer` / `announcement_roundtrip`: what `create_node_info` lists, and what the receiver decodes.
  2. `listed_stranger_is_dialled`: an entry about an unknown node in a node information message from an established peer is dialled
     (exact side condition about the earlier entries of the list: `NoInterference`; stateful version
     `C14ExchangeLemmas.connectToPeers_entry_dialled`).
  3. `listed_known_not_dialled` (+ `_entry`, `all_known_nothing_dialled`): entries under the node's own id, under the id of a peer, or
     with the address of a peer cause no datagram and no pending attempt.
  4. `exchange_realises_step`: A's due announcement, delivered over a session in sync, makes B dial C; `exchange_then_handshake`:
     composed with `C05Lockstep.lockstep_completes_run`.
  5. `bounded_rounds` / `bounded_rounds_nodes`: `mesh_closure` for a run whose rounds realise at least `Graph.step`.

  Auxiliary definitions used in the statements (`Lemmas/C14ExchangeLemmas.lean`): `attemptSt` (the handshake state of
  `Crypto::peer_instance(create_node_info())`, = the `init` field of `newAttempt` by `rfl`), `Dialled`, `Unknown`, `NoInterference`,
  `AnnounceWF`, `entryOf`.
-/
namespace VpnCloud.Proofs.C14Exchange

open VpnCloud VpnCloud.Node
open VpnCloud.Proofs.NodeLemmas VpnCloud.Proofs.NodeLemmas2
open VpnCloud.Proofs.C14ExchangeLemmas
open VpnCloud.Proofs.C15More (FromPeer)
open VpnCloud.Proofs.C15MoreLemmas (preAnnounce refreshed refreshed_nodeId)
open VpnCloud.Proofs.C01MoreLemmas (Dials)
open VpnCloud.Spec.C16 (normAddrs normalise sockWF rangeWF)

/-! ## 1. what the announcement lists -/

/-- **announcement_lists_every_peer**: the node information a node announces (and puts into every handshake) lists EVERY peer record,
    in the order of the peer list, as an entry with the peer's node id and the addresses recorded for it — the model has no cut at
    20 entries (the real `create_node_info` sends a random 20-subset when there are more than 20 peers; meshes here are smaller) —,
    and carries the node's id, its configured claims, `peer_timeout_publish` as advertised timeout and its own addresses. -/
theorem announcement_lists_every_peer (n : Node) :
    (createNodeInfo n).peers = n.peers.map (fun x => ({ nodeId := some x.2.nodeId, addrs := x.2.addrs } : PeerInfo)) ∧
    (∀ a p, (a, p) ∈ n.peers → ({ nodeId := some p.nodeId, addrs := p.addrs } : PeerInfo) ∈ (createNodeInfo n).peers) ∧
    (createNodeInfo n).peers.length = n.peers.length ∧
    (createNodeInfo n).nodeId = n.nodeId ∧ (createNodeInfo n).claims = n.cfg.claims ∧
    (createNodeInfo n).peerTimeout = some n.cfg.peerTimeoutPublish ∧ (createNodeInfo n).addrs = n.own := by
  refine ⟨rfl, fun a p h => ?_, ?_, rfl, rfl, rfl, rfl⟩
  · exact List.mem_map.2 ⟨(a, p), h, rfl⟩
  · show (n.peers.map _).length = _
    rw [List.length_map]

/-- **announcement_roundtrip**: under the guard `AnnounceWF` (field widths; at most 243 peers and 3640 claims so that the two list parts
    fit their 16-bit length fields) the announced bytes — also with stale bytes behind them — decode to the announced information
    in normal form: every peer record is still listed, with its node id, and of its addresses the IPv6 ones first and at most seven per
    family (`normAddrs`); the same for the node's own addresses; id, claims and advertised timeout unchanged. -/
theorem announcement_roundtrip (n : Node) (h : AnnounceWF n) (tail : Bytes) :
    Codec.decodeNodeInfo (Codec.encodeNodeInfo (createNodeInfo n) ++ tail) = some (normalise (createNodeInfo n)) ∧
    (normalise (createNodeInfo n)).peers =
      n.peers.map (fun x => ({ nodeId := some x.2.nodeId, addrs := normAddrs x.2.addrs } : PeerInfo)) ∧
    (∀ a p, (a, p) ∈ n.peers →
      ({ nodeId := some p.nodeId, addrs := normAddrs p.addrs } : PeerInfo) ∈ (normalise (createNodeInfo n)).peers) ∧
    (normalise (createNodeInfo n)).nodeId = n.nodeId ∧ (normalise (createNodeInfo n)).claims = n.cfg.claims ∧
    (normalise (createNodeInfo n)).peerTimeout = some n.cfg.peerTimeoutPublish ∧
    (normalise (createNodeInfo n)).addrs = normAddrs n.own := by
  refine ⟨C16.nodeinfo_roundtrip _ (createNodeInfo_WF n h) tail, normalise_createNodeInfo_peers n, fun a p hm => ?_, rfl, rfl, rfl, rfl⟩
  rw [normalise_createNodeInfo_peers]
  exact List.mem_map.2 ⟨(a, p), hm, rfl⟩

/-- … in particular for the announcement of a housekeeping tick (`C15More.announced_info` gives its id, claims, timeout and own addresses):
    every peer that is left after the removal of the expired ones and the per-second session housekeeping (`preAnnounce`) is listed -/
theorem tick_announcement_lists_every_peer (env : CryptoEnv) (o : Oracle) (n : Node) (now : Int) (a : NAddr) (p : Peer)
    (h : (a, p) ∈ (preAnnounce env o n now).node.peers) :
    ({ nodeId := some p.nodeId, addrs := p.addrs } : PeerInfo) ∈ (createNodeInfo (preAnnounce env o n now).node).peers :=
  (announcement_lists_every_peer _).2.1 a p h

/-- nothing is lost in the round trip when the recorded addresses are already in normal form (IPv6 first, at most seven per family) —
    e.g. the usual record `[seen address (mapped, IPv6)] ++ announced addresses` of `update_peer_info` with few addresses -/
theorem announcement_roundtrip_exact (l6 l4 : List SockAddr) (h6 : ∀ a ∈ l6, Codec.isV4 a = false) (h4 : ∀ a ∈ l4, Codec.isV4 a = true)
    (n6 : l6.length ≤ 7) (n4 : l4.length ≤ 7) : normAddrs (l6 ++ l4) = l6 ++ l4 :=
  normAddrs_id l6 l4 h6 h4 n6 n4

/-! ## 2. a listed stranger is dialled -/

theorem afterInfo_keys {n : Node} {s : NAddr} {p : Peer} (hp : lookupA n.peers s = some p) (now : Int) (pc : PeerCrypto) (info : NodeInfo)
    (log : Init.SealLog) : (afterInfo n now s p pc info log).node.peers.map (·.1) = n.peers.map (·.1) :=
  insertA_keys_of_some _ _ _ _ hp

theorem afterInfo_unknown {n : Node} {s : NAddr} {p : Peer} (hp : lookupA n.peers s = some p) (now : Int) (pc : PeerCrypto) (info : NodeInfo)
    (log : Init.SealLog) {e : PeerInfo} (hu : Unknown n e) : Unknown (afterInfo n now s p pc info log).node e := by
  obtain ⟨h1, h2, h3⟩ := hu
  refine ⟨h1, ?_, ?_⟩
  · intro id hid x hx
    rcases mem_insertA hx with rfl | hx
    · show (refreshed { p with crypto := pc } _ s (some info)).nodeId ≠ id
      rw [refreshed_nodeId]
      exact h2 id hid (s, p) (lookupA_some_mem hp)
    · exact h2 id hid x hx
  · intro a ha
    rw [afterInfo_keys hp]
    exact h3 a ha

/-- **listed_stranger_is_dialled**: node B (`n`) receives from the established peer A (`src`) a datagram that A's session opens as a
    node information message (`FromPeer`), which decodes to `info`; its peer list is `pre ++ e :: post`, where the entry `e`
    * is about a node B knows nothing of (`Unknown`: not B's own id, no peer record of B carries its id — or it has none —, none of
      its addresses as listed is a peer address),
    * none of its addresses in mapped form is a peer address, an own address or pending at B, and
    * the entries before it do not interfere (`NoInterference`: none of the mapped addresses of `e` is listed as it is in an earlier
      entry under B's own id — it would be adopted as own address first — or in mapped form in an earlier entry under another id — it
      might be dialled for that entry first; `connect` does nothing at all if ANY of the addresses is known).
    Then the step reports no error and B has dialled EVERY address of `e`: a handshake datagram `0xff :: ping` to the mapped address
    is among the outputs of the step and the pending attempt stored for it is the handshake object of B (B's id, key, trust list,
    algorithms, B's current node information as payload) that has sent exactly this ping. -/
theorem listed_stranger_is_dialled {env : CryptoEnv} {bodyOf : Init.BodyOf} {o : Oracle} {n : Node} {src : NAddr} {data tail : Bytes}
    {p : Peer} {pc : PeerCrypto} {body : Bytes}
    (h : FromPeer env bodyOf o n src data tail p pc Generated.MESSAGE_TYPE_NODE_INFO body) (now : Int)
    (info : NodeInfo) (hdec : Codec.decodeNodeInfo body = some info)
    (pre post : List PeerInfo) (e : PeerInfo) (hsplit : info.peers = pre ++ e :: post)
    (hu : Unknown n e)
    (haddr : ∀ a ∈ e.addrs, mappedAddr a ∉ n.peers.map (·.1) ∧ mappedAddr a ∉ n.own ∧ mappedAddr a ∉ n.pending.map (·.1))
    (hpre : NoInterference n.nodeId pre e) :
    (handleNet env bodyOf o n now src data tail).2 = none ∧
    ∀ a ∈ e.addrs, Dialled env (mappedAddr a) (handleNet env bodyOf o n now src data tail).1 := by
  obtain ⟨log, hn⟩ := handleNet_nodeinfo h now info hdec
  rw [hn, hsplit]
  refine ⟨rfl, ?_⟩
  apply connectToPeers_entry_dialled_static env o _ pre post e (afterInfo_unknown h.peer now pc info log hu)
  · intro a ha
    obtain ⟨h1, h2, h3⟩ := haddr a ha
    exact ⟨by rw [afterInfo_keys h.peer]; exact h1, h2, h3⟩
  · exact hpre

/-! ## 3. known entries are not dialled -/

/-- **listed_known_not_dialled** (one entry, any state `c` of the node): an entry
    (i) under the node's own id whose addresses are no peer addresses (`C01More.own_addresses_adopted_not_dialled`: the addresses are
        adopted as own addresses), (ii) under the node id of a peer record (other than the node's own id), or (iii) one of whose
        addresses, as listed, is the address of a peer,
    causes no datagram and no pending attempt; in the cases (ii) and (iii) nothing changes at all. -/
theorem listed_known_not_dialled_entry (env : CryptoEnv) (o : Oracle) (c : Ctx) (pi : PeerInfo) :
    (pi.nodeId = some c.node.nodeId → (∀ a ∈ pi.addrs, a ∉ c.node.peers.map (·.1)) →
      (connectToPeers env o c [pi]).outs = c.outs ∧ (connectToPeers env o c [pi]).node.pending = c.node.pending ∧
      (connectToPeers env o c [pi]).node.peers = c.node.peers ∧
      ∀ a, a ∈ (connectToPeers env o c [pi]).node.own ↔ a ∈ c.node.own ∨ a ∈ pi.addrs) ∧
    (∀ id, pi.nodeId = some id → id ≠ c.node.nodeId → (∃ x ∈ c.node.peers, x.2.nodeId = id) → connectToPeers env o c [pi] = c) ∧
    ((∃ a ∈ pi.addrs, a ∈ c.node.peers.map (·.1)) → connectToPeers env o c [pi] = c) := by
  refine ⟨fun hid hnp => ?_, fun id hid hne hx => connectToPeers_known_id env o c pi id hid hne hx,
    fun hk => connectToPeers_known_addr env o c pi hk⟩
  obtain ⟨h1, h2, h3, _, h5⟩ := C01More.own_addresses_adopted_not_dialled env o c pi hid hnp
  exact ⟨h1, h2, h3, h5⟩

/-- why the step dialled `d`: `d` was neither an own address nor a peer address, and it is the mapped form of an address of an entry of
    the announced list that does not carry the node's own id, does not carry the id of a peer (a record found under some address), and
    none of whose addresses as listed is a peer address -/
def Cause (n : Node) (info : NodeInfo) (d : NAddr) : Prop :=
  d ∉ n.own ∧ d ∉ n.peers.map (·.1) ∧ ∃ pi ∈ info.peers, pi.nodeId ≠ some n.nodeId ∧
    (∀ a q, lookupA n.peers a = some q → pi.nodeId ≠ some q.nodeId) ∧ (∀ a ∈ pi.addrs, a ∉ n.peers.map (·.1)) ∧
    d ∈ pi.addrs.map mappedAddr

/-- **listed_known_not_dialled** (the whole step): when B (`n`) handles a node information message of an established peer, EVERYTHING
    the step emits is a handshake datagram to, and every new pending attempt is for, an address with a `Cause`: the mapped address
    of an entry that is not under B's own id, not under the id of a current peer, has no peer address among its addresses, and the
    address itself is neither an own address nor a peer address.  Entries under B's own id, under a known node id, or with a known
    address therefore cause no datagram and no pending attempt, wherever they stand in the list. -/
theorem listed_known_not_dialled {env : CryptoEnv} {bodyOf : Init.BodyOf} {o : Oracle} {n : Node} {src : NAddr} {data tail : Bytes}
    {p : Peer} {pc : PeerCrypto} {body : Bytes}
    (h : FromPeer env bodyOf o n src data tail p pc Generated.MESSAGE_TYPE_NODE_INFO body) (now : Int)
    (info : NodeInfo) (hdec : Codec.decodeNodeInfo body = some info) :
    (∀ x ∈ (handleNet env bodyOf o n now src data tail).1.outs,
      ∃ d b, x = .dgram d (Generated.INIT_MESSAGE_FIRST_BYTE :: b) ∧ Cause n info d) ∧
    (∀ d, d ∈ (handleNet env bodyOf o n now src data tail).1.node.pending.map (·.1) → d ∈ n.pending.map (·.1) ∨ Cause n info d) := by
  obtain ⟨log, hn⟩ := handleNet_nodeinfo h now info hdec
  rw [hn]
  have hd := connectToPeers_dials_unknown env o info.peers (afterInfo n now (mappedAddr src) p pc info log)
  have hcause : ∀ d, (d ∉ (afterInfo n now (mappedAddr src) p pc info log).node.own ∧
      d ∉ (afterInfo n now (mappedAddr src) p pc info log).node.peers.map (·.1) ∧
      ∃ pi ∈ info.peers, Unknown (afterInfo n now (mappedAddr src) p pc info log).node pi ∧ d ∈ pi.addrs.map mappedAddr) → Cause n info d := by
    rintro d ⟨h1, h2, pi, hpi, ⟨u1, u2, u3⟩, hm⟩
    rw [afterInfo_keys h.peer] at h2
    refine ⟨h1, h2, pi, hpi, u1, ?_, ?_, hm⟩
    · intro a q hq hid
      by_cases ha : a = mappedAddr src
      · subst ha
        rw [h.peer] at hq
        cases hq
        refine u2 p.nodeId hid (mappedAddr src, _) (lookupA_some_mem (lookupA_insertA_self' _ _ _)) ?_
        exact refreshed_nodeId _ _ _ _
      · refine u2 q.nodeId hid (a, q) (lookupA_some_mem ?_) rfl
        show lookupA (insertA n.peers (mappedAddr src) _) a = some q
        rw [VpnCloud.Proofs.C15MoreLemmas.lookupA_insertA_ne _ _ ha]
        exact hq
    · intro a ha
      have := u3 a ha
      rwa [afterInfo_keys h.peer] at this
  refine ⟨?_, ?_⟩
  · obtain ⟨ex, he, hex⟩ := hd.outs
    intro x hx
    rw [he] at hx
    have hx' : x ∈ ex := by simpa [afterInfo] using hx
    obtain ⟨d, b, hxe, hD⟩ := hex x hx'
    exact ⟨d, b, hxe, hcause d hD⟩
  · intro d hdm
    rcases hd.pending d hdm with h1 | h1
    · exact Or.inl h1
    · exact Or.inr (hcause d h1)

/-- if every entry of the announced list is known to B — it carries B's own id, or the id of a peer, or one of its addresses is a peer
    address — the step emits nothing and creates no pending attempt -/
theorem all_known_nothing_dialled {env : CryptoEnv} {bodyOf : Init.BodyOf} {o : Oracle} {n : Node} {src : NAddr} {data tail : Bytes}
    {p : Peer} {pc : PeerCrypto} {body : Bytes}
    (h : FromPeer env bodyOf o n src data tail p pc Generated.MESSAGE_TYPE_NODE_INFO body) (now : Int)
    (info : NodeInfo) (hdec : Codec.decodeNodeInfo body = some info)
    (hall : ∀ pi ∈ info.peers, pi.nodeId = some n.nodeId ∨ (∃ a q, lookupA n.peers a = some q ∧ pi.nodeId = some q.nodeId) ∨
      ∃ a ∈ pi.addrs, a ∈ n.peers.map (·.1)) :
    (handleNet env bodyOf o n now src data tail).1.outs = [] ∧
    ∀ d, d ∈ (handleNet env bodyOf o n now src data tail).1.node.pending.map (·.1) → d ∈ n.pending.map (·.1) := by
  obtain ⟨h1, h2⟩ := listed_known_not_dialled h now info hdec
  have hno : ∀ d, ¬ Cause n info d := by
    rintro d ⟨_, _, pi, hpi, c1, c2, c3, _⟩
    rcases hall pi hpi with k | ⟨a, q, hq, hid⟩ | ⟨a, ha, hk⟩
    · exact c1 k
    · exact c2 a q hq hid
    · exact c3 a ha hk
  refine ⟨?_, fun d hd => (h2 d hd).resolve_right (hno d)⟩
  cases hl : (handleNet env bodyOf o n now src data tail).1.outs with
  | nil => rfl
  | cons x xs =>
    obtain ⟨d, _, _, hc⟩ := h1 x (by rw [hl]; exact List.mem_cons_self)
    exact absurd hc (hno d)

/-! ## 4. one exchange realises the step: A announces C to B, B dials C -/

/-- the entry a receiver decodes for a peer record of the announcer -/
def entryN (p : Peer) : PeerInfo := { nodeId := some p.nodeId, addrs := normAddrs p.addrs }

open VpnCloud.Proofs.C10NetLemmas (InSync LogOK) in
/-- **exchange_realises_step** (the edge B–C of `Graph.step` is being established).  Three nodes: A (`nA`), B (`nB`) and C.
    * A's housekeeping tick at `nowA` finds the announcement due; A's peer addresses are pairwise distinct; after the removal of
      expired peers and the per-second session housekeeping of this tick (`preAnnounce`) A's peer list is `l1 ++ (ck, pC) :: l2` — `pC`
      is A's record of C — and A's record of B under the address `b` is `p3`; `c` is one of the addresses recorded for C that the
      encoding keeps (`normAddrs`: at most seven per family); the announced information meets the guard of the encoder.
    * B's record of A (under the mapped form of A's address `a`) is `pA`, and A's session for B is in sync with B's session for A
      for the direction A → B (`InSync`, as in `C10Net`); the ideal AEAD views the ciphertexts A emits in this tick as what A sealed
      (`LogOK`; vacuous for an unencrypted link).
    * B knows nothing of C yet (`Unknown`, no mapped address of C's entry is a peer address, own address or pending at B), and the
      records A lists before C do not interfere (`NoInterference`; in a three-node mesh `l1` is empty or A's record of B itself,
      which B adopts as own addresses).
    Then A's tick puts a datagram for `b` on the wire such that B's step on that datagram (arriving from `a`, at any time `nowB`,
    with any stale bytes `tail` behind it) reports no error and B has dialled `c`: the ping to `mappedAddr c` is among the outputs of
    B's step and B holds the pending attempt that sent it. -/
theorem exchange_realises_step (env : CryptoEnv) (bodyOf : Init.BodyOf) (oA oB : Oracle) (nA nB : Node) (nowA nowB : Int)
    (a b ck c : NAddr) (tail : Bytes) (room : Nat)
    (hdue : nA.nextPeers ≤ nowA) (hnd : (nA.peers.map (·.1)).Nodup)
    (l1 l2 : List (NAddr × Peer)) (pC : Peer)
    (hpeers : (preAnnounce env oA nA nowA).node.peers = l1 ++ (ck, pC) :: l2)
    (hc : c ∈ normAddrs pC.addrs)
    (hwf : VpnCloud.Spec.C16.WF (createNodeInfo (preAnnounce env oA nA nowA).node) = true)
    (p3 pA : Peer) (hp3 : lookupA (preAnnounce env oA nA nowA).node.peers b = some p3)
    (hpA : lookupA nB.peers (mappedAddr a) = some pA)
    (hsync : InSync (room + 1) p3.crypto pA.crypto)
    (hlog : LogOK bodyOf (housekeep env oA nA nowA).log)
    (hu : Unknown nB (entryN pC))
    (haddr : ∀ x ∈ normAddrs pC.addrs, mappedAddr x ∉ nB.peers.map (·.1) ∧ mappedAddr x ∉ nB.own ∧ mappedAddr x ∉ nB.pending.map (·.1))
    (hpre : NoInterference nB.nodeId (l1.map (fun x => entryN x.2)) (entryN pC)) :
    ∃ bytes, Out.dgram b bytes ∈ (housekeep env oA nA nowA).outs ∧
      (handleNet env bodyOf oB nB nowB a bytes tail).2 = none ∧
      Dialled env (mappedAddr c) (handleNet env bodyOf oB nB nowB a bytes tail).1 := by
  -- A's tick seals the announcement for B
  obtain ⟨p', ct, pc', bytes, lg, hsend, _, hout, hlg⟩ := announce_sent env oA nA nowA hdue hnd b p3 hp3 (InSync.canSeal hsync)
  refine ⟨bytes, hout, ?_⟩
  -- B's session opens it
  obtain ⟨hplain, sb', hopen⟩ := sync_opens env bodyOf payloadOk hsync Generated.MESSAGE_TYPE_NODE_INFO _ ct tail
    (rndFor oB { node := nB } (mappedAddr a)).1 (rndFor oB { node := nB } (mappedAddr a)).2.1 (by decide) (by decide)
    pc' bytes lg hsend (fun e he => hlog e (hlg e he))
  have hfp : FromPeer env bodyOf oB nB a bytes tail pA sb' Generated.MESSAGE_TYPE_NODE_INFO
      (Codec.encodeNodeInfo (createNodeInfo (preAnnounce env oA nA nowA).node)) := ⟨hpA, hplain, [], [], hopen⟩
  -- … and decodes the announced list
  have hdec : Codec.decodeNodeInfo (Codec.encodeNodeInfo (createNodeInfo (preAnnounce env oA nA nowA).node)) =
      some (normalise (createNodeInfo (preAnnounce env oA nA nowA).node)) := by
    have := C16.nodeinfo_roundtrip _ hwf []
    rwa [List.append_nil] at this
  have hsplit : (normalise (createNodeInfo (preAnnounce env oA nA nowA).node)).peers =
      l1.map (fun x => entryN x.2) ++ entryN pC :: l2.map (fun x => entryN x.2) := by
    rw [normalise_createNodeInfo_peers, hpeers, List.map_append, List.map_cons]
    rfl
  obtain ⟨h1, h2⟩ := listed_stranger_is_dialled hfp nowB _ hdec _ _ (entryN pC) hsplit hu haddr hpre
  exact ⟨h1, h2 c hc⟩

open VpnCloud.Proofs.C05Lockstep in
/-- the handshake state a dial starts from is fresh (the `Fresh` part of `C05Lockstep.Hyps` holds by construction) -/
theorem attemptSt_fresh (m : Node) (hash : Bytes) : Fresh (attemptSt m hash) := ⟨rfl, rfl, rfl, rfl, rfl⟩

open VpnCloud.Proofs.C05Lockstep in
/-- **a dial completes on reliable delivery** (composition with `C05Lockstep.lockstep_completes_run`, cited, not re-proved).  If `a` has
    been dialled, there are the fresh handshake state `ist` of the dialling node (its id, key, trust list and algorithms; payload = its
    encoded node information), the random parts `r1`, and `sendPing env ist r1 = (a1, ping)` such that `0xff :: ping` is on the wire
    for `a` and `a1` is the pending attempt stored for `a`; and for EVERY fresh responder state `b` (the handshake object C creates
    for the ping, `attemptSt nC hashC`), AEAD view and random parts that satisfy the hypotheses `C05Lockstep.Hyps` of the loss-free
    run — (i) widths, (ii) the three signatures verify, (iii) each side finds the other's key among its trusted keys, (iv) ideal AEAD
    on the two sealed payloads, (v) two different nodes, (vi) the negotiation does not fail — the three deliveries ping → C, pong → B,
    peng → C succeed, both ends report success with the other's payload and agree on cipher and keys (`Agreement`). -/
theorem dialled_handshake_completes {env : CryptoEnv} {a : NAddr} {c : Ctx} (h : Dialled env a c) :
    ∃ (m : Node) (hash : Bytes) (r1 : Rand) (a1 : InitSt) (ping : Bytes),
      Init.sendPing env (attemptSt m hash) r1 = (a1, ping) ∧
      m.nodeId = c.node.nodeId ∧ m.cfg = c.node.cfg ∧ m.peers = c.node.peers ∧ (∀ x ∈ m.own, x ∈ c.node.own) ∧
      Out.dgram a (Generated.INIT_MESSAGE_FIRST_BYTE :: ping) ∈ c.outs ∧
      lookupA c.node.pending a = some { init := some a1 } ∧
      ∀ (bodyOf : Init.BodyOf) (ok : Bytes → Bool) (b : InitSt) (r2 r3 r4 : Rand),
        Hyps env bodyOf ok (attemptSt m hash) b r1 r2 r3 →
        ∃ b1 pong l2, Init.handleInit env bodyOf ok b ping r2 = .ok b1 (pong, .continue, l2) ∧ b1.stage = Generated.STAGE_PENG ∧
        ∃ a2 peng l3, Init.handleInit env bodyOf ok a1 pong r3 = .ok a2 (peng, .success b.payload true, l3) ∧
          a2.stage = Generated.WAITING_TO_CLOSE ∧
        ∃ b2, Init.handleInit env bodyOf ok b1 peng r4 = .ok b2 ([], .success (attemptSt m hash).payload false, []) ∧
          b2.stage = Generated.CLOSING ∧
          Opens bodyOf l2 ∧ Opens bodyOf l3 ∧ Agreement (attemptSt m hash) b r1 r2 r3 a2 b2 := by
  obtain ⟨m, hash, r1, h1, h2, h3, h4, h5, h6⟩ := h
  refine ⟨m, hash, r1, _, _, rfl, h1, h2, h3, h4, h5, h6, ?_⟩
  intro bodyOf ok b r2 r3 r4 H
  exact lockstep_completes_run env bodyOf ok (attemptSt m hash) b r1 r2 r3 r4 H _ _ rfl

open VpnCloud.Proofs.C10NetLemmas (InSync LogOK) in
open VpnCloud.Proofs.C05Lockstep in
/-- **exchange_then_handshake** (the composed corollary): under the hypotheses of `exchange_realises_step`, A's tick emits a datagram for
    B whose handling at B dials `c`, and that dial — under the hypotheses `C05Lockstep.Hyps` of the loss-free run between B's fresh
    handshake state and the responder state `b` of whoever answers at `c` — completes in three deliveries (one and a half round
    trips: within two reliable rounds) with agreement.  What is NOT covered here: that C's node hands the ping to a fresh
    `attemptSt nC hashC` and turns `.success` into a peer record (`C09More.pending_handles_handshake`, `C09More.newPeerRecord`,
    `C01More.peer_added_only_after_success`), and recovery from losses (`C05Recover.reliable_rounds_complete`). -/
theorem exchange_then_handshake (env : CryptoEnv) (bodyOf : Init.BodyOf) (oA oB : Oracle) (nA nB : Node) (nowA nowB : Int)
    (a b ck c : NAddr) (tail : Bytes) (room : Nat)
    (hdue : nA.nextPeers ≤ nowA) (hnd : (nA.peers.map (·.1)).Nodup)
    (l1 l2 : List (NAddr × Peer)) (pC : Peer)
    (hpeers : (preAnnounce env oA nA nowA).node.peers = l1 ++ (ck, pC) :: l2)
    (hc : c ∈ normAddrs pC.addrs)
    (hwf : VpnCloud.Spec.C16.WF (createNodeInfo (preAnnounce env oA nA nowA).node) = true)
    (p3 pA : Peer) (hp3 : lookupA (preAnnounce env oA nA nowA).node.peers b = some p3)
    (hpA : lookupA nB.peers (mappedAddr a) = some pA)
    (hsync : InSync (room + 1) p3.crypto pA.crypto)
    (hlog : LogOK bodyOf (housekeep env oA nA nowA).log)
    (hu : Unknown nB (entryN pC))
    (haddr : ∀ x ∈ normAddrs pC.addrs, mappedAddr x ∉ nB.peers.map (·.1) ∧ mappedAddr x ∉ nB.own ∧ mappedAddr x ∉ nB.pending.map (·.1))
    (hpre : NoInterference nB.nodeId (l1.map (fun x => entryN x.2)) (entryN pC)) :
    ∃ bytes, Out.dgram b bytes ∈ (housekeep env oA nA nowA).outs ∧
    ∃ (m : Node) (hash : Bytes) (r1 : Rand) (a1 : InitSt) (ping : Bytes),
      Init.sendPing env (attemptSt m hash) r1 = (a1, ping) ∧ m.nodeId = nB.nodeId ∧ m.cfg = nB.cfg ∧
      Out.dgram (mappedAddr c) (Generated.INIT_MESSAGE_FIRST_BYTE :: ping) ∈ (handleNet env bodyOf oB nB nowB a bytes tail).1.outs ∧
      lookupA (handleNet env bodyOf oB nB nowB a bytes tail).1.node.pending (mappedAddr c) = some { init := some a1 } ∧
      ∀ (bodyOf' : Init.BodyOf) (ok : Bytes → Bool) (stC : InitSt) (r2 r3 r4 : Rand),
        Hyps env bodyOf' ok (attemptSt m hash) stC r1 r2 r3 →
        ∃ b1 pong l2, Init.handleInit env bodyOf' ok stC ping r2 = .ok b1 (pong, .continue, l2) ∧ b1.stage = Generated.STAGE_PENG ∧
        ∃ a2 peng l3, Init.handleInit env bodyOf' ok a1 pong r3 = .ok a2 (peng, .success stC.payload true, l3) ∧
          a2.stage = Generated.WAITING_TO_CLOSE ∧
        ∃ b2, Init.handleInit env bodyOf' ok b1 peng r4 = .ok b2 ([], .success (attemptSt m hash).payload false, []) ∧
          b2.stage = Generated.CLOSING ∧
          Opens bodyOf' l2 ∧ Opens bodyOf' l3 ∧ Agreement (attemptSt m hash) stC r1 r2 r3 a2 b2 := by
  obtain ⟨bytes, hout, _, hd⟩ := exchange_realises_step env bodyOf oA oB nA nB nowA nowB a b ck c tail room hdue hnd l1 l2 pC hpeers hc hwf
    p3 pA hp3 hpA hsync hlog hu haddr hpre
  obtain ⟨m, hash, r1, a1, ping, e1, e2, e3, _, _, e6, e7, e8⟩ := dialled_handshake_completes hd
  have hid : (handleNet env bodyOf oB nB nowB a bytes tail).1.node.nodeId = nB.nodeId ∧
      (handleNet env bodyOf oB nB nowB a bytes tail).1.node.cfg = nB.cfg := by
    obtain ⟨h1, h2, _⟩ := C01More.cfg_const_step (C08Node.StepAny.net env bodyOf oB nB nowB a bytes tail)
    exact ⟨h2, h1⟩
  exact ⟨bytes, hout, m, hash, r1, a1, ping, e1, e2.trans hid.1, e3.trans hid.2, e6, e7, e8⟩

/-! ## 5. bounded number of rounds -/

section Rounds
open VpnCloud.Proofs.C14

/-- `g'` has at least the edges of `g` -/
def Graph.le {n : Nat} (g g' : Graph n) : Prop := ∀ a c, g.adj a c = true → g'.adj a c = true

theorem Graph.le_refl {n : Nat} (g : Graph n) : Graph.le g g := fun _ _ h => h

theorem Graph.le_trans {n : Nat} {g1 g2 g3 : Graph n} (h1 : Graph.le g1 g2) (h2 : Graph.le g2 g3) : Graph.le g1 g3 :=
  fun a c h => h2 a c (h1 a c h)

/-- the abstract step is monotone in the graph -/
theorem Graph.step_mono {n : Nat} {g g' : Graph n} (h : Graph.le g g') : Graph.le g.step g'.step := by
  intro a c hac
  rw [Graph.step_adj] at hac ⊢
  obtain ⟨hne, hh⟩ := hac
  refine ⟨hne, ?_⟩
  rcases hh with hh | ⟨b, h1, h2⟩
  · exact Or.inl (h a c hh)
  · exact Or.inr ⟨b, h a b h1, h b c h2⟩

theorem iterate_step_mono {n : Nat} (k : Nat) : ∀ {g g' : Graph n}, Graph.le g g' →
    Graph.le (C14.Nat.iterate Graph.step k g) (C14.Nat.iterate Graph.step k g') := by
  induction k with
  | zero => intro g g' h; exact h
  | succ k ih => intro g g' h; exact ih (Graph.step_mono h)

/-- **the hypothesis that is validated, not proved**: `G t` is the connectivity graph of the real system at the end of round `t`
    (an edge = the two nodes are mutually connected), and every round realises at least the abstract step: whenever `a ≠ c` were
    connected at the end of round `t`, or both connected to some `b`, they are connected at the end of round `t + 1`.
    Per edge and per direction the first half of a round is `exchange_realises_step` (b announces c to a, a dials c) and the second
    `exchange_then_handshake` (the dial completes on reliable delivery).  What `RealisesStep` assumes ON TOP of these theorems is
    timing and the environment:
    * a round is long enough to contain, for every node, one due announcement (`housekeep` schedules the next one at most
      `min update_freq (max (peer_timeout / 2 - 60) 1)` seconds ahead: `C15More.housekeep_schedules_safe`) followed by a complete
      handshake (three deliveries; with losses two reliable rounds of retransmission: `C05Recover.reliable_rounds_complete`);
    * the network delivers these datagrams within the round (reliable network; the NAT filter windows of the mock network let the
      ping and the pong through — both ends dial each other within the same round, so a filter entry exists when the answer arrives);
    * sessions stay in sync and nobody expires meanwhile (`C10Net`, `C15More.healthy_never_expires`), so established edges persist;
    * the side conditions of `exchange_realises_step` hold at every node in every round (the announcer's list is not cut to a random
      20-subset: fewer than 20 peers; entries listed before the new neighbour do not share addresses with it: `NoInterference`;
      the mutual trust of the keys, the AEAD and signature assumptions of `C05Lockstep.Hyps`). -/
def RealisesStep {n : Nat} (G : Nat → Graph n) : Prop := ∀ t, Graph.le (G t).step (G (t + 1))

theorem realises_iterate {n : Nat} (G : Nat → Graph n) (h : RealisesStep G) (k : Nat) :
    ∀ t, Graph.le (C14.Nat.iterate Graph.step k (G t)) (G (t + k)) := by
  induction k with
  | zero => intro t; exact Graph.le_refl _
  | succ k ih =>
    intro t
    have h1 : Graph.le (C14.Nat.iterate Graph.step k (G t).step) (C14.Nat.iterate Graph.step k (G (t + 1))) :=
      iterate_step_mono k (h t)
    have h2 := ih (t + 1)
    have e : t + 1 + k = t + (k + 1) := by omega
    rw [e] at h2
    exact Graph.le_trans h1 h2

/-- **bounded_rounds** (abstract + local): if every round of the real system realises at least `Graph.step` on the connectivity graph
    (`RealisesStep`, discharged per edge by `exchange_realises_step` / `exchange_then_handshake` under their hypotheses and the timing
    assumptions listed there) and the graph of the initial connect instructions is connected, then after `k` rounds with `2^k ≥ n` —
    `⌈log2 n⌉` rounds — every pair of distinct nodes is mutually connected. -/
theorem bounded_rounds {n : Nat} (G : Nat → Graph n) (hreal : RealisesStep G) (hconn : ∀ a c, (G 0).reach n a c)
    (k : Nat) (hk : n ≤ 2 ^ k) (a c : Fin n) (hne : a ≠ c) : (G k).adj a c = true := by
  have h := realises_iterate G hreal k 0 a c (mesh_closure (G 0) hconn k hk a c hne)
  rwa [Nat.zero_add] at h

/-- … and stays so in all later rounds -/
theorem bounded_rounds_stable {n : Nat} (G : Nat → Graph n) (hreal : RealisesStep G) (hconn : ∀ a c, (G 0).reach n a c)
    (k : Nat) (hk : n ≤ 2 ^ k) (j : Nat) (a c : Fin n) (hne : a ≠ c) : (G (k + j)).adj a c = true := by
  induction j with
  | zero => exact bounded_rounds G hreal hconn k hk a c hne
  | succ j ih =>
    apply hreal (k + j) a c
    rw [Graph.step_adj]
    exact ⟨hne, Or.inl ih⟩

/-- the connectivity graph of a family of node states: `a` and `c` are adjacent when each holds a peer record under the other's address -/
def connGraph {n : Nat} (addr : Fin n → NAddr) (nodes : Fin n → Node) : Graph n :=
  { adj := fun a c => (lookupA (nodes a).peers (addr c)).isSome && (lookupA (nodes c).peers (addr a)).isSome,
    symm := fun _ _ => Bool.and_comm _ _ }

/-- **bounded_rounds_nodes**: the same for a run `S` of `n` node states (`S t i` = state of node `i` at the end of round `t`) with the
    connectivity graph read off the peer lists -/
theorem bounded_rounds_nodes {n : Nat} (addr : Fin n → NAddr) (S : Nat → Fin n → Node)
    (hreal : RealisesStep (fun t => connGraph addr (S t))) (hconn : ∀ a c, (connGraph addr (S 0)).reach n a c)
    (k : Nat) (hk : n ≤ 2 ^ k) (a c : Fin n) (hne : a ≠ c) :
    (lookupA (S k a).peers (addr c)).isSome = true ∧ (lookupA (S k c).peers (addr a)).isSome = true := by
  have h := bounded_rounds (fun t => connGraph addr (S t)) hreal hconn k hk a c hne
  simpa [connGraph] using h

end Rounds

/-! ## non-vacuity: three concrete nodes (toy cryptography of `InitLemmas.Toy`, unencrypted sessions), and the witnesses that the
    side conditions are needed -/
section NonVacuity
open VpnCloud.Proofs.InitLemmas VpnCloud.Proofs.C14
open VpnCloud.Proofs.C10NetLemmas (InSync LogOK)

private def sA : NAddr := .v6 (List.replicate 16 0) 1
private def sB : NAddr := .v6 (List.replicate 16 0) 2
private def sC : NAddr := .v6 (List.replicate 16 0) 3
private def sD : NAddr := .v6 (List.replicate 16 0) 4
private def cfg0 : NodeCfg :=
  { tap := false, learning := false, broadcast := false, peerTimeout := 300, peerTimeoutPublish := 300, updateFreq := 10,
    claims := [], key := [7, 7, 7, 7], trusted := [[9, 9, 9, 9]], algos := Toy.algosPlain }
private def o0 : Oracle := { emitted := fun _ _ => [], rotProp := fun _ => 0, rotPend := fun _ => 0, starts := fun _ => [] }
private def idOf (k : Nat) : Bytes := List.replicate 16 k
/-- a peer record: one recorded address, node id `k…k`, an established session in unencrypted mode -/
private def peerRec (s : NAddr) (k : Nat) : Peer :=
  { addrs := [s], timeout := 1000, peerTimeout := 300, nodeId := idOf k, crypto := { init := none, unencrypted := true } }
private def tbl0 : Table := { cacheTimeout := 300, claimTimeout := 300 }
/-- A: connected to B and C, announcement due since second 50 -/
private def nA : Node :=
  { nodeId := idOf 1, addr := sA, cfg := cfg0, table := tbl0, peers := [(sB, peerRec sB 2), (sC, peerRec sC 3)], nextPeers := 50 }
/-- B: connected to A only -/
private def nB : Node := { nodeId := idOf 2, addr := sB, cfg := cfg0, table := tbl0, peers := [(sA, peerRec sA 1)], nextPeers := 170 }
/-- C: connected to A only -/
private def nC : Node := { nodeId := idOf 3, addr := sC, cfg := cfg0, table := tbl0, peers := [(sA, peerRec sA 1)], nextPeers := 170 }
private def bodyG : Init.BodyOf := fun _ => .garbage 0

/-- 1. the guard of `announcement_roundtrip` holds of what A announces at second 100, and the list has both peers -/
example : AnnounceWF (preAnnounce Toy.env o0 nA 100).node :=
  { nodeId := by decide, peerIds := by decide, peerAddrs := by decide, claims := by decide, own := by decide, timeout := by decide,
    peerCount := by decide, claimCount := by decide }
example : (createNodeInfo (preAnnounce Toy.env o0 nA 100).node).peers =
    [{ nodeId := some (idOf 2), addrs := [sB] }, { nodeId := some (idOf 3), addrs := [sC] }] := rfl
/-- "at most seven addresses per family per entry are preserved": the eighth IPv6 address of a record does not survive the round trip -/
example : (normAddrs ((List.range 8).map (fun k => SockAddr.v6 (List.replicate 16 0) k))).length = 7 := by decide

private def bodyA : Bytes := Codec.encodeNodeInfo (createNodeInfo (preAnnounce Toy.env o0 nA 100).node)

/-- 2. the hypotheses of `listed_stranger_is_dialled` hold at B for A's announcement (entry of C behind the entry of B itself) … -/
example : FromPeer Toy.env bodyG o0 nB sA (Generated.MESSAGE_TYPE_NODE_INFO :: bodyA) [] (peerRec sA 1) (peerRec sA 1).crypto
    Generated.MESSAGE_TYPE_NODE_INFO bodyA := ⟨rfl, by decide, [], [], rfl⟩
private def infoA : NodeInfo :=
  { nodeId := idOf 1, peers := [{ nodeId := some (idOf 2), addrs := [sB] }, { nodeId := some (idOf 3), addrs := [sC] }], claims := [],
    peerTimeout := some 300, addrs := [] }
example : Codec.decodeNodeInfo bodyA = some infoA := by decide +kernel
private theorem unknownC : Unknown nB { nodeId := some (idOf 3), addrs := [sC] } := by
  refine ⟨by decide, ?_, by decide⟩
  intro id hid x hx
  cases hid
  have : x = (sA, peerRec sA 1) := List.mem_singleton.1 hx
  rw [this]; decide
example : Unknown nB { nodeId := some (idOf 3), addrs := [sC] } ∧
    (∀ a ∈ [sC], mappedAddr a ∉ nB.peers.map (·.1) ∧ mappedAddr a ∉ nB.own ∧ mappedAddr a ∉ nB.pending.map (·.1)) ∧
    NoInterference nB.nodeId [{ nodeId := some (idOf 2), addrs := [sB] }] { nodeId := some (idOf 3), addrs := [sC] } :=
  ⟨unknownC, by decide, by unfold NoInterference; decide⟩
/-- … and B dials C and adopts its own address: one handshake datagram, to `sC` -/
example : (handleNet Toy.env bodyG o0 nB 105 sA (Generated.MESSAGE_TYPE_NODE_INFO :: bodyA) []).1.node.pending.map (·.1) = [sC] ∧
    (handleNet Toy.env bodyG o0 nB 105 sA (Generated.MESSAGE_TYPE_NODE_INFO :: bodyA) []).1.node.own = [sB] ∧
    (handleNet Toy.env bodyG o0 nB 105 sA (Generated.MESSAGE_TYPE_NODE_INFO :: bodyA) []).1.outs.map
      (fun x => match x with | .dgram d b => (some d, b.head?) | .iface _ => (none, none)) = [(some sC, some Generated.INIT_MESSAGE_FIRST_BYTE)] := by
  decide +kernel

/-- 3. `all_known_nothing_dialled`: the same announcement at a node that already knows C (and B) causes nothing -/
private def nB' : Node := { nB with peers := [(sA, peerRec sA 1), (sC, peerRec sC 3)] }
example : (∀ pi ∈ infoA.peers, pi.nodeId = some nB'.nodeId ∨ (∃ a q, lookupA nB'.peers a = some q ∧ pi.nodeId = some q.nodeId) ∨
      ∃ a ∈ pi.addrs, a ∈ nB'.peers.map (·.1)) ∧
    (handleNet Toy.env bodyG o0 nB' 105 sA (Generated.MESSAGE_TYPE_NODE_INFO :: bodyA) []).1.outs = [] := by
  refine ⟨?_, by decide +kernel⟩
  intro pi hpi
  simp only [infoA, List.mem_cons, List.not_mem_nil, or_false] at hpi
  rcases hpi with rfl | rfl
  · exact Or.inl rfl
  · exact Or.inr (Or.inl ⟨sC, peerRec sC 3, rfl, rfl⟩)

/-- 4. ALL hypotheses of `exchange_realises_step` (and `exchange_then_handshake`) hold of A, B and C's record at A -/
example : ∃ bytes, Out.dgram sB bytes ∈ (housekeep Toy.env o0 nA 100).outs ∧
      (handleNet Toy.env bodyG o0 nB 105 sA bytes []).2 = none ∧
      Dialled Toy.env (mappedAddr sC) (handleNet Toy.env bodyG o0 nB 105 sA bytes []).1 :=
  exchange_realises_step Toy.env bodyG o0 o0 nA nB 100 105 sA sB sC sC [] 0 (by decide) (by decide)
    [(sB, peerRec sB 2)] [] (peerRec sC 3) rfl (by decide) (by decide) (peerRec sB 2) (peerRec sA 1) rfl rfl (.plain rfl rfl)
    (fun e he => by have h : (housekeep Toy.env o0 nA 100).log = [] := rfl
                    rw [h] at he; cases he)
    unknownC (by decide) (by unfold NoInterference; decide)

/-- the entry of C is processed AFTER the entry of B itself, which B adopts: `l1` is not empty in this instance -/
example : (preAnnounce Toy.env o0 nA 100).node.peers = [(sB, peerRec sB 2)] ++ (sC, peerRec sC 3) :: [] := rfl

/-- `NoInterference` is needed (a): an earlier entry under another id lists `sC` too and is dialled first; the entry of the stranger
    `{id 3, [sC, sD]}` is then skipped AS A WHOLE (`connect` returns when any address is pending), so `sD` is never dialled although
    every other hypothesis of `connectToPeers_entry_dialled_static` holds -/
theorem noInterference_needed :
    ¬ (∀ (env : CryptoEnv) (o : Oracle) (c : Ctx) (pre post : List PeerInfo) (e : PeerInfo), Unknown c.node e →
        (∀ a ∈ e.addrs, mappedAddr a ∉ c.node.peers.map (·.1) ∧ mappedAddr a ∉ c.node.own ∧ mappedAddr a ∉ c.node.pending.map (·.1)) →
        ∀ a ∈ e.addrs, mappedAddr a ∈ (connectToPeers env o c (pre ++ e :: post)).node.pending.map (·.1)) := by
  intro h
  have hu : Unknown nB { nodeId := some (idOf 3), addrs := [sC, sD] } := by
    refine ⟨by decide, ?_, by decide⟩
    intro id hid x hx
    cases hid
    have : x = (sA, peerRec sA 1) := List.mem_singleton.1 hx
    rw [this]; decide
  have := h Toy.env o0 { node := nB } [{ nodeId := some (idOf 5), addrs := [sC] }] [] { nodeId := some (idOf 3), addrs := [sC, sD] } hu
    (by decide) sD (by decide)
  revert this
  decide +kernel

/-- `NoInterference` is needed (b): an earlier entry under B's OWN id lists `sC`: it is adopted as own address and the stranger's
    entry is skipped as a whole -/
example : (connectToPeers Toy.env o0 { node := nB } [{ nodeId := some (idOf 2), addrs := [sC] }, { nodeId := some (idOf 3), addrs := [sC, sD] }]).node.pending = [] ∧
    (connectToPeers Toy.env o0 { node := nB } [{ nodeId := some (idOf 2), addrs := [sC] }, { nodeId := some (idOf 3), addrs := [sC, sD] }]).node.own = [sC] := by
  decide +kernel

/-- 5. `bounded_rounds`: a run on three nodes that starts from the line 0 – 1 – 2 and applies exactly the abstract step each round
    meets the hypotheses; two rounds suffice (`3 ≤ 2^2`) -/
private def line3 : Graph 3 :=
  { adj := fun a c => decide (a.val + 1 = c.val) || decide (c.val + 1 = a.val), symm := fun _ _ => Bool.or_comm _ _ }
private def run3 : Nat → Graph 3
  | 0 => line3
  | t + 1 => (run3 t).step
example : RealisesStep run3 ∧ (∀ a c, (run3 0).reach 3 a c) ∧ 3 ≤ 2 ^ 2 := by
  refine ⟨fun t => Graph.le_refl _, ?_, by decide⟩
  have h01 : line3.adj 0 1 = true := by decide
  have h12 : line3.adj 1 2 = true := by decide
  have h10 : line3.adj 1 0 = true := by decide
  have h21 : line3.adj 2 1 = true := by decide
  intro a c
  show line3.reach 3 a c
  match a, c with
  | 0, 0 => exact Or.inl rfl
  | 1, 1 => exact Or.inl rfl
  | 2, 2 => exact Or.inl rfl
  | 0, 1 => exact Or.inr ⟨1, h01, Or.inl rfl⟩
  | 1, 0 => exact Or.inr ⟨0, h10, Or.inl rfl⟩
  | 1, 2 => exact Or.inr ⟨2, h12, Or.inl rfl⟩
  | 2, 1 => exact Or.inr ⟨1, h21, Or.inl rfl⟩
  | 0, 2 => exact Or.inr ⟨1, h01, Or.inr ⟨2, h12, Or.inl rfl⟩⟩
  | 2, 0 => exact Or.inr ⟨1, h21, Or.inr ⟨0, h10, Or.inl rfl⟩⟩

/-- the connectivity graph of the three concrete nodes is the star around A: A–B and A–C are edges, B–C is not (yet) -/
private def addr3 : Fin 3 → NAddr := fun i => match i with | 0 => sA | 1 => sB | 2 => sC
private def nodes3 : Fin 3 → Node := fun i => match i with | 0 => nA | 1 => nB | 2 => nC
example : (connGraph addr3 nodes3).adj 0 1 = true ∧ (connGraph addr3 nodes3).adj 0 2 = true ∧ (connGraph addr3 nodes3).adj 1 2 = false ∧
    (connGraph addr3 nodes3).step.adj 1 2 = true := by decide

end NonVacuity

end VpnCloud.Proofs.C14Exchange
