import VpnCloud.Model.Bytes
import VpnCloud.Model.Base62
import VpnCloud.Spec.C18
import VpnCloud.Proofs.Lemmas.Base62Lemmas
/-
  C18 — the base-62 key text codec (`to_base62` / `from_base62` / `Crypto::key_from_base62`):
  no panic, value preservation, canonical form, error behaviour, round trip, and acceptance of
  every generated 32-byte key.  All statements are proved as given (no hypothesis added).
-/
namespace VpnCloud.Proofs.C18

open VpnCloud VpnCloud.Base62 VpnCloud.Spec.C18
open VpnCloud.Proofs.Base62Lemmas

/-! ## core facts about encoder and decoder -/

/-- the encoder succeeds and produces the text of a canonical base-62 digit list with the value of the bytes -/
theorem toBase62_spec (b : Bytes) (hb : Bytes.WF b) :
    ∃ ds, toBase62 b = some (ds.reverse.map (fun d => alphabet.getD d '?')) ∧ Canon 62 ds ∧
      leVal 62 ds = Bytes.beVal b := by
  obtain ⟨ds, e, c, v⟩ := toDigits_spec (b.length * 2) b hb [] (canon_nil 62) (by simp only [List.length_nil]; omega)
  refine ⟨ds, ?_, c, ?_⟩
  · simp only [toBase62, e]
  · rw [v]; simp

/-- the text of a canonical digit list does not start with '0' -/
theorem canon_text_head (ds : List Nat) (hc : Canon 62 ds) :
    (ds.reverse.map (fun d => alphabet.getD d '?')).head? ≠ some '0' := by
  rw [List.head?_map, List.head?_reverse]
  intro h
  cases hl : ds.getLast? with
  | none => rw [hl] at h; cases h
  | some d =>
    rw [hl] at h
    simp only [Option.map_some, Option.some.injEq] at h
    have hd : d < 62 := hc.1 d (List.mem_of_getLast? hl)
    have := alphabet_zero d hd h
    subst this
    exact hc.2 hl

/-- the decoder succeeds on alphanumeric text and produces the canonical byte string with the value of the text -/
theorem fromBase62_spec (cs : List Char) (h : ∀ c ∈ cs, (charVal c).isSome) :
    ∃ bs, fromBase62 cs = .ok bs ∧ Bytes.WF bs ∧ textVal cs = some (Bytes.beVal bs) ∧ bs.head? ≠ some 0 := by
  obtain ⟨out, e, c, v⟩ := fromChars_spec cs h [] (canon_nil 256)
  refine ⟨out.reverse, ?_, ?_, ?_, ?_⟩
  · simp only [fromBase62, e]
  · intro x hx; exact c.1 x (List.mem_reverse.mp hx)
  · rw [textVal_eq, beVal_reverse]; exact v
  · rw [List.head?_reverse]; exact c.2

/-! ## property theorems -/

/-- `to_base62` never panics (neither the `assert!(d < 62)` nor the index `buf[buflen]`) -/
theorem toBase62_total (b : Bytes) (hb : Bytes.WF b) : (toBase62 b).isSome := by
  obtain ⟨ds, e, _, _⟩ := toBase62_spec b hb
  rw [e]; rfl

/-- value preservation and canonical form: the text denotes the same number as the bytes and has no leading '0' -/
theorem toBase62_value (b : Bytes) (hb : Bytes.WF b) :
    ∃ cs, toBase62 b = some cs ∧ textVal cs = some (Bytes.beVal b) ∧ cs.head? ≠ some '0' := by
  obtain ⟨ds, e, c, v⟩ := toBase62_spec b hb
  exact ⟨_, e, by rw [textVal_digits ds c.1, v], canon_text_head ds c⟩

/-- decoding: error exactly on the first non-alphanumeric character, otherwise proper bytes with the same value
    and no leading zero byte -/
theorem fromBase62_value (cs : List Char) (h : ∀ c ∈ cs, (charVal c).isSome) :
    ∃ bs, fromBase62 cs = .ok bs ∧ Bytes.WF bs ∧ textVal cs = some (Bytes.beVal bs) ∧ bs.head? ≠ some 0 :=
  fromBase62_spec cs h

theorem fromBase62_error (cs : List Char) (h : ¬ ∀ c ∈ cs, (charVal c).isSome) :
    ∃ c, fromBase62 cs = .error c ∧ (charVal c).isNone := by
  obtain ⟨c, e, hn⟩ := fromChars_error cs h []
  exact ⟨c, by simp only [fromBase62, e], hn⟩

/-- round trip up to the leading zero bytes that the text form cannot express -/
theorem from_to (b : Bytes) (hb : Bytes.WF b) :
    ∃ cs, toBase62 b = some cs ∧ fromBase62 cs = .ok (dropLeadingZeros b) := by
  obtain ⟨ds, e, c, v⟩ := toBase62_spec b hb
  obtain ⟨bs, e2, wf, tv, hd⟩ := fromBase62_spec _ (digits_chars_valid ds c.1)
  refine ⟨_, e, ?_⟩
  rw [e2]
  congr 1
  apply be_unique bs _ wf (dlz_wf b hb) hd (dlz_spec b).choose_spec.2
  rw [textVal_digits ds c.1, v] at tv
  rw [dlz_val]
  exact (Option.some.inj tv).symm

/-- `key_from_base62` restores a 32-byte key from the text of the key without its leading zero bytes -/
theorem keyFromBase62_restore (k : Bytes) (hl : k.length = 32) (cs : List Char)
    (h : fromBase62 cs = .ok (dropLeadingZeros k)) : keyFromBase62 cs = .ok k := by
  obtain ⟨z, h1, _⟩ := dlz_spec k
  have hlen : z + (dropLeadingZeros k).length = 32 := by
    have := congrArg List.length h1
    rw [List.length_append, List.length_replicate] at this
    omega
  simp only [keyFromBase62, h]
  congr 1
  rw [show 32 - (dropLeadingZeros k).length = z by omega]
  exact h1.symm

/-- every 32-byte key survives printing and parsing, whatever its leading bytes are -/
theorem generated_key_accepted (k : Bytes) (hk : Bytes.WF k) (hl : k.length = 32) :
    ∃ cs, toBase62 k = some cs ∧ keyFromBase62 cs = .ok k ∧ parsePublicKey cs = some k ∧
      parsePrivateKey cs = some k := by
  obtain ⟨cs, e, h⟩ := from_to k hk
  have hk' := keyFromBase62_restore k hl cs h
  refine ⟨cs, e, hk', ?_, ?_⟩
  · simp only [parsePublicKey, hk', hl, if_true]
  · simp only [parsePrivateKey, hk', hl, if_true]

/-- key generation with the cryptographic functions as parameters: for every seed source and every public-key
    derivation that return 32 proper bytes, both printed keys are accepted and denote the same keys -/
theorem generated_pair_usable (pubOf : Bytes → Bytes) (seed : Bytes)
    (hs : Bytes.WF seed ∧ seed.length = 32) (hp : Bytes.WF (pubOf seed) ∧ (pubOf seed).length = 32) :
    ∃ priv pub, generateKeypair pubOf seed = some (priv, pub) ∧ parsePrivateKey priv = some seed ∧
      parsePublicKey pub = some (pubOf seed) := by
  obtain ⟨a, ea, _, _, ha⟩ := generated_key_accepted seed hs.1 hs.2
  obtain ⟨b, eb, _, hb, _⟩ := generated_key_accepted (pubOf seed) hp.1 hp.2
  exact ⟨a, b, by simp only [generateKeypair, ea, eb], ha, hb⟩

/-! ## non-vacuity: concrete values -/

/-- `Except` has no `DecidableEq` instance in core; needed only for the `decide` examples below -/
local instance exceptDecEq {ε α : Type} [DecidableEq ε] [DecidableEq α] : DecidableEq (Except ε α)
  | .ok a, .ok b => if h : a = b then isTrue (by rw [h]) else isFalse (fun e => h (Except.ok.inj e))
  | .error a, .error b => if h : a = b then isTrue (by rw [h]) else isFalse (fun e => h (Except.error.inj e))
  | .ok _, .error _ => isFalse (fun e => by cases e)
  | .error _, .ok _ => isFalse (fun e => by cases e)

/-- a 32-byte key that starts with two zero bytes -/
def keyZ : Bytes :=
  [0, 0, 3, 4, 5, 6, 7, 8, 9, 10, 11, 12, 13, 14, 15, 16, 17, 18, 19, 20, 21, 22, 23, 24, 25, 26, 27, 28, 29, 30, 31, 255]

def keyZText : List Char := "2bEepJNwWlzybARLTGCTrQrHHfqGzqMLGjwuhVQF".toList

example : Bytes.WF keyZ ∧ keyZ.length = 32 := by decide
example : toBase62 keyZ = some keyZText := by decide +kernel
example : fromBase62 keyZText = .ok (keyZ.drop 2) := by decide +kernel
example : dropLeadingZeros keyZ = keyZ.drop 2 := by decide
example : keyFromBase62 keyZText = .ok keyZ := by decide +kernel
example : parsePublicKey keyZText = some keyZ ∧ parsePrivateKey keyZText = some keyZ := by decide +kernel
/-- the all-zero key prints as the empty text and is restored from it -/
example : toBase62 (List.replicate 32 0) = some [] ∧ parsePublicKey [] = some (List.replicate 32 0) := by
  decide +kernel
/-- the largest key needs 43 of the 64 digits of the buffer -/
example : (toBase62 (List.replicate 32 255)).map List.length = some 43 := by decide +kernel
example : toBase62 [84, 101, 115, 116] = some "1Xp7Ke".toList := by decide +kernel
example : textVal "1Xp7Ke".toList = some (Bytes.beVal [84, 101, 115, 116]) := by decide +kernel
example : fromBase62 "1Xp7Ke".toList = .ok [84, 101, 115, 116] := by decide +kernel
/-- leading '0' characters are accepted by the decoder and do not change the value -/
example : fromBase62 "001Xp7Ke".toList = .ok [84, 101, 115, 116] := by decide +kernel
/-- the decoder reports the first character that is not alphanumeric -/
example : fromBase62 "1Xp-7K_e".toList = .error '-' ∧ (charVal '-').isNone := by decide +kernel
/-- a text that denotes a number of more than 32 bytes is rejected by the key parsers -/
example : parsePublicKey (List.replicate 44 'z') = none ∧ parsePrivateKey (List.replicate 44 'z') = none := by
  decide +kernel
/-- the generic hypotheses of `generated_pair_usable` are satisfiable -/
example : ∃ priv pub, generateKeypair (fun s => s.reverse) keyZ = some (priv, pub) ∧
    parsePrivateKey priv = some keyZ ∧ parsePublicKey pub = some keyZ.reverse :=
  generated_pair_usable (fun s => s.reverse) keyZ (by decide) (by decide)

end VpnCloud.Proofs.C18
