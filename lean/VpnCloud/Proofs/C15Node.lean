import VpnCloud.Model.Node
import VpnCloud.Proofs.Lemmas.NodeLemmas2
/-
  C15 at node level: `housekeep` removes every peer whose expiry has passed and does not touch the expiry
  of the others.  Proved as given; the hypothesis about distinct keys of `n.peers` is NOT needed: `eraseA`
  removes every entry of an expired address, and where an entry is rewritten (`insertA` of the updated
  session object) the written value carries the expiry of the first entry of that address, which is itself
  an entry of `n.peers` that has not expired.
-/
namespace VpnCloud.Proofs.C15Node
open VpnCloud VpnCloud.Node
open VpnCloud.Proofs.NodeLemmas2

/-- **silent_removed_next_tick**: after housekeeping every remaining peer was a peer before, with the same expiry, and its expiry has not passed -/
theorem housekeep_removes_expired (env : CryptoEnv) (o : Oracle) (n : Node) (now : Int) :
    ∀ a p, (a, p) ∈ (housekeep env o n now).node.peers → ∃ p0, (a, p0) ∈ n.peers ∧ ¬ (p0.timeout < now) ∧ p.timeout = p0.timeout := by
  intro a p h
  obtain ⟨p0, h0, ht⟩ := housekeep_keptC env o n now a p h
  unfold alive at h0
  rw [List.mem_filter] at h0
  exact ⟨p0, h0.1, by simpa using h0.2, ht⟩

/-- in particular a peer whose expiry has passed is gone after the tick, whatever else happens in it
    (if the address has only expired entries) -/
theorem expired_peer_removed (env : CryptoEnv) (o : Oracle) (n : Node) (now : Int) (a : NAddr)
    (hexp : ∀ p0, (a, p0) ∈ n.peers → p0.timeout < now) :
    lookupA (housekeep env o n now).node.peers a = none := by
  cases hl : lookupA (housekeep env o n now).node.peers a with
  | none => rfl
  | some p =>
    obtain ⟨p0, h0, hn, _⟩ := housekeep_removes_expired env o n now a p (NodeLemmas.lookupA_some_mem hl)
    exact absurd (hexp p0 h0) hn

end VpnCloud.Proofs.C15Node
