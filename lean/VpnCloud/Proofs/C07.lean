import VpnCloud.Model.Rotation
/-
  C07 — Key rotation never strands traffic.  The inductive invariant `Ahead` and the property theorem
  `rotation_sync`: in every reachable state of the two-party system, for every loss, duplication,
  reordering and delay of rotation messages and any relative timing of the two ends, the key an end
  currently seals with is held by its peer under the same key id with identical key material.
-/
namespace VpnCloud.Rot

structure Ahead (X Y : Side) (sx sy : List Msg) : Prop where
  idrel : Y.id + 1 = X.id
  xprop : ∃ p, X.proposed = some p
  xpend : X.pending = none
  xconf : (X.id = 1 ∧ X.confirmed = none) ∨ (X.id > 1 ∧ ∃ c, X.confirmed = some (c, X.id))
  sxle : ∀ m ∈ sx, m.id ≤ X.id
  sxeq : ∀ m ∈ sx, m.id = X.id → ∀ p, X.proposed = some p → m = ⟨X.id, p, X.confirmed.map Prod.fst⟩
  sxpar : ∀ m ∈ sx, m.id < X.id → m.id + 2 ≤ X.id
  syle : ∀ m ∈ sy, m.id + 1 ≤ X.id
  -- substate of Y
  ysub : (Y.pending = none ∧ (Y.proposed = none ↔ X.id = 1)) ∨
         (Y.proposed = none ∧ ∃ e p, X.proposed = some p ∧ Y.pending = some (K e p, e))
  xcur : X.cur = if X.id ≤ 2 then 0 else (X.id - 1) % 4
  ycur : Y.cur = if Y.proposed = none ∧ X.id > 1 then X.id % 4 else if X.id ≤ 3 then 0 else (X.id - 2) % 4
  sync1 : X.slots X.cur = Y.slots X.cur
  sync2 : Y.slots Y.cur = X.slots Y.cur
  ready : X.id > 1 → ∀ q, Y.proposed = some q → ∀ c, X.confirmed = some (c, X.id) → X.slots (X.id % 4) = K c q
  yconf : (Y.confirmed = none → Y.id ≤ 1) ∧ ∀ c i, Y.confirmed = some (c, i) → i = Y.id

def Inv (s : Sys) : Prop := Ahead s.x s.y s.sentX s.sentY ∨ Ahead s.y s.x s.sentY s.sentX

theorem inv_init : Inv initSys := by
  left
  refine ⟨rfl, ⟨0, rfl⟩, rfl, Or.inl ⟨rfl, rfl⟩, ?_, ?_, ?_, ?_, Or.inl ⟨rfl, by simp [initSys]⟩, ?_, ?_, ?_, ?_, ?_, ?_⟩
  all_goals simp [initSys]

theorem inv_sync {s : Sys} (h : Inv s) : Sync s := by
  rcases h with h | h
  · exact ⟨h.sync1, h.sync2⟩
  · exact ⟨h.sync2, h.sync1⟩

/-! ### step lemmas -/

theorem process_ignore {s : Side} {m : Msg} (f : Nat) (h : m.id ≤ s.id) : process s m f = s := by
  simp [process, h]

/-- X (ahead) ignores everything Y ever sent. -/
theorem ahead_delivX {X Y : Side} {sx sy : List Msg} (h : Ahead X Y sx sy) {m : Msg} (hm : m ∈ sy) (f : Nat) :
    process X m f = X := process_ignore f (by have := h.syle m hm; omega)


theorem cycle_proposed_timeout {s : Side} {p : Nat} (hp : s.proposed = some p) (ht : s.timeout = true) (f : Nat) :
    cycle s f = (s, some (match s.confirmed with | some (c, id) => ⟨id, p, some c⟩ | none => ⟨1, p, none⟩)) := by
  unfold cycle; rw [hp]; simp only [ht, if_true]; cases s.confirmed with
  | none => rfl
  | some ci => cases ci; rfl

theorem cycle_proposed_notimeout {s : Side} {p : Nat} (hp : s.proposed = some p) (ht : s.timeout = false) (f : Nat) :
    cycle s f = ({ s with timeout := true }, none) := by
  unfold cycle; rw [hp]; simp [ht]

theorem cycle_idle {s : Side} (hp : s.proposed = none) (hq : s.pending = none) (f : Nat) :
    cycle s f = (s, none) := by
  unfold cycle; rw [hp, hq]

theorem cycle_advance {s : Side} {key : Key} {e : Nat} (hp : s.proposed = none) (hq : s.pending = some (key, e)) (f : Nat) :
    cycle s f = ({ s with pending := none, id := s.id + 2, proposed := some f, confirmed := some (e, s.id + 2),
                          slots := install s.slots key (s.id + 2) }, some ⟨s.id + 2, f, some e⟩) := by
  unfold cycle; rw [hp, hq]

theorem ahead_timeout {X Y : Side} {sx sy : List Msg} (h : Ahead X Y sx sy) (b : Bool) :
    Ahead { X with timeout := b } Y sx sy :=
  ⟨h.idrel, h.xprop, h.xpend, h.xconf, h.sxle, h.sxeq, h.sxpar, h.syle, h.ysub, h.xcur, h.ycur,
      h.sync1, h.sync2, h.ready, h.yconf⟩

theorem ahead_timeoutY {X Y : Side} {sx sy : List Msg} (h : Ahead X Y sx sy) (b : Bool) :
    Ahead X { Y with timeout := b } sx sy :=
  ⟨h.idrel, h.xprop, h.xpend, h.xconf, h.sxle, h.sxeq, h.sxpar, h.syle, h.ysub, h.xcur, h.ycur,
      h.sync1, h.sync2, h.ready, h.yconf⟩

theorem ahead_addX {X Y : Side} {sx sy : List Msg} (h : Ahead X Y sx sy) {p : Nat} (hp : X.proposed = some p) :
    Ahead X Y (⟨X.id, p, X.confirmed.map Prod.fst⟩ :: sx) sy := by
  refine { h with sxle := ?_, sxeq := ?_, sxpar := ?_ }
  · intro m hm; rcases List.mem_cons.1 hm with rfl | hm
    · simp
    · exact h.sxle m hm
  · intro m hm hid q hq; rcases List.mem_cons.1 hm with rfl | hm
    · rw [hp] at hq; cases hq; rfl
    · exact h.sxeq m hm hid q hq
  · intro m hm hlt; rcases List.mem_cons.1 hm with rfl | hm
    · simp at hlt
    · exact h.sxpar m hm hlt

theorem ahead_cycleX {X Y : Side} {sx sy : List Msg} (h : Ahead X Y sx sy) (f : Nat) :
    Ahead (cycle X f).1 Y (addMsg sx (cycle X f).2) sy := by
  obtain ⟨p, hp⟩ := h.xprop
  cases ht : X.timeout
  · rw [cycle_proposed_notimeout hp ht]; exact ahead_timeout h true
  · rw [cycle_proposed_timeout hp ht]
    simp only [addMsg]
    have := ahead_addX h hp
    rcases h.xconf with ⟨h1, hc⟩ | ⟨h1, c, hc⟩
    · rw [hc] at this ⊢; simpa [h1] using this
    · rw [hc] at this ⊢; simpa using this

/-- a message of X is either stale for Y or the unique latest one -/
theorem ahead_delivY {X Y : Side} {sx sy : List Msg} (h : Ahead X Y sx sy) {m : Msg} (hm : m ∈ sx) (f : Nat) :
    Ahead X (process Y m f) sx sy := by
  have hle := h.sxle m hm
  have hid := h.idrel
  by_cases hlt : m.id < X.id
  · have := h.sxpar m hm hlt
    rw [process_ignore f (by omega)]; exact h
  · have hmid : m.id = X.id := by omega
    obtain ⟨p, hp⟩ := h.xprop
    have hmeq := h.sxeq m hm hmid p hp
    have hacc : ¬ m.id ≤ Y.id := by omega
    subst hmeq
    simp only [] at hacc hmid
    unfold process
    simp only [hacc, if_false]
    rcases h.xconf with ⟨h1, hc⟩ | ⟨h1, c, hc⟩
    · -- first message, no confirmation: Y only stores the pending reply
      have hyp : Y.proposed = none := by
        rcases h.ysub with ⟨_, hiff⟩ | ⟨hn, _⟩
        · exact hiff.2 h1
        · exact hn
      simp only [hc, Option.map_none]
      refine ⟨h.idrel, ⟨p, hp⟩, h.xpend, Or.inl ⟨h1, hc⟩, h.sxle, h.sxeq, h.sxpar, h.syle,
        Or.inr ⟨hyp, f, p, hp, rfl⟩, h.xcur, h.ycur, h.sync1, h.sync2, ?_, h.yconf⟩
      intro hgt; omega
    · simp only [hc, Option.map_some]
      cases hyp : Y.proposed with
      | none =>
        simp only []
        refine ⟨h.idrel, ⟨p, hp⟩, h.xpend, Or.inr ⟨h1, c, hc⟩, h.sxle, h.sxeq, h.sxpar, h.syle,
          Or.inr ⟨rfl, f, p, hp, rfl⟩, h.xcur, ?_, h.sync1, h.sync2, ?_, h.yconf⟩
        · have := h.ycur; rw [hyp] at this; exact this
        · intro _ q hq; cases hq
      | some q =>
        simp only []
        have hready := h.ready h1 q hyp c hc
        have hxcur := h.xcur
        have hne : X.cur ≠ X.id % 4 := by rw [hxcur]; split <;> omega
        refine ⟨h.idrel, ⟨p, hp⟩, h.xpend, Or.inr ⟨h1, c, hc⟩, h.sxle, h.sxeq, h.sxpar, h.syle,
          Or.inr ⟨rfl, f, p, hp, rfl⟩, h.xcur, ?_, ?_, ?_, ?_, h.yconf⟩
        · simp [h1]
        · simp only [install, if_neg hne]; exact h.sync1
        · simp only [install, if_true]; rw [hready, K_comm]
        · intro _ q' hq'; cases hq'

theorem ahead_cycleY {X Y : Side} {sx sy : List Msg} (h : Ahead X Y sx sy) (f : Nat) :
    Ahead X (cycle Y f).1 sx (addMsg sy (cycle Y f).2) ∨ Ahead (cycle Y f).1 X (addMsg sy (cycle Y f).2) sx := by
  have hid := h.idrel
  obtain ⟨p, hp⟩ := h.xprop
  cases hyp : Y.proposed with
  | some q =>
    -- Y still waits for its own confirmation: toggle timeout or re-send; stays behind
    left
    have hx1 : X.id ≠ 1 := by
      rcases h.ysub with ⟨_, hiff⟩ | ⟨hn, _⟩
      · intro h1; have := hiff.2 h1; rw [hyp] at this; cases this
      · rw [hyp] at hn; cases hn
    cases ht : Y.timeout
    · rw [cycle_proposed_notimeout hyp ht]; exact ahead_timeoutY h true
    · rw [cycle_proposed_timeout hyp ht]
      simp only [addMsg]
      refine { h with syle := ?_ }
      intro m hm; rcases List.mem_cons.1 hm with rfl | hm
      · cases hyc : Y.confirmed with
        | none => simp; omega
        | some ci =>
          obtain ⟨c, i⟩ := ci
          have := h.yconf.2 c i hyc
          simp; omega
      · exact h.syle m hm
  | none =>
    cases hpe : Y.pending with
    | none => left; rw [cycle_idle hyp hpe]; exact h
    | some ke =>
      obtain ⟨key, e⟩ := ke
      right
      rw [cycle_advance hyp hpe]
      simp only [addMsg]
      -- Y was in substate Y1
      have hsub : ∃ e' p', X.proposed = some p' ∧ Y.pending = some (K e' p', e') := by
        rcases h.ysub with ⟨hn, _⟩ | ⟨_, hh⟩
        · rw [hpe] at hn; cases hn
        · exact hh
      obtain ⟨e', p', hp', hpe'⟩ := hsub
      rw [hpe] at hpe'; cases hpe'
      rw [hp] at hp'; cases hp'
      have hycur := h.ycur
      have hxcur := h.xcur
      have hxid : X.id ≥ 1 := by omega
      have hYcur : Y.cur = if X.id > 1 then X.id % 4 else 0 := by
        rw [hycur]; simp only [hyp, true_and]; split
        · rfl
        · rename_i hh; split
          · rfl
          · omega
      have hne1 : Y.cur ≠ (Y.id + 2) % 4 := by rw [hYcur]; split <;> omega
      have hne2 : X.cur ≠ (Y.id + 2) % 4 := by rw [hxcur]; split <;> omega
      refine ⟨by simp; omega, ⟨f, rfl⟩, rfl, Or.inr ⟨by simp, e, rfl⟩, ?_, ?_, ?_, ?_, Or.inl ⟨h.xpend, ?_⟩, ?_, ?_, ?_, ?_, ?_, ?_⟩
      · intro m hm; rcases List.mem_cons.1 hm with rfl | hm
        · simp
        · have := h.syle m hm; simp; omega
      · intro m hm hmid q hq; rcases List.mem_cons.1 hm with rfl | hm
        · simp at hq; subst hq; rfl
        · have := h.syle m hm; simp at hmid; omega
      · intro m hm hlt; rcases List.mem_cons.1 hm with rfl | hm
        · simp at hlt
        · have := h.syle m hm; simp; omega
      · intro m hm; have := h.sxle m hm; simp; omega
      · simp [hp]
      · simp only []; rw [hYcur]; split <;> split <;> omega
      · simp only []; rw [hxcur, hp]; simp; split <;> split <;> omega
      · simp only [install, if_neg hne1]; exact h.sync2
      · simp only [install, if_neg hne2]; exact h.sync1
      · intro _ q hq c hc
        simp only [] at hc
        rw [hp] at hq; cases hq
        cases hc
        simp [install]
      · rcases h.xconf with ⟨h1, hc⟩ | ⟨h1, c, hc⟩
        · refine ⟨fun _ => by omega, fun c i hci => ?_⟩
          rw [hc] at hci; cases hci
        · refine ⟨fun hn => ?_, fun c' i hci => ?_⟩
          · rw [hc] at hn; cases hn
          · rw [hc] at hci; cases hci; rfl

/-- the invariant is inductive -/
theorem inv_step {s t : Sys} (h : Inv s) (st : Step s t) : Inv t := by
  cases st with
  | cycleX =>
    rcases h with h | h
    · left; exact ahead_cycleX h _
    · rcases ahead_cycleY h s.fresh with h' | h'
      · right; exact h'
      · left; exact h'
  | cycleY =>
    rcases h with h | h
    · rcases ahead_cycleY h s.fresh with h' | h'
      · left; exact h'
      · right; exact h'
    · right; exact ahead_cycleX h _
  | delivX m hm =>
    rcases h with h | h
    · left; rw [show process s.x m s.fresh = s.x from ahead_delivX h hm _]; exact h
    · right; exact ahead_delivY h hm _
  | delivY m hm =>
    rcases h with h | h
    · left; exact ahead_delivY h hm _
    · right; rw [show process s.y m s.fresh = s.y from ahead_delivX h hm _]; exact h

/-- **C07 (model level)**: in every reachable state — any loss, duplication, reordering, delay and any
relative timing of the two ends' cycles — each end's current sealing key is held by its peer in the same slot. -/
theorem rotation_sync {s : Sys} (h : Reachable s) : Sync s := by
  have : Inv s := by
    induction h with
    | init => exact inv_init
    | step _ st ih => exact inv_step ih st
  exact inv_sync this


end VpnCloud.Rot
