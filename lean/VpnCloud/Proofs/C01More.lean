import VpnCloud.Model.Node
import VpnCloud.Proofs.Lemmas.C01MoreLemmas
import VpnCloud.Proofs.C01
import VpnCloud.Proofs.C08
import VpnCloud.Proofs.C08Node
import VpnCloud.Proofs.C12Node
import VpnCloud.Proofs.C14
/-
  C01 / C14 at node level: who can become a peer, routes and learned addresses only from peers, own addresses are
  adopted and not dialled, a node never becomes its own peer.

  Steps and histories are those of `C08Node` (`StepAny` / `ReachAny`: any cryptography, oracle, input, time).
-/
namespace VpnCloud.Proofs.C01More

open VpnCloud VpnCloud.Node
open VpnCloud.Proofs.NodeLemmas VpnCloud.Proofs.NodeLemmas2 VpnCloud.Proofs.NodeInvLemmas VpnCloud.Proofs.InitLemmas
open VpnCloud.Proofs.C01MoreLemmas
open VpnCloud.Proofs.C08 (Regular)
open VpnCloud.Proofs.C08Node (StepAny ReachAny)

/-! ## 1. a peer is added only after a completed handshake under a trusted key -/

/-- the handshake object that processes a datagram from `s` when `s` is not an established peer is the pending attempt stored for `s`,
    or — if there is none — a fresh `newAttempt` (`Crypto::peer_instance`) -/
theorem hsObject_spec (o : Oracle) (n : Node) (s : NAddr) :
    lookupA n.pending s = some (hsObject o n s) ∨
    (lookupA n.pending s = none ∧ hsObject o n s = newAttempt n ((rndFor o { node := n } s).2.2.getD [])) :=
  hsObject_cases o n s

/-- **peer_added_only_after_success**: if processing a datagram makes its sender a peer that was none before, then the datagram carried
    the handshake marker, it was processed by the handshake object for the sender (the pending attempt, or a fresh responder), and that
    object reported a completed handshake whose payload decodes as node information.  No other path of `handle_net_message` creates a peer. -/
theorem peer_added_only_after_success (env : CryptoEnv) (bodyOf : Init.BodyOf) (o : Oracle) (n : Node) (now : Int) (src : NAddr) (data tail : Bytes)
    (hin : mappedAddr src ∈ (handleNet env bodyOf o n now src data tail).1.node.peers.map (·.1))
    (hnot : mappedAddr src ∉ n.peers.map (·.1)) :
    data.head? = some Generated.INIT_MESSAGE_FIRST_BYTE ∧
    ∃ pc' out res log payload info,
      PeerCrypto.handleMessage env bodyOf payloadOk (hsObject o n (mappedAddr src)) data tail
        (rndFor o { node := n } (mappedAddr src)).1 (rndFor o { node := n } (mappedAddr src)).2.1 = .ok pc' out res log ∧
      (res = .initialized payload ∨ res = .initializedWithReply payload) ∧ Codec.decodeNodeInfo payload = some info := by
  rw [handleNet_eq, finish_peers] at hin
  exact dispatch_newpeer env bodyOf o n now (mappedAddr src) data tail hin hnot

/-- **new_peer_proved_trusted_key**: in a regular state (all handshake objects verify against the node's trusted keys), a datagram that
    makes its sender a new peer is `0xff :: w` where `read_from` accepts the window `w` under a key `k` the node trusts: `w` carries the
    salted hash of `k` and a signature that verifies under `k` over the bytes in front of it. -/
theorem new_peer_proved_trusted_key (env : CryptoEnv) (bodyOf : Init.BodyOf) (o : Oracle) (n : Node) (now : Int) (src : NAddr) (data tail : Bytes)
    (hreg : Regular n)
    (hin : mappedAddr src ∈ (handleNet env bodyOf o n now src data tail).1.node.peers.map (·.1))
    (hnot : mappedAddr src ∉ n.peers.map (·.1)) :
    ∃ w m k, data = Generated.INIT_MESSAGE_FIRST_BYTE :: w ∧ InitMsg.readFrom env w n.cfg.trusted = .ok (m, k) ∧ k ∈ n.cfg.trusted ∧
      env.keyHash k (w.take 4) = (w.drop 4).take 4 ∧
      ∃ signed sig rest, w = signed ++ [sig.length] ++ sig ++ rest ∧ env.sigVerify k signed sig = true := by
  obtain ⟨_, pc', out, res, log, payload, info, hm, hres, _⟩ := peer_added_only_after_success env bodyOf o n now src data tail hin hnot
  obtain ⟨w, ist, ist', o', p, ini, l, hdata, _, hi, hh, _⟩ :=
    handleMessage_init_inv env bodyOf payloadOk _ data tail _ _ pc' out res log hm ⟨payload, hres⟩
  have htr : ist.trusted = n.cfg.trusted :=
    hsObject_sessP (P := fun _ t => t = n.cfg.trusted) o n (mappedAddr src) rfl ((regular_iff n).1 hreg) ist hi
  obtain ⟨m, k, hr, _⟩ := C01.success_needs_trusted_signature env bodyOf payloadOk ist ist' w _ o' p ini l hh
  rw [htr] at hr
  obtain ⟨hk, hkh, hsig⟩ := C01.readFrom_accept_genuine env w n.cfg.trusted m k hr
  exact ⟨w, m, k, hdata, hr, hk, hkh, hsig⟩

/-! ### the node's identity never changes; `Regular` is an invariant -/

/-- the invariant `NI` (identity of the node constant, handshake objects satisfy `P`) over one step of any kind -/
theorem ni_step {P : Bytes → List Bytes → Prop} {N : Bytes} {K : NodeCfg} {A : NAddr} {n : Node} {c : Ctx}
    (hs : StepAny n c) (h : NI P N K A { node := n }) : NI P N K A c := by
  cases hs with
  | net env bodyOf o _ now src data tail => exact handleNet_NI env bodyOf o n now src data tail h
  | iface o _ now data => exact handleIface_NI o n now data h
  | tick env o _ now => exact housekeep_NI env o n now h
  | dial env o _ addrs => exact connect_NI env o { node := n } addrs h

private theorem ni_trivial (n : Node) : NI (fun _ _ => True) n.nodeId n.cfg n.addr { node := n } :=
  NI.of_nodeP n trivial ⟨fun _ _ _ _ _ => trivial, fun _ _ _ _ _ => trivial⟩

/-- **cfg_const** (one step): no operation of the node changes its configuration, its node id or its listen address -/
theorem cfg_const_step {n : Node} {c : Ctx} (hs : StepAny n c) : c.node.cfg = n.cfg ∧ c.node.nodeId = n.nodeId ∧ c.node.addr = n.addr :=
  have h := ni_step hs (ni_trivial n)
  ⟨h.cfg, h.nodeId, h.addr⟩

/-- **cfg_const**: configuration (in particular the trusted keys), node id and listen address are the same in every reachable state -/
theorem cfg_const {n0 n : Node} (h : ReachAny n0 n) : n.cfg = n0.cfg ∧ n.nodeId = n0.nodeId ∧ n.addr = n0.addr := by
  induction h with
  | init => exact ⟨rfl, rfl, rfl⟩
  | step _ hs ih =>
    obtain ⟨h1, h2, h3⟩ := cfg_const_step hs
    exact ⟨h1.trans ih.1, h2.trans ih.2.1, h3.trans ih.2.2⟩

/-- every handshake object of the node carries the node's own id (what the self-connection check compares with) -/
def OwnId (n : Node) : Prop :=
  (∀ a p, (a, p) ∈ n.peers → ∀ i, p.crypto.init = some i → i.nodeId = n.nodeId) ∧
  (∀ a pc, (a, pc) ∈ n.pending → ∀ i, pc.init = some i → i.nodeId = n.nodeId)

private theorem nodeP_step {P : Bytes → List Bytes → Prop} {n : Node} {c : Ctx} (hs : StepAny n c) (hnew : P n.nodeId n.cfg.trusted)
    (h : NodeP P n) : NodeP P c.node :=
  (ni_step hs (NI.of_nodeP n hnew h)).nodeP

/-- **regular_preserved**: every operation (`handle_net_message`, `handle_interface_data`, `housekeep`, `connect`) keeps the state regular -/
theorem regular_preserved {n : Node} {c : Ctx} (hs : StepAny n c) (h : Regular n) : Regular c.node := by
  have h1 : NodeP (fun _ t => t = n.cfg.trusted) c.node := nodeP_step hs rfl h
  rw [← (cfg_const_step hs).1] at h1
  exact h1

/-- `Regular` under `handle_net_message` -/
theorem regular_handleNet (env : CryptoEnv) (bodyOf : Init.BodyOf) (o : Oracle) (n : Node) (now : Int) (src : NAddr) (data tail : Bytes)
    (h : Regular n) : Regular (handleNet env bodyOf o n now src data tail).1.node :=
  regular_preserved (.net env bodyOf o n now src data tail) h

/-- `Regular` under `handle_interface_data` -/
theorem regular_handleIface (o : Oracle) (n : Node) (now : Int) (data : Bytes) (h : Regular n) : Regular (handleIface o n now data).node :=
  regular_preserved (.iface o n now data) h

/-- `Regular` under `housekeep` -/
theorem regular_housekeep (env : CryptoEnv) (o : Oracle) (n : Node) (now : Int) (h : Regular n) : Regular (housekeep env o n now).node :=
  regular_preserved (.tick env o n now) h

/-- `Regular` under `connect` -/
theorem regular_connect (env : CryptoEnv) (o : Oracle) (n : Node) (addrs : List NAddr) (h : Regular n) :
    Regular (connect env o { node := n } addrs).node :=
  regular_preserved (.dial env o n addrs) h

/-- the same for `OwnId` -/
theorem ownId_preserved {n : Node} {c : Ctx} (hs : StepAny n c) (h : OwnId n) : OwnId c.node := by
  have h1 : NodeP (fun i _ => i = n.nodeId) c.node := nodeP_step hs rfl h
  rw [← (cfg_const_step hs).2.1] at h1
  exact h1

/-- `Regular` and `OwnId` hold in every state reachable from a regular state … -/
theorem regular_reach' {n0 n : Node} (h0 : Regular n0) (h : ReachAny n0 n) : Regular n := by
  induction h with
  | init => exact h0
  | step _ hs ih => exact regular_preserved hs ih

/-- `OwnId` in every state reachable from a state with `OwnId` -/
theorem ownId_reach' {n0 n : Node} (h0 : OwnId n0) (h : ReachAny n0 n) : OwnId n := by
  induction h with
  | init => exact h0
  | step _ hs ih => exact ownId_preserved hs ih

/-- … in particular in every state reachable from a node without peers and without pending attempts -/
theorem regular_reach {n0 n : Node} (h0 : n0.peers = [] ∧ n0.pending = []) (h : ReachAny n0 n) : Regular n ∧ OwnId n := by
  obtain ⟨h1, h2⟩ := h0
  refine ⟨regular_reach' ⟨?_, ?_⟩ h, ownId_reach' ⟨?_, ?_⟩ h⟩
  · intro a p hm; rw [h1] at hm; cases hm
  · intro a pc hm; rw [h2] at hm; cases hm
  · intro a p hm; rw [h1] at hm; cases hm
  · intro a pc hm; rw [h2] at hm; cases hm

/-- **new peers in all histories**: in every history from a node without sessions, whoever becomes a new peer in a step sent a handshake
    datagram whose window `read_from` accepts under a key of the INITIAL configuration's trusted list -/
theorem new_peer_trusted_in_history (n0 n : Node) (h0 : n0.peers = [] ∧ n0.pending = []) (h : ReachAny n0 n)
    (env : CryptoEnv) (bodyOf : Init.BodyOf) (o : Oracle) (now : Int) (src : NAddr) (data tail : Bytes)
    (hin : mappedAddr src ∈ (handleNet env bodyOf o n now src data tail).1.node.peers.map (·.1))
    (hnot : mappedAddr src ∉ n.peers.map (·.1)) :
    ∃ w m k, data = Generated.INIT_MESSAGE_FIRST_BYTE :: w ∧ InitMsg.readFrom env w n0.cfg.trusted = .ok (m, k) ∧ k ∈ n0.cfg.trusted ∧
      ∃ signed sig rest, w = signed ++ [sig.length] ++ sig ++ rest ∧ env.sigVerify k signed sig = true := by
  obtain ⟨w, m, k, h1, h2, h3, _, h5⟩ := new_peer_proved_trusted_key env bodyOf o n now src data tail (regular_reach h0 h).1 hin hnot
  rw [(cfg_const h).1] at h2 h3
  exact ⟨w, m, k, h1, h2, h3, h5⟩

/-! ## 4. C14: a handshake datagram of the node itself never adds a peer -/

/-- **self_handshake_never_adds_peer**: a handshake datagram that `read_from` accepts and whose salted node-id hash was derived from the
    receiving node's own id — by whatever address it arrives, whatever is known about that address (unknown, pending attempt, established
    peer with or without a lingering handshake object) — is refused: no peer is added, nothing is sent or delivered, routes and own
    addresses are unchanged, no panic; of the pending attempts at most the one for the sender is removed. -/
theorem self_handshake_never_adds_peer (env : CryptoEnv) (bodyOf : Init.BodyOf) (o : Oracle) (n : Node) (now : Int) (src : NAddr) (w tail : Bytes)
    (m : InitMsg) (k salt : Bytes) (hreg : Regular n) (hown : OwnId n)
    (hr : InitMsg.readFrom env w n.cfg.trusted = .ok (m, k)) (hs : salt.length = 4) (hh : m.hash = salt ++ env.nodeHash salt n.nodeId) :
    let r := handleNet env bodyOf o n now src (Generated.INIT_MESSAGE_FIRST_BYTE :: w) tail
    r.1.node.peers.map (·.1) = n.peers.map (·.1) ∧ r.1.outs = [] ∧ r.1.panicked = false ∧ r.1.node.table = n.table ∧ r.1.node.own = n.own ∧
    (r.1.node.pending.map (·.1) = n.pending.map (·.1) ∨
     r.1.node.pending.map (·.1) = (n.pending.map (·.1)).filter (fun b => b ≠ mappedAddr src)) := by
  have hne : w ≠ [] := by
    intro he; rw [he, readFrom_nil] at hr; cases hr
  have hid : NodeP (fun i t => i = n.nodeId ∧ t = n.cfg.trusted) n :=
    ⟨fun a p hm i hi => ⟨hown.1 a p hm i hi, hreg.1 a p hm i hi⟩, fun a pc hm i hi => ⟨hown.2 a pc hm i hi, hreg.2 a pc hm i hi⟩⟩
  have h := (dispatch_self env bodyOf o n now (mappedAddr src) w tail m k salt hid hne hr hs hh).refused
  intro r
  have hr' : r = finish (mappedAddr src) (dispatch env bodyOf o n now (mappedAddr src) (Generated.INIT_MESSAGE_FIRST_BYTE :: w) tail) := rfl
  clear_value r
  subst hr'
  exact ⟨h.peers, h.outs, h.panicked, h.table, h.own, h.pending.imp id (fun x => x.2)⟩

/-- **self_handshake_closes_attempt**: … and if the pending attempt stored for the sender (if any) still has its handshake object, the
    error is the fatal "connected to self", and after the step no attempt is pending for the sender: the stored attempt is removed, a
    throw-away responder is not stored. -/
theorem self_handshake_closes_attempt (env : CryptoEnv) (bodyOf : Init.BodyOf) (o : Oracle) (n : Node) (now : Int) (src : NAddr) (w tail : Bytes)
    (m : InitMsg) (k salt : Bytes) (hreg : Regular n) (hown : OwnId n)
    (hpend : ∀ pc, lookupA n.pending (mappedAddr src) = some pc → pc.init.isSome = true)
    (hr : InitMsg.readFrom env w n.cfg.trusted = .ok (m, k)) (hs : salt.length = 4) (hh : m.hash = salt ++ env.nodeHash salt n.nodeId) :
    let r := handleNet env bodyOf o n now src (Generated.INIT_MESSAGE_FIRST_BYTE :: w) tail
    r.2 = some .cryptoInitFatal ∧ lookupA r.1.node.pending (mappedAddr src) = none ∧
    r.1.node.pending.map (·.1) = (n.pending.map (·.1)).filter (fun b => b ≠ mappedAddr src) := by
  have hne : w ≠ [] := by
    intro he; rw [he, readFrom_nil] at hr; cases hr
  have hid : NodeP (fun i t => i = n.nodeId ∧ t = n.cfg.trusted) n :=
    ⟨fun a p hm i hi => ⟨hown.1 a p hm i hi, hreg.1 a p hm i hi⟩, fun a pc hm i hi => ⟨hown.2 a pc hm i hi, hreg.2 a pc hm i hi⟩⟩
  have h := dispatch_self env bodyOf o n now (mappedAddr src) w tail m k salt hid hne hr hs hh
  intro r
  have hr' : r = finish (mappedAddr src) (dispatch env bodyOf o n now (mappedAddr src) (Generated.INIT_MESSAGE_FIRST_BYTE :: w) tail) := rfl
  clear_value r
  subst hr'
  obtain ⟨h1, h2⟩ := h.closed hpend
  refine ⟨h1, h2, ?_⟩
  rcases h.refused.pending with h3 | h3
  · -- keys unchanged and no attempt for the sender afterwards: then there was none before
    rw [h3]
    have : mappedAddr src ∉ n.pending.map (·.1) := by
      rw [← h3, ← lookupA_none_iff]; exact h2
    symm
    rw [List.filter_eq_self]
    intro b hb
    simp only [ne_eq, decide_not, Bool.not_eq_true', decide_eq_false_iff_not]
    intro hbe
    exact this (hbe ▸ hb)
  · exact h3.2

/-! ### the hypothesis `hpend` holds in all reachable states: pending sessions keep a live handshake object -/

/-- every operation keeps "every pending session has a handshake object that is neither closing nor waiting to close"
    (a session whose handshake completes is moved to `peers` in the same step; one whose handshake object gives up is removed) -/
theorem pendLive_preserved {n : Node} {c : Ctx} (hs : StepAny n c) (h : PendLive n) : PendLive c.node := by
  rw [pendLive_iff]
  have h0 := (pendLive_iff { node := n }).1 h
  cases hs with
  | net env bodyOf o _ now src data tail =>
    exact handleNet_GI SD env bodyOf o n now src data tail h0
      (fun pc inPeers rnd rr hpc => sokD env bodyOf pc inPeers data tail rnd rr hpc) (fun hf => hf.elim)
  | iface o _ now data => exact handleIface_GI SD o n now data h0
  | tick env o _ now => exact housekeep_GI SD env o n now h0 tokD (fun hf => hf.elim)
  | dial env o _ addrs => exact connect_GI SD none env o { node := n } addrs h0

/-- pending sessions are live in every state reachable from a node without pending attempts -/
theorem pendLive_reach {n0 n : Node} (h0 : n0.pending = []) (h : ReachAny n0 n) : PendLive n := by
  induction h with
  | init => intro a pc hm; rw [h0] at hm; cases hm
  | step _ hs ih => exact pendLive_preserved hs ih

/-- `PendLive` gives the hypothesis `hpend` of `self_handshake_closes_attempt` for every source address -/
theorem pendLive_hpend {n : Node} (h : PendLive n) (s : NAddr) : ∀ pc, lookupA n.pending s = some pc → pc.init.isSome = true :=
  fun pc hq => (h s pc (lookupA_some_mem hq)).isSome

/-- **a node never becomes its own peer, in all histories**: in every state reachable from a node without sessions, a handshake datagram
    that `read_from` accepts under the (initial = current) trusted keys and whose salted node-id hash was derived from the node's own id
    adds no peer, emits nothing, ends with the fatal "connected to self" error and leaves no attempt pending for its source address -/
theorem self_handshake_in_history (n0 n : Node) (h0 : n0.peers = [] ∧ n0.pending = []) (h : ReachAny n0 n)
    (env : CryptoEnv) (bodyOf : Init.BodyOf) (o : Oracle) (now : Int) (src : NAddr) (w tail : Bytes) (m : InitMsg) (k salt : Bytes)
    (hr : InitMsg.readFrom env w n0.cfg.trusted = .ok (m, k)) (hs : salt.length = 4) (hh : m.hash = salt ++ env.nodeHash salt n0.nodeId) :
    let r := handleNet env bodyOf o n now src (Generated.INIT_MESSAGE_FIRST_BYTE :: w) tail
    r.1.node.peers.map (·.1) = n.peers.map (·.1) ∧ r.1.outs = [] ∧ r.1.panicked = false ∧
    r.2 = some .cryptoInitFatal ∧ lookupA r.1.node.pending (mappedAddr src) = none := by
  obtain ⟨hreg, hown⟩ := regular_reach h0 h
  obtain ⟨hc1, hc2, _⟩ := cfg_const h
  rw [← hc1] at hr
  rw [← hc2] at hh
  have ha := self_handshake_never_adds_peer env bodyOf o n now src w tail m k salt hreg hown hr hs hh
  have hb := self_handshake_closes_attempt env bodyOf o n now src w tail m k salt hreg hown
    (pendLive_hpend (pendLive_reach h0.2 h) _) hr hs hh
  exact ⟨ha.1, ha.2.1, ha.2.2.1, hb.1, hb.2.1⟩

/-! ## 2. no reply to rejected handshake datagrams; routes and learned addresses only from the sender, only if it is a peer -/

/-- **no_reply_to_rejected** (restated from `C08.node_reject_pure`): a handshake datagram whose window `read_from` rejects under the
    node's trusted keys gets no reply (no output at all), creates no peer, alters no pending handshake key, no route, no own address -/
theorem no_reply_to_rejected (env : CryptoEnv) (bodyOf : Init.BodyOf) (o : Oracle) (n : Node) (now : Int) (src : NAddr) (rest tail : Bytes) (e : InitErr)
    (hreg : Regular n) (hne : rest ≠ []) (h : InitMsg.readFrom env rest n.cfg.trusted = .error e) :
    let r := handleNet env bodyOf o n now src (Generated.INIT_MESSAGE_FIRST_BYTE :: rest) tail
    r.1.panicked = false ∧ r.1.outs = [] ∧ r.1.node.table = n.table ∧
    r.1.node.peers.map (·.1) = n.peers.map (·.1) ∧ r.1.node.pending.map (·.1) = n.pending.map (·.1) ∧ r.1.node.own = n.own :=
  C08.node_reject_pure env bodyOf o n now src rest tail e hreg hne h

/-- **table_changes_only_for_sender**: processing a datagram performs at most ONE table operation, and that for the id of the sender:
    claims are set (`set_claims`) only if the sender is an established peer after the step; an address is learned only for the sender, and —
    if the pending session of a non-peer sender is fresh — only if the sender is a peer; or the sender's entries are removed. -/
theorem table_changes_only_for_sender (env : CryptoEnv) (bodyOf : Init.BodyOf) (o : Oracle) (n : Node) (now : Int) (src : NAddr) (data tail : Bytes) :
    TblCase n.table now (mappedAddr src)
      (SenderFresh n (mappedAddr src) → mappedAddr src ∈ (handleNet env bodyOf o n now src data tail).1.node.peers.map (·.1))
      (handleNet env bodyOf o n now src data tail).1 := by
  have h := dispatch_tbl env bodyOf o n now (mappedAddr src) data tail
  rw [handleNet_eq]
  cases h with
  | same h => exact .same (by rw [finish_table]; exact h)
  | learn a h l => exact .learn a (by rw [finish_table]; exact h) (by rw [finish_peers]; exact l)
  | set cs h k => exact .set cs (by rw [finish_table]; exact h) (by rw [finish_peers]; exact k)
  | remove h => exact .remove (by rw [finish_table]; exact h)

/-- **routes_only_from_peers**: at any time `now > 0`, every claim entry in the table after a datagram was processed that was not there
    before belongs to the sender (`peer = addrId (mappedAddr src)`), and the sender is an established peer after the step.
    (`0 < now` is added: see the counterexample below.) -/
theorem routes_only_from_peers (env : CryptoEnv) (bodyOf : Init.BodyOf) (o : Oracle) (n : Node) (now : Int) (src : NAddr) (data tail : Bytes)
    (hnow : 0 < now) :
    ∀ e ∈ (handleNet env bodyOf o n now src data tail).1.node.table.claims, e ∉ n.table.claims →
      e.peer = addrId (mappedAddr src) ∧ mappedAddr src ∈ (handleNet env bodyOf o n now src data tail).1.node.peers.map (·.1) := by
  intro e he hnew
  cases table_changes_only_for_sender env bodyOf o n now src data tail with
  | same h => rw [h] at he; exact absurd he hnew
  | learn a h l => rw [h] at he; exact absurd he hnew
  | set cs h k =>
    rw [h] at he
    rcases setClaims_claims_mem _ _ _ _ e he with h1 | h1
    · exact absurd h1 hnew
    · exact ⟨h1, k⟩
  | remove h =>
    rw [h, C12.removeClaims_claims _ _ _ hnow] at he
    exact absurd (List.mem_filter.1 he).1 hnew

/-- **learned_only_from_peers**: at any time `now > 0`, if the pending session of a sender that is not a peer is fresh (no crypto core, not
    in unencrypted mode — an invariant of all reachable states, `C12Node.PendFresh`), every cache entry after the step that was not there
    before (a learned address, or an entry marked as expired) names the sender, and the sender is an established peer after the step. -/
theorem learned_only_from_peers (env : CryptoEnv) (bodyOf : Init.BodyOf) (o : Oracle) (n : Node) (now : Int) (src : NAddr) (data tail : Bytes)
    (hnow : 0 < now) (hfresh : SenderFresh n (mappedAddr src)) :
    ∀ v ∈ (handleNet env bodyOf o n now src data tail).1.node.table.cache, v ∉ n.table.cache →
      v.peer = addrId (mappedAddr src) ∧ mappedAddr src ∈ (handleNet env bodyOf o n now src data tail).1.node.peers.map (·.1) := by
  intro v hv hnew
  cases table_changes_only_for_sender env bodyOf o n now src data tail with
  | same h => rw [h] at hv; exact absurd hv hnew
  | learn a h l =>
    rw [h] at hv
    rcases learn_cache_mem _ _ _ _ v hv with h1 | h1
    · exact absurd h1 hnew
    · exact ⟨h1, l hfresh⟩
  | set cs h k =>
    rw [h] at hv
    rcases setClaims_cache_mem _ _ _ _ v hv with h1 | h1
    · exact absurd h1 hnew
    · exact ⟨h1, k⟩
  | remove h =>
    rw [h, C12.removeClaims_cache _ _ _ hnow] at hv
    exact absurd (List.mem_filter.1 hv).1 hnew

/-- the hypothesis of `learned_only_from_peers` holds in every state with fresh pending sessions (`C12Node.PendFresh`, an invariant) -/
theorem senderFresh_of_pendFresh (n : Node) (s : NAddr) (h : C12Node.PendFresh n) : SenderFresh n s :=
  fun pc _ hq => h s pc (lookupA_some_mem hq)

/-! ## 3. C14: addresses listed under the node's own id are adopted as own addresses and not dialled -/

/-- **own_addresses_adopted_not_dialled** (one entry): an entry of a peer list that carries the node's own id, none of whose addresses is
    the address of a current peer, causes no datagram and no pending attempt; all its addresses are own addresses afterwards (and `own`
    gains nothing else); peers are untouched. -/
theorem own_addresses_adopted_not_dialled (env : CryptoEnv) (o : Oracle) (c : Ctx) (pi : PeerInfo)
    (hid : pi.nodeId = some c.node.nodeId) (hnp : ∀ a ∈ pi.addrs, a ∉ c.node.peers.map (·.1)) :
    (connectToPeers env o c [pi]).outs = c.outs ∧ (connectToPeers env o c [pi]).node.pending = c.node.pending ∧
    (connectToPeers env o c [pi]).node.peers = c.node.peers ∧
    (∀ a ∈ pi.addrs, a ∈ (connectToPeers env o c [pi]).node.own) ∧
    (∀ a, a ∈ (connectToPeers env o c [pi]).node.own ↔ a ∈ c.node.own ∨ a ∈ pi.addrs) := by
  rw [connectToPeers_own_entry env o c pi hid hnp]
  refine ⟨rfl, rfl, rfl, fun a ha => ?_, fun a => ?_⟩
  · show a ∈ pi.addrs.foldl (fun own a => if own.contains a then own else own ++ [a]) c.node.own
    rw [mem_foldl_adopt]; exact Or.inr ha
  · show a ∈ pi.addrs.foldl (fun own a => if own.contains a then own else own ++ [a]) c.node.own ↔ _
    rw [mem_foldl_adopt]

/-- **own_entries_adopted** (the whole peer list): the addresses of EVERY entry that carries the node's own id and names no current peer
    are own addresses after `connect_to_peers` -/
theorem own_entries_adopted (env : CryptoEnv) (o : Oracle) (c : Ctx) (infos : List PeerInfo) (pi : PeerInfo) (hpi : pi ∈ infos)
    (hid : pi.nodeId = some c.node.nodeId) (hnp : ∀ a ∈ pi.addrs, a ∉ c.node.peers.map (·.1)) :
    ∀ a ∈ pi.addrs, a ∈ (connectToPeers env o c infos).node.own :=
  connectToPeers_adopts env o infos c pi hpi hid hnp

/-- **dialled_only_foreign** (the whole peer list): everything `connect_to_peers` emits is a handshake datagram, and every address it dials
    (destination of such a datagram / new key of `pending`) is the (mapped) address of an entry that does NOT carry the node's own id,
    and was not an own address when `connect_to_peers` began; own addresses only grow. -/
theorem dialled_only_foreign (env : CryptoEnv) (o : Oracle) (c : Ctx) (infos : List PeerInfo) :
    (∃ ex, (connectToPeers env o c infos).outs = c.outs ++ ex ∧ ∀ x ∈ ex, ∃ d b, x = .dgram d (Generated.INIT_MESSAGE_FIRST_BYTE :: b) ∧
      d ∉ c.node.own ∧ ∃ pi ∈ infos, pi.nodeId ≠ some c.node.nodeId ∧ d ∈ pi.addrs.map mappedAddr) ∧
    (∀ a, a ∈ (connectToPeers env o c infos).node.pending.map (·.1) → a ∈ c.node.pending.map (·.1) ∨
      (a ∉ c.node.own ∧ ∃ pi ∈ infos, pi.nodeId ≠ some c.node.nodeId ∧ a ∈ pi.addrs.map mappedAddr)) ∧
    (∀ a ∈ c.node.own, a ∈ (connectToPeers env o c infos).node.own) := by
  obtain ⟨h1, h2, _⟩ := connectToPeers_dials env o infos c
  exact ⟨h1.outs, h1.pending, h2⟩

/-- **connect_skips_own**: `connect` (and `connect_sock`) emit only handshake datagrams, to (mapped) addresses from their argument that are
    not own addresses; new keys of `pending` likewise; own addresses are not changed -/
theorem connect_skips_own (env : CryptoEnv) (o : Oracle) (c : Ctx) (addrs : List NAddr) :
    (∃ ex, (connect env o c addrs).outs = c.outs ++ ex ∧ ∀ x ∈ ex, ∃ d b, x = .dgram d (Generated.INIT_MESSAGE_FIRST_BYTE :: b) ∧
      d ∈ addrs.map mappedAddr ∧ d ∉ c.node.own) ∧
    (∀ a, a ∈ (connect env o c addrs).node.pending.map (·.1) → a ∈ c.node.pending.map (·.1) ∨ (a ∈ addrs.map mappedAddr ∧ a ∉ c.node.own)) ∧
    (connect env o c addrs).node.own = c.node.own := by
  obtain ⟨h1, h2⟩ := connect_dials env o c addrs
  exact ⟨h1.outs, h1.pending, h2⟩

/-- the same for a single `connect_sock` -/
theorem connectSock_skips_own (env : CryptoEnv) (o : Oracle) (c : Ctx) (a0 : NAddr) :
    (∃ ex, (connectSock env o c a0).outs = c.outs ++ ex ∧ ∀ x ∈ ex, ∃ d b, x = .dgram d (Generated.INIT_MESSAGE_FIRST_BYTE :: b) ∧
      d = mappedAddr a0 ∧ d ∉ c.node.own ∧ d ∉ c.node.peers.map (·.1) ∧ d ∉ c.node.pending.map (·.1)) ∧
    (∀ a, a ∈ (connectSock env o c a0).node.pending.map (·.1) → a ∈ c.node.pending.map (·.1) ∨
      (a = mappedAddr a0 ∧ a ∉ c.node.own ∧ a ∉ c.node.peers.map (·.1) ∧ a ∉ c.node.pending.map (·.1))) ∧
    (connectSock env o c a0).node.own = c.node.own :=
  ⟨(connectSock_dials env o c a0).outs, (connectSock_dials env o c a0).pending, connectSock_own env o c a0⟩

/-- **own_never_dialled** (`handle_net_message`): a pending attempt that exists after the step and did not exist before is for an
    address that was NOT an own address when the step began — or for the sender of the datagram itself (the node answers a handshake
    from any address: that is a response, not a dial; see the example below).  This holds although `own` grows during the step:
    it only grows, and every dial is checked against the current list. -/
theorem own_never_dialled_net (env : CryptoEnv) (bodyOf : Init.BodyOf) (o : Oracle) (n : Node) (now : Int) (src : NAddr) (data tail : Bytes) :
    ∀ a, a ∈ (handleNet env bodyOf o n now src data tail).1.node.pending.map (·.1) →
      a ∈ n.pending.map (·.1) ∨ a = mappedAddr src ∨ a ∉ n.own := by
  intro a ha
  rw [handleNet_eq] at ha
  have h := finish_PK (mappedAddr src) _ (dispatch_PK env bodyOf o n now (mappedAddr src) data tail (PK.init n (some (mappedAddr src))))
  rcases h.pending a ha with h1 | h1 | h1
  · exact Or.inl h1
  · exact Or.inr (Or.inl (Option.some.inj h1))
  · exact Or.inr (Or.inr h1)

/-- **own_never_dialled** (`housekeep`): re-dialling timed-out peers, failed sessions and reconnect entries never creates a pending attempt
    for an address that was an own address when the tick began (the reset of the own addresses is the last thing `housekeep` does) -/
theorem own_never_dialled_tick (env : CryptoEnv) (o : Oracle) (n : Node) (now : Int) :
    ∀ a, a ∈ (housekeep env o n now).node.pending.map (·.1) → a ∈ n.pending.map (·.1) ∨ a ∉ n.own :=
  housekeep_PK env o n now

/-- **own_never_dialled** (`connect`) -/
theorem own_never_dialled_connect (env : CryptoEnv) (o : Oracle) (n : Node) (addrs : List NAddr) :
    ∀ a, a ∈ (connect env o { node := n } addrs).node.pending.map (·.1) → a ∈ n.pending.map (·.1) ∨ a ∉ n.own := by
  intro a ha
  rcases (connect_PK env o { node := n } addrs (PK.init n none)).pending a ha with h1 | h1 | h1
  · exact Or.inl h1
  · cases h1
  · exact Or.inr h1

/-- … and `handle_interface_data` leaves the pending attempts alone -/
theorem own_never_dialled_iface (o : Oracle) (n : Node) (now : Int) (data : Bytes) :
    (handleIface o n now data).node.pending = n.pending := by
  have hsend : ∀ (c : Ctx) (a : NAddr) (ty : Nat) (body : Bytes), ((sendMsg o c a ty body).getD c).node.pending = c.node.pending := by
    intro c a ty body
    unfold sendMsg
    split
    · rfl
    · simp only []
      split
      · rfl
      · rfl
  have hbc : ∀ (l : List NAddr) (c : Ctx) (ty : Nat) (body : Bytes),
      (l.foldl (fun c a => (sendMsg o c a ty body).getD c) c).node.pending = c.node.pending := by
    intro l
    induction l with
    | nil => intro c ty body; rfl
    | cons a l ih => intro c ty body; exact (ih _ ty body).trans (hsend c a ty body)
  unfold handleIface
  simp only []
  split
  · rfl
  · split
    · split
      · exact hsend _ _ _ _
      · rfl
    · split
      · exact hbc _ _ _ _
      · rfl

/-! ## non-vacuity of every hypothesis, and the counterexamples to the statements without the added hypotheses
    (toy cryptography of `InitLemmas.Toy`; `decide +kernel` evaluates closed terms of the executable model) -/
section NonVacuity

private def s : NAddr := .v6 (List.replicate 16 0) 1
private def s2 : NAddr := .v6 (List.replicate 16 0) 2
private def s3 : NAddr := .v6 (List.replicate 16 0) 3
private def s4 : NAddr := .v6 (List.replicate 16 0) 4
private def cfg0 : NodeCfg :=
  { tap := false, learning := true, broadcast := false, peerTimeout := 300, peerTimeoutPublish := 300, updateFreq := 10,
    claims := [], key := [7, 7, 7, 7], trusted := [[9, 9, 9, 9], [7, 7, 7, 7]], algos := Toy.algosPlain }
private def o0 : Oracle := { emitted := fun _ _ => [], rotProp := fun _ => 0, rotPend := fun _ => 0, starts := fun _ => [] }
private def nid : Bytes := List.replicate 16 9
/-- a handshake object of the node: an initiator that has sent its ping -/
private def ist : InitSt := { Toy.st with nodeId := nid, trusted := cfg0.trusted, algos := Toy.algosPlain }
private def p1 : Peer := { addrs := [], timeout := 1000, peerTimeout := 300, nodeId := List.replicate 16 1, crypto := { init := none, unencrypted := true } }
/-- a node (trusting the key `9999` and its own key `7777`) with an established unencrypted peer `s` that has one claim, and a pending attempt for `s2` -/
private def n1 : Node :=
  { nodeId := nid, addr := s3, cfg := cfg0, peers := [(s, p1)], pending := [(s2, { init := some ist })],
    table := { cacheTimeout := 300, claimTimeout := 300, claims := [⟨1, ⟨[10, 0, 0, 0], 8⟩, 2000⟩] } }
/-- node information of the peer behind `s2`: one claim, and an entry that lists `s4` under the id of `n1` itself -/
private def peerInfo : NodeInfo :=
  { nodeId := List.replicate 16 2, peers := [{ nodeId := some nid, addrs := [s4] }], claims := [⟨[10, 2, 0, 0], 16⟩], peerTimeout := none, addrs := [] }
/-- a genuine pong, signed by the trusted key `9999`, with that node information as payload -/
private def pong : Bytes :=
  InitMsg.writeTo (.pong (List.replicate 20 2) [6] Toy.algosPlain (Codec.encodeNodeInfo peerInfo)) [0, 0, 0, 1] [9, 9, 9, 9] [9, 9, 0, 0]
/-- a genuine ping of the same peer -/
private def ping : Bytes := InitMsg.writeTo (.ping (List.replicate 20 2) [6] Toy.algosPlain) [0, 0, 0, 1] [9, 9, 9, 9] [9, 9, 0, 0]
/-- a ping of the node itself (signed with its own, trusted key `7777`): the salted hash is derived from its own node id -/
private def selfHash : Bytes := [3, 3, 3, 3] ++ Toy.env.nodeHash [3, 3, 3, 3] nid
private def selfPing : Bytes := InitMsg.writeTo (.ping selfHash [6] Toy.algosPlain) [0, 0, 0, 1] [7, 7, 7, 7] [7, 7, 0, 0]

private theorem n1_regular : Regular n1 ∧ OwnId n1 := by
  refine ⟨⟨?_, ?_⟩, ⟨?_, ?_⟩⟩
  all_goals
    intro a p hm i hi
    simp only [n1, List.mem_singleton, Prod.mk.injEq] at hm
    obtain ⟨_, rfl⟩ := hm
    first
      | (cases hi; rfl)
      | cases hi

/-- 1. the hypotheses of `peer_added_only_after_success` / `new_peer_proved_trusted_key` are met: the genuine pong makes `s2` a new peer of the regular node `n1` … -/
example : Regular n1 ∧
    mappedAddr s2 ∈ (handleNet Toy.env (Toy.body 0) o0 n1 100 s2 (Generated.INIT_MESSAGE_FIRST_BYTE :: pong) []).1.node.peers.map (·.1) ∧
    mappedAddr s2 ∉ n1.peers.map (·.1) :=
  ⟨n1_regular.1, by decide +kernel⟩

/-- … its claims are accepted (claim entries of the ids 1 and 2 afterwards), and the address listed under the node's own id is adopted, not dialled -/
example : (handleNet Toy.env (Toy.body 0) o0 n1 100 s2 (Generated.INIT_MESSAGE_FIRST_BYTE :: pong) []).1.node.table.claims.map (·.peer) = [1, 2] ∧
    (handleNet Toy.env (Toy.body 0) o0 n1 100 s2 (Generated.INIT_MESSAGE_FIRST_BYTE :: pong) []).1.node.own = [s4] ∧
    (handleNet Toy.env (Toy.body 0) o0 n1 100 s2 (Generated.INIT_MESSAGE_FIRST_BYTE :: pong) []).1.node.pending = [] := by
  decide +kernel

/-- a reachable state (hypothesis of `regular_reach`, `cfg_const`, `new_peer_trusted_in_history`): dial, then the pong arrives -/
example : ReachAny { n1 with peers := [], pending := [] }
    (handleNet Toy.env (Toy.body 0) o0 (connect Toy.env o0 { node := { n1 with peers := [], pending := [] } } [s2]).node 100 s2
      (Generated.INIT_MESSAGE_FIRST_BYTE :: pong) []).1.node :=
  .step (.step .init (.dial Toy.env o0 _ [s2])) (.net Toy.env (Toy.body 0) o0 _ 100 s2 _ [])

/-- 4. the hypotheses of `self_handshake_never_adds_peer` / `self_handshake_closes_attempt` are met by `n1` and its own ping arriving from `s2` … -/
example : Regular n1 ∧ OwnId n1 ∧ (∀ pc, lookupA n1.pending (mappedAddr s2) = some pc → pc.init.isSome = true) ∧
    InitMsg.readFrom Toy.env selfPing n1.cfg.trusted = .ok (.ping selfHash [6] Toy.algosPlain, [7, 7, 7, 7]) ∧
    ([3, 3, 3, 3] : Bytes).length = 4 ∧ (InitMsg.ping selfHash [6] Toy.algosPlain).hash = [3, 3, 3, 3] ++ Toy.env.nodeHash [3, 3, 3, 3] n1.nodeId := by
  refine ⟨n1_regular.1, n1_regular.2, ?_, by decide +kernel, rfl, rfl⟩
  intro pc h
  have : pc = { init := some ist } := by
    have h' : some ({ init := some ist } : PeerCrypto) = some pc := h
    cases h'; rfl
  rw [this]; rfl

/-- … and the attempt pending for `s2` is closed -/
example : (handleNet Toy.env (Toy.body 0) o0 n1 100 s2 (Generated.INIT_MESSAGE_FIRST_BYTE :: selfPing) []).1.node.pending.map (·.1) = [] ∧
    (handleNet Toy.env (Toy.body 0) o0 n1 100 s2 (Generated.INIT_MESSAGE_FIRST_BYTE :: selfPing) []).2 = some .cryptoInitFatal := by
  decide +kernel

/-- `hpend` of `self_handshake_closes_attempt` is needed: a pending session that has lost its handshake object answers with the state
    error, which is not fatal, and stays stored (no peer is added all the same) -/
example : let n1b : Node := { n1 with pending := [(s2, { init := none })] }
    Regular n1b ∧ OwnId n1b ∧
    (handleNet Toy.env (Toy.body 0) o0 n1b 100 s2 (Generated.INIT_MESSAGE_FIRST_BYTE :: selfPing) []).1.node.pending.map (·.1) = [s2] ∧
    (handleNet Toy.env (Toy.body 0) o0 n1b 100 s2 (Generated.INIT_MESSAGE_FIRST_BYTE :: selfPing) []).2 = some .state := by
  refine ⟨?_, ?_, by decide +kernel⟩
  · refine ⟨n1_regular.1.1, ?_⟩
    intro a pc hm i hi
    simp only [List.mem_singleton, Prod.mk.injEq] at hm
    obtain ⟨_, rfl⟩ := hm
    cases hi
  · refine ⟨n1_regular.2.1, ?_⟩
    intro a pc hm i hi
    simp only [List.mem_singleton, Prod.mk.injEq] at hm
    obtain ⟨_, rfl⟩ := hm
    cases hi

/-- 2. `0 < now` in `routes_only_from_peers` / `learned_only_from_peers` is needed.  A peer with an encrypted session and one claim says
    goodbye (a sealed `MESSAGE_TYPE_CLOSE`) at time 0: its claim is marked with the timeout 0, which is not in the past at time 0, so the
    table afterwards holds a claim entry that was not there before although the sender is no peer any more -/
private def p3 : Peer := { addrs := [], timeout := 1000, peerTimeout := 300, nodeId := List.replicate 16 1, crypto := { init := none, core := some (Core.new 5 false 1 []) } }
private def n3 : Node := { n1 with peers := [(s, p3)] }
private def closeSeal : Init.BodyOf := fun _ => .sealed 5 (HALF + 5) [Generated.MESSAGE_TYPE_CLOSE]
private def dgram24 : Bytes := [0, 0, 0, 0, 0, 0, 0, 5] ++ List.replicate 16 170

theorem routes_only_from_peers_needs_now :
    ¬ (∀ (env : CryptoEnv) (bodyOf : Init.BodyOf) (o : Oracle) (n : Node) (now : Int) (src : NAddr) (data tail : Bytes),
        ∀ e ∈ (handleNet env bodyOf o n now src data tail).1.node.table.claims, e ∉ n.table.claims →
          e.peer = addrId (mappedAddr src) ∧ mappedAddr src ∈ (handleNet env bodyOf o n now src data tail).1.node.peers.map (·.1)) := by
  intro h
  have h1 : (handleNet Toy.env closeSeal o0 n3 0 s dgram24 []).1.node.table.claims = [⟨1, ⟨[10, 0, 0, 0], 8⟩, 0⟩] := by decide +kernel
  have h2 : (handleNet Toy.env closeSeal o0 n3 0 s dgram24 []).1.node.peers.map (·.1) = [] := by decide +kernel
  have := (h Toy.env closeSeal o0 n3 0 s dgram24 [] ⟨1, ⟨[10, 0, 0, 0], 8⟩, 0⟩ (by rw [h1]; exact List.mem_singleton.2 rfl) (by decide +kernel)).2
  rw [h2] at this
  cases this

/-- `SenderFresh` in `learned_only_from_peers` is needed (and satisfiable: `n1` has fresh pending sessions).  A pending session in
    unencrypted mode passes a data packet on, and in learning mode its source address is cached for the sender, which is no peer -/
example : SenderFresh n1 (mappedAddr s2) ∧ C12Node.PendFresh n1 := by
  have hp : C12Node.PendFresh n1 := by
    intro a pc hm
    simp only [n1, List.mem_singleton, Prod.mk.injEq] at hm
    obtain ⟨_, rfl⟩ := hm
    exact ⟨rfl, rfl⟩
  exact ⟨senderFresh_of_pendFresh n1 _ hp, hp⟩

private def nBad : Node := { n1 with peers := [], pending := [(s2, { init := none, unencrypted := true })] }
private def pkt : Bytes := 0 :: 69 :: (List.replicate 11 0 ++ [10, 0, 0, 1, 10, 0, 0, 2])

theorem learned_only_from_peers_needs_fresh :
    ¬ (∀ (env : CryptoEnv) (bodyOf : Init.BodyOf) (o : Oracle) (n : Node) (now : Int) (src : NAddr) (data tail : Bytes), 0 < now →
        ∀ v ∈ (handleNet env bodyOf o n now src data tail).1.node.table.cache, v ∉ n.table.cache →
          v.peer = addrId (mappedAddr src) ∧ mappedAddr src ∈ (handleNet env bodyOf o n now src data tail).1.node.peers.map (·.1)) := by
  intro h
  have h1 : (handleNet Toy.env (fun _ => .garbage 0) o0 nBad 100 s2 pkt []).1.node.table.cache = [⟨[10, 0, 0, 1], 2, 400⟩] := by decide +kernel
  have h2 : (handleNet Toy.env (fun _ => .garbage 0) o0 nBad 100 s2 pkt []).1.node.peers.map (·.1) = [] := by decide +kernel
  have := (h Toy.env (fun _ => .garbage 0) o0 nBad 100 s2 pkt [] (by decide) ⟨[10, 0, 0, 1], 2, 400⟩ (by rw [h1]; exact List.mem_singleton.2 rfl)
    (by intro hm; cases hm)).2
  rw [h2] at this
  cases this

/-- learning does happen for a peer: a data packet of the unencrypted peer `s` (id 1) is delivered and its source address cached for `s` -/
example : (handleNet Toy.env (Toy.body 0) o0 n1 100 s pkt []).1.node.table.cache = [⟨[10, 0, 0, 1], 1, 400⟩] ∧
    mappedAddr s ∈ (handleNet Toy.env (Toy.body 0) o0 n1 100 s pkt []).1.node.peers.map (·.1) := by
  decide +kernel

/-- 3. the hypotheses of `own_addresses_adopted_not_dialled` are met: an entry with the node's own id and an address that is no peer -/
example : let pi : PeerInfo := { nodeId := some nid, addrs := [s4] }
    pi.nodeId = some ({ node := n1 } : Ctx).node.nodeId ∧ (∀ a ∈ pi.addrs, a ∉ ({ node := n1 } : Ctx).node.peers.map (·.1)) ∧
    (connectToPeers Toy.env o0 { node := n1 } [pi]).node.own = [s4] := by
  refine ⟨rfl, ?_, by decide +kernel⟩
  intro a ha
  simp only [List.mem_singleton] at ha
  subst ha
  decide +kernel

/-- … while the same address under a foreign id is dialled -/
example : (connectToPeers Toy.env o0 { node := n1 } [{ nodeId := some (List.replicate 16 5), addrs := [s4] }]).node.pending.map (·.1) = [s2, s4] ∧
    (connectToPeers Toy.env o0 { node := n1 } [{ nodeId := some (List.replicate 16 5), addrs := [s4] }]).outs.length = 1 := by
  decide +kernel

/-- observation (model = Rust: `own_addresses.push(*addr)` stores the listed address as it is, `connect` compares the MAPPED address):
    an IPv4 address listed under the node's own id is adopted in its IPv4 form, and a later entry of the same list that names the same
    address under a foreign id is dialled all the same, because its mapped form is not in `own`.  "Adopted, hence not dialled" holds for
    addresses listed in mapped (IPv6) form only; `dialled_only_foreign` is stated accordingly (mapped address not in `own` at the start). -/
example : let a4 : NAddr := .v4 [10, 0, 0, 9] 5000
    (connectToPeers Toy.env o0 { node := n1 } [{ nodeId := some nid, addrs := [a4] }, { nodeId := some (List.replicate 16 5), addrs := [a4] }]).node.own = [a4] ∧
    (connectToPeers Toy.env o0 { node := n1 } [{ nodeId := some nid, addrs := [a4] }, { nodeId := some (List.replicate 16 5), addrs := [a4] }]).node.pending.map (·.1) =
      [s2, mappedAddr a4] := by
  decide +kernel

/-- `own_never_dialled_net`: the disjunct "or the sender itself" is needed.  A genuine ping of a trusted peer that arrives from an address
    in `own` is answered, and the responder is stored as pending attempt for that address -/
theorem own_never_dialled_needs_sender :
    ¬ (∀ (env : CryptoEnv) (bodyOf : Init.BodyOf) (o : Oracle) (n : Node) (now : Int) (src : NAddr) (data tail : Bytes),
        ∀ a, a ∈ (handleNet env bodyOf o n now src data tail).1.node.pending.map (·.1) → a ∈ n.pending.map (·.1) ∨ a ∉ n.own) := by
  intro h
  have h1 : (handleNet Toy.env (Toy.body 0) o0 { n1 with own := [s4] } 100 s4 (Generated.INIT_MESSAGE_FIRST_BYTE :: ping) []).1.node.pending.map (·.1) = [s2, s4] := by
    decide +kernel
  rcases h Toy.env (Toy.body 0) o0 { n1 with own := [s4] } 100 s4 (Generated.INIT_MESSAGE_FIRST_BYTE :: ping) [] s4 (by rw [h1]; decide) with h2 | h2
  · revert h2; decide
  · exact h2 (List.mem_singleton.2 rfl)

end NonVacuity

end VpnCloud.Proofs.C01More
