import VpnCloud.Model.Node
import VpnCloud.Proofs.C03
import VpnCloud.Proofs.C12
import VpnCloud.Proofs.C13
import VpnCloud.Proofs.C15Node
import VpnCloud.Proofs.C15More
import VpnCloud.Proofs.C09More
import VpnCloud.Proofs.Lemmas.GuardsUsedLemmas
/-
  The comparison guards regenerated from the Rust source (`Generated/Guards.lean`) are called by the model at the places that mirror
  the source lines.  For each of the fourteen guards this file pins the comparison at its boundary value, as a statement about the MODEL
  function that calls it: what happens when the two compared quantities are equal, and what happens one step to the side.  When a
  comparison operator changes in the source (say `<` into `<=`), the regenerated guard changes and the theorem about it below no
  longer checks.

  Two guards compute a clamp (`backoffCapped`: `min`; `seenAdvances`: `max`): for those `>` / `>=` (resp. `<` / `<=`) give the same
  function, so the boundary value itself cannot tell them apart; the theorems state the value at the boundary and on both sides.
-/
namespace VpnCloud.Proofs.GuardsUsed

open VpnCloud VpnCloud.Node
open VpnCloud.Proofs.NodeLemmas VpnCloud.Proofs.NodeLemmas2 VpnCloud.Proofs.NodeInvLemmas
open VpnCloud.Proofs.C15MoreLemmas VpnCloud.Proofs.GuardsUsedLemmas

/-! ## `src/crypto/rotate.rs` -/

/-- **rotMsgStale** (`msg.message_id <= self.message_id`): the guard regenerated from `RotationState::process_message` is the
    comparison the model's `Rot.process` and `derivePanics` make.  A rotation message whose id EQUALS the id of the last one handled is
    ignored (the state is untouched and no key is derived, so it cannot reach a panicking `derive_key`); one whose id is larger by one is
    processed (its proposal becomes the pending key).  For all sides, messages and fresh keys. -/
theorem rotMsgStale_boundary (s : Rot.Side) (m : Rot.Msg) (f : Nat) (bm : Codec.RotMsg) :
    (∀ a b, Generated.rotMsgStale a b = decide (a ≤ b)) ∧
    (Generated.rotMsgStale m.id s.id = true → Rot.process s m f = s) ∧
    (Generated.rotMsgStale m.id s.id = false → (Rot.process s m f).pending = some (Rot.K f m.propose, f)) ∧
    (m.id = s.id → Rot.process s m f = s) ∧
    (m.id = s.id + 1 → (Rot.process s m f).pending = some (Rot.K f m.propose, f)) ∧
    (Generated.rotMsgStale bm.id s.id = true → PeerCrypto.derivePanics s bm = false) := by
  have hproc : ¬ m.id ≤ s.id → (Rot.process s m f).pending = some (Rot.K f m.propose, f) := by
    intro h
    unfold Rot.process
    rw [if_neg h]
    dsimp only
    split <;> rfl
  refine ⟨fun _ _ => rfl, ?_, ?_, ?_, ?_, ?_⟩
  · intro h
    simp only [Generated.rotMsgStale, decide_eq_true_eq] at h
    unfold Rot.process; rw [if_pos h]
  · intro h
    simp only [Generated.rotMsgStale, decide_eq_false_iff_not] at h
    exact hproc h
  · intro h
    unfold Rot.process; rw [if_pos (by omega)]
  · intro h
    exact hproc (by omega)
  · intro h
    simp only [Generated.rotMsgStale, decide_eq_true_eq] at h
    unfold PeerCrypto.derivePanics; rw [if_pos h]

/-! ## `src/crypto/init.rs` -/

/-- **retryAllowed** (`self.failed_retries < MAX_FAILED_RETRIES`): the guard regenerated from `InitState::every_second` is the
    comparison the model's `everySecond` makes.  A handshake in progress whose stored message has been repeated `MAX_FAILED_RETRIES - 1`
    times repeats it once more; after `MAX_FAILED_RETRIES` repetitions the tick fails with the fatal timeout and the attempt is closing.
    For all handshake states. -/
theorem retryAllowed_boundary (st : InitSt)
    (h1 : st.stage ≠ Generated.WAITING_TO_CLOSE) (h2 : st.stage ≠ Generated.CLOSING) :
    (∀ r, Generated.retryAllowed r = decide (r < Generated.MAX_FAILED_RETRIES)) ∧
    (Generated.retryAllowed st.retries = true →
      (Init.everySecond st) = ({ st with retries := st.retries + 1 }, .ok (st.last.getD []))) ∧
    (Generated.retryAllowed st.retries = false →
      (Init.everySecond st) = ({ st with stage := Generated.CLOSING }, .error .cryptoInitFatal)) ∧
    (st.retries + 1 = Generated.MAX_FAILED_RETRIES → (Init.everySecond st).2 = .ok (st.last.getD [])) ∧
    (st.retries = Generated.MAX_FAILED_RETRIES → (Init.everySecond st).2 = .error .cryptoInitFatal) := by
  have hpos : st.retries < Generated.MAX_FAILED_RETRIES →
      (Init.everySecond st) = ({ st with retries := st.retries + 1 }, .ok (st.last.getD [])) := by
    intro h
    unfold Init.everySecond
    rw [if_neg h1, if_neg h2, if_pos h]
  have hneg : ¬ st.retries < Generated.MAX_FAILED_RETRIES →
      (Init.everySecond st) = ({ st with stage := Generated.CLOSING }, .error .cryptoInitFatal) := by
    intro h
    unfold Init.everySecond
    rw [if_neg h1, if_neg h2, if_neg h]
  refine ⟨fun _ => rfl, ?_, ?_, ?_, ?_⟩
  · intro h
    simp only [Generated.retryAllowed, decide_eq_true_eq] at h
    exact hpos h
  · intro h
    simp only [Generated.retryAllowed, decide_eq_false_iff_not] at h
    exact hneg h
  · intro h
    rw [hpos (by omega)]
  · intro h
    rw [hneg (by omega)]

/-! ## `src/crypto/core.rs` -/

/-- **datagramTooShort** (`buffer.len() < EXTRA_LEN + TAG_LEN`): an authentic datagram of exactly 24 bytes (header, empty plaintext,
    tag) is accepted; every datagram of 23 bytes is rejected as too short and the state is untouched -/
theorem datagramTooShort_boundary (c : Core) (d : Dgram) :
    (∀ k p, d.len = 24 → d.keyId < 4 → c.slots[d.keyId]? = some k → d.body = .sealed k.key (c.reconstruct d.counter) p →
        k.min ≤ c.reconstruct d.counter → (c.decrypt d).2 = .ok p) ∧
    (d.len = 23 → c.decrypt d = (c, .error .tooShort)) := by
  constructor
  · intro k p hlen hid hk hb hmin
    exact ((C03.decrypt_authentic c d k p (by omega) hid hk hb).1 hmin).1
  · intro hlen
    simp [Core.decrypt, Generated.datagramTooShort, Generated.EXTRA_LEN, Generated.TAG_LEN, hlen]

/-- **keyIdInvalid** (`key_id >= 4`): an authentic datagram addressed to key slot 3 is accepted, one addressed to slot 4 is rejected
    as a bad key id; and whenever the guard lets a datagram pass, its key id is an index into the four key slots (in the Rust the
    slot is read with `self.keys[key_id as usize]`, which panics out of range) -/
theorem keyIdInvalid_boundary (c : Core) (d : Dgram) :
    (∀ k p, d.len ≥ 24 → d.keyId = 3 → c.slots[d.keyId]? = some k → d.body = .sealed k.key (c.reconstruct d.counter) p →
        k.min ≤ c.reconstruct d.counter → (c.decrypt d).2 = .ok p) ∧
    (d.len ≥ 24 → d.keyId = 4 → c.decrypt d = (c, .error .badKeyId)) ∧
    (c.slots.length = Core.SLOTS → Generated.keyIdInvalid d.keyId = false → d.keyId < c.slots.length) := by
  refine ⟨?_, ?_, ?_⟩
  · intro k p hlen hid hk hb hmin
    exact ((C03.decrypt_authentic c d k p hlen (by omega) hk hb).1 hmin).1
  · intro hlen hid
    have h1 : ¬ d.len < 24 := by omega
    simp [Core.decrypt, Generated.datagramTooShort, Generated.keyIdInvalid, Generated.EXTRA_LEN, Generated.TAG_LEN, h1, hid]
  · intro hl hg
    simp only [Generated.keyIdInvalid, decide_eq_false_iff_not] at hg
    rw [hl, Core.SLOTS]; omega

/-- **nonceTooOld** (`nonce < key.min_nonce`): an authentic datagram whose counter equals the replay threshold of its slot is accepted;
    one whose counter is one below the threshold is rejected as old and the state is untouched -/
theorem nonceTooOld_boundary (c : Core) (d : Dgram) (k : SlotKey) (p : Bytes)
    (hlen : d.len ≥ 24) (hid : d.keyId < 4) (hk : c.slots[d.keyId]? = some k)
    (hb : d.body = .sealed k.key (c.reconstruct d.counter) p) :
    (c.reconstruct d.counter = k.min → (c.decrypt d).2 = .ok p) ∧
    (c.reconstruct d.counter + 1 = k.min → (c.decrypt d).2 = .error .oldNonce ∧ (c.decrypt d).1 = c) := by
  obtain ⟨h1, h2⟩ := C03.decrypt_authentic c d k p hlen hid hk hb
  exact ⟨fun h => (h1 (by omega)).1, fun h => h2 (by omega)⟩

/-- **seenAdvances** (`key.seen_nonce < nonce`): after an accepted datagram the highest accepted counter of the slot is the larger one
    of the old value and the counter of the datagram: it moves for `seen + 1`, stays for `seen` and for `seen - 1` -/
theorem seenAdvances_boundary (c : Core) (d : Dgram) (k : SlotKey) (p : Bytes)
    (hlen : d.len ≥ 24) (hid : d.keyId < 4) (hk : c.slots[d.keyId]? = some k)
    (hb : d.body = .sealed k.key (c.reconstruct d.counter) p) (hmin : k.min ≤ c.reconstruct d.counter) :
    ((c.decrypt d).1.slots[d.keyId]?).map (·.seen) = some (max k.seen (c.reconstruct d.counter)) ∧
    (c.reconstruct d.counter = k.seen + 1 → ((c.decrypt d).1.slots[d.keyId]?).map (·.seen) = some (k.seen + 1)) ∧
    (c.reconstruct d.counter = k.seen → ((c.decrypt d).1.slots[d.keyId]?).map (·.seen) = some k.seen) ∧
    (c.reconstruct d.counter + 1 = k.seen → ((c.decrypt d).1.slots[d.keyId]?).map (·.seen) = some k.seen) := by
  have hlt : d.keyId < c.slots.length := by
    rcases List.getElem?_eq_some_iff.1 hk with ⟨h, _⟩; exact h
  have hmain : ((c.decrypt d).1.slots[d.keyId]?).map (·.seen) = some (max k.seen (c.reconstruct d.counter)) := by
    rw [((C03.decrypt_authentic c d k p hlen hid hk hb).1 hmin).2]
    simp only [List.getElem?_set_self hlt, Option.map_some, Spec.C03.slotStep]
    split
    · simp only [Option.some.injEq]; omega
    · simp only [Option.some.injEq]; omega
  refine ⟨hmain, ?_, ?_, ?_⟩ <;> intro h <;> rw [hmain] <;> simp only [Option.some.injEq] <;> omega

/-- non-vacuity for the four guards of `decrypt`: slot 0 has threshold 3 and highest counter 5; the 24-byte datagram with counter 3 is
    accepted, counter 2 is old; counter 6 moves the highest counter, counter 5 and 4 leave it; 23 bytes are too short; slot 3 is read,
    slot 4 is not -/
example :
    let c : Core := { slots := [{ key := 7, send := 0, min := 3, seen := 5 }, { key := 8, send := 0 }, { key := 8, send := 0 },
                                { key := 9, send := 0 }], cur := 0, half := true }
    let dg (kid ctr : Nat) (key : KeyRef) : Dgram := { hdr := [kid, 0, 0, 0, 0, 0, 0, ctr], body := .sealed key ctr [] }
    (dg 0 3 7).len = 24 ∧ (c.decrypt (dg 0 3 7)).2 = .ok [] ∧ (c.decrypt (dg 0 2 7)).2 = .error .oldNonce ∧
    ((c.decrypt (dg 0 6 7)).1.slots[0]?).map (·.seen) = some 6 ∧ ((c.decrypt (dg 0 5 7)).1.slots[0]?).map (·.seen) = some 5 ∧
    ((c.decrypt (dg 0 4 7)).1.slots[0]?).map (·.seen) = some 5 ∧
    (c.decrypt { hdr := [0, 0, 0, 0, 0, 0, 0, 3], body := .garbage 15 }).2 = .error .tooShort ∧
    (c.decrypt (dg 3 0 9)).2 = .ok [] ∧ (c.decrypt (dg 4 0 9)).2 = .error .badKeyId := by
  decide

/-! ## `src/table.rs` -/

/-- **claimLive** (`e.timeout >= now`): a claim that expires exactly now survives this sweep; one that expired a second ago is gone -/
theorem claimLive_boundary (t : Table) (now : Int) (e : ClaimEntry) (he : e ∈ t.claims) :
    (e.timeout = now → e ∈ (t.housekeep now).claims) ∧
    (e.timeout + 1 = now → e ∉ (t.housekeep now).claims) := by
  constructor
  · intro h
    simp only [Table.housekeep, Generated.claimLive, List.mem_filter, decide_eq_true_eq]
    exact ⟨he, by omega⟩
  · intro h hm
    have := C12.claims_expire t now e hm
    omega

/-- **cacheLive** (`v.timeout >= now`): a learned / cached address that expires exactly now survives this sweep; one that expired a
    second ago is gone -/
theorem cacheLive_boundary (t : Table) (now : Int) (v : CacheEntry) (hv : v ∈ t.cache) :
    (v.timeout = now → v ∈ (t.housekeep now).cache) ∧
    (v.timeout + 1 = now → v ∉ (t.housekeep now).cache) := by
  constructor
  · intro h
    simp only [Table.housekeep, Generated.cacheLive, List.mem_filter, decide_eq_true_eq]
    exact ⟨hv, by omega⟩
  · intro h hm
    simp only [Table.housekeep, Generated.cacheLive, List.mem_filter, decide_eq_true_eq] at hm
    omega

/-- the same through the learning step (`C13.learn_expiry` has the strict side): an address learned at `now` with switch timeout
    `cacheTimeout` is still resolved by the cache after the sweep at `now + cacheTimeout` -/
theorem learned_survives_until_timeout (t : Table) (now : Int) (a : Addr) (p : PeerId) :
    ((t.learn now a p).housekeep (now + t.cacheTimeout)).cache.find? (fun v => v.addr = a) = some ⟨a, p, now + t.cacheTimeout⟩ := by
  have hc : (t.learn now a p).cache = ⟨a, p, now + t.cacheTimeout⟩ :: t.cache.filter (fun x => x.addr ≠ a) := rfl
  simp only [Table.housekeep, Generated.cacheLive, hc, List.filter_cons, ge_iff_le, Int.le_refl, decide_true, if_true,
    List.find?_cons_of_pos]

/-- non-vacuity: claims expiring at 100 and 99, cached addresses expiring at 100 and 99, swept at 100 -/
example :
    let t : Table := { cacheTimeout := 300, claimTimeout := 300,
                       claims := [⟨1, ⟨[10, 0, 0, 0], 8⟩, 100⟩, ⟨2, ⟨[10, 1, 0, 0], 16⟩, 99⟩],
                       cache := [⟨[10, 0, 0, 1], 1, 100⟩, ⟨[10, 1, 0, 1], 2, 99⟩] }
    (t.housekeep 100).claims = [⟨1, ⟨[10, 0, 0, 0], 8⟩, 100⟩] ∧ (t.housekeep 100).cache = [⟨[10, 0, 0, 1], 1, 100⟩] := by
  decide

/-! ## `src/cloud.rs`: `housekeep` -/

/-- **peerExpired** (`data.timeout < now`): an established peer (distinct peer addresses, healthy session) whose expiry is exactly
    `now` survives the tick with its expiry; one whose expiry was a second ago is gone after the tick -/
theorem peerExpired_boundary (env : CryptoEnv) (o : Oracle) (n : Node) (now : Int) (a : NAddr) (p : Peer)
    (hp : lookupA n.peers a = some p) (hnd : (n.peers.map (·.1)).Nodup) :
    (p.timeout = now → p.crypto.init = none → (p.crypto.unencrypted = true ∨ p.crypto.core.isSome = true) →
        (lookupA (housekeep env o n now).node.peers a).map (·.timeout) = some now) ∧
    (p.timeout + 1 = now → lookupA (housekeep env o n now).node.peers a = none) := by
  constructor
  · intro hto hi hs
    have h := C09MoreLemmas.housekeep_keeps env o n now a p hp (by omega) hnd (C09MoreLemmas.everySecond_healthy p.crypto hi hs)
    rw [h, hto]
  · intro hto
    apply C15Node.expired_peer_removed
    intro p0 h0
    have := lookupA_of_mem_nodup hnd h0
    rw [hp] at this
    cases this
    omega

/-- **announceDue** (`self.next_peers <= now`): with an own announcement interval of at least one second, an announcement due exactly
    now is made in this tick (the next one is scheduled strictly later); one due in a second is not, the schedule stays -/
theorem announceDue_boundary (env : CryptoEnv) (o : Oracle) (n : Node) (now : Int) :
    (n.nextPeers = now → 1 ≤ n.cfg.updateFreq → (housekeep env o n now).node.nextPeers > now) ∧
    (n.nextPeers = now + 1 → (housekeep env o n now).node.nextPeers = now + 1) := by
  constructor
  · intro hdue hu
    have hs := preAnnounce_sched env o n now
    obtain ⟨m, d, hd, hnp⟩ := hkAnnounce_due_delay o (preAnnounce env o n now) now (by rw [sched_nextPeers hs]; omega)
    rw [sched_cfg hs] at hd
    have := interval_pos _ _ _ hd hu
    rw [housekeep_eq', hkOwn_nextPeers, reconnectToPeers_nextPeers, hnp]
    omega
  · intro hnot
    rw [C15More.housekeep_keeps_schedule env o n now (by omega), hnot]

/-- **ownResetDue** (`self.next_own_address_reset <= now`): a reset of the own addresses due exactly now happens in this tick (the
    next one is 300 s later); one due in a second does not, the schedule stays -/
theorem ownResetDue_boundary (env : CryptoEnv) (o : Oracle) (n : Node) (now : Int) :
    (n.nextOwnReset = now → (housekeep env o n now).node.nextOwnReset = now + 300) ∧
    (n.nextOwnReset = now + 1 → (housekeep env o n now).node.nextOwnReset = now + 1) := by
  obtain ⟨c5, heq, h5⟩ := housekeep_own_step env o n now
  rw [heq]
  unfold hkOwn
  constructor
  · intro h
    rw [if_pos (by simp only [Generated.ownResetDue, decide_eq_true_eq]; omega)]
  · intro h
    rw [if_neg (by simp only [Generated.ownResetDue, decide_eq_true_eq]; omega)]
    omega

/-! ## `src/cloud.rs`: `reconnect_to_peers` -/

/-- position by position, `reconnect_to_peers` applies the bookkeeping of the second loop -/
theorem reconnect_at (env : CryptoEnv) (o : Oracle) (c : Ctx) (now : Int) (i : Nat) :
    (reconnectToPeers env o c now).node.reconnect[i]? = (c.node.reconnect[i]?).map (rcUpdate c.node.peers now) := by
  rw [reconnectToPeers_reconnect, List.getElem?_map]

/-- the first loop dials nothing if no entry passes the guard -/
theorem reconnect_silent (env : CryptoEnv) (o : Oracle) (c : Ctx) (now : Int)
    (h : ∀ e ∈ c.node.reconnect, Generated.reconnectNotDue e.next now = true) :
    (reconnectToPeers env o c now).outs = c.outs := by
  show (rcDial env o c now).outs = c.outs
  unfold rcDial
  generalize c.node.reconnect = l at h
  induction l generalizing c with
  | nil => rfl
  | cons e l ih =>
    simp only [List.foldl_cons]
    rw [if_pos (h e (List.mem_cons_self ..))]
    exact ih c (fun e' he' => h e' (List.mem_cons_of_mem _ he'))

/-- **reconnectNotDue** (`entry.next > now`, both loops): an entry whose next attempt is due exactly now is dialled (a handshake
    datagram goes to each of its fresh addresses) and, if it has a positive back-off, is rescheduled strictly into the future;
    an entry due in a second is left as it is, and if all entries are due in a second nothing is sent -/
theorem reconnectNotDue_boundary (env : CryptoEnv) (o : Oracle) (c : Ctx) (now : Int) :
    (∀ pre post e, c.node.reconnect = pre ++ e :: post → e.next = now →
      (∀ a ∈ e.resolved, c.node.own.contains (mappedAddr a) = false ∧ lookupA c.node.peers (mappedAddr a) = none ∧
        lookupA c.node.pending (mappedAddr a) = none) →
      (∀ e' ∈ pre, e'.next ≤ now → ∀ a ∈ e.resolved, ∀ a' ∈ e'.resolved, mappedAddr a ≠ mappedAddr a') →
      ∃ ex, (reconnectToPeers env o c now).outs = c.outs ++ ex ∧ ∀ a ∈ e.resolved, HsTo (mappedAddr a) ex) ∧
    (∀ (i : Nat) (e : Reconnect), c.node.reconnect[i]? = some e → e.next = now → e.resolved.any (fun a => (lookupA c.node.peers a).isSome) = false →
      1 ≤ e.timeout → e.timeout ≤ Generated.MAX_RECONNECT_INTERVAL →
      ∃ e', (reconnectToPeers env o c now).node.reconnect[i]? = some e' ∧ e'.next > now) ∧
    (∀ (i : Nat) (e : Reconnect), c.node.reconnect[i]? = some e → e.next = now + 1 → e.resolved.any (fun a => (lookupA c.node.peers a).isSome) = false →
      (reconnectToPeers env o c now).node.reconnect[i]? = some e) ∧
    ((∀ e ∈ c.node.reconnect, e.next = now + 1) → (reconnectToPeers env o c now).outs = c.outs) := by
  refine ⟨?_, ?_, ?_, ?_⟩
  · intro pre post e hsplit hdue hfresh hpre
    exact C15More.reconnect_dials env o c now pre post e hsplit (by omega) hfresh hpre
  · intro i e hi hdue hnp h1 hM
    refine ⟨_, by rw [reconnect_at, hi]; rfl, ?_⟩
    unfold rcUpdate
    simp only [hnp, Bool.false_eq_true, if_false, Generated.reconnectNotDue, Generated.backoffDoubles, Generated.backoffCapped,
      Generated.MAX_RECONNECT_INTERVAL, decide_eq_true_eq, hdue, gt_iff_lt, Int.lt_irrefl] at hM ⊢
    split <;> split <;> rename_i h2 h3 <;> (try simp only [] at h3) <;> (try simp only []) <;> omega
  · intro i e hi hnd hnp
    rw [reconnect_at, hi]
    unfold rcUpdate
    simp only [hnp, Bool.false_eq_true, if_false, Generated.reconnectNotDue, decide_eq_true_eq, Option.map_some]
    rw [if_pos (by omega)]
  · intro h
    apply reconnect_silent
    intro e he
    simp only [Generated.reconnectNotDue, decide_eq_true_eq]
    have := h e he
    omega

/-- **backoffDoubles** (`entry.tries > 10`): a due entry (none of its addresses a peer, back-off at most one hour) that has been
    tried 9 times is tried for the 10th time with the same back-off; one that has been tried 10 times starts over with the
    doubled back-off (capped at one hour) -/
theorem backoffDoubles_boundary (env : CryptoEnv) (o : Oracle) (c : Ctx) (now : Int) (i : Nat) (e : Reconnect)
    (hi : c.node.reconnect[i]? = some e) (hdue : e.next ≤ now)
    (hnp : e.resolved.any (fun a => (lookupA c.node.peers a).isSome) = false) (hM : e.timeout ≤ Generated.MAX_RECONNECT_INTERVAL) :
    (e.tries + 1 = 10 →
      (reconnectToPeers env o c now).node.reconnect[i]? = some { e with tries := 10, next := now + e.timeout }) ∧
    (e.tries = 10 →
      (reconnectToPeers env o c now).node.reconnect[i]? =
        some { e with tries := 0, timeout := min (e.timeout * 2) Generated.MAX_RECONNECT_INTERVAL,
                      next := now + (min (e.timeout * 2) Generated.MAX_RECONNECT_INTERVAL : Nat) }) := by
  have hnd : ¬ e.next > now := by omega
  constructor
  · intro ht
    rw [reconnect_at, hi]
    unfold rcUpdate
    simp only [hnp, Bool.false_eq_true, if_false, Generated.reconnectNotDue, Generated.backoffDoubles, Generated.backoffCapped,
      decide_eq_true_eq, hnd, ht, Option.map_some, gt_iff_lt, Nat.lt_irrefl]
    rw [if_neg (by omega)]
  · intro ht
    rw [reconnect_at, hi]
    unfold rcUpdate
    simp only [hnp, Bool.false_eq_true, if_false, Generated.reconnectNotDue, Generated.backoffDoubles, Generated.backoffCapped,
      decide_eq_true_eq, hnd, ht, Option.map_some, gt_iff_lt, show (10 : Nat) < 10 + 1 by omega, if_true]
    split
    · rw [Nat.min_eq_right (by omega)]
    · rw [Nat.min_eq_left (by omega)]

/-- **backoffCapped** (`entry.timeout > MAX_RECONNECT_INTERVAL`): for a due entry (none of its addresses a peer, fewer than ten tries)
    a back-off of exactly one hour stays, one second less stays, one second more is cut to one hour -/
theorem backoffCapped_boundary (env : CryptoEnv) (o : Oracle) (c : Ctx) (now : Int) (i : Nat) (e : Reconnect)
    (hi : c.node.reconnect[i]? = some e) (hdue : e.next ≤ now)
    (hnp : e.resolved.any (fun a => (lookupA c.node.peers a).isSome) = false) (ht : e.tries + 1 ≤ 10) :
    (e.timeout = Generated.MAX_RECONNECT_INTERVAL →
      (reconnectToPeers env o c now).node.reconnect[i]? =
        some { e with tries := e.tries + 1, next := now + Generated.MAX_RECONNECT_INTERVAL }) ∧
    (e.timeout + 1 = Generated.MAX_RECONNECT_INTERVAL →
      (reconnectToPeers env o c now).node.reconnect[i]? = some { e with tries := e.tries + 1, next := now + e.timeout }) ∧
    (e.timeout = Generated.MAX_RECONNECT_INTERVAL + 1 →
      (reconnectToPeers env o c now).node.reconnect[i]? =
        some { e with tries := e.tries + 1, timeout := Generated.MAX_RECONNECT_INTERVAL,
                      next := now + Generated.MAX_RECONNECT_INTERVAL }) := by
  have hnd : ¬ e.next > now := by omega
  have hnt : ¬ e.tries + 1 > 10 := by omega
  have hred : (reconnectToPeers env o c now).node.reconnect[i]? =
      some { e with tries := e.tries + 1,
                    timeout := if Generated.backoffCapped e.timeout = true then Generated.MAX_RECONNECT_INTERVAL else e.timeout,
                    next := now + ((if Generated.backoffCapped e.timeout = true then Generated.MAX_RECONNECT_INTERVAL else e.timeout : Nat) : Int) } := by
    rw [reconnect_at, hi]
    unfold rcUpdate
    simp only [hnp, Bool.false_eq_true, if_false, Generated.reconnectNotDue, Generated.backoffDoubles,
      decide_eq_true_eq, hnd, hnt, Option.map_some]
  rw [hred]
  refine ⟨?_, ?_, ?_⟩ <;> intro h
  · rw [if_neg (by simp only [Generated.backoffCapped, decide_eq_true_eq]; omega), h]
  · rw [if_neg (by simp only [Generated.backoffCapped, decide_eq_true_eq]; omega)]
  · rw [if_pos (by simp only [Generated.backoffCapped, decide_eq_true_eq]; omega)]

/-! ## non-vacuity for the node-level theorems -/
section Examples
open VpnCloud.Proofs.InitLemmas

private def s1 : NAddr := .v6 (List.replicate 16 0) 1
private def s2 : NAddr := .v6 (List.replicate 16 0) 2
private def cfg0 : NodeCfg :=
  { tap := false, learning := false, broadcast := false, peerTimeout := 300, peerTimeoutPublish := 300, updateFreq := 10,
    claims := [], key := [7, 7, 7, 7], trusted := [[9, 9, 9, 9]], algos := Toy.algos }
private def o0 : Oracle := { emitted := fun _ _ => [], rotProp := fun _ => 0, rotPend := fun _ => 0, starts := fun _ => [] }
private def p1 : Peer :=
  { addrs := [], timeout := 100, peerTimeout := 300, nodeId := List.replicate 16 1, crypto := { init := none, unencrypted := true } }
/-- a node at the boundary of every guard of `housekeep` at second 100: one established peer `s1` expiring at 100, announcement and
    reset of the own addresses due at 100, a configured peer `s2` tried 9 times with a back-off of one hour, due at 100 -/
private def nB : Node :=
  { nodeId := List.replicate 16 9, addr := .v6 (List.replicate 16 0) 3, cfg := cfg0, table := { cacheTimeout := 300, claimTimeout := 300 },
    peers := [(s1, p1)], nextPeers := 100, nextOwnReset := 100,
    reconnect := [{ resolved := [s2], tries := 9, timeout := 3600, next := 100 }] }

/-- at second 100 everything that is due happens and the peer stays; the hypotheses of the theorems above hold of `nB` -/
example :
    lookupA nB.peers s1 = some p1 ∧ (nB.peers.map (·.1)).Nodup ∧ p1.crypto.init = none ∧ p1.crypto.unencrypted = true ∧
    (lookupA (housekeep Toy.env o0 nB 100).node.peers s1).map (·.timeout) = some 100 ∧
    (housekeep Toy.env o0 nB 100).node.nextPeers = 110 ∧
    (housekeep Toy.env o0 nB 100).node.nextOwnReset = 400 ∧
    (housekeep Toy.env o0 nB 100).node.reconnect.map (fun e => (e.tries, e.timeout, e.next)) = [(10, 3600, 3700)] ∧
    (∃ b, Out.dgram s2 (Generated.INIT_MESSAGE_FIRST_BYTE :: b) ∈ (housekeep Toy.env o0 nB 100).outs) := by
  refine ⟨rfl, by decide, rfl, rfl, by decide, by decide, by decide, by decide, ?_⟩
  have h : ((housekeep Toy.env o0 nB 100).outs.any fun x => match x with
      | .dgram a (f :: _) => decide (a = s2) && decide (f = Generated.INIT_MESSAGE_FIRST_BYTE)
      | _ => false) = true := by decide
  obtain ⟨x, hx, hp⟩ := List.any_eq_true.1 h
  match x, hx, hp with
  | .dgram a (f :: b), hx, hp =>
    simp only [Bool.and_eq_true, decide_eq_true_eq] at hp
    exact ⟨b, by rw [← hp.1, ← hp.2]; exact hx⟩

/-- one second earlier nothing is due: no datagram, schedules and reconnect entry as before -/
example :
    (housekeep Toy.env o0 nB 99).node.nextPeers = 100 ∧ (housekeep Toy.env o0 nB 99).node.nextOwnReset = 100 ∧
    (housekeep Toy.env o0 nB 99).node.reconnect.map (fun e => (e.tries, e.timeout, e.next)) = [(9, 3600, 100)] ∧
    (housekeep Toy.env o0 nB 99).outs.length = 0 := by
  decide

/-- one second later the peer is gone; tried 10 times before, the entry starts over (back-off doubled, cut to one hour) -/
example :
    lookupA (housekeep Toy.env o0 nB 101).node.peers s1 = none ∧
    (housekeep Toy.env o0 { nB with reconnect := [{ resolved := [s2], tries := 10, timeout := 1800, next := 100 }] } 100).node.reconnect.map
      (fun e => (e.tries, e.timeout, e.next)) = [(0, 3600, 3700)] ∧
    (housekeep Toy.env o0 { nB with reconnect := [{ resolved := [s2], tries := 10, timeout := 1801, next := 100 }] } 100).node.reconnect.map
      (fun e => (e.tries, e.timeout, e.next)) = [(0, 3600, 3700)] := by
  decide

end Examples

end VpnCloud.Proofs.GuardsUsed
