import VpnCloud.Proofs.C15More
/-
  C15 (join) — the freshly joined peer survives the next housekeeping ticks.

  `housekeep` removes a peer in two places only: the expiry sweep (`Generated.peerExpired timeout now`, i.e.
  STRICTLY `timeout < now`) and the per-second tick of the sessions (`crypto_housekeep`: a session whose
  `every_second` reports an error is dropped).  So a peer whose expiry has not passed (`t ≤ timeout`) and
  whose session tick does not fail is still a peer after the tick, with the same expiry.
-/
namespace VpnCloud.Proofs.C15Join

open VpnCloud VpnCloud.Node
open VpnCloud.Proofs.NodeLemmas VpnCloud.Proofs.NodeLemmas2 VpnCloud.Proofs.NodeInvLemmas
open VpnCloud.Proofs.C15MoreLemmas

/-- The session layer's own per-second housekeeping does not report a failure for the session `pc` of the
peer `a`: `PeerCrypto.everySecond` — the function `crypto_housekeep` consults — does not return `.err`,
with the randomness the node draws for `a` (`rndFor`) in whatever context the tick reaches the peer. -/
def SessionTickOk (o : Oracle) (a : NAddr) (pc : PeerCrypto) : Prop :=
  ∀ (c : Ctx) (pc' : PeerCrypto) (e : InitErr), PeerCrypto.everySecond pc (rndFor o c a).2.1 ≠ .err pc' e

/-- `a` is a peer with expiry `T` -/
def HasPeer (a : NAddr) (T : Int) (c : Ctx) : Prop := ∃ p', lookupA c.node.peers a = some p' ∧ p'.timeout = T

/-! ### the loops of `housekeep`, one address at a time -/

theorem foldl_lookup_ne (a : NAddr) {β} (g : β → NAddr) (f : Ctx → β → Ctx)
    (hf : ∀ c x, g x ≠ a → lookupA (f c x).node.peers a = lookupA c.node.peers a) :
    ∀ (l : List β) (c : Ctx), (∀ x ∈ l, g x ≠ a) → lookupA (l.foldl f c).node.peers a = lookupA c.node.peers a
  | [], _, _ => rfl
  | x :: l, c, h => by
    rw [List.foldl_cons, foldl_lookup_ne a g f hf l (f c x) (fun y hy => h y (List.mem_cons_of_mem _ hy))]
    exact hf c x (h x List.mem_cons_self)

/-- a loop over pairwise distinct addresses that touches the record of `a` only in the step for `a` -/
theorem foldl_hit (a : NAddr) (p : Peer) (f : Ctx → NAddr → Ctx)
    (h1 : ∀ c x, x ≠ a → lookupA (f c x).node.peers a = lookupA c.node.peers a)
    (h2 : ∀ c, lookupA c.node.peers a = some p → HasPeer a p.timeout (f c a)) :
    ∀ (l : List NAddr) (c : Ctx), l.Nodup → a ∈ l → lookupA c.node.peers a = some p → HasPeer a p.timeout (l.foldl f c)
  | [], _, _, ha, _ => by cases ha
  | x :: l, c, hnd, ha, hp => by
    obtain ⟨hxl, hnd'⟩ := List.nodup_cons.1 hnd
    rw [List.foldl_cons]
    by_cases hx : x = a
    · subst hx
      obtain ⟨p', hp', ht⟩ := h2 c hp
      refine ⟨p', ?_, ht⟩
      rw [foldl_lookup_ne x id f h1 l (f c x) (fun y hy e => hxl (by rw [← show y = x from e]; exact hy))]
      exact hp'
    · have ha' : a ∈ l := by
        rcases List.mem_cons.1 ha with e | h
        · exact absurd e.symm hx
        · exact h
      exact foldl_hit a p f h1 h2 l (f c x) hnd' ha' (by rw [h1 c x hx]; exact hp)

/-- the expiry sweep keeps every peer whose expiry has not passed (`¬ timeout < now`) -/
theorem hkDead_keeps (env : CryptoEnv) (o : Oracle) (n : Node) (now : Int) (a : NAddr) (p : Peer)
    (hnd : (n.peers.map (·.1)).Nodup) (hp : lookupA n.peers a = some p) (ht : now ≤ p.timeout) :
    lookupA (hkDead env o n now).node.peers a = some p := by
  rw [hkDead_eq, foldl_lookup_ne a id (deadStep env o now)]
  · exact hp
  · intro c x hx
    unfold deadStep
    rw [connectSock_peers]
    exact lookupA_eraseA_ne _ (fun e => hx e.symm)
  · intro x hx e
    have e' : x = a := e
    subst e'
    obtain ⟨y, hy, rfl⟩ := List.mem_map.1 hx
    obtain ⟨hy1, hy2⟩ := List.mem_filter.1 hy
    have := lookupA_of_mem_nodup hnd (show (y.1, y.2) ∈ n.peers from hy1)
    rw [hp] at this
    cases this
    simp only [Generated.peerExpired, decide_eq_true_eq] at hy2
    omega

/-- the first loop of `crypto_housekeep` (pending handshakes) -/
def pendTick (o : Oracle) (c : Ctx) : Ctx :=
  (c.node.pending.map (·.1)).foldl (fun c a =>
    match lookupA c.node.pending a with
    | none => c
    | some pc =>
      let (_, rr, _) := rndFor o c a
      match PeerCrypto.everySecond pc rr with
      | .err _ _ => { c with node := { c.node with pending := eraseA c.node.pending a } }
      | .panic => { c with panicked := true }
      | .ok pc' out res log =>
        let c' := addLog log { c with node := { c.node with pending := insertA c.node.pending a pc' } }
        if res = .reply then c'.send a out else c') c

/-- one step of the second loop of `crypto_housekeep` (established sessions) -/
def tickStep (env : CryptoEnv) (o : Oracle) (now : Int) (c : Ctx) (a : NAddr) : Ctx :=
  match lookupA c.node.peers a with
  | none => c
  | some p =>
    let (_, rr, _) := rndFor o c a
    match PeerCrypto.everySecond p.crypto rr with
    | .err _ _ =>
      let c' := { c with node := { c.node with peers := eraseA c.node.peers a, table := c.node.table.removeClaims now (addrId a) } }
      connectSock env o c' a
    | .panic => { c with panicked := true }
    | .ok pc' out res log =>
      let c' := addLog log { c with node := { c.node with peers := insertA c.node.peers a { p with crypto := pc' } } }
      if res = .reply then c'.send a out else c'

theorem cryptoHousekeep_eq (env : CryptoEnv) (o : Oracle) (c : Ctx) (now : Int) :
    cryptoHousekeep env o c now = ((pendTick o c).node.peers.map (·.1)).foldl (tickStep env o now) (pendTick o c) := rfl

theorem pendTick_peers (o : Oracle) (c : Ctx) : (pendTick o c).node.peers = c.node.peers := by
  unfold pendTick
  apply foldl_peers
  intro c a
  split
  · rfl
  · split
    split
    · rfl
    · rfl
    · split <;> rfl

theorem tickStep_ne (env : CryptoEnv) (o : Oracle) (now : Int) (a : NAddr) (c : Ctx) (x : NAddr) (hx : x ≠ a) :
    lookupA (tickStep env o now c x).node.peers a = lookupA c.node.peers a := by
  have hax : a ≠ x := fun e => hx e.symm
  unfold tickStep
  split
  · rfl
  · split
    split
    · rw [connectSock_peers]; exact lookupA_eraseA_ne _ hax
    · rfl
    · split
      · exact C15MoreLemmas.lookupA_insertA_ne _ _ hax
      · exact C15MoreLemmas.lookupA_insertA_ne _ _ hax

theorem tickStep_self (env : CryptoEnv) (o : Oracle) (now : Int) (a : NAddr) (p : Peer) (hs : SessionTickOk o a p.crypto)
    (c : Ctx) (hp : lookupA c.node.peers a = some p) : HasPeer a p.timeout (tickStep env o now c a) := by
  unfold tickStep
  split
  · rename_i hn; rw [hp] at hn; cases hn
  · rename_i q hq
    rw [hp] at hq; cases hq
    split
    rename_i x rr y heq
    have hrr : rr = (rndFor o c a).2.1 := by rw [heq]
    split
    · rename_i pc' e herr
      rw [hrr] at herr
      exact absurd herr (hs c pc' e)
    · exact ⟨p, hp, rfl⟩
    · split
      · exact ⟨_, lookupA_insertA_self _ _ _, rfl⟩
      · exact ⟨_, lookupA_insertA_self _ _ _, rfl⟩

/-- the session ticks keep `a` (same expiry) if its own tick does not fail -/
theorem cryptoHousekeep_keeps (env : CryptoEnv) (o : Oracle) (c : Ctx) (now : Int) (a : NAddr) (p : Peer)
    (hnd : KeysNodup c) (hp : lookupA c.node.peers a = some p) (hs : SessionTickOk o a p.crypto) :
    HasPeer a p.timeout (cryptoHousekeep env o c now) := by
  rw [cryptoHousekeep_eq]
  have hpp := pendTick_peers o c
  apply foldl_hit a p (tickStep env o now) (tickStep_ne env o now a) (tickStep_self env o now a p hs)
  · rw [hpp]; exact hnd
  · rw [hpp]; exact mem_key (lookupA_some_mem hp)
  · rw [hpp]; exact hp

theorem sendMsg_hasPeer (o : Oracle) (a : NAddr) (T : Int) (c : Ctx) (x : NAddr) (ty : Nat) (body : Bytes)
    (h : HasPeer a T c) : HasPeer a T ((sendMsg o c x ty body).getD c) := by
  unfold sendMsg
  split
  · exact h
  · rename_i q hq
    simp only []
    split
    · simp only [Option.getD_some]
      by_cases hx : x = a
      · subst hx
        obtain ⟨p', hp', ht⟩ := h
        rw [hq] at hp'; cases hp'
        exact ⟨_, lookupA_insertA_self _ _ _, ht⟩
      · obtain ⟨p', hp', ht⟩ := h
        exact ⟨p', (C15MoreLemmas.lookupA_insertA_ne _ _ (fun e => hx e.symm)).trans hp', ht⟩
    · exact h

theorem hkAnnounce_keeps (o : Oracle) (c : Ctx) (now : Int) (a : NAddr) (T : Int) (h : HasPeer a T c) :
    HasPeer a T (hkAnnounce o c now) := by
  unfold hkAnnounce
  split
  · have hb : HasPeer a T (broadcastMsg o c Generated.MESSAGE_TYPE_NODE_INFO (Codec.encodeNodeInfo (createNodeInfo c.node))) := by
      unfold broadcastMsg
      exact foldl_inv (HasPeer a T) _ (fun c x hc => sendMsg_hasPeer o a T c x _ _ hc) _ _ h
    simp only []
    split
    · exact hb
    · exact hb
  · exact h

/-! ### the property -/

/-- **joined_peer_survives_tick**: a peer whose expiry has not passed at the tick (`t ≤ timeout`; the model's
guard `Generated.peerExpired` is the strict `timeout < t`, so the tick AT the expiry second still keeps it) is
still a peer after `housekeep` at `t`, with the same expiry — for pairwise distinct peer addresses (as the node
keeps them) and provided the per-second housekeeping of its own session does not fail (`SessionTickOk`).
With `handshake_sets_expiry` (`timeout = now + cfg.peerTimeout`) this covers every tick at `now ≤ t ≤ now + peer_timeout`. -/
theorem joined_peer_survives_tick (env : CryptoEnv) (o : Oracle) (n : Node) (t : Int) (a : NAddr) (p : Peer)
    (hnd : (n.peers.map (·.1)).Nodup) (hp : lookupA n.peers a = some p) (ht : t ≤ p.timeout)
    (hs : SessionTickOk o a p.crypto) :
    ∃ p', lookupA (housekeep env o n t).node.peers a = some p' ∧ p'.timeout = p.timeout := by
  rw [housekeep_eq'', hkOwn_peers, reconnectToPeers_peers]
  unfold preReconnect preAnnounce
  apply hkAnnounce_keeps
  apply cryptoHousekeep_keeps env o _ t a p
  · exact hkDead_keysNodup env o n t hnd
  · exact hkDead_keeps env o n t a p hnd hp ht
  · exact hs

/-- the bound is sharp: one second after the expiry the peer is gone (no hypothesis on the session) -/
theorem joined_peer_gone_after_expiry (env : CryptoEnv) (o : Oracle) (n : Node) (t : Int) (a : NAddr) (p : Peer)
    (hnd : (n.peers.map (·.1)).Nodup) (hp : lookupA n.peers a = some p) (ht : p.timeout < t) :
    lookupA (housekeep env o n t).node.peers a = none :=
  (C15More.silent_removed_node env o n t a p hnd hp).1 (by simpa [C15More.rRemoves] using ht)

/-- a sufficient condition for `SessionTickOk` that a session fresh out of a completed handshake meets: no
rotation state that is due (here: none, the unencrypted mode) and a handshake object that is only waiting to be
closed (or none at all). -/
theorem sessionTickOk_of_waiting (o : Oracle) (a : NAddr) (pc : PeerCrypto) (hrot : pc.rot = none)
    (hinit : ∀ ist, pc.init = some ist → ist.stage = Generated.WAITING_TO_CLOSE) : SessionTickOk o a pc := by
  intro c pc' e
  generalize (rndFor o c a).2.1 = rr
  unfold PeerCrypto.everySecond
  cases hi : pc.init with
  | none =>
    simp only [hrot]
    split <;> (intro h; cases h)
  | some ist =>
    have hst := hinit ist hi
    simp only [hrot]
    unfold Init.everySecond
    simp only [hst, if_true]
    by_cases hct : ist.closeTime = 0
    · simp only [hct, if_true]
      split <;> (intro h; cases h)
    · simp only [hct, if_false]
      split <;> (intro h; cases h)

/-- **joined_peer_gets_first_announcement**: if handling a datagram at `now` adds the peer `a`, then every next
tick at `t` with `now ≤ t ≤` the expiry written by the handshake (`now + peer_timeout`, `handshake_sets_expiry`) —
in particular the ticks of the seconds `now` and `now + 1` — keeps `a` as a peer with that expiry AND, if its
session can seal, sends it the node information; the next announcement is scheduled `d` seconds ahead with
`d ≤ 1` or `d` below the timeout `a` advertised. -/
theorem joined_peer_gets_first_announcement (env : CryptoEnv) (bodyOf : Init.BodyOf) (o : Oracle) (n : Node) (now : Int)
    (src : NAddr) (data tail : Bytes) (a : NAddr) (p : Peer) (hbefore : a ∉ n.peers.map (·.1))
    (hp : lookupA (handleNet env bodyOf o n now src data tail).1.node.peers a = some p)
    (hnd : ((handleNet env bodyOf o n now src data tail).1.node.peers.map (·.1)).Nodup)
    (o' : Oracle) (t : Int) (h1 : now ≤ t) (h2 : t ≤ p.timeout) (hs : SessionTickOk o' a p.crypto) :
    ∃ p', lookupA (housekeep env o' (handleNet env bodyOf o n now src data tail).1.node t).node.peers a = some p' ∧
      p'.timeout = p.timeout ∧
      (∃ d : Nat, (housekeep env o' (handleNet env bodyOf o n now src data tail).1.node t).node.nextPeers = t + d ∧
        (d ≤ 1 ∨ d < p'.peerTimeout)) ∧
      (canSeal p'.crypto →
        ∃ p3, lookupA (preAnnounce env o' (handleNet env bodyOf o n now src data tail).1.node t).node.peers a = some p3 ∧
          Sent Generated.MESSAGE_TYPE_NODE_INFO
            (Codec.encodeNodeInfo (createNodeInfo (preAnnounce env o' (handleNet env bodyOf o n now src data tail).1.node t).node)) a p3 p'
            (housekeep env o' (handleNet env bodyOf o n now src data tail).1.node t).outs
            (housekeep env o' (handleNet env bodyOf o n now src data tail).1.node t).log) := by
  obtain ⟨p', hp', ht'⟩ := joined_peer_survives_tick env o' _ t a p hnd hp h2 hs
  have hafter : a ∈ (handleNet env bodyOf o n now src data tail).1.node.peers.map (·.1) := mem_key (lookupA_some_mem hp)
  obtain ⟨_, _, hann⟩ := C15More.new_peer_announced_next_tick env bodyOf o n now src data tail a hbefore hafter
  obtain ⟨⟨d, hd1, hd2⟩, hsent⟩ := hann o' t h1
  have hmem := lookupA_some_mem hp'
  refine ⟨p', hp', ht', ⟨d, hd1, ?_⟩, fun hseal => hsent hnd a p' hmem hseal⟩
  rcases hd2 with h | h
  · exact Or.inl h
  · exact Or.inr (h a p' hmem)

/-! ### non-vacuity: the node of the examples of `C15More` that has just completed a handshake with `s2` -/
section Examples
open VpnCloud.Proofs.InitLemmas

private def s1 : NAddr := .v6 (List.replicate 16 0) 1
private def s2 : NAddr := .v6 (List.replicate 16 0) 2
private def cfg0 : NodeCfg :=
  { tap := false, learning := false, broadcast := false, peerTimeout := 300, peerTimeoutPublish := 300, updateFreq := 10,
    claims := [], key := [7, 7, 7, 7], trusted := [[9, 9, 9, 9]], algos := Toy.algos }
private def o0 : Oracle := { emitted := fun _ _ => [], rotProp := fun _ => 0, rotPend := fun _ => 0, starts := fun _ => [] }
private def p1 : Peer :=
  { addrs := [], timeout := 1000, peerTimeout := 300, nodeId := List.replicate 16 1, crypto := { init := none, unencrypted := true } }
private def cfgH : NodeCfg := { cfg0 with trusted := [[9, 9, 9, 9], [7, 7, 7, 7]], algos := Toy.algosPlain }
private def istH : InitSt := { Toy.st with nodeId := List.replicate 16 9, trusted := cfgH.trusted, algos := Toy.algosPlain }
/-- one established peer `s1`, a pending handshake with `s2` -/
private def nH : Node :=
  { nodeId := List.replicate 16 9, addr := .v6 (List.replicate 16 0) 3, cfg := cfgH, table := { cacheTimeout := 300, claimTimeout := 300 },
    peers := [(s1, p1)], pending := [(s2, { init := some istH })], nextPeers := 5000 }
private def infoH : NodeInfo := { nodeId := List.replicate 16 2, peers := [], claims := [], peerTimeout := some 30, addrs := [] }
/-- the genuine pong of `s2` -/
private def pongH : Bytes :=
  Generated.INIT_MESSAGE_FIRST_BYTE ::
    InitMsg.writeTo (.pong (List.replicate 20 2) [6] Toy.algosPlain (Codec.encodeNodeInfo infoH)) [0, 0, 0, 1] [9, 9, 9, 9] [9, 9, 0, 0]
private def nH' : Node := (handleNet Toy.env (Toy.body 0) o0 nH 100 s2 pongH []).1.node

/-- All hypotheses of `joined_peer_survives_tick` / `joined_peer_gets_first_announcement` hold right after the
completed handshake (second 100): `s2` was not a peer, is one now with expiry `100 + 300`, the addresses are
distinct, and the fresh `PeerCrypto` out of the handshake does not fail at its ticks (`SessionTickOk`). -/
example : s2 ∉ nH.peers.map (·.1) ∧ (nH'.peers.map (·.1)).Nodup ∧
    ∃ p, lookupA nH'.peers s2 = some p ∧ p.timeout = 100 + nH.cfg.peerTimeout ∧ (100 : Int) ≤ p.timeout ∧
      SessionTickOk o0 s2 p.crypto := by
  refine ⟨by decide, by decide +kernel, ?_⟩
  have h : (lookupA nH'.peers s2).map (fun p => (p.timeout, p.crypto.rot.isNone,
      p.crypto.init.map (fun i => i.stage))) = some (400, true, some Generated.WAITING_TO_CLOSE) := by decide +kernel
  cases hl : lookupA nH'.peers s2 with
  | none => rw [hl] at h; cases h
  | some p =>
    rw [hl] at h
    simp only [Option.map_some, Option.some.injEq, Prod.mk.injEq] at h
    obtain ⟨h1, h2, h3⟩ := h
    refine ⟨p, rfl, by rw [h1]; decide, by rw [h1]; decide, ?_⟩
    apply sessionTickOk_of_waiting
    · cases hr : p.crypto.rot with
      | none => rfl
      | some r => rw [hr] at h2; cases h2
    · intro ist hi
      rw [hi] at h3
      simpa using h3

/-- … and indeed the ticks of the seconds 100 and 101 keep `s2` with expiry 400; the tick at 401 removes it -/
example : (lookupA (housekeep Toy.env o0 nH' 100).node.peers s2).map (·.timeout) = some 400 ∧
    (lookupA (housekeep Toy.env o0 (housekeep Toy.env o0 nH' 100).node 101).node.peers s2).map (·.timeout) = some 400 ∧
    (lookupA (housekeep Toy.env o0 nH' 400).node.peers s2).map (·.timeout) = some 400 ∧
    (lookupA (housekeep Toy.env o0 nH' 401).node.peers s2).map (·.timeout) = none := by
  decide +kernel

private def nDup : Node := { nH with peers := [(s2, p1), (s2, { p1 with timeout := 50 })], pending := [] }
/-- the hypothesis of pairwise distinct addresses is needed: with a second (stale) entry under the same address the
sweep erases every entry of the address, although `lookupA` shows an unexpired record (expiry 1000 at second 100) -/
example : (lookupA nDup.peers s2).map (·.timeout) = some 1000 ∧
    (lookupA (housekeep Toy.env o0 nDup 100).node.peers s2).isNone = true := by
  decide +kernel

private def istBad : InitSt := { istH with stage := 1, retries := 120 }
private def nBad : Node := { nH with peers := [(s2, { p1 with crypto := { init := some istBad } })], pending := [] }
/-- the hypothesis `SessionTickOk` is needed: a session whose handshake object has used up its retries fails at its
tick and the peer is dropped although its expiry (1000) is far away -/
example : (lookupA nBad.peers s2).map (·.timeout) = some 1000 ∧
    (lookupA (housekeep Toy.env o0 nBad 100).node.peers s2).isNone = true := by
  decide +kernel

end Examples

end VpnCloud.Proofs.C15Join
