import VpnCloud.Model.InitMsg
import VpnCloud.Proofs.Lemmas.InitMsgLemmas
/-
  C16 (handshake-message part): what `InitMsg::write_to` writes, `InitMsg::read_from` reads back exactly,
  whatever follows it in the buffer.
-/
namespace VpnCloud.Proofs.C16Init
open VpnCloud VpnCloud.InitMsg VpnCloud.Proofs.InitMsgLemmas

def algosWF (a : Algos) : Prop := (∀ p ∈ a.speeds, p.2 < 2 ^ 32) ∧ 5 * a.speeds.length + 5 < 65536

/-- fields have the widths the wire format allows -/
def msgWF : InitMsg → Prop
  | .ping h e a => h.length = 20 ∧ e.length < 65536 ∧ algosWF a
  | .pong h e a p => h.length = 20 ∧ e.length < 65536 ∧ algosWF a ∧ p.length < 65536
  | .peng h p => h.length = 20 ∧ p.length < 65536

/-- **initmsg_roundtrip**: a written message is read back exactly, by the first trusted key whose salted hash matches, with arbitrary bytes behind it -/
theorem initmsg_roundtrip (env : CryptoEnv) (m : InitMsg) (salt sig tail : Bytes) (k : Bytes) (T : List Bytes)
    (hm : msgWF m) (hsalt : salt.length = 4) (hkh : (env.keyHash k salt).length = 4) (hsig : sig.length < 256)
    (hk : T.find? (fun tk => env.keyHash tk salt = env.keyHash k salt) = some k)
    (hv : env.sigVerify k (signedRegion m salt (env.keyHash k salt)) sig = true) :
    readFrom env (writeTo m salt (env.keyHash k salt) sig ++ tail) T = .ok (m, k) := by
  have hrf : ∀ fuel, 6 ≤ fuel → ∀ rest,
      readFields fuel (partsOf m ++ Generated.PART_END :: rest) {} = .ok (fieldsOf m, rest) := by
    intro fuel hf rest
    apply readFields_parts m fuel hf rest
    · cases m <;> exact hm.1
    · rintro h e a rfl; exact ⟨hm.2.1, hm.2.2.1, hm.2.2.2⟩
    · rintro h e a p rfl; exact ⟨hm.2.1, hm.2.2.1.1, hm.2.2.1.2, hm.2.2.2⟩
    · rintro h p rfl; exact hm.2
  rw [signedRegion_eq] at hv
  unfold writeTo
  rw [signedRegion_eq, readFrom_frame env salt _ (partsOf m) sig tail k T (fieldsOf m) hsalt hkh hsig hk hrf
    (partsOf_length m) hv, assemble_fieldsOf]

/-! ### non-vacuity -/

private def toyEnv : CryptoEnv :=
  { keyHash := fun k s => (k ++ s).take 4, nodeHash := fun s i => (s ++ i).take 16, sigVerify := fun k m s => s = k.take 2 ++ m.take 2 }

private def h20 : Bytes := List.replicate 20 7
private def toyPong : InitMsg := .pong h20 [1, 2, 3] ⟨[(.aes256, 1000), (.chacha, 4000000000)], true⟩ [9, 9]

private theorem toyPong_wf : msgWF toyPong := by
  refine ⟨by decide, by decide, ⟨?_, by decide⟩, by decide⟩
  intro p hp
  simp at hp
  rcases hp with rfl | rfl <;> decide

/-- `Except` has no `DecidableEq`: compare results through this Boolean test -/
private def isOk (r : Except InitErr (InitMsg × Bytes)) (m : InitMsg) (k : Bytes) : Bool :=
  match r with
  | .ok (m', k') => m' = m ∧ k' = k
  | .error _ => false

private theorem isOk_iff (r : Except InitErr (InitMsg × Bytes)) (m : InitMsg) (k : Bytes) : isOk r m k = true ↔ r = .ok (m, k) := by
  unfold isOk
  split
  · simp
  · simp

/-- the conclusion of `initmsg_roundtrip` on a concrete instance, checked by evaluation -/
example : readFrom toyEnv (writeTo toyPong [5, 6, 7, 8] (toyEnv.keyHash [1, 2, 3, 4, 5] [5, 6, 7, 8]) [1, 2, 5, 6] ++ [42, 43]) [[8, 8, 8, 8], [1, 2, 3, 4, 5]]
    = .ok (toyPong, [1, 2, 3, 4, 5]) := (isOk_iff _ _ _).1 (by decide +kernel)

/-- all hypotheses of `initmsg_roundtrip` hold on that instance, so the theorem applies to it -/
example : readFrom toyEnv (writeTo toyPong [5, 6, 7, 8] (toyEnv.keyHash [1, 2, 3, 4, 5] [5, 6, 7, 8]) [1, 2, 5, 6] ++ [42, 43]) [[8, 8, 8, 8], [1, 2, 3, 4, 5]]
    = .ok (toyPong, [1, 2, 3, 4, 5]) :=
  initmsg_roundtrip toyEnv toyPong [5, 6, 7, 8] [1, 2, 5, 6] [42, 43] [1, 2, 3, 4, 5] [[8, 8, 8, 8], [1, 2, 3, 4, 5]]
    toyPong_wf (by decide) (by decide) (by decide) (by decide +kernel) (by decide +kernel)

example : toyEnv.sigVerify [1, 2, 3, 4, 5] (signedRegion toyPong [5, 6, 7, 8] (toyEnv.keyHash [1, 2, 3, 4, 5] [5, 6, 7, 8])) [1, 2, 5, 6] = true := by
  decide +kernel

/-- speeds that do not fit 32 bits are not read back (the reason for `algosWF`) -/
example : readFrom toyEnv (writeTo (.ping h20 [] ⟨[(.aes128, 2 ^ 32 + 1)], false⟩) [5, 6, 7, 8] (toyEnv.keyHash [1, 2, 3, 4, 5] [5, 6, 7, 8]) [1, 2, 5, 6]) [[1, 2, 3, 4, 5]]
    = .ok (.ping h20 [] ⟨[(.aes128, 1)], false⟩, [1, 2, 3, 4, 5]) := (isOk_iff _ _ _).1 (by decide +kernel)

end VpnCloud.Proofs.C16Init
