import VpnCloud.Model.Node
import VpnCloud.Proofs.Lemmas.C15MoreLemmas
import VpnCloud.Proofs.C16
/-
  C15 at node level, continued: the announcement `housekeep` schedules is safe for every configuration, the announcement
  reaches every peer, node information / keepalives (and nothing else) refresh the expiry of a peer, a timed argument for
  one direction sender → receiver (a healthy peer never expires — also one that joined after the sender's last scheduling, since
  `add_new_peer` makes the next announcement due at once; a silent one is removed one second after its expiry),
  and the reconnect list is retried forever.
-/
namespace VpnCloud.Proofs.C15More

open VpnCloud VpnCloud.Node
open VpnCloud.Proofs.NodeLemmas VpnCloud.Proofs.NodeLemmas2 VpnCloud.Proofs.NodeInvLemmas
open VpnCloud.Proofs.C15MoreLemmas

/-! ## 1. the announcement that `housekeep` schedules -/

/-- the announcement interval is computed without panic for every configuration and every set of peers -/
theorem announceInterval_ne_none (updateFreq minPeerTimeout : Nat) : announceInterval updateFreq minPeerTimeout ≠ none := by
  obtain ⟨d, hd, _⟩ := C15.interval_safe updateFreq minPeerTimeout
  unfold announceInterval
  rw [hd]
  exact fun h => by cases h

/-- the announcement step: if it is due, the next one is scheduled `d` seconds ahead with `d ≤ 1` or `d` strictly below the
    timeout advertised by every peer that is left, and the panic flag is the one of the broadcast -/
theorem hkAnnounce_due (o : Oracle) (c3 : Ctx) (now : Int) (hdue : c3.node.nextPeers ≤ now) :
    ∃ d : Nat, (hkAnnounce o c3 now).node.nextPeers = now + d ∧
      (d ≤ 1 ∨ ∀ a p, (a, p) ∈ (hkAnnounce o c3 now).node.peers → d < p.peerTimeout) ∧
      (hkAnnounce o c3 now).node.peers =
        (broadcastMsg o c3 Generated.MESSAGE_TYPE_NODE_INFO (Codec.encodeNodeInfo (createNodeInfo c3.node))).node.peers ∧
      (hkAnnounce o c3 now).panicked =
        (broadcastMsg o c3 Generated.MESSAGE_TYPE_NODE_INFO (Codec.encodeNodeInfo (createNodeInfo c3.node))).panicked := by
  unfold hkAnnounce
  rw [if_pos (show Generated.announceDue c3.node.nextPeers now = true by
    simp only [Generated.announceDue, decide_eq_true_eq]; exact hdue)]
  simp only []
  generalize broadcastMsg o c3 Generated.MESSAGE_TYPE_NODE_INFO (Codec.encodeNodeInfo (createNodeInfo c3.node)) = c'
  obtain ⟨d, hd, hsafe⟩ := C15.interval_safe c'.node.cfg.updateFreq
    ((c'.node.peers.map (fun (_, p) => p.peerTimeout)).foldl min (if c'.node.peers.isEmpty then Generated.DEFAULT_PEER_TIMEOUT else 65535))
  unfold announceInterval
  rw [hd]
  refine ⟨d, rfl, ?_, rfl, rfl⟩
  rcases hsafe with h | h
  · exact Or.inl h
  · refine Or.inr (fun a p hm => Nat.lt_of_lt_of_le h ?_)
    exact foldl_min_le_mem _ _ _ (List.mem_map.2 ⟨(a, p), hm, rfl⟩)

theorem hkAnnounce_not_due (o : Oracle) (c3 : Ctx) (now : Int) (hdue : ¬ c3.node.nextPeers ≤ now) : hkAnnounce o c3 now = c3 := by
  unfold hkAnnounce
  rw [if_neg (show ¬ Generated.announceDue c3.node.nextPeers now = true by
    simp only [Generated.announceDue, decide_eq_true_eq]; exact hdue)]

/-- **housekeep_schedules_safe**: whenever the housekeeping tick finds the announcement due, it schedules the next one `d` seconds
    ahead, where `d` is at most one second or strictly shorter than the timeout advertised by every peer that survived the tick —
    for every configured `updateFreq` (keepalive) and every advertised peer timeout; no hypothesis is needed (not even that the
    tick did not panic, nor that the advertised timeouts fit `u16`: `C15.interval_safe` covers all natural numbers). -/
theorem housekeep_schedules_safe (env : CryptoEnv) (o : Oracle) (n : Node) (now : Int) (hdue : n.nextPeers ≤ now) :
    ∃ d : Nat, (housekeep env o n now).node.nextPeers = now + d ∧
      (d ≤ 1 ∨ ∀ a p, (a, p) ∈ (housekeep env o n now).node.peers → d < p.peerTimeout) := by
  have hnp : (preAnnounce env o n now).node.nextPeers = n.nextPeers := sched_nextPeers (preAnnounce_sched env o n now)
  obtain ⟨d, h1, h2, _, _⟩ := hkAnnounce_due o (preAnnounce env o n now) now (by rw [hnp]; exact hdue)
  refine ⟨d, ?_, ?_⟩
  · rw [housekeep_eq', hkOwn_nextPeers, reconnectToPeers_nextPeers]; exact h1
  · rw [housekeep_eq', hkOwn_peers, reconnectToPeers_peers]; exact h2

/-- the same for one peer, in the form the timed argument uses (`SafeDelays`): the delay until the next announcement is at most one
    second or strictly below the timeout this peer advertised -/
theorem housekeep_delay_safe_for_peer (env : CryptoEnv) (o : Oracle) (n : Node) (now : Int) (hdue : n.nextPeers ≤ now)
    (a : NAddr) (p : Peer) (hmem : (a, p) ∈ (housekeep env o n now).node.peers) :
    now ≤ (housekeep env o n now).node.nextPeers ∧
    ((housekeep env o n now).node.nextPeers - now ≤ 1 ∨ (housekeep env o n now).node.nextPeers - now < p.peerTimeout) := by
  obtain ⟨d, h1, h2⟩ := housekeep_schedules_safe env o n now hdue
  rw [h1]
  refine ⟨by omega, ?_⟩
  rcases h2 with h | h
  · left; omega
  · right; have := h a p hmem; omega

/-- the form asked for in the task (with the superfluous hypothesis that the tick did not panic) -/
theorem housekeep_schedules_safe' (env : CryptoEnv) (o : Oracle) (n : Node) (now : Int)
    (_hp : (housekeep env o n now).panicked = false) (hdue : n.nextPeers ≤ now) :
    ∃ d : Nat, (housekeep env o n now).node.nextPeers = now + d ∧
      (d ≤ 1 ∨ ∀ a p, (a, p) ∈ (housekeep env o n now).node.peers → d < p.peerTimeout) :=
  housekeep_schedules_safe env o n now hdue

/-- a tick before the announcement is due leaves the schedule alone -/
theorem housekeep_keeps_schedule (env : CryptoEnv) (o : Oracle) (n : Node) (now : Int) (hnot : n.nextPeers > now) :
    (housekeep env o n now).node.nextPeers = n.nextPeers := by
  have hnp : (preAnnounce env o n now).node.nextPeers = n.nextPeers := sched_nextPeers (preAnnounce_sched env o n now)
  rw [housekeep_eq', hkOwn_nextPeers, reconnectToPeers_nextPeers, hkAnnounce_not_due, hnp]
  rw [hnp]; omega

/-- `housekeep` never panics because of the interval: the panic flag after the tick is the one after the broadcast (or, if no
    announcement is due, after the session ticks) -/
theorem housekeep_interval_no_panic (env : CryptoEnv) (o : Oracle) (n : Node) (now : Int) :
    (housekeep env o n now).panicked =
      (if n.nextPeers ≤ now then
        (broadcastMsg o (preAnnounce env o n now) Generated.MESSAGE_TYPE_NODE_INFO
          (Codec.encodeNodeInfo (createNodeInfo (preAnnounce env o n now).node))).panicked
       else (preAnnounce env o n now).panicked) := by
  have hnp : (preAnnounce env o n now).node.nextPeers = n.nextPeers := sched_nextPeers (preAnnounce_sched env o n now)
  rw [housekeep_eq', hkOwn_panicked, reconnectToPeers_panicked]
  split
  · rename_i hdue
    obtain ⟨_, _, _, _, h4⟩ := hkAnnounce_due o (preAnnounce env o n now) now (by rw [hnp]; exact hdue)
    exact h4
  · rename_i hdue
    rw [hkAnnounce_not_due]
    rw [hnp]; exact hdue

/-! ## 2. the announcement reaches every peer -/

theorem hkAnnounce_due_io (o : Oracle) (c3 : Ctx) (now : Int) (hdue : c3.node.nextPeers ≤ now) :
    (hkAnnounce o c3 now).outs =
        (broadcastMsg o c3 Generated.MESSAGE_TYPE_NODE_INFO (Codec.encodeNodeInfo (createNodeInfo c3.node))).outs ∧
    (hkAnnounce o c3 now).log =
        (broadcastMsg o c3 Generated.MESSAGE_TYPE_NODE_INFO (Codec.encodeNodeInfo (createNodeInfo c3.node))).log := by
  unfold hkAnnounce
  rw [if_pos (show Generated.announceDue c3.node.nextPeers now = true by
    simp only [Generated.announceDue, decide_eq_true_eq]; exact hdue)]
  simp only []
  split <;> exact ⟨rfl, rfl⟩

/-- what the node announces at a tick: its id, its claims, its own addresses, the peers left after the removal of the expired ones,
    and `peer_timeout_publish` as the timeout its peers must respect -/
theorem announced_info (env : CryptoEnv) (o : Oracle) (n : Node) (now : Int) :
    (createNodeInfo (preAnnounce env o n now).node).peerTimeout = some n.cfg.peerTimeoutPublish ∧
    (createNodeInfo (preAnnounce env o n now).node).nodeId = n.nodeId ∧
    (createNodeInfo (preAnnounce env o n now).node).claims = n.cfg.claims ∧
    (createNodeInfo (preAnnounce env o n now).node).addrs = n.own := by
  have h := preAnnounce_sched env o n now
  unfold createNodeInfo
  simp only []
  rw [sched_cfg h, sched_nodeId h, sched_own h]
  exact ⟨rfl, rfl, rfl, rfl⟩

/-- **announce_reaches_every_peer**: when the announcement is due (and the peer addresses are pairwise distinct), every peer that is
    still a peer after the tick and whose session can seal has been sent one datagram in this tick that is `send_message(NODE_INFO, …)`
    of its session (the session it had after the per-second session housekeeping, `p3.crypto`) applied to the encoded node
    information of `announced_info`; the record after the tick is the earlier one with the session state after sealing, and the
    seal is in the seal log of the tick. -/
theorem announce_reaches_every_peer (env : CryptoEnv) (o : Oracle) (n : Node) (now : Int) (hdue : n.nextPeers ≤ now)
    (hnd : (n.peers.map (·.1)).Nodup) (a : NAddr) (p : Peer) (hmem : (a, p) ∈ (housekeep env o n now).node.peers)
    (hseal : canSeal p.crypto) :
    ∃ p3, lookupA (preAnnounce env o n now).node.peers a = some p3 ∧
      Sent Generated.MESSAGE_TYPE_NODE_INFO (Codec.encodeNodeInfo (createNodeInfo (preAnnounce env o n now).node)) a p3 p
        (housekeep env o n now).outs (housekeep env o n now).log := by
  have hnp : (preAnnounce env o n now).node.nextPeers = n.nextPeers := sched_nextPeers (preAnnounce_sched env o n now)
  have hdue3 : (preAnnounce env o n now).node.nextPeers ≤ now := by rw [hnp]; exact hdue
  obtain ⟨_, _, _, hpeers, _⟩ := hkAnnounce_due o (preAnnounce env o n now) now hdue3
  obtain ⟨houts, hlog⟩ := hkAnnounce_due_io o (preAnnounce env o n now) now hdue3
  generalize hc3 : preAnnounce env o n now = c3 at *
  generalize hbody : Codec.encodeNodeInfo (createNodeInfo c3.node) = body at *
  have hnd3 : KeysNodup c3 := by rw [← hc3]; exact preAnnounce_keysNodup env o n now hnd
  -- the broadcast, peer by peer
  have hnd3' : (c3.node.peers.map (·.1)).Nodup := hnd3
  obtain ⟨ex, lgx, ho, hl, hne, hin⟩ := bcast_fold o Generated.MESSAGE_TYPE_NODE_INFO body _ c3 hnd3'
  have hb : (c3.node.peers.map (·.1)).foldl (fun c a => (sendMsg o c a Generated.MESSAGE_TYPE_NODE_INFO body).getD c) c3 =
      broadcastMsg o c3 Generated.MESSAGE_TYPE_NODE_INFO body := rfl
  rw [hb] at ho hl hne hin
  -- the final peer list, outputs and log
  have hfp : (housekeep env o n now).node.peers = (broadcastMsg o c3 Generated.MESSAGE_TYPE_NODE_INFO body).node.peers := by
    rw [housekeep_eq', hkOwn_peers, reconnectToPeers_peers, hc3]; exact hpeers
  have hfo : ∀ x ∈ ex, x ∈ (housekeep env o n now).outs := by
    intro x hx
    rw [housekeep_eq', hkOwn_outs, hc3]
    obtain ⟨e2, he2, _⟩ := reconnectToPeers_ext env o (hkAnnounce o c3 now) now
    rw [he2, houts, ho]
    exact List.mem_append_left _ (List.mem_append_right _ hx)
  have hfl : ∀ x ∈ lgx, x ∈ (housekeep env o n now).log := by
    intro x hx
    rw [housekeep_eq', hkOwn_log, reconnectToPeers_log, hc3, hlog, hl]
    exact List.mem_append_right _ hx
  rw [hfp] at hmem
  have hlk : lookupA (broadcastMsg o c3 Generated.MESSAGE_TYPE_NODE_INFO body).node.peers a = some p :=
    lookupA_of_mem_nodup (by rw [broadcastMsg_keys]; exact hnd3) hmem
  by_cases ha : a ∈ c3.node.peers.map (·.1)
  · cases hl3 : lookupA c3.node.peers a with
    | none => exact absurd ha ((lookupA_none_iff _ _).1 hl3)
    | some p3 =>
      obtain ⟨h1, h2⟩ := hin a ha p3 hl3
      by_cases hs3 : canSeal p3.crypto
      · obtain ⟨p', hp', hsent⟩ := h1 hs3
        rw [hlk] at hp'
        cases hp'
        exact ⟨p3, rfl, hsent.mono hfo hfl⟩
      · have := h2 hs3
        rw [hlk] at this
        cases this
        exact absurd hseal hs3
  · have := hne a ha
    rw [hlk, (lookupA_none_iff _ _).2 ha] at this
    cases this

/-- if the announced node information is well-formed (sizes within the limits of the wire format), whoever decodes the announced bytes —
    also with stale bytes behind them — reads `peer_timeout_publish` as the advertised timeout -/
theorem announced_timeout_decodes (env : CryptoEnv) (o : Oracle) (n : Node) (now : Int) (tail : Bytes)
    (hwf : VpnCloud.Spec.C16.WF (createNodeInfo (preAnnounce env o n now).node) = true) :
    ∃ info, Codec.decodeNodeInfo (Codec.encodeNodeInfo (createNodeInfo (preAnnounce env o n now).node) ++ tail) = some info ∧
      info.peerTimeout = some n.cfg.peerTimeoutPublish :=
  ⟨_, VpnCloud.Proofs.C16.nodeinfo_roundtrip _ hwf tail, (announced_info env o n now).1⟩

/-! ## 3. what refreshes the expiry of a peer -/

/-- the situation of theorem 3: a datagram `data` without the handshake marker arrives from `src`, which is the established peer `p`,
    and the session of `p` opens it as a message of type `ty` with content `body` (new session state `pc`) -/
structure FromPeer (env : CryptoEnv) (bodyOf : Init.BodyOf) (o : Oracle) (n : Node) (src : NAddr) (data tail : Bytes)
    (p : Peer) (pc : PeerCrypto) (ty : Nat) (body : Bytes) : Prop where
  peer : lookupA n.peers (mappedAddr src) = some p
  plain : data.head? ≠ some Generated.INIT_MESSAGE_FIRST_BYTE
  opened : ∃ out log, PeerCrypto.handleMessage env bodyOf payloadOk p.crypto data tail (rndFor o { node := n } (mappedAddr src)).1
            (rndFor o { node := n } (mappedAddr src)).2.1 = .ok pc out (.message ty body) log

/-- the peer list after the message: by message type -/
theorem peers_after_message {env : CryptoEnv} {bodyOf : Init.BodyOf} {o : Oracle} {n : Node} {src : NAddr} {data tail : Bytes}
    {p : Peer} {pc : PeerCrypto} {ty : Nat} {body : Bytes} (h : FromPeer env bodyOf o n src data tail p pc ty body) (now : Int) :
    (handleNet env bodyOf o n now src data tail).1.node.peers =
      if ty = Generated.MESSAGE_TYPE_KEEPALIVE then
        insertA n.peers (mappedAddr src) (refreshed { p with crypto := pc } (now + n.cfg.peerTimeout) (mappedAddr src) none)
      else if ty = Generated.MESSAGE_TYPE_NODE_INFO then
        match Codec.decodeNodeInfo body with
        | some i => insertA n.peers (mappedAddr src) (refreshed { p with crypto := pc } (now + n.cfg.peerTimeout) (mappedAddr src) (some i))
        | none => insertA n.peers (mappedAddr src) { p with crypto := pc }
      else if ty = Generated.MESSAGE_TYPE_CLOSE then eraseA n.peers (mappedAddr src)
      else insertA n.peers (mappedAddr src) { p with crypto := pc } := by
  obtain ⟨out, log, hm⟩ := h.opened
  rw [handleNet_established env bodyOf o n now src data tail p pc out _ log h.peer h.plain hm, finish_peers]
  rw [handleResult_message_peers env o _ now (mappedAddr src) ty body out { p with crypto := pc } (lookupA_insertA_self _ _ _)]
  simp only [addLog_node, insertA_insertA, eraseA_insertA_self]
  rfl

/-- **refresh_sets_expiry**: a keepalive, or a node information message that decodes, from an established peer sets the expiry of exactly
    that peer to `now + peer_timeout` (own configured timeout); session state is the one the session layer returned, the advertised
    timeout and node id of the record stay -/
theorem refresh_sets_expiry {env : CryptoEnv} {bodyOf : Init.BodyOf} {o : Oracle} {n : Node} {src : NAddr} {data tail : Bytes}
    {p : Peer} {pc : PeerCrypto} {ty : Nat} {body : Bytes} (h : FromPeer env bodyOf o n src data tail p pc ty body) (now : Int)
    (hty : ty = Generated.MESSAGE_TYPE_KEEPALIVE ∨
           (ty = Generated.MESSAGE_TYPE_NODE_INFO ∧ ∃ info, Codec.decodeNodeInfo body = some info)) :
    ∃ p', lookupA (handleNet env bodyOf o n now src data tail).1.node.peers (mappedAddr src) = some p' ∧
      p'.timeout = now + n.cfg.peerTimeout ∧ p'.crypto = pc ∧ p'.peerTimeout = p.peerTimeout ∧ p'.nodeId = p.nodeId := by
  rw [peers_after_message h now]
  rcases hty with rfl | ⟨rfl, info, hinfo⟩
  · rw [if_pos rfl, lookupA_insertA_self]
    exact ⟨_, rfl, rfl, rfl, rfl, rfl⟩
  · rw [if_neg (by decide), if_pos rfl]
    simp only [hinfo]
    rw [lookupA_insertA_self]
    exact ⟨_, rfl, rfl, rfl, rfl, rfl⟩

/-- … and touches no other peer record (for every message type) -/
theorem message_keeps_other_peers {env : CryptoEnv} {bodyOf : Init.BodyOf} {o : Oracle} {n : Node} {src : NAddr} {data tail : Bytes}
    {p : Peer} {pc : PeerCrypto} {ty : Nat} {body : Bytes} (h : FromPeer env bodyOf o n src data tail p pc ty body) (now : Int)
    (b : NAddr) (hb : b ≠ mappedAddr src) :
    lookupA (handleNet env bodyOf o n now src data tail).1.node.peers b = lookupA n.peers b := by
  rw [peers_after_message h now]
  split
  · exact lookupA_insertA_ne _ _ hb
  · split
    · split
      · exact lookupA_insertA_ne _ _ hb
      · exact lookupA_insertA_ne _ _ hb
    · split
      · exact lookupA_eraseA_ne _ hb
      · exact lookupA_insertA_ne _ _ hb

/-- **data_does_not_refresh**: payload from a peer does NOT extend its expiry (only node information and keepalives count): after
    a DATA message — in fact after every message other than keepalive, decodable node information and close — the record of the sender
    is the old one with the new session state, in particular `timeout = p.timeout` -/
theorem data_does_not_refresh {env : CryptoEnv} {bodyOf : Init.BodyOf} {o : Oracle} {n : Node} {src : NAddr} {data tail : Bytes}
    {p : Peer} {pc : PeerCrypto} {ty : Nat} {body : Bytes} (h : FromPeer env bodyOf o n src data tail p pc ty body) (now : Int)
    (hty : ty = Generated.MESSAGE_TYPE_DATA ∨
           (ty ≠ Generated.MESSAGE_TYPE_KEEPALIVE ∧ ty ≠ Generated.MESSAGE_TYPE_CLOSE ∧
            (ty = Generated.MESSAGE_TYPE_NODE_INFO → Codec.decodeNodeInfo body = none))) :
    lookupA (handleNet env bodyOf o n now src data tail).1.node.peers (mappedAddr src) = some { p with crypto := pc } ∧
    ({ p with crypto := pc } : Peer).timeout = p.timeout := by
  refine ⟨?_, rfl⟩
  rw [peers_after_message h now]
  have hty' : ty ≠ Generated.MESSAGE_TYPE_KEEPALIVE ∧ ty ≠ Generated.MESSAGE_TYPE_CLOSE ∧
            (ty = Generated.MESSAGE_TYPE_NODE_INFO → Codec.decodeNodeInfo body = none) := by
    rcases hty with rfl | h'
    · exact ⟨by decide, by decide, fun h => absurd h (by decide)⟩
    · exact h'
  obtain ⟨h1, h2, h3⟩ := hty'
  rw [if_neg h1]
  split
  · rename_i hni
    simp only [h3 hni]
    exact lookupA_insertA_self _ _ _
  · exact lookupA_insertA_self _ _ _

/-! ## 4. a timed argument for one direction: sender S announces to receiver R -/

/-- time, S's next announcement, R's expiry for S -/
structure TState where
  t : Int
  next : Int
  expiry : Int
  deriving Repr, DecidableEq

/-- S's housekeeping at time `s.t`: if the announcement is due it arrives at R (which sets the expiry to `t + T`, theorem
    `refresh_sets_expiry`) and the next one is scheduled `d t` seconds ahead -/
def sHousekeep (T : Nat) (d : Int → Nat) (s : TState) : TState :=
  if Generated.announceDue s.next s.t then { s with expiry := s.t + T, next := s.t + d s.t } else s

/-- R's housekeeping test at time `s.t` (the generated guard `peerExpired`, as in `housekeep`) -/
def rRemoves (s : TState) : Bool := Generated.peerExpired s.expiry s.t

/-- one second: the clock advances, then both nodes run their housekeeping; `rFirst` says whether R's test runs before S's
    announcement arrives.  Returns the new state and whether R removed S in this second. -/
def tick (T : Nat) (d : Int → Nat) (rFirst : Bool) (s : TState) : TState × Bool :=
  let s1 := { s with t := s.t + 1 }
  if rFirst then (sHousekeep T d s1, rRemoves s1)
  else (sHousekeep T d s1, rRemoves (sHousekeep T d s1))

/-- a run: one boolean (order of the two housekeeping calls) per second; returns the final state and whether R removed S in
    any of the seconds -/
def run (T : Nat) (d : Int → Nat) : List Bool → TState → TState × Bool
  | [], s => (s, false)
  | b :: bs, s => ((run T d bs (tick T d b s).1).1, (tick T d b s).2 || (run T d bs (tick T d b s).1).2)

/-- the inductive invariant: the expiry is at least one second ahead and S's next announcement is due in the next second or
    not later than the expiry -/
def TInv (s : TState) : Prop := s.t + 1 ≤ s.expiry ∧ (s.next ≤ s.t + 1 ∨ s.next ≤ s.expiry)

/-- the guarantee of `housekeep_schedules_safe` about the delays S chooses, `Tadv` = the timeout R advertises -/
def SafeDelays (Tadv : Nat) (d : Int → Nat) : Prop := ∀ t, d t ≤ 1 ∨ d t < Tadv

theorem tick_inv (T Tadv : Nat) (d : Int → Nat) (hT : 1 ≤ T) (hadv : Tadv ≤ T) (hd : SafeDelays Tadv d) (b : Bool) (s : TState)
    (h : TInv s) : TInv (tick T d b s).1 ∧ (tick T d b s).2 = false := by
  obtain ⟨h1, h2⟩ := h
  have hdt := hd (s.t + 1)
  unfold tick sHousekeep rRemoves TInv
  simp only [Generated.announceDue, Generated.peerExpired, decide_eq_true_eq]
  cases b <;> simp only [Bool.false_eq_true, if_false, if_true] <;> split <;>
    simp only [decide_eq_false_iff_not] <;> omega

/-- **healthy_never_expires**: if the receiver's own timeout `T` is at least one second, advertises `Tadv ≤ T`, and the sender
    chooses its delays as `housekeep_schedules_safe` guarantees, then from every state that satisfies the invariant the receiver
    never finds the sender expired — for every number of seconds and for every order of the two housekeeping calls within each
    second; and the invariant holds again at the end. -/
theorem healthy_never_expires (T Tadv : Nat) (d : Int → Nat) (hT : 1 ≤ T) (hadv : Tadv ≤ T) (hd : SafeDelays Tadv d)
    (order : List Bool) (s : TState) (h : TInv s) : (run T d order s).2 = false ∧ TInv (run T d order s).1 := by
  induction order generalizing s with
  | nil => exact ⟨rfl, h⟩
  | cons b bs ih =>
    obtain ⟨hi, hr⟩ := tick_inv T Tadv d hT hadv hd b s h
    obtain ⟨ih1, ih2⟩ := ih _ hi
    exact ⟨by simp only [run, hr, ih1, Bool.or_self], ih2⟩

/-- the invariant holds when the announcement has just arrived: right after S's housekeeping announced at time `t`
    (expiry `t + T`, next `t + d t`) -/
theorem tinv_after_announcement (T Tadv : Nat) (d : Int → Nat) (hT : 1 ≤ T) (hadv : Tadv ≤ T) (hd : SafeDelays Tadv d)
    (s : TState) (hdue : s.next ≤ s.t) : TInv (sHousekeep T d s) := by
  have := hd s.t
  unfold sHousekeep TInv
  rw [if_pos (show Generated.announceDue s.next s.t = true by
    simp only [Generated.announceDue, decide_eq_true_eq]; exact hdue)]
  simp only []
  omega

/-- non-vacuity: `T = 300`, advertised `300`, delay `90` (the default configuration): the state right after an announcement at
    time 0 satisfies the invariant -/
example : SafeDelays 300 (fun _ => 90) ∧ TInv { t := 0, next := 90, expiry := 300 } :=
  ⟨fun _ => Or.inr (by show (90 : Nat) < 300; omega), by unfold TInv; decide⟩

/-- `Tadv ≤ T` for the real node: it publishes `peer_timeout as u16`, i.e. the configured value modulo 65536 (in the model
    `NodeCfg.peerTimeoutPublish` is an independent field, so `Tadv ≤ T` stays a hypothesis of `healthy_never_expires`) -/
theorem publish_le_own (peerTimeout : Nat) : peerTimeout % 65536 ≤ peerTimeout := Nat.mod_le _ _

/-- `1 ≤ T` is necessary: with `T = 0` (and the only delays `SafeDelays 0` allows, `d ≤ 1`) a state that satisfies the invariant
    is followed by a second in which R, testing before the announcement arrives, removes S -/
theorem timeout_zero_expires :
    SafeDelays 0 (fun _ => 1) ∧ TInv { t := 0, next := 1, expiry := 1 } ∧
    (run 0 (fun _ => 1) [true, true] { t := 0, next := 1, expiry := 1 }).2 = true := by
  refine ⟨fun _ => Or.inl (Nat.le_refl _), by unfold TInv; decide, by decide⟩

/-- … and `Tadv ≤ T` is necessary: a receiver that advertises more (here 300) than it applies (here 10) removes a sender that
    keeps to `SafeDelays` -/
theorem advertised_above_own_expires :
    SafeDelays 300 (fun _ => 90) ∧ TInv { t := 0, next := 1, expiry := 10 } ∧
    (run 10 (fun _ => 90) (List.replicate 12 false) { t := 0, next := 1, expiry := 10 }).2 = true := by
  refine ⟨fun _ => Or.inr (by show (90 : Nat) < 300; omega), by unfold TInv; decide, by decide⟩

/-- the second disjunct of the invariant is needed: a state in which S's next announcement is later than R's expiry (here: S scheduled
    90 s ahead, R applies `T = 30`) is followed by a removal of the healthy S.  Before the fix of `add_new_peer` such a state arose after
    every handshake with a peer whose timeout is shorter than S's pending interval; now `join` below describes the handshake. -/
theorem second_disjunct_needed :
    SafeDelays 30 (fun _ => 1) ∧ ¬ TInv { t := 0, next := 90, expiry := 30 } ∧
    (run 30 (fun _ => 1) (List.replicate 31 false) { t := 0, next := 90, expiry := 30 }).2 = true := by
  refine ⟨fun _ => Or.inl (Nat.le_refl _), by unfold TInv; decide, by decide⟩

/-- the handshake in the timed system, completed at both ends in the second `s.t`: R stores S with expiry `t + T`
    (`handshake_sets_expiry`) and S pulls its pending announcement forward to `t` (`add_new_peer`: `next_peers = min(next_peers, now)`,
    `new_peer_announced_next_tick`) — whatever S had scheduled before, and whatever R's expiry was -/
def join (T : Nat) (s : TState) : TState := { s with next := min s.next s.t, expiry := s.t + T }

/-- the handshake establishes the invariant, with NO hypothesis on what S had scheduled before it -/
theorem tinv_after_join (T : Nat) (hT : 1 ≤ T) (s : TState) : TInv (join T s) := by
  unfold TInv join
  simp only []
  omega

/-- **joined_peer_never_expires**: a peer that joins at any moment — in particular after the sender's last scheduling, with an
    arbitrary pending `next` — is never found expired by the receiver afterwards.  Remaining timing assumptions: both ends complete the
    handshake in the same second (`join`), housekeeping runs every second at both ends (in either order) and an announcement that is
    sent arrives within the second (`tick`), the receiver's own timeout is at least one second (`hT`) and it advertises at most its own
    timeout (`hadv`), and the delays S chooses after the handshake are the ones of `housekeep_schedules_safe` for a peer list that
    contains R (`hd`; by `new_peer_announced_next_tick` the first of them is chosen at S's next tick, with R on the list). -/
theorem joined_peer_never_expires (T Tadv : Nat) (d : Int → Nat) (hT : 1 ≤ T) (hadv : Tadv ≤ T) (hd : SafeDelays Tadv d)
    (order : List Bool) (s : TState) : (run T d order (join T s)).2 = false ∧ TInv (run T d order (join T s)).1 :=
  healthy_never_expires T Tadv d hT hadv hd order (join T s) (tinv_after_join T hT s)

/-- the first announcement after the handshake goes out in S's next housekeeping, one second later at the latest, and R's expiry is
    then renewed — for every pending `next` -/
theorem join_announces_next_tick (T : Nat) (d : Int → Nat) (b : Bool) (s : TState) :
    (tick T d b (join T s)).1.expiry = s.t + 1 + T ∧ (tick T d b (join T s)).1.next = s.t + 1 + d (s.t + 1) := by
  have hdue : Generated.announceDue (min s.next s.t) (s.t + 1) = true := by
    simp only [Generated.announceDue, decide_eq_true_eq]; omega
  unfold tick sHousekeep join
  cases b <;> simp only [hdue, if_true, Bool.false_eq_true, if_false, and_self]

/-- non-vacuity, on the state of `second_disjunct_needed`: S had scheduled 90 s ahead and R applies `T = 30`; after the handshake
    (`join`) the same 31 seconds pass without a removal -/
example : SafeDelays 30 (fun _ => 1) ∧ join 30 { t := 0, next := 90, expiry := 0 } = { t := 0, next := 0, expiry := 30 } ∧
    (run 30 (fun _ => 1) (List.replicate 31 false) (join 30 { t := 0, next := 90, expiry := 0 })).2 = false :=
  ⟨fun _ => Or.inl (Nat.le_refl _), by decide, by decide⟩

/-! ### the converse: a silent sender -/

/-- one second in which nothing arrives from S: the clock advances and R tests -/
def silentTick (s : TState) : TState × Bool := ({ s with t := s.t + 1 }, rRemoves { s with t := s.t + 1 })

/-- `k` silent seconds -/
def silentRun : Nat → TState → TState × Bool
  | 0, s => (s, false)
  | k + 1, s => ((silentRun k (silentTick s).1).1, (silentTick s).2 || (silentRun k (silentTick s).1).2)

theorem silentRun_state (k : Nat) (s : TState) : (silentRun k s).1 = { s with t := s.t + k } := by
  induction k generalizing s with
  | zero => simp [silentRun]
  | succ k ih =>
    simp only [silentRun, ih, silentTick]
    congr 1
    omega

/-- R removes S within `k` silent seconds iff the clock passes the expiry within them -/
theorem silentRun_removed_iff (k : Nat) (s : TState) (h : s.t ≤ s.expiry) :
    (silentRun k s).2 = true ↔ s.expiry < s.t + k := by
  induction k generalizing s with
  | zero =>
    simp only [silentRun]
    constructor
    · intro h'; cases h'
    · intro h'; omega
  | succ k ih =>
    simp only [silentRun, silentTick, rRemoves, Generated.peerExpired, Bool.or_eq_true, decide_eq_true_eq]
    by_cases hlt : s.expiry < s.t + 1
    · constructor
      · intro _; omega
      · intro _; exact Or.inl hlt
    · have := ih { s with t := s.t + 1 } (by simp only []; omega)
      simp only [] at this
      rw [this]
      constructor
      · rintro (h' | h') <;> omega
      · intro h'; exact Or.inr (by omega)

/-- **silent_removed**: if nothing arrives from S, R keeps S exactly until the clock shows `expiry + 1`: no removal in the seconds
    up to `expiry`, removal in the second after -/
theorem silent_removed (s : TState) (h : s.t ≤ s.expiry) :
    (silentRun (s.expiry - s.t).toNat s).2 = false ∧
    (silentRun ((s.expiry - s.t).toNat + 1) s).2 = true ∧
    (silentRun ((s.expiry - s.t).toNat + 1) s).1.t = s.expiry + 1 := by
  refine ⟨?_, ?_, ?_⟩
  · cases hr : (silentRun (s.expiry - s.t).toNat s).2 with
    | false => rfl
    | true => have := (silentRun_removed_iff _ s h).1 hr; omega
  · exact (silentRun_removed_iff _ s h).2 (by omega)
  · rw [silentRun_state]; simp only []; omega

/-! ### links between the timed system and the node model -/

/-- R's housekeeping test in the node model is the test of the timed system: with pairwise distinct peer addresses, a peer whose expiry
    has passed (`rRemoves`) is gone after the tick, and a peer that is still there after the tick had not expired and keeps its expiry
    (`housekeep` never extends an expiry) -/
theorem silent_removed_node (env : CryptoEnv) (o : Oracle) (n : Node) (now : Int) (a : NAddr) (p : Peer)
    (hnd : (n.peers.map (·.1)).Nodup) (hp : lookupA n.peers a = some p) :
    (rRemoves { t := now, next := n.nextPeers, expiry := p.timeout } = true → lookupA (housekeep env o n now).node.peers a = none) ∧
    (∀ p', lookupA (housekeep env o n now).node.peers a = some p' →
      rRemoves { t := now, next := n.nextPeers, expiry := p.timeout } = false ∧ p'.timeout = p.timeout) := by
  have huniq : ∀ p0, (a, p0) ∈ n.peers → p0 = p := by
    intro p0 h0
    have := lookupA_of_mem_nodup hnd h0
    rw [hp] at this
    exact (Option.some.inj this).symm
  refine ⟨?_, ?_⟩
  · intro hr
    apply C15Node.expired_peer_removed
    intro p0 h0
    rw [huniq p0 h0]
    simpa [rRemoves] using hr
  · intro p' hp'
    obtain ⟨p0, h0, hn, ht⟩ := C15Node.housekeep_removes_expired env o n now a p' (lookupA_some_mem hp')
    rw [huniq p0 h0] at hn ht
    exact ⟨by simpa [rRemoves] using hn, ht⟩

/-- **expired_peer_redialled**: a peer whose expiry has passed is removed at the tick AND dialled again in the same tick (a handshake
    datagram goes to its address) — provided the peer addresses are pairwise distinct and stored in mapped form (as the node always
    stores them), the address is not one of the node's own addresses and no handshake with it is pending already -/
theorem expired_peer_redialled (env : CryptoEnv) (o : Oracle) (n : Node) (now : Int) (a : NAddr) (p : Peer)
    (hnd : (n.peers.map (·.1)).Nodup) (hmapped : ∀ b ∈ n.peers.map (·.1), mappedAddr b = b)
    (hp : lookupA n.peers a = some p) (hexp : p.timeout < now)
    (hown : n.own.contains a = false) (hpend : lookupA n.pending a = none) :
    lookupA (housekeep env o n now).node.peers a = none ∧ HsTo a (housekeep env o n now).outs := by
  refine ⟨(silent_removed_node env o n now a p hnd hp).1 (by simpa [rRemoves] using hexp), ?_⟩
  have h1 := hkDead_redials env o n now a p hnd hmapped hp hexp hown hpend
  have hg : Grows (hkDead env o n now) (housekeep env o n now) := by
    rw [housekeep_eq']
    unfold preAnnounce
    refine Grows.trans (Grows.trans (Grows.trans ?_ (cryptoHousekeep_grows env o _ now)) (hkAnnounce_grows o _ now))
      (Grows.trans (Grows.of_ext (reconnectToPeers_ext env o _ now)) (Grows.of_eq (hkOwn_outs _ now)))
    exact Grows.of_eq rfl
  exact h1.mono (fun x hx => hg.mem hx)

/-- the handshake establishes the first half of the invariant at R: `add_new_peer` stores the peer with expiry `now + peer_timeout`
    (and the timeout the peer advertised, default 300 s) -/
theorem handshake_sets_expiry (env : CryptoEnv) (o : Oracle) (c : Ctx) (now : Int) (a : NAddr) (info : NodeInfo) (pc : PeerCrypto)
    (hp : lookupA c.node.pending a = some pc) :
    ∃ p, lookupA (addNewPeer env o c now a info).node.peers a = some p ∧ p.timeout = now + c.node.cfg.peerTimeout ∧
      p.peerTimeout = info.peerTimeout.getD Generated.DEFAULT_PEER_TIMEOUT ∧ p.crypto = pc ∧ p.nodeId = info.nodeId :=
  addNewPeer_peer env o c now a info pc hp

/-- … and the second half at S: `add_new_peer` (with a pending handshake object) makes the next announcement due at once,
    `next_peers = min(next_peers, now)` -/
theorem handshake_pulls_schedule (env : CryptoEnv) (o : Oracle) (c : Ctx) (now : Int) (a : NAddr) (info : NodeInfo) (pc : PeerCrypto)
    (hp : lookupA c.node.pending a = some pc) :
    (addNewPeer env o c now a info).node.nextPeers = min c.node.nextPeers now ∧ (addNewPeer env o c now a info).node.nextPeers ≤ now := by
  rw [addNewPeer_nextPeers env o c now a info pc hp]
  exact ⟨rfl, Int.min_le_right _ _⟩

/-- **handshake_schedule** (formerly `handshake_keeps_schedule`, which said that no datagram touches `next_peers`): a datagram either
    leaves the announcement schedule alone — and then adds no address to the peer list —, or (a completed handshake) lowers it to
    `min next_peers now` — and then its sender is a peer afterwards.  Nothing else happens to `next_peers` in `handle_net_message`. -/
theorem handshake_schedule (env : CryptoEnv) (bodyOf : Init.BodyOf) (o : Oracle) (n : Node) (now : Int) (src : NAddr) (data tail : Bytes) :
    ((handleNet env bodyOf o n now src data tail).1.node.nextPeers = n.nextPeers ∧
      ∀ b, b ∈ (handleNet env bodyOf o n now src data tail).1.node.peers.map (·.1) → b ∈ n.peers.map (·.1)) ∨
    ((handleNet env bodyOf o n now src data tail).1.node.nextPeers = min n.nextPeers now ∧
      mappedAddr src ∈ (handleNet env bodyOf o n now src data tail).1.node.peers.map (·.1)) :=
  handleNet_schedStep env bodyOf o n now src data tail

/-- in particular the schedule is never pushed back by a datagram -/
theorem datagram_never_delays_schedule (env : CryptoEnv) (bodyOf : Init.BodyOf) (o : Oracle) (n : Node) (now : Int) (src : NAddr) (data tail : Bytes) :
    (handleNet env bodyOf o n now src data tail).1.node.nextPeers ≤ n.nextPeers := by
  rcases handshake_schedule env bodyOf o n now src data tail with ⟨h, _⟩ | ⟨h, _⟩
  · rw [h]; exact Int.le_refl _
  · rw [h]; exact Int.min_le_left _ _

/-- every datagram that is not a handshake datagram (first byte other than `0xff`: data, node information, keepalive, close, rotation,
    garbage) leaves the announcement schedule unchanged -/
theorem plain_datagram_keeps_schedule (env : CryptoEnv) (bodyOf : Init.BodyOf) (o : Oracle) (n : Node) (now : Int) (src : NAddr) (data tail : Bytes)
    (hplain : data.head? ≠ some Generated.INIT_MESSAGE_FIRST_BYTE) :
    (handleNet env bodyOf o n now src data tail).1.node.nextPeers = n.nextPeers :=
  handleNet_nextPeers_plain env bodyOf o n now src data tail hplain

/-- **new_peer_announced_next_tick**: if handling a datagram at time `now` adds the peer `a` (not a peer before, a peer after), then `a`
    is the sender, the announcement is due afterwards (`next_peers ≤ now`), and therefore the next housekeeping tick — at any time
    `t ≥ now`, as long as no other tick came first — (1) schedules the following announcement `d` seconds ahead with `d ≤ 1` or `d`
    strictly below the timeout advertised by every peer left after the tick, `a` included (the interval is computed from the peer list
    that contains `a`, `C15.interval_safe`), and (2) sends the node information to every peer left after the tick whose session can
    seal, `a` included (for pairwise distinct peer addresses). -/
theorem new_peer_announced_next_tick (env : CryptoEnv) (bodyOf : Init.BodyOf) (o : Oracle) (n : Node) (now : Int) (src : NAddr)
    (data tail : Bytes) (a : NAddr) (hbefore : a ∉ n.peers.map (·.1))
    (hafter : a ∈ (handleNet env bodyOf o n now src data tail).1.node.peers.map (·.1)) :
    a = mappedAddr src ∧ (handleNet env bodyOf o n now src data tail).1.node.nextPeers ≤ now ∧
    ∀ (o' : Oracle) (t : Int), now ≤ t →
      (∃ d : Nat, (housekeep env o' (handleNet env bodyOf o n now src data tail).1.node t).node.nextPeers = t + d ∧
        (d ≤ 1 ∨ ∀ b p, (b, p) ∈ (housekeep env o' (handleNet env bodyOf o n now src data tail).1.node t).node.peers → d < p.peerTimeout)) ∧
      (((handleNet env bodyOf o n now src data tail).1.node.peers.map (·.1)).Nodup →
        ∀ b p, (b, p) ∈ (housekeep env o' (handleNet env bodyOf o n now src data tail).1.node t).node.peers → canSeal p.crypto →
          ∃ p3, lookupA (preAnnounce env o' (handleNet env bodyOf o n now src data tail).1.node t).node.peers b = some p3 ∧
            Sent Generated.MESSAGE_TYPE_NODE_INFO
              (Codec.encodeNodeInfo (createNodeInfo (preAnnounce env o' (handleNet env bodyOf o n now src data tail).1.node t).node)) b p3 p
              (housekeep env o' (handleNet env bodyOf o n now src data tail).1.node t).outs
              (housekeep env o' (handleNet env bodyOf o n now src data tail).1.node t).log) := by
  have hsrc : a = mappedAddr src := by
    rcases handleNet_keysSub env bodyOf o n now src data tail a hafter with h | h
    · exact absurd h hbefore
    · exact h
  have hdue : (handleNet env bodyOf o n now src data tail).1.node.nextPeers ≤ now := by
    rcases handshake_schedule env bodyOf o n now src data tail with ⟨_, h⟩ | ⟨h, _⟩
    · exact absurd (h a hafter) hbefore
    · rw [h]; exact Int.min_le_right _ _
  refine ⟨hsrc, hdue, fun o' t ht => ⟨?_, fun hnd b p hmem hseal => ?_⟩⟩
  · exact housekeep_schedules_safe env o' _ t (Int.le_trans hdue ht)
  · exact announce_reaches_every_peer env o' _ t (Int.le_trans hdue ht) hnd b p hmem hseal

/-- the delay chosen at that tick, for the new peer itself, in the form the timed argument uses (`SafeDelays`) -/
theorem new_peer_delay_safe (env : CryptoEnv) (bodyOf : Init.BodyOf) (o : Oracle) (n : Node) (now : Int) (src : NAddr)
    (data tail : Bytes) (a : NAddr) (hbefore : a ∉ n.peers.map (·.1))
    (hafter : a ∈ (handleNet env bodyOf o n now src data tail).1.node.peers.map (·.1))
    (o' : Oracle) (t : Int) (ht : now ≤ t) (p : Peer)
    (hmem : (a, p) ∈ (housekeep env o' (handleNet env bodyOf o n now src data tail).1.node t).node.peers) :
    t ≤ (housekeep env o' (handleNet env bodyOf o n now src data tail).1.node t).node.nextPeers ∧
    ((housekeep env o' (handleNet env bodyOf o n now src data tail).1.node t).node.nextPeers - t ≤ 1 ∨
     (housekeep env o' (handleNet env bodyOf o n now src data tail).1.node t).node.nextPeers - t < p.peerTimeout) :=
  housekeep_delay_safe_for_peer env o' _ t
    (Int.le_trans (new_peer_announced_next_tick env bodyOf o n now src data tail a hbefore hafter).2.1 ht) a p hmem

/-- the invariant holds right after R stored S iff S's pending announcement is not later than R's new expiry (or due within a second);
    since S's `add_new_peer` makes it due at once this is always the case (`tinv_after_join`) -/
theorem tinv_after_handshake (T : Nat) (hT : 1 ≤ T) (t next : Int) :
    TInv { t := t, next := next, expiry := t + T } ↔ (next ≤ t + 1 ∨ next ≤ t + T) := by
  unfold TInv
  simp only []
  constructor
  · exact fun h => h.2
  · exact fun h => ⟨by omega, h⟩

/-! ## 5. configured peers are retried forever -/

/-- the bookkeeping of one reconnect entry in a tick: same addresses, back-off at most the larger of the old value and one hour,
    next attempt no later than the larger of the old date and one hour from now -/
theorem rcUpdate_spec (peers : List (NAddr × Peer)) (now : Int) (e : Reconnect) :
    (rcUpdate peers now e).resolved = e.resolved ∧
    (rcUpdate peers now e).timeout ≤ max e.timeout Generated.MAX_RECONNECT_INTERVAL ∧
    (rcUpdate peers now e).next ≤ max e.next (now + Generated.MAX_RECONNECT_INTERVAL) :=
  ⟨rcUpdate_resolved peers now e, rcUpdate_timeout peers now e, rcUpdate_next peers now e⟩

theorem map_rcUpdate_spec (peers : List (NAddr × Peer)) (now : Int) (l : List Reconnect) :
    (l.map (rcUpdate peers now)).map (·.resolved) = l.map (·.resolved) ∧
    ∀ (i : Nat) (e' : Reconnect), (l.map (rcUpdate peers now))[i]? = some e' →
      ∃ e : Reconnect, l[i]? = some e ∧ e'.resolved = e.resolved ∧
        e'.timeout ≤ max e.timeout Generated.MAX_RECONNECT_INTERVAL ∧
        e'.next ≤ max e.next (now + Generated.MAX_RECONNECT_INTERVAL) := by
  refine ⟨?_, ?_⟩
  · rw [List.map_map]
    apply List.map_congr_left
    intro e _
    exact rcUpdate_resolved peers now e
  · intro i e' h
    rw [List.getElem?_map] at h
    cases hi : l[i]? with
    | none => rw [hi] at h; cases h
    | some e =>
      rw [hi] at h
      cases h
      exact ⟨e, rfl, rcUpdate_spec peers now e⟩

/-- **reconnect_forever** (`reconnect_to_peers`): no entry of the reconnect list is ever dropped or added and the addresses of each entry
    stay; position by position the back-off stays at most `max old 3600` and the next attempt is due no later than `max old (now + 3600)` -/
theorem reconnect_forever (env : CryptoEnv) (o : Oracle) (c : Ctx) (now : Int) :
    (reconnectToPeers env o c now).node.reconnect.map (·.resolved) = c.node.reconnect.map (·.resolved) ∧
    ∀ (i : Nat) (e' : Reconnect), (reconnectToPeers env o c now).node.reconnect[i]? = some e' →
      ∃ e : Reconnect, c.node.reconnect[i]? = some e ∧ e'.resolved = e.resolved ∧
        e'.timeout ≤ max e.timeout Generated.MAX_RECONNECT_INTERVAL ∧
        e'.next ≤ max e.next (now + Generated.MAX_RECONNECT_INTERVAL) := by
  rw [reconnectToPeers_reconnect]
  exact map_rcUpdate_spec _ now _

/-- the reconnect list after a whole housekeeping tick: entry by entry the bookkeeping of `rcUpdate`, with the peers left after the tick -/
theorem housekeep_reconnect (env : CryptoEnv) (o : Oracle) (n : Node) (now : Int) :
    (housekeep env o n now).node.reconnect = n.reconnect.map (rcUpdate (housekeep env o n now).node.peers now) := by
  have hp : (housekeep env o n now).node.peers = (preReconnect env o n now).node.peers := by
    rw [housekeep_eq'', hkOwn_peers, reconnectToPeers_peers]
  rw [hp, housekeep_eq'', hkOwn_reconnect, reconnectToPeers_reconnect, (preReconnect_reconnect_own env o n now).1]

/-- **reconnect_forever** for the whole tick -/
theorem housekeep_reconnect_forever (env : CryptoEnv) (o : Oracle) (n : Node) (now : Int) :
    (housekeep env o n now).node.reconnect.map (·.resolved) = n.reconnect.map (·.resolved) ∧
    ∀ (i : Nat) (e' : Reconnect), (housekeep env o n now).node.reconnect[i]? = some e' →
      ∃ e : Reconnect, n.reconnect[i]? = some e ∧ e'.resolved = e.resolved ∧
        e'.timeout ≤ max e.timeout Generated.MAX_RECONNECT_INTERVAL ∧
        e'.next ≤ max e.next (now + Generated.MAX_RECONNECT_INTERVAL) := by
  rw [housekeep_reconnect]
  exact map_rcUpdate_spec _ now _

/-- **due entries are dialled** (`reconnect_to_peers`): an entry that is due, none of whose addresses (in mapped form) is an own address, a
    peer or pending, and which shares no address with a due entry before it in the list, is dialled — the step emits a handshake
    datagram (first byte `0xff`) to each of its resolved addresses -/
theorem reconnect_dials (env : CryptoEnv) (o : Oracle) (c : Ctx) (now : Int) (pre post : List Reconnect) (e : Reconnect)
    (hsplit : c.node.reconnect = pre ++ e :: post) (hdue : e.next ≤ now)
    (hfresh : ∀ a ∈ e.resolved, c.node.own.contains (mappedAddr a) = false ∧ lookupA c.node.peers (mappedAddr a) = none ∧
      lookupA c.node.pending (mappedAddr a) = none)
    (hpre : ∀ e' ∈ pre, e'.next ≤ now → ∀ a ∈ e.resolved, ∀ a' ∈ e'.resolved, mappedAddr a ≠ mappedAddr a') :
    ∃ ex, (reconnectToPeers env o c now).outs = c.outs ++ ex ∧ ∀ a ∈ e.resolved, HsTo (mappedAddr a) ex :=
  rcDial_dials env o c now pre post e hsplit hdue hfresh hpre

/-- **due entries are dialled** (whole tick): an entry of the reconnect list that is due at the tick, none of whose addresses is an own
    address, the address of a peer or of a pending handshake before the tick (`hfresh`; the last conjunct only matters for peer
    addresses stored in unmapped IPv4 form, which the node never does), and which shares no address with a due entry before it,
    is sent a handshake datagram at each of its resolved addresses in this tick -/
theorem housekeep_dials (env : CryptoEnv) (o : Oracle) (n : Node) (now : Int) (pre post : List Reconnect) (e : Reconnect)
    (hsplit : n.reconnect = pre ++ e :: post) (hdue : e.next ≤ now)
    (hfresh : ∀ a ∈ e.resolved, n.own.contains (mappedAddr a) = false ∧ mappedAddr a ∉ n.peers.map (·.1) ∧
      mappedAddr a ∉ n.pending.map (·.1) ∧ mappedAddr a ∉ (n.peers.map (·.1)).map mappedAddr)
    (hpre : ∀ e' ∈ pre, e'.next ≤ now → ∀ a ∈ e.resolved, ∀ a' ∈ e'.resolved, mappedAddr a ≠ mappedAddr a') :
    ∀ a ∈ e.resolved, HsTo (mappedAddr a) (housekeep env o n now).outs := by
  obtain ⟨hrc, hown⟩ := preReconnect_reconnect_own env o n now
  have hP : PendP (fun b => b ∈ n.pending.map (·.1) ∨ b ∈ (n.peers.map (·.1)).map mappedAddr) (preReconnect env o n now) :=
    preReconnect_pendP env o _ n now ⟨fun b hb => Or.inl hb, fun b hb => Or.inr (List.mem_map.2 ⟨b, hb, rfl⟩)⟩
  have hkeys : ∀ b, b ∈ (preReconnect env o n now).node.peers.map (·.1) → b ∈ n.peers.map (·.1) := by
    intro b hb
    have hp : (housekeep env o n now).node.peers = (preReconnect env o n now).node.peers := by
      rw [housekeep_eq'', hkOwn_peers, reconnectToPeers_peers]
    rw [← hp] at hb
    obtain ⟨x, hx, rfl⟩ := List.mem_map.1 hb
    obtain ⟨p0, h0, _⟩ := C15Node.housekeep_removes_expired env o n now x.1 x.2 hx
    exact mem_key h0
  obtain ⟨ex, ho, h⟩ := reconnect_dials env o (preReconnect env o n now) now pre post e (hrc.trans hsplit) hdue
    (by
      intro a ha
      obtain ⟨h1, h2, h3, h4⟩ := hfresh a ha
      refine ⟨by rw [hown]; exact h1, ?_, ?_⟩
      · rw [lookupA_none_iff]; exact fun hm => h2 (hkeys _ hm)
      · rw [lookupA_none_iff]
        intro hm
        rcases hP.1 _ hm with hk | hk
        · exact h3 hk
        · exact h4 hk)
    hpre
  intro a ha
  rw [housekeep_eq'', hkOwn_outs, ho]
  exact (h a ha).mono (fun x hx => List.mem_append_right _ hx)

/-! ## non-vacuity -/
section Examples
open VpnCloud.Proofs.InitLemmas

private def s1 : NAddr := .v6 (List.replicate 16 0) 1
private def s2 : NAddr := .v6 (List.replicate 16 0) 2
private def cfg0 : NodeCfg :=
  { tap := false, learning := false, broadcast := false, peerTimeout := 300, peerTimeoutPublish := 300, updateFreq := 10,
    claims := [], key := [7, 7, 7, 7], trusted := [[9, 9, 9, 9]], algos := Toy.algos }
private def o0 : Oracle := { emitted := fun _ _ => [], rotProp := fun _ => 0, rotPend := fun _ => 0, starts := fun _ => [] }
private def p1 : Peer :=
  { addrs := [], timeout := 1000, peerTimeout := 300, nodeId := List.replicate 16 1, crypto := { init := none, unencrypted := true } }
/-- a node with one established peer `s1` (session in unencrypted mode), an announcement that has been due since second 50 and a
    configured peer `s2` whose next attempt has been due since second 90 -/
private def nA : Node :=
  { nodeId := List.replicate 16 9, addr := .v6 (List.replicate 16 0) 3, cfg := cfg0, table := { cacheTimeout := 300, claimTimeout := 300 },
    peers := [(s1, p1)], nextPeers := 50, reconnect := [{ resolved := [s2], next := 90 }] }

/-- theorem 1: the announcement is due at second 100 and is rescheduled 10 s ahead (`min 10 (max (300 / 2 - 60) 1)`) -/
example : nA.nextPeers ≤ 100 ∧ (housekeep Toy.env o0 nA 100).node.nextPeers = 110 := by decide

/-- theorem 2: all hypotheses of `announce_reaches_every_peer` hold of `nA` at second 100 for the peer `s1` -/
example : nA.nextPeers ≤ 100 ∧ (nA.peers.map (·.1)).Nodup ∧
    ∃ p, (s1, p) ∈ (housekeep Toy.env o0 nA 100).node.peers ∧ canSeal p.crypto := by
  refine ⟨by decide, by decide, ?_⟩
  have h : (lookupA (housekeep Toy.env o0 nA 100).node.peers s1).isSome = true := by decide
  cases hl : lookupA (housekeep Toy.env o0 nA 100).node.peers s1 with
  | none => rw [hl] at h; cases h
  | some p =>
    refine ⟨p, lookupA_some_mem hl, Or.inl ?_⟩
    have h2 : (lookupA (housekeep Toy.env o0 nA 100).node.peers s1).map (·.crypto.unencrypted) = some true := by decide
    rw [hl] at h2
    simpa using h2

/-- … and the tick emits the announcement to `s1` (type byte 1) and a handshake datagram to `s2` -/
example : (housekeep Toy.env o0 nA 100).outs.map (fun x => match x with | .dgram d b => (some d, b.head?) | .iface _ => (none, none)) =
    [(some s1, some Generated.MESSAGE_TYPE_NODE_INFO), (some s2, some Generated.INIT_MESSAGE_FIRST_BYTE)] := by decide

/-- theorem 3: a keepalive (`[2]`) from `s1` meets `FromPeer`, and the expiry becomes `100 + 300` -/
example : FromPeer Toy.env (fun _ => .garbage 0) o0 nA s1 [2] [] p1 p1.crypto Generated.MESSAGE_TYPE_KEEPALIVE [] :=
  ⟨rfl, by decide, [], [], rfl⟩
example : (lookupA (handleNet Toy.env (fun _ => .garbage 0) o0 nA 100 s1 [2] []).1.node.peers s1).map (·.timeout) = some 400 := by decide
/-- … while a data message (type byte 0, an IPv4 packet) leaves it at 1000 -/
example : (lookupA (handleNet Toy.env (fun _ => .garbage 0) o0 nA 100 s1
    (0 :: 69 :: (List.replicate 11 0 ++ [10, 0, 0, 1, 10, 0, 0, 2])) []).1.node.peers s1).map (·.timeout) = some 1000 := by decide

/-- theorem 5: the hypotheses of `housekeep_dials` hold of `nA` at second 100 for its (only) reconnect entry -/
example : nA.reconnect = [] ++ { resolved := [s2], next := 90 } :: [] ∧ (90 : Int) ≤ 100 ∧
    (∀ a ∈ [s2], nA.own.contains (mappedAddr a) = false ∧ mappedAddr a ∉ nA.peers.map (·.1) ∧
      mappedAddr a ∉ nA.pending.map (·.1) ∧ mappedAddr a ∉ (nA.peers.map (·.1)).map mappedAddr) := by
  refine ⟨rfl, by decide, by decide⟩

/-- `expired_peer_redialled`: the same node with the expiry of `s1` in the past meets all hypotheses at second 100 -/
private def nB : Node := { nA with peers := [(s1, { p1 with timeout := 50 })] }
example : (nB.peers.map (·.1)).Nodup ∧ (∀ b ∈ nB.peers.map (·.1), mappedAddr b = b) ∧
    lookupA nB.peers s1 = some { p1 with timeout := 50 } ∧ ({ p1 with timeout := 50 } : Peer).timeout < 100 ∧
    nB.own.contains s1 = false ∧ lookupA nB.pending s1 = none :=
  ⟨by decide, by decide, rfl, by decide, by decide, rfl⟩

/-- `FromPeer` for the data message above -/
example : FromPeer Toy.env (fun _ => .garbage 0) o0 nA s1 (0 :: 69 :: (List.replicate 11 0 ++ [10, 0, 0, 1, 10, 0, 0, 2])) [] p1 p1.crypto
    Generated.MESSAGE_TYPE_DATA (69 :: (List.replicate 11 0 ++ [10, 0, 0, 1, 10, 0, 0, 2])) :=
  ⟨rfl, by decide, [], [], rfl⟩

/-- `announced_timeout_decodes`: the node information `nA` announces at second 100 is well-formed -/
example : VpnCloud.Spec.C16.WF (createNodeInfo (preAnnounce Toy.env o0 nA 100).node) = true := by decide

/-- `reconnect_dials`: the hypotheses hold of `nA` itself at second 100 -/
example : ({ node := nA } : Ctx).node.reconnect = [] ++ { resolved := [s2], next := 90 } :: [] ∧ (90 : Int) ≤ 100 ∧
    (∀ a ∈ [s2], nA.own.contains (mappedAddr a) = false ∧ lookupA nA.peers (mappedAddr a) = none ∧
      lookupA nA.pending (mappedAddr a) = none) := by
  refine ⟨rfl, by decide, ?_⟩
  intro a ha
  rw [List.mem_singleton.1 ha]
  exact ⟨by decide, rfl, rfl⟩

/-- `silent_removed_node`: `nA` has pairwise distinct peer addresses and `s1` is a peer; `silent_removed`: a state before its expiry -/
example : (nA.peers.map (·.1)).Nodup ∧ lookupA nA.peers s1 = some p1 := ⟨by decide, rfl⟩
example : ({ t := 100, next := 110, expiry := 400 } : TState).t ≤ ({ t := 100, next := 110, expiry := 400 } : TState).expiry := by decide

/-- `handshake_sets_expiry`: a context with a pending handshake for `s2` -/
example : lookupA ({ node := { nA with pending := [(s2, { init := none, unencrypted := true })] } } : Ctx).node.pending s2 =
    some { init := none, unencrypted := true } := rfl

/-- the hypothesis `hpre` of `reconnect_dials` / `housekeep_dials` is needed: a second due entry that shares the address `s2` with an
    earlier due entry is skipped as a whole (`connect` returns when any address is already pending), so its other address
    (port 4) is not dialled in this tick -/
example : (housekeep Toy.env o0 { nA with reconnect := [{ resolved := [s2], next := 90 },
      { resolved := [s2, .v6 (List.replicate 16 0) 4], next := 90 }] } 100).outs.map
      (fun x => match x with | .dgram d _ => some d | .iface _ => none) = [some s1, some s2] := by decide

/-- the situation that made a healthy node expire before the fix, at node level: a node without peers and with the default keepalive
    (`update_freq = 90` for `peer_timeout = 300`) schedules its next announcement 90 s ahead (`min 90 (max (300 / 2 - 60) 1)`) … -/
example : (housekeep Toy.env o0 { nA with peers := [], reconnect := [], nextPeers := 0, cfg := { cfg0 with updateFreq := 90 } } 0).node.nextPeers = 90 := by
  decide

/-! `new_peer_announced_next_tick`: a node with one established peer `s1`, a pending handshake with `s2` and the next announcement
    scheduled for second 5000 receives, at second 100, the genuine pong of `s2`, which advertises a timeout of 30 s -/
private def cfgH : NodeCfg := { cfg0 with trusted := [[9, 9, 9, 9], [7, 7, 7, 7]], algos := Toy.algosPlain }
private def istH : InitSt := { Toy.st with nodeId := List.replicate 16 9, trusted := cfgH.trusted, algos := Toy.algosPlain }
private def nH : Node :=
  { nodeId := List.replicate 16 9, addr := .v6 (List.replicate 16 0) 3, cfg := cfgH, table := { cacheTimeout := 300, claimTimeout := 300 },
    peers := [(s1, p1)], pending := [(s2, { init := some istH })], nextPeers := 5000 }
private def infoH : NodeInfo := { nodeId := List.replicate 16 2, peers := [], claims := [], peerTimeout := some 30, addrs := [] }
private def pongH : Bytes :=
  Generated.INIT_MESSAGE_FIRST_BYTE ::
    InitMsg.writeTo (.pong (List.replicate 20 2) [6] Toy.algosPlain (Codec.encodeNodeInfo infoH)) [0, 0, 0, 1] [9, 9, 9, 9] [9, 9, 0, 0]
private def nH' : Node := (handleNet Toy.env (Toy.body 0) o0 nH 100 s2 pongH []).1.node

/-- the hypotheses hold (`s2` is not a peer before and is one after), the schedule drops from 5000 to 100, the new record has the
    expiry `100 + 300` and the advertised timeout 30 … -/
example : s2 ∉ nH.peers.map (·.1) ∧ s2 ∈ nH'.peers.map (·.1) ∧ nH.nextPeers = 5000 ∧ nH'.nextPeers = 100 ∧
    (nH'.peers.map (·.1)).Nodup ∧ (lookupA nH'.peers s2).map (fun p => (p.timeout, p.peerTimeout)) = some (400, 30) := by
  decide +kernel

/-- … and the tick of second 100 announces to both peers and schedules the next announcement one second ahead
    (`min 10 (max (30 / 2 - 60) 1) = 1`, computed with the timeout of the new peer) -/
example : (housekeep Toy.env o0 nH' 100).node.nextPeers = 101 ∧
    (housekeep Toy.env o0 nH' 100).outs.map (fun x => match x with | .dgram d b => (some d, b.head?) | .iface _ => (none, none)) =
      [(some s1, some Generated.MESSAGE_TYPE_NODE_INFO), (some s2, some Generated.MESSAGE_TYPE_NODE_INFO)] := by
  decide +kernel

/-- `handshake_pulls_schedule`: the context of `handshake_sets_expiry` above; `plain_datagram_keeps_schedule`: the keepalive `[2]` -/
example : ([2] : Bytes).head? ≠ some Generated.INIT_MESSAGE_FIRST_BYTE := by decide

end Examples
end VpnCloud.Proofs.C15More
