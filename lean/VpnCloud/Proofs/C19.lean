import VpnCloud.Model.Payload
import VpnCloud.Spec.C19
/-
  C19 — Address dissection of frames and packets is exact and total.
  Property theorems only.
-/
namespace VpnCloud.Proofs.C19

open VpnCloud VpnCloud.Payload VpnCloud.Spec.C19

/-- forget the error class -/
def toOpt {ε α} : Except ε α → Option α
  | .ok a => some a
  | .error _ => none

@[simp] theorem toOpt_ok {ε α} (a : α) : toOpt (.ok a : Except ε α) = some a := rfl
@[simp] theorem toOpt_error {ε α} (e : ε) : toOpt (.error e : Except ε α) = none := rfl
theorem toOpt_ite {ε α} (c : Prop) [Decidable c] (a b : Except ε α) :
    toOpt (if c then a else b) = if c then toOpt a else toOpt b := by split <;> rfl

theorem readExact_eq (n : Nat) (r : Bytes) :
    readExact n r = if n ≤ r.length then some (r.take n, r.drop n) else none := rfl

/-- **frame_exact**: on every byte string the model dissector (which mirrors the cursor reads of
    `Frame::parse`) returns exactly what the reference dissector returns: same accept/reject
    decision and the same address pair. -/
theorem frame_exact (b : Bytes) (hb : Bytes.WF b) :
    toOpt (frameParse b) = frameRef b := by
  iterate 16
    rcases b with _ | ⟨x, b⟩
    · simp [frameParse, frameRef, readExact, slice, toOpt_ite]
  rename_i b0 b1 b2 b3 b4 b5 b6 b7 b8 b9 b10 b11 b12 b13 b14
  simp only [Bytes.wf_cons] at hb
  have h1 : ¬ (b.length + 1 + 1 + 1 + 1 + 1 + 1 + 1 + 1 + 1 + 1 + 1 + 1 + 1 + 1 + 1 + 1 < 14) := by omega
  have h2 : ¬ (b.length + 1 + 1 + 1 + 1 + 1 + 1 + 1 + 1 + 1 + 1 + 1 + 1 + 1 + 1 + 1 + 1 < 16) := by omega
  simp [frameParse, frameRef, readExact, slice, toOpt_ite, h1, h2]
  by_cases hp : b12 = 129 ∧ b13 = 0
  · simp only [hp, and_self, if_true]
    by_cases hz : b14 % 16 = 0 ∧ x = 0
    · simp [hz]; omega
    · have : ¬ (b14 * 256 + x) % 4096 = 0 := by omega
      have e1 : (b14 * 256 + x) % 4096 / 256 = b14 % 16 := by omega
      have e2 : x % 256 = x := by omega
      simp [hz, this, e1, e2]
  · simp [hp]

/-- the model never takes the panic-free `Except` into an unexpected class: rejection happens
    exactly for the two "too short" reasons -/
theorem frame_reject_iff (b : Bytes) :
    frameRef b = none ↔ (b.length < 14 ∨ (Spec.C19.slice b 12 14 = [0x81, 0x00] ∧ b.length < 16)) := by
  unfold frameRef
  by_cases h : b.length < 14
  · simp [h]
  · simp only [h, if_false, false_or]
    by_cases hp : Spec.C19.slice b 12 14 = [0x81, 0x00]
    · simp only [hp, if_true, true_and]
      by_cases h16 : b.length < 16
      · simp [h16]
      · simp only [h16, if_false, iff_false]
        split <;> simp
    · simp [hp]

theorem readFromFixed_ok (r : Bytes) (n : Nat) (h16 : n ≤ 16) (h : n ≤ r.length) :
    readFromFixed r n = .ok (r.take n) := by
  unfold readFromFixed readExact
  have : ¬ n > 16 := by omega
  simp only [this, h, if_true, if_false]

/-- **packet_exact**: the IP dissector agrees with the reference on every byte string. -/
theorem packet_exact (b : Bytes) : toOpt (packetParse b) = packetRef b := by
  unfold packetParse packetRef
  cases b with
  | nil => rfl
  | cons b0 rest =>
    simp only []
    by_cases h4 : b0 / 16 = 4
    · simp only [h4, if_true]
      by_cases hl : (b0 :: rest).length < 20
      · simp only [hl, if_true, toOpt_error]
      · have l1 : 4 ≤ ((b0 :: rest).drop 12).length := by rw [List.length_drop]; omega
        have l2 : 4 ≤ ((b0 :: rest).drop 16).length := by rw [List.length_drop]; omega
        simp only [hl, if_false, readFromFixed_ok _ 4 (by omega) l1, readFromFixed_ok _ 4 (by omega) l2,
          bind, Except.bind, pure, Except.pure, toOpt_ok, slice]
    · by_cases h6 : b0 / 16 = 6
      · simp only [h6, if_true]
        have : ¬ (6 = 4) := by decide
        simp only [this, if_false]
        by_cases hl : (b0 :: rest).length < 40
        · simp only [hl, if_true, toOpt_error]
        · have l1 : 16 ≤ ((b0 :: rest).drop 8).length := by rw [List.length_drop]; omega
          have l2 : 16 ≤ ((b0 :: rest).drop 24).length := by rw [List.length_drop]; omega
          simp only [hl, if_false, readFromFixed_ok _ 16 (by omega) l1, readFromFixed_ok _ 16 (by omega) l2,
            bind, Except.bind, pure, Except.pure, toOpt_ok, slice]
      · simp only [h4, h6, if_false, toOpt_error]

/-- **only_header_bytes** (frame): the result is a function of the first 16 bytes and of whether
    the string has at least 14 / 16 bytes. -/
theorem frame_only_header (b t : Bytes) (h : 16 ≤ b.length) :
    frameRef (b ++ t) = frameRef b := by
  unfold frameRef slice
  have e : ∀ i, i < 16 → (b ++ t).getD i 0 = b.getD i 0 := by
    intro i hi
    simp only [List.getD_eq_getElem?_getD]
    rw [List.getElem?_append_left (by omega)]
  have d : ∀ i n, i + n ≤ 16 → ((b ++ t).drop i).take n = (b.drop i).take n := by
    intro i n hin
    rw [List.drop_append_of_le_length (by omega), List.take_append_of_le_length]
    simp only [List.length_drop]; omega
  have hl : ¬ (b ++ t).length < 14 := by simp only [List.length_append]; omega
  have hl' : ¬ (b ++ t).length < 16 := by simp only [List.length_append]; omega
  have hb : ¬ b.length < 14 := by omega
  have hb' : ¬ b.length < 16 := by omega
  simp only [hl, hl', hb, hb', if_false, d 0 6 (by omega), d 6 6 (by omega), d 12 2 (by omega),
    e 14 (by omega), e 15 (by omega), Nat.sub_zero, Nat.reduceSub]

/-- non-vacuity / sanity: the in-tree VLAN example and the VLAN-0 fold -/
example : frameRef [6,5,4,3,2,1, 1,2,3,4,5,6, 0x81,0, 4,210, 1,2,3] =
    some ([4,210,1,2,3,4,5,6], [4,210,6,5,4,3,2,1]) := by decide
example : frameRef [6,5,4,3,2,1, 1,2,3,4,5,6, 0x81,0, 0xe0,0, 1,2,3] =
    some ([1,2,3,4,5,6], [6,5,4,3,2,1]) := by decide
example : toOpt (frameParse [6,5,4,3,2,1, 1,2,3,4,5,6, 0x81,0, 0xe0,0, 1,2,3]) =
    some ([1,2,3,4,5,6], [6,5,4,3,2,1]) := by decide

end VpnCloud.Proofs.C19
