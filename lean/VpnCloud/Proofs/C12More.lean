import VpnCloud.Model.Node
import VpnCloud.Proofs.Lemmas.C12MoreLemmas
import VpnCloud.Proofs.C12Node
import VpnCloud.Proofs.C11Node
import VpnCloud.Proofs.C15More
import VpnCloud.Proofs.C09More
/-
  C12 at node level, step by step (and the drop / flood clause of C11):

  1. every way a peer leaves the peer list takes its routes along — expiry (`timeout_removes_routes`), a CLOSE message
     (`close_removes_routes`), a session that fails in `every_second` (`failed_session_removes_routes`, the repaired defect
     F-C12b), a completed handshake that replaces the record (`superseding_handshake_replaces_claims`) — each proved
     directly from the step, not via the global invariant; and conversely a peer address only leaves by one of these
     paths (`peers_only_leave_by_net / _tick / _connect / _iface`, summary `peers_only_leave_by`);
  2. announcements at node level (`announcement_sets_claims`, `keepalive_keeps_claims`, `claims_expire_node`);
  3. a lookup hit is sent to a peer, or not sent only because the session cannot seal
     (`lookup_hit_is_sent_or_unsealable`);
  4. counting of dropped frames (`router_drop_counts`, `flood_not_counted`, `unparseable_ignored`).

  All table statements need `0 < now`: `remove_claims` / `set_claims` mark entries with the expiry `0` and sweep, which
  removes them only at a time after `0` (`TableRefine.refinement_fails_at_zero`, `needs_positive_time` below).
-/
namespace VpnCloud.Proofs.C12More

open VpnCloud VpnCloud.Node
open VpnCloud.Proofs.NodeLemmas VpnCloud.Proofs.NodeLemmas2 VpnCloud.Proofs.NodeInvLemmas
open VpnCloud.Proofs.C12MoreLemmas
open VpnCloud.Proofs.C15MoreLemmas (canSeal handleNet_established lookupA_insertA_ne)
open VpnCloud.Proofs.C15More (FromPeer peers_after_message)
open VpnCloud.Proofs.C09More (newPeerRecord)
open VpnCloud.Spec.TableSpec (announceOk)

/-! ## 1. removal paths -/

/-- **timeout_removes_routes**: when housekeeping finds a peer record of `a` whose expiry has passed, then at the end of the tick `a` is
    no peer address any more and the routing table holds no claim and no cached / learned decision for `a` — the node cannot select the
    timed-out peer as next hop. -/
theorem timeout_removes_routes (env : CryptoEnv) (o : Oracle) (n : Node) (now : Int) (hnow : 0 < now) (a : NAddr) (p : Peer)
    (hp : (a, p) ∈ n.peers) (hexp : p.timeout < now) :
    a ∉ (housekeep env o n now).node.peers.map (·.1) ∧ NoRoutes (addrId a) (housekeep env o n now).node.table := by
  have h1 : Gone a (hkDead env o n now) := by
    rw [C15MoreLemmas.hkDead_eq]
    apply deadFold_gone env o now hnow a
    left
    exact List.mem_map.2 ⟨(a, p), List.mem_filter.2 ⟨hp, by simpa using hexp⟩, rfl⟩
  rw [housekeep_eq]
  exact h1.of_shrinks (hkRest_shrinks env o now hnow _)

/-- the routing table after a message of type `ty` from the established peer `src` (companion of `C15More.peers_after_message`) -/
theorem table_after_message {env : CryptoEnv} {bodyOf : Init.BodyOf} {o : Oracle} {n : Node} {src : NAddr} {data tail : Bytes}
    {p : Peer} {pc : PeerCrypto} {ty : Nat} {body : Bytes} (h : FromPeer env bodyOf o n src data tail p pc ty body) (now : Int) :
    (handleNet env bodyOf o n now src data tail).1.node.table =
      if ty = Generated.MESSAGE_TYPE_DATA then
        match parseAddrs n body with
        | some (sa, _) => if n.cfg.learning then n.table.learn now sa (addrId (mappedAddr src)) else n.table
        | none => n.table
      else if ty = Generated.MESSAGE_TYPE_NODE_INFO then
        match Codec.decodeNodeInfo body with
        | some i => n.table.setClaims now (addrId (mappedAddr src)) i.claims
        | none => n.table
      else if ty = Generated.MESSAGE_TYPE_KEEPALIVE then n.table
      else if ty = Generated.MESSAGE_TYPE_CLOSE then n.table.removeClaims now (addrId (mappedAddr src))
      else n.table := by
  obtain ⟨out, log, hm⟩ := h.opened
  rw [handleNet_established env bodyOf o n now src data tail p pc out _ log h.peer h.plain hm, finish_table]
  rw [handleResult_message_table env o _ now (mappedAddr src) ty body out { p with crypto := pc } (lookupA_insertA_self _ _ _)]
  rfl

/-- **close_removes_routes**: when an established peer sends a CLOSE message, its record is erased (`remove_peer`) and the table is the old
    one after `remove_claims` for its id: no claim and no cached decision names the peer that said goodbye. -/
theorem close_removes_routes {env : CryptoEnv} {bodyOf : Init.BodyOf} {o : Oracle} {n : Node} {src : NAddr} {data tail : Bytes}
    {p : Peer} {pc : PeerCrypto} {body : Bytes}
    (h : FromPeer env bodyOf o n src data tail p pc Generated.MESSAGE_TYPE_CLOSE body) (now : Int) (hnow : 0 < now) :
    (handleNet env bodyOf o n now src data tail).1.node.peers = eraseA n.peers (mappedAddr src) ∧
    (handleNet env bodyOf o n now src data tail).1.node.table = n.table.removeClaims now (addrId (mappedAddr src)) ∧
    mappedAddr src ∉ (handleNet env bodyOf o n now src data tail).1.node.peers.map (·.1) ∧
    NoRoutes (addrId (mappedAddr src)) (handleNet env bodyOf o n now src data tail).1.node.table := by
  have hpe : (handleNet env bodyOf o n now src data tail).1.node.peers = eraseA n.peers (mappedAddr src) := by
    rw [peers_after_message h now, if_neg (by decide), if_neg (by decide), if_pos rfl]
  have htb : (handleNet env bodyOf o n now src data tail).1.node.table = n.table.removeClaims now (addrId (mappedAddr src)) := by
    rw [table_after_message h now, if_neg (by decide), if_neg (by decide), if_neg (by decide), if_pos rfl]
  refine ⟨hpe, htb, ?_, ?_⟩
  · rw [hpe]
    exact fun ha => ((key_mem_eraseA_iff _ _ _).1 ha).2 rfl
  · rw [htb]
    exact removeClaims_noRoutes _ now hnow _

/-- observation: a CLOSE message can only be received over an ENCRYPTED session.  `MESSAGE_TYPE_CLOSE` and the handshake marker
    `INIT_MESSAGE_FIRST_BYTE` are both `0xff` (src/messages.rs, src/crypto/common.rs), so the one-byte CLOSE datagram of a plain session is
    taken for a (too short) handshake message; a plain peer that leaves is removed by its timeout only. -/
theorem close_needs_encrypted_session {env : CryptoEnv} {bodyOf : Init.BodyOf} {o : Oracle} {n : Node} {src : NAddr} {data tail : Bytes}
    {p : Peer} {pc : PeerCrypto} {body : Bytes}
    (h : FromPeer env bodyOf o n src data tail p pc Generated.MESSAGE_TYPE_CLOSE body) : p.crypto.unencrypted = false := by
  obtain ⟨out, log, hm⟩ := h.opened
  cases hu : p.crypto.unencrypted with
  | false => rfl
  | true =>
    exfalso
    have hpl := h.plain
    unfold PeerCrypto.handleMessage at hm
    cases data with
    | nil => cases hm
    | cons b0 rest =>
      have hb : ¬ b0 = Generated.INIT_MESSAGE_FIRST_BYTE := by
        intro hb; apply hpl; rw [hb]; rfl
      simp only [hb, if_false, hu, if_true] at hm
      split at hm
      · split at hm
        · cases hm
        · split at hm <;> cases hm
      · cases hm
        exact hb rfl

/-- **failed_session_removes_routes** (`crypto_housekeep`; the repaired defect F-C12b): a peer whose session fails in `every_second`
    (for some randomness, equivalently for every: `everySecond_err_indep`) is dropped together with its claims and cached decisions — at the end of `crypto_housekeep` its
    address is no peer address and the table holds nothing of its id. -/
theorem failed_session_removes_routes (env : CryptoEnv) (o : Oracle) (c : Ctx) (now : Int) (hnow : 0 < now) (a : NAddr) (p : Peer)
    (hp : lookupA c.node.peers a = some p) (hfail : ∃ rr pc' e, PeerCrypto.everySecond p.crypto rr = .err pc' e) :
    a ∉ (cryptoHousekeep env o c now).node.peers.map (·.1) ∧ NoRoutes (addrId a) (cryptoHousekeep env o c now).node.table :=
  cryptoHousekeep_gone env o now hnow c a p hp (everySecond_fails_all _ hfail)

/-- … and the same for the whole tick: if the session of the record found for `a` fails in `every_second`, then after `housekeep` the
    address is no peer and has no routes (whether the record had also expired or not). -/
theorem failed_session_removes_routes_tick (env : CryptoEnv) (o : Oracle) (n : Node) (now : Int) (hnow : 0 < now) (a : NAddr) (p : Peer)
    (hp : lookupA n.peers a = some p) (hfail : ∃ rr pc' e, PeerCrypto.everySecond p.crypto rr = .err pc' e) :
    a ∉ (housekeep env o n now).node.peers.map (·.1) ∧ NoRoutes (addrId a) (housekeep env o n now).node.table := by
  have hfail := everySecond_fails_all _ hfail
  rw [housekeep_eq]
  by_cases hd : a ∈ (n.peers.filter (fun (_, p) => Generated.peerExpired p.timeout now)).map (·.1)
  · have h1 : Gone a (hkDead env o n now) := by
      rw [C15MoreLemmas.hkDead_eq]
      exact deadFold_gone env o now hnow a _ _ (Or.inl hd)
    exact h1.of_shrinks (hkRest_shrinks env o now hnow _)
  · have hl : lookupA (hkSweep (hkDead env o n now) now).node.peers a = some p := by
      show lookupA (hkDead env o n now).node.peers a = some p
      unfold hkDead
      rw [C09MoreLemmas.deadFold_notin env o now a _ _ hd]
      exact hp
    exact (cryptoHousekeep_gone env o now hnow _ a p hl hfail).of_shrinks (hkTail_shrinks env o now _)

/-- **superseding_handshake_replaces_claims**: a handshake datagram from the address of an established peer is handled by the attempt `q`
    pending for that address; when `q` reports a completed handshake, the peer record is REPLACED by the new one (`newPeerRecord`: new
    session, fresh expiry) and the table is the old one after `set_claims` with the claims of the new node information: the ranges
    attributed to the address are exactly the newly announced ones — claims of the superseded record that the new peer does not announce
    are gone (together with the decisions cached for it), claims of other peers are only swept. -/
theorem superseding_handshake_replaces_claims (env : CryptoEnv) (bodyOf : Init.BodyOf) (o : Oracle) (n : Node) (now : Int) (hnow : 0 < now)
    (src : NAddr) (data tail : Bytes) (p : Peer) (q pc : PeerCrypto) (out : Bytes) (res : MsgResult) (log : Init.SealLog) (pl : Bytes)
    (hp : lookupA n.peers (mappedAddr src) = some p)
    (hinit : data.head? = some Generated.INIT_MESSAGE_FIRST_BYTE)
    (hq : lookupA n.pending (mappedAddr src) = some q)
    (hr : PeerCrypto.handleMessage env bodyOf payloadOk q data tail
      (rndFor o { node := n } (mappedAddr src)).1 (rndFor o { node := n } (mappedAddr src)).2.1 = .ok pc out res log)
    (hres : res = .initialized pl ∨ res = .initializedWithReply pl) :
    ∃ info, Codec.decodeNodeInfo pl = some info ∧
      lookupA (handleNet env bodyOf o n now src data tail).1.node.peers (mappedAddr src) = some (newPeerRecord n now (mappedAddr src) info pc) ∧
      (handleNet env bodyOf o n now src data tail).1.node.table = n.table.setClaims now (addrId (mappedAddr src)) info.claims ∧
      Announced n.table now (addrId (mappedAddr src)) info.claims (handleNet env bodyOf o n now src data tail).1.node.table ∧
      announceOk n.table now (addrId (mappedAddr src)) info.claims (handleNet env bodyOf o n now src data tail).1.node.table = true := by
  obtain ⟨info, hdec, hrec⟩ := (C09More.pending_handles_handshake env bodyOf o n now src data tail p q hp hinit hq).2.2 pc out res log pl hr hres
  have hd : dispatch env bodyOf o n now (mappedAddr src) data tail = applyOutcome env o { node := n } now (mappedAddr src) false
      (PeerCrypto.handleMessage env bodyOf payloadOk q data tail
        (rndFor o { node := n } (mappedAddr src)).1 (rndFor o { node := n } (mappedAddr src)).2.1) := by
    unfold dispatch
    simp only [hp, hq, hinit, decide_true, Bool.not_true, Bool.false_eq_true, if_false]
  have hlk : lookupA (addLog log (storePc { node := n } (mappedAddr src) false pc)).node.pending (mappedAddr src) = some pc :=
    lookupA_insertA_self _ _ _
  have htb : (handleNet env bodyOf o n now src data tail).1.node.table = n.table.setClaims now (addrId (mappedAddr src)) info.claims := by
    rw [handleNet_eq, finish_table, hd, hr, applyOutcome_eq]
    simp only []
    have ht := addNewPeer_table env o (addLog log (storePc { node := n } (mappedAddr src) false pc)) now (mappedAddr src) info pc hlk
    rcases hres with rfl | rfl
    · simp only [handleResult, hdec]
      exact ht
    · simp only [handleResult, hdec, send_node]
      exact ht
  refine ⟨info, hdec, hrec, htb, ?_, ?_⟩
  · rw [htb]; exact announced_setClaims _ now hnow _ _
  · rw [htb]; exact C12.setClaims_exact _ now _ _ hnow

/-! ### the converse: a peer address leaves the peer list only by one of these paths -/

/-- **peers_only_leave_by** (`handle_net_message`): a datagram makes at most the sender leave the peer list, and only when the sender is an
    established peer whose session opens the datagram (no handshake marker) as a CLOSE message. -/
theorem peers_only_leave_by_net (env : CryptoEnv) (bodyOf : Init.BodyOf) (o : Oracle) (n : Node) (now : Int) (src : NAddr) (data tail : Bytes)
    (a : NAddr) (ha : a ∈ n.peers.map (·.1)) (hna : a ∉ (handleNet env bodyOf o n now src data tail).1.node.peers.map (·.1)) :
    a = mappedAddr src ∧ ∃ p pc body, FromPeer env bodyOf o n src data tail p pc Generated.MESSAGE_TYPE_CLOSE body := by
  rw [handleNet_eq, finish_peers] at hna
  obtain ⟨h1, p, pc, out, body, log, hp, hinit, hm⟩ := dispatch_left env bodyOf o n now (mappedAddr src) data tail a ha hna
  exact ⟨h1, p, pc, body, ⟨hp, hinit, out, log, hm⟩⟩

/-- **peers_only_leave_by** (`housekeep`, pairwise distinct peer addresses): an address that is a peer before the tick and not after it had
    a record whose expiry had passed, or its record had not expired and its session failed in `every_second`. -/
theorem peers_only_leave_by_tick (env : CryptoEnv) (o : Oracle) (n : Node) (now : Int) (hnd : (n.peers.map (·.1)).Nodup)
    (a : NAddr) (ha : a ∈ n.peers.map (·.1)) (hna : a ∉ (housekeep env o n now).node.peers.map (·.1)) :
    (∃ p, (a, p) ∈ n.peers ∧ p.timeout < now) ∨
    (∃ p rr pc' e, lookupA n.peers a = some p ∧ ¬ p.timeout < now ∧ PeerCrypto.everySecond p.crypto rr = .err pc' e) := by
  by_cases hd : a ∈ (n.peers.filter (fun (_, p) => Generated.peerExpired p.timeout now)).map (·.1)
  · left
    rcases List.mem_map.1 hd with ⟨⟨b, p⟩, hx, hb⟩
    simp only at hb
    subst hb
    rw [List.mem_filter] at hx
    exact ⟨p, hx.1, by simpa using hx.2⟩
  · right
    have hl : lookupA (hkSweep (hkDead env o n now) now).node.peers a = lookupA n.peers a := by
      show lookupA (hkDead env o n now).node.peers a = lookupA n.peers a
      unfold hkDead
      exact C09MoreLemmas.deadFold_notin env o now a _ _ hd
    have hnd1 : ((hkSweep (hkDead env o n now) now).node.peers.map (·.1)).Nodup := C15MoreLemmas.hkDead_keysNodup env o n now hnd
    have ha1 : a ∈ (hkSweep (hkDead env o n now) now).node.peers.map (·.1) := by
      rw [← lookupA_isSome_iff, hl, lookupA_isSome_iff]; exact ha
    have hna1 : a ∉ (cryptoHousekeep env o (hkSweep (hkDead env o n now) now) now).node.peers.map (·.1) := by
      rw [housekeep_eq, C15MoreLemmas.hkOwn_peers, reconnectToPeers_peers, (C15MoreLemmas.hkAnnounce_rest o _ now).2.2.2] at hna
      exact hna
    obtain ⟨p, rr, pc', e, hp, he⟩ := cryptoHousekeep_left env o now _ hnd1 a ha1 hna1
    rw [hl] at hp
    refine ⟨p, rr, pc', e, hp, ?_, he⟩
    intro hexp
    apply hd
    exact List.mem_map.2 ⟨(a, p), List.mem_filter.2 ⟨lookupA_some_mem hp, by simpa using hexp⟩, rfl⟩

/-- the two theorems for the tick together: with pairwise distinct peer addresses and `now > 0`, a peer address is gone after the tick
    EXACTLY IF a record of it had expired or the session of its record fails in `every_second`. -/
theorem peer_leaves_tick_iff (env : CryptoEnv) (o : Oracle) (n : Node) (now : Int) (hnow : 0 < now) (hnd : (n.peers.map (·.1)).Nodup)
    (a : NAddr) (ha : a ∈ n.peers.map (·.1)) :
    a ∉ (housekeep env o n now).node.peers.map (·.1) ↔
      ((∃ p, (a, p) ∈ n.peers ∧ p.timeout < now) ∨
       (∃ p rr pc' e, lookupA n.peers a = some p ∧ PeerCrypto.everySecond p.crypto rr = .err pc' e)) := by
  constructor
  · intro hna
    rcases peers_only_leave_by_tick env o n now hnd a ha hna with h | ⟨p, rr, pc', e, hp, _, he⟩
    · exact Or.inl h
    · exact Or.inr ⟨p, rr, pc', e, hp, he⟩
  · rintro (⟨p, hp, he⟩ | ⟨p, rr, pc', e, hp, he⟩)
    · exact (timeout_removes_routes env o n now hnow a p hp he).1
    · exact (failed_session_removes_routes_tick env o n now hnow a p hp ⟨rr, pc', e, he⟩).1

/-- `connect` removes nobody: the peer list is unchanged -/
theorem peers_only_leave_by_connect (env : CryptoEnv) (o : Oracle) (n : Node) (addrs : List NAddr) :
    (connect env o { node := n } addrs).node.peers = n.peers := connect_peers env o _ addrs

/-- `handle_interface_data` removes nobody: the peer addresses are unchanged -/
theorem peers_only_leave_by_iface (o : Oracle) (n : Node) (now : Int) (data : Bytes) :
    (handleIface o n now data).node.peers.map (·.1) = n.peers.map (·.1) := (handleIface_toPeers o n now data).2

/-- the ways a peer address leaves the peer list of `n`: a record whose expiry has passed at the time of a tick, a CLOSE message of the
    peer, a session that fails in `every_second` -/
inductive LeftBy (n : Node) (a : NAddr) : Prop
  | timeout (p : Peer) (now : Int) : (a, p) ∈ n.peers → p.timeout < now → LeftBy n a
  | close (env : CryptoEnv) (bodyOf : Init.BodyOf) (o : Oracle) (src : NAddr) (data tail : Bytes) (p : Peer) (pc : PeerCrypto) (body : Bytes) :
      a = mappedAddr src → FromPeer env bodyOf o n src data tail p pc Generated.MESSAGE_TYPE_CLOSE body → LeftBy n a
  | failed (p : Peer) (rr : RotRand) (pc' : PeerCrypto) (e : InitErr) :
      lookupA n.peers a = some p → PeerCrypto.everySecond p.crypto rr = .err pc' e → LeftBy n a

/-- **peers_only_leave_by**: in every step (`C12Node.Step`: datagram, frame from the interface, tick, dial) of a node with pairwise distinct
    peer addresses, an address that is a peer before the step and not after it left by timeout, by its CLOSE message, or because its
    session failed — there is no other way out of the peer list (a superseding handshake replaces the record and keeps the address). -/
theorem peers_only_leave_by {n n' : Node} (hs : C12Node.Step n n') (hnd : (n.peers.map (·.1)).Nodup)
    (a : NAddr) (ha : a ∈ n.peers.map (·.1)) (hna : a ∉ n'.peers.map (·.1)) : LeftBy n a := by
  cases hs with
  | net env bodyOf o _ now src data tail _ =>
    obtain ⟨h1, p, pc, body, hf⟩ := peers_only_leave_by_net env bodyOf o n now src data tail a ha hna
    exact .close env bodyOf o src data tail p pc body h1 hf
  | iface o _ now data =>
    rw [peers_only_leave_by_iface] at hna
    exact absurd ha hna
  | tick env o _ now _ =>
    rcases peers_only_leave_by_tick env o n now hnd a ha hna with ⟨p, hp, he⟩ | ⟨p, rr, pc', e, hp, _, he⟩
    · exact .timeout p now hp he
    · exact .failed p rr pc' e hp he
  | dial env o _ addrs =>
    rw [peers_only_leave_by_connect] at hna
    exact absurd ha hna

/-! ## 2. announcements at node level -/

/-- **announcement_sets_claims**: a node-information message that decodes, from the established peer `src`, replaces the routes of that peer
    by the announced ones: afterwards the ranges attributed to its id are exactly `info.claims` (as a set), each with the expiry
    `now + claimTimeout`; claims of other peers are untouched except that expired ones are swept; if a range of the peer was dropped every
    decision cached for it is gone; decisions cached for other peers are only swept. -/
theorem announcement_sets_claims {env : CryptoEnv} {bodyOf : Init.BodyOf} {o : Oracle} {n : Node} {src : NAddr} {data tail : Bytes}
    {p : Peer} {pc : PeerCrypto} {body : Bytes} {info : NodeInfo}
    (h : FromPeer env bodyOf o n src data tail p pc Generated.MESSAGE_TYPE_NODE_INFO body)
    (hinfo : Codec.decodeNodeInfo body = some info) (now : Int) (hnow : 0 < now) :
    (handleNet env bodyOf o n now src data tail).1.node.table = n.table.setClaims now (addrId (mappedAddr src)) info.claims ∧
    Announced n.table now (addrId (mappedAddr src)) info.claims (handleNet env bodyOf o n now src data tail).1.node.table ∧
    announceOk n.table now (addrId (mappedAddr src)) info.claims (handleNet env bodyOf o n now src data tail).1.node.table = true := by
  have htb : (handleNet env bodyOf o n now src data tail).1.node.table = n.table.setClaims now (addrId (mappedAddr src)) info.claims := by
    rw [table_after_message h now, if_neg (by decide), if_pos rfl]
    simp only [hinfo]
  refine ⟨htb, ?_, ?_⟩
  · rw [htb]; exact announced_setClaims _ now hnow _ _
  · rw [htb]; exact C12.setClaims_exact _ now _ _ hnow

/-- **keepalive_keeps_claims**: a KEEPALIVE from an established peer leaves the whole routing table as it is; a DATA message changes no
    claim (it can only add a learned address for the sender, in learning mode). -/
theorem keepalive_keeps_claims {env : CryptoEnv} {bodyOf : Init.BodyOf} {o : Oracle} {n : Node} {src : NAddr} {data tail : Bytes}
    {p : Peer} {pc : PeerCrypto} {ty : Nat} {body : Bytes} (h : FromPeer env bodyOf o n src data tail p pc ty body) (now : Int) :
    (ty = Generated.MESSAGE_TYPE_KEEPALIVE → (handleNet env bodyOf o n now src data tail).1.node.table = n.table) ∧
    (ty = Generated.MESSAGE_TYPE_DATA →
      (handleNet env bodyOf o n now src data tail).1.node.table.claims = n.table.claims ∧
      ((handleNet env bodyOf o n now src data tail).1.node.table = n.table ∨
        ∃ sa, n.cfg.learning = true ∧ (handleNet env bodyOf o n now src data tail).1.node.table = n.table.learn now sa (addrId (mappedAddr src)))) := by
  constructor
  · rintro rfl
    rw [table_after_message h now, if_neg (by decide), if_neg (by decide), if_pos rfl]
  · rintro rfl
    rw [table_after_message h now, if_pos rfl]
    cases parseAddrs n body with
    | none => exact ⟨rfl, Or.inl rfl⟩
    | some r =>
      obtain ⟨sa, da⟩ := r
      simp only []
      cases hl : n.cfg.learning with
      | false => exact ⟨rfl, Or.inl rfl⟩
      | true => exact ⟨rfl, Or.inr ⟨sa, rfl, rfl⟩⟩

/-- **claims_expire_node**: claims expire if not re-announced.  If every claim attributed to `a` carries an expiry of at most
    `t + claimTimeout` (it was announced at time `t` or before, and not since), then after a housekeeping tick at a time `now > t + claimTimeout`
    the table holds no claim of `a` — whether or not the peer record of `a` is still there (see `claims_expire_before_peer`).  Stated for an
    arbitrary `claimTimeout` of the table. -/
theorem claims_expire_node (env : CryptoEnv) (o : Oracle) (n : Node) (now t : Int) (hnow : 0 < now) (a : NAddr)
    (hold : ∀ e ∈ n.table.claims, e.peer = addrId a → e.timeout ≤ t + n.table.claimTimeout)
    (hlate : t + n.table.claimTimeout < now) :
    ∀ e ∈ (housekeep env o n now).node.table.claims, e.peer ≠ addrId a := by
  intro e he hpe
  rw [housekeep_eq] at he
  have hs1 : TSub (hkSweep (hkDead env o n now) now).node.table n.table :=
    ((hkDead_shrinks env o n now hnow).trans (hkSweep_shrinks _ now)).2
  have hs2 := ((cryptoHousekeep_shrinks env o now hnow (hkSweep (hkDead env o n now) now)).trans (hkTail_shrinks env o now _)).2
  have he2 := hs2.1 e he
  have hlive : now ≤ e.timeout := housekeep_swept (hkDead env o n now).node.table now e he2
  have := hold e (hs1.1 e he2) hpe
  omega

/-- … "although the peer record may still be there": with pairwise distinct peer addresses, a peer whose own expiry has not passed and whose
    session does not fail keeps its record (same expiry) in the very tick that drops its claims.  This needs `claimTimeout` below the
    peer timeout; the real node passes `config.peer_timeout` for both (`ClaimTable::new(switch_timeout, peer_timeout)`, src/cloud.rs), see
    `announced_claims_and_peer_expire_together`. -/
theorem claims_expire_before_peer (env : CryptoEnv) (o : Oracle) (n : Node) (now t : Int) (hnow : 0 < now) (a : NAddr) (p : Peer)
    (hp : lookupA n.peers a = some p) (hlive : ¬ p.timeout < now) (hnd : (n.peers.map (·.1)).Nodup)
    (hok : ∀ rr pc' e, PeerCrypto.everySecond p.crypto rr ≠ .err pc' e)
    (hold : ∀ e ∈ n.table.claims, e.peer = addrId a → e.timeout ≤ t + n.table.claimTimeout)
    (hlate : t + n.table.claimTimeout < now) :
    (lookupA (housekeep env o n now).node.peers a).map (·.timeout) = some p.timeout ∧
    ∀ e ∈ (housekeep env o n now).node.table.claims, e.peer ≠ addrId a :=
  ⟨C09MoreLemmas.housekeep_keeps env o n now a p hp hlive hnd hok, claims_expire_node env o n now t hnow a hold hlate⟩

/-- after an announcement at time `t` the hypothesis of `claims_expire_node` holds (with equality), so: if nothing else arrives, a tick at
    any time after `t + claimTimeout` drops all claims of the announcing peer. -/
theorem announced_claims_expire {env : CryptoEnv} {bodyOf : Init.BodyOf} {o : Oracle} {n : Node} {src : NAddr} {data tail : Bytes}
    {p : Peer} {pc : PeerCrypto} {body : Bytes} {info : NodeInfo}
    (h : FromPeer env bodyOf o n src data tail p pc Generated.MESSAGE_TYPE_NODE_INFO body)
    (hinfo : Codec.decodeNodeInfo body = some info) (t : Int) (ht : 0 < t)
    (env' : CryptoEnv) (o' : Oracle) (now : Int) (hlate : t + n.table.claimTimeout < now) :
    ∀ e ∈ (housekeep env' o' (handleNet env bodyOf o n t src data tail).1.node now).node.table.claims, e.peer ≠ addrId (mappedAddr src) := by
  obtain ⟨_, han, _⟩ := announcement_sets_claims h hinfo t ht
  apply claims_expire_node env' o' _ now t (by omega) (mappedAddr src)
  · intro e he hpe
    rw [han.fresh e he hpe, han.params.2]
    exact Int.le_refl _
  · rw [han.params.2]; exact hlate

/-- in the real node the table is created with `claimTimeout = config.peer_timeout`: then the claims set by an announcement at time `t` and
    the record refreshed by it carry the same expiry, and the tick that finds the peer expired (`peerExpired`, `timeout < now`) is the
    first one at which its claims are no longer live (`claimLive`, `timeout ≥ now`): routes and record go together. -/
theorem announced_claims_and_peer_expire_together {env : CryptoEnv} {bodyOf : Init.BodyOf} {o : Oracle} {n : Node} {src : NAddr} {data tail : Bytes}
    {p : Peer} {pc : PeerCrypto} {body : Bytes} {info : NodeInfo}
    (h : FromPeer env bodyOf o n src data tail p pc Generated.MESSAGE_TYPE_NODE_INFO body)
    (hinfo : Codec.decodeNodeInfo body = some info) (t : Int) (ht : 0 < t) (hsame : n.table.claimTimeout = n.cfg.peerTimeout) :
    ∃ p', lookupA (handleNet env bodyOf o n t src data tail).1.node.peers (mappedAddr src) = some p' ∧
      ∀ e ∈ (handleNet env bodyOf o n t src data tail).1.node.table.claims, e.peer = addrId (mappedAddr src) →
        e.timeout = p'.timeout ∧ ∀ now, Generated.peerExpired p'.timeout now = !Generated.claimLive e.timeout now := by
  obtain ⟨p', hp', hto, _⟩ := C15More.refresh_sets_expiry h t (Or.inr ⟨rfl, info, hinfo⟩)
  obtain ⟨_, han, _⟩ := announcement_sets_claims h hinfo t ht
  refine ⟨p', hp', fun e he hpe => ?_⟩
  have h1 : e.timeout = p'.timeout := by rw [han.fresh e he hpe, hto, hsame]
  refine ⟨h1, fun now => ?_⟩
  rw [h1]
  simp only [Generated.peerExpired, Generated.claimLive]
  by_cases hlt : p'.timeout < now
  · have h2 : ¬ (p'.timeout ≥ now) := by omega
    simp [hlt, h2]
  · have h2 : p'.timeout ≥ now := by omega
    simp [hlt, h2]

/-! ## 3. never a non-peer as next hop, constructively -/

/-- **lookup_hit_is_sent_or_unsealable**: in a state whose table names only peers (`C12Node.TablePeers`, an invariant of all reachable
    states), when the lookup for the destination of a frame returns a peer id, the search for the peer address succeeds — the branch "Sending
    to node that is not a peer" is not taken — and the frame goes out as exactly one datagram to that peer; it is withheld only if the
    peer's session cannot seal (neither plain nor a crypto core yet). -/
theorem lookup_hit_is_sent_or_unsealable (o : Oracle) (n : Node) (now : Int) (data : Bytes) (s d : Addr) (pid : PeerId)
    (hinv : C12Node.TablePeers n) (hpa : parseAddrs n data = some (s, d)) (hl : (n.table.lookup now d).2 = some pid) :
    ∃ a p, (n.peers.map (·.1)).find? (fun b => addrId b = pid) = some a ∧ a ∈ n.peers.map (·.1) ∧ addrId a = pid ∧
      lookupA n.peers a = some p ∧
      ((canSeal p.crypto ∧ ∃ bytes, (handleIface o n now data).outs = [.dgram a bytes]) ∨
       (¬ canSeal p.crypto ∧ (handleIface o n now data).outs = [])) := by
  obtain ⟨a0, ha0, hid0⟩ := C12Node.next_hop_is_peer n now d pid hinv hl
  have hsome : ((n.peers.map (·.1)).find? (fun b => addrId b = pid)).isSome = true := by
    rw [List.find?_isSome]
    exact ⟨a0, ha0, by simpa using hid0⟩
  cases hf : (n.peers.map (·.1)).find? (fun b => addrId b = pid) with
  | none => rw [hf] at hsome; cases hsome
  | some a =>
    have ham : a ∈ n.peers.map (·.1) := List.mem_of_find?_eq_some hf
    have hid : addrId a = pid := by simpa using List.find?_some hf
    cases hlk : lookupA n.peers a with
    | none => exact absurd ham ((lookupA_none_iff _ _).1 hlk)
    | some p =>
      refine ⟨a, p, rfl, ham, hid, hlk, ?_⟩
      rcases hlookup : n.table.lookup now d with ⟨tb, r⟩
      rw [hlookup] at hl
      simp only at hl
      subst hl
      have hlk' : lookupA ({ node := { n with table := tb } } : Ctx).node.peers a = some p := hlk
      by_cases hs : canSeal p.crypto
      · left
        refine ⟨hs, ?_⟩
        obtain ⟨pc', bytes, lg, hsm, _⟩ := C15MoreLemmas.sendMessage_canSeal p.crypto Generated.MESSAGE_TYPE_DATA data
          (rndFor o { node := { n with table := tb } } a).2.1.ct hs
        refine ⟨bytes, ?_⟩
        simp only [handleIface, hpa, hlookup, hf, sendMsg, hlk', hsm]
        rfl
      · right
        refine ⟨hs, ?_⟩
        simp only [handleIface, hpa, hlookup, hf, sendMsg, hlk', C15MoreLemmas.sendMessage_cannot p.crypto _ _ _ hs]
        rfl

/-! ## 4. C11: counting of frames without a next hop -/

theorem scan_none_of_nomatch (d : Addr) : ∀ (l : List ClaimEntry), (∀ e ∈ l, e.claim.matches d = false) → Table.scan d l none = none
  | [], _ => rfl
  | e :: l, h => by
    rw [TableLemmas.scan_cons]
    have he : TableLemmas.scanCond d e none = false := by
      simp [TableLemmas.scanCond, h e List.mem_cons_self]
    rw [he]
    simp only [Bool.false_eq_true, if_false]
    exact scan_none_of_nomatch d l (fun e' he' => h e' (List.mem_cons_of_mem _ he'))

/-- the lookup finds no next hop exactly if no cached / learned entry is keyed by the address and no claim (live or not) contains it;
    the table is then returned unchanged -/
theorem lookup_none_iff (t : Table) (now : Int) (d : Addr) :
    (t.lookup now d).2 = none ↔ (∀ v ∈ t.cache, v.addr ≠ d) ∧ (∀ e ∈ t.claims, e.claim.matches d = false) := by
  constructor
  · intro h
    unfold Table.lookup at h
    split at h
    · cases h
    · rename_i hfind
      split at h
      · cases h
      · rename_i hscan
        refine ⟨?_, (TableLemmas.scan_none d t.claims none hscan).2⟩
        intro v hv
        have := List.find?_eq_none.1 hfind v hv
        simpa using this
  · rintro ⟨h1, h2⟩
    have hfind : t.cache.find? (fun v => v.addr = d) = none := by
      rw [List.find?_eq_none]
      intro v hv
      simpa using h1 v hv
    unfold Table.lookup
    rw [hfind, scan_none_of_nomatch d t.claims h2]

theorem lookup_none_table (t : Table) (now : Int) (d : Addr) (h : (t.lookup now d).2 = none) : (t.lookup now d).1 = t := by
  unfold Table.lookup at h ⊢
  cases hfind : t.cache.find? (fun v => v.addr = d) with
  | some v => rfl
  | none =>
    rw [hfind] at h
    simp only [] at h ⊢
    cases hs : Table.scan d t.claims none with
    | some e => rw [hs] at h; cases h
    | none => rfl

/-- **router_drop_counts**: in a non-broadcast mode (router) a frame whose destination parses, is the key of no cached / learned entry and
    lies in no claim changes exactly one thing: `droppedOut` is incremented by one.  Nothing is emitted, the table, the peers and all
    other counters stay. -/
theorem router_drop_counts (o : Oracle) (n : Node) (now : Int) (data : Bytes) (s d : Addr)
    (hpa : parseAddrs n data = some (s, d))
    (hcache : ∀ v ∈ n.table.cache, v.addr ≠ d) (hclaims : ∀ e ∈ n.table.claims, e.claim.matches d = false)
    (hb : n.cfg.broadcast = false) :
    handleIface o n now data = { node := { n with droppedOut := n.droppedOut + 1 } } := by
  have hl : (n.table.lookup now d).2 = none := (lookup_none_iff n.table now d).2 ⟨hcache, hclaims⟩
  have ht := lookup_none_table n.table now d hl
  rcases hlk : n.table.lookup now d with ⟨tb, r⟩
  rw [hlk] at hl ht
  simp only at hl ht
  subst hl
  subst ht
  simp only [handleIface, hpa, hlk, hb, Bool.false_eq_true, if_false]

/-- **flood_not_counted**: in a broadcast mode (switch / hub) such a frame is not counted as dropped: `droppedOut` and the table stay, and
    what is emitted are datagrams to peer addresses only, at most one per peer. -/
theorem flood_not_counted (o : Oracle) (n : Node) (now : Int) (data : Bytes) (s d : Addr)
    (hpa : parseAddrs n data = some (s, d))
    (hcache : ∀ v ∈ n.table.cache, v.addr ≠ d) (hclaims : ∀ e ∈ n.table.claims, e.claim.matches d = false)
    (hb : n.cfg.broadcast = true) :
    (handleIface o n now data).node.droppedOut = n.droppedOut ∧ (handleIface o n now data).node.droppedIn = n.droppedIn ∧
    (handleIface o n now data).node.table = n.table ∧
    (handleIface o n now data).outs.length ≤ n.peers.length ∧
    ∀ x ∈ (handleIface o n now data).outs, ∃ a b, x = .dgram a b ∧ a ∈ n.peers.map (·.1) := by
  have hl : (n.table.lookup now d).2 = none := (lookup_none_iff n.table now d).2 ⟨hcache, hclaims⟩
  have hfl := C11Node.unknown_dest_flooded o n now data s d hpa hl hb
  have hto := (handleIface_toPeers o n now data).1
  have ht := lookup_none_table n.table now d hl
  refine ⟨hfl.2, ?_, ?_, hfl.1, hto⟩
  · rcases hlk : n.table.lookup now d with ⟨tb, r⟩
    rw [hlk] at hl
    simp only at hl
    subst hl
    simp only [handleIface, hpa, hlk, hb, if_true]
    exact broadcastMsg_droppedIn o _ _ _
  · rcases hlk : n.table.lookup now d with ⟨tb, r⟩
    rw [hlk] at hl ht
    simp only at hl ht
    subst hl
    subst ht
    simp only [handleIface, hpa, hlk, hb, if_true]
    exact broadcastMsg_table o _ _ _

/-- **unparseable_ignored**: a frame from the interface that `parse` rejects changes nothing at all — no counter, no table entry, no
    output. -/
theorem unparseable_ignored (o : Oracle) (n : Node) (now : Int) (data : Bytes) (hpa : parseAddrs n data = none) :
    handleIface o n now data = { node := n } := by
  simp only [handleIface, hpa]

/-! ## non-vacuity: a concrete node with two peers and nested claims -/
namespace Ex
open VpnCloud.Proofs.InitLemmas

def s1 : NAddr := .v6 (List.replicate 16 0) 1
def s2 : NAddr := .v6 (List.replicate 16 0) 2
def core : Core := Core.new 7 false 8 [0, 0, 0, 0]
/-- peer 1: encrypted session, expiry 500 -/
def p1 : Peer := { addrs := [], timeout := 500, peerTimeout := 300, nodeId := List.replicate 16 1,
                   crypto := { init := none, core := some core, rot := some (PeerCrypto.initSide false 0) } }
/-- peer 2: plain session, expiry 1000 -/
def p2 : Peer := { addrs := [], timeout := 1000, peerTimeout := 300, nodeId := List.replicate 16 2,
                   crypto := { init := none, unencrypted := true } }
def cfg (broadcast : Bool) : NodeCfg :=
  { tap := false, learning := true, broadcast, peerTimeout := 300, peerTimeoutPublish := 300, updateFreq := 10,
    claims := [], key := [7, 7, 7, 7], trusted := [[9, 9, 9, 9]], algos := Toy.algos }
/-- nested claims: 10.0.0.0/8 and 10.2.0.0/16 of peer 1, 10.1.0.0/16 of peer 2 inside the former; one cached decision for each peer -/
def tbl : Table :=
  { cacheTimeout := 300, claimTimeout := 200,
    claims := [⟨1, ⟨[10, 0, 0, 0], 8⟩, 2000⟩, ⟨2, ⟨[10, 1, 0, 0], 16⟩, 2000⟩, ⟨1, ⟨[10, 2, 0, 0], 16⟩, 2000⟩],
    cache := [⟨[10, 1, 0, 1], 2, 3000⟩, ⟨[10, 2, 0, 1], 1, 3000⟩] }
def n (broadcast : Bool) : Node :=
  { nodeId := List.replicate 16 9, addr := .v6 (List.replicate 16 0) 3, cfg := cfg broadcast,
    peers := [(s1, p1), (s2, p2)], table := tbl, nextPeers := 5000 }
def o : Oracle := { emitted := fun _ _ => [], rotProp := fun _ => 0, rotPend := fun _ => 0, starts := fun _ => [] }

/-- the table names peers only (hypothesis of `lookup_hit_is_sent_or_unsealable`) -/
theorem tablePeers (b : Bool) : C12Node.TablePeers (n b) := by
  have h1 : (s1, p1) ∈ (n b).peers := List.mem_cons_self
  have h2 : (s2, p2) ∈ (n b).peers := List.mem_cons_of_mem _ List.mem_cons_self
  constructor
  · intro e he
    simp only [n, tbl, List.mem_cons, List.not_mem_nil, or_false] at he
    rcases he with rfl | rfl | rfl
    · exact ⟨s1, p1, h1, by decide⟩
    · exact ⟨s2, p2, h2, by decide⟩
    · exact ⟨s1, p1, h1, by decide⟩
  · intro v hv
    simp only [n, tbl, List.mem_cons, List.not_mem_nil, or_false] at hv
    rcases hv with rfl | rfl
    · exact ⟨s2, p2, h2, by decide⟩
    · exact ⟨s1, p1, h1, by decide⟩

/-! ### 1. removal paths -/

/-- `timeout_removes_routes`: at time 600 the record of peer 1 has expired … -/
example : (0 : Int) < 600 ∧ (s1, p1) ∈ (n false).peers ∧ p1.timeout < 600 := ⟨by decide, List.mem_cons_self, by decide⟩

/-- … and the tick leaves peer 2 with its claim and its cached decision -/
example : (housekeep Toy.env o (n false) 600).node.peers.map (·.1) = [s2] ∧
    (housekeep Toy.env o (n false) 600).node.table.claims = [⟨2, ⟨[10, 1, 0, 0], 16⟩, 2000⟩] ∧
    (housekeep Toy.env o (n false) 600).node.table.cache = [⟨[10, 1, 0, 1], 2, 3000⟩] := by decide

/-- a genuine seal (key 7 of slot 0) of a CLOSE message, as only peer 1 can make it -/
def closeBody : Init.BodyOf := fun _ => .sealed 7 (HALF + 5) [Generated.MESSAGE_TYPE_CLOSE]
def sealed5 : Bytes := [0, 0, 0, 0, 0, 0, 0, 5] ++ List.replicate 17 0

/-- `close_removes_routes`: peer 1 says goodbye (hypothesis `FromPeer … MESSAGE_TYPE_CLOSE`) -/
theorem close_fromPeer : FromPeer Toy.env closeBody o (n false) s1 sealed5 [] p1
    { p1.crypto with core := some (core.decrypt (C09MoreLemmas.dgramOf closeBody sealed5)).1 } Generated.MESSAGE_TYPE_CLOSE [] :=
  ⟨rfl, by decide, [], [], rfl⟩

example : (handleNet Toy.env closeBody o (n false) 10 s1 sealed5 []).1.node.peers.map (·.1) = [s2] ∧
    (handleNet Toy.env closeBody o (n false) 10 s1 sealed5 []).1.node.table.claims = [⟨2, ⟨[10, 1, 0, 0], 16⟩, 2000⟩] ∧
    (handleNet Toy.env closeBody o (n false) 10 s1 sealed5 []).1.node.table.cache = [⟨[10, 1, 0, 1], 2, 3000⟩] := by decide

/-- `0 < now` is needed in `close_removes_routes` (and in the other removal theorems): at time 0 the entries marked with the expiry 0
    survive the sweep, and the departed peer keeps its routes -/
theorem needs_positive_time :
    ¬ NoRoutes (addrId (mappedAddr s1)) (handleNet Toy.env closeBody o (n false) 0 s1 sealed5 []).1.node.table := by decide

/-- `failed_session_removes_routes`: a peer whose lingering handshake object has used up its retries fails in `every_second` -/
def pFail : Peer := { p2 with crypto := { init := some { Toy.st with retries := Generated.MAX_FAILED_RETRIES } } }
def nFail : Node := { n false with peers := [(s1, p1), (s2, pFail)] }

theorem pFail_fails : ∃ rr pc' e, PeerCrypto.everySecond pFail.crypto rr = .err pc' e := ⟨{}, _, _, rfl⟩

example : lookupA nFail.peers s2 = some pFail := rfl

/-- at time 10 nobody has expired; the tick drops peer 2 (failed session) with its claim and cached decision and keeps peer 1 -/
example : (housekeep Toy.env o nFail 10).node.peers.map (·.1) = [s1] ∧
    (housekeep Toy.env o nFail 10).node.table.claims = [⟨1, ⟨[10, 0, 0, 0], 8⟩, 2000⟩, ⟨1, ⟨[10, 2, 0, 0], 16⟩, 2000⟩] ∧
    (housekeep Toy.env o nFail 10).node.table.cache = [⟨[10, 2, 0, 1], 1, 3000⟩] := by decide

/-- `superseding_handshake_replaces_claims`: an attempt is pending for the address of peer 1 (the toy initiator `Toy.st`, which has sent its
    ping) and the pong of its trusted peer arrives; the payload opens as node information that announces 10.0.0.0/8 and 10.5.0.0/16 -/
def info1 : NodeInfo :=
  { nodeId := List.replicate 16 1, peers := [], claims := [⟨[10, 0, 0, 0], 8⟩, ⟨[10, 5, 0, 0], 16⟩], peerTimeout := none, addrs := [] }
def hsBody : Init.BodyOf := fun _ => .sealed (masterKey .aes128 [5] [6]) (HALF + 5) (Codec.encodeNodeInfo info1)
def nSup : Node := { n false with pending := [(s1, { init := some Toy.st })] }
def pong : Bytes := Generated.INIT_MESSAGE_FIRST_BYTE :: Toy.pong Toy.algos 0

def resOf : POutcome MsgResult → Option MsgResult
  | .ok _ _ res _ => some res
  | _ => none

example : lookupA nSup.peers (mappedAddr s1) = some p1 ∧ pong.head? = some Generated.INIT_MESSAGE_FIRST_BYTE ∧
    lookupA nSup.pending (mappedAddr s1) = some { init := some Toy.st } := ⟨rfl, rfl, rfl⟩

/-- the pending attempt reports the completed handshake (hypotheses `hr`, `hres`) -/
theorem sup_completes : ∃ pc out log, PeerCrypto.handleMessage Toy.env hsBody payloadOk { init := some Toy.st } pong []
      (rndFor o { node := nSup } (mappedAddr s1)).1 (rndFor o { node := nSup } (mappedAddr s1)).2.1 =
    .ok pc out (.initializedWithReply (Codec.encodeNodeInfo info1)) log := by
  have h : resOf (PeerCrypto.handleMessage Toy.env hsBody payloadOk { init := some Toy.st } pong []
      (rndFor o { node := nSup } (mappedAddr s1)).1 (rndFor o { node := nSup } (mappedAddr s1)).2.1) =
      some (.initializedWithReply (Codec.encodeNodeInfo info1)) := by decide
  generalize PeerCrypto.handleMessage Toy.env hsBody payloadOk { init := some Toy.st } pong []
      (rndFor o { node := nSup } (mappedAddr s1)).1 (rndFor o { node := nSup } (mappedAddr s1)).2.1 = r at h
  cases r with
  | ok pc out res log =>
    simp only [resOf, Option.some.injEq] at h
    exact ⟨pc, out, log, by rw [h]⟩
  | err pc e => cases h
  | panic => cases h

/-- at time 100: 10.0.0.0/8 is refreshed (expiry 300), 10.2.0.0/16 of the superseded record is gone together with the decision cached for
    peer 1, 10.5.0.0/16 is new; peer 2 is untouched; the record of peer 1 is the new one (expiry 400), the attempt is no longer pending -/
example : (handleNet Toy.env hsBody o nSup 100 s1 pong []).1.node.table.claims =
      [⟨1, ⟨[10, 0, 0, 0], 8⟩, 300⟩, ⟨2, ⟨[10, 1, 0, 0], 16⟩, 2000⟩, ⟨1, ⟨[10, 5, 0, 0], 16⟩, 300⟩] ∧
    (handleNet Toy.env hsBody o nSup 100 s1 pong []).1.node.table.cache = [⟨[10, 1, 0, 1], 2, 3000⟩] ∧
    (handleNet Toy.env hsBody o nSup 100 s1 pong []).1.node.peers.map (·.1) = [s1, s2] ∧
    (handleNet Toy.env hsBody o nSup 100 s1 pong []).1.node.pending.map (·.1) = [] ∧
    (lookupA (handleNet Toy.env hsBody o nSup 100 s1 pong []).1.node.peers s1).map (·.timeout) = some 400 := by decide

/-- `peers_only_leave_by_tick` needs pairwise distinct peer addresses.  With two records under the address `s2` (impossible in the
    implementation, whose peers live in a hash map) `insertA` rewrites both when the session is stored; the second visit of the loop then
    sees the session AFTER its first tick.  Here it has one retry left: the first `every_second` succeeds, the second fails, the address
    leaves the peer list — but no record of the original list had expired or fails in `every_second`. -/
def pLast : Peer := { p2 with crypto := { init := some { Toy.st with retries := Generated.MAX_FAILED_RETRIES - 1 } } }
def nDup : Node := { n false with peers := [(s2, pLast), (s2, pLast)] }

theorem tick_needs_distinct_addresses :
    s2 ∈ nDup.peers.map (·.1) ∧ s2 ∉ (housekeep Toy.env o nDup 10).node.peers.map (·.1) ∧
    ¬ ((∃ p, (s2, p) ∈ nDup.peers ∧ p.timeout < 10) ∨
       (∃ p rr pc' e, lookupA nDup.peers s2 = some p ∧ ¬ p.timeout < 10 ∧ PeerCrypto.everySecond p.crypto rr = .err pc' e)) := by
  refine ⟨by decide, by decide, ?_⟩
  rintro (⟨p, hp, hlt⟩ | ⟨p, rr, pc', e, hp, _, he⟩)
  · simp only [nDup, List.mem_cons, List.not_mem_nil, or_false, or_self, Prod.mk.injEq, true_and] at hp
    subst hp
    exact absurd hlt (by decide)
  · have : p = pLast := (Option.some.inj hp).symm
    subst this
    cases he

/-- the hypotheses of `peers_only_leave_by` hold for the example node -/
example : ((n false).peers.map (·.1)).Nodup := by decide

/-! ### 2. announcements -/

/-- peer 2 announces 10.1.0.0/16 again, drops nothing, adds 10.3.0.0/16 -/
def info2 : NodeInfo :=
  { nodeId := List.replicate 16 2, peers := [], claims := [⟨[10, 1, 0, 0], 16⟩, ⟨[10, 3, 0, 0], 16⟩], peerTimeout := none, addrs := [] }
def annData : Bytes := Generated.MESSAGE_TYPE_NODE_INFO :: Codec.encodeNodeInfo info2

theorem ann_fromPeer : FromPeer Toy.env (Toy.body 0) o (n false) s2 annData [] p2 p2.crypto Generated.MESSAGE_TYPE_NODE_INFO (Codec.encodeNodeInfo info2) :=
  ⟨rfl, by decide, [], [], rfl⟩

theorem ann_decodes : Codec.decodeNodeInfo (Codec.encodeNodeInfo info2) = some info2 := by decide

/-- `announcement_sets_claims` at time 100 (claim timeout 200): both claims of peer 2 carry the expiry 300, those of peer 1 are untouched -/
example : (handleNet Toy.env (Toy.body 0) o (n false) 100 s2 annData []).1.node.table.claims =
    [⟨1, ⟨[10, 0, 0, 0], 8⟩, 2000⟩, ⟨2, ⟨[10, 1, 0, 0], 16⟩, 300⟩, ⟨1, ⟨[10, 2, 0, 0], 16⟩, 2000⟩, ⟨2, ⟨[10, 3, 0, 0], 16⟩, 300⟩] := by decide

/-- `claims_expire_node` / `claims_expire_before_peer` / `announced_claims_expire`: after that announcement at time 100 the record of peer 2
    expires at 400, its claims at 300: the tick at time 350 keeps the record and drops the claims -/
example : (100 : Int) + (n false).table.claimTimeout < 350 ∧
    (lookupA (housekeep Toy.env o (handleNet Toy.env (Toy.body 0) o (n false) 100 s2 annData []).1.node 350).node.peers s2).map (·.timeout) = some 400 ∧
    (housekeep Toy.env o (handleNet Toy.env (Toy.body 0) o (n false) 100 s2 annData []).1.node 350).node.table.claims =
      [⟨1, ⟨[10, 0, 0, 0], 8⟩, 2000⟩, ⟨1, ⟨[10, 2, 0, 0], 16⟩, 2000⟩] := by decide

/-- `keepalive_keeps_claims`: a KEEPALIVE and a DATA message of peer 2 -/
theorem keepalive_fromPeer : FromPeer Toy.env (Toy.body 0) o (n false) s2 [Generated.MESSAGE_TYPE_KEEPALIVE] [] p2 p2.crypto
    Generated.MESSAGE_TYPE_KEEPALIVE [] := ⟨rfl, by decide, [], [], rfl⟩

/-- an IPv4 packet from 10.1.0.9 to 10.9.0.1 -/
def pkt (dst : Bytes) : Bytes := 69 :: (List.replicate 11 0 ++ [10, 1, 0, 9] ++ dst)

theorem data_fromPeer : FromPeer Toy.env (Toy.body 0) o (n false) s2 (Generated.MESSAGE_TYPE_DATA :: pkt [10, 9, 0, 1]) [] p2 p2.crypto
    Generated.MESSAGE_TYPE_DATA (pkt [10, 9, 0, 1]) := ⟨rfl, by decide, [], [], rfl⟩

example : (handleNet Toy.env (Toy.body 0) o (n false) 100 s2 (Generated.MESSAGE_TYPE_DATA :: pkt [10, 9, 0, 1]) []).1.node.table.cache =
    ⟨[10, 1, 0, 9], 2, 400⟩ :: tbl.cache := by decide

/-! ### 3. lookup hits -/

/-- a frame for 10.1.0.1 (cached for peer 2, plain session): one datagram to peer 2 -/
example : parseAddrs (n false) (pkt [10, 1, 0, 1]) = some ([10, 1, 0, 9], [10, 1, 0, 1]) ∧
    ((n false).table.lookup 100 [10, 1, 0, 1]).2 = some 2 ∧ canSeal p2.crypto ∧
    (handleIface o (n false) 100 (pkt [10, 1, 0, 1])).outs = [.dgram s2 (Generated.MESSAGE_TYPE_DATA :: pkt [10, 1, 0, 1])] := by
  refine ⟨by decide, by decide, Or.inl rfl, by decide⟩

/-- a frame for 10.1.7.7: the longest of the nested claims (10.1.0.0/16 of peer 2 inside 10.0.0.0/8 of peer 1) decides -/
example : ((n false).table.lookup 100 [10, 1, 7, 7]).2 = some 2 ∧ ((n false).table.lookup 100 [10, 7, 7, 7]).2 = some 1 := by decide

/-- the second alternative: a peer whose session has neither a core nor the plain flag gets nothing -/
def pMute : Peer := { p2 with crypto := { init := none } }
def nMute : Node := { n false with peers := [(s1, p1), (s2, pMute)] }
example : ¬ canSeal pMute.crypto ∧ ((nMute).table.lookup 100 [10, 1, 0, 1]).2 = some 2 ∧
    (handleIface o nMute 100 (pkt [10, 1, 0, 1])).outs = [] := by
  refine ⟨?_, by decide, by decide⟩
  rintro (h | h) <;> cases h

/-! ### 4. frames without a next hop -/

/-- 11.0.0.1 is the key of no cached entry and lies in none of the (nested) claims -/
theorem uncovered : (∀ v ∈ tbl.cache, v.addr ≠ [11, 0, 0, 1]) ∧ (∀ e ∈ tbl.claims, e.claim.matches [11, 0, 0, 1] = false) := by decide

example : parseAddrs (n false) (pkt [11, 0, 0, 1]) = some ([10, 1, 0, 9], [11, 0, 0, 1]) := by decide

/-- router mode: dropped and counted -/
example : (handleIface o (n false) 100 (pkt [11, 0, 0, 1])).node.droppedOut = 1 ∧ (handleIface o (n false) 100 (pkt [11, 0, 0, 1])).outs = [] := by
  decide

/-- switch mode: flooded to both peers, not counted -/
example : (handleIface o (n true) 100 (pkt [11, 0, 0, 1])).node.droppedOut = 0 ∧
    (handleIface o (n true) 100 (pkt [11, 0, 0, 1])).outs.length = 2 := by decide

/-- `unparseable_ignored`: a packet of an unknown IP version -/
example : parseAddrs (n false) [0, 1, 2] = none := by decide

end Ex

end VpnCloud.Proofs.C12More
