import VpnCloud.Proofs.Lemmas.RotPanicLemmas
import VpnCloud.Proofs.Lemmas.LogPLemmas
import VpnCloud.Proofs.C08Node
import VpnCloud.Proofs.C09More
import VpnCloud.Proofs.C07Session
/-
  The panic site `derive_key(..).unwrap()` of `RotationState::process_message` (src/crypto/rotate.rs).

  `derive_key` is `agree_ephemeral(private_key, &public_key, ..).unwrap()`; ring's X25519 agreement returns `Err` when the peer's public
  key does not have exactly 32 bytes.  `RotationMessage::read_from` accepts keys of ANY length 0..255 (a length byte and that many bytes),
  so a sealed ROTATION message with `id > message_id` whose proposed key — or, if a confirmation is present and an own proposal is
  outstanding, whose confirmed key — is not 32 bytes long makes the node panic.  The model shows the site as
  `PeerCrypto.rotatePanics` / `PeerCrypto.derivePanics`, checked by `PeerCrypto.handleMessage` before `handleRotate`.
  (Not modelled: the few 32-byte low-order points for which ring also rejects the all-zero shared secret.)

  * `keyholder_can_panic`: the concrete witness, at `PeerCrypto.handleMessage` and at `Node.handleNet` level, from a well-formed node and
    with an AEAD view that satisfies `NonEmptySeals`: the plaintext replayed on the real code (`10` + 8-byte id + `05` + 5 bytes + `00`).
  * `panic_needs_session_seal`, `outsider_cannot_reach_site`, `outsider_cannot_panic_node`: whoever makes `handle_message` panic on a
    datagram without handshake marker has sealed it under a key of a slot of the session's core (`C02.accepted_is_genuine`); a datagram
    that is no such seal is rejected by the core — error, session object unchanged, `handle_rotate_message` never called
    (`C09More.rejected_by_core_keeps_session`).
  * `own_rotation_messages_valid`: every rotation message the session layer itself seals (`every_second`: `cycle`; the end of the handshake:
    `RotationState::new`) carries 32-byte keys, so it satisfies the hypothesis `ValidRotKeys` of `C08Node.never_panics`; payload seals
    (`send_message`, type ≠ ROTATION) are no rotation messages.  The hypothesis can only be violated by a key holder that does not run this code.
  * `honest_sessions_never_panic`: in the two-session system of `C07Session` (two established sessions, ticks, payload sends, delivery of
    anything the other one ever emitted, in any order and multiplicity) `handle_message` never panics — so the refinement theorems of
    `C07Session`, whose steps are the non-panicking outcomes, lose no behaviour of two honest sessions.
-/
namespace VpnCloud.Proofs.RotPanic

open VpnCloud VpnCloud.Node VpnCloud.Codec
open VpnCloud.Proofs.NodeLemmas VpnCloud.Proofs.NodeInvLemmas VpnCloud.Proofs.C09MoreLemmas VpnCloud.Proofs.RotPanicLemmas
open VpnCloud.Proofs.InitLemmas

/-! ## 1. a key holder can make the node panic -/

/-- `= .panic`, decidably (`POutcome` carries functions, so it has no decidable equality) -/
def isPanic {α : Type} : POutcome α → Bool
  | .panic => true
  | _ => false

theorem isPanic_iff {α : Type} (r : POutcome α) : isPanic r = true ↔ r = .panic := by
  cases r <;> simp [isPanic]

namespace Witness
open VpnCloud.Proofs.C09More

/-- the plaintext replayed on the real code: type ROTATION (`0x10`), id 1, a proposed key of FIVE bytes, no confirmation -/
def shortPropose : Bytes := [Generated.MESSAGE_TYPE_ROTATION, 0, 0, 0, 0, 0, 0, 0, 1, 5, 1, 2, 3, 4, 5, 0]

/-- id 3, a proposed key of 32 bytes, a confirmed key of FIVE bytes -/
def shortConfirm : Bytes :=
  [Generated.MESSAGE_TYPE_ROTATION, 0, 0, 0, 0, 0, 0, 0, 3, 32] ++ List.replicate 32 9 ++ [5, 1, 2, 3, 4, 5]

/-- ideal-AEAD view: every ciphertext opens as the seal of `plain` under the session key 7 of slot 0 with the nonce of counter 5 — what the
    HOLDER of that key can put on the wire -/
def sealOf (plain : Bytes) : Init.BodyOf := fun _ => .sealed 7 (HALF + 5) plain

/-- the session of `C09More.Ex2.p` (core with key 7 in slot 0, rotation state of the handshake initiator: id 0, nothing proposed) … -/
def pcY : PeerCrypto := Ex2.p.crypto
/-- … and the same with the rotation state of the handshake responder (id 1, own proposal outstanding) -/
def pcX : PeerCrypto := { Ex2.p.crypto with rot := some (PeerCrypto.initSide true 5) }

/-- 8 header bytes (slot 0, counter 5) and 17 more bytes -/
def dgram : Bytes := Ex2.data5

/-- a node with the established peer `Ex2.s ↦ Ex2.p` is well-formed in the sense of `C08Node` -/
theorem nodeWF : C08Node.NodeWF Ex2.n := by
  constructor
  · intro a pc hm; cases hm
  · intro a p hm i hi
    simp only [Ex2.n, List.mem_singleton, Prod.mk.injEq] at hm
    obtain ⟨_, rfl⟩ := hm
    cases hi

theorem nonEmpty_shortPropose : NonEmptySeals (sealOf shortPropose) := by
  intro ct k n p h
  simp only [sealOf, Body.sealed.injEq] at h
  rw [← h.2.2]; decide

end Witness

open Witness in
/-- **keyholder_can_panic**: a peer with an established session (the holder of the session key) crashes the node with ONE datagram — a sealed
    ROTATION message whose proposed key has 5 bytes (the input replayed on the Rust code: `panicked at src/crypto/rotate.rs:145`), or
    whose confirmed key has 5 bytes when an own proposal is outstanding.  At session level and at node level, from a well-formed node,
    with an AEAD view in which no genuine seal is empty (so `NonEmptySeals` alone does not give `never_panics`). -/
theorem keyholder_can_panic :
    PeerCrypto.handleMessage Toy.env (sealOf shortPropose) payloadOk pcY dgram [] {} {} = .panic ∧
    PeerCrypto.handleMessage Toy.env (sealOf shortConfirm) payloadOk pcX dgram [] {} {} = .panic ∧
    (C08Node.NodeWF C09More.Ex2.n ∧ NonEmptySeals (sealOf shortPropose) ∧
      (handleNet Toy.env (sealOf shortPropose) C09More.Cex1.o C09More.Ex2.n 100 C09More.Ex2.s dgram []).1.panicked = true) := by
  refine ⟨(isPanic_iff _).1 (by decide), (isPanic_iff _).1 (by decide), nodeWF, nonEmpty_shortPropose, by decide⟩

open Witness in
/-- the order of the checks is that of the Rust (`process_message`): the same malformed messages are harmless when their id is not newer
    than the own one (early `return None`), a malformed CONFIRMED key is harmless when no own proposal is outstanding
    (`self.proposed.take()` is `None`), and a plain session ignores rotation messages altogether -/
example :
    isPanic (PeerCrypto.handleMessage Toy.env (sealOf shortPropose) payloadOk pcX dgram [] {} {}) = false ∧
    isPanic (PeerCrypto.handleMessage Toy.env (sealOf shortConfirm) payloadOk pcY dgram [] {} {}) = false ∧
    isPanic (PeerCrypto.handleMessage Toy.env (sealOf shortPropose) payloadOk { init := none, unencrypted := true } shortPropose [] {} {}) = false := by
  decide

/-! ## 2. a sender without the session keys cannot reach the site -/

/-- **panic_needs_session_seal**: if `handle_message` panics on a datagram without the handshake marker, then the session is encrypted and
    the ciphertext of the datagram is — in the ideal-AEAD view — a seal under the key of the addressed slot of the session's core with exactly
    the reconstructed nonce (so its maker holds that key), and what is sealed is either the empty plaintext (`take_prefix`) or a ROTATION
    message whose keys are not all 32 bytes long (`derive_key(..).unwrap()`). -/
theorem panic_needs_session_seal (env : CryptoEnv) (bodyOf : Init.BodyOf) (ok : Bytes → Bool) (pc : PeerCrypto) (data tail : Bytes)
    (rnd : Rand) (rr : RotRand) (hinit : data.head? ≠ some Generated.INIT_MESSAGE_FIRST_BYTE)
    (h : PeerCrypto.handleMessage env bodyOf ok pc data tail rnd rr = .panic) :
    pc.unencrypted = false ∧ ∃ core k plain, pc.core = some core ∧ core.slots[(dgramOf bodyOf data).keyId]? = some k ∧
      bodyOf (data.drop 8) = .sealed k.key (core.reconstruct (dgramOf bodyOf data).counter) plain ∧
      (plain = [] ∨ ∃ body, plain = Generated.MESSAGE_TYPE_ROTATION :: body ∧ ¬ RotKeysOK body ∧
        PeerCrypto.rotatePanics { pc with core := some (core.decrypt (dgramOf bodyOf data)).1 } body = true) := by
  rw [handleMessage_eq] at h
  cases data with
  | nil => cases h
  | cons b0 rest =>
    have hb : ¬ b0 = Generated.INIT_MESSAGE_FIRST_BYTE := by
      intro hb; apply hinit; rw [hb]; rfl
    simp only [hb, if_false] at h
    rcases decMsg_cases bodyOf pc (b0 :: rest) with ⟨hu, hd⟩ | ⟨_, _, hd⟩ | ⟨c, hu, hc, ⟨e', _, hd⟩ | ⟨plain, hp, hd⟩⟩
    · exfalso
      rw [hd] at h
      simp only [] at h
      rw [rotatePanics_unencrypted pc _ hu] at h
      split at h
      · simp only [Bool.false_eq_true, if_false] at h
        split at h <;> cases h
      · cases h
    · rw [hd] at h; cases h
    · rw [hd] at h; cases h
    · obtain ⟨_, _, k, hk, hbody⟩ := VpnCloud.Proofs.C02.accepted_is_genuine c _ plain hp
      refine ⟨hu, c, k, plain, hc, hk, hbody, ?_⟩
      rw [hd] at h
      cases plain with
      | nil => exact Or.inl rfl
      | cons ty body =>
        right
        simp only [] at h
        split at h
        · rename_i hty
          have hdata : body ++ (if ({ pc with core := some (c.decrypt (dgramOf bodyOf (b0 :: rest))).1 } : PeerCrypto).unencrypted
              then tail else []) = body := by
            show body ++ (if pc.unencrypted = true then tail else []) = body
            rw [hu]; simp
          rw [hdata] at h
          by_cases hpan : PeerCrypto.rotatePanics { pc with core := some (c.decrypt (dgramOf bodyOf (b0 :: rest))).1 } body = true
          · exact ⟨body, by rw [hty], not_keysOK_of_rotatePanics _ _ hpan, hpan⟩
          · rw [if_neg hpan] at h
            split at h <;> cases h
        · cases h

/-- **outsider_cannot_reach_site**: a datagram without the handshake marker whose ciphertext is no seal under a key of the session's core
    (`NoSessionSeal`: garbage, or a seal under some other key — all that a sender without the session keys can make, apart from replaying
    what a key holder sealed) is rejected by the core: `handle_message` returns a non-fatal error and the UNCHANGED session object; it does
    not get as far as `handle_rotate_message`, let alone `derive_key`. -/
theorem outsider_cannot_reach_site (env : CryptoEnv) (bodyOf : Init.BodyOf) (ok : Bytes → Bool) (pc : PeerCrypto) (core : Core)
    (data tail : Bytes) (rnd : Rand) (rr : RotRand) (hinit : data.head? ≠ some Generated.INIT_MESSAGE_FIRST_BYTE)
    (hu : pc.unencrypted = false) (hc : pc.core = some core) (hout : NoSessionSeal bodyOf core data) :
    ∃ e, PeerCrypto.handleMessage env bodyOf ok pc data tail rnd rr = .err pc e ∧ e ≠ .cryptoInitFatal :=
  C09More.rejected_by_core_keeps_session env bodyOf ok pc core data tail rnd rr hinit hu hc (noSessionSeal_rejected bodyOf core data hout)

/-- … and a plain (unencrypted) session never reaches the site at all, whatever it receives -/
theorem plain_session_cannot_reach_site (env : CryptoEnv) (bodyOf : Init.BodyOf) (ok : Bytes → Bool) (pc : PeerCrypto)
    (data tail : Bytes) (rnd : Rand) (rr : RotRand) (hinit : data.head? ≠ some Generated.INIT_MESSAGE_FIRST_BYTE)
    (hu : pc.unencrypted = true) : PeerCrypto.handleMessage env bodyOf ok pc data tail rnd rr ≠ .panic := by
  intro h
  have := (panic_needs_session_seal env bodyOf ok pc data tail rnd rr hinit h).1
  rw [hu] at this
  cases this

/-- node level: such a datagram from the address of an established peer does not make the node panic; nothing is sent or written, and the
    peer record (session object included), the routes and the pending handshakes are exactly as before — only the invalid-packet counter moves -/
theorem outsider_cannot_panic_node (env : CryptoEnv) (bodyOf : Init.BodyOf) (o : Oracle) (n : Node) (now : Int) (src : NAddr) (data tail : Bytes)
    (p : Peer) (core : Core) (hp : lookupA n.peers (mappedAddr src) = some p)
    (hinit : data.head? ≠ some Generated.INIT_MESSAGE_FIRST_BYTE)
    (hu : p.crypto.unencrypted = false) (hc : p.crypto.core = some core) (hout : NoSessionSeal bodyOf core data) :
    let r := handleNet env bodyOf o n now src data tail
    r.1.panicked = false ∧ r.1.outs = [] ∧ lookupA r.1.node.peers (mappedAddr src) = some p ∧
    r.1.node.table = n.table ∧ r.1.node.pending = n.pending ∧ r.1.node.peers.map (·.1) = n.peers.map (·.1) := by
  obtain ⟨h1, h2, h3, h4, h5, _, h7, _⟩ :=
    C09More.forged_data_keeps_peer env bodyOf o n now src data tail p core hp hinit hu hc (noSessionSeal_rejected bodyOf core data hout)
  exact ⟨h3, h2, h1, h4, h5, h7⟩

/-! ## 3. what the code itself seals is valid -/

/-- **own_rotation_messages_valid**: the rotation messages the session layer produces carry X25519 public keys of 32 bytes
    (`create_key` → `compute_public_key`):
    (1) the wire form of every message `rotMsgToBytes` builds is read back (`read_from`) with a 32-byte proposed key and, if present, a
        32-byte confirmed key — for every id and every key number;
    (2) every seal `every_second` logs is the seal of such a message (the one `RotationState::cycle` returned), so every ROTATION seal in
        its log satisfies `RotKeysOK`;
    (3) the log of `handle_init_message` is the log of the handshake layer (seals of the handshake payload, a node info — not a transport
        message) followed by nothing or by the seal of the first rotation message (`RotationState::new`), which satisfies `RotKeysOK`;
    (4) `send_message` seals `type :: body`; with `type ≠ MESSAGE_TYPE_ROTATION` (`assert_ne!` in the Rust) that is no rotation message.
    So in a run in which every key holder runs this code, every genuine seal of a ROTATION message meets `ValidRotKeys`. -/
theorem own_rotation_messages_valid :
    (∀ m : Rot.Msg, RotKeysOK (writeRotMsg (PeerCrypto.rotMsgToBytes m))) ∧
    (∀ pc rr pc' out res log, PeerCrypto.everySecond pc rr = .ok pc' out res log → LogRot log ∧ LogRotValid log) ∧
    (∀ env bodyOf ok pc w rnd rr pc' out res log, PeerCrypto.handleInitMessage env bodyOf ok pc w rnd rr = .ok pc' out res log →
      ∃ ist ist' out0 r0 ilog log', pc.init = some ist ∧ Init.handleInit env bodyOf ok ist w rnd = .ok ist' (out0, r0, ilog) ∧
        log = ilog ++ log' ∧ LogRot log' ∧ LogRotValid log') ∧
    (∀ pc ty body ct pc' bytes log, ty ≠ Generated.MESSAGE_TYPE_ROTATION →
      PeerCrypto.sendMessage pc ty body ct = (pc', .ok (bytes, log)) → LogRotValid log) := by
  refine ⟨written_keysOK, ?_, ?_, ?_⟩
  · intro pc rr pc' out res log h
    have := everySecond_logRot pc rr
    rw [h] at this
    exact ⟨this, LogRot.valid this⟩
  · intro env bodyOf ok pc w rnd rr pc' out res log h
    rw [handleInitMessage_eq] at h
    split at h
    · cases h
    · rename_i ist hi
      split at h
      · cases h
      · cases h
      · rename_i ist' out0 r0 ilog hr
        refine ⟨ist, ist', out0, r0, ilog, ?_⟩
        cases r0 with
        | «continue» =>
          simp only [POutcome.ok.injEq] at h
          exact ⟨[], hi, hr, by rw [← h.2.2.2, List.append_nil], logRot_nil, LogRot.valid logRot_nil⟩
        | success payload isInit =>
          simp only [] at h
          have := successOut_logRot (successPc pc ist') ist'.crypto isInit
            (if out0.isEmpty then [] else Generated.INIT_MESSAGE_FIRST_BYTE :: out0) payload ilog rr
          rw [h] at this
          obtain ⟨log', h1, h2⟩ := this
          exact ⟨log', hi, hr, h1, h2, LogRot.valid h2⟩
  · intro pc ty body ct pc' bytes log hty h
    intro ct' k n b hm
    exfalso
    unfold PeerCrypto.sendMessage PeerCrypto.sealMsg at h
    split at h
    · simp only [Prod.mk.injEq, Except.ok.injEq] at h
      rw [← h.2.2] at hm; cases hm
    · split at h
      · cases h
      · rename_i c hc
        simp only [Prod.mk.injEq, Except.ok.injEq] at h
        rw [← h.2.2] at hm
        simp only [List.mem_singleton, Prod.mk.injEq] at hm
        have := core_encrypt_body c (ty :: body) k n _ hm.2.symm
        simp only [List.cons.injEq] at this
        exact hty this.1.symm

/-! ## 4. `ValidRotKeys`: non-vacuity, and it is what `never_panics` needs -/

namespace Good
open VpnCloud.Proofs.C09More

/-- the first rotation message of a session whose first public key is the number 5, as `write_to` writes it -/
def plain0 : Bytes := Generated.MESSAGE_TYPE_ROTATION :: writeRotMsg (PeerCrypto.rotMsgToBytes ⟨1, 5, none⟩)

/-- ideal-AEAD view: the ciphertext `[1, 2, …, 17]` is the seal of that message under key 7 with the nonce of counter 5; all else is garbage -/
def bodyOf : Init.BodyOf := fun ct => if ct = List.range' 1 17 then .sealed 7 (HALF + 5) plain0 else .garbage ct.length

def dgram : Bytes := [0, 0, 0, 0, 0, 0, 0, 5] ++ List.range' 1 17

theorem nonEmpty : NonEmptySeals bodyOf := by
  intro ct k n p h
  unfold bodyOf at h
  split at h
  · simp only [Body.sealed.injEq] at h
    rw [← h.2.2]; simp [plain0]
  · cases h

theorem valid : ValidRotKeys bodyOf := by
  intro ct k n body h
  unfold bodyOf at h
  split at h
  · simp only [Body.sealed.injEq, plain0, List.cons.injEq, true_and] at h
    rw [← h.2.2]
    exact written_keysOK _
  · cases h

end Good

/-- non-vacuity of the hypotheses `NonEmptySeals` and `ValidRotKeys` of `C08Node.never_panics`: an AEAD view that has a genuine seal of a
    rotation message satisfies both; the node of `C09More.Ex2` opens the datagram, hands the message to `handle_rotate_message`, does not
    panic, and its rotation state then holds the reply key pair (`pending`) -/
example : NonEmptySeals Good.bodyOf ∧ ValidRotKeys Good.bodyOf ∧ C08Node.NodeWF C09More.Ex2.n ∧
    (handleNet Toy.env Good.bodyOf C09More.Cex1.o C09More.Ex2.n 100 C09More.Ex2.s Good.dgram []).1.panicked = false ∧
    ((lookupA (handleNet Toy.env Good.bodyOf C09More.Cex1.o C09More.Ex2.n 100 C09More.Ex2.s Good.dgram []).1.node.peers C09More.Ex2.s).bind
        (fun p => p.crypto.rot.map (fun sd => sd.pending.isSome))) = some true ∧
    (C09More.Ex2.p.crypto.rot.map (fun sd => sd.pending.isSome)) = some false := by
  refine ⟨Good.nonEmpty, Good.valid, Witness.nodeWF, ?_, ?_, rfl⟩
  · exact (C08Node.handleNet_no_panic Toy.env Good.bodyOf _ _ 100 _ _ [] Witness.nodeWF Good.nonEmpty Good.valid).1
  · decide +kernel

/-- `ValidRotKeys` is needed in `C08Node.handleNet_no_panic` / `never_panics`: the AEAD view of `keyholder_can_panic` satisfies
    `NonEmptySeals` but not `ValidRotKeys`, and the well-formed node panics -/
example : NonEmptySeals (Witness.sealOf Witness.shortPropose) ∧ ¬ ValidRotKeys (Witness.sealOf Witness.shortPropose) := by
  refine ⟨Witness.nonEmpty_shortPropose, fun hv => ?_⟩
  have h := hv [] 7 (HALF + 5) [0, 0, 0, 0, 0, 0, 0, 1, 5, 1, 2, 3, 4, 5, 0] rfl ⟨1, [1, 2, 3, 4, 5], none⟩ (by decide)
  exact absurd h.1 (by decide)

/-! ## 5. two honest sessions never make each other panic -/

section TwoSessions
open VpnCloud.Rot VpnCloud.Proofs.C07Session VpnCloud.Proofs.C07SessionLemmas

/-- what the datagram carries — if its ciphertext is a genuine seal at all — is not empty, and if it is a ROTATION message its keys have 32 bytes -/
def DgramOK (bodyOf : Init.BodyOf) (d : Bytes) : Prop :=
  ∀ k n p, bodyOf (d.drop 8) = .sealed k n p → p ≠ [] ∧ ∀ body, p = Generated.MESSAGE_TYPE_ROTATION :: body → RotKeysOK body

def SentOK (bodyOf : Init.BodyOf) (l : List Bytes) : Prop := ∀ d ∈ l, DgramOK bodyOf d

/-- such a datagram (without handshake marker) makes NO session panic, whatever its state -/
theorem dgramOK_no_panic (env : CryptoEnv) (bodyOf : Init.BodyOf) (ok : Bytes → Bool) (pc : PeerCrypto) (d tail : Bytes) (rnd : Rand) (rr : RotRand)
    (hinit : d.head? ≠ some Generated.INIT_MESSAGE_FIRST_BYTE) (hd : DgramOK bodyOf d) :
    PeerCrypto.handleMessage env bodyOf ok pc d tail rnd rr ≠ .panic := by
  intro h
  obtain ⟨_, core, k, plain, _, _, hb, hcase⟩ := panic_needs_session_seal env bodyOf ok pc d tail rnd rr hinit h
  obtain ⟨h1, h2⟩ := hd _ _ _ hb
  rcases hcase with he | ⟨body, hp, hbad, _⟩
  · exact h1 he
  · exact hbad (h2 body hp)

variable (env : CryptoEnv) (bodyOf : Init.BodyOf) (payloadOk : Bytes → Bool)

/-- every operation of an established session keeps "all I have emitted is well-formed": a tick emits nothing or the sealed rotation message
    of its `cycle` (32-byte keys), a payload send emits `type :: body` with a type other than ROTATION -/
theorem op_sentOK {pc pc' : PeerCrypto} {own peer own' : List Bytes} {sd : Side} {c : Core} (h : Sess pc sd c)
    (hown : SentOK bodyOf own) (o : Op env bodyOf payloadOk pc own peer pc' own') : SentOK bodyOf own' := by
  cases o with
  | tick rr pc' out res log hf hid he hlog =>
    have := everySecond_eff h rr hf
    rw [he] at this
    obtain ⟨_, c', _, hcase⟩ := this
    rcases hcase with ⟨_, hl⟩ | ⟨_, hout⟩
    · subst hl; exact hown
    · cases hcy : (cycle sd rr.freshProp).2 with
      | none =>
        rw [hcy] at hout
        obtain ⟨hl, _⟩ := hout
        subst hl; exact hown
      | some m =>
        rw [hcy] at hout
        obtain ⟨hdr, key, n, hl8, _, ho, hl⟩ := hout
        subst hl ho
        have hb : bodyOf rr.ct = .sealed key n (Generated.MESSAGE_TYPE_ROTATION :: writeRotMsg (PeerCrypto.rotMsgToBytes m)) :=
          hlog (rr.ct, _) (List.mem_singleton.2 rfl)
        intro d hd
        simp only [List.isEmpty_cons, Bool.false_eq_true, if_false, List.mem_cons] at hd
        rcases hd with rfl | hd
        · intro k' n' p hp
          rw [List.drop_left' hl8, hb] at hp
          simp only [Body.sealed.injEq] at hp
          rw [← hp.2.2]
          refine ⟨by simp, fun body hbody => ?_⟩
          simp only [List.cons.injEq, true_and] at hbody
          rw [← hbody]
          exact written_keysOK m
        · exact hown d hd
  | tickErr rr pc' e hf he => exact hown
  | recv d hd tail rnd rr hf pc' out res log he => exact hown
  | recvErr d hd tail rnd rr hf pc' e he => exact hown
  | send ty body ct pc' bytes log hty he hlog =>
    obtain ⟨c', hdr, key, n, hs, _, hl8, _⟩ := sendMessage_eff h ty body ct
    rw [hs] at he
    simp only [Prod.mk.injEq, Except.ok.injEq] at he
    obtain ⟨rfl, rfl, rfl⟩ := he
    have hb : bodyOf ct = .sealed key n (ty :: body) := hlog (ct, _) (List.mem_singleton.2 rfl)
    intro d hd
    rcases List.mem_cons.1 hd with rfl | hd
    · intro k' n' p hp
      rw [List.drop_left' hl8, hb] at hp
      simp only [Body.sealed.injEq] at hp
      rw [← hp.2.2]
      refine ⟨by simp, fun b hbody => ?_⟩
      simp only [List.cons.injEq] at hbody
      exact absurd hbody.1 hty
    · exact hown d hd

theorem step_sentOK {s t : SSys} (h : Good bodyOf s) (hx : SentOK bodyOf s.sentX) (hy : SentOK bodyOf s.sentY)
    (st : SStep env bodyOf payloadOk s t) : SentOK bodyOf t.sentX ∧ SentOK bodyOf t.sentY := by
  obtain ⟨cx, cy, sx, sy, _⟩ := h.ex
  cases st with
  | x pc' own' o => exact ⟨op_sentOK env bodyOf payloadOk sx hx o, hy⟩
  | y pc' own' o => exact ⟨hx, op_sentOK env bodyOf payloadOk sy hy o⟩

/-- states reachable from `s0` by session operations -/
inductive SReachFrom (s0 : SSys) : SSys → Prop
  | refl : SReachFrom s0 s0
  | step {s t : SSys} (h : SReachFrom s0 s) (st : SStep env bodyOf payloadOk s t) : SReachFrom s0 t

theorem reachFrom_inv {s0 s : SSys} (h0 : InitPair bodyOf s0) (hv : SentOK bodyOf s0.sentX) (h : SReachFrom env bodyOf payloadOk s0 s) :
    SReachable env bodyOf payloadOk s ∧ SentOK bodyOf s.sentX ∧ SentOK bodyOf s.sentY := by
  induction h with
  | refl => exact ⟨.init h0, hv, by rw [h0.sentY]; intro d hd; cases hd⟩
  | step _ st ih =>
    obtain ⟨hr, hx, hy⟩ := ih
    exact ⟨.step hr st, step_sentOK env bodyOf payloadOk (good_reachable env bodyOf payloadOk hr) hx hy st⟩

/-- **honest_sessions_never_panic**: start from the pair of sessions right after a completed handshake (`InitPair`; what the responder has
    emitted so far — its first rotation message — is well-formed, `SentOK`, as `own_rotation_messages_valid` (3) shows for
    `handle_init_message`).  In every state reachable by ticks, payload sends and deliveries (any datagram the other session ever emitted,
    any number of times, in any order, with any stale buffer tail and any randomness), `handle_message` of either session on any datagram
    the other has emitted does not panic: neither `take_prefix` nor `derive_key(..).unwrap()` is reachable between two sessions that run
    this code. -/
theorem honest_sessions_never_panic {s0 s : SSys} (h0 : InitPair bodyOf s0) (hv : SentOK bodyOf s0.sentX)
    (h : SReachFrom env bodyOf payloadOk s0 s) (d tail : Bytes) (rnd : Rand) (rr : RotRand) :
    (d ∈ s.sentX → PeerCrypto.handleMessage env bodyOf payloadOk s.y d tail rnd rr ≠ .panic) ∧
    (d ∈ s.sentY → PeerCrypto.handleMessage env bodyOf payloadOk s.x d tail rnd rr ≠ .panic) := by
  obtain ⟨hr, hx, hy⟩ := reachFrom_inv env bodyOf payloadOk h0 hv h
  have hg := good_reachable env bodyOf payloadOk hr
  exact ⟨fun hd => dgramOK_no_panic env bodyOf payloadOk s.y d tail rnd rr (hg.hdrX d hd) (hx d hd),
         fun hd => dgramOK_no_panic env bodyOf payloadOk s.x d tail rnd rr (hg.hdrY d hd) (hy d hd)⟩

end TwoSessions

/-! ### non-vacuity of `honest_sessions_never_panic` -/
namespace Two
open VpnCloud.Rot VpnCloud.Proofs.C07Session VpnCloud.Proofs.C07SessionLemmas

/-- the session of the handshake responder (it starts the rotation with public key 5) and the one of the initiator (as in `C07Session`) -/
def sX : PeerCrypto :=
  { init := none, rot := some (PeerCrypto.initSide true 5), core := some (Core.new 7 true 9 [1, 2, 3, 4]), master := 7 }
def sY : PeerCrypto :=
  { init := none, rot := some (PeerCrypto.initSide false 0), core := some (Core.new 7 false 8 [0, 0, 0, 0]), master := 7 }
def plain0 : Bytes := Generated.MESSAGE_TYPE_ROTATION :: writeRotMsg (PeerCrypto.rotMsgToBytes ⟨1, 5, none⟩)
def d0 : Bytes := 0 :: Bytes.ofBE 7 (HALF + 2) ++ [1, 2, 3]
def bodyT : Init.BodyOf := fun ct => if ct = [1, 2, 3] then .sealed 7 (HALF + 2) plain0 else .garbage 0
def s0 : SSys := ⟨sX, sY, [d0], []⟩

theorem initPair0 : InitPair bodyT s0 := by
  refine ⟨⟨5, Core.new 7 true 9 [1, 2, 3, 4], Core.new 7 false 8 [0, 0, 0, 0], by decide,
    sess_initSide true 5 (by decide) rfl rfl rfl rfl rfl rfl, sess_initSide false 0 (by decide) rfl rfl rfl rfl rfl rfl, rfl,
    by decide +kernel⟩, rfl, ?_, rfl⟩
  intro d hd
  simp only [s0, List.mem_singleton] at hd
  subst hd
  decide

theorem sentOK0 : SentOK bodyT s0.sentX := by
  intro d hd
  simp only [s0, List.mem_singleton] at hd
  subst hd
  intro k n p hp
  have e : bodyT (d0.drop 8) = .sealed 7 (HALF + 2) plain0 := by decide
  rw [e] at hp
  simp only [Body.sealed.injEq] at hp
  rw [← hp.2.2]
  refine ⟨by simp [plain0], fun body hb => ?_⟩
  simp only [plain0, List.cons.injEq, true_and] at hb
  rw [← hb]
  exact written_keysOK _

/-- the hypotheses of `honest_sessions_never_panic` are satisfiable, and the conclusion is not vacuous: `sY` handles the first rotation
    message of `sX` (an `.ok` outcome) -/
example : InitPair bodyT s0 ∧ SentOK bodyT s0.sentX ∧ d0 ∈ s0.sentX ∧
    isPanic (PeerCrypto.handleMessage Toy.env bodyT (fun _ => true) s0.y d0 [] {} { freshPend := 6 }) = false :=
  ⟨initPair0, sentOK0, List.mem_singleton.2 rfl, by decide +kernel⟩

end Two

/-! ## 6. node level: every rotation message a node ever seals is valid

  The analogue of `C08Node.own_seals_nonempty` for `ValidRotKeys`: the generic node invariant `GI` of `NodeInvLemmas` with the log predicate
  "every sealed plaintext that is a ROTATION message carries 32-byte keys" (`LogP ValidPlain`).  The seals of a node are: payload messages
  (`send_message` with the types DATA / NODE_INFO, never ROTATION), rotation messages (`every_second`, end of the handshake: written from
  32-byte keys) and the handshake payload in pong / peng (a node info: it starts with the tag `NI_PART_NODEID`, not with `0x10`). -/
section NodeLevel
open VpnCloud.Proofs.LogPLemmas VpnCloud.Proofs.NodeLemmas2

/-- if the plaintext is a ROTATION message, its keys have 32 bytes -/
def ValidPlain (p : Bytes) : Prop := ∀ body, p = Generated.MESSAGE_TYPE_ROTATION :: body → RotKeysOK body

theorem validPlain_rot (m : Rot.Msg) : ValidPlain (Generated.MESSAGE_TYPE_ROTATION :: writeRotMsg (PeerCrypto.rotMsgToBytes m)) := by
  intro body h
  simp only [List.cons.injEq, true_and] at h
  rw [← h]; exact written_keysOK m

theorem validPlain_other (ty : Nat) (body : Bytes) (h : ty ≠ Generated.MESSAGE_TYPE_ROTATION) : ValidPlain (ty :: body) := by
  intro b hb
  simp only [List.cons.injEq] at hb
  exact absurd hb.1 h

theorem validPlain_nodeInfo (i : NodeInfo) : ValidPlain (encodeNodeInfo i) := by
  intro b hb
  simp [encodeNodeInfo, encodePart, Generated.NI_PART_NODEID, Generated.MESSAGE_TYPE_ROTATION] at hb

theorem logRot_logP {log : Init.SealLog} (h : LogRot log) : LogP ValidPlain log := by
  intro ct b hm k n p hb
  obtain ⟨m, hp⟩ := h ct b hm k n p hb
  rw [hp]; exact validPlain_rot m

/-- the own payload of every handshake object of the node is no malformed rotation message -/
def PayV (n : Node) : Prop :=
  (∀ a pc, (a, pc) ∈ n.pending → ∀ i, pc.init = some i → ValidPlain i.payload) ∧
  (∀ a p, (a, p) ∈ n.peers → ∀ i, p.crypto.init = some i → ValidPlain i.payload)

def SD : SI where
  Q := PayP ValidPlain
  R := PayP ValidPlain
  T := False
  P := False
  L := True
  q_new := by
    intro env n hash rnd ist hist i hi
    simp only [Option.some.injEq] at hi
    subst hi
    rw [C08Node.sendPing_payload]
    simp only [newAttempt, Option.some.injEq] at hist
    subst hist
    exact validPlain_nodeInfo _
  q_att := by
    intro n hash i hi
    simp only [newAttempt, Option.some.injEq] at hi
    subst hi
    exact validPlain_nodeInfo _
  r_seal := fun pc ty body ct h => h.of_init (sealMsg_init pc (ty :: body) ct)
  LG := LogP ValidPlain
  lg_nil := logP_nil
  lg_append := fun _ _ h1 h2 => h1.append h2
  lg_send := fun pc ty body ct bytes log hty h => sendMessage_payP pc ty body ct bytes log h (validPlain_other ty body hty)

theorem payV_iff (c : Ctx) : (LogP ValidPlain c.log ∧ PayV c.node) ↔ GI SD c := by
  unfold PayV GI GIx
  constructor
  · rintro ⟨hl, hq, hr⟩
    exact ⟨fun a pc hm _ => hq a pc hm, hr, fun hf => hf.elim, fun hf => hf.elim, fun _ => hl⟩
  · rintro ⟨hq, hr, _, _, hl⟩
    exact ⟨hl trivial, fun a pc hm => hq a pc hm (by simp), hr⟩

theorem sokD (env : CryptoEnv) (bodyOf : Init.BodyOf) (pc : PeerCrypto) (inPeers : Bool) (data tail : Bytes)
    (rnd : Rand) (rr : RotRand) (h : if inPeers then SD.R pc else SD.Q pc) :
    SOK SD inPeers (PeerCrypto.handleMessage env bodyOf payloadOk pc data tail rnd rr) := by
  have hp : PayP ValidPlain pc := by cases inPeers <;> exact h
  have hg := handleMessage_payP (P := ValidPlain) validPlain_rot env bodyOf payloadOk pc data tail rnd rr
  generalize PeerCrypto.handleMessage env bodyOf payloadOk pc data tail rnd rr = r at hg
  refine { no_panic := fun hf => hf.elim, err_peers := ?_, err_pend := ?_, ok_peers := ?_, ok_pend := ?_, msg := fun hf => hf.elim, log_ok := ?_ }
  · intro _ pc' e hr
    subst hr
    exact hg hp
  · intro _ pc' e hr
    subst hr
    exact Or.inr (hg hp)
  · intro _ pc' out res log hr
    subst hr
    exact (hg hp).1
  · intro _ pc' out res log hr
    subst hr
    by_cases hres : IsInitRes res
    · obtain ⟨p, hp'⟩ := hres
      exact Or.inr ⟨p, hp', (hg hp).1, Or.inl (hg hp).1⟩
    · exact Or.inl ⟨hres, (hg hp).1⟩
  · intro _ pc' out res log hr
    subst hr
    exact (hg hp).2

theorem tokD (pc : PeerCrypto) (rr : RotRand) :
    (SD.Q pc → TOK SD SD.Q (PeerCrypto.everySecond pc rr)) ∧ (SD.R pc → TOK SD SD.R (PeerCrypto.everySecond pc rr)) := by
  have hs := everySecond_spec pc rr
  have hl := everySecond_logRot pc rr
  generalize PeerCrypto.everySecond pc rr = r at hs hl
  have key : PayP ValidPlain pc → TOK SD (PayP ValidPlain) r := by
    intro hq
    refine { no_panic := fun hf => hf.elim, ok := ?_, log_ok := ?_ }
    · intro pc' out res log hr
      subst hr
      intro i hi
      rw [hs.1] at hi
      exact tickInit_payP pc hq i hi
    · intro _ pc' out res log hr
      subst hr
      exact logRot_logP hl
  exact ⟨key, key⟩

theorem stepAny_rot_valid {n : Node} {c : Ctx} (h : PayV n) (hs : C08Node.StepAny n c) : LogP ValidPlain c.log ∧ PayV c.node := by
  have h0 : GI SD { node := n } := (payV_iff { node := n }).1 ⟨logP_nil, h⟩
  rw [payV_iff]
  cases hs with
  | net env bodyOf o _ now src data tail =>
    exact handleNet_GI SD env bodyOf o n now src data tail h0 (fun pc inPeers rnd rr hpc => sokD env bodyOf pc inPeers data tail rnd rr hpc) (fun hf => hf.elim)
  | iface o _ now data => exact handleIface_GI SD o n now data h0
  | tick env o _ now => exact housekeep_GI SD env o n now h0 tokD (fun hf => hf.elim)
  | dial env o _ addrs => exact connect_GI SD none env o { node := n } addrs h0

theorem payV_reach {n0 n : Node} (h0 : PayV n0) (h : C08Node.ReachAny n0 n) : PayV n := by
  induction h with
  | init => exact h0
  | step _ hs ih => exact (stepAny_rot_valid ih hs).2

/-- **own_rotation_seals_valid** (node level): in every history that starts from a node without sessions — whatever the network delivers,
    for every cryptography, oracle and time — every seal of a ROTATION message in the seal log of every step carries 32-byte keys.  So a
    node of this model never violates `ValidRotKeys` itself; only a key holder that does not run this code can. -/
theorem own_rotation_seals_valid (n0 n : Node) (c : Ctx) (h0 : n0.peers = [] ∧ n0.pending = []) (h : C08Node.ReachAny n0 n)
    (hs : C08Node.StepAny n c) :
    ∀ ct k nonce body, (ct, Body.sealed k nonce (Generated.MESSAGE_TYPE_ROTATION :: body)) ∈ c.log → RotKeysOK body := by
  have hwf0 : PayV n0 := by
    obtain ⟨h1, h2⟩ := h0
    refine ⟨?_, ?_⟩
    · intro a pc hm; rw [h2] at hm; cases hm
    · intro a p hm; rw [h1] at hm; cases hm
  intro ct k nonce body hm
  exact (stepAny_rot_valid (payV_reach hwf0 h) hs).1 ct _ hm k nonce _ rfl body rfl

namespace NodeEx
/-- an established peer whose own proposal is outstanding, timeout armed, one tick before `ROTATE_INTERVAL` -/
def pcR : PeerCrypto :=
  { C09More.Ex2.p.crypto with rot := some { PeerCrypto.initSide true 5 with timeout := true }, rotateCounter := 119 }
def pR : Peer := { C09More.Ex2.p with timeout := 1000, crypto := pcR }
def nR : Node := { C09More.Ex2.n with nextPeers := 1000, peers := [(C09More.Ex2.s, pR)] }
end NodeEx

/-- non-vacuity: the seal log of a step does contain rotation messages — the tick on which the rotate counter of an established peer
    reaches `ROTATE_INTERVAL` seals the repeated first rotation message (and nothing else); the node satisfies the invariant `PayV`, so
    `stepAny_rot_valid` applies to this step -/
example : PayV NodeEx.nR ∧ C08Node.StepAny NodeEx.nR (housekeep Toy.env C09More.Cex1.o NodeEx.nR 100) ∧
    (housekeep Toy.env C09More.Cex1.o NodeEx.nR 100).log.map (fun e => match e.2 with | .sealed _ _ (t :: _) => t | _ => 0) =
      [Generated.MESSAGE_TYPE_ROTATION] := by
  refine ⟨⟨fun a pc hm => (by cases hm), ?_⟩, .tick _ _ _ _, by decide +kernel⟩
  intro a p hm i hi
  simp only [NodeEx.nR, List.mem_singleton, Prod.mk.injEq] at hm
  obtain ⟨_, rfl⟩ := hm
  cases hi

end NodeLevel

end VpnCloud.Proofs.RotPanic
