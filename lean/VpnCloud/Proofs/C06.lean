import VpnCloud.Model.PeerCrypto
import VpnCloud.Spec.C06
import VpnCloud.Proofs.Lemmas.NegoLemmas
/-
  C06 — cipher negotiation: the model of `select_algorithm` computes the declarative reference
  `selectRef`, which is symmetric, independent of list order, chooses plain iff both sides enabled it,
  fails iff no cipher is shared, and otherwise picks the common cipher whose slower side is fastest.
-/
namespace VpnCloud.Proofs.C06
open VpnCloud VpnCloud.Init VpnCloud.Spec.C06 VpnCloud.Proofs.NegoLemmas

/-- the model of `select_algorithm` computes the declarative reference (for lists without duplicate ciphers);
    only `NoDup own` is used: the peer's list is looked up with `find`, exactly as `speedOf` does -/
theorem select_spec (own peer : Algos) (ho : NoDup own) (hp : NoDup peer) :
    selectAlgorithm own peer = (match selectRef own peer with
      | .plain => .ok none | .cipher c => .ok (some c) | .fail => .error .cryptoInitFatal) := by
  have _ := hp
  by_cases hb : own.allowUnencrypted = true ∧ peer.allowUnencrypted = true
  · rw [selectAlgorithm_plain _ _ hb, selectRef_plain _ _ hb]
  · have hm : ∀ z, z ∈ cands own peer ↔ z ∈ common own peer := fun z => mem_cands ho
    rcases selectAlgorithm_not_plain own peer hb with ⟨hc, e⟩ | ⟨best, hmax, e⟩
    · rcases selectRef_not_plain own peer hb with ⟨_, e'⟩ | ⟨best', hmax', _⟩
      · rw [e, e']
      · have := (hm _).2 hmax'.1
        rw [hc] at this; simp at this
    · rcases selectRef_not_plain own peer hb with ⟨hc', _⟩ | ⟨best', hmax', e'⟩
      · have := (hm _).1 hmax.1
        rw [hc'] at this; simp at this
      · rw [e, e', isMax_unique hm hmax hmax']

/-- the reference is symmetric: both ends select the same -/
theorem selectRef_symm (a b : Algos) : selectRef a b = selectRef b a := by
  unfold selectRef
  rw [common_symm a b, Bool.and_comm]

theorem select_symm (a b : Algos) (ha : NoDup a) (hb : NoDup b) : selectAlgorithm a b = selectAlgorithm b a := by
  rw [select_spec a b ha hb, select_spec b a hb ha, selectRef_symm]

/-- `selectRef` depends on the lists only through `speedOf` -/
theorem selectRef_congr (a a' b : Algos) (hs : ∀ c, speedOf a c = speedOf a' c)
    (hu : a.allowUnencrypted = a'.allowUnencrypted) : selectRef a b = selectRef a' b := by
  have hc : common a b = common a' b := by
    unfold common
    congr 1
    funext c
    rw [hs c]
  unfold selectRef
  rw [hc, hu]

/-- list order is irrelevant -/
theorem selectRef_perm (a a' b : Algos) (h : a.speeds.Perm a'.speeds) (hu : a.allowUnencrypted = a'.allowUnencrypted) (ha : NoDup a) :
    selectRef a b = selectRef a' b :=
  selectRef_congr a a' b (speedOf_perm h ha) hu

/-- unencrypted operation only if both enabled it -/
theorem plain_iff_both (a b : Algos) : selectRef a b = .plain ↔ (a.allowUnencrypted = true ∧ b.allowUnencrypted = true) := by
  constructor
  · intro h
    by_cases hb : a.allowUnencrypted = true ∧ b.allowUnencrypted = true
    · exact hb
    · rcases selectRef_not_plain a b hb with ⟨_, e⟩ | ⟨_, _, e⟩ <;> rw [e] at h <;> cases h
  · exact selectRef_plain a b

/-- the handshake fails cleanly iff they share no cipher (and did not both enable plain) -/
theorem fail_iff_none_common (a b : Algos) :
    selectRef a b = .fail ↔ (¬ (a.allowUnencrypted = true ∧ b.allowUnencrypted = true) ∧ ∀ c, speedOf a c = none ∨ speedOf b c = none) := by
  constructor
  · intro h
    by_cases hb : a.allowUnencrypted = true ∧ b.allowUnencrypted = true
    · rw [selectRef_plain a b hb] at h; cases h
    · refine ⟨hb, ?_⟩
      rcases selectRef_not_plain a b hb with ⟨hc, _⟩ | ⟨_, _, e⟩
      · exact common_eq_nil.1 hc
      · rw [e] at h; cases h
  · rintro ⟨hb, hn⟩
    rcases selectRef_not_plain a b hb with ⟨_, e⟩ | ⟨best, hmax, _⟩
    · exact e
    · have := hmax.1
      rw [common_eq_nil.2 hn] at this; simp at this

/-- the selected cipher is common to both and its slower side is fastest among the common ones -/
theorem selected_is_best (a b : Algos) (c : Cipher) (h : selectRef a b = .cipher c) :
    ∃ x y, speedOf a c = some x ∧ speedOf b c = some y ∧
      ∀ c' x' y', speedOf a c' = some x' → speedOf b c' = some y' → min x' y' ≤ min x y := by
  by_cases hb : a.allowUnencrypted = true ∧ b.allowUnencrypted = true
  · rw [selectRef_plain a b hb] at h; cases h
  · rcases selectRef_not_plain a b hb with ⟨_, e⟩ | ⟨best, hmax, e⟩
    · rw [e] at h; cases h
    · rw [e] at h
      injection h with h
      subst h
      obtain ⟨x, y, hx, hy, hz⟩ := mem_common.1 hmax.1
      refine ⟨x, y, hx, hy, ?_⟩
      intro c' x' y' hx' hy'
      have hm : (c', min x' y') ∈ common a b := mem_common.2 ⟨x', y', hx', hy', rfl⟩
      have := lexle_snd (hmax.2 _ hm)
      rw [hz] at this
      exact this

/-! ### strengthening: the tie-break, and completeness of the choice -/

/-- among common ciphers with the same (best) slower-side speed, the one with the highest wire id is selected -/
theorem selected_tiebreak (a b : Algos) (c : Cipher) (h : selectRef a b = .cipher c) :
    ∀ c' x y x' y', speedOf a c = some x → speedOf b c = some y → speedOf a c' = some x' → speedOf b c' = some y' →
      min x' y' = min x y → c'.wireId ≤ c.wireId := by
  intro c' x y x' y' hx hy hx' hy' heq
  by_cases hb : a.allowUnencrypted = true ∧ b.allowUnencrypted = true
  · rw [selectRef_plain a b hb] at h; cases h
  · rcases selectRef_not_plain a b hb with ⟨_, e⟩ | ⟨best, hmax, e⟩
    · rw [e] at h; cases h
    · rw [e] at h
      injection h with h
      subst h
      obtain ⟨x0, y0, hx0, hy0, hz⟩ := mem_common.1 hmax.1
      rw [hx] at hx0; rw [hy] at hy0
      injection hx0 with hx0; injection hy0 with hy0
      subst hx0; subst hy0
      have hm : (c', min x' y') ∈ common a b := mem_common.2 ⟨x', y', hx', hy', rfl⟩
      have := hmax.2 _ hm
      unfold lexle at this
      simp only at this
      omega

/-! ### non-vacuity and the role of the hypotheses -/

private def A1 : Algos := ⟨[(.aes128, 100), (.chacha, 300)], false⟩
private def A2 : Algos := ⟨[(.chacha, 200), (.aes256, 500), (.aes128, 250)], true⟩

example : NoDup A1 ∧ NoDup A2 := by unfold NoDup; decide
example : selectRef A1 A2 = .cipher .chacha := by decide
example : selectAlgorithm A1 A2 = .ok (some .chacha) := rfl
example : selectAlgorithm A2 A1 = .ok (some .chacha) := rfl
example : selectRef ⟨[], true⟩ A2 = .plain := by decide
example : selectRef ⟨[(.aes256, 1)], false⟩ A1 = .fail := by decide
example : selectAlgorithm ⟨[(.aes256, 1)], false⟩ A1 = .error .cryptoInitFatal := rfl
/-- a tie in the slower-side speed is broken by the wire id, on both sides alike -/
example : selectAlgorithm ⟨[(.aes128, 5), (.aes256, 5)], false⟩ ⟨[(.aes256, 7), (.aes128, 9)], false⟩ = .ok (some .aes256) ∧
          selectAlgorithm ⟨[(.aes256, 7), (.aes128, 9)], false⟩ ⟨[(.aes128, 5), (.aes256, 5)], false⟩ = .ok (some .aes256) := ⟨rfl, rfl⟩

/-- `NoDup own` is needed in `select_spec`: with a duplicate entry the model uses every entry of its own list,
    the reference (like the peer-side lookup `find`) only the first -/
example : selectAlgorithm ⟨[(.aes128, 1), (.aes128, 9), (.aes256, 5)], false⟩ ⟨[(.aes128, 9), (.aes256, 5)], false⟩ = .ok (some .aes128) ∧
          selectRef ⟨[(.aes128, 1), (.aes128, 9), (.aes256, 5)], false⟩ ⟨[(.aes128, 9), (.aes256, 5)], false⟩ = .cipher .aes256 :=
  ⟨rfl, by decide⟩
/-- and in `select_symm`: with that duplicate the two ends disagree (aes128 on one side, aes256 on the other) -/
example : selectAlgorithm ⟨[(.aes128, 1), (.aes128, 9), (.aes256, 5)], false⟩ ⟨[(.aes128, 9), (.aes256, 5)], false⟩ = .ok (some .aes128) ∧
          selectAlgorithm ⟨[(.aes128, 9), (.aes256, 5)], false⟩ ⟨[(.aes128, 1), (.aes128, 9), (.aes256, 5)], false⟩ = .ok (some .aes256) :=
  ⟨rfl, rfl⟩
/-- `NoDup a` is needed in `selectRef_perm`: swapping the duplicate entries changes the result -/
example : selectRef ⟨[(.aes128, 1), (.aes128, 9), (.aes256, 5)], false⟩ ⟨[(.aes128, 9), (.aes256, 5)], false⟩ = .cipher .aes256 ∧
          selectRef ⟨[(.aes128, 9), (.aes128, 1), (.aes256, 5)], false⟩ ⟨[(.aes128, 9), (.aes256, 5)], false⟩ = .cipher .aes128 ∧
          [(Cipher.aes128, 1), (Cipher.aes128, 9), (Cipher.aes256, 5)].Perm [(.aes128, 9), (.aes128, 1), (.aes256, 5)] :=
  ⟨by decide, by decide, List.Perm.swap _ _ _⟩

end VpnCloud.Proofs.C06
