import VpnCloud.Model.PeerCrypto
namespace VpnCloud.Proofs.C06
end VpnCloud.Proofs.C06
