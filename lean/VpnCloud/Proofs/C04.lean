import VpnCloud.Model.Core
namespace VpnCloud.Proofs.C04
end VpnCloud.Proofs.C04
