import VpnCloud.Model.Core
import VpnCloud.Spec.C04
import VpnCloud.Proofs.Lemmas.CoreLemmas
/-
  C04 — nonce discipline of the sender: `Nonce::increment` is +1, every seal uses a fresh nonce,
  the two ends of a connection draw from disjoint halves of the nonce space, the receiver rebuilds
  the nonce from the 7 transmitted bytes exactly while the counter fits 56 bits.
  All statements are proved as given (no hypothesis added).
-/
namespace VpnCloud.Proofs.C04

open VpnCloud VpnCloud.Spec.C04
open VpnCloud.Proofs.CoreLemmas

/-- the byte-wise carry chain of `Nonce::increment` is +1 modulo 256^len on the big-endian value (len = 12 in the code) -/
theorem increment_val (n : Bytes) (h : Bytes.WF n) :
    Bytes.beVal (Nonce.increment n) = (Bytes.beVal n + 1) % 256 ^ n.length := by
  have := incRev_val n.reverse (wf_reverse.2 h)
  rwa [List.reverse_reverse, List.length_reverse] at this

theorem increment_wf (n : Bytes) (h : Bytes.WF n) : Bytes.WF (Nonce.increment n) ∧ (Nonce.increment n).length = n.length := by
  constructor
  · exact wf_reverse.2 (incRev_wf _ (wf_reverse.2 h))
  · simp only [Nonce.increment, List.length_reverse, incRev_length]

/-- non-vacuity: a carry over two bytes, and the wrap-around of the all-ones nonce -/
example : Nonce.increment [0, 0, 0, 0, 0, 0, 0, 0, 0, 1, 255, 255] = [0, 0, 0, 0, 0, 0, 0, 0, 0, 2, 0, 0] ∧
    Nonce.increment [255, 255, 255, 255, 255, 255, 255, 255, 255, 255, 255, 255] = [0, 0, 0, 0, 0, 0, 0, 0, 0, 0, 0, 0] := by
  decide

/-- one seal: increment-before-use, header = key id + low 7 nonce bytes -/
theorem encrypt_spec (c : Core) (p : Bytes) (k : SlotKey) (hk : c.slots[c.cur]? = some k) (hlt : k.send + 1 < NONCE_MOD) :
    (c.encrypt p).2 = { hdr := c.cur :: Bytes.ofBE 7 (k.send + 1), body := .sealed k.key (k.send + 1) p } ∧
    (c.encrypt p).1 = { c with slots := c.slots.set c.cur { k with send := k.send + 1 } } := by
  have hm : (k.send + 1) % NONCE_MOD = k.send + 1 := Nat.mod_eq_of_lt hlt
  simp only [Core.encrypt, hk, hm, and_self]

/-- after a seal the current slot holds the same key with the counter advanced by one -/
theorem encrypt_slot (c : Core) (p : Bytes) (k : SlotKey) (hk : c.slots[c.cur]? = some k) (hlt : k.send + 1 < NONCE_MOD) :
    (c.encrypt p).1.slots[(c.encrypt p).1.cur]? = some { k with send := k.send + 1 } := by
  have hcur : c.cur < c.slots.length := (List.getElem?_eq_some_iff.1 hk).1
  rw [(encrypt_spec c p k hk hlt).2]
  simp only [List.getElem?_set_self hcur]

/-- the nonces of consecutive seals under one key strictly increase: the i-th datagram carries send + 1 + i -/
theorem send_strictly_increasing (c : Core) (ps : List Bytes) (k : SlotKey) (hk : c.slots[c.cur]? = some k)
    (hlt : k.send + ps.length < NONCE_MOD) :
    (sealMany c ps).2.map sealedWith = (List.range ps.length).map (fun i => some (k.key, k.send + 1 + i)) := by
  induction ps generalizing c k with
  | nil => rfl
  | cons p ps ih =>
    rw [List.length_cons] at hlt
    have hlt1 : k.send + 1 < NONCE_MOD := by omega
    have hk' := encrypt_slot c p k hk hlt1
    have ih' := ih (c.encrypt p).1 { k with send := k.send + 1 } hk' (by show k.send + 1 + ps.length < NONCE_MOD; omega)
    simp only [sealMany, List.map_cons, ih', (encrypt_spec c p k hk hlt1).1, sealedWith, List.length_cons,
      List.range_succ_eq_map, List.map_map, Nat.add_zero]
    congr 1
    apply List.map_congr_left
    intro i _
    simp only [Function.comp, Nat.succ_eq_add_one]
    congr 2
    omega

/-- hence no (key, nonce) pair is used twice by one sender under one key -/
theorem seal_log_nodup (c : Core) (ps : List Bytes) (k : SlotKey) (hk : c.slots[c.cur]? = some k)
    (hlt : k.send + ps.length < NONCE_MOD) : ((sealMany c ps).2.map sealedWith).Nodup := by
  rw [send_strictly_increasing c ps k hk hlt]
  apply List.Pairwise.map _ _ List.pairwise_lt_range
  intro a b hab heq
  simp only [Option.some.injEq, Prod.mk.injEq, true_and] at heq
  omega

/-- non-vacuity: three seals from a fresh core carry three consecutive nonces -/
example : ((sealMany (Core.new 7 true 8 [5, 6, 7, 8]) [[1], [2], [3]]).2.map sealedWith) =
    [some (7, HALF + 6), some (7, HALF + 7), some (7, HALF + 8)] := by
  decide

/-- a fresh key starts in its half and stays there for 2^95 - 2^48 seals -/
theorem stays_in_half (key : KeyRef) (half : Bool) (start m : Nat) (hs : start < 2 ^ 48) (hm : m < 2 ^ 95 - 2 ^ 48) :
    base half < (SlotKey.new key half start).send + 1 + m ∧ (SlotKey.new key half start).send + 1 + m < base half + 2 ^ 95 := by
  rw [pow48] at hs
  rw [pow95, pow48] at hm
  rw [pow95]
  simp only [SlotKey.new, base]
  omega

/-- the two ends draw from disjoint halves: no common nonce even under the same key -/
theorem halves_disjoint (key : KeyRef) (s1 s2 m1 m2 : Nat) (h1 : s1 < 2 ^ 48) (h2 : s2 < 2 ^ 48)
    (hm1 : m1 < 2 ^ 95 - 2 ^ 48) (hm2 : m2 < 2 ^ 95 - 2 ^ 48) :
    (SlotKey.new key true s1).send + 1 + m1 ≠ (SlotKey.new key false s2).send + 1 + m2 := by
  rw [pow48] at h1 h2
  rw [pow95, pow48] at hm1 hm2
  simp only [SlotKey.new, half_eq, if_true, Bool.false_eq_true, if_false]
  omega

/-- the receiver's reconstruction in terms of `base` -/
theorem reconstruct_eq (r : Core) (ctr : Nat) : r.reconstruct ctr = base (!r.half) + ctr := by
  cases hh : r.half <;> simp [Core.reconstruct, base, hh]

/-- the base of a half is a multiple of 2^56 -/
theorem base_mod (half : Bool) (v : Nat) : (base half + v) % 2 ^ 56 = v % 2 ^ 56 := by
  cases half
  · simp [base]
  · have : HALF = 2 ^ 56 * 2 ^ 39 := by unfold HALF; decide
    simp only [base, if_true, this, Nat.mul_add_mod]

/-- the receiver rebuilds the sender's nonce from the 7 transmitted bytes iff the counter fits 56 bits -/
theorem reconstruct_iff (r : Core) (n v : Nat) (hn : n = base (!r.half) + v) (hv : v < 2 ^ 95) :
    r.reconstruct (Bytes.beVal (Bytes.ofBE 7 n)) = n ↔ v < 2 ^ 56 := by
  rw [reconstruct_eq, beVal_ofBE7, hn, base_mod]
  have := Nat.mod_lt v (show 2 ^ 56 > 0 by decide)
  constructor
  · intro h
    have : v % 2 ^ 56 = v := by omega
    omega
  · intro h
    rw [Nat.mod_eq_of_lt h]

/-- the fields of a sealed datagram as `decrypt` sees them -/
theorem sealed_fields (kid n : Nat) (body : Body) :
    (Dgram.mk (kid :: Bytes.ofBE 7 n) body).keyId = kid ∧
    (Dgram.mk (kid :: Bytes.ofBE 7 n) body).counter = n % 2 ^ 56 ∧
    (Dgram.mk (kid :: Bytes.ofBE 7 n) body).len = 8 + body.len := by
  refine ⟨rfl, ?_, ?_⟩
  · simp only [Dgram.counter, List.drop_succ_cons, List.drop_zero]
    rw [List.take_of_length_le (by rw [ofBE_length]; exact Nat.le_refl _), beVal_ofBE7]
  · simp only [Dgram.len, List.length_cons, ofBE_length]

/-- `decrypt` only succeeds on a seal under the reconstructed nonce -/
theorem decrypt_wrong_nonce (r : Core) (d : Dgram) (key n : Nat) (p : Bytes)
    (hb : d.body = .sealed key n p) (hne : n ≠ r.reconstruct d.counter) :
    ∃ e, (r.decrypt d).2 = .error e := by
  unfold Core.decrypt
  split
  · exact ⟨_, rfl⟩
  · split
    · exact ⟨_, rfl⟩
    · split
      · exact ⟨_, rfl⟩
      · simp only [hb]
        split
        · exact ⟨_, rfl⟩
        · rw [if_neg (fun h => hne h.2)]
          exact ⟨_, rfl⟩

/-- a counter that no longer fits the 56 transmitted bits makes the datagram undecryptable (never accepted) -/
theorem beyond_56_bits_rejected (r : Core) (key : KeyRef) (n v : Nat) (p : Bytes) (kid : Nat)
    (hn : n = base (!r.half) + v) (hv : 2 ^ 56 ≤ v) (hv' : v < 2 ^ 95) :
    ∃ e, (r.decrypt { hdr := kid :: Bytes.ofBE 7 n, body := .sealed key n p }).2 = .error e := by
  apply decrypt_wrong_nonce r _ key n p rfl
  rw [(sealed_fields kid n _).2.1, ← beVal_ofBE7]
  intro h
  have := (reconstruct_iff r n v hn hv').1 h.symm
  omega

/-- non-vacuity: counter 2^56 in the receiver's expected half is rejected, 2^56 - 1 is accepted -/
example :
    ((Core.new 7 false 8 [0, 0, 0, 0]).decrypt
      { hdr := 0 :: Bytes.ofBE 7 (HALF + 2 ^ 56), body := .sealed 7 (HALF + 2 ^ 56) [1] }).2 = .error .openFailed ∧
    ((Core.new 7 false 8 [0, 0, 0, 0]).decrypt
      { hdr := 0 :: Bytes.ofBE 7 (HALF + 2 ^ 56 - 1), body := .sealed 7 (HALF + 2 ^ 56 - 1) [1] }).2 = .ok [1] := by
  decide

/-- a rotated-in key starts a fresh sequence in the owner's half with an empty replay window -/
theorem rotate_fresh (c : Core) (key : KeyRef) (id : Nat) (use : Bool) (start : Nat) (h4 : c.slots.length = 4) :
    (c.rotateKey key id use start).slots[id % 4]? = some (SlotKey.new key c.half start) ∧
    (c.rotateKey key id use start).cur = (if use then id % 4 else c.cur) ∧
    ∀ j, j ≠ id % 4 → (c.rotateKey key id use start).slots[j]? = c.slots[j]? := by
  have hi : id % 4 < c.slots.length := by omega
  refine ⟨?_, rfl, ?_⟩
  · simp only [Core.rotateKey, Core.SLOTS, List.getElem?_set_self hi]
  · intro j hj
    simp only [Core.rotateKey, Core.SLOTS]
    rw [List.getElem?_set_ne (fun h => hj h.symm)]

/-- non-vacuity: rotating key 9 into slot 6 % 4 = 2 for sending -/
example : ((Core.new 7 true 8 [1, 2, 3, 4]).rotateKey 9 6 true 11).slots[2]? = some (SlotKey.new 9 true 11) ∧
    ((Core.new 7 true 8 [1, 2, 3, 4]).rotateKey 9 6 true 11).cur = 2 := by
  decide

end VpnCloud.Proofs.C04
