import VpnCloud.Model.Beacon
import VpnCloud.Spec.C17
import VpnCloud.Proofs.C18
import VpnCloud.Proofs.Lemmas.BeaconLemmas
/-
  C17 — the beacon text codec (`mask_with_keystream`, `encrypt_data` / `decrypt_data`,
  `peerlist_encode` / `peerlist_decode`, `decode`), with the hash as a parameter (`BeaconEnv`).
  All statements are proved as given (no hypothesis added).  `EnvWF` is declared in
  `VpnCloud/Proofs/Lemmas/BeaconLemmas.lean` (in this namespace) because the lemmas need it.
  The hypothesis `hz` of the round trip (masked body does not begin with a zero byte) is part of the
  given statement; the `example`s at the end show that it cannot be dropped.

  The block counter of `mask_with_keystream` is the wrapping `u8` of the repaired code
  (`iter = iter.wrapping_add(1)`, /repo commit "fix: do not overflow the keystream block counter …"):
  all theorems hold for data of every length; `keystream_period` and `long_body_roundtrip` describe what
  happens beyond 4096 bytes.
-/
namespace VpnCloud.Proofs.C17

open VpnCloud VpnCloud.Beacon VpnCloud.Codec VpnCloud.Spec.C17
open VpnCloud.Proofs.BeaconLemmas

/- The statements are kept exactly as specified; some of their hypotheses are not needed by the proofs
   (`h` in `encrypt_decrypt`, `hn` in `age_window` / `peerlist_roundtrip_partial` / `too_old_ignored`,
   `hbm` in `decode_clean`).  The lemma file has the versions without them. -/
set_option linter.unusedVariables false

theorem mask_length (env : BeaconEnv) (d : Bytes) (t s : Nat) : (mask env d t s).length = d.length :=
  maskFrom_length env t s d 0 0

/-- masking twice with the same key stream is the identity -/
theorem mask_involutive (env : BeaconEnv) (d : Bytes) (t s : Nat) : mask env (mask env d t s) t s = d :=
  maskFrom_involutive env t s d 0 0

theorem mask_wf (env : BeaconEnv) (h : EnvWF env) (d : Bytes) (hd : Bytes.WF d) (t s : Nat) : Bytes.WF (mask env d t s) :=
  maskFrom_wf env h t s d hd 0 0

/-- the seed byte protects the body: what was encrypted decrypts to itself -/
theorem encrypt_decrypt (env : BeaconEnv) (h : EnvWF env) (d : Bytes) : decryptData env (encryptData env d) = some d :=
  decrypt_encrypt env d

/-! ## data of more than 4096 bytes: the block counter wraps, the key stream repeats -/

/-- closed form of `mask_with_keystream` for data of any length: the byte at index `j` is xored with byte
    `j % 16` of key stream block `(j / 16) % 256` -/
theorem mask_getElem? (env : BeaconEnv) (d : Bytes) (t s j : Nat) :
    (mask env d t s)[j]? = d[j]?.map (fun b => b ^^^ (env.ks t s ((j / 16) % 256)).getD (j % 16) 0) := by
  rw [mask_eq_xorStream, xorStream_getElem?, Nat.zero_add]; rfl

/-- **keystream_period**: the block counter is a `u8` that wraps, so block `i + 256` of the data is masked with the
    same 16 key stream bytes as block `i` (byte `p` of the hash of `[type, seed, i mod 256] ++ key`) — for data of
    more than 4096 bytes the key stream repeats.  This is what release builds of the node always did; since the
    fix every build does. -/
theorem keystream_period (env : BeaconEnv) (d : Bytes) (t s i p b b' : Nat) (hp : p < 16)
    (h1 : d[16 * i + p]? = some b) (h2 : d[16 * (i + 256) + p]? = some b') :
    (mask env d t s)[16 * i + p]? = some (b ^^^ (env.ks t s (i % 256)).getD p 0) ∧
    (mask env d t s)[16 * (i + 256) + p]? = some (b' ^^^ (env.ks t s (i % 256)).getD p 0) := by
  rw [mask_getElem?, mask_getElem?, h1, h2]
  rw [show (16 * i + p) / 16 % 256 = i % 256 by omega, show (16 * i + p) % 16 = p by omega,
    show (16 * (i + 256) + p) / 16 % 256 = i % 256 by omega, show (16 * (i + 256) + p) % 16 = p by omega]
  exact ⟨rfl, rfl⟩

/-- the same fact for whole chunks: behind a multiple of 4096 bytes the masking starts again with block 0 -/
theorem mask_append_period (env : BeaconEnv) (a b : Bytes) (t s k : Nat) (ha : a.length = 4096 * k) :
    mask env (a ++ b) t s = mask env a t s ++ mask env b t s := by
  rw [mask_eq_xorStream, mask_eq_xorStream, mask_eq_xorStream, xorStream_append, ha, xorStream_period]

/-- **long_body_roundtrip**: masking is length preserving and an involution, and what was encrypted decrypts to
    itself, for data of ANY length — in particular beyond the 4096 bytes after which the `u8` block counter wraps
    (no hypothesis on the length, none on the hash) -/
theorem long_body_roundtrip (env : BeaconEnv) (d : Bytes) (t s : Nat) :
    (mask env d t s).length = d.length ∧ mask env (mask env d t s) t s = d ∧
    decryptData env (encryptData env d) = some d :=
  ⟨mask_length env d t s, mask_involutive env d t s, decrypt_encrypt env d⟩

/-- `long_body_roundtrip` spelled out for the long bodies the old `u8` counter could not handle -/
theorem long_body_roundtrip_beyond (env : BeaconEnv) (d : Bytes) (t s : Nat) (_hl : 4096 < d.length) :
    (mask env d t s).length = d.length ∧ mask env (mask env d t s) t s = d ∧
    decryptData env (encryptData env d) = some d :=
  long_body_roundtrip env d t s

/-- the wrapping 16-bit age test is exactly "within ttl hours in either direction" -/
theorem age_window (now thn ttl : Nat) (hn : now < 65536) (ht : thn < 65536) :
    tooOld now thn ttl = !ageOk now thn (some ttl) :=
  tooOld_eq now thn ttl ht

/-- **peerlist_roundtrip_partial**: for every key (hash), hour stamp, at most 255 IPv4 and any IPv6 addresses, *if the masked body does not begin with a
    zero byte*, decoding what was encoded returns the addresses (IPv4 first), provided the age is within the accepted range.
    The hypothesis is forced: base-62 cannot express leading zero bytes (that failure is a recorded finding of the implementation). -/
theorem peerlist_roundtrip_partial (env : BeaconEnv) (h : EnvWF env) (peers : List SockAddr) (hour now : Nat) (ttl : Option Nat)
    (hp : ∀ a ∈ peers, sockWF a = true) (h4 : (peers.filter isV4).length ≤ 255) (hh : hour < 65536) (hn : now < 65536)
    (hz : (encryptData env (plainBody peers hour)).head? ≠ some 0) (hage : ageOk now hour ttl = true) :
    ∃ text, peerlistEncode env peers hour = some text ∧ peerlistDecode env text ttl now = normPeers peers := by
  obtain ⟨text, e1, e2⟩ := encoded_decodes env h peers hour now ttl hp h4 hh hz
  refine ⟨text, e1, ?_⟩
  have hr : rejected now hour ttl = false := by
    cases ttl with
    | none => rfl
    | some t => simp only [rejected, tooOld_eq now hour t hh, hage, Bool.not_true]
  rw [e2, hr]; rfl

/-- a beacon whose age exceeds the accepted range in both directions is ignored -/
theorem too_old_ignored (env : BeaconEnv) (h : EnvWF env) (peers : List SockAddr) (hour now ttl : Nat)
    (hp : ∀ a ∈ peers, sockWF a = true) (h4 : (peers.filter isV4).length ≤ 255) (hh : hour < 65536) (hn : now < 65536)
    (hz : (encryptData env (plainBody peers hour)).head? ≠ some 0) (hage : ageOk now hour (some ttl) = false) :
    ∃ text, peerlistEncode env peers hour = some text ∧ peerlistDecode env text (some ttl) now = [] := by
  obtain ⟨text, e1, e2⟩ := encoded_decodes env h peers hour now (some ttl) hp h4 hh hz
  refine ⟨text, e1, ?_⟩
  have hr : rejected now hour (some ttl) = true := by
    simp only [rejected, tooOld_eq now hour ttl hh, hage, Bool.not_false]
  rw [e2, hr]; rfl

/-- `findSub` returns the first occurrence -/
theorem findSub_sound (hay needle : List Char) (i : Nat) (h : findSub hay needle = some i) :
    needle.isPrefixOf (hay.drop i) = true ∧ ∀ j, j < i → needle.isPrefixOf (hay.drop j) = false :=
  (findSub_some h).2

theorem findSub_none (hay needle : List Char) (h : findSub hay needle = none) : ∀ j, j ≤ hay.length → needle.isPrefixOf (hay.drop j) = false :=
  findSub_none' h

/-- **embedded_found_partial** (clean case): a beacon standing alone in an alphanumeric text is decoded as its body, if the end marker does not occur
    earlier inside `body ++ end` and the begin marker does not occur again behind the first one -/
theorem decode_clean (env : BeaconEnv) (body : List Char) (ttl : Option Nat) (now : Nat)
    (hal : ∀ c ∈ beginMarker env ++ body ++ endMarker env, c.isAlphanum = true)
    (hbm : (beginMarker env).length = 5)
    (hE : ∀ j, j < body.length → (endMarker env).isPrefixOf ((body ++ endMarker env).drop j) = false)
    (hB : ∀ j, j ≤ (body ++ endMarker env).length → (beginMarker env).isPrefixOf ((body ++ endMarker env).drop j) = false) :
    decode env (beginMarker env ++ body ++ endMarker env) ttl now = peerlistDecode env body ttl now :=
  decode_single env body ttl now hal hE hB

/-! ## non-vacuity: a toy environment -/

def toyEnv : BeaconEnv :=
  { ks := fun t s i => List.replicate 64 ((7 * t + 3 * s + i + 1) % 256), h0 := fun d => d.foldl (· + ·) 5 % 256 }

theorem toyEnv_wf : EnvWF toyEnv where
  ks_wf := fun t s i =>
    ⟨Bytes.wf_replicate 64 _ (Nat.mod_lt _ (by decide)), List.length_replicate⟩
  h0_lt := fun d => Nat.mod_lt _ (by decide)

def toyPeers : List SockAddr :=
  [.v6 [32, 1, 13, 184, 0, 0, 0, 0, 0, 0, 0, 0, 0, 0, 0, 1] 443, .v4 [10, 0, 0, 1] 3210, .v4 [192, 168, 1, 77] 65535]

def toyText : List Char := "DRPvoXOHri1VECYTSk9Vq2NrqabOphE1BoLssIKbnqgecO".toList

example : mask toyEnv [1, 2, 3] 2 9 = [43, 40, 41] := by decide +kernel
example : decryptData toyEnv (encryptData toyEnv [1, 2, 3]) = some [1, 2, 3] := encrypt_decrypt toyEnv toyEnv_wf _
/-- a body of 5000 bytes: the key stream of block 256 (bytes 4096 …) is the one of block 0, the one of block 1 is
    another one; the body survives encryption and decryption -/
def longBody : Bytes := List.replicate 5000 0
example : 4096 < longBody.length := by decide +kernel
example : (mask toyEnv longBody 2 9)[4096]? = (mask toyEnv longBody 2 9)[0]? ∧
    (mask toyEnv longBody 2 9)[4096 + 16]? = (mask toyEnv longBody 2 9)[16]? ∧
    (mask toyEnv longBody 2 9)[16]? ≠ (mask toyEnv longBody 2 9)[0]? := by decide +kernel
example : (mask toyEnv longBody 2 9)[16 * 0 + 3]? = some (0 ^^^ (toyEnv.ks 2 9 (0 % 256)).getD 3 0) ∧
    (mask toyEnv longBody 2 9)[16 * (0 + 256) + 3]? = some (0 ^^^ (toyEnv.ks 2 9 (0 % 256)).getD 3 0) :=
  keystream_period toyEnv longBody 2 9 0 3 0 0 (by decide) (by decide +kernel) (by decide +kernel)
example : decryptData toyEnv (encryptData toyEnv longBody) = some longBody :=
  (long_body_roundtrip_beyond toyEnv longBody TYPE_DATA 0 (by decide +kernel)).2.2
/-- the seed byte does detect a change of the body -/
example : decryptData toyEnv ((encryptData toyEnv [1, 2, 3]).set 0 7) = none := by decide +kernel
example : tooOld 2 65535 3 = false ∧ tooOld 65535 2 3 = false ∧ tooOld 10 2 3 = true := by decide
/-- all hypotheses of the round trip hold for the toy instance -/
example : ∃ text, peerlistEncode toyEnv toyPeers 1000 = some text ∧
    peerlistDecode toyEnv text (some 3) 1002 = normPeers toyPeers :=
  peerlist_roundtrip_partial toyEnv toyEnv_wf toyPeers 1000 1002 (some 3) (by decide) (by decide) (by decide) (by decide)
    (by decide +kernel) (by decide)
example : peerlistEncode toyEnv toyPeers 1000 = some toyText := by decide +kernel
example : peerlistDecode toyEnv toyText (some 3) 1002 =
    [.v4 [10, 0, 0, 1] 3210, .v4 [192, 168, 1, 77] 65535, .v6 [32, 1, 13, 184, 0, 0, 0, 0, 0, 0, 0, 0, 0, 0, 0, 1] 443] := by
  decide +kernel
example : ∃ text, peerlistEncode toyEnv toyPeers 1000 = some text ∧ peerlistDecode toyEnv text (some 3) 1005 = [] :=
  too_old_ignored toyEnv toyEnv_wf toyPeers 1000 1005 3 (by decide) (by decide) (by decide) (by decide)
    (by decide +kernel) (by decide)
example : peerlistDecode toyEnv toyText (some 3) 1005 = [] := by decide +kernel
example : findSub "abcabd".toList "abd".toList = some 3 ∧ findSub "abcabd".toList "abe".toList = none ∧
    findSub "abc".toList [] = some 0 := by decide
/-- all hypotheses of `decode_clean` hold for the toy beacon -/
example : decode toyEnv (beginMarker toyEnv ++ toyText ++ endMarker toyEnv) (some 3) 1002 =
    peerlistDecode toyEnv toyText (some 3) 1002 :=
  decode_clean toyEnv toyText (some 3) 1002 (by decide +kernel) (by decide +kernel) (by decide +kernel) (by decide +kernel)
example : beginMarker toyEnv = "ERzuw".toList ∧ endMarker toyEnv = "1rbzL".toList := by decide +kernel
example : encode toyEnv toyPeers 1000 = some ("ERzuw".toList ++ toyText ++ "1rbzL".toList) := by decide +kernel
/-- the surrounding text is sanitised and skipped -/
example : decode toyEnv ("see: ".toList ++ "ERzuw".toList ++ toyText ++ "1rbzL".toList ++ " -- ".toList) (some 3) 1002 =
    normPeers toyPeers := by decide +kernel

/-! ## the recorded finding: a masked body that begins with a zero byte is lost

  `hz` cannot be dropped from `peerlist_roundtrip_partial`: with the toy environment, the single peer
  below and hour stamp 510 the masked body is `[0, …]`; base-62 drops the zero byte, the decoder then
  applies the seed check to a shifted string and returns nothing. -/

def lostPeers : List SockAddr := [.v4 [10, 0, 0, 1] 3210]

example : (encryptData toyEnv (plainBody lostPeers 510)).head? = some 0 := by decide +kernel
example : ∀ a ∈ lostPeers, sockWF a = true := by decide
example : ∃ text, peerlistEncode toyEnv lostPeers 510 = some text ∧
    peerlistDecode toyEnv text none 510 = [] ∧ peerlistDecode toyEnv text none 510 ≠ normPeers lostPeers := by
  refine ⟨(peerlistEncode toyEnv lostPeers 510).getD [], ?_, ?_, ?_⟩ <;> decide +kernel
/-- the statement of the round trip without `hz` is false -/
example : ¬ ∀ (env : BeaconEnv) (_ : EnvWF env) (peers : List SockAddr) (hour now : Nat) (ttl : Option Nat)
    (_ : ∀ a ∈ peers, sockWF a = true) (_ : (peers.filter isV4).length ≤ 255) (_ : hour < 65536) (_ : now < 65536)
    (_ : ageOk now hour ttl = true),
    ∃ text, peerlistEncode env peers hour = some text ∧ peerlistDecode env text ttl now = normPeers peers := by
  intro hall
  obtain ⟨text, e1, e2⟩ := hall toyEnv toyEnv_wf lostPeers 510 510 none (by decide) (by decide) (by decide) (by decide) rfl
  have e3 : peerlistDecode toyEnv ((peerlistEncode toyEnv lostPeers 510).getD []) none 510 ≠ normPeers lostPeers := by
    decide +kernel
  rw [e1] at e3
  exact e3 e2

end VpnCloud.Proofs.C17
