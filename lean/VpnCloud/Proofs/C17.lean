import VpnCloud.Model.Beacon
import VpnCloud.Spec.C17
namespace VpnCloud.Proofs.C17
end VpnCloud.Proofs.C17
