/-
  Model of the configuration overlay (src/config.rs): `Config::merge_file`, `Config::merge_args`,
  `Config::into_config_file`, as a generic interpreter over a rule table.  The table itself is
  regenerated from the Rust source on every run (`Generated/ConfigRules.lean`).
  Also `parse_ip_netmask` (src/main.rs), the arithmetic part.
-/
namespace VpnCloud.Config

/-- value of a configuration field -/
inductive DVal
  | scalar (s : String)
  | opt (o : Option String)
  | list (l : List String)
  | flag (b : Bool)
  | map (m : List (String × String))
  deriving DecidableEq, Repr

inductive FileRule
  | override | overrideSome | append | appendAlways | replaceNonEmpty | mapInsert | none
  deriving DecidableEq, Repr

inductive ArgRule
  | override | overrideSome | appendAlways | replaceNonEmpty | setTrue | setFalse | hookSplit | hookPlain | none
  deriving DecidableEq, Repr

inductive ToFile
  | some | direct | absent
  deriving DecidableEq, Repr

structure FieldRule where
  name : String
  default : DVal
  file : FileRule
  fileKey : String
  arg : ArgRule
  argKey : String
  toFile : ToFile
  deriving DecidableEq, Repr

/-- a value as the file or the command line supplies it -/
inductive SVal
  | str (s : String)
  | list (l : List String)
  | map (m : List (String × String))
  | flag (b : Bool)
  deriving DecidableEq, Repr

/-- a source: values by source key (Rust field path of `ConfigFile` resp. `Args`) -/
abbrev Source := List (String × SVal)

def Source.get (s : Source) (k : String) : Option SVal := (s.find? (fun p => p.1 = k)).map (·.2)

/-- `HashMap::insert` -/
def mapInsert (m : List (String × String)) (k v : String) : List (String × String) :=
  (m.filter (fun p => p.1 ≠ k)) ++ [(k, v)]

def setScalar (cur : DVal) (s : String) : DVal :=
  match cur with
  | .flag _ => .flag (s = "true")
  | _ => .scalar s

/-- the effect of one `merge_file` statement -/
def applyFile (r : FieldRule) (cur : DVal) (file : Source) : DVal :=
  match r.file, file.get r.fileKey with
  | .override, some (.str s) => setScalar cur s
  | .override, some (.flag b) => .flag b
  | .overrideSome, some (.str s) => .opt (some s)
  | .append, some (.list l) => (match cur with | .list c => .list (c ++ l) | x => x)
  | .appendAlways, some (.list l) => (match cur with | .list c => .list (c ++ l) | x => x)
  | .replaceNonEmpty, some (.list l) => if l.isEmpty then cur else .list l
  | .mapInsert, some (.map m) => (match cur with | .map c => .map (m.foldl (fun acc p => mapInsert acc p.1 p.2) c) | x => x)
  | _, _ => cur

/-- split `name:script` at the first colon -/
def splitHook (s : String) : Option (String × String) :=
  match s.splitOn ":" with
  | [] => none
  | [_] => none
  | name :: rest => some (name, ":".intercalate rest)

/-- the effect of one `merge_args` statement -/
def applyArg (r : FieldRule) (cur : DVal) (args : Source) : DVal :=
  match r.arg, args.get r.argKey with
  | .override, some (.str s) => setScalar cur s
  | .overrideSome, some (.str s) => .opt (some s)
  | .appendAlways, some (.list l) => (match cur with | .list c => .list (c ++ l) | x => x)
  | .replaceNonEmpty, some (.list l) => if l.isEmpty then cur else .list l
  | .setTrue, some (.flag true) => .flag true
  | .setFalse, some (.flag true) => .flag false
  | .hookSplit, some (.list l) =>
    (match cur with
     | .map c => .map (l.foldl (fun acc s => match splitHook s with | some (n, h) => mapInsert acc n h | none => acc) c)
     | x => x)
  | .hookPlain, some (.list l) =>
    (match (l.filter (fun s => (splitHook s).isNone)).getLast? with
     | some s => .opt (some s)
     | none => cur)
  | _, _ => cur

/-- defaults, then the file, then the command line -/
def merge (rules : List FieldRule) (file args : Source) : List (String × DVal) :=
  rules.map (fun r => (r.name, applyArg r (applyFile r r.default file) args))

/-- `into_config_file`: what the file form says about a field -/
def toFileVal (r : FieldRule) (v : DVal) : Option SVal :=
  match r.toFile, v with
  | .absent, _ => none
  | _, .scalar s => some (.str s)
  | _, .opt (some s) => some (.str s)
  | _, .opt none => none
  | _, .list l => some (.list l)
  | _, .flag b => some (.flag b)
  | _, .map m => some (.map m)

def intoFile (rules : List FieldRule) (cfg : List (String × DVal)) : Source :=
  rules.filterMap (fun r => match (cfg.find? (fun p => p.1 = r.name)).bind (fun p => toFileVal r p.2) with
    | some v => some (r.fileKey, v)
    | none => none)

/-- `u32::max_value().checked_shl(32 - prefix_len).unwrap_or(0)` for `prefix_len ≤ 32` (larger values are rejected before) -/
def netmaskBits (prefixLen : Nat) : Option Nat :=
  if prefixLen > 32 then none
  else if 32 - prefixLen < 32 then some (((2 ^ 32 - 1) * 2 ^ (32 - prefixLen)) % 2 ^ 32)
  else some 0

end VpnCloud.Config
