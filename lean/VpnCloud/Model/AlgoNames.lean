import VpnCloud.Model.Init
/-
  Model of `Crypto::parse_algorithms` (src/crypto/common.rs): the list of cipher names a user configures
  (`crypto.algorithms` / `--algorithm`) becomes the plain flag and the ciphers whose speeds are then measured and
  advertised.  Names are case-insensitive with the aliases of the source; nothing configured = the three default ciphers;
  an unknown name is a configuration error.
-/
namespace VpnCloud

/-- one configured name: `some none` = a plain alias, `some (some c)` = a cipher, `none` = unknown (configuration error) -/
def parseAlgoName (name : String) : Option (Option Cipher) :=
  let u := name.toUpper
  if u = "UNENCRYPTED" || u = "NONE" || u = "PLAIN" then some none
  else if u = "AES128" || u = "AES128_GCM" || u = "AES_128" || u = "AES_128_GCM" then some (some .aes128)
  else if u = "AES256" || u = "AES256_GCM" || u = "AES_256" || u = "AES_256_GCM" then some (some .aes256)
  else if u = "CHACHA" || u = "CHACHA20" || u = "CHACHA20_POLY1305" then some (some .chacha)
  else none

/-- `DEFAULT_ALGORITHMS` -/
def defaultAlgoNames : List String := ["AES128", "AES256", "CHACHA20"]

/-- `parse_algorithms`: (plain allowed, ciphers in list order); `none` = "Unknown crypto method" -/
def parseAlgorithms (names : List String) : Option (Bool × List Cipher) :=
  (if names.isEmpty then defaultAlgoNames else names).foldlM (fun (acc : Bool × List Cipher) n =>
    match parseAlgoName n with
    | some none => some (true, acc.2)
    | some (some c) => some (acc.1, acc.2 ++ [c])
    | none => none) (false, [])

end VpnCloud
