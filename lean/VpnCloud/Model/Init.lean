import VpnCloud.Model.InitMsg
import VpnCloud.Model.Core
/-
  Model of `InitState` (src/crypto/init.rs): the signed 3-way handshake ping / pong / peng.

  Every random choice of the Rust code is an argument (`Rand`): the 4-byte salt of the message,
  the ephemeral ECDH public key, the start value of the new send counter, the ciphertext bytes of
  the sealed payload and the signature bytes (all observed from the datagram the implementation
  emitted).  The master key is symbolic: `masterKey cipher a b` for the unordered pair of ephemeral
  public keys.  Panic sites are explicit (`Outcome.panic`).
-/
namespace VpnCloud

structure Rand where
  salt : Bytes := []
  ecdhPub : Bytes := []
  start : Nat := 0
  /-- start values of the throw-away slots 1..3 of a new core -/
  starts123 : List Nat := []
  /-- ciphertext + tag bytes of the sealed payload (behind its 8-byte header) -/
  ct : Bytes := []
  sig : Bytes := []
  /-- key reference of the throw-away keys in slots 1..3 of a new core -/
  dummy : KeyRef := 1
  deriving Repr

/-- symbolic ECDH + KDF: the key both ends derive from the unordered pair of ephemeral public keys -/
def masterKey (c : Cipher) (a b : Bytes) : KeyRef :=
  let lo := if Bytes.beVal a ≤ Bytes.beVal b then a else b
  let hi := if Bytes.beVal a ≤ Bytes.beVal b then b else a
  Bytes.beVal ((10 + c.wireId) :: (lo.length % 256) :: (lo ++ hi))

inductive InitResult
  | continue
  | success (peerPayload : Bytes) (isInitiator : Bool)
  deriving DecidableEq, Repr

structure InitSt where
  nodeId : Bytes
  hash : Bytes                 -- salted node id hash (20 bytes)
  payload : Bytes              -- own payload as `Payload::write_to` produces it
  ownKey : Bytes               -- own Ed25519 public key
  trusted : List Bytes
  ecdh : Option Bytes := none  -- public key of the pending ephemeral key pair
  stage : Nat := Generated.STAGE_PING
  closeTime : Nat := Generated.CLOSE_TIME
  last : Option Bytes := none
  crypto : Option Core := none
  algos : Algos
  selected : Option Cipher := none
  retries : Nat := 0
  deriving Repr

/-- result of an operation that may fail or panic; the state is returned in every non-panic case
    because the Rust code mutates it before some of its error returns -/
inductive Outcome (α : Type)
  | ok (st : InitSt) (a : α)
  | err (st : InitSt) (e : InitErr)
  | panic

namespace Init

/-- lexicographic `>` on equally long byte strings (`[u8; 20]` comparison) -/
def bytesGt (a b : Bytes) : Bool := Bytes.beVal a > Bytes.beVal b

def rank (c : Cipher) : Nat := c.wireId

/-- `select_algorithm`: `Ok(None)` = unencrypted, `Ok(Some c)`, or fatal error -/
def selectAlgorithm (own peer : Algos) : Except InitErr (Option Cipher) :=
  if own.allowUnencrypted && peer.allowUnencrypted then .ok none
  else
    let cands : List (Cipher × Nat) := own.speeds.filterMap (fun (a1, s1) =>
      (peer.speeds.find? (fun (a2, _) => a2 = a1)).map (fun (_, s2) => (a1, if s1 < s2 then s1 else s2)))
    match cands with
    | [] => .error .cryptoInitFatal
    | first :: rest =>
      -- Iterator::max_by: fold keeping `x` only when compare(x, y) = Greater
      let best := rest.foldl (fun (x : Cipher × Nat) (y : Cipher × Nat) =>
        if x.2 < y.2 then y
        else if y.2 < x.2 then x
        else if rank x.1 > rank y.1 then x else y) first
      .ok (some best.1)

/-- `check_salted_node_id_hash` -/
def checkSaltedNodeIdHash (env : CryptoEnv) (hash nodeId : Bytes) : Bool :=
  hash.drop 4 = env.nodeHash (hash.take 4) nodeId

/-- entries for the log of genuine seals: ciphertext bytes ↦ what they were sealed from -/
abbrev SealLog := List (Bytes × Body)

/-- `encrypt_payload`: own payload, sealed with the handshake core if there is one -/
def encryptPayload (st : InitSt) (rnd : Rand) : InitSt × Bytes × SealLog :=
  match st.crypto with
  | some c =>
    let (c', d) := c.encrypt st.payload
    ({ st with crypto := some c' }, d.hdr ++ rnd.ct, [(rnd.ct, d.body)])
  | none => (st, st.payload, [])

/-- `send_message`: builds and signs the message of the given stage, remembers it as last message -/
def sendMessage (env : CryptoEnv) (st : InitSt) (stage : Nat) (rnd : Rand) : InitSt × Bytes × SealLog :=
  let (st1, msg, log) : InitSt × InitMsg × SealLog :=
    if stage = Generated.STAGE_PING then (st, .ping st.hash rnd.ecdhPub st.algos, [])
    else if stage = Generated.STAGE_PONG then
      let (s, p, l) := encryptPayload st rnd
      (s, .pong st.hash rnd.ecdhPub st.algos p, l)
    else
      let (s, p, l) := encryptPayload st rnd
      (s, .peng st.hash p, l)
  let bytes := InitMsg.writeTo msg rnd.salt (env.keyHash st.ownKey rnd.salt) rnd.sig
  ({ st1 with last := some bytes }, bytes, log)

/-- `send_ping` -/
def sendPing (env : CryptoEnv) (st : InitSt) (rnd : Rand) : InitSt × Bytes :=
  let (st1, b, _) := sendMessage env { st with ecdh := some rnd.ecdhPub } Generated.STAGE_PING rnd
  ({ st1 with stage := Generated.STAGE_PONG }, b)

/-- `InitState::every_second`: returns the bytes written to `out` (empty = nothing) -/
def everySecond (st : InitSt) : InitSt × Except InitErr Bytes :=
  if st.stage = Generated.WAITING_TO_CLOSE then
    if st.closeTime = 0 then ({ st with stage := Generated.CLOSING }, .ok [])
    else ({ st with closeTime := st.closeTime - 1 }, .ok [])
  else if st.stage = Generated.CLOSING then (st, .ok [])
  else if st.retries < Generated.MAX_FAILED_RETRIES then
    ({ st with retries := st.retries + 1 }, .ok (st.last.getD []))
  else ({ st with stage := Generated.CLOSING }, .error .cryptoInitFatal)

/-- view of received ciphertext bytes as a symbolic body (ideal AEAD; see `Model/Core.lean`) -/
abbrev BodyOf := Bytes → Body

/-- `InitState::decrypt`: open the peer's payload with the handshake core (if any) -/
def decryptPayload (st : InitSt) (bodyOf : BodyOf) (data : Bytes) : InitSt × Option Bytes :=
  match st.crypto with
  | some c =>
    let (c', r) := c.decrypt { hdr := data.take 8, body := bodyOf (data.drop 8) }
    match r with
    | .ok p => ({ st with crypto := some c' }, some p)
    | .error _ => ({ st with crypto := some c' }, none)
  | none => (st, some data)

/-- `InitState::handle_init`.  `window` is what `read_from` gets to see (the received message, or —
    for an empty message — the raw buffer contents); `payloadOk` models `P::read_from` on the opened
    payload.  Returns the bytes written to `out` (empty = nothing) and the result. -/
def handleInit (env : CryptoEnv) (bodyOf : BodyOf) (payloadOk : Bytes → Bool)
    (st : InitSt) (window : Bytes) (rnd : Rand) : Outcome (Bytes × InitResult × SealLog) :=
  match InitMsg.readFrom env window st.trusted with
  | .error e => .err st e
  | .ok (msg, _) =>
    let stage := msg.stage
    let hash := msg.hash
    if st.hash = hash || checkSaltedNodeIdHash env hash st.nodeId then .err st .cryptoInitFatal   -- connected to self
    else
      -- stage check
      let cont : Option InitSt ⊕ Outcome (Bytes × InitResult × SealLog) :=
        if stage ≠ st.stage then
          if st.stage = Generated.STAGE_PONG ∧ stage = Generated.STAGE_PING then
            if bytesGt hash st.hash then .inl (some { st with stage := Generated.STAGE_PING, last := none, ecdh := none })
            else .inr (.ok st ([], .continue, []))
          else if st.stage = Generated.CLOSING then .inr (.ok st ([], .continue, []))
          else match st.last with
            | some l => .inr (.ok st (l, .continue, []))            -- repeat_last_message
            | none => .inr (.err st .cryptoInitFatal)
        else .inl (some st)
      match cont with
      | .inr o => o
      | .inl none => .panic
      | .inl (some st0) =>
        let st1 := { st0 with retries := 0 }
        match msg with
        | .ping h ecdh algos =>
          match selectAlgorithm st1.algos algos with
          | .error e => .err st1 e
          | .ok sel =>
            let st2 := { st1 with selected := sel }
            let st3 := match sel with
              | some c => { st2 with crypto := some (Core.new (masterKey c rnd.ecdhPub ecdh) (bytesGt st2.hash h) rnd.dummy (rnd.start :: rnd.starts123)) }
              | none => st2
            let (st4, out, log) := sendMessage env st3 Generated.STAGE_PONG rnd
            .ok { st4 with stage := Generated.STAGE_PENG } (out, .continue, log)
        | .pong h ecdh algos payload =>
          match st1.ecdh with
          | none => .panic                                   -- ecdh_private_key.take().unwrap()
          | some own =>
            let st2 := { st1 with ecdh := none }
            match selectAlgorithm st2.algos algos with
            | .error e => .err st2 e
            | .ok sel =>
              let st3 := { st2 with selected := sel }
              let st4 := match sel with
                | some c => { st3 with crypto := some (Core.new (masterKey c own ecdh) (bytesGt st3.hash h) rnd.dummy (rnd.start :: rnd.starts123)) }
                | none => st3
              match decryptPayload st4 bodyOf payload with
              | (st5, none) => .err st5 .cryptoInitFatal
              | (st5, some p) =>
                if !payloadOk p then .err st5 .cryptoInitFatal else
                let (st6, out, log) := sendMessage env st5 Generated.STAGE_PENG rnd
                .ok { st6 with stage := Generated.WAITING_TO_CLOSE, closeTime := Generated.CLOSE_TIME } (out, .success p true, log)
        | .peng _ payload =>
          match decryptPayload st1 bodyOf payload with
          | (st2, none) => .err st2 .cryptoInitFatal
          | (st2, some p) =>
            if !payloadOk p then .err st2 .cryptoInitFatal else
            .ok { st2 with stage := Generated.CLOSING } ([], .success p false, [])

end Init
end VpnCloud
