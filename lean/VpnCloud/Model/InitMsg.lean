import VpnCloud.Model.Bytes
import VpnCloud.Model.NodeInfo
import VpnCloud.Generated.Consts
/-
  Model of `InitMsg::read_from` / `InitMsg::write_to` (src/crypto/init.rs) at byte level.

  Cryptographic functions are parameters (`CryptoEnv`): the 4-byte salted key hash, the salted
  node-id hash, Ed25519 verification, and the view of ciphertext bytes as a symbolic sealed body.
  Cipher speeds travel as the `u32` bit pattern of the `f32` (order-isomorphic for finite
  non-negative values, the only ones a node can measure).
-/
namespace VpnCloud

inductive Cipher
  | aes128 | aes256 | chacha
  deriving DecidableEq, Repr

def Cipher.wireId : Cipher → Nat
  | .aes128 => 1 | .aes256 => 2 | .chacha => 3

def Cipher.ofWireId : Nat → Option Cipher
  | 1 => some .aes128 | 2 => some .aes256 | 3 => some .chacha | _ => none

structure Algos where
  speeds : List (Cipher × Nat)
  allowUnencrypted : Bool
  deriving DecidableEq, Repr

inductive InitMsg
  | ping (hash : Bytes) (ecdh : Bytes) (algos : Algos)
  | pong (hash : Bytes) (ecdh : Bytes) (algos : Algos) (payload : Bytes)
  | peng (hash : Bytes) (payload : Bytes)
  deriving DecidableEq, Repr

def InitMsg.stage : InitMsg → Nat
  | .ping .. => Generated.STAGE_PING
  | .pong .. => Generated.STAGE_PONG
  | .peng .. => Generated.STAGE_PENG

def InitMsg.hash : InitMsg → Bytes
  | .ping h _ _ => h
  | .pong h _ _ _ => h
  | .peng h _ => h

/-- error classes of `crate::error::Error` that the handshake path can produce -/
inductive InitErr
  | parse            -- Error::Parse
  | crypto           -- Error::Crypto (untrusted peer, invalid signature)
  | cryptoInit       -- Error::CryptoInit (recoverable)
  | cryptoInitFatal  -- Error::CryptoInitFatal
  | state            -- Error::InvalidCryptoState
  | message          -- Error::Message
  deriving DecidableEq, Repr

structure CryptoEnv where
  /-- first 4 bytes of SHA-256(public key ++ salt) -/
  keyHash : Bytes → Bytes → Bytes
  /-- first 16 bytes of SHA-256(salt ++ node id) -/
  nodeHash : Bytes → Bytes → Bytes
  /-- Ed25519 verification: public key, signed data, signature -/
  sigVerify : Bytes → Bytes → Bytes → Bool

namespace InitMsg
open Codec

def F32_INFINITY : Bytes := [0x7f, 0x80, 0x00, 0x00]

/-- the `PART_ALGORITHMS` body: `count = field_len / 5` entries of (id byte, f32) -/
def readAlgos : Nat → Bytes → Algos → Option (Algos × Bytes)
  | 0, r, acc => some (acc, r)
  | n + 1, r, acc => do
    let (id, r1) ← readU8 r
    let (sp, r2) ← take? 4 r1
    let acc' : Algos :=
      if id = 0 then { acc with allowUnencrypted := true }
      else match Cipher.ofWireId id with
        | some c => { acc with speeds := acc.speeds ++ [(c, Bytes.beVal sp)] }
        | none => acc
    readAlgos n r2 acc'

structure Fields where
  stage : Option Nat := none
  hash : Option Bytes := none
  ecdh : Option Bytes := none
  payload : Option Bytes := none
  algos : Option Algos := none

/-- the field loop of `read_from`; returns the fields and the remaining bytes behind the END marker.
    `fuel` bounds the iterations (each consumes at least the tag byte). -/
def readFields : Nat → Bytes → Fields → Except InitErr (Fields × Bytes)
  | 0, _, _ => .error .parse
  | fuel + 1, r, acc =>
    match readU8 r with
    | none => .error .parse
    | some (field, r1) =>
      if field = Generated.PART_END then .ok (acc, r1) else
      match readU16 r1 with
      | none => .error .parse
      | some (len, r2) =>
        if field = Generated.PART_STAGE then
          if len ≠ 1 then .error .cryptoInit else
          match readU8 r2 with
          | none => .error .parse
          | some (s, r3) => readFields fuel r3 { acc with stage := some s }
        else if field = Generated.PART_SALTED_NODE_ID_HASH then
          if len ≠ Generated.SALTED_NODE_ID_HASH_LEN then .error .cryptoInit else
          match take? Generated.SALTED_NODE_ID_HASH_LEN r2 with
          | none => .error .parse
          | some (h, r3) => readFields fuel r3 { acc with hash := some h }
        else if field = Generated.PART_ECDH_PUBLIC_KEY then
          match take? len r2 with
          | none => .error .parse
          | some (k, r3) => readFields fuel r3 { acc with ecdh := some k }
        else if field = Generated.PART_PAYLOAD then
          match take? len r2 with
          | none => .error .parse
          | some (p, r3) => readFields fuel r3 { acc with payload := some p }
        else if field = Generated.PART_ALGORITHMS then
          match readAlgos (len / 5) r2 { speeds := [], allowUnencrypted := false } with
          | none => .error .parse
          | some (a, r3) => readFields fuel r3 { acc with algos := some a }
        else
          match take? len r2 with
          | none => .error .parse
          | some (_, r3) => readFields fuel r3 acc

/-- `InitMsg::read_from(buffer, trusted_keys)`: returns the message and the key that signed it -/
def readFrom (env : CryptoEnv) (buffer : Bytes) (trusted : List Bytes) : Except InitErr (InitMsg × Bytes) :=
  match take? 4 buffer with
  | none => .error .parse
  | some (salt, r1) =>
  match take? 4 r1 with
  | none => .error .parse
  | some (khash, r2) =>
  match trusted.find? (fun tk => env.keyHash tk salt = khash) with
  | none => .error .crypto                      -- untrusted peer
  | some pk =>
  match readFields (r2.length + 1) r2 {} with
  | .error e => .error e
  | .ok (f, r3) =>
    let pos := buffer.length - r3.length
    match readU8 r3 with
    | none => .error .parse
    | some (siglen, r4) =>
    match take? siglen r4 with
    | none => .error .parse
    | some (sig, _) =>
      if !env.sigVerify pk (buffer.take pos) sig then .error .crypto     -- invalid signature
      else
        match f.stage, f.hash with
        | none, _ => .error .cryptoInit
        | some _, none => .error .cryptoInit
        | some stage, some hash =>
          if stage = Generated.STAGE_PING then
            match f.ecdh, f.algos with
            | some e, some a => .ok (.ping hash e a, pk)
            | _, _ => .error .cryptoInit
          else if stage = Generated.STAGE_PONG then
            match f.ecdh, f.algos, f.payload with
            | some e, some a, some p => .ok (.pong hash e a p, pk)
            | _, _, _ => .error .cryptoInit
          else if stage = Generated.STAGE_PENG then
            match f.payload with
            | some p => .ok (.peng hash p, pk)
            | none => .error .cryptoInit
          else .error .cryptoInit

def algosBody (a : Algos) : Bytes :=
  (if a.allowUnencrypted then 0 :: F32_INFINITY else []) ++
  a.speeds.flatMap (fun (c, s) => c.wireId :: Bytes.ofBE 4 s)

def part (tag : Nat) (body : Bytes) : Bytes := tag :: (Bytes.ofU16 body.length ++ body)

/-- the signed region of `write_to`: salt, key hash, parts, END marker -/
def signedRegion (m : InitMsg) (salt khash : Bytes) : Bytes :=
  salt ++ khash ++
  part Generated.PART_STAGE [m.stage] ++
  part Generated.PART_SALTED_NODE_ID_HASH m.hash ++
  (match m with
   | .ping _ e _ | .pong _ e _ _ => part Generated.PART_ECDH_PUBLIC_KEY e
   | .peng .. => []) ++
  (match m with
   | .ping _ _ a | .pong _ _ a _ => part Generated.PART_ALGORITHMS (algosBody a)
   | .peng .. => []) ++
  (match m with
   | .pong _ _ _ p | .peng _ p => part Generated.PART_PAYLOAD p
   | .ping .. => []) ++
  [Generated.PART_END]

/-- `InitMsg::write_to` with the random salt and the signature as arguments -/
def writeTo (m : InitMsg) (salt khash sig : Bytes) : Bytes :=
  signedRegion m salt khash ++ [sig.length % 256] ++ sig

end InitMsg
end VpnCloud
