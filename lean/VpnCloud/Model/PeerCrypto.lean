import VpnCloud.Model.Init
import VpnCloud.Model.Rotation
/-
  Model of `PeerCrypto` (src/crypto/common.rs): handshake object, rotation state, crypto core and
  the dispatch of received datagrams.  Byte-level; sealed bodies are viewed symbolically through
  `bodyOf` (ideal AEAD).  Rotation reuses `Rot.process` / `Rot.cycle` (the functions `rotation_sync`
  is proved about); ephemeral rotation keys are numbered by the big-endian value of their public
  key bytes, fresh ones are observed through a read-only hook and passed in `RotRand`.
  The symbolic layer forgets the byte length of a peer's key, so the panic of `derive_key` on a key that
  is not an X25519 public key (length ≠ 32) is decided here, on the bytes (`derivePanics`, `rotatePanics`).
-/
namespace VpnCloud

structure PeerCrypto where
  init : Option InitSt
  rot : Option Rot.Side := none
  unencrypted : Bool := false
  core : Option Core := none
  rotateCounter : Nat := 0
  /-- master key of slot 0 (for the symbolic key of rotation id 0) -/
  master : KeyRef := 0
  /-- negotiated cipher (`None` = plain or not yet negotiated) -/
  cipher : Option Cipher := none

inductive MsgResult
  | message (type : Nat) (plain : Bytes)
  | initialized (payload : Bytes)
  | initializedWithReply (payload : Bytes)
  | reply
  | none
  deriving DecidableEq, Repr

/-- randomness of a rotation step: the public key of a newly created ephemeral pair (as a number),
    the start value of a new send counter, ciphertext bytes of an emitted sealed message -/
structure RotRand where
  /-- public key (as a number) of a key pair created as own proposal (`RotationState::new`, `cycle`) -/
  freshProp : Nat := 0
  /-- public key of a key pair created in reply to a peer's proposal (`process_message`) -/
  freshPend : Nat := 0
  /-- observed start values of the four send counters (the one of a newly installed slot is used) -/
  starts : List Nat := []
  ct : Bytes := []
  deriving Repr

inductive POutcome (α : Type)
  | ok (pc : PeerCrypto) (out : Bytes) (a : α) (log : Init.SealLog)
  | err (pc : PeerCrypto) (e : InitErr)
  | panic

namespace PeerCrypto
open Codec

/-- injective naming of symbolic rotation keys as core key references -/
def keyRefOf (master : KeyRef) : Rot.Key → KeyRef
  | .init => master
  | .dummy s i => 2 + 4 * s + i
  | .dh lo hi => Bytes.beVal (20 :: (Bytes.ofBE 40 lo ++ Bytes.ofBE 40 hi))

def rotMsgOfBytes (m : RotMsg) : Rot.Msg :=
  { id := m.id, propose := Bytes.beVal m.propose, confirm := m.confirm.map Bytes.beVal }

def rotMsgToBytes (m : Rot.Msg) : RotMsg :=
  { id := m.id, propose := Bytes.ofBE 32 m.propose, confirm := m.confirm.map (Bytes.ofBE 32) }

def initSide (initiator : Bool) (firstPub : Nat) : Rot.Side :=
  { confirmed := none, pending := none, proposed := if initiator then some firstPub else none,
    id := if initiator then 1 else 0, timeout := false,
    slots := fun i => if i = 0 then .init else .dummy 0 i, cur := 0 }

/-- `PeerCrypto::encrypt_message` on a plaintext (type byte included) -/
def sealMsg (pc : PeerCrypto) (plain : Bytes) (ct : Bytes) : PeerCrypto × Except InitErr (Bytes × Init.SealLog) :=
  if pc.unencrypted then (pc, .ok (plain, []))
  else match pc.core with
    | none => (pc, .error .state)
    | some c =>
      let (c', d) := c.encrypt plain
      ({ pc with core := some c' }, .ok (d.hdr ++ ct, [(ct, d.body)]))

/-- apply a rotated key to the core (`CryptoCore::rotate_key`) -/
def installKey (pc : PeerCrypto) (key : Rot.Key) (id : Nat) (use : Bool) (starts : List Nat) : PeerCrypto :=
  match pc.core with
  | some c => { pc with core := some (c.rotateKey (keyRefOf pc.master key) id use (starts.getD (id % 4) 0)) }
  | none => pc

/-- length of an X25519 public key: ring's `agree_ephemeral` returns `Err` for a peer key of any other length -/
def ROT_KEY_LEN : Nat := 32

/-- The two `derive_key(..).unwrap()` sites of `RotationState::process_message` (`derive_key` is
    `agree_ephemeral(private_key, &public_key, ..).unwrap()`), in the order of the Rust: messages with
    `id <= self.message_id` return early and derive nothing; then `derive_key(private_key, msg.propose)` panics if the
    proposed key does not have 32 bytes; `derive_key(private_key, peer_key)` is reached only if `msg.confirm` is present
    AND `self.proposed` is some, and panics if the confirmed key does not have 32 bytes.
    (Not modelled: the few 32-byte low-order points whose shared secret is all zero, which ring also rejects.) -/
def derivePanics (sd : Rot.Side) (bm : RotMsg) : Bool :=
  if bm.id ≤ sd.id then false
  else if bm.propose.length ≠ ROT_KEY_LEN then true
  else match bm.confirm, sd.proposed with
    | some c, some _ => decide (c.length ≠ ROT_KEY_LEN)
    | _, _ => false

/-- does `handle_rotate_message` reach a panicking `derive_key`?  Same guards, in the same order, as `handleRotate`:
    unencrypted sessions return before parsing, a missing rotation state and a short message are errors. -/
def rotatePanics (pc : PeerCrypto) (data : Bytes) : Bool :=
  if pc.unencrypted then false
  else match pc.rot with
    | none => false
    | some sd =>
      match readRotMsg data with
      | none => false
      | some bm => derivePanics sd bm

/-- `handle_rotate_message`: the outcome when no `derive_key` panics (`rotatePanics` is checked first by `handleMessage`) -/
def handleRotate (pc : PeerCrypto) (data : Bytes) (rr : RotRand) : PeerCrypto × Except InitErr Unit :=
  if pc.unencrypted then (pc, .ok ())
  else match pc.rot with
    | none => (pc, .error .state)
    | some sd =>
      match readRotMsg data with
      | none => (pc, .error .crypto)                  -- "Rotation message too short"
      | some bm =>
        let m := rotMsgOfBytes bm
        let rotated := decide (m.id > sd.id) && m.confirm.isSome && sd.proposed.isSome
        let sd' := Rot.process sd m rr.freshPend
        let pc1 := { pc with rot := some sd' }
        if rotated then
          match pc1.core with
          | none => (pc1, .error .state)
          | some _ => (installKey pc1 (sd'.slots (m.id % 4)) m.id true rr.starts, .ok ())
        else (pc1, .ok ())

/-- `handle_init_message` (the 0xff prefix is already removed; `window` as in `Init.handleInit`) -/
def handleInitMessage (env : CryptoEnv) (bodyOf : Init.BodyOf) (payloadOk : Bytes → Bool)
    (pc : PeerCrypto) (window : Bytes) (rnd : Rand) (rr : RotRand) : POutcome MsgResult :=
  match pc.init with
  | none => .err pc .state
  | some ist =>
    match Init.handleInit env bodyOf payloadOk ist window rnd with
    | .panic => .panic
    | .err ist' e => .err { pc with init := some ist' } e
    | .ok ist' (out, res, ilog) =>
      let out1 := if out.isEmpty then [] else Generated.INIT_MESSAGE_FIRST_BYTE :: out
      match res with
      | .continue => .ok { pc with init := some ist' } out1 .reply ilog
      | .success payload isInitiator =>
        let core := ist'.crypto
        let ist2 := { ist' with crypto := none }
        let pc1 : PeerCrypto := { pc with core := core, unencrypted := core.isNone, cipher := ist'.selected,
                                          master := (core.bind (fun c => c.slots[0]?.map (·.key))).getD 0,
                                          init := if ist2.stage = Generated.CLOSING then none else some ist2 }
        if core.isNone then
          if !isInitiator then .ok pc1 out1 (.initialized payload) ilog
          else .ok pc1 out1 (.initializedWithReply payload) ilog
        else
          -- RotationState::new(!is_initiator, buffer): the handshake responder starts the rotation
          if !isInitiator then
            let side := initSide true rr.freshProp
            let m : RotMsg := rotMsgToBytes ⟨1, rr.freshProp, none⟩
            let plain := Generated.MESSAGE_TYPE_ROTATION :: writeRotMsg m
            match sealMsg { pc1 with rot := some side } plain rr.ct with
            | (pc2, .ok (bytes, log)) => .ok pc2 bytes (.initializedWithReply payload) (ilog ++ log)
            | (pc2, .error e) => .err pc2 e
          else
            .ok { pc1 with rot := some (initSide false 0) } out1 (.initializedWithReply payload) ilog

/-- `PeerCrypto::handle_message`.  `datagram` = the received message, `tail` = what follows it in the
    receive buffer (stale bytes). -/
def handleMessage (env : CryptoEnv) (bodyOf : Init.BodyOf) (payloadOk : Bytes → Bool)
    (pc : PeerCrypto) (datagram tail : Bytes) (rnd : Rand) (rr : RotRand) : POutcome MsgResult :=
  match datagram with
  | [] => .err pc .state
  | b0 :: rest =>
    if b0 = Generated.INIT_MESSAGE_FIRST_BYTE then
      if rest.isEmpty then .err pc .parse
      else handleInitMessage env bodyOf payloadOk pc rest rnd rr
    else
      -- decrypt_message
      let dec : PeerCrypto × Except InitErr Bytes :=
        if pc.unencrypted then (pc, .ok datagram)
        else match pc.core with
          | none => (pc, .error .state)
          | some c =>
            let (c', r) := c.decrypt { hdr := datagram.take 8, body := bodyOf (datagram.drop 8) }
            match r with
            | .ok p => ({ pc with core := some c' }, .ok p)
            | .error _ => ({ pc with core := some c' }, .error .crypto)
      match dec with
      | (pc1, .error e) => .err pc1 e
      | (pc1, .ok plain) =>
        match plain with
        | [] => .panic                        -- take_prefix on an empty message, then `len()` underflows
        | ty :: body =>
          if ty = Generated.MESSAGE_TYPE_ROTATION then
            -- handle_rotate_message(buffer.buffer()): sees the body and whatever follows in the buffer
            -- `derive_key(..).unwrap()` in `process_message`: a proposed / confirmed key that is not 32 bytes long
            if rotatePanics pc1 (body ++ (if pc1.unencrypted then tail else [])) then .panic
            else match handleRotate pc1 (body ++ (if pc1.unencrypted then tail else [])) rr with
            | (pc2, .ok ()) => .ok pc2 [] .none []
            | (pc2, .error e) => .err pc2 e
          else .ok pc1 [] (.message ty body) []

/-- `PeerCrypto::send_message` -/
def sendMessage (pc : PeerCrypto) (type : Nat) (body : Bytes) (ct : Bytes) : PeerCrypto × Except InitErr (Bytes × Init.SealLog) :=
  sealMsg pc (type :: body) ct

/-- `PeerCrypto::every_second` -/
def everySecond (pc : PeerCrypto) (rr : RotRand) : POutcome MsgResult :=
  let pc0 := { pc with core := pc.core.map Core.everySecond }
  let step1 : PeerCrypto × Except InitErr Bytes :=
    match pc0.init with
    | some ist =>
      let (ist', r) := Init.everySecond ist
      ({ pc0 with init := some ist' }, r)
    | none => (pc0, .ok [])
  match step1 with
  | (pc1, .error e) => .err pc1 e
  | (pc1, .ok out) =>
    let pc2 := { pc1 with init := match pc1.init with
                  | some i => if i.stage = Generated.CLOSING then none else some i
                  | none => none }
    if !out.isEmpty then .ok pc2 (Generated.INIT_MESSAGE_FIRST_BYTE :: out) .reply []
    else match pc2.rot with
      | none => .ok pc2 [] .none []
      | some sd =>
        let cnt := pc2.rotateCounter + 1
        if cnt < Generated.ROTATE_INTERVAL then .ok { pc2 with rotateCounter := cnt } [] .none []
        else
          let rotated := sd.proposed.isNone && sd.pending.isSome
          let (sd', m) := Rot.cycle sd rr.freshProp
          let pc3 := { pc2 with rotateCounter := 0, rot := some sd' }
          let pc4 := if rotated then installKey pc3 (sd'.slots (sd'.id % 4)) sd'.id false rr.starts else pc3
          match m with
          | none => .ok pc4 [] .none []
          | some m =>
            let plain := Generated.MESSAGE_TYPE_ROTATION :: writeRotMsg (rotMsgToBytes m)
            match sealMsg pc4 plain rr.ct with
            | (pc5, .ok (bytes, log)) => .ok pc5 bytes .reply log
            | (pc5, .error e) => .err pc5 e

end PeerCrypto
end VpnCloud
