import VpnCloud.Model.Range
import VpnCloud.Generated.Guards
/-
  Model of `ClaimTable` (src/table.rs).  `SocketAddr` keys are abstract peer ids (`Nat`);
  the `HashMap` cache is an association list whose keys are kept distinct by `cacheInsert`;
  the claim `Vec` is a list in table order (order matters: ties between equally long matching
  prefixes are won by the first entry).  Time is an explicit argument (`TS::now()`).
-/
namespace VpnCloud

abbrev PeerId := Nat

structure ClaimEntry where
  peer : PeerId
  claim : Range
  timeout : Int
  deriving DecidableEq, Repr

structure CacheEntry where
  addr : Addr
  peer : PeerId
  timeout : Int
  deriving DecidableEq, Repr

structure Table where
  cache : List CacheEntry := []
  claims : List ClaimEntry := []
  cacheTimeout : Nat
  claimTimeout : Nat
  deriving Repr

namespace Table

/-- `HashMap::insert`: replaces the value of an existing key -/
def cacheInsert (c : List CacheEntry) (e : CacheEntry) : List CacheEntry :=
  e :: c.filter (fun x => x.addr ≠ e.addr)

/-- `ClaimTable::cache` (learning) -/
def learn (t : Table) (now : Int) (addr : Addr) (peer : PeerId) : Table :=
  { t with cache := cacheInsert t.cache { addr, peer, timeout := now + t.cacheTimeout } }

/-- `ClaimTable::clear_cache` -/
def clearCache (t : Table) : Table := { t with cache := [] }

/-- `ClaimTable::housekeep` -/
def housekeep (t : Table) (now : Int) : Table :=
  { t with cache := t.cache.filter (fun v => Generated.cacheLive v.timeout now),
           claims := t.claims.filter (fun e => Generated.claimLive e.timeout now) }

/-- `SmallVec::swap_remove` -/
def swapRemove {α} (l : List α) (pos : Nat) : List α :=
  match l.getLast? with
  | none => l
  | some last => if pos + 1 = l.length then l.dropLast else (l.set pos last).dropLast

/-- `iter().position(|r| r == x)` -/
def position (l : List Range) (x : Range) : Option Nat :=
  match l.findIdx? (fun r => r = x) with
  | some i => some i
  | none => none

/-- the first loop of `ClaimTable::set_claims`: refresh entries of `peer` that are announced again
    (removing them from the announcement), mark the others as expired. Returns the updated
    entries, the not yet matched rest of the announcement, and whether a claim was dropped. -/
def setClaimsLoop (peer : PeerId) (fresh : Int) :
    List ClaimEntry → List Range → Bool → List ClaimEntry × List Range × Bool
  | [], cs, rm => ([], cs, rm)
  | e :: es, cs, rm =>
    if e.peer = peer then
      match position cs e.claim with
      | some pos =>
        let r := setClaimsLoop peer fresh es (swapRemove cs pos) rm
        ({ e with timeout := fresh } :: r.1, r.2.1, r.2.2)
      | none =>
        let r := setClaimsLoop peer fresh es cs true
        ({ e with timeout := 0 } :: r.1, r.2.1, r.2.2)
    else
      let r := setClaimsLoop peer fresh es cs rm
      (e :: r.1, r.2.1, r.2.2)

/-- `ClaimTable::set_claims` -/
def setClaims (t : Table) (now : Int) (peer : PeerId) (claims : List Range) : Table :=
  let fresh := now + t.claimTimeout
  let r := setClaimsLoop peer fresh t.claims claims false
  let claims' := r.1 ++ r.2.1.map (fun c => { peer, claim := c, timeout := fresh })
  let cache' := if r.2.2 then t.cache.map (fun v => if v.peer = peer then { v with timeout := 0 } else v)
                else t.cache
  housekeep { t with claims := claims', cache := cache' } now

/-- `ClaimTable::remove_claims` -/
def removeClaims (t : Table) (now : Int) (peer : PeerId) : Table :=
  housekeep { t with
    claims := t.claims.map (fun e => if e.peer = peer then { e with timeout := 0 } else e),
    cache := t.cache.map (fun v => if v.peer = peer then { v with timeout := 0 } else v) } now

/-- the scan of `ClaimTable::lookup`: keep the first entry with the strictly longest matching prefix -/
def scan (addr : Addr) : List ClaimEntry → Option ClaimEntry → Option ClaimEntry
  | [], acc => acc
  | e :: es, acc =>
    let longer := match acc with
      | none => true
      | some a => decide (e.claim.prefixLen > a.claim.prefixLen)
    if longer && e.claim.matches addr then scan addr es (some e) else scan addr es acc

/-- `ClaimTable::lookup` -/
def lookup (t : Table) (now : Int) (addr : Addr) : Table × Option PeerId :=
  match t.cache.find? (fun v => v.addr = addr) with
  | some v => (t, some v.peer)
  | none =>
    match scan addr t.claims none with
    | some e =>
      let entry : CacheEntry := { addr, peer := e.peer, timeout := min (now + t.cacheTimeout) e.timeout }
      ({ t with cache := cacheInsert t.cache entry }, some e.peer)
    | none => (t, none)

end Table
end VpnCloud
