import VpnCloud.Model.Bytes
/-
  Model of src/payload.rs (`Frame::parse`, `Packet::parse`) and of
  `Address::read_from_fixed` (src/types.rs).

  An `Address` of the Rust code is a 16-byte array plus a length; equality and hashing
  look only at the first `len` bytes.  The model represents an address by exactly those
  bytes (`List Nat`, length = `len`).
-/
namespace VpnCloud

abbrev Addr := List Nat

inductive ParseErr
  | frameTooShort | vlanTooShort | emptyHeader | truncV4 | truncV6 | badVersion | addrTooShort | addrTooLong
  deriving DecidableEq, Repr

namespace Payload

/-- `Cursor::read_exact` on the remaining bytes: either exactly `n` bytes and the rest, or failure
    (the cursor position is irrelevant after a failure because every caller returns at once). -/
def readExact (n : Nat) (r : Bytes) : Option (Bytes × Bytes) :=
  if n ≤ r.length then some (r.take n, r.drop n) else none

/-- `Address::read_from_fixed(r, len)`, src/types.rs -/
def readFromFixed (r : Bytes) (len : Nat) : Except ParseErr Addr :=
  if len > 16 then .error .addrTooLong
  else match readExact len r with
    | none => .error .addrTooShort
    | some (a, _) => .ok a

/-- `Frame::parse`, src/payload.rs.  Mirrors the code step by step:
    read dst(6), src(6), proto(2); if proto = 81 00: read two more bytes (the TCI), keep the
    low 12 bits, prefix both addresses with them; a VLAN id of 0 is folded to the untagged form. -/
def frameParse (data : Bytes) : Except ParseErr (Addr × Addr) :=
  match readExact 6 data with
  | none => .error .frameTooShort
  | some (dst, r1) =>
  match readExact 6 r1 with
  | none => .error .frameTooShort
  | some (src, r2) =>
  match readExact 2 r2 with
  | none => .error .frameTooShort
  | some (proto, r3) =>
  if proto = [0x81, 0x00] then
    match readExact 2 r3 with
    | none => .error .vlanTooShort
    | some (tci, _) =>
      -- src[0] &= 0x0f
      let tag := [tci.headD 0 % 16, tci.getD 1 0]
      if tag = [0, 0] then .ok (src, dst)
      else .ok (tag ++ src, tag ++ dst)
  else .ok (src, dst)

/-- `Packet::parse`, src/payload.rs -/
def packetParse (data : Bytes) : Except ParseErr (Addr × Addr) :=
  match data with
  | [] => .error .emptyHeader
  | b0 :: _ =>
    let version := b0 / 16
    if version = 4 then
      if data.length < 20 then .error .truncV4
      else do
        let src ← readFromFixed (data.drop 12) 4
        let dst ← readFromFixed (data.drop 16) 4
        pure (src, dst)
    else if version = 6 then
      if data.length < 40 then .error .truncV6
      else do
        let src ← readFromFixed (data.drop 8) 16
        let dst ← readFromFixed (data.drop 24) 16
        pure (src, dst)
    else .error .badVersion

end Payload
end VpnCloud
