/-
  Bytes: the model represents a byte string as `List Nat` together with the
  well-formedness predicate `Bytes.WF` (every element < 256).  All byte-level
  helpers used by several model files live here.  No Mathlib imports.
-/
namespace VpnCloud

abbrev Bytes := List Nat

namespace Bytes

def WF (l : Bytes) : Prop := ∀ b ∈ l, b < 256

instance (l : Bytes) : Decidable (WF l) := by unfold WF; infer_instance

@[simp] theorem wf_nil : WF [] := by simp [WF]
@[simp] theorem wf_cons {b : Nat} {l : Bytes} : WF (b :: l) ↔ b < 256 ∧ WF l := by
  simp [WF]
theorem wf_append {a b : Bytes} : WF (a ++ b) ↔ WF a ∧ WF b := by
  simp [WF, or_imp, forall_and]
theorem wf_take {a : Bytes} (n : Nat) (h : WF a) : WF (a.take n) :=
  fun b hb => h b (List.mem_of_mem_take hb)
theorem wf_drop {a : Bytes} (n : Nat) (h : WF a) : WF (a.drop n) :=
  fun b hb => h b (List.mem_of_mem_drop hb)
theorem wf_replicate (n b : Nat) (h : b < 256) : WF (List.replicate n b) := by
  intro x hx; rw [List.mem_replicate] at hx; omega

/-- big-endian 16-bit value of two bytes -/
def u16 (hi lo : Nat) : Nat := hi * 256 + lo

/-- big-endian encoding of a 16-bit value (value taken mod 2^16, as a Rust `as u16` does) -/
def ofU16 (v : Nat) : Bytes := [(v / 256) % 256, v % 256]

theorem u16_ofU16 (v : Nat) (h : v < 65536) :
    u16 ((v / 256) % 256) (v % 256) = v := by
  unfold u16; omega

/-- big-endian value of a byte string -/
def beVal : Bytes → Nat
  | [] => 0
  | b :: rest => b * 256 ^ rest.length + beVal rest

/-- big-endian encoding in exactly `n` bytes (value mod 256^n) -/
def ofBE : Nat → Nat → Bytes
  | 0, _ => []
  | n + 1, v => (v / 256 ^ n) % 256 :: ofBE n v

def hexDigit (n : Nat) : Char :=
  if n < 10 then Char.ofNat (48 + n) else Char.ofNat (87 + n)

def toHex (l : Bytes) : String :=
  String.ofList (l.flatMap fun b => [hexDigit (b / 16), hexDigit (b % 16)])

def hexVal (c : Char) : Option Nat :=
  if '0' ≤ c ∧ c ≤ '9' then some (c.toNat - 48)
  else if 'a' ≤ c ∧ c ≤ 'f' then some (c.toNat - 87)
  else if 'A' ≤ c ∧ c ≤ 'F' then some (c.toNat - 55)
  else none

def ofHexChars : List Char → Option Bytes
  | [] => some []
  | [_] => none
  | a :: b :: rest => do
    let x ← hexVal a
    let y ← hexVal b
    let r ← ofHexChars rest
    pure ((x * 16 + y) :: r)

/-- parse a hex string; "-" denotes the empty string -/
def ofHex (s : String) : Option Bytes :=
  if s = "-" then some [] else ofHexChars s.toList

def toHexOrDash (l : Bytes) : String := if l.isEmpty then "-" else toHex l

end Bytes
end VpnCloud
