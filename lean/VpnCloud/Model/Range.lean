import VpnCloud.Model.Bytes
import VpnCloud.Model.Payload
/-
  Model of `Range` / `Range::matches` (src/types.rs).
-/
namespace VpnCloud

structure Range where
  base : Addr
  prefixLen : Nat
  deriving DecidableEq, Repr

namespace Range

/-- `u8::leading_zeros` -/
def lz8 (m : Nat) : Nat :=
  if m ≥ 128 then 0 else if m ≥ 64 then 1 else if m ≥ 32 then 2 else if m ≥ 16 then 3
  else if m ≥ 8 then 4 else if m ≥ 4 then 5 else if m ≥ 2 then 6 else if m ≥ 1 then 7 else 8

/-- the loop of `Range::matches`: accumulate the leading zeros of `addr[i] ^ base[i]`, stop at the
    first byte that differs.  (Both lists have the same length when this is called.) -/
def matchLen : Bytes → Bytes → Nat
  | a :: as, b :: bs =>
    let m := a ^^^ b
    if m ≠ 0 then lz8 m else lz8 m + matchLen as bs
  | _, _ => 0

/-- `Range::matches` -/
def «matches» (r : Range) (addr : Addr) : Bool :=
  if r.base.length ≠ addr.length then false
  else decide (matchLen addr r.base ≥ r.prefixLen)

end Range
end VpnCloud
