import VpnCloud.Model.Bytes
/-
  Model of `to_base62` / `from_base62` / `base62_add_mult_16` (src/util.rs) and of
  `Crypto::key_from_base62` (src/crypto/common.rs).  Panic sites of the Rust code are explicit:
  the functions return `none` where the Rust would panic (`assert!(d < 62)`, `buf[buflen]` out of
  bounds); "never panics" is a theorem.
-/
namespace VpnCloud.Base62

/-- the alphabet `BASE62` of src/util.rs -/
def alphabet : List Char :=
  "0123456789ABCDEFGHIJKLMNOPQRSTUVWXYZabcdefghijklmnopqrstuvwxyz".toList

/-- inner loop of `base62_add_mult_16`: `digits` are little-endian base-62 digits, `d` the carry -/
def addMult16Loop : List Nat → Nat → List Nat × Nat
  | [], d => ([], d)
  | item :: rest, d =>
    let d' := d + item * 16
    let r := addMult16Loop rest (d' / 62)
    (d' % 62 :: r.1, r.2)

/-- `base62_add_mult_16(buf, buflen, m)`: `digits` = `buf[0..buflen]`, `cap` = `buf.len()`.
    `none` = the Rust code panics (assertion or index out of bounds). -/
def addMult16 (cap : Nat) (digits : List Nat) (m : Nat) : Option (List Nat) :=
  let r := addMult16Loop digits m
  if r.2 ≥ 62 then none                                  -- assert!(d < 62)
  else if r.2 > 0 then
    if digits.length < cap then some (r.1 ++ [r.2]) else none   -- buf[buflen] = d
  else some r.1

/-- the loop over the input bytes of `to_base62` -/
def toDigits (cap : Nat) : List Nat → List Nat → Option (List Nat)
  | [], ds => some ds
  | b :: rest, ds =>
    match addMult16 cap ds (b / 16) with
    | none => none
    | some ds1 =>
      match addMult16 cap ds1 (b % 16) with
      | none => none
      | some ds2 => toDigits cap rest ds2

/-- `to_base62`: `none` = panic -/
def toBase62 (data : Bytes) : Option (List Char) :=
  match toDigits (data.length * 2) data [] with
  | none => none
  | some ds => some (ds.reverse.map (fun d => alphabet.getD d '?'))

/-- character value in `from_base62` -/
def charVal (c : Char) : Option Nat :=
  if '0' ≤ c ∧ c ≤ '9' then some (c.toNat % 48)
  else if 'A' ≤ c ∧ c ≤ 'Z' then some (c.toNat % 65 + 10)
  else if 'a' ≤ c ∧ c ≤ 'z' then some (c.toNat % 97 + 36)
  else none

/-- inner loop of `from_base62`: little-endian base-256 digits, carry `val` -/
def mulAddLoop : List Nat → Nat → List Nat × Nat
  | [], v => ([], v)
  | item :: rest, v =>
    let v' := v + item * 62
    let r := mulAddLoop rest (v' / 256)
    (v' % 256 :: r.1, r.2)

def fromChars : List Char → List Nat → Except Char (List Nat)
  | [], buf => .ok buf
  | c :: rest, buf =>
    match charVal c with
    | none => .error c
    | some v =>
      let r := mulAddLoop buf v
      -- `buf.push(val as u8)`: truncation to a byte, as the Rust cast does
      fromChars rest (if r.2 > 0 then r.1 ++ [r.2 % 256] else r.1)

/-- `from_base62` -/
def fromBase62 (s : List Char) : Except Char Bytes :=
  match fromChars s [] with
  | .ok buf => .ok buf.reverse
  | .error c => .error c

/-- `Crypto::key_from_base62`: restore the leading zero bytes up to the key length of 32 -/
def keyFromBase62 (s : List Char) : Except Char Bytes :=
  match fromBase62 s with
  | .ok k => .ok (List.replicate (32 - k.length) 0 ++ k)
  | .error c => .error c

/-- `Crypto::parse_public_key` (accept/reject and bytes) -/
def parsePublicKey (s : List Char) : Option Bytes :=
  match keyFromBase62 s with
  | .ok k => if k.length = 32 then some k else none
  | .error _ => none

def dropLeadingZeros : Bytes → Bytes
  | 0 :: rest => dropLeadingZeros rest
  | l => l

end VpnCloud.Base62
