import VpnCloud.Model.Base62
import VpnCloud.Model.NodeInfo
/-
  Model of the beacon text codec (src/beacon.rs): `peerlist_encode` / `peerlist_decode`,
  `encrypt_data` / `decrypt_data`, `mask_with_keystream`, `encode` / `decode`.
  The hash (SHA-512) is a parameter: `ks type seed iter` is the 64-byte key stream block
  SHA-512([type, seed, iter] ++ key), `h0 data` the first byte of SHA-512(data).
-/
namespace VpnCloud

structure BeaconEnv where
  ks : Nat → Nat → Nat → Bytes
  h0 : Bytes → Nat

namespace Beacon
open Codec Base62

def TYPE_BEGIN := 0
def TYPE_END := 1
def TYPE_DATA := 2
def TYPE_SEED := 3

/-- `mask_with_keystream`: xor with the first 16 bytes of successive key stream blocks.
    `iter` is a `u8` in the code and is advanced with `iter = iter.wrapping_add(1)`: the block counter
    wraps modulo 256 in every build profile, so beyond 4096 bytes of data the key stream blocks repeat
    (block `i + 256` is masked like block `i`) and nothing panics. -/
def maskFrom (env : BeaconEnv) (type seed : Nat) : Bytes → Nat → Nat → Bytes
  | [], _, _ => []
  | b :: rest, iter, pos =>
    let m := (env.ks type seed iter).getD pos 0
    (b ^^^ m) :: (if pos + 1 = 16 then maskFrom env type seed rest ((iter + 1) % 256) 0 else maskFrom env type seed rest iter (pos + 1))

def mask (env : BeaconEnv) (data : Bytes) (type seed : Nat) : Bytes := maskFrom env type seed data 0 0

def marker (env : BeaconEnv) (type : Nat) : List Char := ((toBase62 (env.ks type 0 0)).getD []).take 5

def beginMarker (env : BeaconEnv) : List Char := marker env TYPE_BEGIN
def endMarker (env : BeaconEnv) : List Char := marker env TYPE_END

/-- `encrypt_data` -/
def encryptData (env : BeaconEnv) (data : Bytes) : Bytes :=
  let seed := env.h0 data
  mask env data TYPE_DATA seed ++ [seed ^^^ (env.ks TYPE_SEED 0 0).getD 0 0]

/-- `decrypt_data`: `none` = check failed -/
def decryptData (env : BeaconEnv) (data : Bytes) : Option Bytes :=
  match data.getLast? with
  | none => none
  | some last =>
    let seed := last ^^^ (env.ks TYPE_SEED 0 0).getD 0 0
    let body := mask env data.dropLast TYPE_DATA seed
    if seed = env.h0 body then some body else none

/-- plain body of a beacon: hour stamp, IPv4 count, IPv4 entries, IPv6 entries -/
def plainBody (peers : List SockAddr) (hour : Nat) : Bytes :=
  let v4 := peers.filter isV4
  let v6 := peers.filter (fun a => !isV4 a)
  Bytes.ofU16 hour ++ [v4.length % 256] ++ v4.flatMap sockBytes ++ v6.flatMap sockBytes

/-- `peerlist_encode` (`none` = `to_base62` panics, which it never does) -/
def peerlistEncode (env : BeaconEnv) (peers : List SockAddr) (hour : Nat) : Option (List Char) :=
  toBase62 (encryptData env (plainBody peers hour))

def readV4s : Nat → Bytes → List SockAddr
  | 0, _ => []
  | n + 1, d => .v4 (d.take 4) ((d.getD 4 0) * 256 + d.getD 5 0) :: readV4s n (d.drop 6)

def readV6s : Nat → Bytes → List SockAddr
  | 0, _ => []
  | n + 1, d => .v6 (d.take 16) ((d.getD 16 0) * 256 + d.getD 17 0) :: readV6s n (d.drop 18)

/-- the wrapping `u16` age test of `peerlist_decode`: `true` = too old / too far in the future -/
def tooOld (now thn ttl : Nat) : Bool :=
  decide ((now + 65536 - thn) % 65536 > ttl) && decide ((thn + 65536 - now) % 65536 > ttl)

/-- `peerlist_decode` on an alphanumeric text (`decode` sanitises first) -/
def peerlistDecode (env : BeaconEnv) (text : List Char) (ttl : Option Nat) (now : Nat) : List SockAddr :=
  match fromBase62 text with
  | .error _ => []          -- unreachable after sanitising (the Rust code would panic here)
  | .ok data =>
    if data.length < 4 then [] else
    match decryptData env data with
    | none => []
    | some d =>
      let thn := d.getD 0 0 * 256 + d.getD 1 0
      if (match ttl with | some t => tooOld now thn t | none => false) then [] else
      let v4count := d.getD 2 0
      let rest := d.length - 3
      if v4count * 6 > rest ∨ (rest - v4count * 6) % 18 > 0 then [] else
      readV4s v4count (d.drop 3) ++ readV6s ((rest - v4count * 6) / 18) (d.drop (3 + v4count * 6))

/-- `encode` -/
def encode (env : BeaconEnv) (peers : List SockAddr) (hour : Nat) : Option (List Char) :=
  (peerlistEncode env peers hour).map (fun body => beginMarker env ++ body ++ endMarker env)

/-- `str::find`: index of the first occurrence of `needle` in `hay` -/
def findSub (hay needle : List Char) : Option Nat :=
  let rec go (h : List Char) (i : Nat) (fuel : Nat) : Option Nat :=
    match fuel with
    | 0 => none
    | fuel + 1 =>
      if needle.isPrefixOf h then some i
      else match h with
        | [] => none
        | _ :: t => go t (i + 1) fuel
  go hay 0 (hay.length + 1)

def sanitize (s : List Char) : List Char := s.filter (fun c => c.isAlphanum)

/-- the scanning loop of `decode` on the sanitised text -/
def decodeLoop (env : BeaconEnv) (data : List Char) (ttl : Option Nat) (now : Nat) : Nat → Nat → List SockAddr
  | 0, _ => []
  | fuel + 1, pos =>
    match findSub (data.drop pos) (beginMarker env) with
    | none => []
    | some f =>
      let p := pos + f
      let startPos := p + (beginMarker env).length
      match findSub (data.drop startPos) (endMarker env) with
      | none => []
      | some g =>
        let endPos := startPos + g
        peerlistDecode env ((data.drop startPos).take (endPos - startPos)) ttl now ++ decodeLoop env data ttl now fuel startPos

/-- `decode` -/
def decode (env : BeaconEnv) (text : List Char) (ttl : Option Nat) (now : Nat) : List SockAddr :=
  let data := sanitize text
  decodeLoop env data ttl now (data.length + 1) 0

end Beacon
end VpnCloud
