import VpnCloud.Model.Bytes
import VpnCloud.Generated.Consts
import VpnCloud.Generated.Guards
/-
  Model of src/crypto/core.rs: `Nonce`, `CryptoKey`, `CryptoCore`.

  * `Nonce.increment` is modelled on the 12 bytes exactly as the Rust loop (carry chain from the
    last byte); `Proofs/C04.lean` proves that it is `+1 mod 2^96` on the big-endian value, and the
    rest of the model works with nonce *values* (`Nat`).
  * Key material is symbolic (`KeyRef`): two slots hold "the same key" iff their references are
    equal.  The AEAD is the ideal functionality: a sealed body records key, nonce and plaintext,
    `open` succeeds iff key and nonce are the ones it was sealed with and the body is untampered
    (`Body.sealed`), anything else (`Body.garbage`) fails.  Agreement of ring's AEAD with this
    idealisation on every mutated datagram is what the correspondence run tests.
  * Random start values of send counters are arguments (observed from the implementation).
-/
namespace VpnCloud

namespace Nonce

/-- `Nonce::increment`: from the last byte to the first: wrapping add 1, stop at the first byte
    that does not wrap to zero.  Input in reversed order (last byte first). -/
def incRev : List Nat → List Nat
  | [] => []
  | b :: rest =>
    let num := (b + 1) % 256
    if num > 0 then num :: rest else num :: incRev rest

def increment (n : Bytes) : Bytes := (incRev n.reverse).reverse

end Nonce

abbrev KeyRef := Nat

def NONCE_MOD : Nat := 2 ^ 96
def HALF : Nat := 2 ^ 95
def CTR_MOD : Nat := 2 ^ 56

/-- body of a datagram behind the 8-byte header: ciphertext and tag -/
inductive Body
  | sealed (key : KeyRef) (nonce : Nat) (plain : Bytes)
  | garbage (len : Nat)
  deriving DecidableEq, Repr

def Body.len : Body → Nat
  | .sealed _ _ p => p.length + Generated.TAG_LEN
  | .garbage n => n

/-- a datagram as `CryptoCore` sees it: the (up to) 8 header bytes — key-id byte and 7 counter
    bytes — and the body behind them (a datagram shorter than 8 bytes has a short `hdr` and an
    empty garbage body) -/
structure Dgram where
  hdr : Bytes
  body : Body
  deriving DecidableEq, Repr

def Dgram.len (d : Dgram) : Nat := d.hdr.length + d.body.len
def Dgram.keyId (d : Dgram) : Nat := d.hdr.headD 0
/-- the 7 transmitted counter bytes as a value `< 2^56` -/
def Dgram.counter (d : Dgram) : Nat := Bytes.beVal ((d.hdr.drop 1).take 7)

structure SlotKey where
  key : KeyRef
  send : Nat
  min : Nat := 0
  nextMin : Nat := 0
  seen : Nat := 0
  deriving DecidableEq, Repr

/-- `CryptoKey::new`: `start` is the random part (bytes 6..11, so `< 2^48`), byte 0 is the half marker -/
def SlotKey.new (key : KeyRef) (half : Bool) (start : Nat) : SlotKey :=
  { key, send := (if half then HALF else 0) + start }

/-- `CryptoKey::update_min_nonce` -/
def SlotKey.updateMinNonce (k : SlotKey) : SlotKey :=
  { k with min := k.nextMin, nextMin := (k.seen + 1) % NONCE_MOD }

structure Core where
  slots : List SlotKey          -- 4 of them
  cur : Nat
  half : Bool
  deriving DecidableEq, Repr

inductive CoreErr
  | tooShort | badKeyId | oldNonce | openFailed
  deriving DecidableEq, Repr

namespace Core

def SLOTS : Nat := 4

/-- `CryptoCore::new`: slot 0 holds the agreed key, the others throw-away random keys -/
def new (key : KeyRef) (half : Bool) (dummy : KeyRef) (starts : List Nat) : Core :=
  { slots := [SlotKey.new key half (starts.getD 0 0), SlotKey.new dummy half (starts.getD 1 0),
              SlotKey.new dummy half (starts.getD 2 0), SlotKey.new dummy half (starts.getD 3 0)],
    cur := 0, half }

/-- `CryptoCore::encrypt`: increment-before-use; header = key id, low 7 nonce bytes -/
def encrypt (c : Core) (plain : Bytes) : Core × Dgram :=
  match c.slots[c.cur]? with
  | none => (c, { hdr := [], body := .garbage 0 })   -- unreachable: cur < 4
  | some k =>
    let n := (k.send + 1) % NONCE_MOD
    ({ c with slots := c.slots.set c.cur { k with send := n } },
     { hdr := c.cur :: Bytes.ofBE 7 n, body := .sealed k.key n plain })

/-- nonce reconstruction of `CryptoCore::decrypt`: bytes 1..4 zero, byte 0 = the *other* half -/
def reconstruct (c : Core) (counter : Nat) : Nat := (if c.half then 0 else HALF) + counter

/-- `CryptoCore::decrypt` (with `decrypt_with_key`) -/
def decrypt (c : Core) (d : Dgram) : Core × Except CoreErr Bytes :=
  if Generated.datagramTooShort d.len then (c, .error .tooShort)
  else if Generated.keyIdInvalid d.keyId then (c, .error .badKeyId)
  else match c.slots[d.keyId]? with
  | none => (c, .error .badKeyId)
  | some k =>
    let nonce := reconstruct c d.counter
    if Generated.nonceTooOld nonce k.min then (c, .error .oldNonce)
    else match d.body with
    | .sealed key n plain =>
      if key = k.key ∧ n = nonce then
        let k' := if Generated.seenAdvances k.seen nonce then { k with seen := nonce } else k
        ({ c with slots := c.slots.set d.keyId k' }, .ok plain)
      else (c, .error .openFailed)
    | .garbage _ => (c, .error .openFailed)

/-- `CryptoCore::rotate_key` -/
def rotateKey (c : Core) (key : KeyRef) (id : Nat) (useForSending : Bool) (start : Nat) : Core :=
  let i := id % SLOTS
  { c with slots := c.slots.set i (SlotKey.new key c.half start),
           cur := if useForSending then i else c.cur }

/-- `CryptoCore::every_second` -/
def everySecond (c : Core) : Core := { c with slots := c.slots.map SlotKey.updateMinNonce }

end Core
end VpnCloud
