/-
  Model of src/crypto/rotate.rs (`RotationState::process_message`, `RotationState::cycle`) together with
  the key slots of `CryptoCore::rotate_key` (slot = id % 4; `use_for_sending` switches the sending slot).

  Key material is symbolic: an ephemeral ECDH key pair is a number, `K a b` is the (commutative) shared
  secret of the pairs `a` and `b` — the ECDH law `dh a (pub b) = dh b (pub a)` is built into the
  representation, and distinct unordered pairs give distinct keys (idealisation I3 of DESIGN.md).
  Fresh key pairs are drawn from a counter (`fresh`).

  `Sys` is the two-party system: both ends plus the *set of all rotation messages ever sent* by each;
  a step is a rotation cycle at one end or the delivery of any message ever sent by the other end
  (delivering any element any number of times, or never, subsumes loss, duplication, reordering, delay).
-/
namespace VpnCloud.Rot

structure Msg where
  id : Nat
  propose : Nat
  confirm : Option Nat
deriving DecidableEq, Repr

inductive Key
  | init
  | dummy (side slot : Nat)
  | dh (lo hi : Nat)
deriving DecidableEq, Repr

def K (a b : Nat) : Key := if a ≤ b then .dh a b else .dh b a

theorem K_comm (a b : Nat) : K a b = K b a := by
  unfold K; split <;> split <;> first | rfl | (congr 1 <;> omega) | (exfalso; omega)

structure Side where
  confirmed : Option (Nat × Nat)
  pending : Option (Key × Nat)
  proposed : Option Nat
  id : Nat
  timeout : Bool
  slots : Nat → Key
  cur : Nat

def install (s : Nat → Key) (k : Key) (id : Nat) : Nat → Key :=
  fun i => if i = id % 4 then k else s i

/-- `RotationState::process_message` + `CryptoCore::rotate_key` -/
def process (s : Side) (m : Msg) (fresh : Nat) : Side :=
  if m.id ≤ s.id then s else
  let s1 := { s with timeout := false, pending := some (K fresh m.propose, fresh) }
  match m.confirm, s1.proposed with
  | some c, some p => { s1 with proposed := none, slots := install s1.slots (K p c) m.id, cur := m.id % 4 }
  | _, _ => s1

/-- `RotationState::cycle` + `rotate_key`; returns new side and optional message -/
def cycle (s : Side) (fresh : Nat) : Side × Option Msg :=
  match s.proposed with
  | some p =>
    if s.timeout then
      match s.confirmed with
      | some (c, id) => (s, some ⟨id, p, some c⟩)
      | none => (s, some ⟨1, p, none⟩)
    else ({ s with timeout := true }, none)
  | none =>
    match s.pending with
    | some (key, e) =>
      let id := s.id + 2
      ({ s with pending := none, id := id, proposed := some fresh, confirmed := some (e, id),
                slots := install s.slots key id }, some ⟨id, fresh, some e⟩)
    | none => (s, none)

structure Sys where
  x : Side
  y : Side
  sentX : List Msg
  sentY : List Msg
  fresh : Nat

def addMsg (l : List Msg) : Option Msg → List Msg
  | none => l
  | some m => m :: l

inductive Step : Sys → Sys → Prop
  | cycleX (s : Sys) : Step s { s with x := (cycle s.x s.fresh).1, sentX := addMsg s.sentX (cycle s.x s.fresh).2, fresh := s.fresh + 1 }
  | cycleY (s : Sys) : Step s { s with y := (cycle s.y s.fresh).1, sentY := addMsg s.sentY (cycle s.y s.fresh).2, fresh := s.fresh + 1 }
  | delivX (s : Sys) (m : Msg) (h : m ∈ s.sentY) : Step s { s with x := process s.x m s.fresh, fresh := s.fresh + 1 }
  | delivY (s : Sys) (m : Msg) (h : m ∈ s.sentX) : Step s { s with y := process s.y m s.fresh, fresh := s.fresh + 1 }

def initSys : Sys where
  x := { confirmed := none, pending := none, proposed := some 0, id := 1, timeout := false,
         slots := fun i => if i = 0 then .init else .dummy 0 i, cur := 0 }
  y := { confirmed := none, pending := none, proposed := none, id := 0, timeout := false,
         slots := fun i => if i = 0 then .init else .dummy 1 i, cur := 0 }
  sentX := [⟨1, 0, none⟩]
  sentY := []
  fresh := 1

inductive Reachable : Sys → Prop
  | init : Reachable initSys
  | step {s t} : Reachable s → Step s t → Reachable t

/-- the property -/
def Sync (s : Sys) : Prop :=
  s.x.slots s.x.cur = s.y.slots s.x.cur ∧ s.y.slots s.y.cur = s.x.slots s.y.cur


end VpnCloud.Rot
