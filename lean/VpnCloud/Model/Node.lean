import VpnCloud.Model.PeerCrypto
import VpnCloud.Model.Table
import VpnCloud.Model.NodeInfo
import VpnCloud.Model.Payload
import VpnCloud.Generated.Interval
import VpnCloud.Generated.Guards
/-
  Model of `GenericCloud` (src/cloud.rs): `handle_socket_event` / `handle_net_message`,
  `handle_interface_data`, `housekeep` (peer timeouts, `crypto_housekeep`, announcements,
  `reconnect_to_peers`, own-address reset), `connect` / `connect_sock`, `add_new_peer`,
  `update_peer_info`, `connect_to_peers`, `create_node_info`.

  Not modelled: the epoll loop, DNS resolution (addresses are literal), beacons, port forwarding,
  statistics output, hook scripts, the random 20-subset of `create_node_info` (meshes here have
  fewer than 20 peers), byte counters of the traffic statistics (packet counters are).

  Random choices and the iteration order of hash maps are observed from the implementation through
  `Oracle`: the k-th datagram the implementation sent to an address during the step (from which
  salts, ephemeral keys, ciphertext and signature bytes are taken) and read-only views of the
  session state after the step (fresh rotation keys, counter start values).
-/
namespace VpnCloud

abbrev NAddr := SockAddr

/-- `mapped_addr`: IPv4 socket addresses are used in their IPv6-mapped form -/
def mappedAddr : NAddr → NAddr
  | .v4 ip port => .v6 (List.replicate 10 0 ++ [255, 255] ++ ip) port
  | a => a

/-- table entries refer to peers by socket address; the table model uses numbers -/
def addrId : NAddr → Nat
  | .v4 ip port => Bytes.beVal (4 :: (ip ++ Bytes.ofU16 port))
  | .v6 ip port => if ip = List.replicate 16 0 then port else Bytes.beVal (6 :: (ip ++ Bytes.ofU16 port))

structure NodeCfg where
  tap : Bool
  learning : Bool
  broadcast : Bool
  peerTimeout : Nat
  peerTimeoutPublish : Nat
  updateFreq : Nat
  claims : List Range
  key : Bytes
  trusted : List Bytes
  algos : Algos
  /-- `config.advertise_addresses` (already parsed, `parse_listen`): listed first among the node's own addresses -/
  advertise : List NAddr := []

structure Peer where
  addrs : List NAddr
  timeout : Int
  peerTimeout : Nat
  nodeId : Bytes
  crypto : PeerCrypto

structure Reconnect where
  resolved : List NAddr
  tries : Nat := 0
  timeout : Nat := 1
  next : Int

structure Node where
  nodeId : Bytes
  addr : NAddr
  cfg : NodeCfg
  peers : List (NAddr × Peer) := []
  pending : List (NAddr × PeerCrypto) := []
  own : List NAddr := []
  table : Table
  reconnect : List Reconnect := []
  nextPeers : Int := 0
  nextOwnReset : Int := 300
  droppedIn : Nat := 0       -- invalid protocol packets
  droppedOut : Nat := 0      -- dropped payload packets

inductive Out
  | dgram (dst : NAddr) (bytes : Bytes)
  | iface (bytes : Bytes)
  deriving DecidableEq, Repr

structure Oracle where
  /-- k-th datagram the implementation sent to this address during the step -/
  emitted : NAddr → Nat → Bytes
  /-- fresh rotation keys / counter start values of the session with this address after the step -/
  rotProp : NAddr → Nat
  rotPend : NAddr → Nat
  starts : NAddr → List Nat
  /-- dummy key reference for new cores -/
  dummy : KeyRef := 1

/-- a step in progress: node state, outputs so far (oldest first), per-destination emission counters -/
structure Ctx where
  node : Node
  outs : List Out := []
  cnt : List (NAddr × Nat) := []
  panicked : Bool := false
  /-- genuine seals produced during the step (for the ideal AEAD's log) -/
  log : Init.SealLog := []

namespace Node
open Codec

def lookupA {α} (l : List (NAddr × α)) (a : NAddr) : Option α := (l.find? (fun p => p.1 = a)).map (·.2)
def eraseA {α} (l : List (NAddr × α)) (a : NAddr) : List (NAddr × α) := l.filter (fun p => p.1 ≠ a)
def insertA {α} (l : List (NAddr × α)) (a : NAddr) (v : α) : List (NAddr × α) :=
  if l.any (fun p => p.1 = a) then l.map (fun p => if p.1 = a then (a, v) else p) else l ++ [(a, v)]

/-- random parts of an emitted handshake datagram (with the 0xff prefix): salt, ephemeral key, signature, payload ciphertext, counter start -/
def holesOfInit (bytes : Bytes) : Rand × Option Bytes :=
  let body := bytes.drop 1
  let salt := body.take 4
  match InitMsg.readFields ((body.drop 8).length + 1) (body.drop 8) {} with
  | .ok (f, rest) =>
    let sig := match rest with
      | n :: r => r.take n
      | [] => []
    let payload := f.payload.getD []
    ({ salt, ecdhPub := f.ecdh.getD [], sig, ct := payload.drop 8,
       start := (Bytes.beVal ((payload.drop 1).take 7) + 2 ^ 56 - 1) % 2 ^ 48 }, f.hash)
  | .error _ => ({ salt }, none)

def _root_.VpnCloud.Ctx.count (c : Ctx) (a : NAddr) : Nat := (lookupA c.cnt a).getD 0

/-- the randomness for the next datagram to `a` -/
def rndFor (o : Oracle) (c : Ctx) (a : NAddr) : Rand × RotRand × Option Bytes :=
  let bytes := o.emitted a (c.count a)
  let (r0, hash) : Rand × Option Bytes := match bytes with
    | 255 :: _ => holesOfInit bytes
    | _ => ({ ct := bytes.drop 8 }, none)
  let st := o.starts a
  ({ r0 with dummy := o.dummy, starts123 := st.drop 1 },
   { freshProp := o.rotProp a, freshPend := o.rotPend a, starts := st, ct := bytes.drop 8 }, hash)

/-- `send_to`: one datagram on the wire -/
def _root_.VpnCloud.Ctx.send (c : Ctx) (a : NAddr) (bytes : Bytes) : Ctx :=
  { c with outs := c.outs ++ [.dgram a bytes], cnt := insertA c.cnt a (c.count a + 1) }

def addLog (log : Init.SealLog) (c : Ctx) : Ctx := { c with log := c.log ++ log }

def payloadOk (p : Bytes) : Bool := (decodeNodeInfo p).isSome

/-- `create_node_info` -/
def createNodeInfo (n : Node) : NodeInfo :=
  { nodeId := n.nodeId,
    peers := n.peers.map (fun (_, p) => { nodeId := some p.nodeId, addrs := p.addrs }),
    claims := n.cfg.claims, peerTimeout := some n.cfg.peerTimeoutPublish, addrs := n.own }

/-- `Crypto::peer_instance(create_node_info())`: a fresh handshake object; the salted node-id hash is random (observed) -/
def newAttempt (n : Node) (hash : Bytes) : PeerCrypto :=
  { init := some { nodeId := n.nodeId, hash, payload := encodeNodeInfo (createNodeInfo n), ownKey := n.cfg.key,
                   trusted := n.cfg.trusted, algos := n.cfg.algos } }

/-- `connect_sock` -/
def connectSock (env : CryptoEnv) (o : Oracle) (c : Ctx) (a0 : NAddr) : Ctx :=
  let a := mappedAddr a0
  let n := c.node
  if (lookupA n.peers a).isSome || n.own.contains a || (lookupA n.pending a).isSome then c
  else
    let (rnd, _, hash) := rndFor o c a
    let pc := newAttempt n (hash.getD [])
    match pc.init with
    | none => c
    | some ist =>
      let (ist', b) := Init.sendPing env ist rnd
      let pc' := { pc with init := some ist' }
      ({ c with node := { n with pending := insertA n.pending a pc' } }).send a (Generated.INIT_MESSAGE_FIRST_BYTE :: b)

/-- `connect`: nothing happens if any of the addresses is already known -/
def connect (env : CryptoEnv) (o : Oracle) (c : Ctx) (addrs : List NAddr) : Ctx :=
  let as := addrs.map mappedAddr
  let n := c.node
  if as.any (fun a => n.own.contains a || (lookupA n.peers a).isSome || (lookupA n.pending a).isSome) then c
  else as.foldl (connectSock env o) c

/-- `connect_to_peers` -/
def connectToPeers (env : CryptoEnv) (o : Oracle) (c : Ctx) (peers : List PeerInfo) : Ctx :=
  peers.foldl (fun c p =>
    let n := c.node
    if p.addrs.any (fun a => (lookupA n.peers a).isSome) then c
    else match p.nodeId with
      | some id =>
        if id = n.nodeId then
          { c with node := { n with own := p.addrs.foldl (fun own a => if own.contains a then own else own ++ [a]) n.own } }
        else if n.peers.any (fun (_, q) => q.nodeId = id) then c
        else connect env o c p.addrs
      | none => connect env o c p.addrs) c

/-- `update_peer_info` -/
def updatePeerInfo (env : CryptoEnv) (o : Oracle) (c : Ctx) (now : Int) (a : NAddr) (info : Option NodeInfo) : Ctx :=
  let n := c.node
  match lookupA n.peers a with
  | none => c
  | some p =>
    let p1 := { p with timeout := now + n.cfg.peerTimeout }
    let p2 := match info with
      | some i => { p1 with addrs := i.addrs.foldl (fun l x => if l.contains x then l else l ++ [x]) [a] }
      | none => p1
    let n1 := { n with peers := insertA n.peers a p2 }
    match info with
    | none => { c with node := n1 }
    | some i =>
      let n2 := { n1 with table := n1.table.setClaims now (addrId a) i.claims }
      connectToPeers env o { c with node := n2 } i.peers

/-- `add_new_peer` -/
def addNewPeer (env : CryptoEnv) (o : Oracle) (c : Ctx) (now : Int) (a : NAddr) (info : NodeInfo) : Ctx :=
  let n := c.node
  match lookupA n.pending a with
  | none => c
  | some pc =>
    let p : Peer := { addrs := info.addrs, crypto := pc, nodeId := info.nodeId,
                      peerTimeout := info.peerTimeout.getD Generated.DEFAULT_PEER_TIMEOUT, timeout := now + n.cfg.peerTimeout }
    let n1 := { n with pending := eraseA n.pending a, peers := insertA n.peers a p }
    let c1 := updatePeerInfo env o { c with node := n1 } now a (some info)
    -- `self.next_peers = min(self.next_peers, TS::now());` — the interval until the next peer list was chosen
    -- without knowing this peer's timeout: send the next one right away
    { c1 with node := { c1.node with nextPeers := min c1.node.nextPeers now } }

/-- `remove_peer` -/
def removePeer (c : Ctx) (now : Int) (a : NAddr) : Ctx :=
  let n := c.node
  match lookupA n.peers a with
  | none => c
  | some _ => { c with node := { n with peers := eraseA n.peers a, table := n.table.removeClaims now (addrId a) } }

def parseAddrs (n : Node) (data : Bytes) : Option (Addr × Addr) :=
  match (if n.cfg.tap then Payload.frameParse data else Payload.packetParse data) with
  | .ok r => some r
  | .error _ => none

def countInvalid (c : Ctx) : Ctx := { c with node := { c.node with droppedIn := c.node.droppedIn + 1 } }

/-- `handle_message`: what the node does with the result of the session layer -/
def handleResult (env : CryptoEnv) (o : Oracle) (c : Ctx) (now : Int) (src : NAddr) (res : MsgResult) (out : Bytes) : Ctx × Option InitErr :=
  match res with
  | .message ty data =>
    if ty = Generated.MESSAGE_TYPE_DATA then
      match parseAddrs c.node data with
      | none => (c, some .parse)
      | some (saddr, _) =>
        let c1 := { c with outs := c.outs ++ [Out.iface data] }
        if c1.node.cfg.learning then
          ({ c1 with node := { c1.node with table := c1.node.table.learn now saddr (addrId src) } }, none)
        else (c1, none)
    else if ty = Generated.MESSAGE_TYPE_NODE_INFO then
      match decodeNodeInfo data with
      | none => (countInvalid c, some .message)
      | some info => (updatePeerInfo env o c now src (some info), none)
    else if ty = Generated.MESSAGE_TYPE_KEEPALIVE then (updatePeerInfo env o c now src none, none)
    else if ty = Generated.MESSAGE_TYPE_CLOSE then (removePeer c now src, none)
    else (countInvalid c, some .message)
  | .initialized payload =>
    match decodeNodeInfo payload with
    | some info => (addNewPeer env o c now src info, none)
    | none => (c, none)
  | .initializedWithReply payload =>
    match decodeNodeInfo payload with
    | some info => ((addNewPeer env o c now src info).send src out, none)
    | none => (c, none)
  | .reply => (c.send src out, none)
  | .none => (c, none)

/-- apply a session-layer outcome for the session stored under `src` (in `peers` or in `pending`) -/
def applyOutcome (env : CryptoEnv) (o : Oracle) (c : Ctx) (now : Int) (src : NAddr) (inPeers : Bool)
    (r : POutcome MsgResult) : Ctx × Option InitErr :=
  let store (c : Ctx) (pc : PeerCrypto) : Ctx :=
    let n := c.node
    if inPeers then
      match lookupA n.peers src with
      | some p => { c with node := { n with peers := insertA n.peers src { p with crypto := pc } } }
      | none => c
    else { c with node := { n with pending := insertA n.pending src pc } }
  match r with
  | .panic => ({ c with panicked := true }, none)
  | .err pc e => (countInvalid (store c pc), some e)
  | .ok pc out res log => handleResult env o (addLog log (store c pc)) now src res out

/-- `handle_net_message` + the error handling of `handle_socket_event`.  `tail` = stale bytes behind the datagram in the receive buffer. -/
def handleNet (env : CryptoEnv) (bodyOf : Init.BodyOf) (o : Oracle)
    (n : Node) (now : Int) (src0 : NAddr) (data tail : Bytes) : Ctx × Option InitErr :=
  let src := mappedAddr src0
  let c : Ctx := { node := n }
  let isInit := data.head? = some Generated.INIT_MESSAGE_FIRST_BYTE
  let (rnd, rr, hash) := rndFor o c src
  let result : Ctx × Option InitErr :=
    match lookupA n.peers src, lookupA n.pending src with
    | some p, pend =>
      if !isInit then
        applyOutcome env o c now src true (PeerCrypto.handleMessage env bodyOf payloadOk p.crypto data tail rnd rr)
      else match pend with
        | some pc => applyOutcome env o c now src false (PeerCrypto.handleMessage env bodyOf payloadOk pc data tail rnd rr)
        | none =>
          if p.crypto.init.isSome then
            applyOutcome env o c now src true (PeerCrypto.handleMessage env bodyOf payloadOk p.crypto data tail rnd rr)
          else
            -- throw-away responder
            let pc := newAttempt n (hash.getD [])
            match PeerCrypto.handleMessage env bodyOf payloadOk pc data tail rnd rr with
            | .ok pc' out res log =>
              handleResult env o (addLog log { c with node := { n with pending := insertA n.pending src pc' } }) now src res out
            | .err _ e => (countInvalid c, some e)
            | .panic => ({ c with panicked := true }, none)
    | none, some pc =>
      applyOutcome env o c now src false (PeerCrypto.handleMessage env bodyOf payloadOk pc data tail rnd rr)
    | none, none =>
      if isInit then
        let pc := newAttempt n (hash.getD [])
        match PeerCrypto.handleMessage env bodyOf payloadOk pc data tail rnd rr with
        | .ok pc' out res log =>
          handleResult env o (addLog log { c with node := { n with pending := insertA n.pending src pc' } }) now src res out
        | .err _ e => (countInvalid c, some e)
        | .panic => ({ c with panicked := true }, none)
      else (countInvalid c, none)
  -- handle_socket_event: a fatal handshake error closes the pending connection
  match result with
  | (c', some .cryptoInitFatal) => ({ c' with node := { c'.node with pending := eraseA c'.node.pending src } }, some .cryptoInitFatal)
  | r => r

/-- `send_msg` to an established peer (sealed), or `none` if it is not a peer -/
def sendMsg (o : Oracle) (c : Ctx) (a : NAddr) (ty : Nat) (body : Bytes) : Option Ctx :=
  match lookupA c.node.peers a with
  | none => none
  | some p =>
    let (_, rr, _) := rndFor o c a
    match PeerCrypto.sendMessage p.crypto ty body rr.ct with
    | (pc', .ok (bytes, log)) =>
      let c1 := { c with node := { c.node with peers := insertA c.node.peers a { p with crypto := pc' } } }
      some ((addLog log c1).send a bytes)
    | (_, .error _) => none

/-- `broadcast_msg`: one sealed copy per peer (stops at the first session that cannot seal, as the `?` does) -/
def broadcastMsg (o : Oracle) (c : Ctx) (ty : Nat) (body : Bytes) : Ctx :=
  (c.node.peers.map (·.1)).foldl (fun c a => (sendMsg o c a ty body).getD c) c

/-- `handle_interface_data` -/
def handleIface (o : Oracle) (n : Node) (now : Int) (data : Bytes) : Ctx :=
  let c : Ctx := { node := n }
  match parseAddrs n data with
  | none => c
  | some (_, dst) =>
    let (tb, r) := n.table.lookup now dst
    let c1 := { c with node := { n with table := tb } }
    match r with
    | some pid =>
      match (c1.node.peers.map (·.1)).find? (fun a => addrId a = pid) with
      | some a => (sendMsg o c1 a Generated.MESSAGE_TYPE_DATA data).getD c1
      | none => c1          -- "Sending to node that is not a peer"
    | none =>
      if n.cfg.broadcast then broadcastMsg o c1 Generated.MESSAGE_TYPE_DATA data
      else { c1 with node := { c1.node with droppedOut := c1.node.droppedOut + 1 } }

/-- `crypto_housekeep` -/
def cryptoHousekeep (env : CryptoEnv) (o : Oracle) (c : Ctx) (now : Int) : Ctx :=
  -- pending attempts
  let c1 := (c.node.pending.map (·.1)).foldl (fun c a =>
    match lookupA c.node.pending a with
    | none => c
    | some pc =>
      let (_, rr, _) := rndFor o c a
      match PeerCrypto.everySecond pc rr with
      | .err _ _ => { c with node := { c.node with pending := eraseA c.node.pending a } }
      | .panic => { c with panicked := true }
      | .ok pc' out res log =>
        let c' := addLog log { c with node := { c.node with pending := insertA c.node.pending a pc' } }
        if res = .reply then c'.send a out else c') c
  -- established sessions
  (c1.node.peers.map (·.1)).foldl (fun c a =>
    match lookupA c.node.peers a with
    | none => c
    | some p =>
      let (_, rr, _) := rndFor o c a
      match PeerCrypto.everySecond p.crypto rr with
      | .err _ _ =>
        let c' := { c with node := { c.node with peers := eraseA c.node.peers a, table := c.node.table.removeClaims now (addrId a) } }
        connectSock env o c' a
      | .panic => { c with panicked := true }
      | .ok pc' out res log =>
        let c' := addLog log { c with node := { c.node with peers := insertA c.node.peers a { p with crypto := pc' } } }
        if res = .reply then c'.send a out else c') c1

/-- the announcement interval of `housekeep`: the expression is regenerated from the source on every run
    (`Generated/Interval.lean`); `none` = the Rust expression panics -/
def announceInterval (updateFreq minPeerTimeout : Nat) : Option Nat :=
  Generated.housekeepInterval updateFreq minPeerTimeout

/-- `reconnect_to_peers` -/
def reconnectToPeers (env : CryptoEnv) (o : Oracle) (c : Ctx) (now : Int) : Ctx :=
  let c1 := c.node.reconnect.foldl (fun c e => if Generated.reconnectNotDue e.next now then c else connect env o c e.resolved) c
  let rc := c1.node.reconnect.map (fun e =>
    let e1 := if e.resolved.any (fun a => (lookupA c1.node.peers a).isSome) then { e with tries := 0, timeout := 1, next := now + 1 } else e
    if Generated.reconnectNotDue e1.next now then e1
    else
      let tries := e1.tries + 1
      let (tries, timeout) := if Generated.backoffDoubles tries then (0, e1.timeout * 2) else (tries, e1.timeout)
      let timeout := if Generated.backoffCapped timeout then Generated.MAX_RECONNECT_INTERVAL else timeout
      { e1 with tries, timeout, next := now + timeout })
  { c1 with node := { c1.node with reconnect := rc } }

/-- `housekeep` -/
def housekeep (env : CryptoEnv) (o : Oracle) (n : Node) (now : Int) : Ctx :=
  let c : Ctx := { node := n }
  -- peers whose timeout has passed
  let dead := (n.peers.filter (fun (_, p) => Generated.peerExpired p.timeout now)).map (·.1)
  let c1 := dead.foldl (fun c a =>
    let n := c.node
    connectSock env o { c with node := { n with peers := eraseA n.peers a, table := n.table.removeClaims now (addrId a) } } a) c
  let c2 := { c1 with node := { c1.node with table := c1.node.table.housekeep now } }
  let c3 := cryptoHousekeep env o c2 now
  let c4 :=
    if Generated.announceDue c3.node.nextPeers now then
      let info := encodeNodeInfo (createNodeInfo c3.node)
      let c' := broadcastMsg o c3 Generated.MESSAGE_TYPE_NODE_INFO info
      let minPt := (c'.node.peers.map (fun (_, p) => p.peerTimeout)).foldl min (if c'.node.peers.isEmpty then Generated.DEFAULT_PEER_TIMEOUT else 65535)
      match announceInterval c'.node.cfg.updateFreq minPt with
      | some d => { c' with node := { c'.node with nextPeers := now + d } }
      | none => { c' with panicked := true }
    else c3
  let c5 := reconnectToPeers env o c4 now
  -- `reset_own_addresses`: advertised addresses, then the address of the UDP socket (port forwarding is not modelled)
  if Generated.ownResetDue c5.node.nextOwnReset now then
    { c5 with node := { c5.node with own := c5.node.cfg.advertise ++ [c5.node.addr], nextOwnReset := now + 300 } }
  else c5

end Node
end VpnCloud
