import VpnCloud.Model.Range
import VpnCloud.Generated.Consts
/-
  Model of src/messages.rs (`NodeInfo::encode` / `NodeInfo::decode`), of `Address` / `Range`
  `read_from` / `write_to` (src/types.rs) and of `RotationMessage::read_from` / `write_to`
  (src/crypto/rotate.rs).

  Readers: a `Cursor` / `Read` is the list of remaining bytes; `Take` is a limit plus the
  remaining bytes.  Note that `Take::into_inner` hands back the reader *where reading stopped*:
  bytes of a part that its handler did not consume are parsed as the next part — the model
  mirrors that.  Every decoder returns `Except`; there is no panic branch because the Rust code
  has no panic site on these paths (`read_exact` fails cleanly, allocations are bounded by the
  16-bit length fields) — the correspondence run checks this with `catch_unwind`.
-/
namespace VpnCloud

inductive SockAddr
  | v4 (ip : Bytes) (port : Nat)      -- 4 bytes
  | v6 (ip : Bytes) (port : Nat)      -- 16 bytes
  deriving DecidableEq, Repr

structure PeerInfo where
  nodeId : Option Bytes
  addrs : List SockAddr
  deriving DecidableEq, Repr

structure NodeInfo where
  nodeId : Bytes
  peers : List PeerInfo
  claims : List Range
  peerTimeout : Option Nat
  addrs : List SockAddr
  deriving DecidableEq, Repr

namespace Codec

/-- `read_exact(n)` on the remaining bytes -/
def take? (n : Nat) (r : Bytes) : Option (Bytes × Bytes) :=
  if n ≤ r.length then some (r.take n, r.drop n) else none

def readU8 (r : Bytes) : Option (Nat × Bytes) :=
  match r with
  | b :: rest => some (b, rest)
  | [] => none

def readU16 (r : Bytes) : Option (Nat × Bytes) :=
  match r with
  | a :: b :: rest => some (a * 256 + b, rest)
  | _ => none

/-- `Address::read_from` (length byte, then `read_from_fixed`) -/
def readAddress (r : Bytes) : Option (Addr × Bytes) := do
  let (len, r1) ← readU8 r
  if len > 16 then none else take? len r1

/-- `Address::write_to` -/
def writeAddress (a : Addr) : Bytes := (a.length % 256) :: a

/-- `Range::read_from` -/
def readRange (r : Bytes) : Option (Range × Bytes) := do
  let (base, r1) ← readAddress r
  let (p, r2) ← readU8 r1
  pure ({ base, prefixLen := p }, r2)

/-- `Range::write_to` -/
def writeRange (x : Range) : Bytes := writeAddress x.base ++ [x.prefixLen % 256]

/-! ### NodeInfo encoder -/

def isV4 : SockAddr → Bool
  | .v4 _ _ => true
  | .v6 _ _ => false

def sockBytes : SockAddr → Bytes
  | .v4 ip port => ip ++ Bytes.ofU16 port
  | .v6 ip port => ip ++ Bytes.ofU16 port

/-- split into (v4, v6), each cut to at most 7 (`while len >= 8 { pop() }`) -/
def splitAddrs (l : List SockAddr) : List SockAddr × List SockAddr :=
  ((l.filter isV4).take 7, (l.filter (fun a => !isV4 a)).take 7)

/-- flags byte and address bytes: IPv6 first, then IPv4 -/
def encodeAddrList (l : List SockAddr) (nodeIdFlag : Nat) : Nat × Bytes :=
  let (v4, v6) := splitAddrs l
  (v6.length * 8 + v4.length + nodeIdFlag, (v6.flatMap sockBytes) ++ (v4.flatMap sockBytes))

def encodePeer (p : PeerInfo) : Bytes :=
  let (flags, body) := encodeAddrList p.addrs (if p.nodeId.isSome then 0x80 else 0)
  flags :: ((p.nodeId.getD []) ++ body)

/-- `encode_part`: tag, 16-bit length (truncated as `len as u16`), body -/
def encodePart (tag : Nat) (body : Bytes) : Bytes := tag :: (Bytes.ofU16 body.length ++ body)

/-- `NodeInfo::encode` -/
def encodeNodeInfo (n : NodeInfo) : Bytes :=
  encodePart Generated.NI_PART_NODEID n.nodeId ++
  encodePart Generated.NI_PART_PEERS (n.peers.flatMap encodePeer) ++
  encodePart Generated.NI_PART_CLAIMS (n.claims.flatMap writeRange) ++
  (match n.peerTimeout with
   | some t => encodePart Generated.NI_PART_PEER_TIMEOUT (Bytes.ofU16 t)
   | none => []) ++
  encodePart Generated.NI_PART_ADDRS (let (f, b) := encodeAddrList n.addrs 0; f :: b) ++
  [Generated.NI_PART_END]

/-! ### NodeInfo decoder.  A `Take` is `(limit, remaining bytes of the underlying reader)`. -/

/-- `read_exact(n)` through a `Take` with the given limit -/
def takeLim (n : Nat) (lim : Nat) (r : Bytes) : Option (Bytes × Nat × Bytes) :=
  if n ≤ lim ∧ n ≤ r.length then some (r.take n, lim - n, r.drop n) else none

def readSock (v6 : Bool) (lim : Nat) (r : Bytes) : Option (SockAddr × Nat × Bytes) := do
  let (ip, lim1, r1) ← takeLim (if v6 then 16 else 4) lim r
  let (pb, lim2, r2) ← takeLim 2 lim1 r1
  let port := pb.getD 0 0 * 256 + pb.getD 1 0
  pure (if v6 then .v6 ip port else .v4 ip port, lim2, r2)

def readSocks (v6 : Bool) : Nat → Nat → Bytes → Option (List SockAddr × Nat × Bytes)
  | 0, lim, r => some ([], lim, r)
  | n + 1, lim, r => do
    let (a, lim1, r1) ← readSock v6 lim r
    let (as, lim2, r2) ← readSocks v6 n lim1 r1
    pure (a :: as, lim2, r2)

/-- `read_addr_list_inner`: counts from the flags byte, IPv6 first -/
def readAddrListInner (flags : Nat) (lim : Nat) (r : Bytes) : Option (List SockAddr × Nat × Bytes) := do
  let n4 := flags % 8
  let n6 := (flags / 8) % 8
  let (a6, lim1, r1) ← readSocks true n6 lim r
  let (a4, lim2, r2) ← readSocks false n4 lim1 r1
  pure (a6 ++ a4, lim2, r2)

/-- `decode_peer_list_part`: entries until the part is exhausted (`fuel` bounds the iterations: each consumes ≥ 1 byte) -/
def decodePeers : Nat → Nat → Bytes → Option (List PeerInfo × Bytes)
  | 0, _, _ => none
  | fuel + 1, lim, r =>
    if lim = 0 then some ([], r) else do
      let (fl, lim1, r1) ← takeLim 1 lim r
      let flags := fl.getD 0 0
      let (nodeId, lim2, r2) ←
        if flags ≥ 128 then (takeLim Generated.NODE_ID_BYTES lim1 r1).map (fun (x : Bytes × Nat × Bytes) => (some x.1, x.2.1, x.2.2))
        else some (none, lim1, r1)
      let (addrs, lim3, r3) ← readAddrListInner flags lim2 r2
      let (rest, r4) ← decodePeers fuel lim3 r3
      pure ({ nodeId, addrs } :: rest, r4)

/-- `decode_claims_part` -/
def decodeClaims : Nat → Nat → Bytes → Option (List Range × Bytes)
  | 0, _, _ => none
  | fuel + 1, lim, r =>
    if lim = 0 then some ([], r) else do
      -- Range::read_from through the Take
      let (lb, lim1, r1) ← takeLim 1 lim r
      let len := lb.getD 0 0
      if len > 16 then none else do
        let (base, lim2, r2) ← takeLim len lim1 r1
        let (pb, lim3, r3) ← takeLim 1 lim2 r2
        let (rest, r4) ← decodeClaims fuel lim3 r3
        pure ({ base, prefixLen := pb.getD 0 0 } :: rest, r4)

structure Partial where
  peers : List PeerInfo := []
  claims : List Range := []
  peerTimeout : Option Nat := none
  nodeId : Option Bytes := none
  addrs : List SockAddr := []

/-- the part loop of `decode_internal` -/
def decodeParts : Nat → Bytes → Partial → Option Partial
  | 0, _, _ => none
  | fuel + 1, r, acc => do
    let (part, r1) ← readU8 r
    if part = Generated.NI_PART_END then pure acc else do
      let (plen, r2) ← readU16 r1
      if part = Generated.NI_PART_PEERS then do
        let (peers, r3) ← decodePeers (plen + 1) plen r2
        decodeParts fuel r3 { acc with peers }
      else if part = Generated.NI_PART_CLAIMS then do
        let (claims, r3) ← decodeClaims (plen + 1) plen r2
        decodeParts fuel r3 { acc with claims }
      else if part = Generated.NI_PART_PEER_TIMEOUT then do
        let (tb, _, r3) ← takeLim 2 plen r2
        decodeParts fuel r3 { acc with peerTimeout := some (tb.getD 0 0 * 256 + tb.getD 1 0) }
      else if part = Generated.NI_PART_NODEID then do
        let (id, _, r3) ← takeLim Generated.NODE_ID_BYTES plen r2
        decodeParts fuel r3 { acc with nodeId := some id }
      else if part = Generated.NI_PART_ADDRS then do
        let (fl, lim1, r3) ← takeLim 1 plen r2
        let (addrs, _, r4) ← readAddrListInner (fl.getD 0 0) lim1 r3
        decodeParts fuel r4 { acc with addrs }
      else do
        -- unknown part: skipped as a whole
        let (_, _, r3) ← takeLim plen plen r2
        decodeParts fuel r3 acc

/-- `NodeInfo::decode` (all errors are mapped to one message by the Rust code) -/
def decodeNodeInfo (data : Bytes) : Option NodeInfo := do
  let p ← decodeParts (data.length + 1) data {}
  let nodeId ← p.nodeId
  pure { nodeId, peers := p.peers, claims := p.claims, peerTimeout := p.peerTimeout, addrs := p.addrs }

/-! ### Rotation message -/

structure RotMsg where
  id : Nat
  propose : Bytes
  confirm : Option Bytes
  deriving DecidableEq, Repr

/-- `RotationMessage::write_to` -/
def writeRotMsg (m : RotMsg) : Bytes :=
  Bytes.ofBE 8 m.id ++ [m.propose.length % 256] ++ m.propose ++
  (match m.confirm with
   | some c => [c.length % 256] ++ c
   | none => [0])

/-- `RotationMessage::read_from` -/
def readRotMsg (r : Bytes) : Option RotMsg := do
  let (idb, r1) ← take? 8 r
  let (kl, r2) ← readU8 r1
  let (propose, r3) ← take? kl r2
  let (cl, r4) ← readU8 r3
  if cl > 0 then do
    let (c, _) ← take? cl r4
    pure { id := Bytes.beVal idb, propose, confirm := some c }
  else pure { id := Bytes.beVal idb, propose, confirm := none }

end Codec
end VpnCloud
