import VpnCloud.Model.Bytes
