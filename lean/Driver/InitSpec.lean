import VpnCloud.Spec.C06
import Driver.InitSuite
/-
  Reference monitor for the suite `init` (C01, C05, C06, and the transport part of C02), fed only by
  the implementation's transcript.
-/
namespace Driver
open VpnCloud VpnCloud.Spec

structure MsgRec where
  bytes : Bytes
  sender : String                 -- attempt name
  plain : Option Bytes := none    -- for sealed transport messages: type byte :: body

structure AttRec where
  party : String
  payload : Bytes
  state : String := ""
  successes : Nat := 0
  algo : String := ""
  partner : Option String := none
  initiator : Option Bool := none

structure IRef where
  keys : List Bytes := []
  parties : List (String × IParty) := []
  atts : List (String × AttRec) := []
  msgs : List MsgRec := []

/-- the window starts with a genuine handshake message of a key the receiver trusts -/
def genuineFor (r : IRef) (recvParty : IParty) (window : Bytes) : Option MsgRec :=
  r.msgs.find? (fun m =>
    match m.bytes with
    | 255 :: body =>
      -- the genuine message as such (signed region + signature; its own trailing bytes, if any, are irrelevant)
      let core := match InitMsg.readFields ((body.drop 8).length + 1) (body.drop 8) {} with
        | .ok (_, rest) => body.take (body.length - rest.length + 1 + (rest.headD 0))
        | .error _ => body
      let senderParty := ((lookupS r.atts m.sender).bind (fun a => lookupS r.parties a.party))
      match senderParty with
      | some sp => window.take core.length = core && core.length ≤ window.length && recvParty.trusted.contains sp.key
      | none => false
    | _ => false)

def choiceName : C06.Choice → String
  | .plain => "PLAIN" | .cipher c => cipherName (some c) | .fail => "FAIL"

def refStep (r : IRef) (t0 : List String) (obs : String) : IRef × String :=
  if obs = "none-in-flight" then (r, "-") else
  match (resolveFrom (r.msgs.map (·.sender)) t0 (r.msgs.map (·.bytes.isEmpty))).getD t0 with
  | "ikeys" :: _ => (({ keys := (obs.splitOn ",").filterMap Bytes.ofHex } : IRef), "-")
  | "iparty-cfg" :: name :: fs =>
    -- the real configuration path: cipher list "plain"; without configured trusted keys a node trusts its own key only
    match (kvField fs "key").bind String.toNat?, kvField fs "trust", (kvField fs "id").bind Bytes.ofHex with
    | some ki, some tr, some nodeId =>
      let keys := r.keys
      let trusted0 := if tr = "-" then [] else (tr.splitOn ",").filterMap (fun (x : String) => x.toNat?.bind (fun i => keys[i]?))
      let key := keys.getD ki []
      let trusted := if trusted0.isEmpty then [key] else trusted0
      match kvField fs "algos" with
      | none =>
        let p : IParty := { key, trusted, algos := { speeds := [], allowUnencrypted := true }, nodeId }
        ({ r with parties := setS r.parties name p }, "-")
      | some names =>
        -- C06 "the outcome depends only on the two advertised sets": what a node advertises is exactly what its user configured —
        -- plain iff a plain alias is listed, the set of ciphers = the set of configured cipher names (all three when nothing is configured),
        -- whatever the order of the list
        let listed := if names = "default" then ["aes128", "aes256", "chacha20"] else names.splitOn ","
        let isPlain (n : String) := ["PLAIN", "NONE", "UNENCRYPTED"].contains n.toUpper
        let cipherOf (n : String) : Option Cipher :=
          let u := n.toUpper
          if u.startsWith "AES128" || u.startsWith "AES_128" then some .aes128
          else if u.startsWith "AES256" || u.startsWith "AES_256" then some .aes256
          else if u.startsWith "CHACHA" then some .chacha else none
        let bad := listed.any (fun n => !isPlain n && (cipherOf n).isNone)
        if obs = "err" then (r, if bad then "ok" else "FAIL C06 a valid cipher list was refused") else
        match (field obs "algos").bind parseAlgos with
        | none => (r, "-")
        | some adv =>
          let wantC := (listed.filterMap cipherOf).eraseDups
          let gotC := (adv.speeds.map (·.1)).eraseDups
          let p : IParty := { key, trusted, algos := adv, nodeId }
          let r1 := { r with parties := setS r.parties name p }
          if bad then (r1, "FAIL C06 an unknown cipher name was accepted")
          else if adv.allowUnencrypted ≠ listed.any isPlain then (r1, s!"FAIL C06 plain is advertised = {adv.allowUnencrypted} but configured = {listed.any isPlain}")
          else if !(wantC.all (fun c => gotC.contains c) && gotC.all (fun c => wantC.contains c)) then
            (r1, s!"FAIL C06 advertised ciphers {gotC.map (fun c => cipherName (some c))} differ from the configured ones {wantC.map (fun c => cipherName (some c))}")
          else (r1, "ok")
    | _, _, _ => (r, "-")
  | "iparty" :: name :: fs =>
    match (kvField fs "key").bind String.toNat?, kvField fs "trust", (kvField fs "algos").bind parseAlgos, (kvField fs "id").bind Bytes.ofHex with
    | some ki, some tr, some algos, some nodeId =>
      let trusted0 := if tr = "-" then [] else (tr.splitOn ",").filterMap (fun (x : String) => x.toNat?.bind (fun i => r.keys[i]?))
      let key := r.keys.getD ki []
      -- documented behaviour: without configured trusted keys a node trusts its own public key only
      let trusted := if trusted0.isEmpty then [key] else trusted0
      ({ r with parties := setS r.parties name { key, trusted, algos, nodeId } }, "-")
    | _, _, _, _ => (r, "-")
  | "iattempt" :: att :: party :: pl :: _ =>
    let payload := (Bytes.ofHex (pl.drop 8).toString).getD []
    ({ r with atts := setS r.atts att ({ party, payload } : AttRec) }, "-")
  | ["isign", ki, _, _] =>
    -- a datagram signed by the holder of key `ki` with content of the script's choosing: genuine signed content of that key (C01 judges
    -- it by the receiver's trust in the key); the holder is represented by a pseudo party / attempt `signer<ki>`
    match ki.toNat?.bind (fun i => r.keys[i]?), (obs.splitOn "=")[1]?.bind Bytes.ofHex with
    | some key, some msg =>
      let name := s!"signer{ki}"
      -- what the holder "enabled" is what its signed message advertises (the cipher list part, if the message has a well-formed one)
      let adv := match InitMsg.readFields ((msg.drop 9).length + 1) (msg.drop 9) {} with
        | .ok (f, _) => f.algos
        | .error _ => none
      let p : IParty := { key, trusted := [], algos := adv.getD { speeds := [], allowUnencrypted := false }, nodeId := [] }
      ({ r with parties := setS r.parties name p, atts := setS r.atts name ({ party := name, payload := [] } : AttRec),
                msgs := r.msgs ++ [({ bytes := msg, sender := name } : MsgRec)] }, "-")
    | _, _ => (r, "-")
  | ["iexpect", "both", a, b] =>
    -- after a reliable lock-step phase both attempts have completed, with each other
    match lookupS r.atts a, lookupS r.atts b with
    | some ra, some rb =>
      -- roles: exactly one end starts the key rotation (its message ids are odd, the other's even; plain sessions do not rotate)
      let rotId (st : String) : Option Nat := ((field st "rot").bind (fun x => (x.splitOn "/").head?)).bind String.toNat?
      if ra.successes ≥ 1 && rb.successes ≥ 1 && ra.partner = some b && rb.partner = some a then
        (match ra.algo ≠ "PLAIN" && rb.algo ≠ "PLAIN", rotId ra.state, rotId rb.state with
         | true, some ia, some ib => (r, if ia % 2 ≠ ib % 2 then "ok" else s!"FAIL C05 both ends completed in the same role: not exactly one of them starts key rotation (rotation ids {ia} and {ib})")
         | true, _, _ => (r, "FAIL C05 an encrypted session without rotation state after completion")
         | false, _, _ => (r, "ok"))
      else (r, s!"FAIL C05 delivery was reliable (lock-step retransmission rounds) but the handshake did not complete on both ends: successes {a}={ra.successes} {b}={rb.successes}")
    | _, _ => (r, "-")
  | op :: rest =>
    if op ∉ ["iinit", "ideliver", "itick", "isend"] then (r, "-") else
    let att := if op = "ideliver" then rest.getD 1 "" else rest.getD 0 ""
    match lookupS r.atts att with
    | none => (r, "-")
    | some ar =>
      let (ires, istate) := splitObs obs
      if ires = "panic" || obs = "panic" then (r, "FAIL panic") else
      let emitted := emittedOf ires
      -- record emissions
      let plainOfSend : Option Bytes :=
        if op = "isend" then
          match (rest.getD 1 "").toNat?, Bytes.ofHex (rest.getD 2 "") with
          | some ty, some p => some (ty :: p)
          | _, _ => none
        else none
      let r1 := match emitted with
        | some b => { r with msgs := r.msgs ++ [({ bytes := b, sender := att, plain := plainOfSend } : MsgRec)] }
        | none => r
      let ar1 := { ar with state := istate }
      let party := lookupS r.parties ar.party
      let verdict : String × AttRec :=
        if op = "ideliver" then
          let mi := ((rest.getD 0 "").drop 1).toString.toNat?.getD 0
          let muts := rest.drop 2
          let d0 := (r.msgs[mi]?.map (fun (m : MsgRec) => m.bytes)).getD []
          let tail := match muts.find? (fun (m : String) => m.startsWith "tail=m") with
            | some tk => ((tk.drop 6).toString.toNat?.bind (fun j => r.msgs[j]?.map (fun (m : MsgRec) => m.bytes))).getD []
            | none => []
          let d := ((muts.filter (fun (m : String) => !m.startsWith "tail=m")).foldlM mutateBytes d0).getD d0
          match d, party with
          | 255 :: body, some p =>
            -- C01
            let window := body     -- stale bytes behind the datagram must play no role
            match genuineFor r p window with
            | none =>
              if !ires.startsWith "err:" then (s!"FAIL C01 datagram without genuine trusted signed content was not rejected ({ires.take 12})", ar1)
              else if ires = "err:fatal" then ("FAIL C01 forged datagram aborts the handshake (fatal error)", ar1)
              else if emitted.isSome then ("FAIL C01 reply to a forged datagram", ar1)
              else if istate ≠ ar.state && ar.state ≠ "" then ("FAIL C01 forged datagram altered the handshake state", ar1)
              else ("ok", ar1)
            | some gm =>
              -- C02: a handshake reply carries the sender's payload (node information) in the clear only if BOTH ends enabled 'plain'
              let partnerPlain := (((lookupS r.atts gm.sender).bind (fun a => lookupS r.parties a.party)).map (·.algos.allowUnencrypted)).getD false
              let clearLeak : Bool := match emitted with
                | some (255 :: body) =>
                  match InitMsg.readFields ((body.drop 8).length + 1) (body.drop 8) {} with
                  | .ok (f, _) => f.payload = some ar.payload && !ar.payload.isEmpty && !(p.algos.allowUnencrypted && partnerPlain)
                  | .error _ => false
                | _ => false
              if clearLeak then ("FAIL C02 a handshake reply carries the payload unsealed although not both ends enabled plain", ar1) else
              -- C16: a genuinely signed message whose parts are all well-formed (cipher ids and parts this version does not know are skipped, so
              -- that newer peers stay compatible) is never rejected as unparsable
              let wellFormed : Bool := match gm.bytes with
                | 255 :: gb => (match InitMsg.readFields ((gb.drop 8).length + 1) (gb.drop 8) {} with | .ok _ => true | .error _ => false)
                | _ => false
              if ires = "err:parse" && wellFormed then ("FAIL C16 a genuinely signed handshake message with well-formed parts was rejected as unparsable", ar1) else
              if ires.startsWith "init " || ires.startsWith "initnr" then
                -- C05 / C06 at completion
                let partnerParty := (lookupS r.atts gm.sender).bind (fun a => lookupS r.parties a.party)
                let partnerPayload := ((lookupS r.atts gm.sender).map (·.payload)).getD []
                let got := ((field ires "payload").bind Bytes.ofHex).getD []
                let algo := (field istate "algo").getD "?"
                let want := match partnerParty with
                  | some pp => choiceName (C06.selectRef p.algos pp.algos)
                  | none => "?"
                let ar2 := { ar1 with successes := ar.successes + 1, algo, partner := some gm.sender,
                                      initiator := some (ires.startsWith "init " && (field istate "rot").map (fun s => s.startsWith "0/") = some true || (algo = "PLAIN" && ires.startsWith "init ")) }
                if ar.successes ≥ 1 then ("FAIL C05 attempt completed twice", ar2)
                else if got ≠ partnerPayload then ("FAIL C05 received payload differs from what the partner offered", ar2)
                else if algo ≠ want then (s!"FAIL C06 selected {algo}, reference selects {want}", ar2)
                else
                  -- if the partner has completed with us, roles and cipher must match
                  match lookupS r.atts gm.sender with
                  | some pa =>
                    if pa.successes ≥ 1 && pa.partner = some att && pa.algo ≠ algo then ("FAIL C05 both ends completed with different ciphers", ar2)
                    else ("ok", ar2)
                  | none => ("ok", ar2)
              else if ires = "err:fatal" then
                -- C06: a clean failure is allowed iff no common cipher (or the message is not for this stage, self connection, undecryptable payload).
                -- Decided here for the clear case: a fresh responder (expecting a ping, nothing received before) gets the genuine ping of ANOTHER node
                let partnerParty := (lookupS r.atts gm.sender).bind (fun a => lookupS r.parties a.party)
                let isPing : Bool := match gm.bytes with
                  | 255 :: gb => (match InitMsg.readFields ((gb.drop 8).length + 1) (gb.drop 8) {} with
                      | .ok (f, _) => f.stage = some Generated.STAGE_PING && f.ecdh.isSome && f.algos.isSome && f.hash.isSome
                      | .error _ => false)
                  | _ => false
                match partnerParty with
                | some pp =>
                  if isPing && (ar.state = "" || (field ar.state "init").map (fun x => x.startsWith "1/") = some true) && pp.nodeId ≠ p.nodeId && !pp.nodeId.isEmpty &&
                      C06.selectRef p.algos pp.algos ≠ .fail then
                    (s!"FAIL C06 the handshake failed although the two lists share {choiceName (C06.selectRef p.algos pp.algos)}", ar1)
                  else ("ok", ar1)
                | none => ("ok", ar1)
              else ("ok", ar1)
          | 255 :: _, none => ("-", ar1)
          | _, _ =>
            -- C02 (transport): payload is handed over only for a genuine, unaltered sealed message of the partner
            if ires.startsWith "msg:" then
              let parts := ires.splitOn ":"
              let ty := (parts.getD 1 "").toNat?.getD 0
              let pl := (Bytes.ofHex (parts.getD 2 "-")).getD []
              if r.msgs.any (fun m => m.bytes = d && m.sender ≠ att && m.plain = some (ty :: pl)) then ("ok", ar1)
              else ("FAIL C02 payload delivered from a datagram that is not a genuine sealed message of the peer", ar1)
            else ("ok", ar1)
        else ("ok", ar1)
      ({ r1 with atts := setS r1.atts att verdict.2 }, verdict.1)
  | _ => (r, "-")

end Driver
