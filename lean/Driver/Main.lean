import Driver.Pure
import Driver.TableSuite
import Driver.B62Suite
import Driver.CoreSuite
import Driver.RotSuite
import Driver.CodecSuite
import Driver.InitSuite
import Driver.InitSpec
import Driver.BeaconSuite
import Driver.NodeSuite
import Driver.NodeSpec
import Driver.ConfigSuite
/-
  vpmodel: reads lines `op<TAB>implementation observation`, prints `model observation<TAB>spec verdict`.
-/
open Driver

structure DState where
  table : TableSt := {}
  core : CoreSt := {}
  rot : RotSt := {}
  init : ISt := {}
  initRef : IRef := {}
  node : NSt := {}
  nodeRef : NRef := {}

def stepLine (st : DState) (line : String) : DState × String :=
  let parts := line.splitOn "\t"
  let op := parts.headD ""
  let implObs := (parts.drop 1).headD ""
  let toks := (op.splitOn " ").filter (· ≠ "")
  if toks = ["reset"] then (({} : DState), "ok\t-") else
  match pureStep toks implObs with
  | some (m, s) => (st, m ++ "\t" ++ s)
  | none =>
  match configStep toks implObs with
  | some (m, s) => (st, m ++ "\t" ++ s)
  | none =>
  match beaconStep toks implObs with
  | some (m, s) => (st, m ++ "\t" ++ s)
  | none =>
  match codecStep toks implObs with
  | some (m, s) => (st, m ++ "\t" ++ s)
  | none =>
  match b62Step toks implObs with
  | some (m, s) => (st, m ++ "\t" ++ s)
  | none =>
  match tableStep st.table toks implObs with
  | some (ts, m, s) => ({ st with table := ts }, m ++ "\t" ++ s)
  | none =>
  match coreStep st.core toks implObs with
  | some (cs, m, s) => ({ st with core := cs }, m ++ "\t" ++ s)
  | none =>
  match rotStep st.rot toks implObs with
  | some (rs, m, s) => ({ st with rot := rs }, m ++ "\t" ++ s)
  | none =>
  match initStep st.init toks implObs with
  | some (is, m, _) =>
    let (rf, sv) := refStep st.initRef toks implObs
    ({ st with init := is, initRef := rf }, m ++ "\t" ++ sv)
  | none =>
  match nodeStep st.node toks implObs with
  | some (ns, m, _) =>
    let (rf, sv) := nodeRefStep st.nodeRef toks implObs
    ({ st with node := ns, nodeRef := rf }, m ++ "\t" ++ sv)
  | none => (st, "bad-op\t-")

partial def loop (h : IO.FS.Stream) (out : IO.FS.Stream) (st : DState) : IO Unit := do
  let line ← h.getLine
  if line.isEmpty then return ()
  let line := String.ofList (line.toList.reverse.dropWhile (fun c => c = '\n' || c = '\r')).reverse
  if line.isEmpty || line.startsWith "#" then
    out.putStrLn line
    loop h out st
  else
    let (st', o) := stepLine st line
    out.putStrLn o
    loop h out st'

def main : IO Unit := do
  let stdin ← IO.getStdin
  let stdout ← IO.getStdout
  loop stdin stdout {}
