import VpnCloud.Model.Base62
import VpnCloud.Spec.C18
/-
  Driver glue for the suite `b62` (C18): text codec and key printing / parsing.
  Cryptographic functions are parameters: the public key belonging to a seed (`keypub=`) is taken
  from the implementation's observation.
-/
namespace Driver
open VpnCloud VpnCloud.Base62 VpnCloud.Spec

def textOrDash (cs : List Char) : String := if cs.isEmpty then "-" else String.ofList cs
def dashText (s : String) : List Char := if s = "-" then [] else s.toList

def utf8Text (hex : String) : Option (List Char) := do
  let b ← Bytes.ofHex hex
  let s ← String.fromUTF8? (ByteArray.mk (b.map (fun n => n.toUInt8)).toArray)
  pure s.toList

/-- `key=value` fields of an observation -/
def field (obs : String) (k : String) : Option String :=
  ((obs.splitOn " ").filter (· ≠ "")).findSome? (fun f =>
    if f.startsWith (k ++ "=") then some (f.drop (k.length + 1)).toString else none)

def okHex (o : Option Bytes) : String :=
  match o with
  | some b => "ok:" ++ Bytes.toHexOrDash b
  | none => "err"

/-- what a node reports for a printed key pair, given the public key `kp` that belongs to the seed -/
def keyReport (priv pub : List Char) (kp : Bytes) : String :=
  let pp := C18.parsePrivateKey priv
  let pk := parsePublicKey pub
  let privparse := match pp with | some _ => okHex (some kp) | none => "err"
  let pair := if pp.isSome && pk == some kp then "ok" else "err"
  -- Crypto::new with both keys: parse_keypair, then the trusted key
  let crypto := if pp.isSome && pk == some kp then "ok" else "err"
  -- a configuration that also carries a password: `Crypto::new` looks at the private key first
  let both := if pp.isSome && pk == some kp then okHex (some kp) else "err"
  let both2 := if pp.isSome then okHex (some kp) else "err"
  -- without configured trusted keys a node trusts exactly its own public key
  let deftrust := if pp.isSome then okHex (some kp) else "err"
  -- Crypto::public_key_from_private_key: the printed form of the public key that belongs to the private key
  let derived := if pp.isSome then "ok:" ++ textOrDash ((toBase62 kp).getD ['!']) else "err"
  -- trusted keys as configured: [own public key, another key] and the other order (only when the printed public key is the pair's)
  let other : Bytes := List.replicate 32 7
  let trust2 := if pp.isSome && pk == some kp then s!"{Bytes.toHexOrDash kp}+{Bytes.toHexOrDash other}|{Bytes.toHexOrDash other}+{Bytes.toHexOrDash kp}" else "?"
  s!"privparse={privparse} pubparse={okHex pk} pair={pair} crypto={crypto} both={both} bothnopub={both2} deftrust={deftrust} derived={derived} trust2={trust2}"

def b62Step (t : List String) (implObs : String) : Option (String × String) :=
  match t with
  | ["b62enc", h] =>
    match Bytes.ofHex h with
    | none => some ("bad-op", "-")
    | some b =>
      let m := match toBase62 b with | some cs => textOrDash cs | none => "panic"
      -- spec: the text decodes (by the reference value function) to the same number, canonical form
      let sv := if implObs = "panic" then "FAIL panic" else
        let cs := dashText implObs
        if C18.textVal cs = some (Bytes.beVal b) && cs.head? ≠ some '0' then "ok" else "FAIL value-or-canonical-form"
      some (m, sv)
  | ["b62dec", h] =>
    match utf8Text h with
    | none => some ("bad-op", "-")
    | some cs =>
      let m := match fromBase62 cs with | .ok b => "ok:" ++ Bytes.toHexOrDash b | .error _ => "err"
      let sv :=
        if implObs = "panic" then "FAIL panic" else
        match C18.textVal cs with
        | none => if implObs = "err" then "ok" else "FAIL accepted-non-alphanumeric"
        | some v =>
          if implObs.startsWith "ok:" then
            match Bytes.ofHex (implObs.drop 3).toString with
            | some b => if Bytes.beVal b = v && b.head? ≠ some 0 then "ok" else "FAIL value-or-leading-zero"
            | none => "FAIL unparsable"
          else "FAIL rejected-valid-text"
      some (m, sv)
  | ["keypub", h] =>
    match utf8Text h with
    | none => some ("bad-op", "-")
    | some cs => some (okHex (parsePublicKey cs), "-")
  | [op, h] =>
    if op = "seedcheck" || op = "pwcheck" then
      match Bytes.ofHex h, (field implObs "keypub").bind Bytes.ofHex with
      | some arg, some kp =>
        let implPriv := dashText ((field implObs "priv").getD "?")
        let implPub := dashText ((field implObs "pub").getD "?")
        -- model: printed texts (the seed of a password is PBKDF2 output = parameter, taken from the printed text)
        let priv := if op = "seedcheck" then (toBase62 arg).getD ['!'] else implPriv
        let pub := (toBase62 kp).getD ['!']
        let again := if op = "pwcheck" then " again=same" else ""
        let m := s!"priv={textOrDash priv} pub={textOrDash pub} keypub={Bytes.toHexOrDash kp} {keyReport priv pub kp}{again}"
        -- spec (C18): both printed keys are accepted, denote the same keys, and derivation is deterministic
        let want := "ok:" ++ Bytes.toHexOrDash kp
        let good := field implObs "privparse" = some want && field implObs "pubparse" = some want &&
          field implObs "pair" = some "ok" && field implObs "crypto" = some "ok" &&
          -- "denotes the same keys" also next to a password in the same configuration
          field implObs "both" = some want && field implObs "bothnopub" = some want && field implObs "deftrust" = some want &&
          -- "accepted when configured as ... trusted key": the node's own public key listed next to another one stays trusted
          field implObs "trust2" = some (let o := Bytes.toHexOrDash (List.replicate 32 7); s!"{Bytes.toHexOrDash kp}+{o}|{o}+{Bytes.toHexOrDash kp}") &&
          -- "a private key always yields its matching public key"
          field implObs "derived" = some ("ok:" ++ textOrDash ((toBase62 kp).getD ['!'])) &&
          (op = "seedcheck" || field implObs "again" = some "same") &&
          parsePublicKey implPub = some kp && (C18.parsePrivateKey implPriv).isSome
        some (m, if good then "ok" else "FAIL generated-key-not-usable")
      | _, _ => if implObs = "panic" then some ("?", "FAIL panic") else some ("bad-op", "-")
    else none
  | _ => none

end Driver
