import VpnCloud.Model.PeerCrypto
import Driver.Sha256
import Driver.CoreSuite
import Driver.CodecSuite
import VpnCloud.Model.AlgoNames
/-
  Driver glue for the suite `init`: real `PeerCrypto` objects next to the byte-level model.
  Random choices of the implementation (salts, ephemeral public keys, start values of counters,
  ciphertext and signature bytes) are taken from its observations and handed to the model; the model
  then has to reproduce the emitted datagrams byte for byte and the resulting state.
  Signature verification and AEAD opening are the ideal functionality over the log of genuine
  messages (`sigLog`, `sealLog`).
-/
namespace Driver
open VpnCloud VpnCloud.Codec

structure IParty where
  key : Bytes
  trusted : List Bytes
  algos : Algos
  nodeId : Bytes

structure ISt where
  keys : List Bytes := []
  parties : List (String × IParty) := []
  attempts : List (String × PeerCrypto) := []
  msgs : List Bytes := []
  senders : List String := []
  sigLog : List (Bytes × Bytes × Bytes) := []
  sealLog : List (Bytes × Body) := []

def ISt.env (st : ISt) : CryptoEnv :=
  { keyHash := fun pk salt => (Sha256.sha256 (pk ++ salt)).take 4,
    nodeHash := fun salt id => (Sha256.sha256 (salt ++ id)).take 16,
    sigVerify := fun pk m s => st.sigLog.contains (pk, m, s) }

def ISt.bodyOf (st : ISt) : Init.BodyOf := fun ct =>
  match st.sealLog.lookup ct with
  | some b => b
  | none => .garbage ct.length

def lookupS {α} (l : List (String × α)) (k : String) : Option α := (l.find? (·.1 = k)).map (·.2)
def setS {α} (l : List (String × α)) (k : String) (v : α) : List (String × α) :=
  if l.any (·.1 = k) then l.map (fun p => if p.1 = k then (k, v) else p) else l ++ [(k, v)]

/-- byte-level mutation operators, identical to the Rust driver's `mutate` -/
def mutateBytes (d : Bytes) (m : String) : Option Bytes :=
  if m.startsWith "flip=" then do
    let bit ← (m.drop 5).toString.toNat?
    let i := bit / 8
    if i < d.length then pure (d.set i (d.getD i 0 ^^^ (128 >>> (bit % 8)))) else pure d
  else if m.startsWith "trunc=" then do
    let l ← (m.drop 6).toString.toNat?
    pure (d.take l)
  else if m.startsWith "set=" then
    match (m.drop 4).toString.splitOn ":" with
    | [p, v] => do
      let p ← p.toNat?
      let v ← v.toNat?
      pure (if p < d.length then d.set p v else d)
    | _ => none
  else if m.startsWith "app=" then do
    let b ← Bytes.ofHex (m.drop 4).toString
    pure (d ++ b)
  else if m.startsWith "tlvlen=" then
    -- tlvlen=<tag>:<hex16>: overwrite the length field of the first TLV part with that tag in a handshake datagram
    match (m.drop 7).toString.splitOn ":" with
    | [tag, v] => do
      let tag ← tag.toNat?
      let v ← Bytes.ofHex v
      if v.length ≠ 2 then none else
      let rec go (fuel pos : Nat) : Bytes :=
        match fuel with
        | 0 => d
        | fuel + 1 =>
          if pos + 3 ≤ d.length && d.getD pos 0 ≠ 0 then
            let len := d.getD (pos + 1) 0 * 256 + d.getD (pos + 2) 0
            if d.getD pos 0 = tag then (d.set (pos + 1) (v.getD 0 0)).set (pos + 2) (v.getD 1 0)
            else go fuel (pos + 3 + len)
          else d
      pure (go d.length 9)
    | _ => none
  else if m.startsWith "endhex=" then do
    -- overwrite the last bytes (a signature, an authentication tag) with the given ones
    let b ← Bytes.ofHex (m.drop 7).toString
    pure (if b.length ≤ d.length then d.take (d.length - b.length) ++ b else d)
  else none

/-! ### observation parsing -/

def emittedOf (obs : String) : Option Bytes :=
  ((obs.splitOn " ").filter (· ≠ "")).findSome? (fun tok =>
    if tok.startsWith "m" then
      match tok.splitOn "=" with
      | [k, v] => if (k.drop 1).toString.toNat?.isSome then Bytes.ofHex v else none
      | _ => none
    else none)

structure ObsCore where
  cur : Nat
  sends : List Nat

def parseObsCore (s : String) : Option ObsCore :=
  match s.splitOn "/" with
  | [cur, _half, slots] => do
    let cur ← cur.toNat?
    let sends ← (slots.splitOn ",").mapM (fun sl => (sl.splitOn ".").head?.bind nonceOfHex)
    pure { cur, sends }
  | _ => none

structure ObsRot where
  prop : Option Nat
  pend : Option Nat

def parseObsRot (s : String) : Option ObsRot :=
  match s.splitOn "/" with
  | [_id, _to, prop, pend, _conf] =>
    some { prop := if prop = "-" then none else (Bytes.ofHex prop).map Bytes.beVal,
           pend := if pend = "-" then none else (Bytes.ofHex pend).map Bytes.beVal }
  | _ => none

/-- random parts of an emitted handshake datagram (with the 0xff prefix) -/
def holesOfInit (bytes : Bytes) : Rand :=
  let body := bytes.drop 1
  let salt := body.take 4
  match InitMsg.readFields ((body.drop 8).length + 1) (body.drop 8) {} with
  | .ok (f, rest) =>
    let sig := match rest with
      | n :: r => r.take n
      | [] => []
    let payload := f.payload.getD []
    { salt, ecdhPub := f.ecdh.getD [], sig, ct := payload.drop 8,
      start := (Bytes.beVal ((payload.drop 1).take 7) + 2 ^ 56 - 1) % 2 ^ 48 }
  | .error _ => { salt }

/-! ### rendering -/

def slotStr (k : SlotKey) : String := s!"{nonceHex k.send}.{nonceHex k.min}.{nonceHex k.nextMin}.{nonceHex k.seen}"

def cipherName : Option Cipher → String
  | some .aes128 => "AES128" | some .aes256 => "AES256" | some .chacha => "CHACHA20" | none => "PLAIN"

def b2s (b : Bool) : String := if b then "1" else "0"

def pcState (pc : PeerCrypto) : String :=
  let init := match pc.init with
    | some i => s!"{i.stage}/{i.retries}/{i.closeTime}/{b2s i.ecdh.isSome}{b2s i.last.isSome}{b2s i.crypto.isSome}"
    | none => "-"
  let core := match pc.core with
    | some c => s!"{c.cur}/{b2s c.half}/{",".intercalate (c.slots.map slotStr)}"
    | none => "-"
  let pub (o : Option Nat) := match o with | some n => Bytes.toHex (Bytes.ofBE 32 n) | none => "-"
  let rot := match pc.rot with
    | some r => s!"{r.id}/{b2s r.timeout}/{pub r.proposed}/{pub (r.pending.map (fun (p : Rot.Key × Nat) => p.2))}/{b2s r.confirmed.isSome}"
    | none => "-"
  s!"init={init} plain={b2s pc.unencrypted} algo={if pc.core.isSome then cipherName pc.cipher else "PLAIN"} cnt={pc.rotateCounter} rot={rot} core={core}"

def errName : InitErr → String
  | .parse => "parse" | .crypto => "crypto" | .cryptoInit => "cryptoinit" | .cryptoInitFatal => "fatal"
  | .state => "state" | .message => "message"

/-- late binding of unobservable randomness: start values of the throw-away slots 1..3 become visible
    only when the core is handed to `PeerCrypto`; until they are overwritten by a rotation they are
    whatever the implementation drew -/
def adoptDummyStarts (pc : PeerCrypto) (oc : Option ObsCore) (dummy : KeyRef) : PeerCrypto :=
  match pc.core, oc with
  | some c, some o =>
    { pc with core := some { c with slots := c.slots.mapIdx (fun i k =>
        if i > 0 && k.key = dummy && k.min = 0 && k.nextMin ≤ 1 && k.seen = 0 then { k with send := o.sends.getD i k.send } else k) } }
  | _, _ => pc

/-- register what the model itself emitted: signature of a handshake message, seals -/
def registerEmission (st : ISt) (owner : Bytes) (bytes : Bytes) (log : Init.SealLog) : ISt :=
  let st1 := { st with sealLog := log ++ st.sealLog }
  match bytes with
  | 255 :: body =>
    match InitMsg.readFields ((body.drop 8).length + 1) (body.drop 8) {} with
    | .ok (_, rest) =>
      let pos := body.length - rest.length
      let sig := match rest with
        | n :: r => r.take n
        | [] => []
      { st1 with sigLog := (owner, body.take pos, sig) :: st1.sigLog }
    | .error _ => st1
  | _ => st1

def parseAlgos (s : String) : Option Algos :=
  if s = "-" then some { speeds := [], allowUnencrypted := false } else
  (s.splitOn ",").foldlM (fun (acc : Algos) x =>
    if x = "plain" then some { acc with allowUnencrypted := true } else
    match x.splitOn ":" with
    | [id, bits] => do
      let id ← id.toNat?
      let c := (Cipher.ofWireId id).getD .chacha
      let v ← (Bytes.ofHex bits).map Bytes.beVal
      pure { acc with speeds := acc.speeds ++ [(c, v)] }
    | _ => none) { speeds := [], allowUnencrypted := false }

def dummyRef (st : ISt) (att : String) : KeyRef :=
  1000 + ((st.attempts.findIdx? (·.1 = att)).getD st.attempts.length)

/-- `ideliver-from <from> <k> <to> …` → `ideliver m<i> <to> …` (or `none` when there is no such datagram) -/
def resolveFrom (senders : List String) (t : List String) (empties : List Bool := []) : Option (List String) :=
  match t with
  | "ideliver-from" :: src :: k :: to :: muts =>
    -- `<k> = last`: the most recent NON-EMPTY datagram of `src`
    let last := k = "last"
    let cand := (senders.zipIdx.filter (fun (p : String × Nat) => p.1 = src && !(last && empties.getD p.2 false))).map (·.2)
    match (if last then some 0 else k.toNat?) with
    | some k => if k ≥ cand.length then none else some ("ideliver" :: s!"m{cand.getD (cand.length - 1 - k) 0}" :: to :: muts)
    | none => none
  | _ => some t

/-- one operation of the suite; returns state, model observation, spec verdict -/
def initStep (st : ISt) (t : List String) (implObs : String) : Option (ISt × String × String) :=
  if t.head? = some "ideliver-from" ∧ (resolveFrom st.senders t (st.msgs.map (·.isEmpty))).isNone then some (st, "none-in-flight", "-") else
  match (resolveFrom st.senders t (st.msgs.map (·.isEmpty))).getD t with
  | "ikeys" :: _ =>
    let keys := (implObs.splitOn ",").filterMap Bytes.ofHex
    some ({ keys }, implObs, "-")        -- public keys are parameters (Ed25519 key derivation is not modelled)
  | "iparty-cfg" :: name :: fs =>
    -- the real configuration path: cipher list "plain"; without configured trusted keys a node trusts its own key only
    match (kvField fs "key").bind String.toNat?, kvField fs "trust", (kvField fs "id").bind Bytes.ofHex with
    | some ki, some tr, some nodeId =>
      let keys := st.keys
      let trusted0 := if tr = "-" then [] else (tr.splitOn ",").filterMap (fun (x : String) => x.toNat?.bind (fun i => keys[i]?))
      let key := keys.getD ki []
      let trusted := if trusted0.isEmpty then [key] else trusted0
      match kvField fs "algos" with
      | none =>
        let p : IParty := { key, trusted, algos := { speeds := [], allowUnencrypted := true }, nodeId }
        some ({ st with parties := setS st.parties name p }, "ok", "-")
      | some names =>
        -- the configured cipher names go through the model of `Crypto::parse_algorithms`; the measured speeds are observed
        match parseAlgorithms (if names = "default" then [] else names.splitOn ",") with
        | none => some (st, "err", "-")
        | some (plain, ciphers) =>
          let observed := ((field implObs "algos").bind parseAlgos).getD { speeds := [], allowUnencrypted := false }
          let speeds := ciphers.zipIdx.map (fun (c, i) => (c, ((observed.speeds[i]?).map (·.2)).getD 0))
          let algos : Algos := { speeds, allowUnencrypted := plain }
          let parts := (if plain then ["plain"] else []) ++ speeds.map (fun (c, v) => s!"{c.wireId}:{Bytes.toHex (Bytes.ofBE 4 v)}")
          let p : IParty := { key, trusted, algos, nodeId }
          some ({ st with parties := setS st.parties name p }, s!"ok algos={if parts.isEmpty then "-" else ",".intercalate parts}", "-")
    | _, _, _ => some (st, "bad-op", "-")
  | "iparty" :: name :: fs =>
    match (kvField fs "key").bind String.toNat?, kvField fs "trust", (kvField fs "algos").bind parseAlgos, (kvField fs "id").bind Bytes.ofHex with
    | some ki, some tr, some algos, some nodeId =>
      let trusted := if tr = "-" then [] else (tr.splitOn ",").filterMap (fun (x : String) => x.toNat?.bind (fun i => st.keys[i]?))
      match st.keys[ki]? with
      | some key => some ({ st with parties := setS st.parties name { key, trusted, algos, nodeId } }, "ok", "-")
      | none => some (st, "bad-op", "-")
    | _, _, _, _ => some (st, "bad-op", "-")
  | "iattempt" :: att :: party :: pl :: _ =>
    match lookupS st.parties party, Bytes.ofHex (pl.drop 8).toString, (field implObs "hash").bind Bytes.ofHex with
    | some p, some payload, some hash =>
      let ist : InitSt := { nodeId := p.nodeId, hash, payload, ownKey := p.key, trusted := p.trusted, algos := p.algos }
      let pc : PeerCrypto := { init := some ist }
      -- the 4 salt bytes are random; the rest of the hash is determined by the node id
      let ok := hash.drop 4 = (st.env.nodeHash (hash.take 4) p.nodeId) && hash.length = 20
      some ({ st with attempts := setS st.attempts att pc }, if ok then implObs else "hash-mismatch", "-")
    | _, _, _ => some (st, "bad-op", "-")
  | "iexpect" :: _ => some (st, "ok", "-")
  | ["isign", ki, salt, parts] =>
    -- a handshake datagram with arbitrary TLV content, genuinely signed by the holder of key `ki`: the signature bytes are observed (the model
    -- cannot sign), the layout is checked (marker, salt, salted key hash of that key, the given parts, signature length, signature) and the
    -- signature is registered with the ideal functionality: from now on it verifies under that key, for exactly these bytes
    match ki.toNat?.bind (fun i => st.keys[i]?), Bytes.ofHex salt, (if parts = "-" then some [] else Bytes.ofHex parts),
          (implObs.splitOn "=")[1]?.bind Bytes.ofHex with
    | some key, some salt, some parts, some msg =>
      let region := salt ++ st.env.keyHash key salt ++ parts
      let sig := (msg.drop (1 + region.length + 1))
      let okLayout := msg.take (1 + region.length) = 255 :: region && msg[1 + region.length]? = some sig.length
      if !okLayout then some (st, "layout-mismatch", "-") else
      let st1 := { st with msgs := st.msgs ++ [msg], senders := st.senders ++ [s!"signer{ki}"], sigLog := (key, region, sig) :: st.sigLog }
      some (st1, implObs, "-")
    | _, _, _, _ => some (st, "bad-op", "-")
  | op :: rest =>
    if op ∉ ["iinit", "ideliver", "itick", "isend"] then none else
    let att := if op = "ideliver" then rest.getD 1 "" else rest.getD 0 ""
    match lookupS st.attempts att with
    | none => some (st, "bad-op", "-")
    | some pc =>
      let (ires, istate) := splitObs implObs
      let oc := (field istate "core").bind parseObsCore
      let orot := (field istate "rot").bind parseObsRot
      let emitted := emittedOf ires
      let dummy := dummyRef st att
      let rnd0 : Rand := match emitted with
        | some (255 :: b) => holesOfInit (255 :: b)
        | some b => { ct := b.drop 8 }
        | none => {}
      let rnd : Rand := { rnd0 with dummy, starts123 := (oc.map (fun (o : ObsCore) => (o.sends.drop 1).map (· % 2 ^ 95))).getD [] }
      let rr : RotRand := { freshProp := (orot.bind (·.prop)).getD 0, freshPend := (orot.bind (·.pend)).getD 0,
                            starts := (oc.map (fun (o : ObsCore) => o.sends.map (· % 2 ^ 95))).getD [],
                            ct := match emitted with | some b => b.drop 8 | none => [] }
      let owner := (pc.init.map (fun (i : InitSt) => i.ownKey)).getD []
      let ownerKey := match lookupS st.parties ((att.splitOn "#").headD att) with
        | some p => p.key
        | none => owner
      -- run the model
      let finish (st : ISt) (pc' : PeerCrypto) (resStr : String) (out : Bytes) (log : Init.SealLog) : ISt × String :=
        let pc'' := adoptDummyStarts pc' oc dummy
        let (st1, resStr1) :=
          -- a `Reply` result always hands a datagram to the caller, even an empty one
          if out.isEmpty && !(resStr.splitOn "$M").length > 1 then (st, resStr)
          else
            let idx := st.msgs.length
            let st1 := registerEmission { st with msgs := st.msgs ++ [out], senders := st.senders ++ [att] } ownerKey out log
            (st1, resStr.replace "$M" s!"m{idx}={Bytes.toHexOrDash out}")
        ({ st1 with attempts := setS st1.attempts att pc'' }, s!"{resStr1} | {pcState pc''}")
      let render (o : POutcome MsgResult) : ISt × String :=
        match o with
        | .panic => (st, "panic")
        | .err pc' e => finish st pc' s!"err:{errName e}" [] []
        | .ok pc' out res log =>
          match res with
          | .message ty plain => finish st pc' s!"msg:{ty}:{Bytes.toHexOrDash plain}" [] log
          | .initialized p => finish st pc' s!"initnr payload={Bytes.toHexOrDash p}" [] log
          | .initializedWithReply p => finish st pc' s!"init $M payload={Bytes.toHexOrDash p}" out log
          | .reply => finish st pc' "reply $M" out log
          | .none => finish st pc' "none" [] log
      match op with
      | "iinit" =>
        match pc.init with
        | none => let (s, o) := finish st pc "err:state" [] []; some (s, o, "-")
        | some ist =>
          if ist.stage ≠ Generated.STAGE_PING then let (s, o) := finish st pc "err:state" [] []; some (s, o, "-")
          else
            let (ist', b) := Init.sendPing st.env ist rnd
            let (s, o) := finish st { pc with init := some ist' } "ok $M" (255 :: b) []
            some (s, o, "-")
      | "ideliver" =>
        match ((rest.getD 0 "").drop 1).toString.toNat? with
        | none => some (st, "bad-op", "-")
        | some mi =>
          match st.msgs[mi]? with
          | none => some (st, "bad-op", "-")
          | some d0 =>
            let muts := rest.drop 2
            let tailTok := muts.find? (fun (m : String) => m.startsWith "tail=m")
            let tail := match tailTok with
              | some tk => ((tk.drop 6).toString.toNat?.bind (fun j => st.msgs[j]?)).getD []
              | none => []
            match (muts.filter (fun (m : String) => !m.startsWith "tail=m")).foldlM mutateBytes d0 with
            | none => some (st, "bad-op", "-")
            | some d =>
              -- stale bytes behind the datagram: what is left of the previous datagram in the buffer
              let stale := tail.drop d.length
              let (s, o) := render (PeerCrypto.handleMessage st.env st.bodyOf (fun _ => true) pc d stale rnd rr)
              some (s, o, "-")
      | "itick" =>
        let (s, o) := render (PeerCrypto.everySecond pc rr)
        some (s, o, "-")
      | "isend" =>
        match (rest.getD 1 "").toNat?, Bytes.ofHex (rest.getD 2 "") with
        | some ty, some plain =>
          match PeerCrypto.sendMessage pc ty plain rr.ct with
          | (pc', .ok (bytes, log)) => let (s, o) := finish st pc' "ok $M" bytes log; some (s, o, "-")
          | (pc', .error e) => let (s, o) := finish st pc' s!"err:{errName e}" [] []; some (s, o, "-")
        | _, _ => some (st, "bad-op", "-")
      | _ => none
  | _ => none

end Driver
