import VpnCloud.Model.Rotation
import Driver.CoreSuite
/-
  Driver glue for the suite `rot` (C07): the symbolic two-party rotation model next to real
  `RotationState` objects with real key slots.
-/
namespace Driver
open VpnCloud VpnCloud.Rot

structure RotSt where
  sides : List Side := []
  msgs : List (Nat × Msg) := []          -- (sender, message), index = message number
  fresh : Nat := 0
  display : List Nat := []               -- ephemeral keys in order of first appearance in a sent message
  sendId : List Nat := [0, 0]
  -- spec state (from the implementation's observations)
  markSend : Option (Nat × Nat) := none
  lastImplSend : Nat × Nat := (0, 0)
  markIdx : Nat := 0
  nextFresh : List Nat := [0, 0]

def RotSt.show (st : RotSt) (k : Nat) : RotSt × String :=
  match st.display.idxOf? k with
  | some i => (st, s!"e{i}")
  | none => ({ st with display := st.display ++ [k] }, s!"e{st.display.length}")

def RotSt.describe (st : RotSt) (sender : Nat) (m : Msg) : RotSt × String :=
  let (st1, p) := st.show m.propose
  let (st2, c) := match m.confirm with
    | some c => st1.show c
    | none => (st1, "-")
  let idx := st2.msgs.length
  ({ st2 with msgs := st2.msgs ++ [(sender, m)] }, s!"m{idx}:id={m.id}:p={p}:c={c}")

def initSide (initiator : Bool) (side : Nat) : Side :=
  { confirmed := none, pending := none, proposed := if initiator then some 0 else none,
    id := if initiator then 1 else 0, timeout := false,
    slots := fun i => if i = 0 then .init else .dummy side i, cur := 0 }

def natField (obs k : String) : Option Nat := (field obs k).bind String.toNat?

def rotStep (st : RotSt) (t : List String) (implObs : String) : Option (RotSt × String × String) :=
  match t with
  | ["rnew", _] =>
    let st0 : RotSt := { sides := [initSide true 0, initSide false 1], fresh := 1 }
    let (st1, d) := st0.describe 0 ⟨1, 0, none⟩
    some (st1, s!"msg={d}", "-")
  | ["rcycle", s] =>
    match sideIdx s with
    | none => some (st, "bad-op", "-")
    | some i =>
      match st.sides[i]? with
      | none => some (st, "bad-op", "-")
      | some sd =>
        let rotated := sd.proposed.isNone && sd.pending.isSome
        let (sd', m) := cycle sd st.fresh
        let st1 := { st with sides := st.sides.set i sd', fresh := st.fresh + 1 }
        let (st2, ms) := match m with
          | some m => st1.describe i m
          | none => (st1, "-")
        let rot := if rotated then s!"{sd'.id}:0" else "-"
        some (st2, s!"msg={ms} rot={rot}", "-")
  | ["rdeliver", m, s] =>
    match (m.drop 1).toString.toNat?, sideIdx s with
    | some mi, some i =>
      match st.msgs[mi]?, st.sides[i]? with
      | some (_, msg), some sd =>
        let rotated := decide (msg.id > sd.id) && msg.confirm.isSome && sd.proposed.isSome
        let sd' := process sd msg st.fresh
        let st1 := { st with sides := st.sides.set i sd', fresh := st.fresh + 1,
                             sendId := if rotated then st.sendId.set i msg.id else st.sendId }
        some (st1, s!"rot={if rotated then s!"{msg.id}:1" else "-"}", "-")
      | _, _ => some (st, "bad-op", "-")
    | _, _ => some (st, "bad-op", "-")
  | ["rdeliver-latest", s, k] =>
    match sideIdx s, k.toNat? with
    | some i, some k =>
      let cand := (st.msgs.zipIdx.filter (fun (p : (Nat × Msg) × Nat) => p.1.1 = 1 - i)).map (fun p => p.2)
      if k ≥ cand.length then some (st, "none", "-")
      else
        let mi := cand.getD (cand.length - 1 - k) 0
        match st.msgs[mi]?, st.sides[i]? with
        | some (_, msg), some sd =>
          let rotated := decide (msg.id > sd.id) && msg.confirm.isSome && sd.proposed.isSome
          let sd' := process sd msg st.fresh
          let st1 := { st with sides := st.sides.set i sd', fresh := st.fresh + 1,
                               sendId := if rotated then st.sendId.set i msg.id else st.sendId }
          some (st1, s!"m{mi} rot={if rotated then s!"{msg.id}:1" else "-"}", "-")
        | _, _ => some (st, "bad-op", "-")
    | _, _ => some (st, "bad-op", "-")
  | ["probe"] =>
    match st.sides[0]?, st.sides[1]? with
    | some a, some b =>
      let ab := if a.slots a.cur = b.slots a.cur then "ok" else "err"
      let ba := if b.slots b.cur = a.slots b.cur then "ok" else "err"
      let obs := s!"ab={ab} ba={ba} cura={a.cur} curb={b.cur} senda={st.sendId.getD 0 0} sendb={st.sendId.getD 1 0}"
      -- C07 on the implementation: fresh payload is always decryptable by the peer
      let sv := if field implObs "ab" = some "ok" && field implObs "ba" = some "ok" then "ok" else "FAIL C07 probe not decryptable by the peer"
      let impl := ((natField implObs "senda").getD 0, (natField implObs "sendb").getD 0)
      some ({ st with lastImplSend := impl }, obs, sv)
    | _, _ => some (st, "bad-op", "-")
  | ["mark"] =>
    some ({ st with markSend := some st.lastImplSend, markIdx := st.msgs.length, nextFresh := [st.msgs.length, st.msgs.length] }, "ok", "-")
  | ["rdeliver-fresh", s] =>
    match sideIdx s with
    | none => some (st, "bad-op", "-")
    | some i =>
      let start := st.nextFresh.getD i 0
      let idxs := (List.range (st.msgs.length - start)).map (· + start)
      let (st', res) := idxs.foldl (fun (acc : RotSt × List String) mi =>
        let (st, res) := acc
        match st.msgs[mi]?, st.sides[i]? with
        | some (sender, msg), some sd =>
          if sender ≠ 1 - i then (st, res) else
          let rotated := decide (msg.id > sd.id) && msg.confirm.isSome && sd.proposed.isSome
          let sd' := process sd msg st.fresh
          ({ st with sides := st.sides.set i sd', fresh := st.fresh + 1,
                     sendId := if rotated then st.sendId.set i msg.id else st.sendId },
           res ++ [s!"m{mi}:{if rotated then s!"{msg.id}:1" else "-"}"])
        | _, _ => (st, res)) (st, [])
      some ({ st' with nextFresh := st'.nextFresh.set i st'.msgs.length }, if res.isEmpty then "none" else ",".intercalate res, "-")
  | ["expect-advance"] =>
    -- C07 freshness: during a phase in which every rotation message got through, both sealing keys were replaced
    match st.markSend with
    | some (a0, b0) =>
      let (a1, b1) := st.lastImplSend
      some (st, "ok", if a1 > a0 && b1 > b0 then "ok" else s!"FAIL C07 sealing key not replaced while rotation messages got through (a: {a0}->{a1}, b: {b0}->{b1})")
    | none => some (st, "ok", "-")
  | _ => none

end Driver
