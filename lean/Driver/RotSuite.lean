import VpnCloud.Model.Rotation
import Driver.CoreSuite
/-
  Driver glue for the suite `rot` (C07): the symbolic two-party rotation model next to real
  `RotationState` objects with real key slots.
-/
namespace Driver
open VpnCloud VpnCloud.Rot

structure RotSt where
  sides : List Side := []
  msgs : List (Nat × Msg) := []          -- (sender, message), index = message number
  fresh : Nat := 0
  display : List Nat := []               -- ephemeral keys in order of first appearance in a sent message
  sendId : List Nat := [0, 0]
  -- spec state (from the implementation's observations)
  markSend : Option (Nat × Nat) := none
  lastImplSend : Nat × Nat := (0, 0)
  markIdx : Nat := 0
  nextFresh : List Nat := [0, 0]
  keyDisplay : List Key := []            -- rotated-in key material in order of first installation (either side)
  implKeys : List (Nat × Key) := []      -- spec state: the implementation's number of a key material ↦ the key exchange it came from

def RotSt.show (st : RotSt) (k : Nat) : RotSt × String :=
  match st.display.idxOf? k with
  | some i => (st, s!"e{i}")
  | none => ({ st with display := st.display ++ [k] }, s!"e{st.display.length}")

def RotSt.describe (st : RotSt) (sender : Nat) (m : Msg) : RotSt × String :=
  let (st1, p) := st.show m.propose
  let (st2, c) := match m.confirm with
    | some c => st1.show c
    | none => (st1, "-")
  let idx := st2.msgs.length
  ({ st2 with msgs := st2.msgs ++ [(sender, m)] }, s!"m{idx}:id={m.id}:p={p}:c={c}")

/-- the model's number of the key installed by a rotation -/
def RotSt.showKey (st : RotSt) (k : Key) : RotSt × String :=
  match st.keyDisplay.idxOf? k with
  | some i => (st, s!"k{i}")
  | none => ({ st with keyDisplay := st.keyDisplay ++ [k] }, s!"k{st.keyDisplay.length}")

/-- the implementation's key number in an observation token list such as `["5", "1", "k2"]` -/
def implKeyNo (toks : List String) : Option Nat :=
  (toks.find? (·.startsWith "k")).bind (fun t => (t.drop 1).toString.toNat?)

/-- Spec on the key material installed by a rotation (C04: every rotation restarts the nonce sequence at a random value, so the rotated-in
    keys must be separate keys — I3: distinct exchanges give distinct material; C07: both ends derive identical material from one exchange, L2).
    `ki`: the implementation's number (by first appearance of the BYTES) of the installed key, `kref`: the exchange it belongs to. -/
def RotSt.noteKey (st : RotSt) (ki : Option Nat) (kref : Key) : RotSt × String :=
  match ki with
  | none => (st, "-")
  | some ki =>
    match st.implKeys.find? (·.1 = ki) with
    | some (_, k) => if k = kref then (st, "ok") else (st, "FAIL C04 two different key exchanges installed the same key material: the rotated-in keys are not separate keys")
    | none =>
      if st.implKeys.any (·.2 = kref) then (st, "FAIL C07 the two ends derived different key material from the same key exchange")
      else ({ st with implKeys := st.implKeys ++ [(ki, kref)] }, "ok")

def worst (a b : String) : String := if a.startsWith "FAIL" then a else if b.startsWith "FAIL" then b else if a = "ok" || b = "ok" then "ok" else "-"

def initSide (initiator : Bool) (side : Nat) : Side :=
  { confirmed := none, pending := none, proposed := if initiator then some 0 else none,
    id := if initiator then 1 else 0, timeout := false,
    slots := fun i => if i = 0 then .init else .dummy side i, cur := 0 }

def natField (obs k : String) : Option Nat := (field obs k).bind String.toNat?

def rotStep (st : RotSt) (t : List String) (implObs : String) : Option (RotSt × String × String) :=
  match t with
  | ["rnew", _] =>
    let st0 : RotSt := { sides := [initSide true 0, initSide false 1], fresh := 1 }
    let (st1, d) := st0.describe 0 ⟨1, 0, none⟩
    some (st1, s!"msg={d}", "-")
  | ["rcycle", s] =>
    match sideIdx s with
    | none => some (st, "bad-op", "-")
    | some i =>
      match st.sides[i]? with
      | none => some (st, "bad-op", "-")
      | some sd =>
        let rotated := sd.proposed.isNone && sd.pending.isSome
        let (sd', m) := cycle sd st.fresh
        let st1 := { st with sides := st.sides.set i sd', fresh := st.fresh + 1 }
        let (st2, ms) := match m with
          | some m => st1.describe i m
          | none => (st1, "-")
        if rotated then
          let kref := sd'.slots (sd'.id % 4)
          let (st3, kn) := st2.showKey kref
          let (st4, sv) := st3.noteKey (implKeyNo ((implObs.splitOn "rot=").getLast!.splitOn ":")) kref
          some (st4, s!"msg={ms} rot={sd'.id}:0:{kn}", sv)
        else some (st2, s!"msg={ms} rot=-", "-")
  | ["rdeliver", m, s] =>
    match (m.drop 1).toString.toNat?, sideIdx s with
    | some mi, some i =>
      match st.msgs[mi]?, st.sides[i]? with
      | some (_, msg), some sd =>
        let rotated := decide (msg.id > sd.id) && msg.confirm.isSome && sd.proposed.isSome
        let sd' := process sd msg st.fresh
        let st1 := { st with sides := st.sides.set i sd', fresh := st.fresh + 1,
                             sendId := if rotated then st.sendId.set i msg.id else st.sendId }
        if rotated then
          let kref := sd'.slots (msg.id % 4)
          let (st2, kn) := st1.showKey kref
          let (st3, sv) := st2.noteKey (implKeyNo ((implObs.splitOn "rot=").getLast!.splitOn ":")) kref
          some (st3, s!"rot={msg.id}:1:{kn}", sv)
        else some (st1, "rot=-", "-")
      | _, _ => some (st, "bad-op", "-")
    | _, _ => some (st, "bad-op", "-")
  | ["rdeliver-latest", s, k] =>
    match sideIdx s, k.toNat? with
    | some i, some k =>
      let cand := (st.msgs.zipIdx.filter (fun (p : (Nat × Msg) × Nat) => p.1.1 = 1 - i)).map (fun p => p.2)
      if k ≥ cand.length then some (st, "none", "-")
      else
        let mi := cand.getD (cand.length - 1 - k) 0
        match st.msgs[mi]?, st.sides[i]? with
        | some (_, msg), some sd =>
          let rotated := decide (msg.id > sd.id) && msg.confirm.isSome && sd.proposed.isSome
          let sd' := process sd msg st.fresh
          let st1 := { st with sides := st.sides.set i sd', fresh := st.fresh + 1,
                               sendId := if rotated then st.sendId.set i msg.id else st.sendId }
          if rotated then
            let kref := sd'.slots (msg.id % 4)
            let (st2, kn) := st1.showKey kref
            let (st3, sv) := st2.noteKey (implKeyNo ((implObs.splitOn "rot=").getLast!.splitOn ":")) kref
            some (st3, s!"m{mi} rot={msg.id}:1:{kn}", sv)
          else some (st1, s!"m{mi} rot=-", "-")
        | _, _ => some (st, "bad-op", "-")
    | _, _ => some (st, "bad-op", "-")
  | ["probe"] =>
    match st.sides[0]?, st.sides[1]? with
    | some a, some b =>
      let ab := if a.slots a.cur = b.slots a.cur then "ok" else "err"
      let ba := if b.slots b.cur = a.slots b.cur then "ok" else "err"
      let obs := s!"ab={ab} ba={ba} cura={a.cur} curb={b.cur} senda={st.sendId.getD 0 0} sendb={st.sendId.getD 1 0}"
      -- C07 on the implementation: fresh payload is always decryptable by the peer
      let sv := if field implObs "ab" = some "ok" && field implObs "ba" = some "ok" then "ok" else "FAIL C07 probe not decryptable by the peer"
      let impl := ((natField implObs "senda").getD 0, (natField implObs "sendb").getD 0)
      some ({ st with lastImplSend := impl }, obs, sv)
    | _, _ => some (st, "bad-op", "-")
  | ["mark"] =>
    some ({ st with markSend := some st.lastImplSend, markIdx := st.msgs.length, nextFresh := [st.msgs.length, st.msgs.length] }, "ok", "-")
  | ["rdeliver-fresh", s] =>
    match sideIdx s with
    | none => some (st, "bad-op", "-")
    | some i =>
      let start := st.nextFresh.getD i 0
      let idxs := (List.range (st.msgs.length - start)).map (· + start)
      let implToks := (implObs.splitOn ",").map (·.splitOn ":")
      let (st', res, sv) := idxs.foldl (fun (acc : RotSt × List String × String) mi =>
        let (st, res, sv) := acc
        match st.msgs[mi]?, st.sides[i]? with
        | some (sender, msg), some sd =>
          if sender ≠ 1 - i then (st, res, sv) else
          let rotated := decide (msg.id > sd.id) && msg.confirm.isSome && sd.proposed.isSome
          let sd' := process sd msg st.fresh
          let st1 : RotSt := { st with sides := st.sides.set i sd', fresh := st.fresh + 1, sendId := if rotated then st.sendId.set i msg.id else st.sendId }
          if rotated then
            let kref := sd'.slots (msg.id % 4)
            let (st2, kn) := st1.showKey kref
            let (st3, v) := st2.noteKey ((implToks.find? (fun t => t.head? = some s!"m{mi}")).bind implKeyNo) kref
            (st3, res ++ [s!"m{mi}:{msg.id}:1:{kn}"], worst sv v)
          else (st1, res ++ [s!"m{mi}:-"], sv)
        | _, _ => (st, res, sv)) (st, [], "-")
      some ({ st' with nextFresh := st'.nextFresh.set i st'.msgs.length }, if res.isEmpty then "none" else ",".intercalate res, sv)
  | ["expect-advance"] =>
    -- C07 freshness: during a phase in which every rotation message got through, both sealing keys were replaced
    match st.markSend with
    | some (a0, b0) =>
      let (a1, b1) := st.lastImplSend
      some (st, "ok", if a1 > a0 && b1 > b0 then "ok" else s!"FAIL C07 sealing key not replaced while rotation messages got through (a: {a0}->{a1}, b: {b0}->{b1})")
    | none => some (st, "ok", "-")
  | _ => none

end Driver
