import VpnCloud.Model.Payload
import VpnCloud.Spec.C19
/-
  Driver glue for the pure suites.  `step toks implObs` returns (model observation, spec verdict).
  The spec verdict evaluates the *implementation's* observation against the executable Spec.
-/
namespace Driver
open VpnCloud

def obsAddrPair (r : Option (Bytes × Bytes)) : String :=
  match r with
  | some (s, d) => s!"ok {Bytes.toHexOrDash s} {Bytes.toHexOrDash d}"
  | none => "err"

def exceptToOpt {ε α} : Except ε α → Option α
  | .ok a => some a
  | .error _ => none

/-- returns `none` when the op does not belong to this suite -/
def pureStep (t : List String) (implObs : String) : Option (String × String) :=
  match t with
  | ["frame", h] =>
    match Bytes.ofHex h with
    | none => some ("bad-op", "-")
    | some b =>
      let m := obsAddrPair (exceptToOpt (Payload.frameParse b))
      let s := obsAddrPair (Spec.C19.frameRef b)
      some (m, if s = implObs then "ok" else s!"FAIL expected={s}")
  | ["packet", h] =>
    match Bytes.ofHex h with
    | none => some ("bad-op", "-")
    | some b =>
      let m := obsAddrPair (exceptToOpt (Payload.packetParse b))
      let s := obsAddrPair (Spec.C19.packetRef b)
      some (m, if s = implObs then "ok" else s!"FAIL expected={s}")
  | _ => none

end Driver
