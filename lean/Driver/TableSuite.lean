import VpnCloud.Model.Table
import VpnCloud.Spec.TableSpec
/-
  Driver glue for the suites `range` (op `match`) and `table`.
-/
namespace Driver
open VpnCloud VpnCloud.Spec

def parsePeer (s : String) : Option Nat :=
  if s.startsWith "p" then (s.drop 1).toString.toNat? else none

def parseRange (s : String) : Option Range :=
  match s.splitOn "/" with
  | [b, p] => do
    let base ← Bytes.ofHex b
    let pl ← p.toNat?
    pure { base, prefixLen := pl }
  | _ => none

def parseRanges (s : String) : Option (List Range) :=
  if s = "-" then some [] else (s.splitOn ",").mapM parseRange

def rangeStr (r : Range) : String := s!"{Bytes.toHexOrDash r.base}/{r.prefixLen}"

def bytesLt : Bytes → Bytes → Bool
  | [], [] => false
  | [], _ => true
  | _, [] => false
  | a :: as, b :: bs => if a < b then true else if a > b then false else bytesLt as bs

def insertSorted (e : CacheEntry) : List CacheEntry → List CacheEntry
  | [] => [e]
  | x :: xs => if bytesLt e.addr x.addr then e :: x :: xs else x :: insertSorted e xs

def sortCache (l : List CacheEntry) : List CacheEntry := l.foldr insertSorted []

def tableDump (t : Table) : String :=
  let cl := t.claims.map (fun e => s!"p{e.peer}:{rangeStr e.claim}@{e.timeout}")
  let ca := (sortCache t.cache).map (fun v => s!"{Bytes.toHexOrDash v.addr}:p{v.peer}@{v.timeout}")
  let j (l : List String) := if l.isEmpty then "-" else ",".intercalate l
  s!"claims={j cl} cache={j ca}"

def parseInt (s : String) : Option Int := s.toInt?

def parseClaimEntry (s : String) : Option ClaimEntry :=
  match s.splitOn "@" with
  | [a, t] =>
    match a.splitOn ":" with
    | [p, r] => do
      let peer ← parsePeer p
      let claim ← parseRange r
      let timeout ← parseInt t
      pure { peer, claim, timeout }
    | _ => none
  | _ => none

def parseCacheEntry (s : String) : Option CacheEntry :=
  match s.splitOn "@" with
  | [a, t] =>
    match a.splitOn ":" with
    | [ad, p] => do
      let addr ← Bytes.ofHex ad
      let peer ← parsePeer p
      let timeout ← parseInt t
      pure { addr, peer, timeout }
    | _ => none
  | _ => none

/-- parse `claims=… cache=…` (as printed by the implementation) into a table with the given parameters -/
def parseDump (ct kt : Nat) (s : String) : Option Table :=
  match (s.splitOn " ").filter (· ≠ "") with
  | [c, k] =>
    if c.startsWith "claims=" && k.startsWith "cache=" then do
      let cs := (c.drop 7).toString
      let ks := (k.drop 6).toString
      let claims ← if cs = "-" then some [] else (cs.splitOn ",").mapM parseClaimEntry
      let cache ← if ks = "-" then some [] else (ks.splitOn ",").mapM parseCacheEntry
      pure { cache, claims, cacheTimeout := ct, claimTimeout := kt }
    else none
  | _ => none

structure TableSt where
  table : Option Table := none
  now : Int := 0
  /-- the implementation's table as of its last dump (for the one-step Spec oracle) -/
  implPrev : Option Table := none

def splitObs (o : String) : String × String :=
  match o.splitOn " | " with
  | [r, d] => (r, d)
  | _ => (o, "")

def verdict (b : Bool) (what : String) : String := if b then "ok" else s!"FAIL {what}"

/-- one table operation: returns new state, model observation, spec verdict -/
def tableStep (st : TableSt) (t : List String) (implObs : String) : Option (TableSt × String × String) :=
  match t with
  | ["match", r, a] =>
    match parseRange r, Bytes.ofHex a with
    | some r, some a =>
      let m := toString (r.matches a)
      let s := toString (C11.matchesRef r.base r.prefixLen a)
      some (st, m, if s = implObs then "ok" else s!"FAIL expected={s}")
    | _, _ => some (st, "bad-op", "-")
  | ["tnew", ct, kt] =>
    match ct.toNat?, kt.toNat? with
    | some ct, some kt =>
      let tb : Table := { cacheTimeout := ct, claimTimeout := kt }
      some ({ st with table := some tb, implPrev := some tb }, "ok", "-")
    | _, _ => some (st, "bad-op", "-")
  | ["now", n] =>
    match n.toInt? with
    | some n => some ({ st with now := n }, "ok", "-")
    | none => some (st, "bad-op", "-")
  | op :: args =>
    if op ∈ ["announce", "disconnect", "learn", "lookup", "sweep", "dump"] then
      match st.table with
      | none => some (st, "bad-op", "-")
      | some tb =>
        let (ires, idump) := splitObs implObs
        let implNew := parseDump tb.cacheTimeout tb.claimTimeout idump
        let now := st.now
        -- model step
        let r : Option (Table × String) :=
          match op, args with
          | "announce", [p, rs] => do
            let p ← parsePeer p; let rs ← parseRanges rs
            pure (tb.setClaims now p rs, "ok")
          | "disconnect", [p] => do
            let p ← parsePeer p
            pure (tb.removeClaims now p, "ok")
          | "learn", [a, p] => do
            let a ← Bytes.ofHex a; let p ← parsePeer p
            pure (tb.learn now a p, "ok")
          | "lookup", [a] => do
            let a ← Bytes.ofHex a
            let (tb', res) := tb.lookup now a
            pure (tb', match res with | some p => s!"p{p}" | none => "none")
          | "sweep", [] => pure (tb.housekeep now, "ok")
          | "dump", [] => pure (tb, "ok")
          | _, _ => none
        match r with
        | none => some (st, "bad-op", "-")
        | some (tb', res) =>
          -- spec verdict on the implementation's own before/after dumps
          let sv : String :=
            match st.implPrev, implNew with
            | some b, some a =>
              if now ≤ 0 then "-" else
              match op, args with
              | "announce", [p, rs] =>
                match parsePeer p, parseRanges rs with
                | some p, some rs => verdict (TableSpec.announceOk b now p rs a) "announceOk"
                | _, _ => "-"
              | "disconnect", [p] =>
                match parsePeer p with
                | some p => verdict (TableSpec.disconnectOk b now p a) "disconnectOk"
                | none => "-"
              | "learn", [ad, p] =>
                match Bytes.ofHex ad, parsePeer p with
                | some ad, some p => verdict (TableSpec.learnOk b now ad p a) "learnOk"
                | _, _ => "-"
              | "lookup", [ad] =>
                match Bytes.ofHex ad with
                | some ad =>
                  let ir : Option (Option Nat) := if ires = "none" then some none else (parsePeer ires).map some
                  match ir with
                  | some ir => verdict (TableSpec.lookupOk b now ad ir a) "lookupOk"
                  | none => "FAIL unparsable lookup result"
                | none => "-"
              | "sweep", [] => verdict (TableSpec.sweepOk b now a) "sweepOk"
              | _, _ => "-"
            | _, _ => if implObs = "panic" then "FAIL panic" else "-"
          some ({ st with table := some tb', implPrev := implNew }, s!"{res} | {tableDump tb'}", sv)
    else none
  | _ => none

end Driver
