import Driver.NodeSuite
import VpnCloud.Spec.C19
import VpnCloud.Spec.C11
/-
  Reference monitor for the suite `node`, fed only by the implementation's transcript.  One-step and
  history checks for C08, C09, C10, C12, C14, C15 and the node-level parts of C01, C02, C05, C13.
-/
namespace Driver
open VpnCloud VpnCloud.Codec

structure PeerS where
  addr : String
  nodeId : String
  timeout : Int
  pt : Nat
  ready : Bool            -- session has a crypto core or is plain
  raw : String

structure NodeS where
  id : String := ""
  peers : List PeerS := []
  pending : List String := []
  pendingStage : List (String × Nat) := []     -- handshake stage of each pending attempt (2 = awaiting pong, 3 = awaiting peng)
  pendingRetries : List (String × Nat) := []   -- retransmissions so far of each pending attempt
  own : List String := []
  next : Int := 0
  rc : List (String × Nat × Nat × Int) := []
  dropIn : Nat := 0
  dropOut : Nat := 0
  claims : List (String × Range × Int) := []      -- (peer, range, timeout)
  cache : List (Bytes × String × Int) := []
  raw : String := ""

def between (s : String) (a b : String) : String :=
  match s.splitOn a with
  | _ :: rest :: _ => (rest.splitOn b).headD ""
  | _ => ""

def parsePeerS (e0 : String) : Option PeerS :=
  let e := if e0.endsWith "}" then (e0.dropEnd 1).toString else e0
  match e.splitOn "{" with
  | a :: body :: _ =>
    match body.splitOn "," with
    | nid :: to :: pt :: _ =>
      some { addr := a, nodeId := nid, timeout := to.toInt?.getD 0, pt := pt.toNat?.getD 0,
             ready := !(body.splitOn "core=-").length > 1 || (body.splitOn "plain=1").length > 1, raw := e0 }
    | _ => none
  | _ => none

def parseNodeS (s : String) : NodeS :=
  let peersSec := between s "peers=[" "] pending=["
  let pendSec := between s "] pending=[" "] own=["
  let ownSec := between s "] own=[" "] next="
  let next := (between s "] next=" " rc=[").toInt?.getD 0
  let rcSec := between s " rc=[" "] drop="
  let dropSec := between s "] drop=" " claims="
  let claimsSec := between s " claims=" " cache="
  let cacheSec := ((s.splitOn " cache=").getD 1 "-")
  let peers := if peersSec = "" then [] else (peersSec.splitOn "};").filterMap parsePeerS
  let pending := if pendSec = "" then [] else (pendSec.splitOn "};").map (fun e => (e.splitOn "{").headD "")
  let pendingStage := if pendSec = "" then [] else (pendSec.splitOn "};").map (fun e => ((e.splitOn "{").headD "", (between e "init=" "/").toNat?.getD 0))
  let pendingRetries := if pendSec = "" then [] else (pendSec.splitOn "};").map (fun e =>
    ((e.splitOn "{").headD "", (((between e "init=" ",").splitOn "/").getD 1 "").toNat?.getD 0))
  let rc := if rcSec = "" then [] else (rcSec.splitOn ";").filterMap (fun e =>
    match e.splitOn "/" with
    | [a, tr, to, nx] => some (a, tr.toNat?.getD 0, to.toNat?.getD 0, nx.toInt?.getD 0)
    | _ => none)
  let (di, dout) := match dropSec.splitOn "/" with
    | [a, b] => (a.toNat?.getD 0, b.toNat?.getD 0)
    | _ => (0, 0)
  let claims := if claimsSec = "-" || claimsSec = "" then [] else (claimsSec.splitOn ",").filterMap (fun e =>
    match e.splitOn "@" with
    | [a, t] =>
      match a.splitOn ":" with
      | [p, r] => (parseRange r).map (fun r => (p, r, t.toInt?.getD 0))
      | _ => none
    | _ => none)
  let cache := if cacheSec = "-" || cacheSec = "" then [] else (cacheSec.splitOn ",").filterMap (fun e =>
    match e.splitOn "@" with
    | [a, t] =>
      match a.splitOn ":" with
      | [ad, p] => (Bytes.ofHex ad).map (fun ad => (ad, p, t.toInt?.getD 0))
      | _ => none
    | _ => none)
  { id := between s "id=" " peers=[", peers, pending, pendingStage, pendingRetries, own := if ownSec = "" then [] else ownSec.splitOn ",", next, rc,
    dropIn := di, dropOut := dout, claims, cache, raw := s }

/-- state string without the drop counters (for "left no state behind") -/
def stripDrop (s : String) : String :=
  match s.splitOn "] drop=" with
  | a :: b :: _ => a ++ "] " ++ ((b.splitOn " claims=").getD 1 "")
  | _ => s

structure Tracked where
  bytes : Bytes            -- the wire datagram
  frame : Bytes            -- the payload it carries
  src : String
  dst : String
  born : Int               -- time of emission
  delivered : Bool := false
  /-- number of housekeeping ticks the receiver had seen when it first accepted the datagram -/
  deliveredTick : Option Nat := none

structure NRef where
  nodes : List (Nat × NodeS) := []
  cfg : List (Nat × List String) := []       -- nnode arguments
  wire : List (String × String × Bytes) := []
  queue : List (String × String × Bytes) := []
  tracked : List Tracked := []
  now : Int := 0
  ticks : List (Nat × Nat) := []
  /-- handshake completions in order: (node, peer, completed as initiator) -/
  done : List (String × String × Bool) := []
  /-- datagrams sealed by a key holder with a raw plaintext (`nseal`): outside the scope of the outsider properties -/
  keyholder : List (Bytes × Bytes × Int) := []      -- (wire datagram, plaintext, time of sealing)
  marks : List (String × Nat) := []
  /-- the script declares: membership is stable and the network delivers from here on (`nexpect stable`): no peer may be timed out any more -/
  stable : Bool := false

/-- the sessions `a` and `b` hold for each other stem from the same handshake attempt: the last two completions between
    them are the initiator's (at the pong) followed by the responder's (at the peng).  While only one end has completed a
    newer attempt the other end legitimately still holds the older session. -/
def NRef.paired (r : NRef) (a b : String) : Bool :=
  let ev := r.done.filter (fun (x, y, _) => (x = a && y = b) || (x = b && y = a))
  match ev.reverse with
  | (x2, _, i2) :: (x1, _, i1) :: _ => i1 && !i2 && x1 ≠ x2
  | _ => false

def NRef.node (r : NRef) (p : Nat) : Option NodeS := (r.nodes.find? (·.1 = p)).map (·.2)
def NRef.setNode (r : NRef) (p : Nat) (n : NodeS) : NRef :=
  if r.nodes.any (·.1 = p) then { r with nodes := r.nodes.map (fun x => if x.1 = p then (p, n) else x) } else { r with nodes := r.nodes ++ [(p, n)] }
def NRef.cfgOf (r : NRef) (p : Nat) (k : String) : String := (((r.cfg.find? (·.1 = p)).map (·.2)).bind (fun fs => kvField fs k)).getD ""

def portOf (a : String) : Nat := ((a.drop 1).toString.toNat?).getD 0

/-- is a datagram byte-identical to (or, for handshake datagrams, an extension of) something genuine that was on the wire? -/
def isGenuine (r : NRef) (d : Bytes) : Bool :=
  r.wire.any (fun (_, _, w) =>
    match w with
    | 255 :: body =>
      let core := match InitMsg.readFields ((body.drop 8).length + 1) (body.drop 8) {} with
        | .ok (_, rest) => w.take (1 + body.length - rest.length + 1 + (rest.headD 0))
        | .error _ => w
      d.take core.length = core && !core.isEmpty
    | _ => d = w && !w.isEmpty)

/-- invariants that must hold in every state of every node -/
def stateChecks (n : NodeS) (now : Int) : Option String :=
  let peerNames := n.peers.map (·.addr)
  if n.claims.any (fun (p, _, _) => !peerNames.contains p) then some "C12 a claim in the table points to an address that is not a peer"
  else if n.cache.any (fun (_, p, _) => !peerNames.contains p) then some "C12 a cached / learned route points to an address that is not a peer"
  else if n.peers.any (fun p => p.nodeId = n.id) then some "C14 the node has itself as a peer"
  -- a pending attempt owns its handshake object until it completes or is given up: one without (`init=-`) can neither finish nor be retried, and blocks every later dial of that address
  else if ((between n.raw "pending=[" "] own=").splitOn "};").any (fun e => (e.splitOn "{init=-,").length > 1) then
    some "C05/C15 a pending attempt whose handshake has ended stays behind (its address can never be dialled again)"
  else if n.rc.any (fun (_, _, to, _) => to > 3600) then some "C15 reconnect back-off exceeds one hour"
  else if n.rc.any (fun (_, _, _, nx) => nx > now + 3600) then some "C15 next reconnect attempt is more than one hour away"
  else none

/-- which peers a frame read from the interface is meant for, by the node's own table (as dumped) and mode;
    result: (unicast?, peers).  unicast = a cached decision or a claim matched: exactly one of the listed (tied) peers is the next hop;
    otherwise the listed peers (all, or none) get one copy each -/
def selectedPeers (r : NRef) (port : Nat) (n : NodeS) (frame : Bytes) : Option (Bool × List String) :=
  let tap := r.cfgOf port "dev" = "tap"
  let mode := r.cfgOf port "mode"
  let (_, broadcast) := modeFlags mode tap
  let parsed := if tap then VpnCloud.Spec.C19.frameRef frame else VpnCloud.Spec.C19.packetRef frame
  match parsed with
  | none => some (false, [])
  | some (_, dst) =>
    match n.cache.find? (fun (a, _, _) => a = dst) with
    | some (_, p, _) => some (true, [p])
    | none =>
      let ms := n.claims.filter (fun (_, rg, _) => VpnCloud.Spec.C11.matchesRef rg.base rg.prefixLen dst)
      if ms.isEmpty then some (false, if broadcast then n.peers.map (·.addr) else [])
      else
        let best := ms.foldl (fun m (_, rg, _) => max m rg.prefixLen) 0
        -- any peer with a longest matching claim is acceptable
        -- (a peer that announced a range twice holds it twice in the table: one selection)
        none.orElse (fun _ => some (true, ((ms.filter (fun (_, rg, _) => rg.prefixLen = best)).map (fun (p, _, _) => p)).eraseDups))

def outsOfObs (ires : String) : List (String × String × Bytes) :=
  (parseOuts ires).map (fun (a, b, h) => (addrStr a, addrStr b, h))

def devsOfObs (ires : String) : List Bytes :=
  let inner := between ires "dev=[" "]"
  if inner = "" then [] else (inner.splitOn ";").filterMap Bytes.ofHex

def tickOf (r : NRef) (p : Nat) : Nat := ((r.ticks.find? (·.1 = p)).map (·.2)).getD 0

def sameRanges (a b : List Range) : Bool := a.all (fun x => b.contains x) && b.all (fun x => a.contains x)

/-- a message sealed by an honest key holder (`nseal`: close, keepalive, node information with arbitrary content, unknown types) arrives.
    The outsider rules do not apply; what the properties say about messages of an established peer does:
    close => the peer is gone with everything that pointed to it (C12); node information => the claims attributed to the peer are exactly the
    announced ones, all fresh (C12), addresses listed under the receiver's own identity are adopted and not dialled (C14); node information and
    keepalive refresh the peer's expiry (C15).  Applied to the first regular delivery within a second of sealing, when both ends hold
    sessions from the same handshake attempt (otherwise the message may legitimately fail to open). -/
def keyholderChecks (r : NRef) (port : Nat) (src : String) (d : Bytes) (attack : Bool) (ires istate : String) : NRef × String :=
  if ires = "lost" || ires = "filtered" || istate = "" then (r, "-") else
  match r.node port, r.keyholder.find? (·.1 = d) with
  | some before, some (_, plain, born) =>
    let after := parseNodeS istate
    let outs := outsOfObs ires
    let devs := devsOfObs ires
    let me := s!"p{port}"
    let r1 := r.setNode port after
    let r1 := { r1 with wire := r1.wire ++ outs, queue := r1.queue ++ outs }
    let ownPt : Int := ((r.cfgOf port "pt").toNat?.getD 0 : Nat)
    let applies := !attack && before.peers.any (fun p => p.addr = src && p.ready) && r.paired src me && r.now ≤ born + 1
    let verdict : Option String :=
      match stateChecks after r.now with
      | some e => some e
      | none =>
      if outs.any (fun (_, dst, b) => b.head? ≠ some 255 && dst ≠ src && !b.isEmpty) then some "C10 a received datagram caused a non-handshake datagram to a third party (relaying)"
      else if !applies then none
      else match plain with
        | 255 :: _ =>
          if after.peers.any (fun p => p.addr = src) then some "C12 a peer that sent a close message is still a peer"
          else if after.claims.any (fun (p, _, _) => p = src) || after.cache.any (fun (_, p, _) => p = src) then some "C12 routes of a peer that sent a close message survive"
          else none
        | 2 :: _ =>
          if after.peers.any (fun p => p.addr = src && p.timeout ≠ r.now + ownPt) then some "C15 a keepalive did not refresh the peer's expiry to now + the configured peer timeout" else none
        | 1 :: body =>
          match decodeNodeInfo body with
          | none => none
          | some info =>
            let mine := (after.claims.filter (fun (p, _, _) => p = src))
            if !devs.isEmpty then some "C10 node information reached the interface"
            else if !sameRanges (mine.map (fun (_, rg, _) => rg)) info.claims then
              some s!"C12 claims attributed to {src} are not exactly those of its latest announcement"
            else if mine.any (fun (_, _, to) => to ≠ r.now + ownPt) then some "C12/C15 an announced route does not expire at now + the configured peer timeout"
            else if after.peers.any (fun p => p.addr = src && p.timeout ≠ r.now + ownPt) then some "C15 node information did not refresh the peer's expiry to now + the configured peer timeout"
            else
              -- C14: entries listed under the receiver's own identity (none of whose addresses is a peer address): adopted, not dialled
              let ownEntries := info.peers.filter (fun e => (e.nodeId.map Bytes.toHex) = some before.id &&
                !(e.addrs.any (fun a => before.peers.any (fun p => p.addr = addrStr (VpnCloud.mappedAddr a)))))
              let addrs := ownEntries.flatMap (fun e => e.addrs.map (fun a => addrStr (VpnCloud.mappedAddr a)))
              -- the list of own addresses keeps the addresses as listed (an IPv4 address is not brought into its IPv6-mapped form)
              let listedAs := ownEntries.flatMap (fun e => e.addrs.map addrStr)
              if listedAs.any (fun a => !after.own.contains a) then some "C14 an address listed under the node's own identity was not adopted as own address"
              else if addrs.any (fun a => after.pending.contains a && !before.pending.contains a) then some "C14 the node dials an address listed under its own identity"
              else
                -- C14: a node that is already a peer (known node id) is not dialled under another address
                let known := info.peers.filter (fun e => match e.nodeId with
                  | some id => before.peers.any (fun p => p.nodeId = Bytes.toHex id)
                  | none => false)
                let kaddrs := known.flatMap (fun e => e.addrs.map (fun a => addrStr (VpnCloud.mappedAddr a)))
                -- addresses that some other entry (unknown node, or no node id) lists as well may be dialled because of that entry
                let other := (info.peers.filter (fun e => !known.contains e && !ownEntries.contains e)).flatMap (fun e => e.addrs.map (fun a => addrStr (VpnCloud.mappedAddr a)))
                if kaddrs.any (fun a => after.pending.contains a && !before.pending.contains a && !other.contains a) then some "C14 the node dials a node it is already connected to"
                else none
        | _ => none
    (r1, match verdict with | some e => "FAIL " ++ e | none => "ok")
  | _, _ => (r, "-")

/-- the key material part (`core=…`) of a peer's observation: changes exactly when a handshake replaces the session -/
def coreOfRaw (raw : Option String) : String :=
  match raw with
  | some s => (match s.splitOn "core=" with | _ :: rest :: _ => ((rest.splitOn ",").headD "") | _ => "-")
  | none => "?"

/-- processing of a received datagram `d` from `src` at node `port`; `tracked`: the datagram is a genuine data datagram -/
def receiveChecks (r : NRef) (port : Nat) (src : String) (d : Bytes) (attack : Bool) (ires istate : String) : NRef × String :=
  if (ires = "panic" || istate = "" && ires.startsWith "panic") && r.keyholder.any (·.1 = d) then
    -- C08 is about senders that hold no trusted key; what a key holder can do with a raw seal is recorded as an observation (DESIGN.md)
    (r, "-") else
  if r.keyholder.any (·.1 = d) then keyholderChecks r port src d attack ires istate else
  if ires = "panic" || istate = "" && ires.startsWith "panic" then (r, "FAIL C08 the node panicked on a datagram") else
  if ires = "lost" || ires = "filtered" then (r, "-") else
  match r.node port with
  | none => (r, "-")
  | some before =>
    let after := parseNodeS istate
    let outs := outsOfObs ires
    let devs := devsOfObs ires
    let genuine := isGenuine r d
    let me := s!"p{port}"
    -- (over plain sessions the copies of a flooded frame are byte-identical datagrams to different peers: prefer the one sent to this node)
    let tr := (r.tracked.find? (fun t => t.bytes = d && t.dst = me && t.src = src)).orElse (fun _ => r.tracked.find? (fun t => t.bytes = d))
    let r1 := (r.setNode port after)
    let r1 := { r1 with wire := r1.wire ++ outs, queue := r1.queue ++ outs }
    let verdict : Option String :=
      match stateChecks after r.now with
      | some e => some e
      | none =>
      -- C15: a peer's expiry is the time of its last announcement / keepalive plus the node's *own* configured peer timeout
      let ownPt : Int := ((r.cfgOf port "pt").toNat?.getD 0 : Nat)
      if after.peers.any (fun q => match before.peers.find? (fun p => p.addr = q.addr && p.nodeId = q.nodeId) with
          | some p => q.timeout ≠ p.timeout && q.timeout ≠ r.now + ownPt
          | none => q.timeout ≠ r.now + ownPt) then
        let bad := after.peers.filter (fun q => match before.peers.find? (fun p => p.addr = q.addr && p.nodeId = q.nodeId) with
          | some p => q.timeout ≠ p.timeout && q.timeout ≠ r.now + ownPt
          | none => q.timeout ≠ r.now + ownPt)
        some s!"C15 peer expiry is not last-heard time + the configured peer timeout ({bad.map (fun q => (q.addr, q.timeout))} at time {r.now}, own timeout {ownPt})"
      -- C02: a handshake datagram carries the node information in the clear only towards a node that enabled 'plain' as this node did
      else if outs.any (fun (_, dst, b) => match b with
          | 255 :: body =>
            (match InitMsg.readFields ((body.drop 8).length + 1) (body.drop 8) {} with
             | .ok (f, _) => (match f.payload.bind decodeNodeInfo with
                 | some info => Bytes.toHex info.nodeId = after.id &&
                     !(((r.cfgOf port "algos").splitOn ",").contains "plain" && ((r.cfgOf (portOf dst) "algos").splitOn ",").contains "plain") && (r.node (portOf dst)).isSome
                 | none => false)
             | .error _ => false)
          | _ => false) then some "C02 a handshake datagram carries the node information unsealed although not both ends enabled plain"
      -- C12: the routes of a peer that stays connected under the same session change only by that peer's own announcements: a datagram from another source,
      -- or a handshake datagram that does not replace the session (a failed or repeated handshake), leaves its live claims alone
      else if before.claims.any (fun (q, rg, to) => to ≥ r.now &&
          (q ≠ src || (d.head? = some 255 && coreOfRaw ((before.peers.find? (fun p => p.addr = q)).map (·.raw)) ≠ "-")) &&
          (match before.peers.find? (fun p => p.addr = q), after.peers.find? (fun p => p.addr = q) with
           | some pb, some pa => pb.nodeId = pa.nodeId && (q ≠ src || coreOfRaw (some pb.raw) = coreOfRaw (some pa.raw))
           | _, _ => false) &&
          !(after.claims.any (fun (q', rg', _) => q' = q && rg' = rg))) then
        some "C12 live routes of a peer that stays connected were dropped by a datagram that neither replaced its session nor was its announcement"
      -- C13: a learned address stays with its peer until it moves (a frame with that source from another peer), times out or the peer disconnects; an
      -- announcement of that peer flushes it only when it drops one of the peer's claims (model: announce_drop_flushes_learned)
      else if d.head? ≠ some 255 && before.cache.any (fun (a, q, to) => to ≥ r.now &&
          (match before.peers.find? (fun p => p.addr = q), after.peers.find? (fun p => p.addr = q) with
           | some pb, some pa => pb.nodeId = pa.nodeId
           | _, _ => false) &&
          !(after.cache.any (fun (a', _, to') => a' = a && to' ≥ to)) &&
          !(q = src && before.claims.any (fun (cq, rg, _) => cq = q && !(after.claims.any (fun (cq', rg', _) => cq' = q && rg' = rg))))) then
        some "C13 a learned address was forgotten although it neither moved nor timed out and its peer stayed connected"
      -- C13: hub and router modes never learn from traffic
      else if !(modeFlags (r.cfgOf port "mode") (r.cfgOf port "dev" = "tap")).1 &&
          after.cache.any (fun (a, p, _) => !(before.cache.any (fun (a', p', _) => a' = a && p' = p))) then
        some "C13 an address was learned from received traffic in a mode that never learns"
      -- C15: a peer record written by a (re-)handshake carries the timeout the peer advertises NOW (its current configuration)
      else if !attack && after.peers.any (fun q => q.addr = src && !(before.peers.any (fun p => p.addr = q.addr && p.nodeId = q.nodeId)) &&
          (r.node (portOf src)).isSome && (r.cfgOf (portOf src) "pt").toNat?.isSome && q.pt ≠ ((r.cfgOf (portOf src) "pt").toNat?.getD 0) % 65536) then
        some "C15 the timeout a peer advertises was not recorded when the handshake (re-)established it"
      -- C10: nothing received is relayed: non-handshake datagrams go back to the sender only
      else if outs.any (fun (_, dst, b) => b.head? ≠ some 255 && dst ≠ src && !b.isEmpty) then some "C10 a received datagram caused a non-handshake datagram to a third party (relaying)"
      else if tr.isSome && !outs.isEmpty then some "C10 a received payload datagram caused datagrams on the wire"
      -- C10 / C02: the interface sees only payload of an established peer, byte-identical
      else if !devs.isEmpty && (match tr with
          | some t => devs ≠ [t.frame] || !(before.peers.any (fun p => p.addr = src)) || t.dst ≠ me
          | none => true) then some "C10 interface write that is not the payload an established peer sent (or not byte-identical)"
      -- C13 / C10: in a learning mode the source address of a delivered frame is (re-)learned for the peer it came from (last writer wins)
      else if !devs.isEmpty && (modeFlags (r.cfgOf port "mode") (r.cfgOf port "dev" = "tap")).1 && (match tr with
          | some t =>
            (match (if r.cfgOf port "dev" = "tap" then VpnCloud.Spec.C19.frameRef t.frame else VpnCloud.Spec.C19.packetRef t.frame) with
             | some (sa, _) => !(after.cache.any (fun (a, p, to) => a = sa && p = src && to = r.now + ((r.cfgOf port "st").toNat?.getD 0 : Nat)))
             | none => false)
          | none => false) then some "C13/C10 the source address of a received frame was not learned for the peer it came from until now + switch timeout"
      -- C12 / C15: routes announced by a peer live until now + the node's own peer timeout
      else if genuine && !attack && after.claims.any (fun (p, rg, to) => p = src &&
          !(before.claims.any (fun (p', rg', to') => p' = p && rg' = rg && to' = to)) && to ≠ r.now + ((r.cfgOf port "pt").toNat?.getD 0 : Nat)) then
        some "C12/C15 a route announced by a peer does not expire at now + the configured peer timeout"
      else if !genuine then
        -- C08 / C01 / C09: a forged datagram leaves nothing behind
        if !outs.isEmpty then some "C01 reply to a datagram that fails verification"
        else if stripDrop after.raw ≠ stripDrop before.raw then some "C08 a datagram that fails verification left state behind"
        else none
      else if attack && !devs.isEmpty && (match tr with
          | some t => (match t.deliveredTick with | some k => tickOf r port ≥ k + 2 | none => false)
          | none => false) then
        -- C03: a datagram accepted before the tick preceding the most recent tick is dead
        some "C03 a replayed datagram was accepted although the receiver has ticked twice since it first accepted it"
      else if attack then
        -- C09: replays of genuine datagrams never cost an established connection or its routes
        let lost := before.peers.filter (fun p => !(after.peers.any (fun q => q.addr = p.addr && q.nodeId = p.nodeId)))
        if !lost.isEmpty then some s!"C09 replayed datagram removed the established peer {(lost.map (·.addr))}"
        else if before.claims.any (fun (p, rg, _) => !(after.claims.any (fun (p', rg', _) => p' = p && rg' = rg))) then some "C09 replayed datagram removed routes"
        else none
      else
        -- a genuine data datagram delivered in time to a node that has the sender as a ready peer must reach the interface exactly once
        match tr with
        | some t =>
          let fresh := !t.delivered && t.dst = me && src = t.src
          -- the receiver holds a ready session for the sender and both ends completed the same handshake attempt
          let inSync := before.peers.any (fun p => p.addr = src && p.ready) && r.paired src me
          if fresh && inSync && devs.isEmpty && r.now ≤ t.born + 1 then some "C02/C05 payload from an established peer (both ends completed their handshake) was not delivered"
          else none
        | none => none
    -- a handshake attempt with `src` completed at this node: its pending entry is gone and `src` is a peer.  Only a regular
    -- delivery can complete an attempt (a replayed or edited datagram cannot: the attempt's ephemeral keys are fresh); pending
    -- attempts that replays create and that are removed again on an error are no completions.
    let completed : List (String × String × Bool) :=
      if attack then [] else
      match before.pendingStage.find? (·.1 = src) with
      | some (_, stage) =>
        if !after.pending.contains src && after.peers.any (fun p => p.addr = src) && (stage = 2 || stage = 3) then [(me, src, stage = 2)] else []
      | none => []
    let r2 := { r1 with done := r1.done ++ completed,
                        tracked := r1.tracked.map (fun t => if t.bytes = d && !devs.isEmpty && (t.dst = me || !(r1.tracked.any (fun u => u.bytes = d && u.dst = me))) then
                          { t with delivered := true, deliveredTick := match t.deliveredTick with | some k => some k | none => some (tickOf r port) } else t) }
    (r2, match verdict with | some e => "FAIL " ++ e | none => "ok")

/-- `<idN>` inside a hex text stands for the node id of node N -/
def substIdsRef (r : NRef) (hex : String) : String :=
  match hex.splitOn "<id" with
  | [] => hex
  | first :: rest =>
    rest.foldl (fun acc piece =>
      match piece.splitOn ">" with
      | num :: tl =>
        let id := match num.toNat?.bind r.node with
          | some n => n.id
          | none => String.ofList (List.replicate 32 '0')
        acc ++ id ++ ">".intercalate tl
      | [] => acc) first

def nodeRefStep (r : NRef) (t : List String) (obs : String) : NRef × String :=
  if obs = "none-in-flight" || obs = "none-on-wire" || obs = "dropped" then
    (match t with
     | ["ndrop", k] => { r with queue := r.queue.eraseIdx (k.toNat?.getD 0) }
     | _ => r, "-")
  else
  let (ires, istate) := splitObs obs
  match (if t.head? = some "nreplay-last" then "nreplay" :: s!"w{r.wire.length - 1}" :: t.drop 1 else t) with
  | ["nseal", i, _, hex] =>
    let p := i.toNat?.getD 0
    let outs := outsOfObs ires
    let r1 := if istate = "" then r else r.setNode p (parseNodeS istate)
    let plain := (if hex = "-" then some [] else Bytes.ofHex (substIdsRef r hex)).getD []
    ({ r1 with wire := r1.wire ++ outs, queue := r1.queue ++ outs, keyholder := r1.keyholder ++ outs.map (fun (_, _, b) => (b, plain, r.now)) }, "-")
  | "nforge" :: to :: src :: _ =>
    let toks := obs.splitOn " "
    match to.toNat?, (toks.head?.bind (fun t => if t.startsWith "forged=" then Bytes.ofHex (t.drop 7).toString else none)) with
    | some port, some d =>
      let (ires', istate') := splitObs (" ".intercalate (toks.drop 1))
      receiveChecks r port src d true ires' istate'
    | _, _ => (r, "-")
  | ["nmark", name] => (if r.wire.isEmpty then r else { r with marks := (name, r.wire.length - 1) :: r.marks }, "-")
  | ["ndropfrom", i] => ({ r with queue := r.queue.filter (fun (s, _, _) => s ≠ s!"p{i}") }, "-")
  | ["ndropfrom", i, j] => ({ r with queue := r.queue.filter (fun (s, d, _) => !(s = s!"p{i}" && d = s!"p{j}")) }, "-")
  | ["nfake", i, a, pt] =>
    let p := i.toNat?.getD 0
    match r.node p with
    | some n => (r.setNode p { n with peers := n.peers ++ [{ addr := a, nodeId := "09090909090909090909090909090909", timeout := r.now + 100000, pt := pt.toNat?.getD 0, ready := true, raw := "" }] }, "-")
    | none => (r, "-")
  | ["nfake-clear", i] =>
    let p := i.toNat?.getD 0
    match r.node p with
    | some n => (r.setNode p { n with peers := n.peers.filter (fun q => q.nodeId ≠ "09090909090909090909090909090909") }, "-")
    | none => (r, "-")
  | "nnode" :: port :: fs =>
    let p := port.toNat?.getD 0
    let n := parseNodeS obs
    ({ (r.setNode p n) with cfg := (r.cfg.filter (·.1 ≠ p)) ++ [(p, fs)] }, "-")
  | ["nrestart", port] =>
    let p := port.toNat?.getD 0
    (r.setNode p (parseNodeS obs), "-")
  | ["ntime", tm] => ({ r with now := tm.toInt?.getD 0 }, "-")
  | [op, i, _] =>
    if op = "nconnect" || op = "npeer" then
      let p := i.toNat?.getD 0
      let outs := outsOfObs ires
      let after := parseNodeS istate
      let r1 := r.setNode p after
      ({ r1 with wire := r1.wire ++ outs, queue := r1.queue ++ outs },
       if obs = "panic" then "FAIL panic" else match stateChecks after r.now with | some e => "FAIL " ++ e | none => "ok")
    else if op = "nframe" then
      let p := i.toNat?.getD 0
      if obs = "panic" then (r, "FAIL the node panicked on a frame from its interface") else
      match r.node p, Bytes.ofHex (t.getD 2 "") with
      | some before, some frame =>
        let outs := outsOfObs ires
        let devs := devsOfObs ires
        let after := parseNodeS istate
        let r1 := r.setNode p after
        let newTracked := outs.map (fun (s, d, b) => ({ bytes := b, frame, src := s, dst := d, born := r.now } : Tracked))
        let r2 := { r1 with wire := r1.wire ++ outs, queue := r1.queue ++ outs, tracked := r1.tracked ++ newTracked }
        let dsts := outs.map (fun (_, d, _) => d)
        let v : Option String :=
          if !devs.isEmpty then some "C10 a frame read from the interface was written back to an interface"
          else if outs.any (fun (_, _, b) => b.head? = some 255) then none
          else if !dsts.eraseDups.length = dsts.length then some "C10 more than one copy of a frame for the same peer"
          else if dsts.any (fun d => !(before.peers.any (fun q => q.addr = d))) then some "C12 frame sent to an address that is not a peer"
          else match selectedPeers r p before frame with
            | some (unicast, sel) =>
              -- sessions that are not ready cannot be sent to: the copy for them is missing legitimately
              let selReady := sel.filter (fun a => before.peers.any (fun q => q.addr = a && q.ready))
              if unicast then
                -- unicast: exactly the next hop (any of the tied longest-prefix peers)
                if dsts.isEmpty && selReady.isEmpty then none
                else if dsts.length = 1 && sel.contains (dsts.headD "") then none
                else if sel.isEmpty && dsts.isEmpty then none
                else some s!"C11/C10 frame sent to {dsts}, the table selects {sel}"
              else if sortStrs dsts = sortStrs selReady then none
              else some s!"C10 frame sent to {dsts}, selected peers are {selReady}"
            | none => none
        (r2, match v with | some e => "FAIL " ++ e | none => match stateChecks after r.now with | some e => "FAIL " ++ e | none => "ok")
      | _, _ => (r, "-")
    else (r, "-")
  | ["nhk", i] =>
    let p := i.toNat?.getD 0
    if obs = "panic" || ires.startsWith "panic" then (r, "FAIL C15 housekeeping panicked") else
    match r.node p with
    | none => (r, "-")
    | some before =>
      let outs := outsOfObs ires
      let after := parseNodeS istate
      let r1 := r.setNode p after
      let r2 := { r1 with wire := r1.wire ++ outs, queue := r1.queue ++ outs,
                          ticks := if r1.ticks.any (·.1 = p) then r1.ticks.map (fun x => if x.1 = p then (p, x.2 + 1) else x) else r1.ticks ++ [(p, 1)] }
      let v : Option String :=
        match stateChecks after r.now with
        | some e => some e
        | none =>
          -- C15: silent peers are gone, with their routes
          if after.peers.any (fun q => q.timeout < r.now) then some "C15 a peer whose timeout has passed survived housekeeping"
          -- C15: "in a mesh with stable membership on a delivering network no healthy peer is ever timed out"
          else if r.stable && before.peers.any (fun q => q.ready && !(after.peers.any (fun q' => q'.addr = q.addr))) then
            some s!"C15 a healthy peer was timed out although membership is stable and the network delivers ({(before.peers.filter (fun q => q.ready && !(after.peers.any (fun q' => q'.addr = q.addr)))).map (·.addr)})"
          -- C15: "removed peers are re-dialled": a peer that housekeeping removes because its timeout has passed is dialled again at once (a new attempt for its address)
          else if before.peers.any (fun q => q.ready && q.timeout < r.now && !(after.peers.any (fun q' => q'.addr = q.addr)) &&
              !after.own.contains q.addr && !after.pending.contains q.addr) then
            some s!"C15 a peer removed by its timeout was not dialled again ({(before.peers.filter (fun q => q.ready && q.timeout < r.now && !(after.peers.any (fun q' => q'.addr = q.addr)) && !after.pending.contains q.addr)).map (·.addr)})"
          -- C05: an attempt that has used up its retry budget is given up at the next tick ("handshake retry horizon"); nothing of it stays behind
          else if before.pendingRetries.any (fun (a, k) => k ≥ Generated.MAX_FAILED_RETRIES &&
              after.pendingRetries.any (fun (a', k') => a' = a && k' ≥ Generated.MAX_FAILED_RETRIES)) then
            some "C05 a handshake attempt that has used up its retry budget was not given up"
          -- C09 / C15: housekeeping removes a ready peer only when its timeout has passed (a handshake attempt that is given up takes only itself away)
          else if before.peers.any (fun q => q.ready && q.timeout ≥ r.now && !(after.peers.any (fun q' => q'.addr = q.addr))) then
            some s!"C09/C15 housekeeping removed a connected peer whose timeout has not passed ({(before.peers.filter (fun q => q.ready && q.timeout ≥ r.now && !(after.peers.any (fun q' => q'.addr = q.addr)))).map (·.addr)})"
          -- C09 / C12: housekeeping removes routes only when they expire or their peer goes
          else if before.claims.any (fun (p, rg, to) => to ≥ r.now && after.peers.any (fun q => q.addr = p) &&
              !(after.claims.any (fun (p', rg', _) => p' = p && rg' = rg))) then
            some "C09/C12 housekeeping removed an unexpired route of a peer that is still connected"
          -- C15: announcement interval
          else if after.next ≠ before.next || before.next ≤ r.now then
            let d := after.next - r.now
            let advertised := after.peers.map (·.pt)
            let minAdv : Int := (advertised.foldl min (if advertised.isEmpty then 300 else 65535) : Nat)
            if d ≤ 1 ∨ d < minAdv then none
            else some s!"C15 next announcement in {d} s although a peer advertised a timeout of {minAdv} s"
          else none
      (r2, match v with | some e => "FAIL " ++ e | none => "ok")
  | op :: k :: muts =>
    if op = "ndeliver" || op = "ndup" then
      let k := k.toNat?.getD 0
      match r.queue[k]? with
      | none => (r, "-")
      | some (src, dst, data) =>
        let r1 := if op = "ndup" then r else { r with queue := r.queue.eraseIdx k }
        let d := (muts.foldlM mutateBytes data).getD data
        receiveChecks r1 (portOf dst) src d (!muts.isEmpty || op = "ndup") ires istate
    else if op = "ninject" then
      match k.toNat?, muts.head?, (muts[1]?).bind Bytes.ofHex with
      | some port, some src, some data =>
        let d := ((muts.drop 2).foldlM mutateBytes data).getD data
        receiveChecks r port src d true ires istate
      | _, _, _ => (r, "-")
    else if op = "nreplay" then
      match (if k.startsWith "m:" then r.marks.lookup (k.drop 2).toString else (k.drop 1).toString.toNat?), (muts.head?).bind String.toNat?, muts[1]? with
      | some w, some port, some src =>
        match r.wire[w]? with
        | none => (r, "-")
        | some (osrc, _, data) =>
          let d := ((muts.drop 2).foldlM mutateBytes data).getD data
          receiveChecks r port (if src = "orig" then osrc else src) d true ires istate
      | _, _, _ => (r, "-")
    else if op = "nexpect" then
      -- nexpect mesh <ports…> : all pairs mutually connected, nobody has itself as a peer
      let ports := muts.filterMap String.toNat?
      let missing := ports.flatMap (fun a => ports.filterMap (fun b =>
        if a = b then none else
        match r.node a with
        | some n => if n.peers.any (fun q => q.addr = s!"p{b}" && q.ready) then none else some s!"{a}->{b}"
        | none => some s!"{a}->{b}"))
      if k = "stable" then ({ r with stable := true }, "ok") else
      if k = "keychange" then
        -- nexpect keychange <a> <b> <from>: payload datagrams a -> b emitted at or after time <from> were sealed under at least two different key ids
        match muts with
        | [a, b, since] =>
          let ids := ((r.tracked.filter (fun t => t.src = s!"p{a}" && t.dst = s!"p{b}" && t.born ≥ (since.toInt?.getD 0))).map (fun t => t.bytes.headD 0)).eraseDups
          (r, if ids.length ≥ 2 then "ok" else s!"FAIL C07 sealing key of {a}->{b} was not replaced since t={since}: key ids in use {ids}")
        | _ => (r, "-")
      else if k = "own" then
        -- nexpect own <port> <addr>: an address that a peer listed under the node's own identity has been adopted as own
        match muts with
        | [p, a] =>
          match r.node (p.toNat?.getD 0) with
          | some n => (r, if n.own.contains a then "ok" else s!"FAIL C14 address {a} listed under the node's own identity was not adopted as own address")
          | none => (r, "-")
        | _ => (r, "-")
      else if k = "notpending" then
        -- nexpect notpending <port> <addr>: the node does not dial that address
        match muts with
        | [p, a] =>
          match r.node (p.toNat?.getD 0) with
          | some n => (r, if n.pending.contains a then s!"FAIL C14 the node dials {a}, an address of its own" else "ok")
          | none => (r, "-")
        | _ => (r, "-")
      else
      (r, if missing.isEmpty then "ok" else s!"FAIL C05/C14 {k} not fully meshed: missing {missing}")
    else (r, "-")
  | _ => (r, "-")

end Driver
