import VpnCloud.Model.Core
import VpnCloud.Spec.CoreRef
import Driver.B62Suite
/-
  Driver glue for the suite `core`.
-/
namespace Driver
open VpnCloud VpnCloud.Spec

structure CoreSt where
  cores : List Core := []
  dgrams : List Dgram := []
  keyNames : List String := ["k0", "dummy-a", "dummy-b"]
  ref : CoreRef.RState := {}

def sideIdx (s : String) : Option Nat := if s = "a" then some 0 else if s = "b" then some 1 else none

def nonceOfHex (h : String) : Option Nat := (Bytes.ofHex h).map Bytes.beVal
def nonceHex (n : Nat) : String := Bytes.toHex (Bytes.ofBE 12 n)

def keyRefOf (st : CoreSt) (name : String) : CoreSt × Nat :=
  match st.keyNames.idxOf? name with
  | some i => (st, i)
  | none => ({ st with keyNames := st.keyNames ++ [name] }, st.keyNames.length)

/-- structural counterpart of the byte-level mutation operators of the Rust driver; returns the
    mutated datagram and whether anything changed -/
def applyMut (d : Dgram) (m : String) : Option (Dgram × Bool) :=
  let total := d.len
  if m.startsWith "flip=" then do
    let bit ← (m.drop 5).toString.toNat?
    let i := bit / 8
    if i ≥ total then pure (d, false)
    else if i < d.hdr.length then
      let b := d.hdr.getD i 0
      pure ({ d with hdr := d.hdr.set i (b ^^^ (128 >>> (bit % 8))) }, true)
    else pure ({ d with body := .garbage d.body.len }, true)
  else if m.startsWith "trunc=" then do
    let l ← (m.drop 6).toString.toNat?
    if l ≥ total then pure (d, false)
    else if l ≤ d.hdr.length then pure ({ hdr := d.hdr.take l, body := .garbage 0 }, true)
    else pure ({ d with body := .garbage (l - d.hdr.length) }, true)
  else if m.startsWith "set=" then
    match (m.drop 4).toString.splitOn ":" with
    | [p, v] => do
      let p ← p.toNat?
      let v ← v.toNat?
      if p < d.hdr.length then
        pure ({ d with hdr := d.hdr.set p v }, d.hdr.getD p 0 ≠ v)
      else none     -- the generator only overwrites header bytes (ciphertext bytes are unknown to the model)
    | _ => none
  else if m.startsWith "app=" then do
    let b ← Bytes.ofHex (m.drop 4).toString
    if b.isEmpty then pure (d, false)
    else if d.hdr.length < 8 then
      -- extending a datagram shorter than the header: the new bytes complete the header
      let h := d.hdr ++ b
      pure ({ hdr := h.take 8, body := .garbage (h.length - (h.take 8).length) }, true)
    else pure ({ d with body := .garbage (d.body.len + b.length) }, true)
  else none

def applyMuts (d : Dgram) : List String → Option (Dgram × Bool)
  | [] => some (d, false)
  | m :: ms => do
    let (d1, c1) ← applyMut d m
    let (d2, c2) ← applyMuts d1 ms
    pure (d2, c1 || c2)

def slotView (k : SlotKey) : String :=
  s!"{nonceHex k.send}/{nonceHex k.min}/{nonceHex k.nextMin}/{nonceHex k.seen}"

def coreStep (st : CoreSt) (t : List String) (implObs : String) : Option (CoreSt × String × String) :=
  match t with
  | ["inc", h] =>
    match Bytes.ofHex h with
    | some n =>
      let m := Bytes.toHex (Nonce.increment n)
      let s := Bytes.toHex (Bytes.ofBE 12 ((Bytes.beVal n + 1) % 2 ^ 96))
      some (st, m, if s = implObs then "ok" else s!"FAIL expected={s}")
    | none => some (st, "bad-op", "-")
  | ["cnew", _algo] =>
    -- start nonces are random: observed
    let parse (f : String) : Option (List Nat) := (field implObs f).bind (fun v => (v.splitOn ",").mapM nonceOfHex)
    match parse "a", parse "b" with
    | some sa, some sb =>
      let lo (n : Nat) := n % 2 ^ 48
      let a := Core.new 0 true 1 (sa.map lo)
      let b := Core.new 0 false 2 (sb.map lo)
      let obs := s!"a={",".intercalate (a.slots.map (fun k => nonceHex k.send))} b={",".intercalate (b.slots.map (fun k => nonceHex k.send))}"
      some ({ cores := [a, b], ref := CoreRef.init }, obs, "-")
    | _, _ => some (st, "unparsable-observation", "-")
  | "seal" :: s :: p :: _ =>
    match sideIdx s, Bytes.ofHex p with
    | some i, some plain =>
      match st.cores[i]? with
      | none => some (st, "bad-op", "-")
      | some c =>
        let (c', d) := c.encrypt plain
        let id := st.dgrams.length
        let sendNow := (c'.slots[c'.cur]?.map (·.send)).getD 0
        let obs := s!"d{id} hdr={Bytes.toHexOrDash d.hdr} len={d.len} nonce={nonceHex sendNow}"
        -- spec: evaluated on the implementation's observation
        let (ref', sv) :=
          match (field implObs "hdr").bind Bytes.ofHex, (field implObs "len").bind String.toNat?, (field implObs "nonce").bind nonceOfHex with
          | some hdr, some len, some nonce =>
            let (r, p) := CoreRef.sealStep st.ref i plain hdr len nonce
            (r, match p with | none => "ok" | some why => s!"FAIL {why}")
          | _, _, _ => (st.ref, if implObs = "panic" then "FAIL panic" else "FAIL unparsable")
        some ({ st with cores := st.cores.set i c', dgrams := st.dgrams ++ [d], ref := ref' }, obs, sv)
    | _, _ => some (st, "bad-op", "-")
  | "deliver" :: d :: s :: muts =>
    match (d.drop 1).toString.toNat?, sideIdx s with
    | some id, some i =>
      match st.dgrams[id]?, st.cores[i]? with
      | some dg, some c =>
        match applyMuts dg muts with
        | none => some (st, "bad-op", "-")
        | some (dg', changed) =>
          let (c', r) := c.decrypt dg'
          let obs := match r with | .ok p => "ok:" ++ Bytes.toHexOrDash p | .error _ => "err"
          -- spec
          let (ref', sv) :=
            match st.ref.dgrams[id]? with
            | none => (st.ref, "-")
            | some rd =>
              let exp := CoreRef.expected st.ref rd i changed
              let want := match exp with | some p => "ok:" ++ Bytes.toHexOrDash p | none => "err"
              let ref' := if implObs.startsWith "ok:" then CoreRef.recordAccept st.ref i (dg'.keyId) rd.nonce else st.ref
              (ref', if implObs = want then "ok" else s!"FAIL expected={want}")
          some ({ st with cores := st.cores.set i c', ref := ref' }, obs, sv)
      | _, _ => some (st, "bad-op", "-")
    | _, _ => some (st, "bad-op", "-")
  | ["forge", s, kid, _, _] =>
    -- a datagram sealed under a key of the outsider's choice: to the ideal AEAD it is garbage whatever slot it names
    match sideIdx s, kid.toNat? with
    | some i, some kid =>
      match st.cores[i]? with
      | some c =>
        let (c', r) := c.decrypt { hdr := kid :: [0, 255, 255, 255, 255, 255, 255], body := .garbage 17 }
        let obs := match r with | .ok p => "ok:" ++ Bytes.toHexOrDash p | .error _ => "err"
        some ({ st with cores := st.cores.set i c' }, obs,
              if implObs = "err" then "ok" else "FAIL C02 a datagram sealed under a key that was never agreed (outsider-chosen key for an unused slot) was accepted")
      | none => some (st, "bad-op", "-")
    | _, _ => some (st, "bad-op", "-")
  | ["tick", s] =>
    match sideIdx s with
    | some i =>
      match st.cores[i]? with
      | some c => some ({ st with cores := st.cores.set i c.everySecond, ref := CoreRef.tick st.ref i }, "ok", "-")
      | none => some (st, "bad-op", "-")
    | none => some (st, "bad-op", "-")
  | ["rotate", s, id, use, key] =>
    match sideIdx s, id.toNat?, (field implObs "start").bind nonceOfHex with
    | some i, some id, some start =>
      match st.cores[i]? with
      | some c =>
        let (st1, kr) := keyRefOf st key
        let c' := c.rotateKey kr id (use = "1") (start % 2 ^ 48)
        let obs := s!"start={nonceHex ((c'.slots[id % 4]?.map (·.send)).getD 0)}"
        -- C04: a rotated-in key starts a fresh sequence at an unpredictable value: the implementation's start value must not be
        -- the counter the replaced key of that slot had reached (a fresh 48-bit random value coincides with probability 2^-48)
        let oldSend := (c.slots[id % 4]?.map (·.send)).getD 0
        let sv := if start = oldSend then "FAIL C04 rotated-in key continues the nonce sequence of the key it replaced (start value is not fresh)" else "ok"
        some ({ st1 with cores := st1.cores.set i c', ref := CoreRef.rotate st1.ref i id (use = "1") key }, obs, sv)
      | none => some (st, "bad-op", "-")
    | _, _, _ => some (st, "bad-op", "-")
  | ["setsend", s, slot, n] =>
    match sideIdx s, slot.toNat?, nonceOfHex n with
    | some i, some slot, some n =>
      match st.cores[i]? with
      | some c =>
        match c.slots[slot]? with
        | some k => some ({ st with cores := st.cores.set i { c with slots := c.slots.set slot { k with send := n } } }, "ok", "-")
        | none => some (st, "bad-op", "-")
      | none => some (st, "bad-op", "-")
    | _, _, _ => some (st, "bad-op", "-")
  | ["view", s] =>
    match sideIdx s with
    | some i =>
      match st.cores[i]? with
      | some c => some (st, s!"cur={c.cur} half={if c.half then 1 else 0} slots={",".intercalate (c.slots.map slotView)}", "-")
      | none => some (st, "bad-op", "-")
    | none => some (st, "bad-op", "-")
  | _ => none

end Driver
