import VpnCloud.Generated.ConfigRules
import VpnCloud.Spec.C20
import Driver.CodecSuite
/-
  Driver glue for the suite `config` (C20).
-/
namespace Driver
open VpnCloud VpnCloud.Config VpnCloud.Spec.C20

def parseAssign (s : String) : List (String × String) :=
  if s = "-" then [] else
  (s.splitOn ";").filterMap (fun kv => match kv.splitOn "=" with
    | k :: rest => if rest.isEmpty then none else some (k, "=".intercalate rest)
    | [] => none)

def fileSource (a : List (String × String)) : Source :=
  a.filterMap (fun (k, v) =>
    match docTable.find? (fun e => e.name = k) with
    | none => none
    | some e =>
      some (e.fileKey, match e.kind with
        | .accumulate | .replaceList => .list (if v = "" then [] else v.splitOn ",")
        | .switchOn | .switchOff => .flag (v = "true")
        | .hookMap => .map ((v.splitOn ",").filterMap (fun kv => match kv.splitOn ":" with
            | k :: rest => if rest.isEmpty then none else some (k, ":".intercalate rest)
            | [] => none))
        | _ => .str v))

def argSource (a : List (String × String)) : Source :=
  a.filterMap (fun (k, v) =>
    match docTable.find? (fun e => e.argKey = k || e.name = k) with
    | none => none
    | some e =>
      -- `%2C` stands for a comma inside one value
      if k = "hook" then some ("hook", .list ((v.splitOn ",").map (fun x => x.replace "%2C" ","))) else
      some (e.argKey, match e.kind with
        | .accumulate | .replaceList => .list (v.splitOn ",")
        | .switchOn | .switchOff => .flag (v = "true")
        | _ => .str v))

def dvalStr : DVal → String
  | .scalar s => s
  | .opt none => "none"
  | .opt (some s) => s!"some:{s}"
  | .list l => if l.isEmpty then "-" else ",".intercalate l
  | .flag b => if b then "true" else "false"
  | .map m => if m.isEmpty then "-" else ",".intercalate (sortStrs (m.map (fun (k, v) => s!"{k}:{v}")))
  where sortStrs (l : List String) : List String := l.foldr (fun s acc => ins s acc) []
        ins (s : String) : List String → List String
          | [] => [s]
          | x :: xs => if s < x then s :: x :: xs else x :: ins s xs

def cfgStr (c : List (String × DVal)) : String := ";".intercalate (c.map (fun (k, v) => s!"{k}={dvalStr v}"))

def parseU8 (s : String) : Option Nat :=
  let t := if s.startsWith "+" then (s.drop 1).toString else s
  if t.isEmpty || !t.all Char.isDigit then none else
  match t.toNat? with
  | some n => if n ≤ 255 then some n else none
  | none => none

def parseIpv4 (s : String) : Option (List Nat) :=
  let parts := s.splitOn "."
  if parts.length ≠ 4 then none else
  parts.mapM (fun p =>
    if p.isEmpty || p.length > 3 || !p.all Char.isDigit || (p.length > 1 && p.startsWith "0") then none
    else match p.toNat? with | some n => if n ≤ 255 then some n else none | none => none)

def configStep (t : List String) (implObs : String) : Option (String × String) :=
  match t with
  | [op, f, a] =>
    if op = "cfgmerge" || op = "cfgrt" then
      if implObs.startsWith "yaml-error" || implObs.startsWith "argv-error" then some (implObs, "-") else
      let file := fileSource (parseAssign f)
      let args := argSource (parseAssign a)
      let eff := merge Generated.configRules file args
      let spec := specMerge file args
      if op = "cfgmerge" then
        some (cfgStr eff, if implObs = "panic" then "FAIL panic" else if implObs = cfgStr spec then "ok" else s!"FAIL C20 documented combination is {cfgStr spec}")
      else
        let rt := merge Generated.configRules (intoFile Generated.configRules eff) []
        let m := s!"eff={cfgStr eff} rt={cfgStr rt}"
        -- C20: the file form reproduces every setting the file format can express
        let implEff := (field implObs "eff").getD ""
        let implRt := (field implObs "rt").getD ""
        let expressible (s : String) : List String := (s.splitOn ";").filter (fun kv => !kv.startsWith "daemonize=")
        some (m, if implObs = "panic" then "FAIL panic"
                 else if implEff ≠ cfgStr spec then s!"FAIL C20 documented combination is {cfgStr spec}"
                 else if expressible implRt = expressible implEff then "ok" else "FAIL C20 the file form does not reproduce the effective configuration")
    else none
  | ["cfgdefault"] =>
    let d := merge Generated.configRules [] []
    some (cfgStr d, if implObs = cfgStr (specMerge [] []) then "ok" else "FAIL C20 defaults differ from the documented defaults")
  | ["netmask", h] =>
    match utf8Text h with
    | none => some ("bad-op", "-")
    | some cs =>
      let text := String.ofList cs
      let (ipS, lenS) := match text.splitOn "/" with
        | [ip] => (ip, "24")
        | ip :: rest => (ip, "/".intercalate rest)
        | [] => ("", "24")
      let dotted (v : Nat) : String := s!"{v / 16777216 % 256}.{v / 65536 % 256}.{v / 256 % 256}.{v % 256}"
      let model := match parseU8 lenS with
        | none => "err"
        | some p =>
          match netmaskBits p with
          | none => "err"
          | some bits =>
            match parseIpv4 ipS with
            | none => "err"
            | some ip => s!"ok:{".".intercalate (ip.map toString)}:{dotted bits}"
      let spec := match parseU8 lenS, parseIpv4 ipS with
        | some p, some ip => (match netmaskRef p with
            | some bits => s!"ok:{".".intercalate (ip.map toString)}:{dotted bits}"
            | none => "err")
        | _, _ => "err"
      some (model, if implObs = "panic" then "FAIL C20 parse_ip_netmask panicked" else if implObs = spec then "ok" else s!"FAIL C20 expected {spec}")
  | _ => none

end Driver
