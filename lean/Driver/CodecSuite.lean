import VpnCloud.Model.NodeInfo
import VpnCloud.Spec.C16
import Driver.TableSuite
import Driver.B62Suite
/-
  Driver glue for the suite `codec` (C16).
-/
namespace Driver
open VpnCloud VpnCloud.Codec VpnCloud.Spec

def sockStr : SockAddr → String
  | .v4 ip port => s!"4:{Bytes.toHexOrDash ip}:{port}"
  | .v6 ip port => s!"6:{Bytes.toHexOrDash ip}:{port}"

def parseSock (s : String) : Option SockAddr :=
  match s.splitOn ":" with
  | [f, ip, port] => do
    let ip ← Bytes.ofHex ip
    let port ← port.toNat?
    if f = "4" && ip.length = 4 then some (.v4 ip port)
    else if f = "6" && ip.length = 16 then some (.v6 ip port)
    else none
  | _ => none

def parseSocks (s : String) : Option (List SockAddr) :=
  if s = "-" then some [] else (s.splitOn ",").mapM parseSock

def socksStr (l : List SockAddr) : String := if l.isEmpty then "-" else ",".intercalate (l.map sockStr)

def parsePeerInfo (s : String) : Option PeerInfo :=
  match s.splitOn "@" with
  | [nid, addrs] => do
    let nodeId ← if nid = "-" then some none else (Bytes.ofHex nid).map some
    let addrs ← parseSocks addrs
    pure { nodeId, addrs }
  | _ => none

def kvField (fs : List String) (k : String) : Option String :=
  fs.findSome? (fun f => if f.startsWith (k ++ "=") then some (f.drop (k.length + 1)).toString else none)

def parseNodeInfo (fs : List String) : Option NodeInfo := do
  let nodeId ← (kvField fs "id").bind Bytes.ofHex
  let ps ← kvField fs "peers"
  let peers ← if ps = "-" then some [] else (ps.splitOn ";").mapM parsePeerInfo
  let claims ← (kvField fs "claims").bind parseRanges
  let to ← kvField fs "timeout"
  let peerTimeout ← if to = "-" then some none else to.toNat?.map some
  let addrs ← (kvField fs "addrs").bind parseSocks
  pure { nodeId, peers, claims, peerTimeout, addrs }

def nodeInfoStr (n : NodeInfo) (sep : String) : String :=
  let peers := n.peers.map (fun p => s!"{match p.nodeId with | some i => Bytes.toHexOrDash i | none => "-"}@{socksStr p.addrs}")
  let claims := n.claims.map rangeStr
  sep.intercalate [s!"id={Bytes.toHexOrDash n.nodeId}",
    s!"peers={if peers.isEmpty then "-" else ";".intercalate peers}",
    s!"claims={if claims.isEmpty then "-" else ",".intercalate claims}",
    s!"timeout={match n.peerTimeout with | some t => toString t | none => "-"}",
    s!"addrs={socksStr n.addrs}"]

def decStr (o : Option NodeInfo) : String :=
  match o with
  | some n => "ok:" ++ nodeInfoStr n "|"
  | none => "err"

def codecStep (t : List String) (implObs : String) : Option (String × String) :=
  match t with
  | "ni-rt" :: fs =>
    match parseNodeInfo fs with
    | none => some ("bad-op", "-")
    | some n =>
      let enc := encodeNodeInfo n
      let m := s!"enc={Bytes.toHexOrDash enc} dec={decStr (decodeNodeInfo enc)}"
      -- C16: decodes to exactly what was encoded, up to the format's normalisation
      let want := decStr (some (C16.normalise n))
      let sv := if implObs = "panic" then "FAIL panic"
        else if !C16.WF n then "-"
        else if field implObs "dec" = some want then "ok" else s!"FAIL round trip: expected dec={want}"
      some (m, sv)
  | "ni-unk" :: pos :: tag :: body :: fs =>
    match pos.toNat?, tag.toNat?, Bytes.ofHex body, parseNodeInfo fs with
    | some pos, some tag, some body, some n =>
      let parts := C16.partsOf n
      let k := pos % parts.length
      let enc := C16.insertPart parts k (tag :: (Bytes.ofU16 body.length ++ body))
      let m := s!"dec={decStr (decodeNodeInfo enc)}"
      let want := decStr (some (C16.normalise n))
      let sv := if implObs = "panic" then "FAIL panic"
        else if !C16.WF n then "-"
        else if field implObs "dec" = some want then "ok" else s!"FAIL unknown part not skipped: expected dec={want}"
      some (m, sv)
    | _, _, _, _ => some ("bad-op", "-")
  | ["ni-dec", h] =>
    match Bytes.ofHex h with
    | none => some ("bad-op", "-")
    | some b => some (decStr (decodeNodeInfo b), if implObs = "panic" then "FAIL panic" else "ok")
  | ["range-dec", h] =>
    match Bytes.ofHex h with
    | none => some ("bad-op", "-")
    | some b =>
      let m := match readRange b with | some (r, _) => "ok:" ++ rangeStr r | none => "err"
      some (m, if implObs = "panic" then "FAIL panic" else "ok")
  | ["range-enc", r] =>
    match parseRange r with
    | none => some ("bad-op", "-")
    | some r =>
      let enc := writeRange r
      -- round trip of the range codec
      let sv := match Bytes.ofHex implObs with
        | some b => if (readRange b).map (·.1) = some r then "ok" else "FAIL range round trip"
        | none => "FAIL unparsable"
      some (Bytes.toHexOrDash enc, if C16.rangeWF r then sv else "-")
  | ["rm-dec", h] =>
    match Bytes.ofHex h with
    | none => some ("bad-op", "-")
    | some b =>
      let m := match readRotMsg b with
        | some m => s!"ok:id={m.id}|p={Bytes.toHexOrDash m.propose}|c={match m.confirm with | some c => Bytes.toHexOrDash c | none => "none"}"
        | none => "err"
      -- C16 "decode to exactly what was encoded", stated on the bytes: id = the first 8 bytes; then one length byte and that many bytes of the
      -- proposed key; then one length byte and that many bytes of the confirmed key (absent iff the length is 0); error iff the input is shorter
      let specDec : Option (Nat × Bytes × Option Bytes) :=
        if b.length < 9 then none else
        let pl := b.getD 8 0
        if b.length < 9 + pl + 1 then none else
        let cl := b.getD (9 + pl) 0
        if b.length < 10 + pl + cl then none else
        some (Bytes.beVal (b.take 8), (b.drop 9).take pl, if cl = 0 then none else some ((b.drop (10 + pl)).take cl))
      let want := match specDec with
        | some (id, p, c) => s!"ok:id={id}|p={Bytes.toHexOrDash p}|c={match c with | some c => Bytes.toHexOrDash c | none => "none"}"
        | none => "err"
      some (m, if implObs = "panic" then "FAIL panic" else if (implObs.splitOn " alloc=").headD "" = want then "ok"
               else "FAIL C16 rotation message does not decode to the key lengths and bytes it carries")
  | _ => none

end Driver
