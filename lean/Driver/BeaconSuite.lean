import VpnCloud.Model.Beacon
import VpnCloud.Spec.C17
import Driver.Sha512
import Driver.CodecSuite
/-
  Driver glue for the suite `beacon` (C17).
-/
namespace Driver
open VpnCloud VpnCloud.Beacon VpnCloud.Codec VpnCloud.Spec

def beaconEnv (key : Bytes) : BeaconEnv :=
  { ks := fun t s i => Sha512.sha512 ([t, s, i] ++ key),
    h0 := fun d => (Sha512.sha512 d).headD 0 }

def interleave (text : List Char) (mode : Nat) : List Char :=
  (text.zipIdx.flatMap (fun (p : Char × Nat) =>
    let (c, i) := p
    if mode = 1 && i % 5 = 4 then [c, '-']
    else if mode = 2 && i % 7 = 6 then [c, '\n', ' ']
    else if mode = 3 then [c, ['.', ' ', '_', '/', '+', '=', '\t'].getD (i % 7) '.']
    else if mode = 4 then [c, [Char.ofNat 0, Char.ofNat 127, Char.ofNat 11, Char.ofNat 1, '~', '|', Char.ofNat 31].getD (i % 7) '.']
    else [c]))

def ttlOf (s : String) : Option (Option Nat) := if s = "-" then some none else s.toNat?.map some

def beaconStep (t : List String) (implObs : String) : Option (String × String) :=
  match t with
  | ["benc", pw, hour, socks] =>
    match Bytes.ofHex pw, hour.toNat?, parseSocks socks with
    | some pw, some hour, some peers =>
      let env := beaconEnv pw
      let text := (encode env peers (hour % 65536)).getD ['!']
      some (s!"text={String.ofList text} begin={String.ofList (beginMarker env)} end={String.ofList (endMarker env)}", if implObs = "panic" then "FAIL panic" else "-")
    | _, _, _ => some ("bad-op", "-")
  | ["bdec", pw, now, ttl, text, lists] =>
    -- the text is said to contain the beacons of these peer lists (`;`-separated), made with this password at hour `now`.  Every list whose beacon
    -- — as the model's encoder writes it — really is a part of the text must be among the extracted peers, whatever surrounds or overlaps it (C17)
    match Bytes.ofHex pw, now.toNat?, ttlOf ttl, utf8Text text with
    | some pw, some now, some ttl, some text =>
      let env := beaconEnv pw
      let implGot := ((field implObs "got").bind parseSocks).getD []
      let infixC (l big : List Char) : Bool := (List.range (big.length + 1)).any (fun i => (big.drop i).take l.length = l)
      let missing := ((lists.splitOn ";").filterMap parseSocks).filter (fun peers =>
        !peers.isEmpty && peers.all C17.sockWF &&
        (match encode env peers (now % 65536) with
         | some b => infixC b text
         | none => false) &&
        (encryptData env (plainBody peers (now % 65536))).headD 1 ≠ 0 &&
        !C17.isInfix (C17.normPeers peers) implGot)
      some (s!"got={socksStr (decode env text ttl (now % 65536))}",
        if implObs = "panic" then "FAIL C17 beacon extraction panicked"
        else if missing.isEmpty then "ok" else s!"FAIL C17 a beacon contained in the text was not found ({missing.length} of the embedded peer lists missing)")
    | _, _, _, _ => some ("bad-op", "-")
  | ["bdec", pw, now, ttl, text] =>
    match Bytes.ofHex pw, now.toNat?, ttlOf ttl, utf8Text text with
    | some pw, some now, some ttl, some text =>
      let env := beaconEnv pw
      some (s!"got={socksStr (decode env text ttl (now % 65536))}", if implObs = "panic" then "FAIL C17 beacon extraction panicked" else "ok")
    | _, _, _, _ => some ("bad-op", "-")
  | ["brt", pw1, pw2, hour, now, ttl, socks, pre, mode, post] =>
    match Bytes.ofHex pw1, Bytes.ofHex pw2, hour.toNat?, now.toNat?, ttlOf ttl, parseSocks socks, utf8Text pre, mode.toNat?, utf8Text post with
    | some pw1, some pw2, some hour, some now, some ttl, some peers, some pre, some mode, some post =>
      let env1 := beaconEnv pw1
      let env2 := beaconEnv pw2
      let beacon := (encode env1 peers (hour % 65536)).getD ['!']
      let text := pre ++ interleave beacon mode ++ post
      let got := decode env2 text ttl (now % 65536)
      let m := s!"text={String.ofList beacon} got={socksStr got}"
      -- C17 on the implementation's answer
      let implGot := ((field implObs "got").bind parseSocks).getD []
      let masked := encryptData env1 (plainBody peers (hour % 65536))
      let sv :=
        if implObs = "panic" then "FAIL C17 beacon extraction panicked"
        else if !(peers.all C17.sockWF) || (peers.filter isV4).length > 255 then "-"
        else if pw1 = pw2 then
          if C17.ageOk (now % 65536) (hour % 65536) ttl then
            if C17.isInfix (C17.normPeers peers) implGot then "ok"
            else if masked.headD 1 = 0 then "FAIL C17 [masked-body-leading-zero] beacon not recovered"
            else "FAIL C17 beacon not recovered by a reader with the same password"
          else if C17.isInfix (C17.normPeers peers) implGot && !peers.isEmpty then "FAIL C17 beacon accepted although its age exceeds the limit"
          else "ok"
        else
          -- a different password: ignored (unless the random surroundings happen to contain that reader's markers)
          if implGot.isEmpty then "ok" else "FAIL C17 beacon made with a different password was not ignored"
      some (m, sv)
    | _, _, _, _, _, _, _, _, _ => some ("bad-op", "-")
  | _ => none

end Driver
