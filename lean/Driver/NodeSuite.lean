import VpnCloud.Model.Node
import Driver.InitSuite
/-
  Driver glue for the suite `node`: whole nodes in a simulated network, next to the real
  `GenericCloud` over the mock socket / device / clock.
-/
namespace Driver
open VpnCloud VpnCloud.Node VpnCloud.Codec

def portAddr (p : Nat) : NAddr := .v6 (List.replicate 16 0) p

def addrStr : NAddr → String
  | .v6 ip port => if ip = List.replicate 16 0 then s!"p{port}" else sockStr (.v6 ip port)
  | a => sockStr a

def parseNAddr (s : String) : Option NAddr :=
  if s.startsWith "p" then (s.drop 1).toString.toNat?.map portAddr else parseSock s

structure NSt where
  keys : List Bytes := []
  nodes : List (Nat × Node) := []
  queue : List (NAddr × NAddr × Bytes) := []
  wire : List (NAddr × NAddr × Bytes) := []
  now : Int := 0
  sigLog : List (Bytes × Bytes × Bytes) := []
  sealLog : List (Bytes × Body) := []
  /-- address-filtering NAT of the mock socket (part of the simulated network, not of vpncloud): nodes behind a NAT and, per such node,
      the addresses it has sent to with the time until which answers are let through -/
  natNodes : List Nat := []
  natSeen : List (Nat × NAddr × Int) := []
  args : List (Nat × List String) := []
  marks : List (String × Nat) := []

def NSt.env (st : NSt) : CryptoEnv :=
  { keyHash := fun pk salt => (Sha256.sha256 (pk ++ salt)).take 4,
    nodeHash := fun salt id => (Sha256.sha256 (salt ++ id)).take 16,
    sigVerify := fun pk m s => st.sigLog.contains (pk, m, s) }

def NSt.bodyOf (st : NSt) : Init.BodyOf := fun ct =>
  match st.sealLog.lookup ct with
  | some b => b
  | none => .garbage ct.length

/-! ### parsing the implementation's observation -/

/-- `out=[a>b:hex;…]` -/
def parseOuts (obs : String) : List (NAddr × NAddr × Bytes) :=
  match (obs.splitOn "out=[") with
  | _ :: rest :: _ =>
    let inner := (rest.splitOn "]").headD ""
    if inner = "" then [] else
    (inner.splitOn ";").filterMap (fun e =>
      -- `src>dst:hex`; an address may itself contain colons (`6:<hex ip>:<port>`): the datagram is what follows the last one
      let parts := e.splitOn ":"
      match parts.getLast?, (":".intercalate parts.dropLast).splitOn ">" with
      | some h, [a, b] => do
        let a ← parseNAddr a; let b ← parseNAddr b; let h ← Bytes.ofHex h
        pure (a, b, h)
      | _, _ => none)
  | _ => []

structure SessView where
  prop : Nat := 0
  pend : Nat := 0
  sends : List Nat := []

/-- session views by address from `peers=[…]` (preferred) and `pending=[…]` of a state string -/
def parseSessions (state : String) : List (NAddr × SessView) :=
  let sect (key : String) : String :=
    match state.splitOn (key ++ "=[") with
    | _ :: rest :: _ =>
      -- the section ends at the first "] " that is followed by the next key
      (rest.splitOn (if key = "peers" then "] pending=[" else "] own=[")).headD ""
    | _ => ""
  let parseEntries (sec : String) : List (NAddr × SessView) :=
    if sec = "" then [] else
    (sec.splitOn "};").filterMap (fun e0 =>
      let e := if e0.endsWith "}" then (e0.dropEnd 1).toString else e0
      match e.splitOn "{" with
      | a :: body :: _ =>
        match parseNAddr a with
        | none => none
        | some a =>
          let rot := ((body.splitOn "rot=").getD 1 "").splitOn "," |>.headD "-"
          let core := (body.splitOn "core=").getD 1 "-"
          let r := parseObsRot rot
          let c := parseObsCore core
          some (a, { prop := (r.bind (·.prop)).getD 0, pend := (r.bind (·.pend)).getD 0,
                     sends := (c.map (fun (o : ObsCore) => o.sends)).getD [] })
      | _ => none)
  parseEntries (sect "peers") ++ parseEntries (sect "pending")

def mkOracle (outs : List (NAddr × NAddr × Bytes)) (views : List (NAddr × SessView)) (dummy : KeyRef) : Oracle :=
  { emitted := fun a k => (((outs.filter (fun (p : NAddr × NAddr × Bytes) => p.2.1 = a)).map (·.2.2))[k]?).getD [],
    rotProp := fun a => ((views.find? (·.1 = a)).map (·.2.prop)).getD 0,
    rotPend := fun a => ((views.find? (·.1 = a)).map (·.2.pend)).getD 0,
    starts := fun a => (((views.find? (·.1 = a)).map (·.2.sends)).getD []).map (· % 2 ^ 95),
    dummy }

/-! ### rendering -/

def peerEntry (a : NAddr) (p : Peer) : String :=
  s!"{addrStr a}\{{Bytes.toHexOrDash p.nodeId},{p.timeout},{p.peerTimeout},{"+".intercalate (p.addrs.map addrStr)},{(pcState p.crypto).replace " " ","}}"

def insertSortedStr (s : String) : List String → List String
  | [] => [s]
  | x :: xs => if s < x then s :: x :: xs else x :: insertSortedStr s xs

def sortStrs (l : List String) : List String := l.foldr insertSortedStr []

def nodeState (n : Node) : String :=
  let peers := sortStrs (n.peers.map (fun (a, p) => peerEntry a p))
  let pending := sortStrs (n.pending.map (fun (a, pc) => s!"{addrStr a}\{{(pcState pc).replace " " ","}}"))
  let rc := n.reconnect.map (fun e => s!"{"+".intercalate (e.resolved.map addrStr)}/{e.tries}/{e.timeout}/{e.next}")
  s!"id={Bytes.toHexOrDash n.nodeId} peers=[{";".intercalate peers}] pending=[{";".intercalate pending}] own=[{",".intercalate (n.own.map addrStr)}] next={n.nextPeers} rc=[{";".intercalate rc}] drop={n.droppedIn}/{n.droppedOut} {tableDump n.table}"

def getNode (st : NSt) (p : Nat) : Option Node := (st.nodes.find? (·.1 = p)).map (·.2)
def setNode (st : NSt) (p : Nat) (n : Node) : NSt :=
  if st.nodes.any (·.1 = p) then { st with nodes := st.nodes.map (fun x => if x.1 = p then (p, n) else x) }
  else { st with nodes := st.nodes ++ [(p, n)] }

/-- late binding of the start values of throw-away slots, for every session of the node -/
def adoptAll (n : Node) (views : List (NAddr × SessView)) (dummy : KeyRef) : Node :=
  let oc (a : NAddr) : Option ObsCore := (views.find? (·.1 = a)).bind (fun v => if v.2.sends.isEmpty then none else some { cur := 0, sends := v.2.sends })
  { n with peers := n.peers.map (fun (a, p) => (a, { p with crypto := adoptDummyStarts p.crypto (oc a) dummy })),
           pending := n.pending.map (fun (a, pc) => (a, adoptDummyStarts pc (oc a) dummy)) }

/-- finish a model step of node `port`: adopt late-bound values, move emissions to the queue (sorted by destination), register genuine messages -/
def finishStep (st : NSt) (port : Nat) (c : Ctx) (views : List (NAddr × SessView)) (prefixStr : String) : NSt × String :=
  if c.panicked then (st, "panic") else
  let n := adoptAll c.node views (1000 + port)
  let src := n.addr
  let dgrams := c.outs.filterMap (fun o => match o with | .dgram d b => some (d, b) | .iface _ => none)
  let devs := c.outs.filterMap (fun o => match o with | .iface b => some b | .dgram _ _ => none)
  -- stable sort by destination string
  let sorted := (sortStrs ((dgrams.map (fun p => addrStr p.1)).eraseDups)).flatMap (fun ds => dgrams.filter (fun p => addrStr p.1 = ds))
  let outStr := ";".intercalate (sorted.map (fun (d, b) => s!"{addrStr src}>{addrStr d}:{Bytes.toHexOrDash b}"))
  let devStr := ";".intercalate (devs.map Bytes.toHexOrDash)
  let newq := sorted.map (fun (d, b) => (src, d, b))
  -- register signatures of emitted handshake datagrams and the seals of this step
  let st1 := sorted.foldl (fun (s : NSt) (p : NAddr × Bytes) =>
    match p.2 with
    | 255 :: body =>
      match InitMsg.readFields ((body.drop 8).length + 1) (body.drop 8) {} with
      | .ok (_, rest) =>
        let pos := body.length - rest.length
        let sig := match rest with | k :: r => r.take k | [] => []
        { s with sigLog := (n.cfg.key, body.take pos, sig) :: s.sigLog }
      | .error _ => s
    | _ => s) { st with sealLog := c.log ++ st.sealLog }
  let st1 := if st1.natNodes.contains port then
      { st1 with natSeen := (st1.natSeen.filter (fun (p, a, _) => !(p = port && sorted.any (fun x => x.1 = a)))) ++ sorted.map (fun (d, _) => (port, d, st1.now + 300)) }
    else st1
  let st2 := setNode { st1 with queue := st1.queue ++ newq, wire := st1.wire ++ newq } port n
  (st2, s!"{prefixStr}out=[{outStr}] dev=[{devStr}] | {nodeState n}")

def modeFlags (mode : String) (tap : Bool) : Bool × Bool :=
  if mode = "router" then (false, false)
  else if mode = "switch" then (true, true)
  else if mode = "hub" then (false, true)
  else if tap then (true, true) else (false, false)

def deliverTo (st : NSt) (src dst : NAddr) (data : Bytes) (implObs : String) : NSt × String :=
  match dst with
  | .v6 ip port =>
    if ip ≠ List.replicate 16 0 then (st, "lost") else
    match getNode st port with
    | none => (st, "lost")
    | some n =>
      if st.natNodes.contains port && !(st.natSeen.any (fun (p, a, tmax) => p = port && a = src && tmax ≥ st.now)) then (st, "filtered") else
      let (ires, istate) := splitObs implObs
      let outs := parseOuts ires
      let views := parseSessions istate
      let o := mkOracle outs views (1000 + port)
      -- persistent receive buffer: what is left of the previous datagram is not tracked by the model's node;
      -- the repaired code never looks at it (theorem `stale_tail_irrelevant`), so the model passes an empty tail
      let (c, _) := handleNet st.env st.bodyOf o n st.now src data []
      finishStep st port c views ""
  | _ => (st, "lost")

/-- The order in which `create_node_info` lists the peers is the iteration order of a `HashMap`: observed, not predicted.  It is
    visible only where node information travels unencrypted (a plain session): the association list of the model is brought into the
    order of the first such datagram the implementation emitted in this step (a permutation of the list; no entry is changed). -/
def hashOrder (n : Node) (outs : List (NAddr × NAddr × Bytes)) : Node :=
  let plainInfo := outs.findSome? (fun (_, dst, b) =>
    match Node.lookupA n.peers dst, b with
    | some p, 1 :: body => if p.crypto.unencrypted then decodeNodeInfo body else none
    | _, _ => none)
  match plainInfo with
  | none => n
  | some info =>
    -- an entry of the observed list stands for the peer with that node id and those addresses (several peers may carry the same node id)
    let listed := info.peers.foldl (fun (acc : List (NAddr × Peer)) e =>
      let free := n.peers.filter (fun x => !acc.any (fun y => y.1 = x.1))
      match (free.find? (fun (_, p) => some p.nodeId = e.nodeId && p.addrs = e.addrs)).orElse (fun _ => free.find? (fun (_, p) => some p.nodeId = e.nodeId)) with
      | some x => acc ++ [x]
      | none => acc) []
    { n with peers := listed ++ n.peers.filter (fun x => !listed.any (fun y => y.1 = x.1)) }

def nodeStepNew (st : NSt) (port : String) (fs : List String) (implObs : String) : Option (NSt × String × String) :=
    match port.toNat?, (kvField fs "key").bind String.toNat?, kvField fs "trust", (kvField fs "algos").bind parseAlgos,
          (kvField fs "pt").bind String.toNat?, kvField fs "ka", (kvField fs "st").bind String.toNat?, (kvField fs "claims").bind parseRanges,
          (field implObs "id").bind Bytes.ofHex with
    | some port, some ki, some tr, some algos, some pt, some ka, some swt, some claims, some nodeId =>
      let tap := kvField fs "dev" = some "tap"
      let (learning, broadcast) := modeFlags ((kvField fs "mode").getD "normal") tap
      let trusted := if tr = "-" then [] else (tr.splitOn ",").filterMap (fun (x : String) => x.toNat?.bind (fun i => st.keys[i]?))
      -- update_freq = get_keepalive() as u16
      let keepalive := match ka.toNat? with
        | some k => k
        | none => (Generated.defaultKeepalive pt).getD 0
      -- adv=<pN | 4:<hex ip>:<port> | ip4:<hex ip>>,… : config.advertise_addresses after `parse_listen` (an address without port gets the port of the socket)
      let advertise : List NAddr := match kvField fs "adv" with
        | some a => if a = "-" then [] else (a.splitOn ",").filterMap (fun x =>
            if x.startsWith "ip4:" then (Bytes.ofHex (x.drop 4).toString).map (fun ip => SockAddr.v4 ip port) else parseNAddr x)
        | none => []
      let cfg : NodeCfg := { tap, learning, broadcast, peerTimeout := pt, peerTimeoutPublish := pt % 65536, updateFreq := keepalive % 65536,
                             claims, key := st.keys.getD ki [], trusted, algos, advertise }
      let n : Node := { nodeId, addr := portAddr port, cfg, own := advertise ++ [portAddr port],
                        table := { cacheTimeout := swt, claimTimeout := pt }, nextPeers := st.now, nextOwnReset := st.now + 300 }
      let st' := if kvField fs "nat" = some "1" && !st.natNodes.contains port then { st with natNodes := st.natNodes ++ [port] } else st
      let st' := { st' with args := (st'.args.filter (·.1 ≠ port)) ++ [(port, fs)], natSeen := st'.natSeen.filter (fun (p, _, _) => p ≠ port) }
      some (setNode st' port n, nodeState n, "-")
    | _, _, _, _, _, _, _, _, _ => some (st, "bad-op", "-")

def nodeStepReplay (st : NSt) (args : List String) (implObs : String) : Option (NSt × String × String) :=
  match args with
  | k :: muts =>
    match (if k.startsWith "m:" then st.marks.lookup (k.drop 2).toString else (k.drop 1).toString.toNat?), (muts.head?).bind String.toNat?, muts[1]? with
    | some w, some port, some src =>
      match st.wire[w]? with
      | none => some (st, "none-on-wire", "-")
      | some (osrc, _, data) =>
        match (if src = "orig" then some osrc else parseNAddr src), (muts.drop 2).foldlM mutateBytes data with
        | some s, some d => let (s', obs) := deliverTo st s (portAddr port) d implObs; some (s', obs, "-")
        | _, _ => some (st, "bad-op", "-")
    | _, _, _ => some (st, "bad-op", "-")
  | [] => some (st, "bad-op", "-")

/-- `<idN>` inside a hex text stands for the node id of node N (all zero if there is no such node) -/
def substIds (st : NSt) (hex : String) : String :=
  match hex.splitOn "<id" with
  | [] => hex
  | first :: rest =>
    rest.foldl (fun acc piece =>
      match piece.splitOn ">" with
      | num :: tl =>
        let id := match num.toNat?.bind (getNode st) with
          | some n => n.nodeId
          | none => List.replicate 16 0
        acc ++ Bytes.toHex id ++ ">".intercalate tl
      | [] => acc) first

def nodeStep (st : NSt) (t : List String) (implObs : String) : Option (NSt × String × String) :=
  match t with
  | "nkeys" :: _ => some ({ keys := (implObs.splitOn ",").filterMap Bytes.ofHex }, implObs, "-")
  | "nnode" :: port :: fs => nodeStepNew st port fs implObs
  | ["nfake", i, a, pt] =>
    match i.toNat?, parseNAddr a, pt.toNat? with
    | some port, some a, some pt =>
      match getNode st port with
      | some n =>
        let p : Peer := { addrs := [a], timeout := st.now + 100000, peerTimeout := pt, nodeId := List.replicate 16 9,
                          crypto := { init := none, unencrypted := true } }
        some (setNode st port { n with peers := insertA n.peers a p }, "ok", "-")
      | none => some (st, "bad-op", "-")
    | _, _, _ => some (st, "bad-op", "-")
  | ["nfake-clear", i] =>
    match i.toNat?.bind (fun p => (getNode st p).map (fun n => (p, n))) with
    | some (port, n) => some (setNode st port { n with peers := n.peers.filter (fun (_, p) => p.nodeId ≠ List.replicate 16 9) }, "ok", "-")
    | none => some (st, "bad-op", "-")
  | ["ndropfrom", i] =>
    match i.toNat? with
    | some port => some ({ st with queue := st.queue.filter (fun (s, _, _) => s ≠ portAddr port) }, "ok", "-")
    | none => some (st, "bad-op", "-")
  | ["ndropfrom", i, j] =>
    match i.toNat?, j.toNat? with
    | some a, some b => some ({ st with queue := st.queue.filter (fun (s, d, _) => !(s = portAddr a && d = portAddr b)) }, "ok", "-")
    | _, _ => some (st, "bad-op", "-")
  | "nforge" :: to :: src :: _ =>
    -- a datagram sealed under a key of an outsider's choice; its bytes are taken from the implementation's report, to the ideal AEAD it is garbage
    let toks := implObs.splitOn " "
    match to.toNat?, parseNAddr src, (toks.head?.bind (fun t => if t.startsWith "forged=" then Bytes.ofHex (t.drop 7).toString else none)) with
    | some port, some s, some d =>
      let rest := " ".intercalate (toks.drop 1)
      let (s', obs) := deliverTo st s (portAddr port) d rest
      some (s', s!"forged={Bytes.toHex d} {obs}", "-")
    | _, _, _ => some (st, "bad-op", "-")
  | "nreplay-last" :: rest =>
    if st.wire.isEmpty then some (st, "none-on-wire", "-")
    else nodeStepReplay st (s!"w{st.wire.length - 1}" :: rest) implObs
  | "nexpect" :: _ => some (st, "ok", "-")
  | ["nmark", name] =>
    if st.wire.isEmpty then some (st, "none-on-wire", "-")
    else some ({ st with marks := (name, st.wire.length - 1) :: st.marks }, "ok", "-")
  | ["nrestart", port] =>
    match port.toNat?.bind (fun p => (st.args.find? (·.1 = p)).map (·.2)) with
    | some fs => nodeStepNew st port fs implObs
    | none => some (st, "bad-op", "-")
  | ["ntime", tm] =>
    match tm.toInt? with
    | some v => some ({ st with now := v }, "ok", "-")
    | none => some (st, "bad-op", "-")
  | ["nseal", i, dst, hex] =>
    -- a key holder seals a raw plaintext (no type byte; possibly empty) with the node's session for `dst`
    match i.toNat?, parseNAddr dst, (if hex = "-" then some [] else Bytes.ofHex (substIds st hex)) with
    | some port, some d, some plain =>
      match getNode st port with
      | none => some (st, "bad-op", "-")
      | some n =>
        let (ires, istate) := splitObs implObs
        let views := parseSessions istate
        let o := mkOracle (parseOuts ires) views (1000 + port)
        let c0 : Ctx := { node := n }
        match lookupA n.peers d with
        | none =>
          let (s, obs) := finishStep st port c0 views "nopeer "
          some (s, obs, "-")
        | some p =>
          let (_, rr, _) := rndFor o c0 d
          match PeerCrypto.sealMsg p.crypto plain rr.ct with
          | (pc', .ok (bytes, log)) =>
            let c1 := { c0 with node := { n with peers := insertA n.peers d { p with crypto := pc' } } }
            let (s, obs) := finishStep st port ((addLog log c1).send d bytes) views ""
            some (s, obs, "-")
          | (_, .error _) =>
            let (s, obs) := finishStep st port c0 views "nopeer "
            some (s, obs, "-")
    | _, _, _ => some (st, "bad-op", "-")
  | [op, i, dst] =>
    if op = "nconnect" || op = "npeer" then
      match i.toNat?, parseNAddr dst with
      | some port, some d =>
        match getNode st port with
        | none => some (st, "bad-op", "-")
        | some n =>
          let (ires, istate) := splitObs implObs
          let views := parseSessions istate
          let o := mkOracle (parseOuts ires) views (1000 + port)
          let c := connect st.env o { node := n } [d]
          let c := if op = "npeer" then { c with node := { c.node with reconnect := c.node.reconnect ++ [{ resolved := [d], next := st.now }] } } else c
          let (s, obs) := finishStep st port c views "ok "
          some (s, obs, "-")
      | _, _ => some (st, "bad-op", "-")
    else if op = "nframe" then
      match i.toNat?, Bytes.ofHex dst with
      | some port, some data =>
        match getNode st port with
        | none => some (st, "bad-op", "-")
        | some n =>
          let (ires, istate) := splitObs implObs
          let views := parseSessions istate
          let o := mkOracle (parseOuts ires) views (1000 + port)
          let (s, obs) := finishStep st port (handleIface o n st.now data) views ""
          some (s, obs, "-")
      | _, _ => some (st, "bad-op", "-")
    else none
  | ["nhk", i] =>
    match i.toNat? with
    | some port =>
      match getNode st port with
      | none => some (st, "bad-op", "-")
      | some n =>
        let (ires, istate) := splitObs implObs
        let views := parseSessions istate
        let o := mkOracle (parseOuts ires) views (1000 + port)
        let (s, obs) := finishStep st port (housekeep st.env o (hashOrder n (parseOuts ires)) st.now) views "ok "
        some (s, obs, "-")
    | none => some (st, "bad-op", "-")
  | op :: k :: muts =>
    if op = "ndeliver" || op = "ndup" || op = "ndrop" then
      match k.toNat? with
      | none => some (st, "bad-op", "-")
      | some k =>
        match st.queue[k]? with
        | none => some (st, "none-in-flight", "-")
        | some (src, dst, data) =>
          let st1 := if op = "ndup" then st else { st with queue := st.queue.eraseIdx k }
          if op = "ndrop" then some (st1, "dropped", "-") else
          match muts.foldlM mutateBytes data with
          | none => some (st, "bad-op", "-")
          | some d =>
            let (s, obs) := deliverTo st1 src dst d implObs
            some (s, obs, "-")
    else if op = "ninject" then
      -- ninject <i> <from> <hex> [mut…]
      match k.toNat?, (muts.head?).bind parseNAddr, (muts[1]?).bind Bytes.ofHex with
      | some port, some src, some data =>
        match (muts.drop 2).foldlM mutateBytes data with
        | some d => let (s, obs) := deliverTo st src (portAddr port) d implObs; some (s, obs, "-")
        | none => some (st, "bad-op", "-")
      | _, _, _ => some (st, "bad-op", "-")
    else if op = "nreplay" then
      -- nreplay w<k>|m:<mark> <to> <from|orig> [mut…]
      match (if k.startsWith "m:" then st.marks.lookup (k.drop 2).toString else (k.drop 1).toString.toNat?), (muts.head?).bind String.toNat?, muts[1]? with
      | some w, some port, some src =>
        match st.wire[w]? with
        | none => some (st, "none-on-wire", "-")
        | some (osrc, _, data) =>
          match (if src = "orig" then some osrc else parseNAddr src), (muts.drop 2).foldlM mutateBytes data with
          | some s, some d => let (s', obs) := deliverTo st s (portAddr port) d implObs; some (s', obs, "-")
          | _, _ => some (st, "bad-op", "-")
      | _, _, _ => some (st, "bad-op", "-")
    else if op = "ndump" then
      match k.toNat?.bind (getNode st) with
      | some n => some (st, nodeState n, "-")
      | none => some (st, "bad-op", "-")
    else none
  | ["nqueue"] => some (st, ",".intercalate (st.queue.map (fun (s, d, b) => s!"{addrStr s}>{addrStr d}:{b.length}")), "-")
  | _ => none

end Driver
