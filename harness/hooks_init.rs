#[allow(unused_imports)]
use super::*;

pub struct InitView {
    pub stage: u8,
    pub hash: SaltedNodeIdHash,
    pub failed_retries: usize,
    pub close_time: usize,
    pub has_ecdh: bool,
    pub has_last: bool,
    pub has_crypto: bool,
}

/// a handshake object whose 4 salt bytes are prescribed (the rest of the salted node-id hash is computed as `InitState::new` does)
pub fn set_salt<P: Payload>(s: &mut InitState<P>, salt: [u8; 4]) {
    let mut hash = [0; SALTED_NODE_ID_HASH_LEN];
    hash[0..4].clone_from_slice(&salt);
    hash[4..].clone_from_slice(&s.node_id);
    let d = digest::digest(&digest::SHA256, &hash);
    hash[4..].clone_from_slice(&d.as_ref()[..16]);
    s.salted_node_id_hash = hash;
}

pub fn view<P: Payload>(s: &InitState<P>) -> InitView {
    InitView {
        stage: s.next_stage,
        hash: s.salted_node_id_hash,
        failed_retries: s.failed_retries,
        close_time: s.close_time,
        has_ecdh: s.ecdh_private_key.is_some(),
        has_last: s.last_message.is_some(),
        has_crypto: s.crypto.is_some(),
    }
}
