#[allow(unused_imports)]
use super::*;

pub struct InitView {
    pub stage: u8,
    pub hash: SaltedNodeIdHash,
    pub failed_retries: usize,
    pub close_time: usize,
    pub has_ecdh: bool,
    pub has_last: bool,
    pub has_crypto: bool,
}

pub fn view<P: Payload>(s: &InitState<P>) -> InitView {
    InitView {
        stage: s.next_stage,
        hash: s.salted_node_id_hash,
        failed_retries: s.failed_retries,
        close_time: s.close_time,
        has_ecdh: s.ecdh_private_key.is_some(),
        has_last: s.last_message.is_some(),
        has_crypto: s.crypto.is_some(),
    }
}
