// Suite `table` (ClaimTable over the mock clock) and `range` (Range::matches).

use crate::table::ClaimTable;
use crate::types::{Address, Range};
use crate::util::{MockTimeSource, Time, TimeSource};
use std::net::{IpAddr, Ipv4Addr, SocketAddr};

pub fn peer_addr(n: u32) -> SocketAddr {
    SocketAddr::new(IpAddr::V4(Ipv4Addr::new(10, 99, (n >> 8) as u8, (n & 255) as u8)), 1000)
}

pub fn peer_num(a: &SocketAddr) -> String {
    if let SocketAddr::V6(v6) = a {
        if v6.ip().is_unspecified() {
            return format!("p{}", v6.port());
        }
    }
    match a {
        SocketAddr::V4(v4) => {
            let o = v4.ip().octets();
            if o[0] == 10 && o[1] == 99 {
                return format!("p{}", ((o[2] as u32) << 8) | o[3] as u32);
            }
            format!("{}", a)
        }
        _ => format!("{}", a),
    }
}

pub fn parse_peer(s: &str) -> Option<SocketAddr> {
    let n: u32 = s.strip_prefix('p')?.parse().ok()?;
    Some(peer_addr(n))
}

pub fn parse_address(s: &str) -> Option<Address> {
    let b = unhex(s)?;
    if b.len() > 16 {
        return None;
    }
    let mut data = [0u8; 16];
    data[..b.len()].copy_from_slice(&b);
    Some(Address { data, len: b.len() as u8 })
}

pub fn parse_range(s: &str) -> Option<Range> {
    let (b, p) = s.split_once('/')?;
    Some(Range { base: parse_address(b)?, prefix_len: p.parse().ok()? })
}

pub fn parse_ranges(s: &str) -> Option<Vec<Range>> {
    if s == "-" {
        return Some(vec![]);
    }
    s.split(',').map(parse_range).collect()
}

pub fn range_str(r: &Range) -> String {
    format!("{}/{}", addr_hex(&r.base), r.prefix_len)
}

pub fn table_dump<TS: TimeSource>(t: &ClaimTable<TS>) -> String {
    let (claims, mut cache) = crate::table::verif_hooks::dump(t);
    let cl: Vec<String> = claims.iter().map(|(p, r, t)| format!("{}:{}@{}", peer_num(p), range_str(r), t)).collect();
    cache.sort_by(|a, b| (a.0.data[..a.0.len as usize].to_vec(), a.0.len).cmp(&(b.0.data[..b.0.len as usize].to_vec(), b.0.len)));
    let ca: Vec<String> = cache.iter().map(|(a, p, t)| format!("{}:{}@{}", addr_hex(a), peer_num(p), t)).collect();
    format!(
        "claims={} cache={}",
        if cl.is_empty() { "-".to_string() } else { cl.join(",") },
        if ca.is_empty() { "-".to_string() } else { ca.join(",") }
    )
}

pub struct TableState {
    table: Option<ClaimTable<MockTimeSource>>,
}

impl TableState {
    pub fn new() -> Self {
        MockTimeSource::set_time(0);
        TableState { table: None }
    }

    pub fn step(&mut self, t: &[&str]) -> Option<String> {
        match t[0] {
            "match" => {
                let r = parse_range(t.get(1)?)?;
                let a = parse_address(t.get(2)?)?;
                Some(format!("{}", r.matches(a)))
            }
            "tnew" => {
                let ct: u32 = t.get(1)?.parse().ok()?;
                let kt: u32 = t.get(2)?.parse().ok()?;
                self.table = Some(ClaimTable::new(ct, kt));
                Some("ok".to_string())
            }
            "now" => {
                let now: Time = t.get(1)?.parse().ok()?;
                MockTimeSource::set_time(now);
                Some("ok".to_string())
            }
            "announce" | "disconnect" | "learn" | "lookup" | "sweep" | "dump" => {
                let table = self.table.as_mut()?;
                let res = match t[0] {
                    "announce" => {
                        let p = parse_peer(t.get(1)?)?;
                        let rs = parse_ranges(t.get(2)?)?;
                        table.set_claims(p, rs.into_iter().collect());
                        "ok".to_string()
                    }
                    "disconnect" => {
                        table.remove_claims(parse_peer(t.get(1)?)?);
                        "ok".to_string()
                    }
                    "learn" => {
                        table.cache(parse_address(t.get(1)?)?, parse_peer(t.get(2)?)?);
                        "ok".to_string()
                    }
                    "lookup" => match table.lookup(parse_address(t.get(1)?)?) {
                        Some(p) => peer_num(&p),
                        None => "none".to_string(),
                    },
                    "sweep" => {
                        table.housekeep();
                        "ok".to_string()
                    }
                    _ => "ok".to_string(),
                };
                Some(format!("{} | {}", res, table_dump(table)))
            }
            _ => None,
        }
    }
}
