#[allow(unused_imports)]
use super::*;

pub fn parse_public_key(s: &str) -> Result<Ed25519PublicKey, Error> {
    Crypto::parse_public_key(s)
}

/// public key of the key pair a node builds from a printed private key
pub fn parse_private_key(s: &str) -> Result<Vec<u8>, Error> {
    Crypto::parse_private_key(s).map(|kp| kp.public_key().as_ref().to_vec())
}

pub fn parse_keypair(privkey: &str, pubkey: &str) -> Result<Vec<u8>, Error> {
    Crypto::parse_keypair(privkey, pubkey).map(|kp| kp.public_key().as_ref().to_vec())
}

/// public key of the key pair a node derives from its password
pub fn keypair_from_password(password: &str) -> Vec<u8> {
    Crypto::keypair_from_password(password).public_key().as_ref().to_vec()
}

/// public key that ring derives from a 32-byte seed
pub fn pub_from_seed(seed: &[u8]) -> Option<Vec<u8>> {
    Ed25519KeyPair::from_seed_unchecked(seed).ok().map(|kp| kp.public_key().as_ref().to_vec())
}

/// A `Crypto` with prescribed cipher speeds (no timing measurement).
pub fn crypto_with_speeds(
    node_id: NodeId, key_pair: Arc<Ed25519KeyPair>, trusted_keys: Vec<Ed25519PublicKey>,
    speeds: Vec<(&'static Algorithm, f32)>, allow_unencrypted: bool,
) -> Crypto {
    Crypto {
        node_id,
        key_pair,
        trusted_keys: trusted_keys.into_boxed_slice().into(),
        algorithms: Algorithms { algorithm_speeds: speeds.into_iter().collect(), allow_unencrypted },
    }
}

pub struct PeerCryptoView {
    pub init: Option<crate::crypto::verif_hooks_init::InitView>,
    pub unencrypted: bool,
    pub rotate_counter: usize,
    pub core: Option<(usize, bool, Vec<crate::crypto::verif_hooks_core::SlotView>)>,
    pub rot: Option<((u64, bool, bool, bool, bool), (Option<Vec<u8>>, Option<Vec<u8>>))>,
}

pub fn peer_crypto_view<P: Payload>(pc: &PeerCrypto<P>) -> PeerCryptoView {
    PeerCryptoView {
        init: pc.init.as_ref().map(crate::crypto::verif_hooks_init::view),
        unencrypted: pc.unencrypted,
        rotate_counter: pc.rotate_counter,
        core: pc.core.as_ref().map(crate::crypto::verif_hooks_core::view),
        rot: pc.rotation.as_ref().map(|r| (crate::crypto::verif_hooks_rotate::state_view(r), crate::crypto::verif_hooks_rotate::key_view(r))),
    }
}

/// what a `Crypto` advertises: the plain flag and (wire id of the cipher, measured speed) in list order
pub fn crypto_algos(c: &Crypto) -> (bool, Vec<(u8, f32)>) {
    let ids = c
        .algorithms
        .algorithm_speeds
        .iter()
        .map(|(a, s)| {
            let id = if *a == &aead::AES_128_GCM {
                1
            } else if *a == &aead::AES_256_GCM {
                2
            } else {
                3
            };
            (id, *s)
        })
        .collect();
    (c.algorithms.allow_unencrypted, ids)
}

pub fn set_attempt_salt<P: Payload>(pc: &mut PeerCrypto<P>, salt: [u8; 4]) {
    if let Some(i) = pc.init.as_mut() {
        crate::crypto::verif_hooks_init::set_salt(i, salt)
    }
}

/// the keys a `Crypto` trusts
pub fn crypto_trusted(c: &Crypto) -> Vec<Vec<u8>> {
    c.trusted_keys.iter().map(|k| k.to_vec()).collect()
}

/// the public key a `Crypto` signs with
pub fn crypto_public_key(c: &Crypto) -> Vec<u8> {
    c.key_pair.public_key().as_ref().to_vec()
}

pub fn key_pair_from_seed(seed: &[u8]) -> Arc<Ed25519KeyPair> {
    Arc::new(Ed25519KeyPair::from_seed_unchecked(seed).unwrap())
}

pub fn algo_by_id(id: u8) -> &'static Algorithm {
    match id {
        1 => &aead::AES_128_GCM,
        2 => &aead::AES_256_GCM,
        _ => &aead::CHACHA20_POLY1305,
    }
}

pub fn force_plain<P: Payload>(pc: &mut PeerCrypto<P>) {
    pc.unencrypted = true;
    pc.init = None;
}

/// seal an arbitrary plaintext (possibly empty, no type byte prepended) with the session's current key, as a key holder
/// that does not run this code could
pub fn seal_raw<P: Payload>(pc: &mut PeerCrypto<P>, plain: &[u8]) -> Option<Vec<u8>> {
    let mut buf = MsgBuffer::new(64);
    buf.set_length(plain.len());
    buf.message_mut().copy_from_slice(plain);
    pc.encrypt_message(&mut buf).ok()?;
    Some(buf.message().to_vec())
}
