// Suite `init`: real `PeerCrypto` objects (handshake + sealed transport + rotation) — C01, C05, C06, C02.

use crate::crypto::{verif_hooks_common as hcom, MessageResult, Payload, PeerCrypto};
use crate::error::Error;

#[derive(Debug, PartialEq)]
pub struct RawPayload(pub Vec<u8>);

impl Payload for RawPayload {
    fn write_to(&self, buffer: &mut MsgBuffer) {
        let n = self.0.len();
        buffer.buffer()[..n].copy_from_slice(&self.0);
        buffer.set_length(n)
    }

    fn read_from<R: std::io::Read>(mut r: R) -> Result<Self, Error> {
        let mut data = Vec::new();
        r.read_to_end(&mut data).map_err(|_| Error::Parse("Buffer too small"))?;
        Ok(RawPayload(data))
    }
}

pub fn err_class(e: &Error) -> &'static str {
    match e {
        Error::Parse(_) => "parse",
        Error::Crypto(_) => "crypto",
        Error::CryptoInit(_) => "cryptoinit",
        Error::CryptoInitFatal(_) => "fatal",
        Error::InvalidCryptoState(_) => "state",
        Error::Message(_) => "message",
        _ => "other",
    }
}

pub fn pc_state<P: Payload>(pc: &PeerCrypto<P>) -> String {
    let v = hcom::peer_crypto_view(pc);
    let init = match &v.init {
        Some(i) => format!("{}/{}/{}/{}{}{}", i.stage, i.failed_retries, i.close_time, i.has_ecdh as u8, i.has_last as u8, i.has_crypto as u8),
        None => "-".to_string(),
    };
    let core = match &v.core {
        Some((cur, half, slots)) => {
            format!("{}/{}/{}", cur, *half as u8, slots.iter().map(|s| format!("{}.{}.{}.{}", hex(&s.send), hex(&s.min), hex(&s.next_min), hex(&s.seen))).collect::<Vec<_>>().join(","))
        }
        None => "-".to_string(),
    };
    let rot = match &v.rot {
        Some(((id, to, _, _, conf), (prop, pend))) => format!(
            "{}/{}/{}/{}/{}",
            id,
            *to as u8,
            prop.as_ref().map(|p| hex(p)).unwrap_or("-".to_string()),
            pend.as_ref().map(|p| hex(p)).unwrap_or("-".to_string()),
            *conf as u8
        ),
        None => "-".to_string(),
    };
    format!("init={} plain={} algo={} cnt={} rot={} core={}", init, v.unencrypted as u8, pc.algorithm_name(), v.rotate_counter, rot, core)
}

struct Party {
    crypto: crate::crypto::Crypto,
}

pub struct InitSuite {
    keys: Vec<(Vec<u8>, std::sync::Arc<ring::signature::Ed25519KeyPair>)>, // (public key, pair)
    parties: HashMap<String, Party>,
    attempts: HashMap<String, PeerCrypto<RawPayload>>,
    msgs: Vec<Vec<u8>>,
    senders: Vec<String>,
    cur_att: String,
    key_seeds: Vec<Vec<u8>>,
}

impl InitSuite {
    pub fn new() -> Self {
        InitSuite { keys: vec![], parties: HashMap::new(), attempts: HashMap::new(), msgs: vec![], senders: vec![], cur_att: String::new(), key_seeds: vec![] }
    }

    fn emit(&mut self, bytes: &[u8]) -> String {
        self.msgs.push(bytes.to_vec());
        self.senders.push(self.cur_att.clone());
        format!("m{}={}", self.msgs.len() - 1, hex(bytes))
    }

    fn result_str(&mut self, res: Result<MessageResult<RawPayload>, Error>, buf: &mut MsgBuffer) -> String {
        match res {
            Err(e) => format!("err:{}", err_class(&e)),
            Ok(MessageResult::Message(t)) => format!("msg:{}:{}", t, hex(buf.message())),
            Ok(MessageResult::Initialized(p)) => format!("initnr payload={}", hex(&p.0)),
            Ok(MessageResult::InitializedWithReply(p)) => {
                let m = buf.message().to_vec();
                format!("init {} payload={}", self.emit(&m), hex(&p.0))
            }
            Ok(MessageResult::Reply) => {
                let m = buf.message().to_vec();
                format!("reply {}", self.emit(&m))
            }
            Ok(MessageResult::None) => "none".to_string(),
        }
    }

    pub fn step(&mut self, t: &[&str]) -> Option<String> {
        match t[0] {
            "ikeys" => {
                let n: usize = t.get(1)?.parse().ok()?;
                self.keys.clear();
                self.key_seeds.clear();
                for i in 0..n {
                    let mut seed = [0u8; 32];
                    seed[0] = i as u8 + 1;
                    seed[31] = 0x5a;
                    if let Some(x) = t.get(2) {
                        let extra = unhex(x)?;
                        for (j, b) in extra.iter().enumerate().take(30) {
                            seed[j + 1] = *b;
                        }
                    }
                    let kp = hcom::key_pair_from_seed(&seed);
                    self.key_seeds.push(seed.to_vec());
                    use ring::signature::KeyPair;
                    self.keys.push((kp.public_key().as_ref().to_vec(), kp));
                }
                Some(self.keys.iter().map(|k| hex(&k.0)).collect::<Vec<_>>().join(","))
            }
            "iparty" => {
                // iparty <name> key=<i> trust=<i,j|-> algos=<plain|id:speedbits,...|-> id=<hex16>
                let name = t.get(1)?.to_string();
                let mut f = HashMap::new();
                for x in &t[2..] {
                    let (k, v) = x.split_once('=')?;
                    f.insert(k, v);
                }
                let ki: usize = f.get("key")?.parse().ok()?;
                let kp = self.keys.get(ki)?.1.clone();
                let mut trusted = vec![];
                let tr = *f.get("trust")?;
                if tr != "-" {
                    for x in tr.split(',') {
                        let i: usize = x.parse().ok()?;
                        let mut k = [0u8; 32];
                        k.copy_from_slice(&self.keys.get(i)?.0);
                        trusted.push(k);
                    }
                }
                let mut speeds = vec![];
                let mut plain = false;
                let al = *f.get("algos")?;
                if al != "-" {
                    for x in al.split(',') {
                        if x == "plain" {
                            plain = true;
                        } else {
                            let (id, bits) = x.split_once(':')?;
                            let id: u8 = id.parse().ok()?;
                            let bits = u32::from_str_radix(bits, 16).ok()?;
                            speeds.push((hcom::algo_by_id(id), f32::from_bits(bits)));
                        }
                    }
                }
                let idb = unhex(f.get("id")?)?;
                let mut node_id = [0u8; 16];
                node_id.copy_from_slice(&idb);
                let crypto = hcom::crypto_with_speeds(node_id, kp, trusted, speeds, plain);
                self.parties.insert(name, Party { crypto });
                Some("ok".to_string())
            }
            "iparty-cfg" => {
                // like iparty, but through the real configuration path `Crypto::new` (keys as printed texts, cipher list "plain")
                let name = t.get(1)?.to_string();
                let mut f = HashMap::new();
                for x in &t[2..] {
                    let (k, v) = x.split_once('=')?;
                    f.insert(k, v);
                }
                let ki: usize = f.get("key")?.parse().ok()?;
                let mut seed = [0u8; 32];
                // the seed is not stored: rebuild it the way `ikeys` did
                let _ = &mut seed;
                let kp = self.keys.get(ki)?;
                let privk = self.key_seeds.get(ki)?.clone();
                let mut trusted = vec![];
                let tr = *f.get("trust")?;
                if tr != "-" {
                    for x in tr.split(',') {
                        let i: usize = x.parse().ok()?;
                        trusted.push(crate::util::to_base62(&self.keys.get(i)?.0));
                    }
                }
                let idb = unhex(f.get("id")?)?;
                let mut node_id = [0u8; 16];
                node_id.copy_from_slice(&idb);
                let cfg = crate::crypto::Config {
                    password: None,
                    private_key: Some(crate::util::to_base62(&privk)),
                    public_key: Some(crate::util::to_base62(&kp.0)),
                    trusted_keys: trusted,
                    // algos=<name,name,…> as the user writes them in the configuration ("default" = nothing configured); without the field: plain only
                    algorithms: match f.get("algos") {
                        Some(l) if *l == "default" => vec![],
                        Some(l) => l.split(',').map(|x| x.to_string()).collect(),
                        None => vec!["plain".to_string()],
                    },
                };
                match crate::crypto::Crypto::new(node_id, &cfg) {
                    Ok(crypto) => {
                        let (plain, ids) = hcom::crypto_algos(&crypto);
                        let mut parts: Vec<String> = if plain { vec!["plain".to_string()] } else { vec![] };
                        parts.extend(ids.iter().map(|(id, s)| format!("{}:{:08x}", id, s.to_bits())));
                        self.parties.insert(name, Party { crypto });
                        if f.contains_key("algos") {
                            Some(format!("ok algos={}", if parts.is_empty() { "-".to_string() } else { parts.join(",") }))
                        } else {
                            Some("ok".to_string())
                        }
                    }
                    Err(_) => Some("err".to_string()),
                }
            }
            "iattempt" => {
                let att = t.get(1)?.to_string();
                let party = self.parties.get(*t.get(2)?)?;
                let payload = unhex(t.get(3)?.strip_prefix("payload=")?)?;
                let mut pc = party.crypto.peer_instance(RawPayload(payload));
                // salt=<4 bytes hex>: the salt of the salted node-id hash is prescribed instead of drawn at random
                if let Some(s) = t.get(4).and_then(|x| x.strip_prefix("salt=")) {
                    let b = unhex(s)?;
                    let mut salt = [0u8; 4];
                    salt.copy_from_slice(b.get(0..4)?);
                    hcom::set_attempt_salt(&mut pc, salt);
                }
                let v = hcom::peer_crypto_view(&pc);
                let h = v.init.as_ref()?.hash;
                self.attempts.insert(att, pc);
                Some(format!("hash={}", hex(&h)))
            }
            "ideliver-from" => {
                // ideliver-from <from> <k> <to> [mut…]: the k-th most recent datagram emitted by <from> (no-op when there is none)
                let from = t.get(1)?.to_string();
                // <k> = last: the most recent NON-EMPTY datagram of <from> (an attempt that gives way or ignores a datagram emits an empty one)
                let last = *t.get(2)? == "last";
                let k: usize = if last { 0 } else { t.get(2)?.parse().ok()? };
                let cand: Vec<usize> = self.senders.iter().enumerate().filter(|(i, s)| **s == from && !(last && self.msgs[*i].is_empty())).map(|(i, _)| i).collect();
                if k >= cand.len() {
                    return Some("none-in-flight".to_string());
                }
                let id = format!("m{}", cand[cand.len() - 1 - k]);
                let mut v: Vec<&str> = vec!["ideliver", &id, t.get(3)?];
                v.extend_from_slice(&t[4..]);
                self.step(&v)
            }
            "iexpect" => Some("ok".to_string()),
            "isign" => {
                // isign <key index> <salt: 4 bytes hex> <parts hex>: a handshake datagram with arbitrary TLV content, genuinely signed with key <i>
                // (marker 0xff, salt, salted key hash, the given parts — they should end with the end marker 00 —, signature length, signature)
                let ki: usize = t.get(1)?.parse().ok()?;
                let salt = unhex(t.get(2)?)?;
                let parts = if *t.get(3)? == "-" { vec![] } else { unhex(t.get(3)?)? };
                let (pk, kp) = self.keys.get(ki)?;
                let mut data = pk.clone();
                data.extend_from_slice(&salt);
                let h = ring::digest::digest(&ring::digest::SHA256, &data);
                let mut body = salt.clone();
                body.extend_from_slice(&h.as_ref()[..4]);
                body.extend_from_slice(&parts);
                let sig = kp.sign(&body);
                let mut msg = vec![0xff];
                msg.extend_from_slice(&body);
                msg.push(sig.as_ref().len() as u8);
                msg.extend_from_slice(sig.as_ref());
                self.cur_att = format!("signer{}", ki);
                Some(format!("ok {}", self.emit(&msg)))
            }
            "iinit" | "ideliver" | "itick" | "isend" => {
                self.cur_att = if t[0] == "ideliver" { t.get(2)?.to_string() } else { t.get(1)?.to_string() };
                let (res, att) = match t[0] {
                    "iinit" => {
                        let att = t.get(1)?.to_string();
                        let mut buf = MsgBuffer::new(100);
                        let r = self.attempts.get_mut(&att)?.initialize(&mut buf);
                        let s = match r {
                            Ok(()) => {
                                let m = buf.message().to_vec();
                                format!("ok {}", self.emit(&m))
                            }
                            Err(e) => format!("err:{}", err_class(&e)),
                        };
                        (s, att)
                    }
                    "ideliver" => {
                        let id: usize = t.get(1)?.strip_prefix('m')?.parse().ok()?;
                        let att = t.get(2)?.to_string();
                        let mut d = self.msgs.get(id)?.clone();
                        let mut tail: Vec<u8> = vec![];
                        for m in &t[3..] {
                            if let Some(j) = m.strip_prefix("tail=m") {
                                tail = self.msgs.get(j.parse::<usize>().ok()?)?.clone();
                            } else {
                                mutate(&mut d, m)?;
                            }
                        }
                        let mut buf = MsgBuffer::new(100);
                        // persistent-buffer mode: the previous datagram's bytes are still in the buffer
                        if !tail.is_empty() {
                            buf.set_length(tail.len());
                            buf.message_mut().copy_from_slice(&tail);
                        }
                        buf.set_length(d.len());
                        buf.message_mut().copy_from_slice(&d);
                        let r = self.attempts.get_mut(&att)?.handle_message(&mut buf);
                        (self.result_str(r, &mut buf), att)
                    }
                    "itick" => {
                        let att = t.get(1)?.to_string();
                        let mut buf = MsgBuffer::new(100);
                        let r = self.attempts.get_mut(&att)?.every_second(&mut buf);
                        (self.result_str(r, &mut buf), att)
                    }
                    _ => {
                        let att = t.get(1)?.to_string();
                        let ty: u8 = t.get(2)?.parse().ok()?;
                        let plain = unhex(t.get(3)?)?;
                        let mut buf = MsgBuffer::new(100);
                        buf.set_length(plain.len());
                        buf.message_mut().copy_from_slice(&plain);
                        let r = self.attempts.get_mut(&att)?.send_message(ty, &mut buf);
                        let s = match r {
                            Ok(()) => {
                                let m = buf.message().to_vec();
                                format!("ok {}", self.emit(&m))
                            }
                            Err(e) => format!("err:{}", err_class(&e)),
                        };
                        (s, att)
                    }
                };
                let st = pc_state(self.attempts.get(&att)?);
                Some(format!("{} | {}", res, st))
            }
            _ => None,
        }
    }
}
