// Suite `node`: whole nodes (GenericCloud over the mock socket, device and clock) in a simulated network.

use crate::cloud::verif_hooks::{MockCloud, NodeView};
use crate::config::Config;
use crate::device::{MockDevice, Type};
use crate::net::MockSocket;
use crate::payload::{Frame, Packet};
use crate::types::Mode;

enum NodeBox {
    Tap(Box<MockCloud<Frame>>),
    Tun(Box<MockCloud<Packet>>),
}

macro_rules! with_node {
    ($nb:expr, $n:ident, $body:expr) => {
        match $nb {
            NodeBox::Tap($n) => $body,
            NodeBox::Tun($n) => $body,
        }
    };
}

struct SimNode {
    node: NodeBox,
    addr: SocketAddr,
    buffer: MsgBuffer, // the persistent receive buffer of `run()`
}

pub struct NodeSuite {
    keys: Vec<(Vec<u8>, std::sync::Arc<ring::signature::Ed25519KeyPair>)>,
    nodes: std::collections::BTreeMap<u16, SimNode>,
    queue: Vec<(SocketAddr, SocketAddr, Vec<u8>)>,
    wire: Vec<(SocketAddr, SocketAddr, Vec<u8>)>,
    marks: HashMap<String, usize>,
    now: Time,
    args: HashMap<u16, Vec<String>>,
}

fn addr_of(port: u16) -> SocketAddr {
    format!("[::]:{}", port).parse().unwrap()
}

fn parse_addr(s: &str) -> Option<SocketAddr> {
    if let Some(p) = s.strip_prefix('p') {
        return Some(addr_of(p.parse().ok()?));
    }
    parse_sock(s)
}

fn addr_str(a: &SocketAddr) -> String {
    if let SocketAddr::V6(v6) = a {
        if v6.ip().is_unspecified() {
            return format!("p{}", v6.port());
        }
    }
    sock_str(a)
}

fn range_text(r: &Range) -> Option<String> {
    let d = &r.base.data;
    Some(match r.base.len {
        4 => format!("{}.{}.{}.{}/{}", d[0], d[1], d[2], d[3], r.prefix_len),
        6 => format!("{:02x}:{:02x}:{:02x}:{:02x}:{:02x}:{:02x}/{}", d[0], d[1], d[2], d[3], d[4], d[5], r.prefix_len),
        16 => {
            let g: Vec<String> = (0..8).map(|i| format!("{:02x}{:02x}", d[2 * i], d[2 * i + 1])).collect();
            format!("{}/{}", g.join(":"), r.prefix_len)
        }
        _ => return None,
    })
}

fn view_str(v: &NodeView, table: String) -> String {
    let mut peers: Vec<String> = v
        .peers
        .iter()
        .map(|p| {
            format!(
                "{}{{{},{},{},{},{}}}",
                addr_str(&p.addr),
                hex(&p.node_id),
                p.timeout,
                p.peer_timeout,
                p.addrs.iter().map(addr_str).collect::<Vec<_>>().join("+"),
                p.crypto.replace(' ', ",")
            )
        })
        .collect();
    peers.sort();
    let mut pending: Vec<String> = v.pending.iter().map(|(a, s)| format!("{}{{{}}}", addr_str(a), s.replace(' ', ","))).collect();
    pending.sort();
    let own: Vec<String> = v.own_addresses.iter().map(addr_str).collect();
    let rc: Vec<String> = v.reconnect.iter().map(|(r, tries, to, next)| format!("{}/{}/{}/{}", r.iter().map(addr_str).collect::<Vec<_>>().join("+"), tries, to, next)).collect();
    format!(
        "id={} peers=[{}] pending=[{}] own=[{}] next={} rc=[{}] drop={}/{} {}",
        hex(&v.node_id),
        peers.join(";"),
        pending.join(";"),
        own.join(","),
        v.next_peers,
        rc.join(";"),
        v.dropped.1,
        v.dropped.3,
        table
    )
}

impl NodeSuite {
    pub fn new() -> Self {
        MockTimeSource::set_time(0);
        MockSocket::set_nat(false);
        NodeSuite { keys: vec![], nodes: Default::default(), queue: vec![], wire: vec![], marks: HashMap::new(), now: 0, args: HashMap::new() }
    }

    fn state(&self, port: u16) -> String {
        match self.nodes.get(&port) {
            None => "?".to_string(),
            Some(sn) => with_node!(&sn.node, n, {
                let v = n.v_view(&|pc| pc_state(pc));
                view_str(&v, table_dump(n.v_table()))
            }),
        }
    }

    /// move what the node emitted into the in-flight queue (sorted by destination) and report it
    fn collect(&mut self, port: u16) -> String {
        let sn = match self.nodes.get_mut(&port) {
            Some(s) => s,
            None => return String::new(),
        };
        let src = sn.addr;
        let mut out: Vec<(SocketAddr, Vec<u8>)> = vec![];
        let mut dev: Vec<Vec<u8>> = vec![];
        with_node!(&mut sn.node, n, {
            while let Some((dst, data)) = n.v_socket().pop_outbound() {
                out.push((dst, data));
            }
            while let Some(data) = n.v_device().pop_outbound() {
                dev.push(data);
            }
        });
        out.sort_by_key(|(d, _)| addr_str(d));
        let mut parts = vec![];
        for (dst, data) in out {
            parts.push(format!("{}>{}:{}", addr_str(&src), addr_str(&dst), hex(&data)));
            self.wire.push((src, dst, data.clone()));
            self.queue.push((src, dst, data));
        }
        let devs: Vec<String> = dev.iter().map(|d| hex(d)).collect();
        format!("out=[{}] dev=[{}]", parts.join(";"), devs.join(";"))
    }

    fn deliver(&mut self, src: SocketAddr, dst: SocketAddr, data: Vec<u8>) -> String {
        let port = dst.port();
        let is_node = self.nodes.get(&port).map(|n| n.addr == dst).unwrap_or(false);
        if !is_node {
            return "lost".to_string();
        }
        let sn = self.nodes.get_mut(&port).unwrap();
        let accepted = with_node!(&mut sn.node, n, { n.v_socket().put_inbound(src, data) });
        if !accepted {
            return "filtered".to_string();
        }
        let SimNode { node, buffer, .. } = sn;
        with_node!(node, n, { n.v_socket_event(buffer) });
        let ev = self.collect(port);
        format!("{} | {}", ev, self.state(port))
    }

    pub fn step(&mut self, t: &[&str]) -> Option<String> {
        MockTimeSource::set_time(self.now);
        match t[0] {
            "nkeys" => {
                let n: usize = t.get(1)?.parse().ok()?;
                self.keys.clear();
                for i in 0..n {
                    let mut seed = [0u8; 32];
                    seed[0] = i as u8 + 1;
                    seed[31] = 0xa5;
                    if let Some(x) = t.get(2) {
                        for (j, b) in unhex(x)?.iter().enumerate().take(30) {
                            seed[j + 1] = *b;
                        }
                    }
                    let kp = hcom::key_pair_from_seed(&seed);
                    use ring::signature::KeyPair;
                    self.keys.push((kp.public_key().as_ref().to_vec(), kp));
                }
                Some(self.keys.iter().map(|k| hex(&k.0)).collect::<Vec<_>>().join(","))
            }
            "nrestart" => {
                // the process behind this address is restarted: a fresh node with the same configuration
                let port: u16 = t.get(1)?.parse().ok()?;
                let args = self.args.get(&port)?.clone();
                let v: Vec<&str> = args.iter().map(|s| s.as_str()).collect();
                self.step(&v)
            }
            "nnode" => {
                self.args.insert(t.get(1)?.parse().ok()?, t.iter().map(|s| s.to_string()).collect());
                // nnode <port> mode=.. dev=tun|tap pt=.. ka=..|- st=.. claims=..|- key=<i> trust=<i,..|-> algos=<plain|id:bits,..> nat=0|1
                let port: u16 = t.get(1)?.parse().ok()?;
                let mut f = HashMap::new();
                for x in &t[2..] {
                    let (k, v) = x.split_once('=')?;
                    f.insert(k, v);
                }
                let mut cfg = Config::default();
                cfg.listen = format!("[::]:{}", port);
                cfg.mode = match *f.get("mode")? {
                    "router" => Mode::Router,
                    "switch" => Mode::Switch,
                    "hub" => Mode::Hub,
                    _ => Mode::Normal,
                };
                let tap = *f.get("dev")? == "tap";
                cfg.device_type = if tap { Type::Tap } else { Type::Tun };
                cfg.peer_timeout = f.get("pt")?.parse().ok()?;
                cfg.keepalive = if *f.get("ka")? == "-" { None } else { Some(f.get("ka")?.parse().ok()?) };
                cfg.switch_timeout = f.get("st")?.parse().ok()?;
                cfg.auto_claim = false;
                cfg.port_forwarding = false;
                let cl = *f.get("claims")?;
                if cl != "-" {
                    for r in parse_ranges(cl)? {
                        cfg.claims.push(range_text(&r)?);
                    }
                }
                // adv=<pN | 4:<hex ip>:<port> | ip4:<hex ip>>,… : config.advertise_addresses, rendered as the user would write them
                // ("*:N", "a.b.c.d:port", "a.b.c.d" = default port of the listen address)
                if let Some(adv) = f.get("adv") {
                    if *adv != "-" {
                        for x in adv.split(',') {
                            let text = if let Some(p) = x.strip_prefix('p') {
                                format!("*:{}", p)
                            } else if let Some(h) = x.strip_prefix("ip4:") {
                                let b = unhex(h)?;
                                format!("{}.{}.{}.{}", b.first()?, b.get(1)?, b.get(2)?, b.get(3)?)
                            } else {
                                let parts: Vec<&str> = x.split(':').collect();
                                let b = unhex(parts.get(1)?)?;
                                format!("{}.{}.{}.{}:{}", b.first()?, b.get(1)?, b.get(2)?, b.get(3)?, parts.get(2)?)
                            };
                            cfg.advertise_addresses.push(text);
                        }
                    }
                }
                cfg.crypto.password = Some("x".to_string());
                cfg.crypto.algorithms = vec!["plain".to_string()];
                let ki: usize = f.get("key")?.parse().ok()?;
                let kp = self.keys.get(ki)?.1.clone();
                let mut trusted = vec![];
                let tr = *f.get("trust")?;
                if tr != "-" {
                    for x in tr.split(',') {
                        let mut k = [0u8; 32];
                        k.copy_from_slice(&self.keys.get(x.parse::<usize>().ok()?)?.0);
                        trusted.push(k);
                    }
                }
                let mut speeds = vec![];
                let mut plain = false;
                let al = *f.get("algos")?;
                if al != "-" {
                    for x in al.split(',') {
                        if x == "plain" {
                            plain = true;
                        } else {
                            let (id, bits) = x.split_once(':')?;
                            speeds.push((hcom::algo_by_id(id.parse().ok()?), f32::from_bits(u32::from_str_radix(bits, 16).ok()?)));
                        }
                    }
                }
                MockSocket::set_nat(*f.get("nat")? == "1");
                let addr = addr_of(port);
                let node = if tap {
                    let mut n = MockCloud::<Frame>::new(&cfg, MockSocket::new(addr), MockDevice::new(), None, None);
                    let id = n.v_view(&|_| String::new()).node_id;
                    n.v_set_crypto(hcom::crypto_with_speeds(id, kp, trusted, speeds, plain));
                    NodeBox::Tap(Box::new(n))
                } else {
                    let mut n = MockCloud::<Packet>::new(&cfg, MockSocket::new(addr), MockDevice::new(), None, None);
                    let id = n.v_view(&|_| String::new()).node_id;
                    n.v_set_crypto(hcom::crypto_with_speeds(id, kp, trusted, speeds, plain));
                    NodeBox::Tun(Box::new(n))
                };
                MockSocket::set_nat(false);
                self.nodes.insert(port, SimNode { node, addr, buffer: MsgBuffer::new(100) });
                Some(self.state(port))
            }
            "ntime" => {
                self.now = t.get(1)?.parse().ok()?;
                MockTimeSource::set_time(self.now);
                Some("ok".to_string())
            }
            "nconnect" => {
                let i: u16 = t.get(1)?.parse().ok()?;
                let dst = parse_addr(t.get(2)?)?;
                let sn = self.nodes.get_mut(&i)?;
                let r = with_node!(&mut sn.node, n, { n.connect(dst) });
                let ev = self.collect(i);
                Some(format!("{} {} | {}", if r.is_ok() { "ok" } else { "err" }, ev, self.state(i)))
            }
            "npeer" => {
                // configured peer with reconnect entry (as `run` in main.rs does for config.peers)
                let i: u16 = t.get(1)?.parse().ok()?;
                let dst = parse_addr(t.get(2)?)?;
                let sn = self.nodes.get_mut(&i)?;
                let r = with_node!(&mut sn.node, n, {
                    let r = n.connect(dst);
                    n.add_reconnect_peer(format!("{}", dst));
                    r
                });
                let ev = self.collect(i);
                Some(format!("{} {} | {}", if r.is_ok() { "ok" } else { "err" }, ev, self.state(i)))
            }
            "ndeliver" | "ndup" | "ndrop" => {
                let k: usize = t.get(1)?.parse().ok()?;
                if k >= self.queue.len() {
                    return Some("none-in-flight".to_string());
                }
                let (src, dst, mut data) = if t[0] == "ndup" { self.queue[k].clone() } else { self.queue.remove(k) };
                if t[0] == "ndrop" {
                    return Some("dropped".to_string());
                }
                for m in &t[2..] {
                    mutate(&mut data, m)?;
                }
                Some(self.deliver(src, dst, data))
            }
            "nrun" => {
                let max: usize = t.get(1).and_then(|x| x.parse().ok()).unwrap_or(200);
                let mut n = 0;
                let mut log = vec![];
                while !self.queue.is_empty() && n < max {
                    let (src, dst, data) = self.queue.remove(0);
                    let r = self.deliver(src, dst, data);
                    log.push(r.split(" | ").next().unwrap_or("").to_string());
                    n += 1;
                }
                let states: Vec<String> = self.nodes.keys().copied().collect::<Vec<_>>().iter().map(|p| format!("{}:{}", p, self.state(*p))).collect();
                Some(format!("steps={} {} | {}", n, log.join(" "), states.join(" || ")))
            }
            "ninject" | "nreplay" => {
                let (to, from, mut data, muts): (u16, SocketAddr, Vec<u8>, &[&str]) = if t[0] == "ninject" {
                    (t.get(1)?.parse().ok()?, parse_addr(t.get(2)?)?, unhex(t.get(3)?)?, &t[4..])
                } else {
                    let w: usize = match t.get(1)?.strip_prefix("m:") {
                        Some(name) => match self.marks.get(name) {
                            Some(w) => *w,
                            None => return Some("none-on-wire".to_string()),
                        },
                        None => t.get(1)?.strip_prefix('w')?.parse().ok()?,
                    };
                    if w >= self.wire.len() {
                        return Some("none-on-wire".to_string());
                    }
                    let (src, _, data) = self.wire[w].clone();
                    let from = if *t.get(3)? == "orig" { src } else { parse_addr(t.get(3)?)? };
                    (t.get(2)?.parse().ok()?, from, data, &t[4..])
                };
                for m in muts {
                    mutate(&mut data, m)?;
                }
                Some(self.deliver(from, addr_of(to), data))
            }
            "nforge" => {
                // nforge <to> <from> <cipher 1|2|3> <zero|ff> <key id> <half 0|1> <hex plaintext>: somebody who was never given a session key seals a
                // datagram under a key of its own choice (all-zero / all-0xff), names a key slot, uses a counter in the given half, and sends it
                // from the (claimed) address <from>.  The datagram is reported (`forged=<hex>`) before the observation of its delivery.
                let to: u16 = t.get(1)?.parse().ok()?;
                let from = parse_addr(t.get(2)?)?;
                let algo: &'static ring::aead::Algorithm = match *t.get(3)? {
                    "1" => &ring::aead::AES_128_GCM,
                    "2" => &ring::aead::AES_256_GCM,
                    _ => &ring::aead::CHACHA20_POLY1305,
                };
                let key = vec![if *t.get(4)? == "zero" { 0u8 } else { 0xffu8 }; algo.key_len()];
                let key_id: u8 = t.get(5)?.parse().ok()?;
                let mut nonce = [0u8; 12];
                nonce[0] = if *t.get(6)? == "1" { 0x80 } else { 0x00 };
                for b in nonce[6..12].iter_mut() {
                    *b = 0xfe;
                }
                let mut data = if *t.get(7)? == "-" { vec![] } else { unhex(t.get(7)?)? };
                let k = ring::aead::LessSafeKey::new(ring::aead::UnboundKey::new(algo, &key).ok()?);
                k.seal_in_place_append_tag(ring::aead::Nonce::assume_unique_for_key(nonce), ring::aead::Aad::empty(), &mut data).ok()?;
                let mut d = vec![key_id];
                d.extend_from_slice(&nonce[5..12]);
                d.extend_from_slice(&data);
                let obs = self.deliver(from, addr_of(to), d.clone());
                Some(format!("forged={} {}", hex(&d), obs))
            }
            "nmark" => {
                // nmark <name>: remember the datagram that was put on the wire last (for `nreplay m:<name> …`)
                if self.wire.is_empty() {
                    return Some("none-on-wire".to_string());
                }
                self.marks.insert(t.get(1)?.to_string(), self.wire.len() - 1);
                Some("ok".to_string())
            }
            "nframe" => {
                let i: u16 = t.get(1)?.parse().ok()?;
                let data = unhex(t.get(2)?)?;
                let sn = self.nodes.get_mut(&i)?;
                let SimNode { node, buffer, .. } = sn;
                with_node!(node, n, {
                    n.v_device().put_inbound(data);
                    n.v_device_event(buffer)
                });
                let ev = self.collect(i);
                Some(format!("{} | {}", ev, self.state(i)))
            }
            "nseal" => {
                // nseal <i> <addr> <hex plaintext | ->: node i, as a key holder, seals a raw plaintext (no type byte) for its peer
                let i: u16 = t.get(1)?.parse().ok()?;
                let a = parse_addr(t.get(2)?)?;
                // `<idN>` inside the hex text stands for the node id of node N (node ids are random: the script cannot know them)
                let mut text = t.get(3)?.to_string();
                while let Some(p0) = text.find("<id") {
                    let p1 = p0 + text[p0..].find('>')?;
                    let port: u16 = text[p0 + 3..p1].parse().ok()?;
                    let id = match self.nodes.get(&port) {
                        Some(sn) => with_node!(&sn.node, n, { n.v_view(&|_| String::new()).node_id }),
                        None => [0u8; 16],
                    };
                    text = format!("{}{}{}", &text[..p0], hex(&id), &text[p1 + 1..]);
                }
                let data = if text == "-" { vec![] } else { unhex(&text)? };
                let sn = self.nodes.get_mut(&i)?;
                let ok = with_node!(&mut sn.node, n, { n.v_seal_raw(a, &data) });
                let ev = self.collect(i);
                Some(format!("{}{} | {}", if ok { "" } else { "nopeer " }, ev, self.state(i)))
            }
            "nhk" => {
                let i: u16 = t.get(1)?.parse().ok()?;
                let sn = self.nodes.get_mut(&i)?;
                let r = with_node!(&mut sn.node, n, { n.v_housekeep() });
                let ev = self.collect(i);
                Some(format!("{} {} | {}", match r { Ok(()) => "ok".to_string(), Err(e) => format!("err:{}", err_class(&e)) }, ev, self.state(i)))
            }
            "nfake" => {
                // nfake <i> <addr> <advertised timeout>: a plain peer entry for the sweep of the announcement interval
                let i: u16 = t.get(1)?.parse().ok()?;
                let a = parse_addr(t.get(2)?)?;
                let pt: u16 = t.get(3)?.parse().ok()?;
                let sn = self.nodes.get_mut(&i)?;
                with_node!(&mut sn.node, n, { n.v_add_fake_peer(a, pt) });
                Some("ok".to_string())
            }
            "nfake-clear" => {
                let i: u16 = t.get(1)?.parse().ok()?;
                let sn = self.nodes.get_mut(&i)?;
                with_node!(&mut sn.node, n, { n.v_clear_fake_peers() });
                Some("ok".to_string())
            }
            "ndropfrom" => {
                let i: u16 = t.get(1)?.parse().ok()?;
                let a = addr_of(i);
                match t.get(2) {
                    Some(d) => {
                        let b = addr_of(d.parse().ok()?);
                        self.queue.retain(|(s, dd, _)| !(*s == a && *dd == b));
                    }
                    None => self.queue.retain(|(s, _, _)| *s != a),
                }
                Some("ok".to_string())
            }
            "nreplay-last" => {
                if self.wire.is_empty() {
                    return Some("none-on-wire".to_string());
                }
                let w = format!("w{}", self.wire.len() - 1);
                let mut v: Vec<&str> = vec!["nreplay", &w];
                v.extend_from_slice(&t[1..]);
                self.step(&v)
            }
            "ndump" => {
                let i: u16 = t.get(1)?.parse().ok()?;
                Some(self.state(i))
            }
            "nexpect" => Some("ok".to_string()),
            "nqueue" => Some(format!("{}", self.queue.iter().map(|(s, d, b)| format!("{}>{}:{}", addr_str(s), addr_str(d), b.len())).collect::<Vec<_>>().join(","))),
            _ => None,
        }
    }
}
