#[allow(unused_imports)]
use super::*;

/// Read-only view of a claim table: claims in table order, cache entries (unordered).
pub fn dump<TS: TimeSource>(t: &ClaimTable<TS>) -> (Vec<(SocketAddr, Range, Time)>, Vec<(Address, SocketAddr, Time)>) {
    let claims = t.claims.iter().map(|e| (e.peer, e.claim, e.timeout)).collect();
    let cache = t.cache.iter().map(|(a, v)| (*a, v.peer, v.timeout)).collect();
    (claims, cache)
}
