// Suite `config` (C20): defaults + config file (real YAML through serde) + command line (real argv through structopt),
// the file form round trip, and the interface netmask parser.

use crate::config::{Args, ConfigFile};
use structopt::StructOpt;

fn parse_assign(s: &str) -> Option<Vec<(String, String)>> {
    // "k=v;k=v" ("-" = nothing)
    if s == "-" {
        return Some(vec![]);
    }
    s.split(';').map(|kv| kv.split_once('=').map(|(k, v)| (k.to_string(), v.to_string()))).collect()
}

fn yaml_str(v: &str) -> String {
    format!("\"{}\"", v.replace('\\', "\\\\").replace('"', "\\\""))
}

fn yaml_list(v: &str) -> String {
    if v.is_empty() {
        return "[]".to_string();
    }
    format!("[{}]", v.split(',').map(yaml_str).collect::<Vec<_>>().join(", "))
}

/// renders the file assignments as YAML text in the documented file format
fn render_yaml(f: &[(String, String)]) -> String {
    let get = |k: &str| f.iter().find(|(kk, _)| kk == k).map(|(_, v)| v.clone());
    let mut out = String::new();
    let mut section = |name: &str, items: Vec<(&str, Option<String>, u8)>, out: &mut String| {
        // kind: 0 string, 1 raw (number / bool / enum), 2 list
        if items.iter().all(|(_, v, _)| v.is_none()) {
            return;
        }
        out.push_str(&format!("{}:\n", name));
        for (k, v, kind) in items {
            if let Some(v) = v {
                let r = match kind {
                    0 => yaml_str(&v),
                    1 => v,
                    _ => yaml_list(&v),
                };
                out.push_str(&format!("  {}: {}\n", k, r));
            }
        }
    };
    section("device", vec![("type", get("device_type"), 1), ("name", get("device_name"), 0), ("path", get("device_path"), 0), ("fix-rp-filter", get("fix_rp_filter"), 1)], &mut out);
    for (k, y, kind) in [
        ("ip", "ip", 0u8), ("advertise_addresses", "advertise-addresses", 2), ("ifup", "ifup", 0), ("ifdown", "ifdown", 0), ("listen", "listen", 0),
        ("peers", "peers", 2), ("peer_timeout", "peer-timeout", 1), ("keepalive", "keepalive", 1), ("mode", "mode", 1), ("switch_timeout", "switch-timeout", 1),
        ("claims", "claims", 2), ("auto_claim", "auto-claim", 1), ("port_forwarding", "port-forwarding", 1), ("pid_file", "pid-file", 0), ("stats_file", "stats-file", 0),
        ("user", "user", 0), ("group", "group", 0), ("hook", "hook", 0),
    ] {
        if let Some(v) = get(k) {
            let r = match kind {
                0 => yaml_str(&v),
                1 => v,
                _ => yaml_list(&v),
            };
            out.push_str(&format!("{}: {}\n", y, r));
        }
    }
    section("crypto", vec![("password", get("password"), 0), ("private-key", get("private_key"), 0), ("public-key", get("public_key"), 0), ("trusted-keys", get("trusted_keys"), 2), ("algorithms", get("algorithms"), 2)], &mut out);
    section("beacon", vec![("store", get("beacon_store"), 0), ("load", get("beacon_load"), 0), ("interval", get("beacon_interval"), 1), ("password", get("beacon_password"), 0)], &mut out);
    section("statsd", vec![("server", get("statsd_server"), 0), ("prefix", get("statsd_prefix"), 0)], &mut out);
    if let Some(h) = get("hooks") {
        out.push_str("hooks:\n");
        for kv in h.split(',') {
            if let Some((k, v)) = kv.split_once(':') {
                out.push_str(&format!("  {}: {}\n", yaml_str(k), yaml_str(v)));
            }
        }
    }
    if out.is_empty() {
        out.push_str("{}\n");
    }
    out
}

/// renders the argument assignments as a real argv
fn render_argv(a: &[(String, String)]) -> Vec<String> {
    let mut v = vec!["vpncloud".to_string()];
    for (k, val) in a {
        let flag = match k.as_str() {
            "device_type" => "--type",
            "device_name" => "--device",
            "device_path" => "--device-path",
            "ip" => "--ip",
            "ifup" => "--ifup",
            "ifdown" => "--ifdown",
            "listen" => "--listen",
            "peer_timeout" => "--peer-timeout",
            "keepalive" => "--keepalive",
            "beacon_store" => "--beacon-store",
            "beacon_load" => "--beacon-load",
            "beacon_interval" => "--beacon-interval",
            "beacon_password" => "--beacon-password",
            "mode" => "--mode",
            "switch_timeout" => "--switch-timeout",
            "pid_file" => "--pid-file",
            "stats_file" => "--stats-file",
            "statsd_server" => "--statsd-server",
            "statsd_prefix" => "--statsd-prefix",
            "user" => "--user",
            "group" => "--group",
            "password" => "--password",
            "private_key" => "--private-key",
            "public_key" => "--public-key",
            _ => "",
        };
        if !flag.is_empty() {
            v.push(flag.to_string());
            v.push(val.clone());
            continue;
        }
        let (rep, boolflag) = match k.as_str() {
            "peers" => ("--peer", ""),
            "claims" => ("--claim", ""),
            "trusted_keys" => ("--trusted-key", ""),
            "advertise_addresses" => ("--advertise_addresses", ""),
            "algorithms" => ("--algorithm", ""),
            "hook" => ("--hook", ""),
            "fix_rp_filter" => ("", "--fix-rp-filter"),
            "no_auto_claim" => ("", "--no-auto-claim"),
            "no_port_forwarding" => ("", "--no-port-forwarding"),
            "daemon" => ("", "--daemon"),
            _ => ("", ""),
        };
        if !rep.is_empty() {
            for x in val.split(',') {
                v.push(rep.to_string());
                // `%2C` stands for a comma INSIDE one value (a hook script such as "logger -t vpncloud connected,up")
                v.push(x.replace("%2C", ","));
            }
        } else if !boolflag.is_empty() && val == "true" {
            v.push(boolflag.to_string());
        }
    }
    v
}

fn cfg_str(c: &crate::config::Config) -> String {
    let o = |x: &Option<String>| x.clone().map(|s| format!("some:{}", s)).unwrap_or("none".to_string());
    let l = |x: &Vec<String>| if x.is_empty() { "-".to_string() } else { x.join(",") };
    let mut hooks: Vec<String> = c.hooks.iter().map(|(k, v)| format!("{}:{}", k, v)).collect();
    hooks.sort();
    [
        format!("device_type={}", c.device_type),
        format!("device_name={}", c.device_name),
        format!("device_path={}", o(&c.device_path)),
        format!("fix_rp_filter={}", c.fix_rp_filter),
        format!("ip={}", o(&c.ip)),
        format!("advertise_addresses={}", l(&c.advertise_addresses)),
        format!("ifup={}", o(&c.ifup)),
        format!("ifdown={}", o(&c.ifdown)),
        format!("password={}", o(&c.crypto.password)),
        format!("private_key={}", o(&c.crypto.private_key)),
        format!("public_key={}", o(&c.crypto.public_key)),
        format!("trusted_keys={}", l(&c.crypto.trusted_keys)),
        format!("algorithms={}", l(&c.crypto.algorithms)),
        format!("listen={}", c.listen),
        format!("peers={}", l(&c.peers)),
        format!("peer_timeout={}", c.peer_timeout),
        format!("keepalive={}", c.keepalive.map(|k| format!("some:{}", k)).unwrap_or("none".to_string())),
        format!("beacon_store={}", o(&c.beacon_store)),
        format!("beacon_load={}", o(&c.beacon_load)),
        format!("beacon_interval={}", c.beacon_interval),
        format!("beacon_password={}", o(&c.beacon_password)),
        format!("mode={}", c.mode),
        format!("switch_timeout={}", c.switch_timeout),
        format!("claims={}", l(&c.claims)),
        format!("auto_claim={}", c.auto_claim),
        format!("port_forwarding={}", c.port_forwarding),
        format!("daemonize={}", c.daemonize),
        format!("pid_file={}", o(&c.pid_file)),
        format!("stats_file={}", o(&c.stats_file)),
        format!("statsd_server={}", o(&c.statsd_server)),
        format!("statsd_prefix={}", o(&c.statsd_prefix)),
        format!("user={}", o(&c.user)),
        format!("group={}", o(&c.group)),
        format!("hook={}", o(&c.hook)),
        format!("hooks={}", if hooks.is_empty() { "-".to_string() } else { hooks.join(",") }),
    ]
    .join(";")
}

pub fn config_step(t: &[&str]) -> Option<String> {
    match t[0] {
        "cfgmerge" | "cfgrt" => {
            let f = parse_assign(t.get(1)?)?;
            let a = parse_assign(t.get(2)?)?;
            let yaml = render_yaml(&f);
            let file: ConfigFile = match serde_yaml::from_str(&yaml) {
                Ok(f) => f,
                Err(e) => return Some(format!("yaml-error:{}", format!("{}", e).replace(' ', "_"))),
            };
            let args = match Args::from_iter_safe(render_argv(&a)) {
                Ok(a) => a,
                Err(e) => return Some(format!("argv-error:{:?}", e.kind)),
            };
            let mut cfg = crate::config::Config::default();
            cfg.merge_file(file);
            cfg.merge_args(args);
            if t[0] == "cfgmerge" {
                return Some(cfg_str(&cfg));
            }
            // round trip through the file form
            let text = match serde_yaml::to_string(&cfg.clone().into_config_file()) {
                Ok(t) => t,
                Err(_) => return Some("serialize-error".to_string()),
            };
            let file2: ConfigFile = match serde_yaml::from_str(&text) {
                Ok(f) => f,
                Err(_) => return Some("reparse-error".to_string()),
            };
            let mut cfg2 = crate::config::Config::default();
            cfg2.merge_file(file2);
            Some(format!("eff={} rt={}", cfg_str(&cfg), cfg_str(&cfg2)))
        }
        "cfgdefault" => Some(cfg_str(&crate::config::Config::default())),
        "netmask" => {
            let text = String::from_utf8(unhex(t.get(1)?)?).ok()?;
            Some(match crate::parse_ip_netmask(&text) {
                Ok((ip, mask)) => format!("ok:{}:{}", ip, mask),
                Err(_) => "err".to_string(),
            })
        }
        _ => None,
    }
}
