// Verification driver for vpncloud: compiled into the crate (module `crate::verif_driver`) under
// --cfg dswd_vpncloud_verif.  Reads one operation per line on stdin, runs the real code in-process
// (each operation under catch_unwind), prints exactly one observation line per operation.

use std::{
    collections::HashMap,
    io::{self, BufRead, Write},
    panic::{self, AssertUnwindSafe},
};

pub fn hex(bytes: &[u8]) -> String {
    if bytes.is_empty() {
        return "-".to_string();
    }
    crate::util::bytes_to_hex(bytes)
}

pub fn unhex(s: &str) -> Option<Vec<u8>> {
    if s == "-" {
        return Some(vec![]);
    }
    if s.len() % 2 != 0 {
        return None;
    }
    let mut out = Vec::with_capacity(s.len() / 2);
    let b = s.as_bytes();
    for i in (0..b.len()).step_by(2) {
        let h = (b[i] as char).to_digit(16)?;
        let l = (b[i + 1] as char).to_digit(16)?;
        out.push((h * 16 + l) as u8);
    }
    Some(out)
}

pub fn addr_hex(a: &crate::types::Address) -> String {
    hex(&a.data[..a.len as usize])
}

include!("suite_pure.rs");
include!("suite_table.rs");
include!("suite_core.rs");
include!("suite_rot.rs");
include!("suite_codec.rs");
include!("suite_init.rs");
include!("suite_beacon.rs");
include!("suite_node.rs");
include!("suite_config.rs");

pub struct State {
    pure_: PureState,
    table: TableState,
    core: CoreState,
    rot: RotState,
    init: InitSuite,
    node: NodeSuite,
}

impl State {
    fn new() -> Self {
        State { pure_: PureState::new(), table: TableState::new(), core: CoreState::new(), rot: RotState::new(), init: InitSuite::new(), node: NodeSuite::new() }
    }

    fn step(&mut self, line: &str) -> String {
        let toks: Vec<&str> = line.split_whitespace().collect();
        if toks.is_empty() {
            return "bad-op".to_string();
        }
        if toks[0] == "reset" {
            *self = State::new();
            return "ok".to_string();
        }
        if let Some(r) = self.pure_.step(&toks) {
            return r;
        }
        if let Some(r) = self.table.step(&toks) {
            return r;
        }
        if let Some(r) = self.core.step(&toks) {
            return r;
        }
        if let Some(r) = self.rot.step(&toks) {
            return r;
        }
        if let Some(r) = codec_step(&toks) {
            return r;
        }
        if let Some(r) = self.init.step(&toks) {
            return r;
        }
        if let Some(r) = beacon_step(&toks) {
            return r;
        }
        if let Some(r) = config_step(&toks) {
            return r;
        }
        if toks[0].starts_with('n') {
            if let Some(r) = self.node.step(&toks) {
                return r;
            }
        }
        "bad-op".to_string()
    }
}

/// Largest single allocation request since the last reset: "never … an oversized allocation on arbitrary bytes" (C16) is observed here —
/// the decoders return the same value whether or not they pre-size a buffer from an unchecked length field.
pub mod alloc_probe {
    use std::alloc::{GlobalAlloc, Layout, System};
    use std::sync::atomic::{AtomicUsize, Ordering};

    pub static MAX: AtomicUsize = AtomicUsize::new(0);

    pub struct Probe;

    unsafe impl GlobalAlloc for Probe {
        unsafe fn alloc(&self, l: Layout) -> *mut u8 {
            MAX.fetch_max(l.size(), Ordering::Relaxed);
            System.alloc(l)
        }

        unsafe fn dealloc(&self, p: *mut u8, l: Layout) {
            System.dealloc(p, l)
        }

        unsafe fn realloc(&self, p: *mut u8, l: Layout, n: usize) -> *mut u8 {
            MAX.fetch_max(n, Ordering::Relaxed);
            System.realloc(p, l, n)
        }
    }

    #[global_allocator]
    static A: Probe = Probe;

    pub fn reset() {
        MAX.store(0, Ordering::Relaxed)
    }

    /// "" if the largest request stayed within two receive buffers plus 64 bytes per input byte, else " alloc=big:<bytes>"
    pub fn verdict(input_len: usize) -> String {
        let m = MAX.load(Ordering::Relaxed);
        if m > 2 * 65536 + 64 * input_len {
            format!(" alloc=big:{}", m)
        } else {
            String::new()
        }
    }
}

pub fn main() {
    // silence panic messages: a panic is an observation here
    // (VERIF_PANIC_MSG=1 prints the message and location to stderr, for the author of a replay)
    if std::env::var("VERIF_PANIC_MSG").is_ok() {
        panic::set_hook(Box::new(|info| eprintln!("panic: {}", info)));
    } else {
        panic::set_hook(Box::new(|_| {}));
    }
    let stdin = io::stdin();
    let stdout = io::stdout();
    let mut out = io::BufWriter::new(stdout.lock());
    let mut state = State::new();
    for line in stdin.lock().lines() {
        let line = match line {
            Ok(l) => l,
            Err(_) => break,
        };
        let line = line.trim_end();
        if line.is_empty() || line.starts_with('#') {
            writeln!(out, "{}", line).ok();
            continue;
        }
        let res = panic::catch_unwind(AssertUnwindSafe(|| state.step(line)));
        match res {
            Ok(obs) => writeln!(out, "{}", obs).ok(),
            Err(_) => {
                // the state may be inconsistent after a panic: start afresh
                state = State::new();
                writeln!(out, "panic").ok()
            }
        };
        // one observation per operation reaches the orchestrator at once: it tells a hang from a long script by the absence of output
        out.flush().ok();
    }
    out.flush().ok();
}
