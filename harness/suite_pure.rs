// Pure suites: frame / packet dissection, base62, range matching, netmask, keepalive interval.

pub struct PureState {}

impl PureState {
    pub fn new() -> Self {
        PureState {}
    }

    pub fn step(&mut self, t: &[&str]) -> Option<String> {
        use crate::payload::Protocol;
        match t[0] {
            "frame" | "packet" => {
                let data = unhex(t.get(1)?)?;
                let r = if t[0] == "frame" {
                    crate::payload::Frame::parse(&data)
                } else {
                    crate::payload::Packet::parse(&data)
                };
                Some(match r {
                    Ok((src, dst)) => format!("ok {} {}", addr_hex(&src), addr_hex(&dst)),
                    Err(_) => "err".to_string(),
                })
            }
            _ => None,
        }
    }
}
