// Pure suites: frame / packet dissection, base62, range matching, netmask, keepalive interval.

pub struct PureState {}

impl PureState {
    pub fn new() -> Self {
        PureState {}
    }

    pub fn step(&mut self, t: &[&str]) -> Option<String> {
        use crate::payload::Protocol;
        match t[0] {
            "frame" | "packet" => {
                let data = unhex(t.get(1)?)?;
                let r = if t[0] == "frame" {
                    crate::payload::Frame::parse(&data)
                } else {
                    crate::payload::Packet::parse(&data)
                };
                Some(match r {
                    Ok((src, dst)) => format!("ok {} {}", addr_hex(&src), addr_hex(&dst)),
                    Err(_) => "err".to_string(),
                })
            }
            _ => b62_step(t),
        }
    }
}

fn res_hex(r: Result<Vec<u8>, crate::error::Error>) -> String {
    match r {
        Ok(v) => format!("ok:{}", hex(&v)),
        Err(_) => "err".to_string(),
    }
}

fn text_or_dash(s: &str) -> String {
    if s.is_empty() { "-".to_string() } else { s.to_string() }
}

fn key_report(privk: &str, pubk: &str) -> String {
    use crate::crypto::verif_hooks_common as hc;
    let privparse = res_hex(hc::parse_private_key(privk));
    let pubparse = res_hex(hc::parse_public_key(pubk).map(|k| k.to_vec()));
    let pair = match hc::parse_keypair(privk, pubk) { Ok(_) => "ok", Err(_) => "err" };
    // a node configured with the printed keys (cipher list "plain" avoids the speed measurement)
    let cfg = crate::crypto::Config {
        password: None,
        private_key: Some(privk.to_string()),
        public_key: Some(pubk.to_string()),
        trusted_keys: vec![pubk.to_string()],
        algorithms: vec!["plain".to_string()],
    };
    let crypto = match crate::crypto::Crypto::new([0; 16], &cfg) { Ok(_) => "ok", Err(_) => "err" };
    // a configuration that ALSO carries a password (say from the config file, the key from the command line): the configured key pair is the node's
    let cfg2 = crate::crypto::Config {
        password: Some("some other password".to_string()),
        private_key: Some(privk.to_string()),
        public_key: Some(pubk.to_string()),
        trusted_keys: vec![],
        algorithms: vec!["plain".to_string()],
    };
    let both = match crate::crypto::Crypto::new([0; 16], &cfg2) { Ok(c) => format!("ok:{}", hex(&hc::crypto_public_key(&c))), Err(_) => "err".to_string() };
    let cfg3 = crate::crypto::Config { public_key: None, ..cfg2 };
    let both2 = match crate::crypto::Crypto::new([0; 16], &cfg3) { Ok(c) => format!("ok:{}", hex(&hc::crypto_public_key(&c))), Err(_) => "err".to_string() };
    // a node configured with the private key only (no password, no trusted keys): it trusts exactly its own public key
    let cfg4 = crate::crypto::Config { password: None, private_key: Some(privk.to_string()), public_key: None, trusted_keys: vec![], algorithms: vec!["plain".to_string()] };
    let deftrust = match crate::crypto::Crypto::new([0; 16], &cfg4) {
        Ok(c) => format!("ok:{}", hc::crypto_trusted(&c).iter().map(|k| hex(k)).collect::<Vec<_>>().join("+")),
        Err(_) => "err".to_string(),
    };
    // the own public key listed among the trusted keys next to another key, in both orders: the trusted set is what the list says
    let other = crate::util::to_base62(&[7u8; 32]);
    let mut trust2 = vec![];
    for tk in [vec![pubk.to_string(), other.clone()], vec![other.clone(), pubk.to_string()]] {
        let cfg5 = crate::crypto::Config { password: None, private_key: Some(privk.to_string()), public_key: None, trusted_keys: tk, algorithms: vec!["plain".to_string()] };
        trust2.push(match crate::crypto::Crypto::new([0; 16], &cfg5) {
            Ok(c) => hc::crypto_trusted(&c).iter().map(|k| hex(k)).collect::<Vec<_>>().join("+"),
            Err(_) => "err".to_string(),
        });
    }
    let trust2 = trust2.join("|");
    // "a private key always yields its matching public key": the text path the command line uses
    let derived = match crate::crypto::Crypto::public_key_from_private_key(privk) { Ok(t) => format!("ok:{}", text_or_dash(&t)), Err(_) => "err".to_string() };
    format!("privparse={} pubparse={} pair={} crypto={} both={} bothnopub={} deftrust={} derived={} trust2={}", privparse, pubparse, pair, crypto, both, both2, deftrust, derived, trust2)
}

pub fn b62_step(t: &[&str]) -> Option<String> {
    use crate::crypto::verif_hooks_common as hc;
    match t[0] {
        "b62enc" => Some(text_or_dash(&crate::util::to_base62(&unhex(t.get(1)?)?))),
        "b62dec" => {
            let text = String::from_utf8(unhex(t.get(1)?)?).ok()?;
            Some(match crate::util::from_base62(&text) {
                Ok(v) => format!("ok:{}", hex(&v)),
                Err(_) => "err".to_string(),
            })
        }
        "keypub" => {
            let text = String::from_utf8(unhex(t.get(1)?)?).ok()?;
            Some(res_hex(hc::parse_public_key(&text).map(|k| k.to_vec())))
        }
        "seedcheck" => {
            let seed = unhex(t.get(1)?)?;
            let seedpub = hc::pub_from_seed(&seed)?;
            let privk = crate::util::to_base62(&seed);
            let pubk = crate::util::to_base62(&seedpub);
            Some(format!("priv={} pub={} keypub={} {}", text_or_dash(&privk), text_or_dash(&pubk), hex(&seedpub), key_report(&privk, &pubk)))
        }
        "pwcheck" => {
            let pw = String::from_utf8(unhex(t.get(1)?)?).ok()?;
            let (privk, pubk) = crate::crypto::Crypto::generate_keypair(Some(&pw));
            let (privk2, pubk2) = crate::crypto::Crypto::generate_keypair(Some(&pw));
            let nodepub = hc::keypair_from_password(&pw);
            let again = if privk == privk2 && pubk == pubk2 { "same" } else { "diff" };
            Some(format!("priv={} pub={} keypub={} {} again={}", text_or_dash(&privk), text_or_dash(&pubk), hex(&nodepub), key_report(&privk, &pubk), again))
        }
        _ => None,
    }
}
