// Suite `core`: real `CryptoCore` pairs (C02, C03, C04).

use crate::crypto::verif_hooks_core as hcore;
use crate::util::MsgBuffer;
use ring::aead::{self, LessSafeKey, UnboundKey};

pub fn algo_by_name(s: &str) -> Option<&'static aead::Algorithm> {
    match s {
        "aes128" => Some(&aead::AES_128_GCM),
        "aes256" => Some(&aead::AES_256_GCM),
        "chacha" => Some(&aead::CHACHA20_POLY1305),
        _ => None,
    }
}

/// apply a mutation description (`flip=<bit>`, `trunc=<len>`, `set=<pos>:<byte>`, `app=<hex>`) to datagram bytes
pub fn mutate(data: &mut Vec<u8>, m: &str) -> Option<()> {
    if let Some(b) = m.strip_prefix("flip=") {
        let bit: usize = b.parse().ok()?;
        if bit / 8 < data.len() {
            data[bit / 8] ^= 0x80 >> (bit % 8);
        }
    } else if let Some(l) = m.strip_prefix("trunc=") {
        let l: usize = l.parse().ok()?;
        data.truncate(l);
    } else if let Some(x) = m.strip_prefix("set=") {
        let (p, v) = x.split_once(':')?;
        let p: usize = p.parse().ok()?;
        let v: u8 = v.parse().ok()?;
        if p < data.len() {
            data[p] = v;
        }
    } else if let Some(h) = m.strip_prefix("app=") {
        data.extend_from_slice(&unhex(h)?);
    } else if let Some(x) = m.strip_prefix("tlvlen=") {
        // tlvlen=<tag>:<hex16>: in a handshake datagram (marker, salt, key hash, TLV parts) overwrite the length field of the first part with that tag
        let (tag, v) = x.split_once(':')?;
        let tag: u8 = tag.parse().ok()?;
        let v = unhex(v)?;
        if v.len() != 2 {
            return None;
        }
        let mut pos = 9;
        while pos + 3 <= data.len() && data[pos] != 0 {
            let len = ((data[pos + 1] as usize) << 8) | data[pos + 2] as usize;
            if data[pos] == tag {
                data[pos + 1] = v[0];
                data[pos + 2] = v[1];
                break;
            }
            pos += 3 + len;
        }
    } else if let Some(h) = m.strip_prefix("endhex=") {
        // overwrite the last bytes (a signature, an authentication tag) with the given ones
        let b = unhex(h)?;
        if b.len() <= data.len() {
            let n = data.len();
            data[n - b.len()..].copy_from_slice(&b);
        }
    } else {
        return None;
    }
    Some(())
}

pub struct CoreState {
    algo: Option<&'static aead::Algorithm>,
    cores: Vec<crate::crypto::verif_hooks_core::CoreBox>,
    keys: std::collections::HashMap<String, Vec<u8>>,
    dgrams: Vec<Vec<u8>>,
}

fn nonce_hex(n: &[u8; 12]) -> String {
    hex(n)
}

impl CoreState {
    pub fn new() -> Self {
        CoreState { algo: None, cores: vec![], keys: Default::default(), dgrams: vec![] }
    }

    fn key_bytes(&mut self, name: &str) -> Vec<u8> {
        let len = self.algo.unwrap().key_len();
        self.keys
            .entry(name.to_string())
            .or_insert_with(|| {
                let mut k = vec![0u8; len];
                use ring::rand::SecureRandom;
                ring::rand::SystemRandom::new().fill(&mut k).unwrap();
                k
            })
            .clone()
    }

    fn side(s: &str) -> Option<usize> {
        match s {
            "a" => Some(0),
            "b" => Some(1),
            _ => None,
        }
    }

    fn starts(&self, i: usize) -> String {
        let (_, _, slots) = hcore::view(&self.cores[i].0);
        slots.iter().map(|s| nonce_hex(&s.send)).collect::<Vec<_>>().join(",")
    }

    pub fn step(&mut self, t: &[&str]) -> Option<String> {
        match t[0] {
            "inc" => {
                let b = unhex(t.get(1)?)?;
                if b.len() != 12 {
                    return None;
                }
                let mut n = [0u8; 12];
                n.copy_from_slice(&b);
                Some(hex(&hcore::nonce_increment(n)))
            }
            "cnew" => {
                let algo = algo_by_name(t.get(1)?)?;
                self.algo = Some(algo);
                self.keys.clear();
                self.dgrams.clear();
                let k0 = self.key_bytes("k0");
                self.cores = vec![hcore::new_core(algo, &k0, true), hcore::new_core(algo, &k0, false)];
                Some(format!("a={} b={}", self.starts(0), self.starts(1)))
            }
            "seal" => {
                let s = Self::side(t.get(1)?)?;
                let plain = unhex(t.get(2)?)?;
                let off: usize = match t.get(3) {
                    Some(o) => o.strip_prefix("off=")?.parse().ok()?,
                    None => 8,
                };
                let mut buf = MsgBuffer::new(off);
                buf.set_length(plain.len());
                buf.message_mut().copy_from_slice(&plain);
                self.cores.get_mut(s)?.0.encrypt(&mut buf);
                let d = buf.message().to_vec();
                let id = self.dgrams.len();
                let (cur, _, slots) = hcore::view(&self.cores[s].0);
                let res = format!("d{} hdr={} len={} nonce={}", id, hex(&d[..8.min(d.len())]), d.len(), nonce_hex(&slots[cur].send));
                self.dgrams.push(d);
                Some(res)
            }
            "deliver" => {
                let id: usize = t.get(1)?.strip_prefix('d')?.parse().ok()?;
                let s = Self::side(t.get(2)?)?;
                let mut d = self.dgrams.get(id)?.clone();
                for m in &t[3..] {
                    mutate(&mut d, m)?;
                }
                let mut buf = MsgBuffer::new(16);
                buf.set_length(d.len());
                buf.message_mut().copy_from_slice(&d);
                Some(match self.cores.get_mut(s)?.0.decrypt(&mut buf) {
                    Ok(()) => format!("ok:{}", hex(buf.message())),
                    Err(_) => "err".to_string(),
                })
            }
            "forge" => {
                // forge <side> <key id> <zero|ff|rand> <hex plaintext>: an outsider who was never given a session key seals a datagram under a key of
                // its own choice (all-zero, all-0xff, random), names key slot <key id>, and uses a counter in the half the receiver expects
                let s = Self::side(t.get(1)?)?;
                let key_id: u8 = t.get(2)?.parse().ok()?;
                let algo = self.algo?;
                let key = match *t.get(3)? {
                    "zero" => vec![0u8; algo.key_len()],
                    "ff" => vec![0xffu8; algo.key_len()],
                    _ => {
                        let mut k = vec![0u8; algo.key_len()];
                        use ring::rand::SecureRandom;
                        ring::rand::SystemRandom::new().fill(&mut k).unwrap();
                        k
                    }
                };
                let mut data = unhex(t.get(4)?)?;
                let (_, half, _) = hcore::view(&self.cores.get(s)?.0);
                let mut nonce = [0u8; 12];
                nonce[0] = if half { 0x00 } else { 0x80 };
                for b in nonce[6..12].iter_mut() {
                    *b = 0xff;
                }
                let k = LessSafeKey::new(UnboundKey::new(algo, &key).ok()?);
                k.seal_in_place_append_tag(aead::Nonce::assume_unique_for_key(nonce), aead::Aad::empty(), &mut data).ok()?;
                let mut d = vec![key_id];
                d.extend_from_slice(&nonce[5..12]);
                d.extend_from_slice(&data);
                let mut buf = MsgBuffer::new(16);
                buf.set_length(d.len());
                buf.message_mut().copy_from_slice(&d);
                Some(match self.cores.get_mut(s)?.0.decrypt(&mut buf) {
                    Ok(()) => format!("ok:{}", hex(buf.message())),
                    Err(_) => "err".to_string(),
                })
            }
            "tick" => {
                let s = Self::side(t.get(1)?)?;
                self.cores.get_mut(s)?.0.every_second();
                Some("ok".to_string())
            }
            "rotate" => {
                let s = Self::side(t.get(1)?)?;
                let id: u64 = t.get(2)?.parse().ok()?;
                let use_: bool = *t.get(3)? == "1";
                let key = self.key_bytes(t.get(4)?);
                let algo = self.algo?;
                hcore::rotate(self.cores.get_mut(s)?, algo, &key, id, use_);
                let (_, _, slots) = hcore::view(&self.cores[s].0);
                Some(format!("start={}", nonce_hex(&slots[(id % 4) as usize].send)))
            }
            "setsend" => {
                let s = Self::side(t.get(1)?)?;
                let slot: usize = t.get(2)?.parse().ok()?;
                let b = unhex(t.get(3)?)?;
                if b.len() != 12 || slot >= 4 {
                    return None;
                }
                let mut n = [0u8; 12];
                n.copy_from_slice(&b);
                hcore::set_send_nonce(&mut self.cores.get_mut(s)?.0, slot, n);
                Some("ok".to_string())
            }
            "view" => {
                let s = Self::side(t.get(1)?)?;
                let (cur, half, slots) = hcore::view(&self.cores.get(s)?.0);
                let sl: Vec<String> = slots
                    .iter()
                    .map(|k| format!("{}/{}/{}/{}", nonce_hex(&k.send), nonce_hex(&k.min), nonce_hex(&k.next_min), nonce_hex(&k.seen)))
                    .collect();
                Some(format!("cur={} half={} slots={}", cur, half as u8, sl.join(",")))
            }
            _ => None,
        }
    }
}
