// Suite `codec` (C16): NodeInfo, RotationMessage, Range wire codecs.

use crate::messages::{NodeInfo, PeerInfo};
use std::net::{Ipv6Addr, SocketAddrV4, SocketAddrV6};

pub fn sock_str(a: &SocketAddr) -> String {
    match a {
        SocketAddr::V4(v) => format!("4:{}:{}", hex(&v.ip().octets()), v.port()),
        SocketAddr::V6(v) => format!("6:{}:{}", hex(&v.ip().octets()), v.port()),
    }
}

pub fn parse_sock(s: &str) -> Option<SocketAddr> {
    let mut it = s.split(':');
    let fam = it.next()?;
    let ip = unhex(it.next()?)?;
    let port: u16 = it.next()?.parse().ok()?;
    match fam {
        "4" if ip.len() == 4 => Some(SocketAddr::V4(SocketAddrV4::new(Ipv4Addr::new(ip[0], ip[1], ip[2], ip[3]), port))),
        "6" if ip.len() == 16 => {
            let mut o = [0u8; 16];
            o.copy_from_slice(&ip);
            Some(SocketAddr::V6(SocketAddrV6::new(Ipv6Addr::from(o), port, 0, 0)))
        }
        _ => None,
    }
}

pub fn parse_socks(s: &str) -> Option<Vec<SocketAddr>> {
    if s == "-" {
        return Some(vec![]);
    }
    s.split(',').map(parse_sock).collect()
}

pub fn socks_str(l: &[SocketAddr]) -> String {
    if l.is_empty() {
        "-".to_string()
    } else {
        l.iter().map(sock_str).collect::<Vec<_>>().join(",")
    }
}

/// `id=<hex16> peers=<nodeid|->@<socks>;… claims=<ranges> timeout=<n|-> addrs=<socks>`
pub fn parse_node_info(t: &[&str]) -> Option<NodeInfo> {
    let mut f = std::collections::HashMap::new();
    for x in t {
        let (k, v) = x.split_once('=')?;
        f.insert(k, v);
    }
    let idb = unhex(f.get("id")?)?;
    if idb.len() != 16 {
        return None;
    }
    let mut node_id = [0u8; 16];
    node_id.copy_from_slice(&idb);
    let mut peers = smallvec::SmallVec::new();
    let ps = *f.get("peers")?;
    if ps != "-" {
        for p in ps.split(';') {
            let (nid, addrs) = p.split_once('@')?;
            let node_id = if nid == "-" {
                None
            } else {
                let b = unhex(nid)?;
                if b.len() != 16 {
                    return None;
                }
                let mut x = [0u8; 16];
                x.copy_from_slice(&b);
                Some(x)
            };
            peers.push(PeerInfo { node_id, addrs: parse_socks(addrs)?.into_iter().collect() });
        }
    }
    let claims = parse_ranges(f.get("claims")?)?.into_iter().collect();
    let to = *f.get("timeout")?;
    let peer_timeout = if to == "-" { None } else { Some(to.parse().ok()?) };
    let addrs = parse_socks(f.get("addrs")?)?.into_iter().collect();
    Some(NodeInfo { node_id, peers, claims, peer_timeout, addrs })
}

pub fn node_info_str(n: &NodeInfo) -> String {
    let peers: Vec<String> = n
        .peers
        .iter()
        .map(|p| format!("{}@{}", p.node_id.map(|i| hex(&i)).unwrap_or("-".to_string()), socks_str(&p.addrs)))
        .collect();
    let claims: Vec<String> = n.claims.iter().map(range_str).collect();
    format!(
        "id={} peers={} claims={} timeout={} addrs={}",
        hex(&n.node_id),
        if peers.is_empty() { "-".to_string() } else { peers.join(";") },
        if claims.is_empty() { "-".to_string() } else { claims.join(",") },
        n.peer_timeout.map(|t| t.to_string()).unwrap_or("-".to_string()),
        socks_str(&n.addrs)
    )
}

fn ni_encode(n: &NodeInfo) -> Vec<u8> {
    // the buffer a message is encoded into is reused in the running node: it is not zeroed
    let mut buf = MsgBuffer::new(100);
    for b in buf.buffer().iter_mut() {
        *b = 0xa5;
    }
    buf.clear();
    n.encode(&mut buf);
    buf.message().to_vec()
}

fn ni_decode(b: &[u8]) -> String {
    match NodeInfo::decode(std::io::Cursor::new(b)) {
        Ok(n) => format!("ok:{}", node_info_str(&n).replace(' ', "|")),
        Err(_) => "err".to_string(),
    }
}

/// offsets of the part boundaries of a TLV encoding (start of each part, including the END marker)
fn part_boundaries(b: &[u8]) -> Vec<usize> {
    let mut res = vec![];
    let mut pos = 0;
    while pos < b.len() {
        res.push(pos);
        if b[pos] == 0 {
            break;
        }
        if pos + 3 > b.len() {
            break;
        }
        let len = ((b[pos + 1] as usize) << 8) | b[pos + 2] as usize;
        pos += 3 + len;
    }
    res
}

pub fn codec_step(t: &[&str]) -> Option<String> {
    match t[0] {
        "ni-rt" => {
            let n = parse_node_info(&t[1..])?;
            let enc = ni_encode(&n);
            Some(format!("enc={} dec={}", hex(&enc), ni_decode(&enc)))
        }
        "ni-unk" => {
            // ni-unk <pos> <tag> <bodyhex> <node info fields…>: insert an unknown part at part boundary <pos>
            let pos: usize = t.get(1)?.parse().ok()?;
            let tag: u8 = t.get(2)?.parse().ok()?;
            let body = unhex(t.get(3)?)?;
            let n = parse_node_info(&t[4..])?;
            let mut enc = ni_encode(&n);
            let b = part_boundaries(&enc);
            let at = b[pos % b.len()];
            let mut part = vec![tag, (body.len() >> 8) as u8, (body.len() & 255) as u8];
            part.extend_from_slice(&body);
            enc.splice(at..at, part);
            Some(format!("dec={}", ni_decode(&enc)))
        }
        "ni-dec" => {
            let b = unhex(t.get(1)?)?;
            alloc_probe::reset();
            let r = ni_decode(&b);
            Some(format!("{}{}", r, alloc_probe::verdict(b.len())))
        }
        "range-dec" => {
            let b = unhex(t.get(1)?)?;
            alloc_probe::reset();
            let r = match Range::read_from(std::io::Cursor::new(&b)) {
                Ok(r) => format!("ok:{}", range_str(&r)),
                Err(_) => "err".to_string(),
            };
            Some(format!("{}{}", r, alloc_probe::verdict(b.len())))
        }
        "range-enc" => {
            let r = parse_range(t.get(1)?)?;
            let mut buf = vec![];
            r.write_to(&mut buf);
            Some(hex(&buf))
        }
        "rm-dec" => {
            let b = unhex(t.get(1)?)?;
            alloc_probe::reset();
            let r = match hrot::RotationMessage::read_from(std::io::Cursor::new(&b)) {
                Ok(m) => {
                    let (id, p, c) = hrot::msg_fields(&m);
                    format!("ok:id={}|p={}|c={}", id, hex(&p), c.map(|c| hex(&c)).unwrap_or("none".to_string()))
                }
                Err(_) => "err".to_string(),
            };
            Some(format!("{}{}", r, alloc_probe::verdict(b.len())))
        }
        _ => None,
    }
}
