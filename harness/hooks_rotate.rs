#[allow(unused_imports)]
use super::*;

pub fn msg_fields(m: &RotationMessage) -> (u64, Vec<u8>, Option<Vec<u8>>) {
    (m.message_id, m.propose.bytes().to_vec(), m.confirm.as_ref().map(|c| c.bytes().to_vec()))
}

pub fn state_view(s: &RotationState) -> (u64, bool, bool, bool, bool) {
    (s.message_id, s.timeout, s.proposed.is_some(), s.pending.is_some(), s.confirmed.is_some())
}

pub use super::{RotatedKey, RotationMessage, RotationState};
