#[allow(unused_imports)]
use super::*;

pub fn msg_fields(m: &RotationMessage) -> (u64, Vec<u8>, Option<Vec<u8>>) {
    (m.message_id, m.propose.bytes().to_vec(), m.confirm.as_ref().map(|c| c.bytes().to_vec()))
}

pub fn state_view(s: &RotationState) -> (u64, bool, bool, bool, bool) {
    (s.message_id, s.timeout, s.proposed.is_some(), s.pending.is_some(), s.confirmed.is_some())
}

pub use super::{RotatedKey, RotationMessage, RotationState};

/// public keys of the ephemeral pairs a rotation state currently holds: (proposed, pending)
pub fn key_view(s: &RotationState) -> (Option<Vec<u8>>, Option<Vec<u8>>) {
    let prop = s.proposed.as_ref().map(|p| RotationState::compute_public_key(p).bytes().to_vec());
    let pend = s.pending.as_ref().map(|(_, p)| p.bytes().to_vec());
    (prop, pend)
}
