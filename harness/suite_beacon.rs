// Suite `beacon` (C17): the beacon text codec over the mock clock.

use crate::beacon::BeaconSerializer;

fn socks_v6mapped_str(l: &[SocketAddr]) -> String {
    socks_str(l)
}

/// insert separators into a beacon text: mode 0 none, 1 a dash every 5 chars, 2 newline+space every 7, 3 mixed punctuation after every char
fn interleave(text: &str, mode: u8) -> String {
    let mut out = String::new();
    for (i, c) in text.chars().enumerate() {
        out.push(c);
        match mode {
            1 if i % 5 == 4 => out.push('-'),
            2 if i % 7 == 6 => out.push_str("\n "),
            3 => out.push(['.', ' ', '_', '/', '+', '=', '\t'][i % 7]),
            // control characters and other ASCII that is neither alphanumeric, blank nor common punctuation
            4 => out.push(['\u{0}', '\u{7f}', '\u{b}', '\u{1}', '~', '|', '\u{1f}'][i % 7]),
            _ => {}
        }
    }
    out
}

pub fn beacon_step(t: &[&str]) -> Option<String> {
    match t[0] {
        "benc" => {
            let pw = unhex(t.get(1)?)?;
            let hour: i64 = t.get(2)?.parse().ok()?;
            let peers = parse_socks(t.get(3)?)?;
            MockTimeSource::set_time(hour * 3600);
            let ser = BeaconSerializer::<MockTimeSource>::new(&pw);
            let (b, e) = crate::beacon::verif_hooks::markers(&ser);
            Some(format!("text={} begin={} end={}", ser.encode(&peers), b, e))
        }
        "bdec" => {
            let pw = unhex(t.get(1)?)?;
            let now: i64 = t.get(2)?.parse().ok()?;
            let ttl = if *t.get(3)? == "-" { None } else { Some(t.get(3)?.parse::<u16>().ok()?) };
            let text = String::from_utf8(unhex(t.get(4)?)?).ok()?;
            MockTimeSource::set_time(now * 3600);
            let ser = BeaconSerializer::<MockTimeSource>::new(&pw);
            Some(format!("got={}", socks_v6mapped_str(&ser.decode(&text, ttl))))
        }
        "brt" => {
            // brt <pwenc> <pwdec> <hour> <nowhour> <ttl|-> <socks> <prehex> <sepmode> <posthex>
            let pw1 = unhex(t.get(1)?)?;
            let pw2 = unhex(t.get(2)?)?;
            let hour: i64 = t.get(3)?.parse().ok()?;
            let now: i64 = t.get(4)?.parse().ok()?;
            let ttl = if *t.get(5)? == "-" { None } else { Some(t.get(5)?.parse::<u16>().ok()?) };
            let peers = parse_socks(t.get(6)?)?;
            let pre = String::from_utf8(unhex(t.get(7)?)?).ok()?;
            let mode: u8 = t.get(8)?.parse().ok()?;
            let post = String::from_utf8(unhex(t.get(9)?)?).ok()?;
            MockTimeSource::set_time(hour * 3600);
            let ser1 = BeaconSerializer::<MockTimeSource>::new(&pw1);
            let beacon = ser1.encode(&peers);
            let text = format!("{}{}{}", pre, interleave(&beacon, mode), post);
            MockTimeSource::set_time(now * 3600);
            let ser2 = BeaconSerializer::<MockTimeSource>::new(&pw2);
            Some(format!("text={} got={}", beacon, socks_v6mapped_str(&ser2.decode(&text, ttl))))
        }
        _ => None,
    }
}
