#[allow(unused_imports)]
use super::*;
use crate::device::MockDevice;
use crate::net::MockSocket;
use crate::util::MockTimeSource;

pub type MockCloud<P> = GenericCloud<MockDevice, P, MockSocket, MockTimeSource>;

pub struct PeerView {
    pub addr: SocketAddr,
    pub node_id: NodeId,
    pub timeout: Time,
    pub peer_timeout: u16,
    pub addrs: Vec<SocketAddr>,
    pub crypto: String,
}

pub struct NodeView {
    pub node_id: NodeId,
    pub peers: Vec<PeerView>,
    pub pending: Vec<(SocketAddr, String)>,
    pub own_addresses: Vec<SocketAddr>,
    pub next_peers: Time,
    pub reconnect: Vec<(Vec<SocketAddr>, u16, u16, Time)>,
    pub dropped: (u64, usize, u64, usize),
    pub learning: bool,
    pub broadcast: bool,
}

impl<P: Protocol> MockCloud<P> {
    pub fn v_socket(&mut self) -> &mut MockSocket {
        &mut self.socket
    }

    pub fn v_device(&mut self) -> &mut MockDevice {
        &mut self.device
    }

    /// socket event with a caller-owned (persistent) receive buffer, as `run()` does it
    pub fn v_socket_event(&mut self, buffer: &mut MsgBuffer) {
        self.handle_socket_event(buffer)
    }

    pub fn v_device_event(&mut self, buffer: &mut MsgBuffer) {
        self.handle_device_event(buffer)
    }

    /// a key-holding peer seals an arbitrary plaintext for `addr` and puts it on the wire
    pub fn v_seal_raw(&mut self, addr: SocketAddr, plain: &[u8]) -> bool {
        let data = match self.peers.get_mut(&addr) {
            Some(peer) => crate::crypto::verif_hooks_common::seal_raw(&mut peer.crypto, plain),
            None => None,
        };
        match data {
            Some(d) => self.socket.send(&d, addr).is_ok(),
            None => false,
        }
    }

    pub fn v_housekeep(&mut self) -> Result<(), Error> {
        self.housekeep()
    }

    pub fn v_set_crypto(&mut self, crypto: Crypto) {
        self.crypto = crypto
    }

    pub fn v_table(&self) -> &ClaimTable<MockTimeSource> {
        &self.table
    }

    pub fn v_view(&self, state_of: &dyn Fn(&PeerCrypto<NodeInfo>) -> String) -> NodeView {
        NodeView {
            node_id: self.node_id,
            peers: self
                .peers
                .iter()
                .map(|(a, p)| PeerView {
                    addr: *a,
                    node_id: p.node_id,
                    timeout: p.timeout,
                    peer_timeout: p.peer_timeout,
                    addrs: p.addrs.iter().copied().collect(),
                    crypto: state_of(&p.crypto),
                })
                .collect(),
            pending: self.pending_inits.iter().map(|(a, c)| (*a, state_of(c))).collect(),
            own_addresses: self.own_addresses.iter().copied().collect(),
            next_peers: self.next_peers,
            reconnect: self.reconnect_peers.iter().map(|e| (e.resolved.iter().copied().collect(), e.tries, e.timeout, e.next)).collect(),
            dropped: (self.traffic.dropped.in_bytes_total + self.traffic.dropped.in_bytes, self.traffic.dropped.in_packets_total + self.traffic.dropped.in_packets, self.traffic.dropped.out_bytes_total + self.traffic.dropped.out_bytes, self.traffic.dropped.out_packets_total + self.traffic.dropped.out_packets),
            learning: self.learning,
            broadcast: self.broadcast,
        }
    }

    pub fn v_clear_fake_peers(&mut self) {
        self.peers.retain(|_, p| p.node_id != [9; 16]);
    }

    /// a peer entry with a plain (unencrypted) session that advertised the given timeout — only for the sweep of the announcement interval
    pub fn v_add_fake_peer(&mut self, addr: SocketAddr, peer_timeout: u16) {
        let mut crypto = self.crypto.peer_instance(self.create_node_info());
        crate::crypto::verif_hooks_common::force_plain(&mut crypto);
        self.peers.insert(
            addr,
            PeerData { addrs: smallvec![addr], last_seen: MockTimeSource::now(), timeout: MockTimeSource::now() + 100_000, peer_timeout, node_id: [9; 16], crypto },
        );
    }
}
