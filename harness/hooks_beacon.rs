#[allow(unused_imports)] use super::*;
