#[allow(unused_imports)]
use super::*;

pub fn markers<TS: TimeSource>(s: &BeaconSerializer<TS>) -> (String, String) {
    (s.begin(), s.end())
}
