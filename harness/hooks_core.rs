#[allow(unused_imports)]
use super::*;

/// `Nonce::increment` on a caller-supplied value
pub fn nonce_increment(n: [u8; NONCE_LEN]) -> [u8; NONCE_LEN] {
    let mut x = Nonce(n);
    x.increment();
    x.0
}

pub struct SlotView {
    pub send: [u8; NONCE_LEN],
    pub min: [u8; NONCE_LEN],
    pub next_min: [u8; NONCE_LEN],
    pub seen: [u8; NONCE_LEN],
}

pub fn view(core: &CryptoCore) -> (usize, bool, Vec<SlotView>) {
    let slots = core
        .keys
        .iter()
        .map(|k| SlotView { send: k.send_nonce.0, min: k.min_nonce.0, next_min: k.next_min_nonce.0, seen: k.seen_nonce.0 })
        .collect();
    (core.current_key, core.nonce_half, slots)
}

pub fn set_send_nonce(core: &mut CryptoCore, slot: usize, n: [u8; NONCE_LEN]) {
    core.keys[slot].send_nonce = Nonce(n);
}

/// owner of a `CryptoCore` for the driver (the type itself is private to the crypto module)
pub struct CoreBox(pub CryptoCore);

pub fn new_core(algo: &'static aead::Algorithm, key: &[u8], half: bool) -> CoreBox {
    CoreBox(CryptoCore::new(LessSafeKey::new(UnboundKey::new(algo, key).unwrap()), half))
}

pub fn rotate(core: &mut CoreBox, algo: &'static aead::Algorithm, key: &[u8], id: u64, use_for_sending: bool) {
    core.0.rotate_key(LessSafeKey::new(UnboundKey::new(algo, key).unwrap()), id, use_for_sending)
}
