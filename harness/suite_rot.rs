// Suite `rot`: real `RotationState` objects driving real `CryptoCore` key slots (C07).

use crate::crypto::verif_hooks_rotate as hrot;

pub struct RotState {
    algo: Option<&'static aead::Algorithm>,
    rot: Vec<hrot::RotationState>,
    cores: Vec<hcore::CoreBox>,
    msgs: Vec<(usize, Vec<u8>)>,       // (sender, bytes)
    pubkeys: Vec<Vec<u8>>,
    keymat: Vec<Vec<u8>>,              // rotated-in key material, numbered by first installation (either side)
    send_id: [u64; 2],
    mark_idx: usize,
    next_fresh: [usize; 2],
}

impl RotState {
    pub fn new() -> Self {
        RotState { algo: None, rot: vec![], cores: vec![], msgs: vec![], pubkeys: vec![], keymat: vec![], send_id: [0, 0], mark_idx: 0, next_fresh: [0, 0] }
    }

    fn kid(&mut self, k: &[u8]) -> String {
        if let Some(i) = self.pubkeys.iter().position(|x| x == k) {
            return format!("e{}", i);
        }
        self.pubkeys.push(k.to_vec());
        format!("e{}", self.pubkeys.len() - 1)
    }

    fn describe(&mut self, sender: usize, bytes: &[u8]) -> String {
        let m = hrot::RotationMessage::read_from(std::io::Cursor::new(bytes)).unwrap();
        let (id, p, c) = hrot::msg_fields(&m);
        let ps = self.kid(&p);
        let cs = match c {
            Some(c) => self.kid(&c),
            None => "-".to_string(),
        };
        self.msgs.push((sender, bytes.to_vec()));
        format!("m{}:id={}:p={}:c={}", self.msgs.len() - 1, id, ps, cs)
    }

    fn install(&mut self, side: usize, rk: Option<hrot::RotatedKey>) -> String {
        match rk {
            None => "-".to_string(),
            Some(rk) => {
                let algo = self.algo.unwrap();
                hcore::rotate(&mut self.cores[side], algo, &rk.key[..algo.key_len()], rk.id, rk.use_for_sending);
                if rk.use_for_sending {
                    self.send_id[side] = rk.id;
                }
                let km = rk.key[..algo.key_len()].to_vec();
                let kn = match self.keymat.iter().position(|x| *x == km) {
                    Some(i) => i,
                    None => {
                        self.keymat.push(km);
                        self.keymat.len() - 1
                    }
                };
                format!("{}:{}:k{}", rk.id, rk.use_for_sending as u8, kn)
            }
        }
    }

    pub fn step(&mut self, t: &[&str]) -> Option<String> {
        match t[0] {
            "rnew" => {
                let algo = algo_by_name(t.get(1)?)?;
                *self = RotState::new();
                self.algo = Some(algo);
                let mut k0 = vec![0u8; algo.key_len()];
                use ring::rand::SecureRandom;
                ring::rand::SystemRandom::new().fill(&mut k0).unwrap();
                self.cores = vec![hcore::new_core(algo, &k0, true), hcore::new_core(algo, &k0, false)];
                let mut out = MsgBuffer::new(16);
                let a = hrot::RotationState::new(true, &mut out);
                let first = out.message().to_vec();
                out.clear();
                let b = hrot::RotationState::new(false, &mut out);
                self.rot = vec![a, b];
                Some(format!("msg={}", self.describe(0, &first)))
            }
            "rcycle" => {
                let s = CoreState::side(t.get(1)?)?;
                let mut out = MsgBuffer::new(16);
                let rk = self.rot.get_mut(s)?.cycle(&mut out);
                let rot = self.install(s, rk);
                let msg = if out.is_empty() { "-".to_string() } else { self.describe(s, &out.message().to_vec()) };
                Some(format!("msg={} rot={}", msg, rot))
            }
            "rdeliver" => {
                let id: usize = t.get(1)?.strip_prefix('m')?.parse().ok()?;
                let s = CoreState::side(t.get(2)?)?;
                let bytes = self.msgs.get(id)?.1.clone();
                let rk = match self.rot.get_mut(s)?.handle_message(&bytes) {
                    Ok(rk) => rk,
                    Err(_) => return Some("err".to_string()),
                };
                Some(format!("rot={}", self.install(s, rk)))
            }
            "rdeliver-latest" => {
                // deliver to <side> the k-th most recent message of the other side (no-op when there is none)
                let s = CoreState::side(t.get(1)?)?;
                let k: usize = t.get(2)?.parse().ok()?;
                let cand: Vec<usize> = self.msgs.iter().enumerate().filter(|(_, m)| m.0 == 1 - s).map(|(i, _)| i).collect();
                if k >= cand.len() {
                    return Some("none".to_string());
                }
                let id = cand[cand.len() - 1 - k];
                let bytes = self.msgs[id].1.clone();
                let rk = match self.rot.get_mut(s)?.handle_message(&bytes) {
                    Ok(rk) => rk,
                    Err(_) => return Some("err".to_string()),
                };
                Some(format!("m{} rot={}", id, self.install(s, rk)))
            }
            "probe" => {
                let mut res = vec![];
                for (from, to) in [(0usize, 1usize), (1, 0)] {
                    let mut buf = MsgBuffer::new(16);
                    buf.set_length(4);
                    buf.message_mut().copy_from_slice(&[1, 2, 3, 4]);
                    self.cores.get_mut(from)?.0.encrypt(&mut buf);
                    let ok = self.cores.get_mut(to)?.0.decrypt(&mut buf).is_ok() && buf.message() == [1, 2, 3, 4];
                    res.push(if ok { "ok" } else { "err" });
                }
                let (ca, _, _) = hcore::view(&self.cores[0].0);
                let (cb, _, _) = hcore::view(&self.cores[1].0);
                Some(format!("ab={} ba={} cura={} curb={} senda={} sendb={}", res[0], res[1], ca, cb, self.send_id[0], self.send_id[1]))
            }
            "mark" => {
                self.mark_idx = self.msgs.len();
                self.next_fresh = [self.mark_idx, self.mark_idx];
                Some("ok".to_string())
            }
            "rdeliver-fresh" => {
                // deliver to <side>, in order and once each, the messages the other side sent since the last `mark`
                let s = CoreState::side(t.get(1)?)?;
                let mut res = vec![];
                while self.next_fresh[s] < self.msgs.len() {
                    let id = self.next_fresh[s];
                    self.next_fresh[s] += 1;
                    if self.msgs[id].0 != 1 - s {
                        continue;
                    }
                    let bytes = self.msgs[id].1.clone();
                    match self.rot.get_mut(s)?.handle_message(&bytes) {
                        Ok(rk) => {
                            let r = self.install(s, rk);
                            res.push(format!("m{}:{}", id, r))
                        }
                        Err(_) => res.push(format!("m{}:err", id)),
                    }
                }
                Some(if res.is_empty() { "none".to_string() } else { res.join(",") })
            }
            "expect-advance" => Some("ok".to_string()),
            _ => None,
        }
    }
}
