#!/bin/sh
# MANIFEST.setup_cmd: build the framework from files on disk only (offline).
set -e
cd "$(dirname "$0")"
HERE="$(pwd)"
export CARGO_NET_OFFLINE=true
mkdir -p .build evidence replays
python3 translate/translate.py "${VERIF_REPO:-/repo}" lean/VpnCloud/Generated
(cd lean && lake build VpnCloud vpmodel)
(cd "${VERIF_REPO:-/repo}" && RUSTFLAGS='--cfg dswd_vpncloud_verif -A unused -A unexpected_cfgs' \
  VPNCLOUD_VERIF_DRIVER_DIR="$HERE/harness" CARGO_TARGET_DIR="$HERE/.build/target" cargo build --offline)
echo setup done
